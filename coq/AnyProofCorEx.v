(* AnyProofCorEx.v -- non-vacuity of AnyProofCor.v on the toy instance sc_cr of SoundCore.v: the hypotheses of
   its theorems are met by concrete replica histories containing proofs of shapes (and with sizes) that
   no RInv-based theorem covers. *)
From HC Require Import Base NMap Codec CodecFacts Crypto FlatTree Storage Bitfield Oplog Merkle Core.
From HC Require Import FlatTreeFacts StorageFacts BitfieldFacts OplogFacts TreeRef OffsetFacts CoreFacts
                       Sound NoPanic Refine Replicate SoundCoreLib SoundCore SoundCoreUp SoundCoreBU
                       NoPanic2 EventsAvail CacheModel CacheOps ReplicaCor ReplicaCorA
                       AnyProofLib AnyProofUp AnyProof AnyProofEx AnyProofCorLib AnyProofCor.
From Coq Require Import FMapPositive ZifyN ZifyNat ZifyBool.
Ltac Zify.zify_post_hook ::= Z.div_mod_to_equations.
Arguments N.add : simpl never.
Arguments N.sub : simpl never.
Arguments N.mul : simpl never.
Arguments N.div : simpl never.
Arguments N.modulo : simpl never.
Arguments N.pow : simpl never.
Arguments N.eqb : simpl never.
Arguments N.ltb : simpl never.
Arguments N.leb : simpl never.
Arguments N.of_nat : simpl never.
Arguments N.to_nat : simpl never.

(* the writer (six blocks [1;2;3] [] [4] [5;6;7;8] [9;10] [11]) answers "block 3 + upgrade 0..5": block
   nodes [4; 1], upgrade node [8], ADDITIONAL node [10].  The sizes of the sibling pair (8, 10) -- an upgrade
   node and an additional node -- are shifted (1 + 2 instead of 2 + 1): not covered by block_upgrade_ok *)
Definition cor_pf1 : option proof :=
  match snd (ex_run sc_W (core_create_proof (Some (mkReqBlock 3 0)) None None (Some (mkReqUpgrade 0 5)))) with
  | Some (Ok (Some pf)) =>
      match p_upgrade pf with
      | Some u =>
          match du_nodes u, du_additional u with
          | [n8], [n10] =>
              Some (mkProof (p_fork pf) (p_block pf) None None
                      (Some (mkDataUpgrade (du_start u) (du_length u) [co_resize n8 (n_length n8 - 1)]
                               [co_resize n10 (n_length n10 + 1)] (du_signature u))))
          | _, _ => None
          end
      | _ => None
      end
  | _ => None
  end.

(* the fresh replica after that proof *)
Definition cor_s1 : option (core * world) :=
  match cor_pf1 with Some pf => fst (ex_run sc_R0 (core_apply_proof sc_cr (Some false) pf)) | None => None end.

(* a hash section made of ONE node: flat 4 (the leaf of block 2, size 1) with the stored hash and size 7 *)
Definition cor_pfL : option proof := lone_proof cor_s1 4 7.

(* a replica history: a read that misses, the proof above (accepted), a read that hits, the same block with
   another fork (refused), the one-node hash section (accepted: a stored size is now wrong), a proof
   request, missing_nodes, make_read_only, an append attempt (NotWritable) *)
Definition cor_hist (pf1 pfL : proof) : list op :=
  [OGet 3; OApply (Some false) pf1; OGet 3; OApply None (mkProof 1 (p_block pf1) None None None);
   OApply (Some true) pfL;
   OCreateProof (Some (mkReqBlock 3 0)) None None None; OMissingNodes 2; OMakeReadOnly; OAppend None [[1]]].

(* ... followed by an apply that FAILS (AnyProofEx.any_proof, a hash section with the upgrade 0..5, on a
   replica that is already at length 6: Err InvalidOperation) *)
Definition cor_hist2 (pf1 pfL pfH : proof) : list op := cor_hist pf1 pfL ++ [OApply (Some false) pfH].

Lemma any_op_apply f pf : proof_okb pf = true -> any_op sc_cr (OApply f pf).
Proof. intros H1. apply proof_okb_wire, H1. Qed.

Ltac any_ops :=
  repeat (apply Forall_cons; [first [exact I | apply any_op_apply; vm_compute; reflexivity]|]); apply Forall_nil.

Lemma sc_small : len (enc_header (header_new (mkKeypair sc_key None))) < 1073741824.
Proof. vm_compute. reflexivity. Qed.

Lemma sc_lim : N.of_nat (length sc_blocks) < LIM.
Proof. vm_compute. reflexivity. Qed.

(* ====================================================================================== *)
(* 1 + 3. any_history_avail / any_history_create_proof_returns                             *)
(* ====================================================================================== *)

Example sc_any_history_applies :
  match sc_R0, cor_pf1, cor_pfL with
  | Some (c, w), Some pf1, Some pfL =>
      exists c' w' oks,
        run_ops sc_cr (cor_hist pf1 pfL) c w = (c', w', oks) /\
        (* the hypotheses *)
        HBInv sc_cr sc_blocks c (w_disk w) /\ sig_ok (c_tree c) /\ kp_secret (c_keypair c) = None /\
        Forall (any_op sc_cr) (cor_hist pf1 pfL) /\ applies_ok (cor_hist pf1 pfL) oks /\
        (* what happened *)
        oks = [true; true; true; true; true; false; true; true; false] /\
        t_length (c_tree c) = 0 /\ t_length (c_tree c') = 6 /\
        core_has c 3 = false /\ core_has c' 3 = true /\
        w_events w' = [EvHave 3 1 false; EvUpgrade; EvGet 3] ++ w_events w /\
        (* three stored sizes are not the writer's *)
        map (fun j => option_map n_length (lone_node (Some (c', w')) j)) [4; 8; 10] = [Some 7; Some 1; Some 2] /\
        map (fun j => n_length (ref_at sc_cr sc_blocks j)) [4; 8; 10] = [1; 2; 1] /\
        (* the conclusion of any_history_avail *)
        ((HBInv sc_cr sc_blocks c' (w_disk w') /\ c_keypair c' = c_keypair c /\
          t_length (c_tree c) <= t_length (c_tree c') /\
          exists evs, w_events w' = evs ++ w_events w /\
            (forall i, core_has c i || announced evs i = true -> core_has c' i = true) /\
            (applies_ok (cor_hist pf1 pfL) oks -> forall i, core_has c' i = core_has c i || announced evs i) /\
            (forall i, announced evs i = true -> i < t_length (c_tree c'))) \/
         some_collision sc_cr \/ forged_signature sc_cr sc_blocks (kp_public (c_keypair c))) /\
        (* the conclusion of any_history_create_proof_returns *)
        (forall block hash seek upgrade c2 w2 r,
           rblock_lim block = true -> rblock_lim hash = true -> rupgrade_lim upgrade = true ->
           core_create_proof block hash seek upgrade c' w' = (c2, w2, r) ->
           (returns r = true /\ c2 = c' /\ w_disk w2 = w_disk w' /\ w_journal w2 = w_journal w') \/
           some_collision sc_cr \/ forged_signature sc_cr sc_blocks (kp_public (c_keypair c))) /\
        (* the replica answers a request for the upgrade 0..6 *)
        (exists pf, core_create_proof None None None (Some (mkReqUpgrade 0 6)) c' w' = (c', w', Ok (Some pf)))
  | _, _, _ => False
  end.
Proof.
  destruct (fresh_replica sc_cr sc_hash32 sc_nonblank sc_blocks _ sc_small) as (d0 & ops0 & c & Hopen & HR & K & Hs).
  unfold sc_R0, sc_open. rewrite Hopen.
  destruct cor_pf1 as [pf1|] eqn:Ep1; [|vm_compute in Ep1; discriminate Ep1].
  destruct cor_pfL as [pfL|] eqn:EpL; [|vm_compute in EpL; discriminate EpL].
  destruct (run_ops sc_cr (cor_hist pf1 pfL) c (mkWorld d0 [] [])) as [[c' w'] oks] eqn:Er.
  pose proof (RInv_HBInv sc_cr sc_blocks sc_writer_fits c d0 HR) as HB.
  assert (Hsec : kp_secret (c_keypair c) = None) by (rewrite K; reflexivity).
  assert (Hshape : Forall (any_op sc_cr) (cor_hist pf1 pfL) /\
                   oks = [true; true; true; true; true; false; true; true; false] /\
                   t_length (c_tree c) = 0 /\ t_length (c_tree c') = 6 /\
                   core_has c 3 = false /\ core_has c' 3 = true /\
                   w_events w' = [EvHave 3 1 false; EvUpgrade; EvGet 3] /\
                   map (fun j => option_map n_length (lone_node (Some (c', w')) j)) [4; 8; 10] = [Some 7; Some 1; Some 2] /\
                   (exists pf, core_create_proof None None None (Some (mkReqUpgrade 0 6)) c' w' = (c', w', Ok (Some pf)))).
  { vm_compute in Hopen. injection Hopen as <- _ <-.
    vm_compute in Ep1. injection Ep1 as <-. vm_compute in EpL. injection EpL as <-.
    vm_compute in Er. injection Er as <- <- <-.
    split.
    - unfold cor_hist. any_ops.
    - do 7 (split; [vm_compute; reflexivity|]). eexists. vm_compute. reflexivity. }
  destruct Hshape as (Hops & -> & L0 & L6 & Hc3 & Hc3' & Hev & Hsz & Hup).
  assert (Hoks : applies_ok (cor_hist pf1 pfL) [true; true; true; true; true; false; true; true; false]).
  { cbn [cor_hist applies_ok is_apply]. repeat split; intros; try reflexivity; discriminate. }
  exists c', w', [true; true; true; true; true; false; true; true; false].
  split; [reflexivity|]. split; [exact HB|]. split; [exact Hs|]. split; [exact Hsec|].
  split; [exact Hops|]. split; [exact Hoks|]. split; [reflexivity|].
  split; [exact L0|]. split; [exact L6|]. split; [exact Hc3|]. split; [exact Hc3'|].
  split; [rewrite Hev; reflexivity|]. split; [exact Hsz|]. split; [vm_compute; reflexivity|].
  split.
  - exact (any_history_avail sc_cr sc_hash32 sc_blocks sc_writer_fits (cor_hist pf1 pfL)
             c (mkWorld d0 [] []) c' w' _ HB Hsec Hops Er).
  - split; [|exact Hup].
    intros block hash seek upgrade c2 w2 r Hb Hh Hu Hc.
    exact (any_history_create_proof_returns sc_cr sc_hash32 sc_blocks sc_writer_fits (cor_hist pf1 pfL)
             c (mkWorld d0 [] []) c' w' _ block hash seek upgrade c2 w2 r (proj1 HB) Hs Hsec sc_lim Hops Er
             Hb Hh Hu Hc).
Qed.

(* the same history followed by an apply that FAILS: the theorems do not care about the outcomes *)
Example sc_any_history_failed_apply_applies :
  match sc_R0, cor_pf1, cor_pfL, any_proof with
  | Some (c, w), Some pf1, Some pfL, Some pfH =>
      exists c' w' oks,
        run_ops sc_cr (cor_hist2 pf1 pfL pfH) c w = (c', w', oks) /\
        HBInv sc_cr sc_blocks c (w_disk w) /\ sig_ok (c_tree c) /\ kp_secret (c_keypair c) = None /\
        Forall (any_op sc_cr) (cor_hist2 pf1 pfL pfH) /\
        oks = [true; true; true; true; true; false; true; true; false; false] /\
        ((HBInv sc_cr sc_blocks c' (w_disk w') /\ tree_wf (c_tree c')) \/
         some_collision sc_cr \/ forged_signature sc_cr sc_blocks (kp_public (c_keypair c)))
  | _, _, _, _ => False
  end.
Proof.
  destruct (fresh_replica sc_cr sc_hash32 sc_nonblank sc_blocks _ sc_small) as (d0 & ops0 & c & Hopen & HR & K & Hs).
  unfold sc_R0, sc_open. rewrite Hopen.
  destruct cor_pf1 as [pf1|] eqn:Ep1; [|vm_compute in Ep1; discriminate Ep1].
  destruct cor_pfL as [pfL|] eqn:EpL; [|vm_compute in EpL; discriminate EpL].
  destruct any_proof as [pfH|] eqn:EpH; [|vm_compute in EpH; discriminate EpH].
  destruct (run_ops sc_cr (cor_hist2 pf1 pfL pfH) c (mkWorld d0 [] [])) as [[c' w'] oks] eqn:Er.
  pose proof (RInv_HBInv sc_cr sc_blocks sc_writer_fits c d0 HR) as HB.
  assert (Hsec : kp_secret (c_keypair c) = None) by (rewrite K; reflexivity).
  assert (Hshape : Forall (any_op sc_cr) (cor_hist2 pf1 pfL pfH) /\
                   oks = [true; true; true; true; true; false; true; true; false; false]).
  { vm_compute in Hopen. injection Hopen as <- _ <-.
    vm_compute in Ep1. injection Ep1 as <-. vm_compute in EpL. injection EpL as <-.
    vm_compute in EpH. injection EpH as <-.
    vm_compute in Er. injection Er as _ _ <-.
    split; [|reflexivity].
    unfold cor_hist2, cor_hist. cbn [app]. any_ops. }
  destruct Hshape as (Hops & ->).
  exists c', w', [true; true; true; true; true; false; true; true; false; false].
  split; [reflexivity|]. split; [exact HB|]. split; [exact Hs|]. split; [exact Hsec|].
  split; [exact Hops|]. split; [reflexivity|].
  destruct (any_history_avail sc_cr sc_hash32 sc_blocks sc_writer_fits (cor_hist2 pf1 pfL pfH)
              c (mkWorld d0 [] []) c' w' _ HB Hsec Hops Er) as [(HB' & _)|[C|F]];
    [left|right; left; exact C|right; right; exact F].
  split; [exact HB'|].
  destruct (any_history_tree_wf sc_cr sc_hash32 sc_blocks sc_writer_fits (cor_hist2 pf1 pfL pfH)
              c (mkWorld d0 [] []) c' w' _ (proj1 HB) Hs Hsec sc_lim Hops Er) as [(_ & Hwf)|[C|F]].
  - exact Hwf.
  - exact (HInv_tree_wf sc_cr sc_blocks c' _ (proj1 HB') sc_lim (run_ops_sig sc_cr _ _ _ _ _ _ Er Hs)).
  - exact (HInv_tree_wf sc_cr sc_blocks c' _ (proj1 HB') sc_lim (run_ops_sig sc_cr _ _ _ _ _ _ Er Hs)).
Qed.

(* ====================================================================================== *)
(* 2. apply_any_outcome / apply_any_returns / apply_any_accepted_HBInv                      *)
(* ====================================================================================== *)

(* the proof "block 3 + upgrade 0..5 + additional node, sizes of (8, 10) shifted" on the fresh replica: all
   hypotheses hold; the walk of byte_offset_in_changeset goes through the computed nodes 6, 5, 3 *)
Example sc_apply_any_returns_applies :
  match sc_R0, cor_pf1 with
  | Some (c, w), Some pf =>
      exists b u,
        p_block pf = Some b /\ p_upgrade pf = Some u /\ db_index b = 3 /\
        map n_index (db_nodes b) = [4; 1] /\ map n_index (du_nodes u) = [8] /\ map n_index (du_additional u) = [10] /\
        map n_length (du_nodes u ++ du_additional u) = [1; 2] /\
        map (fun j => n_length (ref_at sc_cr sc_blocks j)) [8; 10] = [2; 1] /\
        HBInv sc_cr sc_blocks c (w_disk w) /\ proof_wire pf /\
        block_lim (p_block pf) = true /\ hash_lim (p_hash pf) = true /\ seek_lim (p_seek pf) = true /\
        upgrade_nodes_lim pf /\ announced_sizes_fit_any c pf /\
        core_apply_proof sc_cr (Some false) pf c w = (fst (fst (core_apply_proof sc_cr (Some false) pf c w)),
                                                       snd (fst (core_apply_proof sc_cr (Some false) pf c w)), Ok true) /\
        forall f c' w' r,
          core_apply_proof sc_cr f pf c w = (c', w', r) ->
          ((r = Ok true /\ HInv sc_cr sc_blocks c' (w_disk w')) \/
           (c' = c /\ w' = w /\ unchanged_outcome sc_cr pf c w r) \/
           (r = Panic frame_msg /\ HInv sc_cr sc_blocks c' (w_disk w')) \/
           some_collision sc_cr \/ forged_signature sc_cr sc_blocks (kp_public (c_keypair c))) /\
          (returns r = true \/ r = Panic frame_msg \/
           some_collision sc_cr \/ forged_signature sc_cr sc_blocks (kp_public (c_keypair c))) /\
          ((HBInv sc_cr sc_blocks c' (w_disk w') /\ t_length (c_tree c) <= t_length (c_tree c'))
           \/ some_collision sc_cr \/ forged_signature sc_cr sc_blocks (kp_public (c_keypair c)))
  | _, _ => False
  end.
Proof.
  destruct (fresh_replica sc_cr sc_hash32 sc_nonblank sc_blocks _ sc_small) as (d0 & ops0 & c & Hopen & HR & K & Hs).
  unfold sc_R0, sc_open. rewrite Hopen.
  destruct cor_pf1 as [pf|] eqn:Ep; [|vm_compute in Ep; discriminate Ep].
  pose proof (RInv_HBInv sc_cr sc_blocks sc_writer_fits c d0 HR) as HB.
  assert (Hshape : exists b u,
            p_block pf = Some b /\ p_upgrade pf = Some u /\ db_index b = 3 /\
            map n_index (db_nodes b) = [4; 1] /\ map n_index (du_nodes u) = [8] /\ map n_index (du_additional u) = [10] /\
            map n_length (du_nodes u ++ du_additional u) = [1; 2] /\
            proof_okb pf = true /\
            block_lim (p_block pf) = true /\ hash_lim (p_hash pf) = true /\ seek_lim (p_seek pf) = true /\
            upgrade_nodes_lim pf /\ announced_sizes_fit_any c pf /\
            snd (core_apply_proof sc_cr (Some false) pf c (mkWorld d0 [] [])) = Ok true).
  { vm_compute in Hopen. injection Hopen as <- _ <-. vm_compute in Ep. injection Ep as <-.
    eexists. eexists. do 11 (split; [vm_compute; reflexivity|]). split; [|split].
    - intros u' Hu'. cbn [p_upgrade] in Hu'. injection Hu' as <-. repeat split; vm_compute; reflexivity.
    - intros u' Hu'. cbn [p_upgrade] in Hu'. injection Hu' as <-. vm_compute. discriminate.
    - vm_compute. reflexivity. }
  destruct Hshape as (b & u & S1 & S2 & S3 & S4 & S5 & S6 & S7 & Hok & Hb & Hh & Hsk & Hlim & Hsum & Hres).
  pose proof (proof_okb_wire pf Hok) as Hwire.
  exists b, u. do 7 (split; [assumption|]). split; [vm_compute; reflexivity|].
  split; [exact HB|]. split; [exact Hwire|]. do 5 (split; [assumption|]).
  split.
  { destruct (core_apply_proof sc_cr (Some false) pf c (mkWorld d0 [] [])) as [[c1 w1] r1]. cbn [fst snd] in *.
    rewrite Hres. reflexivity. }
  intros f c' w' r H.
  split; [|split].
  - exact (apply_any_outcome sc_cr sc_hash32 sc_nonblank sc_blocks sc_writer_fits f pf c (mkWorld d0 [] []) c' w' r (proj1 HB) Hwire H).
  - exact (apply_any_returns sc_cr sc_hash32 sc_nonblank sc_blocks sc_writer_fits f pf c (mkWorld d0 [] []) c' w' r
             (proj1 HB) sc_lim Hwire Hb Hh Hsk Hlim Hsum H).
  - exact (apply_any_keeps_HBInv sc_cr sc_hash32 sc_blocks sc_writer_fits f pf c (mkWorld d0 [] []) c' w' r HB Hwire H).
Qed.

Print Assumptions sc_any_history_applies.
Print Assumptions sc_any_history_failed_apply_applies.
Print Assumptions sc_apply_any_returns_applies.

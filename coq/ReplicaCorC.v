(* ReplicaCorC.v -- consequences of the replica invariant SoundCore.RInv, part C (property C14):
   the replica condition CacheOps.proof_agrees is discharged from RInv (replica_proof_agrees): every node
   of the changeset accepted on an RInv replica is well formed, not blank, and equal to the node already
   visible at its index (both are the writer's node ref_at cr bs j) -- modulo an explicit hash collision /
   forged signature; flushable is a consequence of RInv; hence node immutability (CacheOps.hist_vm) holds
   along every replica history of {apply (any outcome), get, has, info, create_proof, missing_nodes}, and
   the node cache is transparent for such histories under any eviction schedule
   (replica_cache_transparent).  Reopen steps are allowed only under explicit hypotheses (reopen_hyps:
   CacheOps.open_vm for the disk at that point, and RInv for the reopened core): they need the replica
   DISK invariant, which is not part of this development. *)
From HC Require Import Base NMap Codec CodecFacts Crypto FlatTree Storage Bitfield Oplog Merkle Core.
From HC Require Import FlatTreeFacts StorageFacts BitfieldFacts OplogFacts TreeRef OffsetFacts CoreFacts
                       Sound NoPanic Refine Replicate SoundCoreLib SoundCore SoundCoreUp SoundCoreBU
                       NoPanic2 EventsAvail CacheModel CacheOps ReplicaCor ReplicaCorA.
From Coq Require Import FMapPositive ZifyN ZifyNat ZifyBool.
Ltac Zify.zify_post_hook ::= Z.div_mod_to_equations.
Arguments N.add : simpl never.
Arguments N.sub : simpl never.
Arguments N.mul : simpl never.
Arguments N.div : simpl never.
Arguments N.modulo : simpl never.
Arguments N.pow : simpl never.
Arguments N.eqb : simpl never.
Arguments N.ltb : simpl never.
Arguments N.leb : simpl never.
Arguments N.of_nat : simpl never.
Arguments N.to_nat : simpl never.

(* the calls of a replica history (CacheModel.hop).  append / clear / make_read_only are left out
   (writer-side calls; make_read_only's flush with clear_traces is not covered by SoundCore.RInv_flush) *)
Definition replica_hop (o : hop) : Prop :=
  match o with
  | HApplyProof _ pf => block_upgrade_ok pf
  | HGet _ | HHas _ | HInfo | HCreateProof _ _ _ _ | HMissing _ | HMissingTree _ | HReopen => True
  | HAppend _ _ | HClear _ _ _ | HMakeReadOnly => False
  end.

Definition not_reopen (o : hop) : Prop := o <> HReopen.

Section ReplicaC.
  Variable cr : crypto.
  Hypothesis Hhash32 : forall x, length (cr_hash cr x) = 32%nat.
  Hypothesis Hnonblank : forall x, all_zero (cr_hash cr x) = false.
  Variable bs : list bytes.
  Hypothesis Hw : writer_fits bs.

  (* THE REPLICA CONDITION of CacheOps, from the replica invariant *)
  Theorem replica_proof_agrees pf c w :
    RInv cr bs c (w_disk w) -> block_upgrade_ok pf ->
    proof_agrees cr c w pf \/ some_collision cr \/ forged_signature cr bs (kp_public (c_keypair c)).
  Proof.
    intros W Hok.
    destruct (verify_proof cr (c_tree c) (d_tree (w_disk w)) pf (kp_public (c_keypair c))) as [cs|e|s|] eqn:V.
    2-4: left; intros cs V'; rewrite V in V'; discriminate V'.
    destruct (verified_nodes_authentic cr Hhash32 Hnonblank bs Hw pf c (w_disk w) cs W Hok V)
      as [(m & Hrm & Hmn & Hauth & _)|[C|F]]; [left|right; left; exact C|right; right; exact F].
    intros cs' V'. rewrite V in V'. injection V' as <-.
    intros x Hx.
    destruct (authentic_facts cr Hhash32 Hnonblank bs Hw m x Hmn (Hauth x Hx)) as (Ex & F1 & F2 & F3 & F4).
    split; [repeat split; assumption|]. split; [exact F4|].
    intros am n G. destruct W as (_ & _ & _ & _ & H5 & H6 & _).
    destruct (node_get_sound cr bs (c_tree c) (d_tree (w_disk w)) _ _ am n H5 H6 G) as [En _].
    rewrite En. symmetry. exact Ex.
  Qed.

  (* one call of a replica history other than a reopen: nodes stay immutable; if the process survives the
     call, the invariant holds afterwards (and the key pair is the same) *)
  Lemma replica_hstep o c w :
    RInv cr bs c (w_disk w) -> replica_hop o -> not_reopen o ->
    (step_vm cr o c w /\
     forall ob c' w', hstep cr o c w = (ob, true, c', w') ->
       RInv cr bs c' (w_disk w') /\ c_keypair c' = c_keypair c) \/
    some_collision cr \/ forged_signature cr bs (kp_public (c_keypair c)).
  Proof.
    intros W Hop Hnr.
    assert (RO : forall {A} (m : M A) (mk : res A -> hobs) c' w' r,
               quiet m -> m c w = (c', w', r) ->
               (negb (dead r) = true -> vmono (c_tree c) (d_tree (w_disk w)) (c_tree c') (d_tree (w_disk w'))) /\
               forall ob c1 w1, (mk r, negb (dead r), c', w') = (ob, true, c1, w1) ->
                 RInv cr bs c1 (w_disk w1) /\ c_keypair c1 = c_keypair c).
    { intros A m mk c' w' r Hq E. destruct (Hq _ _ _ _ _ E) as (-> & Hd & _). split.
      - intros _. rewrite Hd. apply vmono_refl.
      - intros ob c1 w1 Hst. injection Hst as _ _ <- <-. rewrite Hd. split; [exact W|reflexivity]. }
    destruct o as [f batch|f s e|i|i| |b h s u|i|i|f pf| |]; cbn [replica_hop] in Hop; try (exfalso; exact Hop).
    - left. cbn [step_vm hstep]. destruct (core_get i c w) as [[c' w'] r] eqn:E.
      exact (RO _ (core_get i) HOGet c' w' r (core_get_quiet i) E).
    - left. cbn [step_vm hstep]. split; [intros _; apply vmono_refl|].
      intros ob c1 w1 Hst. injection Hst as _ <- <-. split; [exact W|reflexivity].
    - left. cbn [step_vm hstep]. split; [intros _; apply vmono_refl|].
      intros ob c1 w1 Hst. injection Hst as _ <- <-. split; [exact W|reflexivity].
    - left. cbn [step_vm hstep]. destruct (core_create_proof b h s u c w) as [[c' w'] r] eqn:E.
      exact (RO _ (core_create_proof b h s u) HOProof c' w' r (core_create_proof_quiet b h s u) E).
    - left. cbn [step_vm hstep]. destruct (core_missing_nodes i c w) as [[c' w'] r] eqn:E.
      exact (RO _ (core_missing_nodes i) HOMissing c' w' r (proj1 (core_missing_nodes_quiet i)) E).
    - left. cbn [step_vm hstep]. destruct (core_missing_nodes_tree i c w) as [[c' w'] r] eqn:E.
      exact (RO _ (core_missing_nodes_tree i) HOMissing c' w' r (proj2 (core_missing_nodes_quiet i)) E).
    - (* apply *)
      destruct (replica_proof_agrees pf c w W Hop) as [Hag|[C|F]];
        [|right; left; exact C|right; right; exact F].
      pose proof (apply_proof_step_vm cr f pf c w (RInv_flushable cr Hhash32 Hnonblank bs Hw c _ W) Hag) as [Svm _].
      cbn [step_vm hstep] in *.
      destruct (core_apply_proof cr f pf c w) as [[c' w'] r] eqn:E.
      destruct (apply_replica_outcome cr Hhash32 Hnonblank bs Hw f pf c w c' w' r W Hop E)
        as [[Hr W']|[(Ec & Ew & _)|[Hr|[C|F]]]];
        [| | |right; left; exact C|right; right; exact F].
      + left. split; [exact Svm|]. intros ob c1 w1 Hst. injection Hst as _ _ <- <-.
        split; [exact W'|exact (apply_keeps_keypair cr f pf _ _ _ _ _ E)].
      + left. split; [exact Svm|]. intros ob c1 w1 Hst. injection Hst as _ _ <- <-.
        rewrite Ec, Ew. split; [exact W|reflexivity].
      + left. split; [exact Svm|]. intros ob c1 w1 Hst. rewrite Hr in Hst. cbn [dead negb] in Hst.
        injection Hst as _ Hal _ _. discriminate Hal.
    - exfalso. apply Hnr. reflexivity.
  Qed.

  (* what is ASSUMED at the reopen steps of a history (nothing is assumed elsewhere): the disk at that
     point satisfies CacheOps.open_vm, and the reopened core satisfies RInv and has the same public key.
     These are consequences of a replica disk invariant that is not part of this development. *)
  Fixpoint reopen_hyps (ops : list hop) (c : core) (w : world) : Prop :=
    match ops with
    | [] => True
    | op :: rest =>
        (match op with
         | HReopen =>
             open_vm cr None true (w_disk w) /\
             forall ob c' w', hstep cr HReopen c w = (ob, true, c', w') ->
               RInv cr bs c' (w_disk w') /\ kp_public (c_keypair c') = kp_public (c_keypair c)
         | _ => True
         end) /\
        let '(_, alive, c', w') := hstep cr op c w in
        if alive then reopen_hyps rest c' w' else True
    end.

  Lemma no_reopen_hyps ops : Forall not_reopen ops -> forall c w, reopen_hyps ops c w.
  Proof.
    induction 1 as [|o rest Ho Hrest IH]; intros c w; cbn [reopen_hyps]; [exact I|].
    split; [destruct o; try exact I; exfalso; apply Ho; reflexivity|].
    destruct (hstep cr o c w) as [[[ob alive] c1] w1]. destruct alive; [apply IH|exact I].
  Qed.

  (* node immutability along replica histories *)
  Theorem replica_hist_vm ops : forall c w,
    RInv cr bs c (w_disk w) -> Forall replica_hop ops -> reopen_hyps ops c w ->
    hist_vm cr ops c w \/ some_collision cr \/ forged_signature cr bs (kp_public (c_keypair c)).
  Proof.
    induction ops as [|o rest IH]; intros c w W Hops Hre; [left; exact I|].
    inversion Hops as [|o' rest' Ho Hrest]; subst. cbn [reopen_hyps] in Hre. destruct Hre as [Hre1 Hre2].
    cbn [hist_vm].
    assert (Step : (step_vm cr o c w /\
                    forall ob c' w', hstep cr o c w = (ob, true, c', w') ->
                      RInv cr bs c' (w_disk w') /\ kp_public (c_keypair c') = kp_public (c_keypair c)) \/
                   some_collision cr \/ forged_signature cr bs (kp_public (c_keypair c))).
    { destruct o as [f batch|f s e|i|i| |b h s u|i|i|f pf| |];
        try (destruct (replica_hstep _ c w W Ho ltac:(discriminate)) as [(S1 & S2)|[C|F]];
             [left; split; [exact S1|]; intros ob c' w' E; destruct (S2 ob c' w' E) as [A B];
              split; [exact A|rewrite B; reflexivity]
             |right; left; exact C|right; right; exact F]).
      left. destruct Hre1 as [Hov Hri]. split; [exact Hov|exact Hri]. }
    destruct Step as [(S1 & S2)|[C|F]]; [|right; left; exact C|right; right; exact F].
    destruct (hstep cr o c w) as [[[ob alive] c1] w1] eqn:E.
    destruct alive; [|left; split; [exact S1|exact I]].
    destruct (S2 ob c1 w1 eq_refl) as [W1 K1].
    destruct (IH c1 w1 W1 Hrest Hre2) as [Hv|[C|F]];
      [left; split; [exact S1|exact Hv]|right; left; exact C|right; right; rewrite <- K1; exact F].
  Qed.

  (* C14 on replicas: for every eviction schedule and every valid initial cache, a replica history with
     the node cache gives the same observations, final core, disk, journal and events as without it *)
  Theorem replica_cache_transparent (ev : evo) (ops : list hop) st c w :
    evictor ev -> RInv cr bs c (w_disk w) -> Forall replica_hop ops -> reopen_hyps ops c w ->
    valid st c w ->
    snd (hrun_c cr ev ops st c w) = hrun cr ops c w \/
    some_collision cr \/ forged_signature cr bs (kp_public (c_keypair c)).
  Proof.
    intros Hev W Hops Hre Hval.
    destruct (replica_hist_vm ops c w W Hops Hre) as [Hv|[C|F]];
      [left|right; left; exact C|right; right; exact F].
    exact (cache_transparent_history cr ev Hev ops st c w Hval Hv).
  Qed.

  (* the statement asked for: histories WITHOUT reopen, no hypothesis besides the invariant *)
  Corollary replica_cache_transparent_no_reopen (ev : evo) (ops : list hop) st c w :
    evictor ev -> RInv cr bs c (w_disk w) -> Forall replica_hop ops -> Forall not_reopen ops ->
    valid st c w ->
    snd (hrun_c cr ev ops st c w) = hrun cr ops c w \/
    some_collision cr \/ forged_signature cr bs (kp_public (c_keypair c)).
  Proof.
    intros Hev W Hops Hnr Hval.
    exact (replica_cache_transparent ev ops st c w Hev W Hops (no_reopen_hyps ops Hnr c w) Hval).
  Qed.
End ReplicaC.

(* ====================================================================================== *)
(* Non-vacuity on the toy instance of SoundCore.v                                           *)
(* ====================================================================================== *)

(* the synced replica: a read that misses, missing_nodes, the writer's proof for block 4 applied with a
   flush (its nodes go to the tree store), a read that hits (its offset lookups go through the cache),
   has, info, a proof request, the SAME proof applied again (its nodes are already visible: the agreement
   is exercised), missing_nodes on a tree index, the proof with another fork (refused) *)
Definition sc_hops (pf : proof) : list hop :=
  [HGet 4; HMissing 4; HApplyProof (Some true) pf; HGet 4; HHas 4; HInfo;
   HCreateProof (Some (mkReqBlock 4 0)) None None None; HApplyProof None pf; HMissingTree 3;
   HApplyProof None (mkProof 1 (p_block pf) None None None)].

Definition ob_tag (o : hobs) : N :=
  match o with
  | HOGet (Ok (Some _)) => 1 | HOGet (Ok None) => 2
  | HOHas true => 3 | HOHas false => 4
  | HOInfo i => 10 + i_length i
  | HOProof (Ok (Some _)) => 5 | HOProof (Ok None) => 6
  | HOMissing (Ok k) => 20 + k
  | HOApply (Ok true) => 7 | HOApply (Ok false) => 8
  | _ => 0
  end.

Example sc_replica_cache_transparent (ev : evo) :
  evictor ev ->
  match fst sc_R1, sc_block_proof (fst sc_R1) 4 with
  | Some (c, w), Some pf =>
      RInv sc_cr sc_blocks c (w_disk w) /\ Forall replica_hop (sc_hops pf) /\
      Forall not_reopen (sc_hops pf) /\ valid st_empty c w /\
      map ob_tag (fst (fst (hrun sc_cr (sc_hops pf) c w))) = [2; 21; 7; 1; 3; 16; 5; 7; 20; 8] /\
      k_hits (fst (hrun_c sc_cr ev_never (sc_hops pf) st_empty c w)) = 1%nat /\
      (snd (hrun_c sc_cr ev (sc_hops pf) st_empty c w) = hrun sc_cr (sc_hops pf) c w \/
       some_collision sc_cr \/ forged_signature sc_cr sc_blocks (kp_public (c_keypair c)))
  | _, _ => False
  end.
Proof.
  intros Hev. pose proof sc_RInv_synced as HR.
  destruct (fst sc_R1) as [[c w]|] eqn:E; [|destruct HR]. destruct HR as [HR _].
  destruct (sc_block_proof (Some (c, w)) 4) as [pf|] eqn:Ep.
  2:{ vm_compute in E. injection E as <- <-. vm_compute in Ep. discriminate Ep. }
  assert (Hshape : Forall replica_hop (sc_hops pf) /\
                   map ob_tag (fst (fst (hrun sc_cr (sc_hops pf) c w))) = [2; 21; 7; 1; 3; 16; 5; 7; 20; 8] /\
                   k_hits (fst (hrun_c sc_cr ev_never (sc_hops pf) st_empty c w)) = 1%nat).
  { vm_compute in E. injection E as <- <-. vm_compute in Ep. injection Ep as <-.
    split; [repeat constructor|]. split; vm_compute; reflexivity. }
  destruct Hshape as (Hops & Hobs & Hhits).
  assert (Hnr : Forall not_reopen (sc_hops pf)) by (repeat constructor; discriminate).
  assert (Hval : valid st_empty c w).
  { intros i n G. unfold st_empty in G. cbn [k_cache] in G. rewrite nm_get_empty in G. discriminate G. }
  do 6 (split; [assumption|]).
  exact (replica_cache_transparent_no_reopen sc_cr sc_hash32 sc_nonblank sc_blocks sc_writer_fits
           ev (sc_hops pf) st_empty c w Hev HR Hops Hnr Hval).
Qed.

Print Assumptions replica_proof_agrees.
Print Assumptions replica_hstep.
Print Assumptions replica_hist_vm.
Print Assumptions replica_cache_transparent.
Print Assumptions replica_cache_transparent_no_reopen.
Print Assumptions sc_replica_cache_transparent.

(* AlterRefused.v -- C04 in the property's own terms: every single-field alteration of an honest proof is refused.

   SCOPE (the scope of SoundCore*.v): proofs with a block and / or an upgrade section, no hash / seek section, no
   additional nodes, on a replica under SoundCore.RInv.  The writer is the block list [bs] (reference tree TreeRef.v).

   HONEST PROOFS
     block only   : [honest_block]   fork 0, value = blk bs i, nodes = the k reference siblings ref_sibs k 0 i;
     upgrade only : [honest_upgrade] fork 0, start = the replica's length r, length = m - r (r < m <= length bs),
                    nodes = the reference nodes of the upgrade r -> m in the order the verifier asks for them
                    (Replicate2.upg_idx), no additional nodes, a 64-byte signature that verifies on
                    (reference roots of m, m, fork 0);
     block + upgrade : [honest_bu]   the same block section, start = r, every upgrade node the writer's reference node
                    at its index -- and the verifier accepts the proof with a walk that uses every upgrade node
                    ("the reference nodes the verifier's walk expects", defined by the walk itself: bu_run).
   The toy examples show that these are what core_create_proof of the writer serves.

   ALTERATIONS (inductive [altered]): the fork; the block value (any change); one block node (any change of its index,
   size or hash); the block index (sections with at least one node); one upgrade node (any change of index, size or
   hash); the upgrade start; the upgrade length; the signature bytes (any change: bit flip, signature for another
   length, signature by another key).

   MAIN THEOREMS
     altered_field_refused      (block only / upgrade only) and bu_altered_field_refused (block + upgrade): the altered
        proof is refused AT A GATE of core_apply_proof with core and world unchanged -- or an explicit hash collision /
        a signature that verifies on a message the writer never signed / one signature that verifies on two different
        messages (sig_transplant) / two different signatures that verify on one message (sig_malleable) is exhibited.
        Guards: the altered upgrade nodes are wire-well-formed (Codec.nodes_ok: u64 fields, 32-byte hashes); with a
        block section, the top of the block's climb is a u64 (block_root_fits).
     whole_proof_from_another_writer_refused : a proof honest for another writer is refused unless it is byte for byte
        an honest proof of this writer (signature valid under this writer's key included) / collision / forgery.
   STRUCTURAL ALTERATIONS (nodes dropped, duplicated, swapped, inserted; a section removed) need not be refused; what is
   accepted is characterised: accepted_block_proof_is_honest (an accepted block-only proof IS the honest proof for its
   index and node count), accepted_upgrade_proof_shape (an accepted upgrade-only proof carries the reference nodes of
   its target followed by nodes the verifier never looks at -- the verifier, like src/tree/merkle_tree.rs
   verify_upgrade, does not check that the node queue is empty), accepted_bu_block_is_writers; and the replica
   invariant is kept in every accepted case (SoundCoreBU.apply_keeps_replica_consistent_block_upgrade,
   SoundCoreUp.apply_keeps_replica_consistent_empty for the proof with its only section removed).

   METHOD.  Block sections: SoundCoreBU.accepted_block_section_is_writers.  Upgrade sections: the indices the
   verifier's upgrade loop asks for depend only on the root indices it starts from, the index of the extra node and the
   target (url_sim, url_sim_len); comparing with the reference run of Replicate2.v (hon_loop) shows that a run on a
   replica of length r towards u > r consumes nodes with the indices of upg_idx r u and ends at length u (loop_shape);
   towards u <= r it ends without touching the changeset (url_same, url_below: the grow branch can never reach a root
   inside the replica's own tree); so the verifier always ends at length max r (start + length)
   (upgrade_target_length).  The consumed nodes are authentic by SoundCoreUp.verify_upgrade_sound. *)
From HC Require Import Base NMap Codec CodecFacts Crypto FlatTree Storage Bitfield Oplog Merkle Core.
From HC Require Import FlatTreeFacts StorageFacts BitfieldFacts OplogFacts TreeRef OffsetFacts CoreFacts
                       Sound NoPanic Refine Replicate Replicate2 Replicate2E SoundCoreLib SoundCore SoundCoreUp SoundCoreBU.
From Coq Require Import FMapPositive ZifyN ZifyNat ZifyBool.
Ltac Zify.zify_post_hook ::= Z.div_mod_to_equations.
Arguments N.add : simpl never.
Arguments N.sub : simpl never.
Arguments N.mul : simpl never.
Arguments N.div : simpl never.
Arguments N.modulo : simpl never.
Arguments N.pow : simpl never.
Arguments N.eqb : simpl never.
Arguments N.ltb : simpl never.
Arguments N.leb : simpl never.
Arguments N.of_nat : simpl never.
Arguments N.to_nat : simpl never.
Arguments N.log2 : simpl never.

(* ====================================================================================== *)
(* 1. The verifier's upgrade loop asks for flat indices that depend only on the indices of    *)
(*    the roots it starts from and on the target: two runs on such inputs consume node lists  *)
(*    with the same indices                                                                   *)
(* ====================================================================================== *)

(* same root indices, same length *)
Definition SK (c c' : changeset) : Prop :=
  map n_index (cs_roots c) = map n_index (cs_roots c') /\ cs_length c = cs_length c'.

(* same index of the extra node of the queue *)
Definition SQ (q q' : nodeq) : Prop :=
  option_map n_index (q_extra q) = option_map n_index (q_extra q').

Lemma SK_refl c : SK c c.
Proof. split; reflexivity. Qed.

Lemma SK_roots_length c c' : SK c c' -> length (cs_roots c) = length (cs_roots c').
Proof. intros [H _]. apply (f_equal (@length N)) in H. rewrite !map_length in H. exact H. Qed.

Lemma map_index_nth_error (l l' : list node) i :
  map n_index l = map n_index l' ->
  match nth_error l i, nth_error l' i with
  | Some a, Some a' => n_index a = n_index a'
  | None, None => True
  | _, _ => False
  end.
Proof.
  revert l' i. induction l as [|a l IH]; intros [|a' l'] i H; cbn [map] in H; try discriminate H.
  - destruct i; exact I.
  - injection H as Ha H. destruct i as [|i]; cbn [nth_error]; [exact Ha|apply IH, H].
Qed.

Lemma SK_last_root c c' : SK c c' -> last_root_index c = last_root_index c'.
Proof.
  intros [H _]. unfold last_root_index.
  apply (f_equal (@rev N)) in H. rewrite <- !map_rev in H.
  destruct (rev (cs_roots c)) as [|a l], (rev (cs_roots c')) as [|a' l']; cbn [map] in H; try discriminate H.
  - reflexivity.
  - injection H as -> _. reflexivity.
Qed.

Section Skeleton.
  Variable cr : crypto.

  Lemma merge_sim : forall fuel rr rr' nr nr' it r1 n1 i1 r1' n1' i1',
    merge_roots cr fuel rr nr it = Ok (r1, n1, i1) ->
    merge_roots cr fuel rr' nr' it = Ok (r1', n1', i1') ->
    map n_index rr = map n_index rr' ->
    map n_index r1 = map n_index r1' /\ i1 = i1'.
  Proof.
    induction fuel as [|f IH]; intros rr rr' nr nr' it r1 n1 i1 r1' n1' i1' H H' E; [discriminate H|].
    cbn [merge_roots] in H, H'.
    destruct rr as [|a [|b rest]], rr' as [|a' [|b' rest']]; cbn [map] in E; try discriminate E.
    - injection H as <- <- <-. injection H' as <- <- <-. split; reflexivity.
    - injection H as <- <- <-. injection H' as <- <- <-. split; [exact E|reflexivity].
    - injection E as Ea Eb Er. rewrite <- Eb in H'.
      destruct (negb (it_index (it_sibling it) =? n_index b)).
      + injection H as <- <- <-. injection H' as <- <- <-. cbn [map]. split; [congruence|reflexivity].
      + apply bind_ok in H. destruct H as (l & _ & H).
        apply bind_ok in H'. destruct H' as (l' & _ & H').
        apply (IH _ _ _ _ _ _ _ _ _ _ _ H H'). cbn [map n_index]. congruence.
  Qed.

  Lemma append_root_nodes c n it c1 it1 :
    append_root cr c n it = Ok (c1, it1) ->
    In n (cs_rnodes c1) /\ (forall y, In y (cs_rnodes c) -> In y (cs_rnodes c1)).
  Proof.
    unfold append_root. intros H. apply bind_ok in H. destruct H as (bl & _ & H).
    apply bind_ok in H. destruct H as ([[rr nr] it2] & Hm & H). injection H as <- <-.
    apply merge_roots_cover in Hm. destruct Hm as [H1 _]. cbn [cs_rnodes]. split.
    - apply H1. left. reflexivity.
    - intros y Hy. apply H1. right. exact Hy.
  Qed.

  Lemma append_root_sim c c' n n' it c1 it1 c1' it1' :
    append_root cr c n it = Ok (c1, it1) -> append_root cr c' n' it = Ok (c1', it1') ->
    SK c c' -> n_index n = n_index n' -> SK c1 c1' /\ it1 = it1'.
  Proof.
    unfold append_root. intros H H' S En. pose proof (SK_roots_length c c' S) as EL. destruct S as [Sr Sl].
    apply bind_ok in H. destruct H as (bl & _ & H).
    apply bind_ok in H. destruct H as ([[rr nr] it2] & Hm & H). injection H as <- <-.
    apply bind_ok in H'. destruct H' as (bl' & _ & H').
    apply bind_ok in H'. destruct H' as ([[rr' nr'] it2'] & Hm' & H'). injection H' as <- <-.
    rewrite <- EL in Hm'.
    destruct (merge_sim _ _ _ _ _ _ _ _ _ _ _ _ Hm Hm') as [Er Ei].
    { cbn [map]. rewrite !map_rev, Sr, En. reflexivity. }
    split; [|exact Ei]. split; cbn [cs_roots cs_length].
    - rewrite !map_rev, Er. reflexivity.
    - rewrite Sl. reflexivity.
  Qed.

  (* what a shift takes from the list part of the queue *)
  Lemma q_shift_sim q q' i n q1 n' q1' :
    q_shift q i = Ok (n, q1) -> q_shift q' i = Ok (n', q1') -> SQ q q' ->
    n_index n = n_index n' /\ SQ q1 q1' /\
    ((q_nodes q = q_nodes q1 /\ q_nodes q' = q_nodes q1') \/
     (q_nodes q = n :: q_nodes q1 /\ q_nodes q' = n' :: q_nodes q1')).
  Proof.
    intros H H' S.
    pose proof (q_shift_inv _ _ _ _ H) as (I1 & _). pose proof (q_shift_inv _ _ _ _ H') as (I1' & _).
    split; [congruence|]. unfold SQ in *. unfold q_shift in H, H'.
    destruct (q_extra q) as [e|], (q_extra q') as [e'|]; cbn [option_map] in S; try discriminate S.
    - injection S as S. rewrite <- S in H'. destruct (n_index e =? i).
      + injection H as <- <-. injection H' as <- <-. cbn [q_extra q_nodes]. split; [reflexivity|]. left. split; reflexivity.
      + destruct (q_nodes q) as [|x l]; [discriminate H|]. destruct (q_nodes q') as [|x' l']; [discriminate H'|].
        destruct (n_index x =? i); [|discriminate H]. destruct (n_index x' =? i); [|discriminate H'].
        injection H as <- <-. injection H' as <- <-. cbn [q_extra q_nodes option_map].
        split; [rewrite S; reflexivity|]. right. split; reflexivity.
    - destruct (q_nodes q) as [|x l]; [discriminate H|]. destruct (q_nodes q') as [|x' l']; [discriminate H'|].
      destruct (n_index x =? i); [|discriminate H]. destruct (n_index x' =? i); [|discriminate H'].
      injection H as <- <-. injection H' as <- <-. cbn [q_extra q_nodes option_map].
      split; [reflexivity|]. right. split; reflexivity.
  Qed.

  (* the two runs took p and p' from the list parts of their queues: same indices, and the nodes of the second run
     went into its changeset *)
  Definition took (q q1 q' q1' : nodeq) (c' c1' : changeset) : Prop :=
    exists p p', q_nodes q = p ++ q_nodes q1 /\ q_nodes q' = p' ++ q_nodes q1' /\
                 map n_index p = map n_index p' /\
                 (forall x, In x p' -> In x (cs_rnodes c1')) /\
                 (forall y, In y (cs_rnodes c') -> In y (cs_rnodes c1')).

  Lemma took_refl q q' c' : took q q q' q' c' c'.
  Proof. exists [], []. repeat split; auto. intros x []. Qed.

  Lemma took_trans q q1 q2 q' q1' q2' c' c1' c2' :
    took q q1 q' q1' c' c1' -> took q1 q2 q1' q2' c1' c2' -> took q q2 q' q2' c' c2'.
  Proof.
    intros (p & p' & A1 & A2 & A3 & A4 & A5) (s & s' & B1 & B2 & B3 & B4 & B5).
    exists (p ++ s), (p' ++ s'). rewrite A1, A2, B1, B2, <- !app_assoc, !map_app, A3, B3.
    repeat split; auto. intros x Hx. apply in_app_or in Hx. destruct Hx as [Hx|Hx]; auto.
  Qed.

  (* one shift followed by one append_root *)
  Lemma step_sim c c' q q' i it n q1 c1 it1 n' q1' c1' it1' :
    q_shift q i = Ok (n, q1) -> append_root cr c n it = Ok (c1, it1) ->
    q_shift q' i = Ok (n', q1') -> append_root cr c' n' it = Ok (c1', it1') ->
    SK c c' -> SQ q q' ->
    SK c1 c1' /\ SQ q1 q1' /\ it1 = it1' /\ took q q1 q' q1' c' c1'.
  Proof.
    intros Hs Ha Hs' Ha' S Q.
    destruct (q_shift_sim _ _ _ _ _ _ _ Hs Hs' Q) as (En & Q1 & Hcase).
    destruct (append_root_sim _ _ _ _ _ _ _ _ _ Ha Ha' S En) as [S1 Ei].
    destruct (append_root_nodes _ _ _ _ _ Ha') as [Hin Hmono].
    split; [exact S1|]. split; [exact Q1|]. split; [exact Ei|].
    destruct Hcase as [[E E']|[E E']].
    - exists [], []. rewrite E, E'. repeat split; auto. intros x [].
    - exists [n], [n']. rewrite E, E'. cbn [app map]. repeat split; auto; [congruence|].
      intros x [<-|[]]. exact Hin.
  Qed.

  Lemma grow_sim : forall fuel c c' q q' it ri c1 q1 i1 c1' q1' i1',
    grow_loop cr fuel c q it ri = Ok (c1, q1, i1) -> grow_loop cr fuel c' q' it ri = Ok (c1', q1', i1') ->
    SK c c' -> SQ q q' ->
    SK c1 c1' /\ SQ q1 q1' /\ i1 = i1' /\ took q q1 q' q1' c' c1'.
  Proof.
    induction fuel as [|f IH]; intros c c' q q' it ri c1 q1 i1 c1' q1' i1' H H' S Q; [discriminate H|].
    cbn [grow_loop] in H, H'. destruct (it_index it =? ri).
    - injection H as <- <- <-. injection H' as <- <- <-.
      split; [exact S|]. split; [exact Q|]. split; [reflexivity|apply took_refl].
    - apply bind_ok in H. destruct H as ([n q2] & Hs & H). apply bind_ok in H. destruct H as ([c2 it2] & Ha & H).
      apply bind_ok in H'. destruct H' as ([n' q2'] & Hs' & H'). apply bind_ok in H'. destruct H' as ([c2' it2'] & Ha' & H').
      destruct (step_sim _ _ _ _ _ _ _ _ _ _ _ _ _ _ Hs Ha Hs' Ha' S Q) as (S2 & Q2 & <- & T2).
      destruct (IH _ _ _ _ _ _ _ _ _ _ _ _ H H' S2 Q2) as (S3 & Q3 & E3 & T3).
      split; [exact S3|]. split; [exact Q3|]. split; [exact E3|]. eapply took_trans; eassumption.
  Qed.

  Lemma url_sim : forall fuel c c' q q' it to i grow c1 q1 i1 c1' q1' i1',
    upgrade_roots_loop cr fuel c q it to i grow = Ok (c1, q1, i1) ->
    upgrade_roots_loop cr fuel c' q' it to i grow = Ok (c1', q1', i1') ->
    SK c c' -> SQ q q' ->
    SK c1 c1' /\ SQ q1 q1' /\ took q q1 q' q1' c' c1'.
  Proof.
    induction fuel as [|f IH]; intros c c' q q' it to i grow c1 q1 i1 c1' q1' i1' H H' S Q; [discriminate H|].
    cbn [upgrade_roots_loop] in H, H'. destruct (it_full_root it to) as [found it0].
    destruct (negb found).
    { injection H as <- <- <-. injection H' as <- <- <-. split; [exact S|]. split; [exact Q|apply took_refl]. }
    assert (Hstep : forall i0,
      ('(n, q2) <- q_shift q (it_index it0) ;; '(c2, it2) <- append_root cr c n it0 ;;
       upgrade_roots_loop cr f c2 q2 (it_next_tree it2) to i0 false) = Ok (c1, q1, i1) ->
      ('(n, q2) <- q_shift q' (it_index it0) ;; '(c2, it2) <- append_root cr c' n it0 ;;
       upgrade_roots_loop cr f c2 q2 (it_next_tree it2) to i0 false) = Ok (c1', q1', i1') ->
      SK c1 c1' /\ SQ q1 q1' /\ took q q1 q' q1' c' c1').
    { intros i0 K K'.
      apply bind_ok in K. destruct K as ([n q2] & Hs & K). apply bind_ok in K. destruct K as ([c2 it2] & Ha & K).
      apply bind_ok in K'. destruct K' as ([n' q2'] & Hs' & K'). apply bind_ok in K'. destruct K' as ([c2' it2'] & Ha' & K').
      destruct (step_sim _ _ _ _ _ _ _ _ _ _ _ _ _ _ Hs Ha Hs' Ha' S Q) as (S2 & Q2 & <- & T2).
      destruct (IH _ _ _ _ _ _ _ _ _ _ _ _ _ _ K K' S2 Q2) as (S3 & Q3 & T3).
      split; [exact S3|]. split; [exact Q3|]. eapply took_trans; eassumption. }
    pose proof (map_index_nth_error (cs_roots c) (cs_roots c') i (proj1 S)) as Hn.
    destruct (nth_error (cs_roots c) i) as [r0|], (nth_error (cs_roots c') i) as [r0'|]; try contradiction.
    - rewrite <- Hn in H'. destruct (n_index r0 =? it_index it0).
      + apply (IH _ _ _ _ _ _ _ _ _ _ _ _ _ _ H H' S Q).
      + destruct grow; [|apply (Hstep i H H')].
        rewrite <- (SK_last_root c c' S) in H'.
        apply bind_ok in H. destruct H as (li & Hli & H). rewrite Hli in H'. cbn [bind] in H'.
        apply bind_ok in H. destruct H as ([[c2 q2] it2] & Hg & H).
        apply bind_ok in H'. destruct H' as ([[c2' q2'] it2'] & Hg' & H').
        destruct (grow_sim _ _ _ _ _ _ _ _ _ _ _ _ _ Hg Hg' S Q) as (S2 & Q2 & <- & T2).
        destruct (IH _ _ _ _ _ _ _ _ _ _ _ _ _ _ H H' S2 Q2) as (S3 & Q3 & T3).
        split; [exact S3|]. split; [exact Q3|]. eapply took_trans; eassumption.
    - apply (Hstep i H H').
  Qed.
  (* without any assumption on the queues: the root indices and the length still evolve in the same way *)
  Lemma step_sim_len c c' q q' i it n q1 c1 it1 n' q1' c1' it1' :
    q_shift q i = Ok (n, q1) -> append_root cr c n it = Ok (c1, it1) ->
    q_shift q' i = Ok (n', q1') -> append_root cr c' n' it = Ok (c1', it1') ->
    SK c c' -> SK c1 c1' /\ it1 = it1'.
  Proof.
    intros Hs Ha Hs' Ha' S.
    pose proof (q_shift_inv _ _ _ _ Hs) as (I1 & _). pose proof (q_shift_inv _ _ _ _ Hs') as (I1' & _).
    apply (append_root_sim _ _ _ _ _ _ _ _ _ Ha Ha' S). congruence.
  Qed.

  Lemma grow_sim_len : forall fuel c c' q q' it ri c1 q1 i1 c1' q1' i1',
    grow_loop cr fuel c q it ri = Ok (c1, q1, i1) -> grow_loop cr fuel c' q' it ri = Ok (c1', q1', i1') ->
    SK c c' -> SK c1 c1' /\ i1 = i1'.
  Proof.
    induction fuel as [|f IH]; intros c c' q q' it ri c1 q1 i1 c1' q1' i1' H H' S; [discriminate H|].
    cbn [grow_loop] in H, H'. destruct (it_index it =? ri).
    - injection H as <- <- <-. injection H' as <- <- <-. split; [exact S|reflexivity].
    - apply bind_ok in H. destruct H as ([n q2] & Hs & H). apply bind_ok in H. destruct H as ([c2 it2] & Ha & H).
      apply bind_ok in H'. destruct H' as ([n' q2'] & Hs' & H'). apply bind_ok in H'. destruct H' as ([c2' it2'] & Ha' & H').
      destruct (step_sim_len _ _ _ _ _ _ _ _ _ _ _ _ _ _ Hs Ha Hs' Ha' S) as (S2 & <-).
      apply (IH _ _ _ _ _ _ _ _ _ _ _ _ H H' S2).
  Qed.

  Lemma url_sim_len : forall fuel c c' q q' it to i grow c1 q1 i1 c1' q1' i1',
    upgrade_roots_loop cr fuel c q it to i grow = Ok (c1, q1, i1) ->
    upgrade_roots_loop cr fuel c' q' it to i grow = Ok (c1', q1', i1') ->
    SK c c' -> SK c1 c1'.
  Proof.
    induction fuel as [|f IH]; intros c c' q q' it to i grow c1 q1 i1 c1' q1' i1' H H' S; [discriminate H|].
    cbn [upgrade_roots_loop] in H, H'. destruct (it_full_root it to) as [found it0].
    destruct (negb found).
    { injection H as <- <- <-. injection H' as <- <- <-. exact S. }
    assert (Hstep : forall i0,
      ('(n, q2) <- q_shift q (it_index it0) ;; '(c2, it2) <- append_root cr c n it0 ;;
       upgrade_roots_loop cr f c2 q2 (it_next_tree it2) to i0 false) = Ok (c1, q1, i1) ->
      ('(n, q2) <- q_shift q' (it_index it0) ;; '(c2, it2) <- append_root cr c' n it0 ;;
       upgrade_roots_loop cr f c2 q2 (it_next_tree it2) to i0 false) = Ok (c1', q1', i1') ->
      SK c1 c1').
    { intros i0 K K'.
      apply bind_ok in K. destruct K as ([n q2] & Hs & K). apply bind_ok in K. destruct K as ([c2 it2] & Ha & K).
      apply bind_ok in K'. destruct K' as ([n' q2'] & Hs' & K'). apply bind_ok in K'. destruct K' as ([c2' it2'] & Ha' & K').
      destruct (step_sim_len _ _ _ _ _ _ _ _ _ _ _ _ _ _ Hs Ha Hs' Ha' S) as (S2 & <-).
      apply (IH _ _ _ _ _ _ _ _ _ _ _ _ _ _ K K' S2). }
    pose proof (map_index_nth_error (cs_roots c) (cs_roots c') i (proj1 S)) as Hn.
    destruct (nth_error (cs_roots c) i) as [r0|], (nth_error (cs_roots c') i) as [r0'|]; try contradiction.
    - rewrite <- Hn in H'. destruct (n_index r0 =? it_index it0).
      + apply (IH _ _ _ _ _ _ _ _ _ _ _ _ _ _ H H' S).
      + destruct grow; [|apply (Hstep i H H')].
        rewrite <- (SK_last_root c c' S) in H'.
        apply bind_ok in H. destruct H as (li & Hli & H). rewrite Hli in H'. cbn [bind] in H'.
        apply bind_ok in H. destruct H as ([[c2 q2] it2] & Hg & H).
        apply bind_ok in H'. destruct H' as ([[c2' q2'] it2'] & Hg' & H').
        destruct (grow_sim_len _ _ _ _ _ _ _ _ _ _ _ _ _ Hg Hg' S) as (S2 & <-).
        apply (IH _ _ _ _ _ _ _ _ _ _ _ _ _ _ H H' S2).
    - apply (Hstep i H H').
  Qed.
End Skeleton.

(* ====================================================================================== *)
(* 2. Reference runs of the upgrade loop (Replicate2.v), the case "target = own length",      *)
(*    and: no two reference upgrade nodes sit at sibling positions                            *)
(* ====================================================================================== *)

Definition grow_of (c : changeset) : bool := match cs_roots c with [] => false | _ => true end.

Lemma SK_grow c c' : SK c c' -> grow_of c = grow_of c'.
Proof.
  intros [H _]. unfold grow_of. destruct (cs_roots c), (cs_roots c'); cbn [map] in H; try discriminate H; reflexivity.
Qed.

Lemma u64_p2_64 u : 2 * u <= u64_max -> u < p2 g64.
Proof. rewrite p2_64. unfold u64_max. lia. Qed.

Lemma upg_idx_empty_replica u : 0 < u -> upg_idx g64 0 0 u = roots_from g64 0 u.
Proof.
  intros Hu. assert (E : exists g, g64 = S g) by (exists 63%nat; reflexivity).
  destruct E as (g & ->). cbn [upg_idx].
  destruct (N.leb_spec u 0) as [L|_]; [lia|]. cbv zeta.
  pose proof (p2_pos (log2n (u - 0))).
  destruct (N.leb_spec (0 + p2 (log2n (u - 0))) 0) as [L|_]; [lia|].
  destruct (N.ltb_spec 0 0) as [L|_]; [lia|]. reflexivity.
Qed.

Lemma nth_error_middle {A} (pre : list A) x post : nth_error (pre ++ x :: post) (length pre) = Some x.
Proof. rewrite nth_error_app2 by lia. rewrite Nat.sub_diag. reflexivity. Qed.

Section RefRun.
  Variable cr : crypto.
  Variable bs : list bytes.
  Hypothesis total_fits : sumN (map len bs) <= u64_max.

  (* the verifier's loop on the reference nodes of the upgrade r -> u: everything is consumed *)
  Lemma hon_loop c0 r u :
    r < u -> 2 * u <= u64_max -> vinv cr bs c0 r ->
    exists c1 it1,
      upgrade_roots_loop cr CLIMB c0 (mkQ (map (rn cr bs) (upg_idx g64 0 r u)) None) (it_new 0) (2 * u) 0 (grow_of c0)
        = Ok (c1, mkQ [] None, it1) /\ vinv cr bs c1 u /\ cs_grown cr bs c0 c1.
  Proof.
    intros Hru H64 V. pose proof (u64_p2_64 u H64) as Hu64.
    change (it_new 0) with (mkIter (2 * 0) 0 2).
    pose proof (vinv_roots cr bs c0 r V) as Hroots.
    destruct (N.eq_dec r 0) as [->|Hr].
    - assert (Eg : grow_of c0 = false).
      { unfold grow_of. rewrite Hroots. reflexivity. }
      rewrite Eg, (upg_idx_empty_replica u Hru).
      destruct (url_rest cr bs total_fits u g64 CLIMB 0 c0 (mkQ (map (rn cr bs) (roots_from g64 0 u)) None) (mkQ [] None) 0 false)
        as (c1 & it1 & Hrun & V1 & G1 & _);
        [apply climb_64|apply pref_0|lia|exact V|discriminate| |].
      { apply serves_plain. intros x [=]. }
      exists c1, it1. auto.
    - assert (Hr0 : 0 < r) by lia.
      assert (Eg : grow_of c0 = true).
      { unfold grow_of. destruct V as (_ & V & _). destruct (cs_roots c0) as [|x l]; [|reflexivity].
        cbn [rev] in V. symmetry in V. apply map_eq_nil in V. exfalso. apply (rrl_nonempty 0 r Hr0 V). }
      rewrite Eg.
      assert (Hroots' : cs_roots c0 = [] ++ map (rn cr bs) (roots_from g64 0 r)).
      { rewrite Hroots, ref_roots_rrl. cbn [app]. f_equal. apply roots_from_0. lia. }
      destruct (url_main cr bs total_fits r u c0 Hr0 Hru V g64 CLIMB 0
                  (mkQ (map (rn cr bs) (upg_idx g64 0 r u)) None) (mkQ [] None) [])
        as (c1 & it1 & Hrun & V1 & G1 & _);
        [apply climb_64|apply climb_64|apply pref_0|lia|lia|exact Hroots'| |].
      { apply serves_plain. intros x [=]. }
      cbn [length] in Hrun. exists c1, it1. auto.
  Qed.

  (* a target equal to the replica's own length: every root is found, nothing is asked for *)
  Lemma url_skip c0 r q (grow : bool) :
    forall g fuel X pre,
    (g < fuel)%nat -> pref X r -> r - X < p2 g ->
    cs_roots c0 = pre ++ map (rn cr bs) (roots_from g X r) ->
    exists it1, upgrade_roots_loop cr fuel c0 q (mkIter (2 * X) X 2) (2 * r) (length pre) grow = Ok (c0, q, it1).
  Proof.
    assert (Hend : forall fuel X i, r <= X ->
              exists it1, upgrade_roots_loop cr (S fuel) c0 q (mkIter (2 * X) X 2) (2 * r) i grow = Ok (c0, q, it1)).
    { intros fuel X i L. cbn [upgrade_roots_loop].
      pose proof (full_root_none r X L) as Hn.
      destruct (it_full_root (mkIter (2 * X) X 2) (2 * r)) as [found it1]. cbn [fst] in Hn. subst found.
      cbn [negb]. eauto. }
    induction g as [|g IH]; intros fuel X pre Hf HP Hg Hroots; (destruct fuel as [|f]; [lia|]).
    - rewrite p2_0 in Hg. apply Hend. lia.
    - destruct (N.leb_spec r X) as [L|L]; [apply Hend, L|].
      destruct (pref_step X r HP L) as (m & EX & H1 & H2 & HP' & Ed). cbv zeta in *.
      set (k := log2n (r - X)) in *.
      cbn [upgrade_roots_loop]. rewrite (Replicate2.full_root_at r X k m EX H1 H2). cbn [negb].
      cbn [roots_from] in Hroots. destruct (N.leb_spec r X) as [L'|_]; [lia|]. cbv zeta in Hroots.
      fold k in Hroots. rewrite Ed in Hroots. cbn [map] in Hroots.
      rewrite Hroots, nth_error_middle. unfold rn at 1. cbn [fst snd]. rewrite ref_node_index.
      unfold it_at at 1. cbn [it_index]. rewrite N.eqb_refl. rewrite next_tree_at.
      assert (Ex : (2 * m + 1) * p2 k = X + p2 k) by (rewrite EX, p2_S; lia).
      rewrite Ex.
      specialize (IH f (X + p2 k) (pre ++ [rn cr bs (k, 2 * m)])).
      rewrite app_length in IH. cbn [length] in IH. replace (length pre + 1)%nat with (S (length pre)) in IH by lia.
      apply IH; [lia|exact HP'| |].
      + assert (Hk : p2 k <= p2 g).
        { apply Replicate2.p2_le_mono. assert (k < S g)%nat by (apply p2_lt_mono; lia). lia. }
        rewrite p2_S in H2, Hg. lia.
      + rewrite <- app_assoc. exact Hroots.
  Qed.

  Lemma url_same c0 r q grow :
    2 * r <= u64_max -> vinv cr bs c0 r ->
    exists it1, upgrade_roots_loop cr CLIMB c0 q (it_new 0) (2 * r) 0 grow = Ok (c0, q, it1).
  Proof.
    intros H64 V. change (it_new 0) with (mkIter (2 * 0) 0 2).
    apply (url_skip c0 r q grow g64 CLIMB 0 []); [apply climb_64|apply pref_0|pose proof (u64_p2_64 r H64); lia|].
    rewrite (vinv_roots cr bs c0 r V), ref_roots_rrl. cbn [app]. f_equal. apply roots_from_0, u64_p2_64, H64.
  Qed.
End RefRun.

(* ---------- the shape of the reference index lists ---------- *)

Lemma tiles_in l : forall a b x, tiles l a b -> In x l -> a <= snd x * p2 (fst x) /\ (snd x + 1) * p2 (fst x) <= b.
Proof.
  induction l as [|y l IH]; intros a b x T Hx; [destruct Hx|].
  cbn [tiles] in T. destruct T as [Ea T]. pose proof (p2_pos (fst y)) as Hp.
  assert (Hle : (snd y + 1) * p2 (fst y) <= b).
  { clear -T. revert T. generalize ((snd y + 1) * p2 (fst y)). induction l as [|z l IHl]; intros a0 T; cbn [tiles] in T.
    - lia.
    - destruct T as [-> T]. apply IHl in T. pose proof (p2_pos (fst z)). lia. }
  destruct Hx as [<-|Hx].
  - split; [lia|exact Hle].
  - destruct (IH _ _ _ T Hx) as [A B]. split; [lia|exact B].
Qed.

Lemma conn_idx_char n : forall d a x, In x (conn_idx n d a) ->
  snd x mod 2 = 1 /\ (snd x - 1) * p2 (fst x) <= a * p2 d.
Proof.
  induction n as [|n IH]; intros d a x Hx; cbn [conn_idx] in Hx; [destruct Hx|].
  apply in_app_or in Hx. destruct Hx as [Hx|Hx].
  - destruct (N.even a) eqn:Ea; [|destruct Hx]. rewrite even_mod in Ea.
    destruct Hx as [<-|[]]. cbn [fst snd]. split; [lia|]. replace (a + 1 - 1) with a by lia. lia.
  - destruct (IH _ _ _ Hx) as [A B]. split; [exact A|]. rewrite p2_S in B. pose proof (p2_pos d). nia.
Qed.

Lemma roots_from_even g : forall X u x, pref X u -> In x (roots_from g X u) -> snd x mod 2 = 0.
Proof.
  induction g as [|g IH]; intros X u x HP Hx; cbn [roots_from] in Hx; [destruct Hx|].
  destruct (N.leb_spec u X) as [L|L]; [destruct Hx|].
  destruct (pref_step X u HP L) as (m & EX & H1 & H2 & HP' & Ed). cbv zeta in *.
  destruct Hx as [<-|Hx].
  - cbn [snd]. rewrite Ed. lia.
  - apply (IH _ _ _ HP' Hx).
Qed.

Lemma upg_idx_char r u : 0 < r -> r < u ->
  forall g X x, pref X u -> X <= r -> In x (upg_idx g X r u) ->
  snd x mod 2 = 0 \/ (snd x mod 2 = 1 /\ (snd x - 1) * p2 (fst x) < r).
Proof.
  intros Hr Hru. induction g as [|g IH]; intros X x HP HXr Hx; cbn [upg_idx] in Hx; [destruct Hx|].
  destruct (N.leb_spec u X) as [L|L]; [destruct Hx|]. cbv zeta in Hx.
  destruct (pref_step X u HP L) as (m & EX & H1 & H2 & HP' & Ed). cbv zeta in *.
  set (k := log2n (u - X)) in *.
  destruct (N.leb_spec (X + p2 k) r) as [Lm|Lm].
  - apply (IH _ _ HP' Lm Hx).
  - destruct (N.ltb_spec X r) as [Lr|Lr].
    + apply in_app_or in Hx. destruct Hx as [Hx|Hx].
      * right. destruct (conn_idx_char _ _ _ _ Hx) as [A B]. split; [exact A|]. rewrite p2_0 in B. lia.
      * left. apply (roots_from_even _ _ _ _ HP' Hx).
    + left. apply (roots_from_even (S g) X u x HP Hx).
Qed.

Lemma sib_parity o : (o mod 2 = 0 /\ sib o = o + 1) \/ (o mod 2 = 1 /\ sib o = o - 1).
Proof.
  unfold sib. destruct (N.even o) eqn:E; rewrite even_mod in E; [left|right]; split; lia.
Qed.

(* any list of nodes carrying the indices of the reference upgrade nodes *)
Lemma upg_no_sibling r u l :
  r < u -> u < p2 g64 -> map n_index l = map idx (upg_idx g64 0 r u) -> no_sibling_pair l.
Proof.
  intros Hru Hu E x y Hx Hy Hs.
  assert (Hin : forall z, In z l -> exists t, In t (upg_idx g64 0 r u) /\ n_index z = idx t).
  { intros z Hz. apply (in_map n_index) in Hz. rewrite E in Hz. apply in_map_iff in Hz.
    destruct Hz as (t & Et & Ht). exists t. auto. }
  destruct (Hin x Hx) as (tx & Htx & Ex). destruct (Hin y Hy) as (ty & Hty & Ey).
  rewrite Ex, Ey in Hs. unfold idx in Hs. rewrite ft_sibling_index in Hs. apply ft_index_inj in Hs.
  destruct Hs as [Hd Ho]. assert (Ed : fst ty = fst tx) by lia.
  destruct (N.eq_dec r 0) as [->|Hr].
  - rewrite (upg_idx_empty_replica u Hru) in Htx, Hty.
    pose proof (roots_from_even _ _ _ _ (pref_0 u) Htx) as Px.
    pose proof (roots_from_even _ _ _ _ (pref_0 u) Hty) as Py.
    destruct (sib_parity (snd tx)) as [[A B]|[A B]]; lia.
  - assert (Hr0 : 0 < r) by lia.
    pose proof (tiles_upg r u Hr0 Hru g64 0 (pref_0 u) ltac:(lia) ltac:(lia)) as T.
    destruct (tiles_in _ _ _ _ T Htx) as [Tx _]. destruct (tiles_in _ _ _ _ T Hty) as [Ty _].
    pose proof (upg_idx_char r u Hr0 Hru g64 0 tx (pref_0 u) ltac:(lia) Htx) as Cx.
    pose proof (upg_idx_char r u Hr0 Hru g64 0 ty (pref_0 u) ltac:(lia) Hty) as Cy.
    rewrite Ed in *. pose proof (p2_pos (fst tx)) as Hp.
    destruct (sib_parity (snd tx)) as [[A B]|[A B]]; rewrite B in Ho.
    + destruct Cy as [Cy|[_ Cy]]; [lia|]. rewrite Ho in Cy. replace (snd tx + 1 - 1) with (snd tx) in Cy by lia. lia.
    + destruct Cx as [Cx|[_ Cx]]; [lia|]. rewrite <- Ho in Cx. lia.
Qed.


(* ====================================================================================== *)
(* 3. What the upgrade loop of ANY proof does on a replica of length r: the indices it asks   *)
(*    for are those of the reference upgrade r -> start + length                              *)
(* ====================================================================================== *)

Lemma SK_sym c c' : SK c c' -> SK c' c.
Proof. intros [A B]. split; symmetry; assumption. Qed.

Lemma nil_fits : sumN (map len (@nil bytes)) <= u64_max.
Proof. cbn. unfold u64_max. lia. Qed.

Section Shape.
  Variable cr : crypto.

  (* a changeset with the root indices of a replica of length r (over the empty writer: only indices matter) *)
  Definition skel_cs (r : N) : changeset :=
    mkCs r r (prefix_size [] r) 0 0 (ref_roots cr [] r) [] None None false r 0.

  Lemma skel_vinv r : vinv cr [] (skel_cs r) r.
  Proof. unfold vinv, skel_cs. cbn [cs_length cs_roots cs_byte_length]. rewrite rev_ref_roots. auto. Qed.

  Lemma SK_skel bs c r : cs_roots c = ref_roots cr bs r -> cs_length c = r -> SK c (skel_cs r).
  Proof.
    intros Hr Hl. split; cbn [skel_cs cs_roots cs_length]; [|exact Hl].
    rewrite Hr, !ref_roots_indices. reflexivity.
  Qed.

  Lemma map_index_rn bs l : map n_index (map (rn cr bs) l) = map idx l.
  Proof. rewrite map_map. apply map_ext. intros x. unfold rn, idx. apply ref_node_index. Qed.

  Lemma took_all l e1 q' q1' c' c1' :
    took (mkQ l None) (mkQ [] e1) q' q1' c' c1' ->
    exists p', q_nodes q' = p' ++ q_nodes q1' /\ map n_index l = map n_index p' /\
               (forall x, In x p' -> In x (cs_rnodes c1')) /\ (forall y, In y (cs_rnodes c') -> In y (cs_rnodes c1')).
  Proof.
    intros (p & p' & A1 & A2 & A3 & A4 & A5). cbn [q_nodes] in A1. rewrite app_nil_r in A1. subst p.
    exists p'. auto.
  Qed.

  Lemma loop_shape c0 r u nodes c1 q1 it1 :
    SK c0 (skel_cs r) -> r < u -> 2 * u <= u64_max ->
    upgrade_roots_loop cr CLIMB c0 (mkQ nodes None) (it_new 0) (2 * u) 0 (grow_of c0) = Ok (c1, q1, it1) ->
    exists p, nodes = p ++ q_nodes q1 /\ map n_index p = map idx (upg_idx g64 0 r u) /\ cs_length c1 = u /\
              (forall x, In x p -> In x (cs_rnodes c1)) /\
              (forall y, In y (cs_rnodes c0) -> In y (cs_rnodes c1)) /\ q_extra q1 = None.
  Proof.
    intros S Hru H64 H.
    destruct (hon_loop cr [] nil_fits (skel_cs r) r u Hru H64 (skel_vinv r)) as (cA & itA & HA & VA & _).
    rewrite <- (SK_grow _ _ S) in HA.
    destruct (url_sim cr _ _ _ _ _ _ _ _ _ _ _ _ _ _ _ HA H (SK_sym _ _ S) eq_refl) as (S1 & Q1 & T).
    apply took_all in T. destruct T as (pB & EB & Ei & Hin & Hmono).
    rewrite map_index_rn in Ei.
    exists pB. split; [exact EB|]. split; [symmetry; exact Ei|].
    split; [destruct S1 as [_ S1]; rewrite <- S1; destruct VA as (VA & _); exact VA|].
    split; [exact Hin|]. split; [exact Hmono|].
    unfold SQ in Q1. destruct (q_extra q1); [discriminate Q1|reflexivity].
  Qed.

  Lemma set_signature_rnodes c sg pk c' :
    cs_verify_and_set_signature cr c sg pk = Ok c' -> cs_rnodes c' = cs_rnodes c.
  Proof.
    unfold cs_verify_and_set_signature. intros H. apply bind_ok in H. destruct H as (s & _ & H).
    destruct (cr_verify cr pk _ s); [|discriminate H]. injection H as <-. reflexivity.
  Qed.

  (* verify_upgrade without additional nodes, read backwards *)
  Lemma verify_upgrade_inv0 fork u root pk c consumed c4 :
    du_additional u = [] -> verify_upgrade cr fork u root pk c = Ok (consumed, c4) ->
    exists c1 q1 it1,
      2 * (du_start u + du_length u) <= u64_max /\
      upgrade_roots_loop cr CLIMB c (mkQ (du_nodes u) root) (it_new 0) (2 * (du_start u + du_length u)) 0 (grow_of c)
        = Ok (c1, q1, it1) /\
      length (du_signature u) = 64%nat /\
      cr_verify cr pk (signable (tree_hash cr (cs_roots c1)) (cs_length c1) fork) (du_signature u) = true /\
      cs_rnodes c4 = cs_rnodes c1 /\ cs_roots c4 = cs_roots c1 /\ cs_length c4 = cs_length c1 /\
      consumed = match q_extra q1 with None => true | Some _ => false end.
  Proof.
    intros Hadd H. unfold verify_upgrade in H. rewrite Hadd in H.
    apply bind_ok in H. destruct H as (sl & Hsl & H).
    apply bind_ok in H. destruct H as (to & Hto & H).
    apply bind_ok in H. destruct H as ([[c1 q1] it1] & Hurl & H).
    apply bind_ok in H. destruct H as (li & _ & H).
    cbn [extra_siblings extra_rest bind] in H.
    apply bind_ok in H. destruct H as (c4' & Hsig & H). injection H as <- <-.
    unfold add64 in Hsl. destruct (fits_u64 (du_start u + du_length u)); [|discriminate Hsl]. injection Hsl as <-.
    unfold mul64 in Hto. destruct (fits_u64 (2 * (du_start u + du_length u))) eqn:F; [|discriminate Hto].
    injection Hto as <-.
    pose proof (set_signature_rnodes _ _ _ _ Hsig) as Rn.
    apply upgrade_signature_binds in Hsig. destruct Hsig as (V & R & L & _ & _ & _ & H64).
    cbn [cs_set_fork cs_roots cs_length cs_fork cs_rnodes] in V, R, L, Rn.
    exists c1, q1, it1. split; [unfold fits_u64 in F; lia|]. split; [exact Hurl|]. split; [exact H64|].
    split; [exact V|]. split; [exact Rn|]. split; [exact R|]. split; [exact L|reflexivity].
  Qed.

  (* the same with the fields spelled out (no projection has to be reduced by the caller) *)
  Lemma verify_upgrade_inv1 fork s l nodes sg root pk c consumed c4 :
    verify_upgrade cr fork (mkDataUpgrade s l nodes [] sg) root pk c = Ok (consumed, c4) ->
    exists c1 q1 it1,
      2 * (s + l) <= u64_max /\
      upgrade_roots_loop cr CLIMB c (mkQ nodes root) (it_new 0) (2 * (s + l)) 0 (grow_of c) = Ok (c1, q1, it1) /\
      length sg = 64%nat /\
      cr_verify cr pk (signable (tree_hash cr (cs_roots c1)) (cs_length c1) fork) sg = true /\
      cs_rnodes c4 = cs_rnodes c1 /\ cs_roots c4 = cs_roots c1 /\ cs_length c4 = cs_length c1 /\
      consumed = match q_extra q1 with None => true | Some _ => false end.
  Proof. intros H. apply (verify_upgrade_inv0 fork (mkDataUpgrade s l nodes [] sg) root pk c consumed c4 eq_refl H). Qed.
End Shape.

(* ====================================================================================== *)
(* 3b. A target below the replica's own length: the loop ends without touching the changeset, *)
(*     or fails (the grow branch can never reach the root it is sent to)                      *)
(* ====================================================================================== *)

Section Below.
  Variable cr : crypto.

  (* the iterator after the merges of append_root, and the index of the new last root *)
  Lemma merge_it : forall fuel a rest nodes d o rr nr it',
    merge_roots cr fuel (a :: rest) nodes (it_at (N.of_nat d) o) = Ok (rr, nr, it') ->
    n_index a = ft_index (N.of_nat d) o ->
    exists j top rest', it' = it_at (N.of_nat (d + j)) (o / p2 j) /\ rr = top :: rest' /\
      n_index top = ft_index (N.of_nat (d + j)) (o / p2 j) /\
      (forall b rest0, rest = b :: rest0 -> n_index b = ft_index (N.of_nat d) (sib o) -> (0 < j)%nat).
  Proof.
    induction fuel as [|f IH]; intros a rest nodes d o rr nr it' H Ia; [discriminate H|].
    assert (Hstop : (rr, nr, it') = (a :: rest, nodes, it_at (N.of_nat d) o) ->
                    (forall b rest0, rest = b :: rest0 -> n_index b <> ft_index (N.of_nat d) (sib o)) ->
      exists j top rest', it' = it_at (N.of_nat (d + j)) (o / p2 j) /\ rr = top :: rest' /\
        n_index top = ft_index (N.of_nat (d + j)) (o / p2 j) /\
        (forall b rest0, rest = b :: rest0 -> n_index b = ft_index (N.of_nat d) (sib o) -> (0 < j)%nat)).
    { intros [= -> -> ->] Hn. exists 0%nat, a, rest. rewrite Nat.add_0_r, p2_0, N.div_1_r.
      split; [reflexivity|]. split; [reflexivity|]. split; [exact Ia|].
      intros b rest0 E Hb. exfalso. apply (Hn b rest0 E Hb). }
    cbn [merge_roots] in H. destruct rest as [|b rest2].
    { apply Hstop; [now injection H as <- <- <-|]. intros b rest0 E. discriminate E. }
    rewrite it_sibling_at_sib in H. cbn [it_at it_index] in H.
    destruct (N.eqb_spec (ft_index (N.of_nat d) (sib o)) (n_index b)) as [Eb|Eb]; cbn [negb] in H.
    2:{ apply Hstop; [now injection H as <- <- <-|]. intros b0 rest0 [= <- <-] Hb. apply Eb. symmetry. exact Hb. }
    clear Hstop. fold (it_at (N.of_nat d) (sib o)) in H. rewrite it_parent_at, sib_div in H.
    replace (N.of_nat d + 1) with (N.of_nat (S d)) in H by lia.
    apply bind_ok in H. destruct H as (l & _ & H). cbn [it_at it_index] in H. fold (it_at (N.of_nat (S d)) (o / 2)) in H.
    destruct (IH _ _ _ _ _ _ _ _ H eq_refl) as (j & top & rest' & E1 & E2 & E3 & _).
    exists (S j), top, rest'. replace (d + S j)%nat with (S d + j)%nat by lia. rewrite <- div_p2_S.
    split; [exact E1|]. split; [exact E2|]. split; [exact E3|]. intros; lia.
  Qed.

  (* the grow branch walks over the ancestors of the last root only *)
  Lemma grow_never : forall fuel c q d o ri c1 q1 i1 top rest,
    rev (cs_roots c) = top :: rest -> n_index top = ft_index (N.of_nat d) o ->
    (forall j, ft_index (N.of_nat (d + j)) (o / p2 j) <> ri) ->
    grow_loop cr fuel c q (it_at (N.of_nat d) o) ri = Ok (c1, q1, i1) -> False.
  Proof.
    induction fuel as [|f IH]; intros c q d o ri c1 q1 i1 top rest Hrev Htop Hne H; [discriminate H|].
    cbn [grow_loop] in H. cbn [it_at it_index] in H.
    destruct (N.eqb_spec (ft_index (N.of_nat d) o) ri) as [E|_].
    { apply (Hne 0%nat). rewrite Nat.add_0_r, p2_0, N.div_1_r. exact E. }
    fold (it_at (N.of_nat d) o) in H. rewrite it_sibling_at_sib in H.
    apply bind_ok in H. destruct H as ([n q2] & Hs & H). apply bind_ok in H. destruct H as ([c2 it2] & Ha & H).
    apply q_shift_inv in Hs. destruct Hs as (Hn & _). cbn [it_at it_index] in Hn.
    unfold append_root in Ha. apply bind_ok in Ha. destruct Ha as (bl & _ & Ha).
    apply bind_ok in Ha. destruct Ha as ([[rr nr] it3] & Hm & Ha). injection Ha as <- <-.
    rewrite Hrev in Hm.
    destruct (merge_it _ _ _ _ _ _ _ _ _ Hm Hn) as (j & top' & rest' & E1 & E2 & E3 & Hj).
    assert (Hj0 : (0 < j)%nat).
    { apply (Hj top rest eq_refl). rewrite sib_invol. exact Htop. }
    assert (Eo : sib o / p2 j = o / p2 j).
    { destruct j as [|j0]; [lia|]. rewrite <- !div_p2_S, sib_div. reflexivity. }
    rewrite Eo in E1, E3. subst it3.
    apply (IH _ _ _ _ _ _ _ _ top' rest') in H; [exact H| | |].
    - cbn [cs_roots]. rewrite rev_involutive. exact E2.
    - exact E3.
    - intros j'. rewrite div_p2_add. replace (d + j + j')%nat with (d + (j + j'))%nat by lia. apply Hne.
  Qed.

  Variable bs : list bytes.
  Hypothesis total_fits : sumN (map len bs) <= u64_max.

  Lemma url_below_gen c0 r u q :
    vinv cr bs c0 r -> u < r ->
    forall g fuel X pre c1 q1 it1,
    (g < fuel)%nat -> pref X r -> pref X u -> r - X < p2 g -> X <= u ->
    cs_roots c0 = pre ++ map (rn cr bs) (roots_from g X r) ->
    upgrade_roots_loop cr fuel c0 q (mkIter (2 * X) X 2) (2 * u) (length pre) true = Ok (c1, q1, it1) -> c1 = c0.
  Proof.
    intros V Hur. assert (Hr0 : 0 < r) by lia.
    destruct (rrl_head [] nil_fits r 0 Hr0) as (dL & oL & lL & ErL & _ & EsL). rewrite p2_0, N.mul_1_r in EsL.
    induction g as [|g IH]; intros fuel X pre c1 q1 it1 Hf HPr HPu Hg HXu Hroots H.
    { rewrite p2_0 in Hg. lia. }
    destruct fuel as [|f]; [lia|].
    cbn [upgrade_roots_loop] in H.
    destruct (N.leb_spec u X) as [L|L].
    { pose proof (full_root_none u X L) as Hn.
      destruct (it_full_root (mkIter (2 * X) X 2) (2 * u)) as [found it0]. cbn [fst] in Hn. subst found.
      cbn [negb] in H. now injection H as <- _ _. }
    destruct (pref_step X u HPu L) as (mu & EXu & H1u & H2u & HPu' & Edu). cbv zeta in *.
    set (ku := log2n (u - X)) in *.
    assert (Lr : X < r) by lia.
    destruct (pref_step X r HPr Lr) as (mr & EXr & H1r & H2r & HPr' & Edr). cbv zeta in *.
    set (kr := log2n (r - X)) in *.
    rewrite (Replicate2.full_root_at u X ku mu EXu H1u H2u) in H. cbn [negb] in H.
    cbn [roots_from] in Hroots. destruct (N.leb_spec r X) as [L'|_]; [lia|]. cbv zeta in Hroots.
    fold kr in Hroots. rewrite Edr in Hroots. cbn [map] in Hroots.
    rewrite Hroots, nth_error_middle in H. unfold rn at 1 in H. cbn [fst snd] in H. rewrite ref_node_index in H.
    unfold it_at at 1 in H. cbn [it_index] in H.
    pose proof (p2_pos ku) as Hpku. pose proof (p2_pos kr) as Hpkr.
    destruct (N.eqb_spec (ft_index (N.of_nat kr) (2 * mr)) (ft_index (N.of_nat ku) (2 * mu))) as [Ei|Ei].
    - (* the same root: skip it *)
      apply ft_index_inj in Ei. destruct Ei as [Ek Em]. assert (Ekk : kr = ku) by lia.
      rewrite next_tree_at in H.
      assert (Ex : (2 * mu + 1) * p2 ku = X + p2 ku) by (rewrite EXu, p2_S; lia).
      rewrite Ex in H.
      specialize (IH f (X + p2 ku) (pre ++ [rn cr bs (kr, 2 * mr)]) c1 q1 it1).
      rewrite app_length in IH. cbn [length] in IH. replace (length pre + 1)%nat with (S (length pre)) in IH by lia.
      apply IH; [lia|rewrite <- Ekk; exact HPr'|exact HPu'| |exact H1u| |exact H].
      + assert (Hk : p2 kr <= p2 g).
        { apply Replicate2.p2_le_mono. assert (kr < S g)%nat by (apply p2_lt_mono; lia). lia. }
        rewrite p2_S in H2r, Hg. rewrite <- Ekk. lia.
      + rewrite <- app_assoc. cbn [app]. rewrite <- Ekk. exact Hroots.
    - (* a smaller root of the target inside a root of the replica: the grow branch cannot succeed *)
      exfalso.
      assert (Hlt : (ku < kr)%nat).
      { destruct (Nat.lt_trichotomy ku kr) as [Hk|[Hk|Hk]]; [exact Hk| |].
        - exfalso. apply Ei. rewrite Hk in *. f_equal. rewrite <- Edu, <- Edr. reflexivity.
        - exfalso. assert (p2 (S kr) <= p2 ku) by (apply Replicate2.p2_le_mono; lia). lia. }
      assert (Hp : 2 * p2 ku <= p2 kr).
      { rewrite <- p2_S. apply Replicate2.p2_le_mono. lia. }
      unfold last_root_index in H.
      destruct V as (_ & V2 & _). rewrite V2, ErL in H. cbn [map bind] in H.
      apply bind_ok in H. destruct H as ([[c2 q2] it2] & Hg1 & _).
      unfold rn at 1 in Hg1. cbn [fst snd] in Hg1. rewrite ref_node_index, FlatTreeFacts.it_new_index in Hg1.
      refine (grow_never _ _ _ _ _ _ _ _ _ (rn cr bs (dL, oL)) (map (rn cr bs) lL) _ _ _ Hg1).
      + rewrite V2, ErL. reflexivity.
      + unfold rn. cbn [fst snd]. apply ref_node_index.
      + intros j Ej. apply ft_index_inj in Ej. destruct Ej as [Ed Eo].
        assert (Edk : ku = (dL + j)%nat) by lia.
        assert (Epk : p2 ku = p2 dL * p2 j) by (rewrite Edk; apply Replicate2.p2_add).
        pose proof (p2_pos dL) as HpL. pose proof (p2_pos j) as Hpj.
        (* oL / p2 j = 2 mu: the start of the last root lies in [X, X + p2 ku) *)
        pose proof (N.div_mod oL (p2 j) ltac:(lia)) as Dm. pose proof (N.mod_lt oL (p2 j) ltac:(lia)) as Lm.
        rewrite Eo in Dm.
        assert (HX : X = 2 * mu * p2 ku) by (rewrite EXu, p2_S; lia).
        assert (B1 : oL * p2 dL < X + p2 ku).
        { rewrite HX, Epk. nia. }
        assert (B2 : p2 dL <= p2 ku) by (rewrite Epk; nia).
        nia.
  Qed.

  Lemma url_below c0 r u q c1 q1 it1 :
    vinv cr bs c0 r -> u < r -> 2 * r <= u64_max ->
    upgrade_roots_loop cr CLIMB c0 q (it_new 0) (2 * u) 0 (grow_of c0) = Ok (c1, q1, it1) -> c1 = c0.
  Proof.
    intros V Hur H64 H. change (it_new 0) with (mkIter (2 * 0) 0 2) in H.
    assert (Eg : grow_of c0 = true).
    { unfold grow_of. destruct V as (_ & V & _). destruct (cs_roots c0) as [|x l]; [|reflexivity].
      cbn [rev] in V. symmetry in V. apply map_eq_nil in V. exfalso. apply (rrl_nonempty 0 r ltac:(lia) V). }
    rewrite Eg in H.
    apply (url_below_gen c0 r u q V Hur g64 CLIMB 0 [] c1 q1 it1); [apply climb_64|apply pref_0|apply pref_0| |lia| |exact H].
    - pose proof (u64_p2_64 r H64). lia.
    - rewrite (vinv_roots cr bs c0 r V), ref_roots_rrl. cbn [app]. f_equal. apply roots_from_0, u64_p2_64, H64.
  Qed.
End Below.

(* ====================================================================================== *)
(* 4. Honest proofs, signature events, and what an accepted upgrade section must look like    *)
(* ====================================================================================== *)

Lemma firstn_app_exact {A} (p rest l : list A) : l = p ++ rest -> length p = length l -> rest = [] /\ l = p.
Proof.
  intros E HL. assert (Hr : length rest = 0%nat) by (apply (f_equal (@length A)) in E; rewrite app_length in E; lia).
  apply length_zero_iff_nil in Hr. subst rest. rewrite app_nil_r in E. auto.
Qed.

Section Alter.
  Variable cr : crypto.
  Hypothesis Hhash32 : forall x, length (cr_hash cr x) = 32%nat.
  Hypothesis Hnonblank : forall x, all_zero (cr_hash cr x) = false.
  Variable bs : list bytes.               (* the writer's blocks *)
  Hypothesis Hw : writer_fits bs.

  (* the message the writer signs at length m (fork 0) *)
  Definition Msg (m : N) : bytes := signable (tree_hash cr (ref_roots cr bs m)) m 0.

  (* the reference nodes of the upgrade r -> m, in the order the verifier asks for them (Replicate2.upg_idx) *)
  Local Notation hon_nodes r m := (map (rn cr bs) (upg_idx g64 0 r m)) (only parsing).

  (* one signature that verifies on two different messages *)
  Definition sig_transplant (pk : bytes) : Prop :=
    exists msg msg' sg, msg <> msg' /\ cr_verify cr pk msg sg = true /\ cr_verify cr pk msg' sg = true.

  (* two different signatures that verify on one message *)
  Definition sig_malleable (pk : bytes) : Prop :=
    exists msg sg sg', sg <> sg' /\ cr_verify cr pk msg sg = true /\ cr_verify cr pk msg sg' = true.

  (* what RInv says about the tree of the replica *)
  Definition replica_tree (t : mtree) (tf : file) (r : N) : Prop :=
    r <= N.of_nat (length bs) /\ t_roots t = ref_roots cr bs r /\ t_length t = r /\
    t_byte_length t = prefix_size bs r /\ unfl_sound cr bs t r /\ file_sound cr bs tf r.

  Lemma RInv_replica_tree c d : RInv cr bs c d -> replica_tree (c_tree c) (d_tree d) (t_length (c_tree c)).
  Proof.
    intros (H1 & H2 & H3 & H4 & H5 & H6 & _). unfold replica_tree.
    split; [exact H1|]. split; [exact H3|]. split; [reflexivity|]. split; [exact H4|]. split; [exact H5|exact H6].
  Qed.

  Lemma len_fits m : m <= N.of_nat (length bs) -> 2 * m <= u64_max.
  Proof.
    clear Hhash32 Hnonblank. destruct Hw as [_ Hw2]. unfold NODE_SIZE in Hw2. lia. Qed.

  Lemma verify_proof_upgrade_only_inv t tf fork u pk cs :
    verify_proof cr t tf (mkProof fork None None None (Some u)) pk = Ok cs ->
    exists consumed, verify_upgrade cr fork u None pk (tree_changeset t) = Ok (consumed, cs).
  Proof.
    intros V. unfold verify_proof in V. cbn [p_block p_hash p_seek p_upgrade p_fork] in V.
    change (verify_tree cr None None None (tree_changeset t)) with (Ok (@None node, tree_changeset t)) in V.
    cbn [bind] in V.
    apply bind_ok in V. destruct V as ([root2 cx] & Hvu & V).
    apply bind_ok in Hvu. destruct Hvu as ([consumed c4] & Hvu & E).
    assert (root2 = None /\ cx = c4) as [-> ->] by (destruct consumed; injection E as <- <-; auto).
    injection V as <-. exists consumed. exact Hvu.
  Qed.

  Lemma auth_list_eq p : forall l,
    map n_index p = map idx l -> (forall x, In x p -> x = ref_at cr bs (n_index x)) -> p = map (rn cr bs) l.
  Proof.
    induction p as [|x p IH]; intros [|t l] E Ha; cbn [map] in E; try discriminate E; [reflexivity|].
    injection E as Ex E. cbn [map]. f_equal.
    - rewrite (Ha x (or_introl eq_refl)), Ex. unfold idx, rn. apply ref_at_index.
    - apply IH; [exact E|]. intros y Hy. apply Ha. right. exact Hy.
  Qed.

  (* ---------- the nodes of an accepted upgrade section ---------- *)

  (* an accepted upgrade-only proof for a target above the replica's length carries the reference nodes of that
     upgrade, possibly followed by nodes the verifier never looks at *)
  Lemma upgrade_nodes_core t tf r fork s' l' nodes' sg' pk cs u :
    replica_tree t tf r -> s' + l' = u -> r < u -> nodes_ok nodes' = true ->
    (length nodes' = length (upg_idx g64 0 r u) \/ no_sibling_pair nodes') ->
    verify_proof cr t tf (mkProof fork None None None (Some (mkDataUpgrade s' l' nodes' [] sg'))) pk = Ok cs ->
    ((exists tail, nodes' = hon_nodes r u ++ tail) /\ u <= N.of_nat (length bs)) \/
    some_collision cr \/ forged_signature cr bs pk.
  Proof.
    intros (Hr & HR & HL & HB & Hu & Hf) <- Hlt Hok Hshape V.
    destruct (verify_proof_upgrade_only_inv _ _ _ _ _ _ V) as (consumed & Hvu).
    destruct (verify_upgrade_inv1 cr _ _ _ _ _ _ _ _ _ _ Hvu)
      as (c1 & q1 & it1 & H64 & Hloop & _ & _ & Rn & _ & L4 & _).
    assert (S0 : SK (tree_changeset t) (skel_cs cr r)) by (apply (SK_skel cr bs); [exact HR|exact HL]).
    destruct (loop_shape cr _ r _ _ _ _ _ S0 Hlt H64 Hloop) as (p & Ep & Ei & Hl1 & Hin & _ & _).
    assert (Hns : no_sibling_pair nodes').
    { destruct Hshape as [Hlen|Hns]; [|exact Hns].
      assert (Hpl : length p = length nodes').
      { rewrite Hlen. apply (f_equal (@length N)) in Ei. rewrite !map_length in Ei. exact Ei. }
      destruct (firstn_app_exact _ _ _ Ep Hpl) as [_ ->].
      apply (upg_no_sibling r (s' + l') p Hlt (u64_p2_64 _ H64) Ei). }
    destruct (verify_upgrade_sound cr Hhash32 bs Hw (tree_changeset t) r fork (mkDataUpgrade s' l' nodes' [] sg') None pk consumed cs
                Hr HR HL HB eq_refl Hok Hns I Hvu)
      as [(m & new & _ & Hmn & _ & Elen & _ & _ & En & Hauth & _)|[C|F]]; [left|right; left; exact C|right; right; exact F].
    cbn [tree_changeset cs_rnodes] in En. rewrite app_nil_r in En.
    split; [|rewrite <- Hl1, <- L4, Elen; exact Hmn].
    exists (q_nodes q1). rewrite Ep at 1. f_equal.
    apply (auth_list_eq p _ Ei). intros x Hx.
    rewrite Forall_forall in Hauth. apply (Hauth x). rewrite <- En, Rn. apply Hin, Hx.
  Qed.

  (* ---------- the target of an accepted upgrade section ---------- *)

  (* whatever start and length an upgrade section claims, on a changeset that carries the writer's roots for r the
     verifier ends at length max r (start + length) -- or fails *)
  Lemma upgrade_target_length c0 r root fork s' l' nodes' sg' pk consumed cs :
    vinv cr bs c0 r -> 2 * r <= u64_max ->
    verify_upgrade cr fork (mkDataUpgrade s' l' nodes' [] sg') root pk c0 = Ok (consumed, cs) ->
    cs_length cs = N.max r (s' + l') /\ s' + l' < 2 ^ 64 /\
    cr_verify cr pk (signable (tree_hash cr (cs_roots cs)) (N.max r (s' + l')) fork) sg' = true.
  Proof.
    clear Hhash32 Hnonblank.
    intros V0 H64r Hvu.
    destruct (verify_upgrade_inv1 cr _ _ _ _ _ _ _ _ _ _ Hvu)
      as (c1 & q1 & it1 & H64 & Hloop & _ & Hver & _ & R4 & L4 & _).
    assert (HL : cs_length c0 = r) by (destruct V0 as (V0 & _); exact V0).
    assert (Hlen : cs_length c1 = N.max r (s' + l')).
    { destruct (N.lt_trichotomy (s' + l') r) as [E|[E|E]].
      - rewrite (url_below cr bs (proj1 Hw) c0 r (s' + l') _ c1 q1 it1 V0 E H64r Hloop). lia.
      - rewrite E in Hloop.
        destruct (url_same cr bs (proj1 Hw) c0 r (mkQ nodes' root) (grow_of c0) H64r V0) as (itA & HA).
        rewrite HA in Hloop. injection Hloop as <- _ _. lia.
      - assert (S0 : SK c0 (skel_cs cr r)) by (apply (SK_skel cr bs); [apply (vinv_roots cr bs c0 r V0)|exact HL]).
        destruct (hon_loop cr [] nil_fits (skel_cs cr r) r (s' + l') E H64 (skel_vinv cr r)) as (cA & itA & HA & VA & _).
        rewrite <- (SK_grow _ _ S0) in HA.
        destruct (url_sim_len cr _ _ _ _ _ _ _ _ _ _ _ _ _ _ _ HA Hloop (SK_sym _ _ S0)) as [_ S1].
        rewrite <- S1. destruct VA as (VA & _). rewrite VA. lia. }
    rewrite L4, R4, Hlen. split; [reflexivity|]. split; [apply u64_lt; lia|].
    rewrite Hlen in Hver. exact Hver.
  Qed.

  Lemma Msg_inj h l f m : l < 2 ^ 64 -> m <= N.of_nat (length bs) -> l <> m -> signable h l f <> Msg m \/ 2 ^ 64 <= f.
  Proof.
    clear Hhash32 Hnonblank.
    intros Hl Hm Hne. destruct (N.lt_ge_cases f (2 ^ 64)) as [Hf|Hf]; [left|right; exact Hf].
    intros E. unfold Msg in E. apply signable_inj_gen in E; try assumption.
    - destruct E as (_ & E & _). contradiction.
    - apply u64_lt. pose proof (len_fits m Hm). lia.
    - change (2 ^ 64) with 18446744073709551616. lia.
  Qed.

  (* an upgrade section whose target differs from the length its signature was made for *)
  Lemma upgrade_target_altered t tf r m s' l' nodes' sg pk cs :
    replica_tree t tf r -> r < m -> m <= N.of_nat (length bs) -> cr_verify cr pk (Msg m) sg = true ->
    s' + l' <> m ->
    verify_proof cr t tf (mkProof 0 None None None (Some (mkDataUpgrade s' l' nodes' [] sg))) pk = Ok cs ->
    sig_transplant pk.
  Proof.
    clear Hhash32 Hnonblank.
    intros (Hr & HR & HL & HB & Hu & Hf) Hrm Hm Hsg Hne V.
    destruct (verify_proof_upgrade_only_inv _ _ _ _ _ _ V) as (consumed & Hvu).
    destruct (upgrade_target_length _ r _ _ _ _ _ _ _ _ _ (vinv_tree_changeset cr bs t r HR HL HB) (len_fits r Hr) Hvu)
      as (_ & H64 & Hver).
    exists (signable (tree_hash cr (cs_roots cs)) (N.max r (s' + l')) 0), (Msg m), sg.
    split; [|split; assumption].
    assert (H64m : N.max r (s' + l') < 2 ^ 64).
    { pose proof (len_fits r Hr). change (2 ^ 64) with 18446744073709551616 in *. unfold u64_max in *. lia. }
    destruct (Msg_inj (tree_hash cr (cs_roots cs)) (N.max r (s' + l')) 0 m H64m Hm ltac:(lia)) as [E|E]; [exact E|].
    change (2 ^ 64) with 18446744073709551616 in E. lia.
  Qed.

  (* whatever signature comes with the reference nodes of r -> m is checked against the writer's message for m *)
  Lemma reference_nodes_signature_checked t tf r m nodes sg' pk cs :
    replica_tree t tf r -> r < m -> 2 * m <= u64_max -> nodes = hon_nodes r m ->
    verify_proof cr t tf (mkProof 0 None None None (Some (mkDataUpgrade r (m - r) nodes [] sg'))) pk = Ok cs ->
    cr_verify cr pk (Msg m) sg' = true /\ length sg' = 64%nat.
  Proof.
    clear Hhash32 Hnonblank.
    intros (Hr & HR & HL & HB & Hu & Hf) Hlt H64m -> V.
    destruct (verify_proof_upgrade_only_inv _ _ _ _ _ _ V) as (consumed & Hvu).
    destruct (verify_upgrade_inv1 cr _ _ _ _ _ _ _ _ _ _ Hvu)
      as (c1 & q1 & it1 & H64 & Hloop & Hs64 & Hver & _ & _ & _ & _).
    replace (r + (m - r)) with m in H64, Hloop by lia.
    destruct (hon_loop cr bs (proj1 Hw) (tree_changeset t) r m Hlt H64) as (cA & itA & HA & VA & _).
    { apply vinv_tree_changeset; assumption. }
    rewrite HA in Hloop. injection Hloop as <- _ _.
    rewrite (vinv_roots cr bs cA m VA) in Hver. destruct VA as (VA & _). rewrite VA in Hver.
    split; [exact Hver|exact Hs64].
  Qed.

  (* the honest upgrade section with other signature bytes *)
  Lemma upgrade_sig_altered t tf r m nodes sg sg' pk cs :
    replica_tree t tf r -> r < m -> m <= N.of_nat (length bs) -> cr_verify cr pk (Msg m) sg = true -> sg' <> sg ->
    nodes = hon_nodes r m ->
    verify_proof cr t tf (mkProof 0 None None None (Some (mkDataUpgrade r (m - r) nodes [] sg'))) pk = Ok cs ->
    sig_malleable pk.
  Proof.
    clear Hhash32 Hnonblank.
    intros HT Hlt Hm Hsg Hne HN V.
    destruct (reference_nodes_signature_checked _ _ _ _ _ _ _ _ HT Hlt (len_fits m Hm) HN V) as [Hver _].
    exists (Msg m), sg, sg'. split; [congruence|]. split; [exact Hsg|exact Hver].
  Qed.
End Alter.

(* ====================================================================================== *)
(* 5. Honest proofs and their single-field alterations                                        *)
(* ====================================================================================== *)

(* the reference nodes of the upgrade r -> m, in the order the verifier asks for them *)
Notation hon_nodes cr bs r m := (map (rn cr bs) (upg_idx g64 0 r m)) (only parsing).

(* replace the j-th element *)
Definition set_nth {A} (j : nat) (x : A) (l : list A) : list A := firstn j l ++ x :: skipn (S j) l.

Lemma set_nth_length {A} (j : nat) (x : A) l : (j < length l)%nat -> length (set_nth j x l) = length l.
Proof.
  intros H. unfold set_nth. rewrite app_length, firstn_length. cbn [length]. rewrite skipn_length. lia.
Qed.

Lemma set_nth_nth {A} (j : nat) (x : A) l : (j < length l)%nat -> nth_error (set_nth j x l) j = Some x.
Proof.
  intros H. unfold set_nth. rewrite nth_error_app2 by (rewrite firstn_length; lia).
  rewrite firstn_length. replace (j - Nat.min j (length l))%nat with 0%nat by lia. reflexivity.
Qed.

Lemma set_nth_neq {A} (j : nat) (x : A) l : (j < length l)%nat -> nth_error l j <> Some x -> set_nth j x l <> l.
Proof. intros H Hn E. apply Hn. rewrite <- E at 1. apply set_nth_nth, H. Qed.

Section Defs.
  Variable cr : crypto.
  Variable bs : list bytes.               (* the writer's blocks *)

  (* what the writer serves for block i with k sibling nodes *)
  Definition hon_block (i : N) (k : nat) : data_block := mkDataBlock i (blk bs i) (ref_sibs cr bs k 0 i).

  (* the honest proofs for a replica of length r that verifies under pk: fork 0; a block with the writer's value and
     the reference sibling path; or an upgrade from r to m <= length bs with the reference nodes, no additional
     nodes, and a 64-byte signature that verifies on (reference roots of m, m, fork 0) *)
  Inductive honest (pk : bytes) (r : N) : proof -> Prop :=
  | honest_block i k : honest pk r (mkProof 0 (Some (hon_block i k)) None None None)
  | honest_upgrade m sg nodes :
      r < m -> m <= N.of_nat (length bs) -> nodes = hon_nodes cr bs r m ->
      length sg = 64%nat -> cr_verify cr pk (Msg cr bs m) sg = true ->
      honest pk r (mkProof 0 None None None (Some (mkDataUpgrade r (m - r) nodes [] sg))).

  Lemma honest_upgrade_inv pk r f u :
    honest pk r (mkProof f None None None (Some u)) ->
    exists m, r < m /\ m <= N.of_nat (length bs) /\ du_start u = r /\ du_length u = m - r /\
              du_nodes u = hon_nodes cr bs r m /\ du_additional u = [] /\ f = 0 /\
              length (du_signature u) = 64%nat /\ cr_verify cr pk (Msg cr bs m) (du_signature u) = true.
  Proof.
    intros H. inversion H; subst. exists m. cbn [du_start du_length du_nodes du_additional du_signature].
    repeat split; assumption.
  Qed.
End Defs.

(* single-field alterations of a block section: the value (any change), one node (any change of its index, size or
   hash), the index (only for sections that carry at least one node: a section without nodes, i.e. a block whose
   leaf the replica already stores, moved to another index is accepted exactly when the value is also the writer's
   block at that index -- it is then the honest proof for that index: accepted_block_proof_is_honest) *)
Inductive block_alt (b : data_block) : data_block -> Prop :=
| ba_value v' : v' <> db_value b -> block_alt b (mkDataBlock (db_index b) v' (db_nodes b))
| ba_node j x' : (j < length (db_nodes b))%nat -> nth_error (db_nodes b) j <> Some x' ->
    block_alt b (mkDataBlock (db_index b) (db_value b) (set_nth j x' (db_nodes b)))
| ba_index i' : i' <> db_index b -> db_nodes b <> [] -> block_alt b (mkDataBlock i' (db_value b) (db_nodes b)).

(* single-field alterations of an upgrade section: one node (any change of its index, size or hash), the start, the
   length, the signature bytes *)
Inductive upgrade_alt (u : data_upgrade) : data_upgrade -> Prop :=
| ua_node j x' : (j < length (du_nodes u))%nat -> nth_error (du_nodes u) j <> Some x' ->
    upgrade_alt u (mkDataUpgrade (du_start u) (du_length u) (set_nth j x' (du_nodes u)) (du_additional u) (du_signature u))
| ua_start s' : s' <> du_start u ->
    upgrade_alt u (mkDataUpgrade s' (du_length u) (du_nodes u) (du_additional u) (du_signature u))
| ua_length l' : l' <> du_length u ->
    upgrade_alt u (mkDataUpgrade (du_start u) l' (du_nodes u) (du_additional u) (du_signature u))
| ua_sig sg' : sg' <> du_signature u ->
    upgrade_alt u (mkDataUpgrade (du_start u) (du_length u) (du_nodes u) (du_additional u) sg').

Inductive altered (pf : proof) : proof -> Prop :=
| alt_fork f' : f' <> p_fork pf -> altered pf (mkProof f' (p_block pf) (p_hash pf) (p_seek pf) (p_upgrade pf))
| alt_block b b' : p_block pf = Some b -> block_alt b b' ->
    altered pf (mkProof (p_fork pf) (Some b') (p_hash pf) (p_seek pf) (p_upgrade pf))
| alt_upgrade u u' : p_upgrade pf = Some u -> upgrade_alt u u' ->
    altered pf (mkProof (p_fork pf) (p_block pf) (p_hash pf) (p_seek pf) (Some u')).

(* what the wire codec guarantees of the nodes of an upgrade section (Codec.nodes_ok: u64 fields, 32-byte hashes) *)
Definition wire_ok (pf : proof) : Prop :=
  match p_upgrade pf with Some u => nodes_ok (du_nodes u) = true | None => True end.

Lemma ref_sibs_length cr bs k : forall d o, length (ref_sibs cr bs k d o) = k.
Proof. induction k as [|k IH]; intros d o; cbn [ref_sibs length]; [reflexivity|]. now rewrite IH. Qed.

Section Main.
  Variable cr : crypto.
  Hypothesis Hhash32 : forall x, length (cr_hash cr x) = 32%nat.
  Hypothesis Hnonblank : forall x, all_zero (cr_hash cr x) = false.
  Variable bs : list bytes.
  Hypothesis Hw : writer_fits bs.

  (* refused at one of the three gates of core_apply_proof: core and world unchanged, result not Ok true *)
  Definition refused (pf : proof) (c : core) (w : world) : Prop :=
    refused_at_gate cr c w pf /\
    forall f, exists res, core_apply_proof cr f pf c w = (c, w, res) /\ res <> Ok true.

  Lemma refused_of_gate pf c w : refused_at_gate cr c w pf -> refused pf c w.
  Proof.
    intros G. split; [exact G|]. intros f.
    destruct (apply_refusal_noop cr f pf c w G) as (res & E & Hres). exists res. split; [exact E|].
    destruct Hres as [->|(_ & Hb & _)]; [discriminate|apply Hb].
  Qed.

  Lemma verifier_cases pf c w (P : Prop) :
    (forall cs, verifier_says cr c w pf = Ok cs -> P) -> refused pf c w \/ P.
  Proof.
    intros H. destruct (verifier_says cr c w pf) as [cs| | |] eqn:V.
    - right. apply (H cs eq_refl).
    - left. apply refused_of_gate. right. left. intros cs. rewrite V. discriminate.
    - left. apply refused_of_gate. right. left. intros cs. rewrite V. discriminate.
    - left. apply refused_of_gate. right. left. intros cs. rewrite V. discriminate.
  Qed.

  (* ---------- block sections ---------- *)

  (* a block-only proof with the honest index and node count is the honest one, or is not verified *)
  Lemma block_altered_not_verified t tf r fork i k b' pk cs :
    unfl_sound cr bs t r -> file_sound cr bs tf r ->
    db_index b' = i -> length (db_nodes b') = k -> b' <> hon_block cr bs i k ->
    verify_proof cr t tf (mkProof fork (Some b') None None None) pk = Ok cs -> some_collision cr.
  Proof.
    intros Hu Hf Ei Ek Hne V.
    destruct (accepted_block_section_is_writers cr Hhash32 Hnonblank bs (proj1 Hw) t tf r fork b' pk cs Hu Hf V)
      as [[Ev En]|C]; [exfalso|exact C].
    apply Hne. destruct b' as [i' v' ns']. cbn [db_index db_value db_nodes] in *. unfold hon_block.
    rewrite Ek in En. subst i'. rewrite Ev, En. reflexivity.
  Qed.

  (* the honest value and nodes under another index *)
  Lemma block_index_altered_not_verified t tf r fork i i' k pk cs :
    unfl_sound cr bs t r -> file_sound cr bs tf r -> i' <> i -> k <> 0%nat ->
    verify_proof cr t tf (mkProof fork (Some (mkDataBlock i' (blk bs i) (ref_sibs cr bs k 0 i))) None None None) pk = Ok cs ->
    some_collision cr.
  Proof.
    intros Hu Hf Hne Hk V.
    destruct (accepted_block_section_is_writers cr Hhash32 Hnonblank bs (proj1 Hw) t tf r fork _ pk cs Hu Hf V)
      as [[_ En]|C]; [exfalso|exact C].
    cbn [db_index db_nodes] in En. rewrite ref_sibs_length in En.
    destruct k as [|k]; [contradiction|]. cbn [ref_sibs] in En.
    apply (f_equal (fun l => match l with x :: _ => n_index x | [] => 0 end)) in En.
    rewrite !ref_node_index in En. apply ft_index_inj in En. destruct En as [_ En].
    apply Hne. rewrite <- (sib_invol i), <- (sib_invol i'), En. reflexivity.
  Qed.

  (* ---------- MAIN: every single-field alteration of an honest proof is refused ---------- *)

  Theorem altered_field_refused c d j ev pf pf' :
    let pk := kp_public (c_keypair c) in let r := t_length (c_tree c) in
    RInv cr bs c d -> honest cr bs pk r pf -> altered pf pf' -> wire_ok pf' ->
    refused pf' c (mkWorld d j ev) \/
    some_collision cr \/ forged_signature cr bs pk \/ sig_transplant cr pk \/ sig_malleable cr pk.
  Proof.
    intros pk r W Hh Ha Hwire.
    pose proof (RInv_replica_tree cr bs c d W) as HT. fold r in HT.
    pose proof HT as (Hr & HR & HL & HB & Hu & Hf).
    assert (Hfork : t_fork (c_tree c) = 0) by (destruct W as (_ & H2 & _); exact H2).
    destruct Ha as [f' Hf'|b b' Eb Hb|u u' Eu Hua].
    - (* fork *)
      left. apply refused_of_gate. left. cbn [p_fork]. rewrite Hfork.
      destruct Hh; cbn [p_fork] in Hf'; exact Hf'.
    - (* block section *)
      destruct Hh as [i k|m sg L Hrm Hmn HLn Hsg Hver]; cbn [p_block p_fork p_hash p_seek p_upgrade] in *; [|discriminate Eb].
      injection Eb as Eb. subst b.
      destruct (verifier_cases (mkProof 0 (Some b') None None None) c (mkWorld d j ev) (some_collision cr)) as [Rf|C];
        [|left; exact Rf|right; left; exact C].
      intros cs V. unfold verifier_says in V. cbn [w_disk] in V.
      destruct Hb as [v' Hv|jx x' Hj Hx|i' Hi Hn]; unfold hon_block in *; cbn [db_index db_value db_nodes] in *.
      + apply (block_altered_not_verified _ _ r 0 i k (mkDataBlock i v' (ref_sibs cr bs k 0 i)) pk cs Hu Hf eq_refl);
          [apply ref_sibs_length| |exact V].
        unfold hon_block. intros E. injection E as E. contradiction.
      + apply (block_altered_not_verified _ _ r 0 i k (mkDataBlock i (blk bs i) (set_nth jx x' (ref_sibs cr bs k 0 i)))
                 pk cs Hu Hf eq_refl); [| |exact V].
        * cbn [db_nodes]. rewrite set_nth_length by exact Hj. apply ref_sibs_length.
        * unfold hon_block. intros E. injection E as E. revert E. apply set_nth_neq; assumption.
      + apply (block_index_altered_not_verified _ _ r 0 i i' k pk cs Hu Hf Hi); [|exact V].
        intros ->. apply Hn. reflexivity.
    - (* upgrade section *)
      destruct Hh as [i k|m sg L Hrm Hmn HLn Hsg Hver]; cbn [p_block p_fork p_hash p_seek p_upgrade] in *; [discriminate Eu|].
      apply (f_equal (fun o => match o with Some y => y | None => u end)) in Eu. subst u.
      assert (HLlen : length L = length (upg_idx g64 0 r m)) by (rewrite HLn, map_length; reflexivity).
      destruct Hua as [jx x' Hj Hx|s' Hs|l' Hl|sg' Hs];
        cbn [du_start du_length du_nodes du_additional du_signature] in *.
      + (* one node *)
        destruct (verifier_cases (mkProof 0 None None None
                     (Some (mkDataUpgrade r (m - r) (set_nth jx x' L) [] sg))) c (mkWorld d j ev)
                    (some_collision cr \/ forged_signature cr bs pk)) as [Rf|[C|F]];
          [|left; exact Rf|right; left; exact C|right; right; left; exact F].
        intros cs V. unfold verifier_says in V. cbn [w_disk] in V.
        unfold wire_ok in Hwire. cbn [p_upgrade du_nodes] in Hwire.
        destruct (upgrade_nodes_core cr Hhash32 bs Hw _ _ r 0 r (m - r) _ sg pk cs m HT ltac:(lia) Hrm Hwire) with (2 := V)
          as [[(tail & Et) _]|[C|F]]; [| |left; exact C|right; exact F].
        * left. rewrite set_nth_length by exact Hj. exact HLlen.
        * exfalso. rewrite <- HLn in Et.
          assert (Hlen : length L = length (set_nth jx x' L)) by (rewrite set_nth_length by exact Hj; reflexivity).
          destruct (firstn_app_exact _ _ _ Et Hlen) as [_ E]. revert E. apply set_nth_neq; assumption.
      + (* start *)
        destruct (verifier_cases (mkProof 0 None None None
                     (Some (mkDataUpgrade s' (m - r) L [] sg))) c (mkWorld d j ev)
                    (sig_transplant cr pk)) as [Rf|T];
          [|left; exact Rf|right; right; right; left; exact T].
        intros cs V. unfold verifier_says in V. cbn [w_disk] in V.
        apply (upgrade_target_altered cr bs Hw _ _ r m s' (m - r) _ sg pk cs HT Hrm Hmn Hver ltac:(lia) V).
      + (* length *)
        destruct (verifier_cases (mkProof 0 None None None
                     (Some (mkDataUpgrade r l' L [] sg))) c (mkWorld d j ev)
                    (sig_transplant cr pk)) as [Rf|T];
          [|left; exact Rf|right; right; right; left; exact T].
        intros cs V. unfold verifier_says in V. cbn [w_disk] in V.
        apply (upgrade_target_altered cr bs Hw _ _ r m r l' _ sg pk cs HT Hrm Hmn Hver ltac:(lia) V).
      + (* signature *)
        destruct (verifier_cases (mkProof 0 None None None
                     (Some (mkDataUpgrade r (m - r) L [] sg'))) c (mkWorld d j ev)
                    (sig_malleable cr pk)) as [Rf|T];
          [|left; exact Rf|right; right; right; right; exact T].
        intros cs V. unfold verifier_says in V. cbn [w_disk] in V.
        apply (upgrade_sig_altered cr bs Hw _ _ r m L sg sg' pk cs HT Hrm Hmn Hver Hs HLn V).
  Qed.

  (* ---------- structural alterations: what an accepted proof must look like ---------- *)

  Lemma accepted_verified f pf c w c' w' :
    core_apply_proof cr f pf c w = (c', w', Ok true) ->
    exists cs, p_fork pf = t_fork (c_tree c) /\ verifier_says cr c w pf = Ok cs.
  Proof.
    intros H. destruct (accepted_gates cr f pf c w c' w' H) as (cs & E & V & _). exists cs. auto.
  Qed.

  (* block-only proofs (nodes dropped / duplicated / swapped / inserted, any number of fields changed): an accepted
     one IS an honest proof -- the one for its own index and node count *)
  Theorem accepted_block_proof_is_honest f c d j ev b c' w' :
    RInv cr bs c d ->
    core_apply_proof cr f (mkProof 0 (Some b) None None None) c (mkWorld d j ev) = (c', w', Ok true) ->
    b = hon_block cr bs (db_index b) (length (db_nodes b)) \/ some_collision cr.
  Proof.
    intros W H. destruct (accepted_verified _ _ _ _ _ _ H) as (cs & _ & V).
    unfold verifier_says in V. cbn [w_disk] in V.
    pose proof (RInv_replica_tree cr bs c d W) as (_ & _ & _ & _ & Hu & Hf).
    destruct (accepted_block_section_is_writers cr Hhash32 Hnonblank bs (proj1 Hw) _ _ _ 0 b _ cs Hu Hf V)
      as [[Ev En]|C]; [left|right; exact C].
    destruct b as [i v ns]. cbn [db_index db_value db_nodes] in *. unfold hon_block. rewrite Ev, <- En. reflexivity.
  Qed.

  (* upgrade-only proofs with a target above the replica's length, no additional nodes and no two nodes at sibling
     positions (whatever their start / length split, nodes, signature): an accepted one carries the reference nodes of
     the upgrade to its target, followed by nodes the verifier never looks at, and its signature verifies on the
     writer's message for that target *)
  Theorem accepted_upgrade_proof_shape f c d j ev s' l' nodes' sg' c' w' :
    let pk := kp_public (c_keypair c) in let r := t_length (c_tree c) in
    RInv cr bs c d -> r < s' + l' -> nodes_ok nodes' = true -> no_sibling_pair nodes' ->
    core_apply_proof cr f (mkProof 0 None None None (Some (mkDataUpgrade s' l' nodes' [] sg'))) c (mkWorld d j ev)
      = (c', w', Ok true) ->
    ((exists tail, nodes' = hon_nodes cr bs r (s' + l') ++ tail) /\ s' + l' <= N.of_nat (length bs)) \/
    some_collision cr \/ forged_signature cr bs pk.
  Proof.
    intros pk r W Hlt Hok Hns H. destruct (accepted_verified _ _ _ _ _ _ H) as (cs & _ & V).
    unfold verifier_says in V. cbn [w_disk] in V.
    pose proof (RInv_replica_tree cr bs c d W) as HT. fold r in HT.
    apply (upgrade_nodes_core cr Hhash32 bs Hw _ _ r 0 s' l' nodes' sg' pk cs (s' + l') HT eq_refl Hlt Hok (or_intror Hns) V).
  Qed.

  (* ---------- a whole proof from another writer ---------- *)

  (* a proof that is honest for ANOTHER writer (blocks bs2, key pk2) is refused by a replica of THIS writer, unless it
     is byte for byte an honest proof of this writer -- its signature verifying under this writer's key included --
     or a collision / a signature on a message this writer never signed is exhibited *)
  Theorem whole_proof_from_another_writer_refused bs2 pk2 c d j ev pf2 :
    let pk := kp_public (c_keypair c) in let r := t_length (c_tree c) in
    RInv cr bs c d -> honest cr bs2 pk2 r pf2 -> wire_ok pf2 ->
    refused pf2 c (mkWorld d j ev) \/ honest cr bs pk r pf2 \/ some_collision cr \/ forged_signature cr bs pk.
  Proof.
    intros pk r W Hh Hwire.
    pose proof (RInv_replica_tree cr bs c d W) as HT. fold r in HT.
    pose proof HT as (Hr & HR & HL & HB & Hu & Hf).
    destruct Hh as [i k|m sg L Hrm Hmn HLn Hsg Hver].
    - destruct (verifier_cases (mkProof 0 (Some (hon_block cr bs2 i k)) None None None) c (mkWorld d j ev)
                  (honest cr bs pk r (mkProof 0 (Some (hon_block cr bs2 i k)) None None None) \/ some_collision cr))
        as [Rf|[Hh|C]]; [|left; exact Rf|right; left; exact Hh|right; right; left; exact C].
      intros cs V. unfold verifier_says in V. cbn [w_disk] in V.
      destruct (accepted_block_section_is_writers cr Hhash32 Hnonblank bs (proj1 Hw) _ _ _ 0 _ _ cs Hu Hf V)
        as [[Ev En]|C]; [left|right; exact C].
      unfold hon_block in *. cbn [db_index db_value db_nodes] in Ev, En. rewrite ref_sibs_length in En.
      rewrite Ev, En. apply (honest_block cr bs pk r i k).
    - destruct (verifier_cases (mkProof 0 None None None (Some (mkDataUpgrade r (m - r) L [] sg))) c (mkWorld d j ev)
                  (honest cr bs pk r (mkProof 0 None None None (Some (mkDataUpgrade r (m - r) L [] sg))) \/
                   some_collision cr \/ forged_signature cr bs pk))
        as [Rf|[Hh|[C|F]]]; [|left; exact Rf|right; left; exact Hh|right; right; left; exact C|right; right; right; exact F].
      intros cs V. unfold verifier_says in V. cbn [w_disk] in V.
      unfold wire_ok in Hwire. cbn [p_upgrade du_nodes] in Hwire.
      assert (HLlen : length L = length (upg_idx g64 0 r m)) by (rewrite HLn, map_length; reflexivity).
      destruct (upgrade_nodes_core cr Hhash32 bs Hw _ _ r 0 r (m - r) L sg pk cs m HT ltac:(lia) Hrm Hwire (or_introl HLlen) V)
        as [[(tail & Et) Hm1]|[C|F]]; [left|right; left; exact C|right; right; exact F].
      assert (Hl2 : length (hon_nodes cr bs r m) = length L) by (rewrite map_length; symmetry; exact HLlen).
      destruct (firstn_app_exact _ _ _ Et Hl2) as [_ EL].
      destruct (reference_nodes_signature_checked cr bs Hw _ _ r m L sg pk cs HT Hrm (len_fits bs Hw m Hm1) EL V)
        as [Hv1 Hs1].
      apply (honest_upgrade cr bs pk r m sg L Hrm Hm1 EL Hs1 Hv1).
  Qed.
End Main.

(* ====================================================================================== *)
(* 6. Non-vacuity on the toy instance of SoundCore.v (sc_cr, six blocks)                      *)
(* ====================================================================================== *)

(* the writer's signature at length m, and the honest upgrade proof r -> m, from the definitions above *)
Definition sc_sig (m : N) : bytes := cr_sign sc_cr sc_key (Msg sc_cr sc_blocks m).
Definition sc_hon_up (r m : N) : proof :=
  mkProof 0 None None None (Some (mkDataUpgrade r (m - r) (hon_nodes sc_cr sc_blocks r m) [] (sc_sig m))).
Definition sc_hon_bl (i : N) (k : nat) : proof := mkProof 0 (Some (hon_block sc_cr sc_blocks i k)) None None None.

(* they are what the writer's core_create_proof serves: the upgrade 0 -> 6 for the fresh replica, block 4 with the one
   node the synced replica asks for *)
Example sc_honest_is_what_the_writer_serves :
  sc_upgrade_proof = Some (sc_hon_up 0 6) /\ sc_block_proof (fst sc_R1) 4 = Some (sc_hon_bl 4 1) /\
  map n_index (hon_nodes sc_cr sc_blocks 0 6) = [3; 9] /\ map n_index (hon_nodes sc_cr sc_blocks 3 6) = [6; 9].
Proof. vm_compute. repeat split. Qed.

Lemma sc_honest_up r m : r < m -> m <= 6 -> honest sc_cr sc_blocks sc_key r (sc_hon_up r m).
Proof.
  intros H1 H2. unfold sc_hon_up. apply honest_upgrade; [exact H1|exact H2|reflexivity| |].
  - assert (C : m = 1 \/ m = 2 \/ m = 3 \/ m = 4 \/ m = 5 \/ m = 6) by lia.
    destruct C as [->|[->|[->|[->|[->| ->]]]]]; vm_compute; reflexivity.
  - assert (C : m = 1 \/ m = 2 \/ m = 3 \/ m = 4 \/ m = 5 \/ m = 6) by lia.
    destruct C as [->|[->|[->|[->|[->| ->]]]]]; vm_compute; reflexivity.
Qed.

(* a replica of length 3: the fresh replica after the honest upgrade 0 -> 3 *)
Definition sc_R3 := fst (ex_run sc_R0 (core_apply_proof sc_cr (Some false) (sc_hon_up 0 3))).

Definition sc_try (s : option (core * world)) (pf : proof) : option (res bool) :=
  snd (ex_run s (core_apply_proof sc_cr (Some false) pf)).
(* the state after the attempt is the state before *)
Definition sc_same (s : option (core * world)) (pf : proof) : Prop :=
  fst (ex_run s (core_apply_proof sc_cr (Some false) pf)) = s.

(* honest proofs are accepted: 0 -> 3 and 0 -> 6 by the fresh replica, 3 -> 6 (also 3 -> 4, 3 -> 5: the writer at an
   earlier moment) by the replica of length 3, block 4 by the synced replica *)
Example sc_honest_accepted :
  sc_try sc_R0 (sc_hon_up 0 3) = Some (Ok true) /\ sc_try sc_R0 (sc_hon_up 0 6) = Some (Ok true) /\
  sc_try sc_R3 (sc_hon_up 3 6) = Some (Ok true) /\ sc_try sc_R3 (sc_hon_up 3 4) = Some (Ok true) /\
  sc_try sc_R3 (sc_hon_up 3 5) = Some (Ok true) /\ sc_try (fst sc_R1) (sc_hon_bl 4 1) = Some (Ok true).
Proof. vm_compute. repeat split. Qed.

(* ---------- the alteration classes, by computation ---------- *)

Definition up_with (pf : proof) (g : data_upgrade -> data_upgrade) : proof :=
  match p_upgrade pf with
  | Some u => mkProof (p_fork pf) (p_block pf) (p_hash pf) (p_seek pf) (Some (g u))
  | None => pf
  end.
Definition bl_with (pf : proof) (g : data_block -> data_block) : proof :=
  match p_block pf with
  | Some b => mkProof (p_fork pf) (Some (g b)) (p_hash pf) (p_seek pf) (p_upgrade pf)
  | None => pf
  end.
Definition flip (v : bytes) : bytes := match v with a :: t => (a + 1) mod 256 :: t | [] => [] end.
Definition nd_hash (x : node) : node := mkNode (n_index x) (n_length x) (flip (n_hash x)).
Definition nd_size (k : N) (x : node) : node := mkNode (n_index x) k (n_hash x).
Definition nd_index (i : N) (x : node) : node := mkNode i (n_length x) (n_hash x).
Definition at_nth (j : nat) (g : node -> node) (l : list node) : list node :=
  match nth_error l j with Some x => set_nth j (g x) l | None => l end.
Definition u_nodes (g : list node -> list node) (u : data_upgrade) : data_upgrade :=
  mkDataUpgrade (du_start u) (du_length u) (g (du_nodes u)) (du_additional u) (du_signature u).
Definition u_start (s : N) (u : data_upgrade) := mkDataUpgrade s (du_length u) (du_nodes u) (du_additional u) (du_signature u).
Definition u_length (l : N) (u : data_upgrade) := mkDataUpgrade (du_start u) l (du_nodes u) (du_additional u) (du_signature u).
Definition u_sig (sg : bytes) (u : data_upgrade) := mkDataUpgrade (du_start u) (du_length u) (du_nodes u) (du_additional u) sg.
Definition b_nodes (g : list node -> list node) (b : data_block) := mkDataBlock (db_index b) (db_value b) (g (db_nodes b)).

(* upgrade 3 -> 6 (nodes 6 and 9) on the replica of length 3: every single-field alteration is refused and leaves the
   replica as it was *)
Example sc_upgrade_alterations_refused :
  let H := sc_hon_up 3 6 in
  let refused_ pf e := sc_try sc_R3 pf = Some e /\ sc_same sc_R3 pf in
  refused_ (mkProof 1 None None None (p_upgrade H)) (Ok false) /\                                    (* fork + 1 *)
  refused_ (up_with H (u_nodes (at_nth 0 nd_hash))) (Err InvalidSignature) /\                        (* node hash *)
  refused_ (up_with H (u_nodes (at_nth 1 nd_hash))) (Err InvalidSignature) /\
  refused_ (up_with H (u_nodes (at_nth 0 (nd_size 3)))) (Err InvalidSignature) /\                    (* node size +/- 1 *)
  refused_ (up_with H (u_nodes (at_nth 1 (nd_size 4)))) (Err InvalidSignature) /\
  refused_ (up_with H (u_nodes (at_nth 0 (nd_index 7)))) (Err InvalidOperation) /\                   (* node index +/- 1 *)
  refused_ (up_with H (u_nodes (at_nth 1 (nd_index 8)))) (Err InvalidOperation) /\
  refused_ (up_with H (u_start 4)) (Err InvalidOperation) /\                                         (* start +/- 1 *)
  refused_ (up_with H (u_start 2)) (Err InvalidOperation) /\
  refused_ (up_with H (u_length 4)) (Err InvalidOperation) /\                                        (* length +/- 1 *)
  refused_ (up_with H (u_length 2)) (Err InvalidOperation) /\
  refused_ (up_with H (u_sig (flip (sc_sig 6)))) (Err InvalidSignature) /\                           (* signature bit *)
  refused_ (up_with H (u_sig (sc_sig 5))) (Err InvalidSignature) /\                                  (* signature for another length *)
  refused_ (up_with (sc_hon_up 3 5) (u_length 3)) (Err InvalidOperation) /\                          (* 3 -> 5 claimed as 3 -> 6 *)
  refused_ (up_with (sc_hon_up 3 4) (u_start 0)) (Err InvalidOperation).                             (* target 1 below the replica's 3 *)
Proof. vm_compute. repeat split. Qed.

(* structural alterations of the same proof: dropped, swapped, inserted nodes are refused; a duplicate of the LAST node
   is an ignored trailing node (accepted_upgrade_proof_shape) and the proof is accepted; so is the proof with its only
   section removed (it says nothing) *)
Example sc_upgrade_structural_alterations :
  let H := sc_hon_up 3 6 in
  sc_try sc_R3 (up_with H (u_nodes (firstn 1))) = Some (Err InvalidOperation) /\
  sc_try sc_R3 (up_with H (u_nodes (@rev node))) = Some (Err InvalidOperation) /\
  sc_try sc_R3 (up_with H (u_nodes (fun l => firstn 1 l ++ l))) = Some (Err InvalidOperation) /\
  sc_try sc_R3 (up_with H (u_nodes (fun l => l ++ skipn 1 l))) = Some (Ok true) /\
  sc_try sc_R3 (mkProof 0 None None None None) = Some (Ok true).
Proof. vm_compute. repeat split. Qed.

(* block 4 (value [9;10], one node: 10) on the synced replica *)
Example sc_block_alterations_refused :
  let H := sc_hon_bl 4 1 in
  let refused_ pf e := sc_try (fst sc_R1) pf = Some e /\ sc_same (fst sc_R1) pf in
  refused_ (mkProof 1 (p_block H) None None None) (Ok false) /\                                                (* fork *)
  refused_ (bl_with H (fun b => mkDataBlock (db_index b) [9; 11] (db_nodes b))) (Err InvalidChecksum) /\        (* value *)
  refused_ (bl_with H (fun b => mkDataBlock (db_index b) [] (db_nodes b))) (Err InvalidChecksum) /\
  refused_ (bl_with H (b_nodes (at_nth 0 nd_hash))) (Err InvalidChecksum) /\                                   (* node hash *)
  refused_ (bl_with H (b_nodes (at_nth 0 (nd_size 2)))) (Err InvalidChecksum) /\                               (* node size *)
  refused_ (bl_with H (b_nodes (at_nth 0 (nd_index 11)))) (Err InvalidOperation) /\                            (* node index *)
  refused_ (bl_with H (fun b => mkDataBlock 5 (db_value b) (db_nodes b))) (Err InvalidOperation).              (* block index *)
Proof. vm_compute. repeat split. Qed.

(* ---------- the hypotheses of the theorems are met by these states ---------- *)

(* the replica of length 3 satisfies the invariant (two roots, flat 1 and 4, among its unflushed nodes) *)
Example sc_R3_RInv :
  match sc_R3 with
  | Some (c, w) => RInv sc_cr sc_blocks c (w_disk w) /\ t_length (c_tree c) = 3 /\ kp_public (c_keypair c) = sc_key /\
                   map n_index (t_roots (c_tree c)) = [1; 4]
  | None => False
  end.
Proof.
  destruct sc_R3 as [[c w]|] eqn:E; [|vm_compute in E; discriminate E].
  vm_compute in E. injection E as <- <-.
  split; [|split; [|split]; vm_compute; reflexivity].
  unfold RInv. cbv zeta.
  split; [vm_compute; discriminate|]. split; [reflexivity|].
  split; [vm_compute; reflexivity|]. split; [vm_compute; reflexivity|].
  split.
  { intros j nd G. apply nm_elements_in in G. vm_compute in G.
    destruct G as [G|[G|[]]]; injection G as <- <-; (split; [vm_compute; reflexivity|vm_compute; intros Hx; discriminate Hx]). }
  split.
  { split; [reflexivity|]. intros j data H. cbn [d_tree w_disk] in H. unfold f_read in H. cbn [f_len] in H.
    destruct (N.leb_spec (NODE_SIZE * j + NODE_SIZE) 0); [unfold NODE_SIZE in *; lia|discriminate H]. }
  split.
  { intros x Hx. cbn [c_tree t_roots] in Hx.
    destruct Hx as [<-|[<-|[]]]; vm_compute; reflexivity. }
  intros i Hi. exfalso. unfold bf_get in Hi. cbn [c_bitfield bf_bits] in Hi.
  rewrite nm_mem_empty in Hi. discriminate Hi.
Qed.

(* altered_field_refused applies to the replica of length 3 and the honest upgrade 3 -> 6: its hypotheses on the state
   and on the honest proof hold; three of the alterations of sc_upgrade_alterations_refused are instances *)
Example sc_altered_field_refused_applies_upgrade :
  match sc_R3 with
  | Some (c, w) =>
      (forall pf', altered (sc_hon_up 3 6) pf' -> wire_ok pf' ->
         refused sc_cr pf' c w \/ some_collision sc_cr \/ forged_signature sc_cr sc_blocks sc_key \/
         sig_transplant sc_cr sc_key \/ sig_malleable sc_cr sc_key) /\
      (let pf' := up_with (sc_hon_up 3 6) (u_nodes (at_nth 0 nd_hash)) in
       altered (sc_hon_up 3 6) pf' /\ wire_ok pf') /\
      (let pf' := up_with (sc_hon_up 3 6) (u_length 4) in
       altered (sc_hon_up 3 6) pf' /\ wire_ok pf') /\
      (let pf' := up_with (sc_hon_up 3 6) (u_sig (sc_sig 5)) in
       altered (sc_hon_up 3 6) pf' /\ wire_ok pf')
  | None => False
  end.
Proof.
  pose proof sc_R3_RInv as HR.
  destruct sc_R3 as [[c w]|]; [|destruct HR]. destruct HR as (HR & HL & HK & _).
  split.
  { intros pf' Ha Hwire. destruct w as [d j ev]. cbn [w_disk] in HR.
    pose proof (altered_field_refused sc_cr sc_hash32 sc_nonblank sc_blocks sc_writer_fits c d j ev (sc_hon_up 3 6) pf') as T.
    cbv zeta in T. rewrite HL, HK in T. apply T; try assumption. apply sc_honest_up; lia. }
  split; [|split].
  - split; [|vm_compute; reflexivity].
    apply (alt_upgrade (sc_hon_up 3 6) _ _ eq_refl).
    apply (ua_node _ 0 (nd_hash (nth 0 (hon_nodes sc_cr sc_blocks 3 6) (mkNode 0 0 [])))).
    + vm_compute. lia.
    + vm_compute. intros E; discriminate E.
  - split; [|vm_compute; reflexivity].
    apply (alt_upgrade (sc_hon_up 3 6) _ _ eq_refl). apply (ua_length _ 4). vm_compute. intros E; discriminate E.
  - split; [|vm_compute; reflexivity].
    apply (alt_upgrade (sc_hon_up 3 6) _ _ eq_refl). apply (ua_sig _ (sc_sig 5)). vm_compute. intros E; discriminate E.
Qed.

(* ... and to the synced replica (sc_RInv_synced) and the honest proof for block 4 *)
Example sc_altered_field_refused_applies_block :
  match fst sc_R1 with
  | Some (c, w) =>
      (forall pf', altered (sc_hon_bl 4 1) pf' ->
         refused sc_cr pf' c w \/ some_collision sc_cr \/ forged_signature sc_cr sc_blocks sc_key \/
         sig_transplant sc_cr sc_key \/ sig_malleable sc_cr sc_key) /\
      altered (sc_hon_bl 4 1) (bl_with (sc_hon_bl 4 1) (fun b => mkDataBlock (db_index b) [9; 11] (db_nodes b))) /\
      altered (sc_hon_bl 4 1) (bl_with (sc_hon_bl 4 1) (b_nodes (at_nth 0 (nd_size 2)))) /\
      altered (sc_hon_bl 4 1) (bl_with (sc_hon_bl 4 1) (fun b => mkDataBlock 5 (db_value b) (db_nodes b)))
  | None => False
  end.
Proof.
  pose proof sc_RInv_synced as HR.
  destruct (fst sc_R1) as [[c w]|] eqn:E; [|destruct HR]. destruct HR as (HR & HL & _).
  assert (HK : kp_public (c_keypair c) = sc_key) by (vm_compute in E; injection E as <- _; reflexivity).
  split.
  { intros pf' Ha. destruct w as [d j ev]. cbn [w_disk] in HR.
    pose proof (altered_field_refused sc_cr sc_hash32 sc_nonblank sc_blocks sc_writer_fits c d j ev (sc_hon_bl 4 1) pf') as T.
    cbv zeta in T. rewrite HK in T. apply T; try assumption.
    - apply honest_block.
    - destruct Ha as [f' _|b b' _ _|u u' Eu _]; try exact I. discriminate Eu. }
  split; [|split].
  - apply (alt_block (sc_hon_bl 4 1) _ _ eq_refl). apply (ba_value _ [9; 11]). vm_compute. intros E0; discriminate E0.
  - apply (alt_block (sc_hon_bl 4 1) _ _ eq_refl).
    apply (ba_node _ 0 (nd_size 2 (nth 0 (ref_sibs sc_cr sc_blocks 1 0 4) (mkNode 0 0 [])))).
    + vm_compute. lia.
    + vm_compute. intros E0; discriminate E0.
  - apply (alt_block (sc_hon_bl 4 1) _ _ eq_refl). apply (ba_index _ 5); vm_compute; intros E0; discriminate E0.
Qed.

(* ---------- a whole proof from another writer ---------- *)

Definition sc_key2 : bytes := repeat 6 32.
Definition sc_blocks2 : list bytes := [[7]; [8; 8]; []; [1]; [2]; [3; 3; 3]].
Definition sc_hon_up2 (r m : N) : proof :=
  mkProof 0 None None None
    (Some (mkDataUpgrade r (m - r) (hon_nodes sc_cr sc_blocks2 r m) []
             (cr_sign sc_cr sc_key2 (Msg sc_cr sc_blocks2 m)))).
Definition sc_hon_bl2 (i : N) (k : nat) : proof := mkProof 0 (Some (hon_block sc_cr sc_blocks2 i k)) None None None.

(* the other writer's honest proofs -- and this writer's nodes under the other writer's signature -- are refused and
   leave the replica as it was *)
Example sc_other_writer_refused :
  (sc_try sc_R0 (sc_hon_up2 0 6) = Some (Err InvalidSignature) /\ sc_same sc_R0 (sc_hon_up2 0 6)) /\
  (sc_try sc_R3 (sc_hon_up2 3 6) = Some (Err InvalidSignature) /\ sc_same sc_R3 (sc_hon_up2 3 6)) /\
  (sc_try (fst sc_R1) (sc_hon_bl2 4 1) = Some (Err InvalidChecksum) /\ sc_same (fst sc_R1) (sc_hon_bl2 4 1)) /\
  (let pf := up_with (sc_hon_up 3 6) (u_sig (cr_sign sc_cr sc_key2 (Msg sc_cr sc_blocks 6))) in
   sc_try sc_R3 pf = Some (Err InvalidSignature) /\ sc_same sc_R3 pf).
Proof. vm_compute. repeat split. Qed.

Example sc_other_writer_theorem_applies :
  match sc_R3 with
  | Some (c, w) =>
      honest sc_cr sc_blocks2 sc_key2 3 (sc_hon_up2 3 6) /\ wire_ok (sc_hon_up2 3 6) /\
      ~ honest sc_cr sc_blocks sc_key 3 (sc_hon_up2 3 6) /\
      (refused sc_cr (sc_hon_up2 3 6) c w \/ some_collision sc_cr \/ forged_signature sc_cr sc_blocks sc_key)
  | None => False
  end.
Proof.
  pose proof sc_R3_RInv as HR.
  destruct sc_R3 as [[c w]|]; [|destruct HR]. destruct HR as (HR & HL & HK & _).
  assert (Hh2 : honest sc_cr sc_blocks2 sc_key2 3 (sc_hon_up2 3 6)).
  { unfold sc_hon_up2. apply honest_upgrade; [lia|vm_compute; discriminate|reflexivity|vm_compute; reflexivity|vm_compute; reflexivity]. }
  assert (Hw2 : wire_ok (sc_hon_up2 3 6)) by (vm_compute; reflexivity).
  assert (Hn1 : ~ honest sc_cr sc_blocks sc_key 3 (sc_hon_up2 3 6)).
  { intros Hh. apply honest_upgrade_inv in Hh. destruct Hh as (m & _ & _ & _ & El & En & _).
    cbn [du_length du_nodes] in El, En. assert (m = 6) by lia. subst m. vm_compute in En. discriminate En. }
  split; [exact Hh2|]. split; [exact Hw2|]. split; [exact Hn1|].
  destruct w as [d j ev]. cbn [w_disk] in HR.
  pose proof (whole_proof_from_another_writer_refused sc_cr sc_hash32 sc_nonblank sc_blocks sc_writer_fits
                sc_blocks2 sc_key2 c d j ev (sc_hon_up2 3 6)) as T.
  cbv zeta in T. rewrite HL, HK in T.
  destruct (T HR Hh2 Hw2) as [Rf|[Hh|[C|F]]]; [left; exact Rf|contradiction|right; left; exact C|right; right; exact F].
Qed.

(* ---------- the structural theorems apply ---------- *)

(* the upgrade 3 -> 6 with its last node duplicated: accepted, and accepted_upgrade_proof_shape says why it may be *)
Example sc_accepted_upgrade_proof_shape_applies :
  match sc_R3 with
  | Some (c, w) =>
      let nodes' := hon_nodes sc_cr sc_blocks 3 6 ++ skipn 1 (hon_nodes sc_cr sc_blocks 3 6) in
      let pf' := mkProof 0 None None None (Some (mkDataUpgrade 3 3 nodes' [] (sc_sig 6))) in
      exists c' w', core_apply_proof sc_cr (Some false) pf' c w = (c', w', Ok true) /\
        map n_index nodes' = [6; 9; 9] /\ nodes_ok nodes' = true /\ no_sibling_pair nodes' /\
        (((exists tail, nodes' = hon_nodes sc_cr sc_blocks 3 (3 + 3) ++ tail) /\ 3 + 3 <= N.of_nat (length sc_blocks)) \/
         some_collision sc_cr \/ forged_signature sc_cr sc_blocks sc_key)
  | None => False
  end.
Proof.
  pose proof sc_R3_RInv as HR.
  destruct sc_R3 as [[c w]|] eqn:E; [|destruct HR]. destruct HR as (HR & HL & HK & _).
  cbv zeta.
  set (nodes' := hon_nodes sc_cr sc_blocks 3 6 ++ skipn 1 (hon_nodes sc_cr sc_blocks 3 6)).
  set (pf' := mkProof 0 None None None (Some (mkDataUpgrade 3 3 nodes' [] (sc_sig 6)))).
  destruct (core_apply_proof sc_cr (Some false) pf' c w) as [[c' w'] res] eqn:Ea.
  assert (Hres : res = Ok true).
  { vm_compute in E. injection E as <- <-. vm_compute in Ea. injection Ea as _ _ <-. reflexivity. }
  subst res. exists c', w'. split; [reflexivity|]. split; [vm_compute; reflexivity|].
  assert (Hok : nodes_ok nodes' = true) by (vm_compute; reflexivity).
  assert (Hns : no_sibling_pair nodes').
  { intros x y Hx Hy. apply (in_map n_index) in Hx, Hy.
    assert (Ei : map n_index nodes' = [6; 9; 9]) by (vm_compute; reflexivity).
    rewrite Ei in Hx, Hy.
    destruct Hx as [<-|[<-|[<-|[]]]]; destruct Hy as [<-|[<-|[<-|[]]]]; vm_compute; intros E0; discriminate E0. }
  split; [exact Hok|]. split; [exact Hns|].
  destruct w as [d j ev]. cbn [w_disk] in HR.
  pose proof (accepted_upgrade_proof_shape sc_cr sc_hash32 sc_blocks sc_writer_fits (Some false) c d j ev
                3 3 nodes' (sc_sig 6) c' w') as T.
  cbv zeta in T. rewrite HL, HK in T. apply T; try assumption. lia.
Qed.

Example sc_accepted_block_proof_is_honest_applies :
  match fst sc_R1 with
  | Some (c, w) =>
      exists c' w', core_apply_proof sc_cr (Some false) (sc_hon_bl 4 1) c w = (c', w', Ok true) /\
        (hon_block sc_cr sc_blocks 4 1 = hon_block sc_cr sc_blocks 4 1 \/ some_collision sc_cr)
  | None => False
  end.
Proof.
  pose proof sc_RInv_synced as HR.
  destruct (fst sc_R1) as [[c w]|] eqn:E; [|destruct HR]. destruct HR as (HR & _).
  destruct (core_apply_proof sc_cr (Some false) (sc_hon_bl 4 1) c w) as [[c' w'] res] eqn:Ea.
  assert (Hres : res = Ok true).
  { vm_compute in E. injection E as <- <-. vm_compute in Ea. injection Ea as _ _ <-. reflexivity. }
  subst res. exists c', w'. split; [reflexivity|].
  destruct w as [d j ev]. cbn [w_disk] in HR.
  apply (accepted_block_proof_is_honest sc_cr sc_hash32 sc_nonblank sc_blocks sc_writer_fits (Some false) c d j ev
           (hon_block sc_cr sc_blocks 4 1) c' w' HR Ea).
Qed.

(* ====================================================================================== *)
(* 7. Proofs with a block section AND an upgrade section                                      *)
(* ====================================================================================== *)

Lemma sibs_of_in (y : node) : forall l, In y (sibs_of l) -> In y l.
Proof.
  fix IH 1. intros [|a [|b rest]] H; cbn [sibs_of] in H; try destruct H.
  - subst. left. reflexivity.
  - right. right. apply IH. exact H.
Qed.

Section BlockAndUpgrade.
  Variable cr : crypto.
  Hypothesis Hhash32 : forall x, length (cr_hash cr x) = 32%nat.
  Hypothesis Hnonblank : forall x, all_zero (cr_hash cr x) = false.
  Variable bs : list bytes.
  Hypothesis Hw : writer_fits bs.

  (* the indices a plain climb asks for are those of the reference siblings *)
  Lemma climb_plain_indices : forall fuel ns d o cur acc root visited,
    climb cr fuel (mkQ ns None) (it_at (N.of_nat d) o) cur acc = Ok (root, visited) ->
    map n_index ns = map n_index (ref_sibs cr bs (length ns) d o).
  Proof.
    clear Hhash32 Hnonblank Hw.
    induction fuel as [|f IH]; intros ns d o cur acc root visited H; [discriminate H|].
    destruct ns as [|y ns]; [reflexivity|].
    assert (E : (q_length (mkQ (y :: ns) None) =? 0) = false).
    { rewrite q_length_plain. cbn [length]. lia. }
    destruct (climb_step cr bs f _ d o cur acc root visited H E) as (x & q' & l & Hx & _ & Hadd & H').
    rewrite climb_S, E in H. cbv zeta in H. unfold q_shift in H. cbn [q_extra q_nodes] in H.
    destruct (n_index y =? it_index (it_sibling (it_at (N.of_nat d) o))) eqn:Ey; [|discriminate H].
    cbn [bind] in H. apply N.eqb_eq in Ey. rewrite it_sibling_at_sib in Ey. cbn [it_at it_index] in Ey.
    apply bind_ok in H. destruct H as (l0 & _ & H).
    rewrite it_parent_sibling_at in H. replace (N.of_nat d + 1) with (N.of_nat (S d)) in H by lia.
    cbn [length ref_sibs map]. rewrite ref_node_index, Ey. f_equal.
    apply (IH _ _ _ _ _ _ _ H).
  Qed.

  Lemma ref_list_eq (ns : list node) : forall l,
    map n_index ns = map n_index l -> Forall (is_ref cr bs) ns -> Forall (is_ref cr bs) l -> ns = l.
  Proof.
    clear Hhash32 Hnonblank Hw.
    induction ns as [|x ns IH]; intros [|y l] E Hn Hl; cbn [map] in E; try discriminate E; [reflexivity|].
    injection E as Ex E. inversion Hn as [|? ? Rx Hn']; subst. inversion Hl as [|? ? Ry Hl']; subst.
    f_equal; [|apply IH; assumption]. unfold is_ref in Rx, Ry. rewrite Rx, Ry, Ex. reflexivity.
  Qed.

  Lemma ref_sibs_is_ref k : forall d o, Forall (is_ref cr bs) (ref_sibs cr bs k d o).
  Proof.
    clear Hhash32 Hnonblank Hw.
    induction k as [|k IH]; intros d o; cbn [ref_sibs]; constructor; [apply ref_node_is_ref|apply IH].
  Qed.

  Lemma verify_proof_bu_inv t tf fork b u pk cs :
    verify_proof cr t tf (mkProof fork (Some b) None None (Some u)) pk = Ok cs ->
    exists r0 visited consumed,
      climb cr (S (S (length (db_nodes b)))) (mkQ (db_nodes b) None) (it_new (2 * db_index b))
            (block_node cr (2 * db_index b) (db_value b)) [block_node cr (2 * db_index b) (db_value b)]
        = Ok (r0, visited) /\
      verify_upgrade cr fork u (Some r0) pk (cs_push_nodes (tree_changeset t) visited) = Ok (consumed, cs).
  Proof.
    clear Hhash32 Hnonblank Hw.
    intros H. unfold verify_proof in H. cbn [p_block p_hash p_seek p_upgrade p_fork] in H.
    apply bind_ok in H. destruct H as ([root c1] & Hvt & H).
    apply verify_tree_block_inv in Hvt. destruct Hvt as (r0 & visited & -> & _ & Hc & ->).
    apply bind_ok in H. destruct H as ([root2 cx] & Hvu & H).
    apply bind_ok in Hvu. destruct Hvu as ([consumed c4] & Hvu & E). injection E as <- <-.
    exists r0, visited, consumed. split; [exact Hc|].
    destruct consumed.
    - injection H as <-. exact Hvu.
    - apply bind_ok in H. destruct H as (nn & _ & H).
      destruct (bytes_eqb (n_hash nn) (n_hash r0)); [|discriminate H]. injection H as <-. exact Hvu.
  Qed.

  (* the proofs covered here: what verify_block_upgrade_inv (SoundCoreBU.v) asks of the shape *)
  Definition bu_shape_ok (b : data_block) (u : data_upgrade) : Prop :=
    du_additional u = [] /\ nodes_ok (du_nodes u) = true /\ no_sibling_pair (du_nodes u) /\ block_root_fits b.

  (* every node of an accepted block + upgrade proof is the writer's reference node at its index, the value is the
     writer's block, the target is a length the writer went through *)
  Lemma accepted_bu_all_reference t tf r fork b u pk cs :
    replica_tree cr bs t tf r -> bu_shape_ok b u ->
    verify_proof cr t tf (mkProof fork (Some b) None None (Some u)) pk = Ok cs ->
    (Forall (is_ref cr bs) (cs_nodes cs) /\ db_value b = blk bs (db_index b) /\
     cs_length cs <= N.of_nat (length bs) /\ cs_roots cs = ref_roots cr bs (cs_length cs)) \/
    some_collision cr \/ forged_signature cr bs pk.
  Proof.
    intros (Hr & HR & HL & HB & Hu & Hf) (Hadd & Hok & Hns & Hfits) V.
    destruct (verify_block_upgrade_inv cr Hhash32 Hnonblank bs Hw t tf r fork b u pk cs Hu Hf HR HL HB Hr Hadd Hok Hns Hfits V)
      as [(m & new & k & Hvb)|[C|F]]; [left|right; left; exact C|right; right; exact F].
    cbv zeta in Hvb.
    destruct Hvb as (_ & Hmn & Ev & _ & Hspan & Er & El & _ & _ & Enodes & Hauth & _).
    split; [|split; [exact Ev|split; [rewrite El; exact Hmn|rewrite El; exact Er]]].
    rewrite Enodes. apply Forall_app. split.
    - constructor; [apply ref_node_is_ref|].
      pose proof (ref_path_authentic cr bs (proj1 Hw) m k 0 (db_index b)) as A. cbn [Nat.add] in A.
      specialize (A Hspan). eapply Forall_impl; [|exact A]. intros x [Hx _]. exact Hx.
    - apply Forall_rev. eapply Forall_impl; [|exact Hauth]. intros x [Hx _]. exact Hx.
  Qed.

  (* the block section of an accepted block + upgrade proof is the honest one for its index and node count *)
  Theorem accepted_bu_block_is_writers t tf r fork b u pk cs :
    replica_tree cr bs t tf r -> bu_shape_ok b u ->
    verify_proof cr t tf (mkProof fork (Some b) None None (Some u)) pk = Ok cs ->
    b = hon_block cr bs (db_index b) (length (db_nodes b)) \/ some_collision cr \/ forged_signature cr bs pk.
  Proof.
    intros HT Hshape V.
    destruct (accepted_bu_all_reference t tf r fork b u pk cs HT Hshape V) as [(Hall & Ev & _)|[C|F]];
      [left|right; left; exact C|right; right; exact F].
    destruct (verify_proof_bu_inv _ _ _ _ _ _ _ V) as (r0 & visited & consumed & Hc & Hvu).
    destruct (climb_plain_sibs cr bs (proj1 Hw) _ _ _ _ _ _ _ Hc) as (ext & Evis & Hs).
    rewrite it_new_leaf2 in Hc. pose proof (climb_plain_indices _ _ _ _ _ _ _ _ Hc) as Hidx.
    assert (Hin : forall y, In y (db_nodes b) -> In y (cs_nodes cs)).
    { intros y Hy. apply cs_rnodes_nodes.
      destruct (verify_upgrade_cover cr _ _ _ _ _ _ _ Hvu) as [Hmono _]. apply Hmono.
      cbn [cs_push_nodes cs_rnodes tree_changeset]. rewrite rev_append_rev, app_nil_r. apply -> in_rev.
      rewrite Evis. apply in_or_app. right. apply sibs_of_in. rewrite Hs. exact Hy. }
    assert (Href : Forall (is_ref cr bs) (db_nodes b)).
    { apply Forall_forall. intros y Hy. rewrite Forall_forall in Hall. apply Hall, Hin, Hy. }
    destruct b as [i v ns]. cbn [db_index db_value db_nodes] in *. unfold hon_block. rewrite Ev. f_equal.
    apply (ref_list_eq ns _ Hidx Href). apply ref_sibs_is_ref.
  Qed.

  (* ---------- honest block + upgrade proofs, by the verifier's walk ---------- *)

  (* the verifier's walk over a block + upgrade proof: the climb of the block section, then the upgrade loop on the
     nodes L with the root of the climb as the extra node of the queue *)
  Definition bu_walk (t : mtree) (b : data_block) (target : N) (L : list node) (c2 : changeset) (q2 : nodeq) : Prop :=
    exists r0 visited it2,
      climb cr (S (S (length (db_nodes b)))) (mkQ (db_nodes b) None) (it_new (2 * db_index b))
            (block_node cr (2 * db_index b) (db_value b)) [block_node cr (2 * db_index b) (db_value b)]
        = Ok (r0, visited) /\
      upgrade_roots_loop cr CLIMB (cs_push_nodes (tree_changeset t) visited) (mkQ L (Some r0)) (it_new 0) (2 * target) 0
        (grow_of (cs_push_nodes (tree_changeset t) visited)) = Ok (c2, q2, it2).

  Lemma bu_walk_det t b target L c2 q2 c2' q2' :
    bu_walk t b target L c2 q2 -> bu_walk t b target L c2' q2' -> c2' = c2 /\ q2' = q2.
  Proof.
    clear Hhash32 Hnonblank Hw.
    intros (r0 & vis & it2 & Hc & Hl) (r0' & vis' & it2' & Hc' & Hl').
    rewrite Hc in Hc'. injection Hc' as <- <-. rewrite Hl in Hl'. injection Hl' as <- <- _. auto.
  Qed.

  (* the same as a function, and "the walk leaves no node of L unused" *)
  Definition bu_run (t : mtree) (b : data_block) (target : N) (L : list node) : res (changeset * nodeq * fiter) :=
    '(r0, visited) <- climb cr (S (S (length (db_nodes b)))) (mkQ (db_nodes b) None) (it_new (2 * db_index b))
                        (block_node cr (2 * db_index b) (db_value b)) [block_node cr (2 * db_index b) (db_value b)] ;;
    upgrade_roots_loop cr CLIMB (cs_push_nodes (tree_changeset t) visited) (mkQ L (Some r0)) (it_new 0) (2 * target) 0
      (grow_of (cs_push_nodes (tree_changeset t) visited)).

  Definition uses_all_nodes (t : mtree) (b : data_block) (target : N) (L : list node) : Prop :=
    match bu_run t b target L with Ok (_, q2, _) => q_nodes q2 = [] | _ => False end.

  Lemma uses_all_walk t b target L :
    uses_all_nodes t b target L -> exists c2 q2, bu_walk t b target L c2 q2 /\ q_nodes q2 = [].
  Proof.
    clear Hhash32 Hnonblank Hw.
    unfold uses_all_nodes. destruct (bu_run t b target L) as [[[c2 q2] it2]| | |] eqn:E; try contradiction.
    intros Hq. exists c2, q2. split; [|exact Hq]. unfold bu_run in E.
    apply bind_ok in E. destruct E as ([r0 visited] & Hc & Hl). exists r0, visited, it2. auto.
  Qed.

  (* an accepted block + upgrade proof (no additional nodes) has a walk, and its signature was checked on the roots
     and length the walk ended with *)
  Lemma bu_accept_walk t tf fork b s l L sg pk cs :
    verify_proof cr t tf (mkProof fork (Some b) None None (Some (mkDataUpgrade s l L [] sg))) pk = Ok cs ->
    exists c2 q2, bu_walk t b (s + l) L c2 q2 /\
      cr_verify cr pk (signable (tree_hash cr (cs_roots c2)) (cs_length c2) fork) sg = true /\
      cs_rnodes cs = cs_rnodes c2 /\ cs_roots cs = cs_roots c2 /\ cs_length cs = cs_length c2.
  Proof.
    clear Hhash32 Hnonblank Hw.
    intros V. destruct (verify_proof_bu_inv _ _ _ _ _ _ _ V) as (r0 & visited & consumed & Hc & Hvu).
    destruct (verify_upgrade_inv1 cr _ _ _ _ _ _ _ _ _ _ Hvu) as (c2 & q2 & it2 & _ & Hloop & _ & Hver & Rn & R4 & L4 & _).
    exists c2, q2. split; [exists r0, visited, it2; split; assumption|]. auto.
  Qed.

  (* an honest block + upgrade proof for the replica (t, tf) of length r: fork 0, the writer's block with its reference
     sibling path, start = r, no additional nodes, every upgrade node the writer's reference node at its index, no two
     of them at sibling positions (true of every list the writer creates: upg_no_sibling), the top of the block's climb
     a u64 -- and the verifier accepts it with a walk that uses every node of the upgrade section *)
  Inductive honest_bu (t : mtree) (tf : file) (pk : bytes) (r : N) : proof -> Prop :=
  | honest_bu_intro i k l sg L csA :
      0 < l -> Forall (is_ref cr bs) L -> no_sibling_pair L -> block_root_fits (hon_block cr bs i k) ->
      verify_proof cr t tf (mkProof 0 (Some (hon_block cr bs i k)) None None (Some (mkDataUpgrade r l L [] sg))) pk = Ok csA ->
      uses_all_nodes t (hon_block cr bs i k) (r + l) L ->
      honest_bu t tf pk r (mkProof 0 (Some (hon_block cr bs i k)) None None (Some (mkDataUpgrade r l L [] sg))).

  Lemma honest_bu_inv t tf pk r b u :
    honest_bu t tf pk r (mkProof 0 (Some b) None None (Some u)) ->
    exists csA, no_sibling_pair (du_nodes u) /\ block_root_fits b /\
      verify_proof cr t tf (mkProof 0 (Some b) None None (Some u)) pk = Ok csA.
  Proof.
    clear Hhash32 Hnonblank Hw.
    intros H. remember (mkProof 0 (Some b) None None (Some u)) as pf eqn:E.
    destruct H as [i k l sg L csA A0 A1 A2 A3 A4 A5]. injection E as Eb Eu. subst b u.
    exists csA. cbn [du_nodes]. auto.
  Qed.

  Lemma no_sibling_indices l l' : map n_index l = map n_index l' -> no_sibling_pair l -> no_sibling_pair l'.
  Proof.
    clear Hhash32 Hnonblank Hw.
    intros E H x y Hx Hy Hs.
    assert (Hin : forall z, In z l' -> exists z0, In z0 l /\ n_index z0 = n_index z).
    { intros z Hz. apply (in_map n_index) in Hz. rewrite <- E in Hz. apply in_map_iff in Hz.
      destruct Hz as (z0 & Ez & Hz0). exists z0. auto. }
    destruct (Hin x Hx) as (x0 & Hx0 & Ex). destruct (Hin y Hy) as (y0 & Hy0 & Ey).
    apply (H x0 y0 Hx0 Hy0). rewrite Ex, Ey. exact Hs.
  Qed.

  Lemma took_all_extra l e e1 q' q1' c' c1' :
    took (mkQ l e) (mkQ [] e1) q' q1' c' c1' ->
    exists p', q_nodes q' = p' ++ q_nodes q1' /\ map n_index l = map n_index p' /\
               (forall x, In x p' -> In x (cs_rnodes c1')).
  Proof.
    clear Hhash32 Hnonblank Hw.
    intros (p & p' & A1 & A2 & A3 & A4 & A5). cbn [q_nodes] in A1. rewrite app_nil_r in A1. subst p.
    exists p'. auto.
  Qed.

  Lemma ref_sibs_inj k i i' : k <> 0%nat -> ref_sibs cr bs k 0 i = ref_sibs cr bs k 0 i' -> i = i'.
  Proof.
    clear Hhash32 Hnonblank Hw.
    intros Hk En. destruct k as [|k]; [contradiction|]. cbn [ref_sibs] in En.
    apply (f_equal (fun l => match l with x :: _ => n_index x | [] => 0 end)) in En.
    rewrite !ref_node_index in En. apply ft_index_inj in En. destruct En as [_ En].
    rewrite <- (sib_invol i), <- (sib_invol i'), En. reflexivity.
  Qed.

  Definition block_fits (pf : proof) : Prop :=
    match p_block pf with Some b => block_root_fits b | None => True end.

  (* a block + upgrade proof signed with sg whose target start + length is not the target m of an accepted proof
     signed with the same sg (whatever its block section and its nodes) *)
  Lemma bu_target_altered t tf r pk bA sA lA LA sg csA b' s' l' L' cs :
    replica_tree cr bs t tf r -> r < sA + lA -> s' + l' <> sA + lA ->
    verify_proof cr t tf (mkProof 0 (Some bA) None None (Some (mkDataUpgrade sA lA LA [] sg))) pk = Ok csA ->
    verify_proof cr t tf (mkProof 0 (Some b') None None (Some (mkDataUpgrade s' l' L' [] sg))) pk = Ok cs ->
    sig_transplant cr pk.
  Proof.
    clear Hhash32 Hnonblank.
    intros (Hr & HR & HL & HB & Hu & Hf) Hlt Hne VA V.
    destruct (verify_proof_bu_inv _ _ _ _ _ _ _ VA) as (r0a & visa & consa & _ & Hvua).
    destruct (verify_proof_bu_inv _ _ _ _ _ _ _ V) as (r0b & visb & consb & _ & Hvub).
    assert (Vv : forall vis, vinv cr bs (cs_push_nodes (tree_changeset t) vis) r).
    { intros vis. pose proof (vinv_tree_changeset cr bs t r HR HL HB) as (V1 & V2 & V3). split; [|split]; assumption. }
    destruct (upgrade_target_length cr bs Hw _ r _ _ _ _ _ _ _ _ _ (Vv visa) (len_fits bs Hw r Hr) Hvua) as (_ & H64a & Hvera).
    destruct (upgrade_target_length cr bs Hw _ r _ _ _ _ _ _ _ _ _ (Vv visb) (len_fits bs Hw r Hr) Hvub) as (_ & H64b & Hverb).
    exists (signable (tree_hash cr (cs_roots cs)) (N.max r (s' + l')) 0),
           (signable (tree_hash cr (cs_roots csA)) (N.max r (sA + lA)) 0), sg.
    split; [|split; assumption].
    pose proof (len_fits bs Hw r Hr) as Hr64.
    intros E. apply signable_inj_gen in E.
    - destruct E as (_ & E & _). lia.
    - change (2 ^ 64) with 18446744073709551616 in *. unfold u64_max in *. lia.
    - change (2 ^ 64) with 18446744073709551616. lia.
    - change (2 ^ 64) with 18446744073709551616 in *. unfold u64_max in *. lia.
    - change (2 ^ 64) with 18446744073709551616. lia.
  Qed.

  (* the verifier on a single-field alteration of an honest block + upgrade proof *)
  Lemma bu_altered_not_verified t tf r pk pf pf' cs :
    replica_tree cr bs t tf r -> honest_bu t tf pk r pf -> altered pf pf' -> p_fork pf' = 0 ->
    wire_ok pf' -> block_fits pf' ->
    verify_proof cr t tf pf' pk = Ok cs ->
    some_collision cr \/ forged_signature cr bs pk \/ sig_transplant cr pk \/ sig_malleable cr pk.
  Proof.
    intros HT Hh Ha Hf0 Hwire Hbf V.
    destruct Hh as [i k l sg L csA Hl0 HLref HLns Hfits VA Huses].
    destruct (uses_all_walk _ _ _ _ Huses) as (c2 & q2 & Hwalk & Hq2).
    destruct Ha as [f' Hf'|b b' Eb Hb|u u' Eu Hua]; cbn [p_fork p_block p_hash p_seek p_upgrade] in *.
    - subst f'. contradiction.
    - (* block section *)
      injection Eb as Eb. subst b.
      unfold wire_ok in Hwire. cbn [p_upgrade du_nodes] in Hwire. unfold block_fits in Hbf. cbn [p_block] in Hbf.
      assert (Hshape : bu_shape_ok b' (mkDataUpgrade r l L [] sg)) by (repeat split; assumption).
      destruct (accepted_bu_block_is_writers t tf r 0 b' _ pk cs HT Hshape V) as [Eb'|[C|F]];
        [exfalso|left; exact C|right; left; exact F].
      destruct Hb as [v' Hv|jx x' Hj Hx|i' Hi Hn]; unfold hon_block in *; cbn [db_index db_value db_nodes] in *.
      + rewrite ref_sibs_length in Eb'. injection Eb' as Eb'. contradiction.
      + rewrite set_nth_length in Eb' by exact Hj. rewrite ref_sibs_length in Eb'. injection Eb' as Eb'.
        revert Eb'. apply set_nth_neq; assumption.
      + rewrite ref_sibs_length in Eb'. injection Eb' as _ Eb'.
        apply Hi. symmetry. apply (ref_sibs_inj k i i'); [|exact Eb'].
        intros ->. apply Hn. reflexivity.
    - (* upgrade section *)
      apply (f_equal (fun o => match o with Some y => y | None => u end)) in Eu. subst u.
      destruct Hua as [jx x' Hj Hx|s' Hs|l' Hl|sg' Hs];
        cbn [du_start du_length du_nodes du_additional du_signature] in *.
      + (* one node *)
        destruct (bu_accept_walk _ _ _ _ _ _ _ _ _ _ V) as (c2' & q2' & Hwalk' & _ & Rn' & _).
        destruct Hwalk as (r0 & vis & it2 & Hc & Hloop). destruct Hwalk' as (r0' & vis' & it2' & Hc' & Hloop').
        rewrite Hc in Hc'. injection Hc' as <- <-.
        destruct (url_sim cr _ _ _ _ _ _ _ _ _ _ _ _ _ _ _ Hloop Hloop' (SK_refl _) eq_refl) as (_ & _ & T).
        destruct q2 as [qn2 qe2]. cbn [q_nodes] in Hq2. subst qn2.
        apply took_all_extra in T. destruct T as (pB & EB & Ei & Hin). cbn [q_nodes] in EB.
        assert (Hpl : length pB = length (set_nth jx x' L)).
        { rewrite set_nth_length by exact Hj. apply (f_equal (@length N)) in Ei. rewrite !map_length in Ei. lia. }
        destruct (firstn_app_exact _ _ _ EB Hpl) as [_ EpB]. subst pB.
        unfold wire_ok in Hwire. cbn [p_upgrade du_nodes] in Hwire. unfold block_fits in Hbf. cbn [p_block] in Hbf.
        assert (Hshape : bu_shape_ok (hon_block cr bs i k) (mkDataUpgrade r l (set_nth jx x' L) [] sg)).
        { split; [reflexivity|]. split; [exact Hwire|]. split; [|exact Hbf]. apply (no_sibling_indices L _ Ei HLns). }
        destruct (accepted_bu_all_reference t tf r 0 _ _ pk cs HT Hshape V) as [(Hall & _)|[C|F]];
          [exfalso|left; exact C|right; left; exact F].
        assert (Rx' : is_ref cr bs x').
        { rewrite Forall_forall in Hall. apply Hall. apply cs_rnodes_nodes. rewrite Rn'. apply Hin.
          apply nth_error_In with (n := jx). apply set_nth_nth, Hj. }
        destruct (nth_error L jx) as [x|] eqn:Ex; [|apply nth_error_None in Ex; lia].
        assert (Rx : is_ref cr bs x) by (rewrite Forall_forall in HLref; apply HLref; apply (nth_error_In _ _ Ex)).
        assert (Eix : n_index x = n_index x').
        { apply (f_equal (fun m => nth_error m jx)) in Ei.
          rewrite (map_nth_error n_index _ _ Ex), (map_nth_error n_index _ _ (set_nth_nth jx x' L Hj)) in Ei.
          injection Ei as Ei. exact Ei. }
        apply Hx. f_equal. unfold is_ref in Rx, Rx'. rewrite Rx, Rx', Eix. reflexivity.
      + (* start *)
        right. right. left.
        apply (bu_target_altered t tf r pk _ r l L sg csA _ s' l L cs HT ltac:(lia) ltac:(lia) VA V).
      + (* length *)
        right. right. left.
        apply (bu_target_altered t tf r pk _ r l L sg csA _ r l' L cs HT ltac:(lia) ltac:(lia) VA V).
      + (* signature *)
        right. right. right.
        destruct (bu_accept_walk _ _ _ _ _ _ _ _ _ _ V) as (c2' & q2' & Hwalk' & Hver' & _).
        destruct (bu_accept_walk _ _ _ _ _ _ _ _ _ _ VA) as (c2a & q2a & Hwalka & Hvera & _).
        destruct (bu_walk_det _ _ _ _ _ _ _ _ Hwalka Hwalk') as [-> _].
        exists (signable (tree_hash cr (cs_roots c2a)) (cs_length c2a) 0), sg, sg'.
        split; [congruence|]. split; assumption.
  Qed.
  (* ---------- at the Core level ---------- *)

  Theorem bu_altered_field_refused c d j ev pf pf' :
    let pk := kp_public (c_keypair c) in let r := t_length (c_tree c) in
    RInv cr bs c d -> honest_bu (c_tree c) (d_tree d) pk r pf -> altered pf pf' ->
    wire_ok pf' -> block_fits pf' ->
    refused cr pf' c (mkWorld d j ev) \/
    some_collision cr \/ forged_signature cr bs pk \/ sig_transplant cr pk \/ sig_malleable cr pk.
  Proof.
    intros pk r W Hh Ha Hwire Hbf.
    pose proof (RInv_replica_tree cr bs c d W) as HT. fold r in HT.
    assert (Hfork : t_fork (c_tree c) = 0) by (destruct W as (_ & H2 & _); exact H2).
    destruct (N.eq_dec (p_fork pf') 0) as [Hf0|Hf0].
    2:{ left. apply refused_of_gate. left. rewrite Hfork. exact Hf0. }
    destruct (verifier_cases cr pf' c (mkWorld d j ev)
                (some_collision cr \/ forged_signature cr bs pk \/ sig_transplant cr pk \/ sig_malleable cr pk))
      as [Rf|E]; [|left; exact Rf|right; exact E].
    intros cs V. unfold verifier_says in V. cbn [w_disk] in V.
    apply (bu_altered_not_verified (c_tree c) (d_tree d) r pk pf pf' cs HT Hh Ha Hf0 Hwire Hbf V).
  Qed.
End BlockAndUpgrade.

(* ---------- the toy instance: first contact (block 4 together with the upgrade 0 -> 6) ---------- *)

(* block 4 with its sibling 10 climbs to node 9, which the upgrade section therefore omits: it carries node 3 only *)
Definition sc_hon_bu : proof :=
  mkProof 0 (Some (hon_block sc_cr sc_blocks 4 1)) None None
    (Some (mkDataUpgrade 0 6 [ref_node sc_cr sc_blocks 2 0] [] (sc_sig 6))).

Example sc_bu_is_what_the_writer_serves :
  sc_first_contact_proof = Some sc_hon_bu /\ sc_try sc_R0 sc_hon_bu = Some (Ok true).
Proof. vm_compute. split; reflexivity. Qed.

Example sc_bu_alterations_refused :
  let H := sc_hon_bu in
  let refused_ pf e := sc_try sc_R0 pf = Some e /\ sc_same sc_R0 pf in
  refused_ (mkProof 1 (p_block H) None None (p_upgrade H)) (Ok false) /\                                       (* fork *)
  refused_ (bl_with H (fun b => mkDataBlock (db_index b) [9; 11] (db_nodes b))) (Err InvalidSignature) /\      (* value *)
  refused_ (bl_with H (b_nodes (at_nth 0 nd_hash))) (Err InvalidSignature) /\                                 (* block node hash *)
  refused_ (bl_with H (b_nodes (at_nth 0 (nd_size 2)))) (Err InvalidSignature) /\                             (* block node size *)
  refused_ (bl_with H (b_nodes (at_nth 0 (nd_index 11)))) (Err InvalidOperation) /\                           (* block node index *)
  refused_ (bl_with H (fun b => mkDataBlock 5 (db_value b) (db_nodes b))) (Err InvalidOperation) /\           (* block index *)
  refused_ (up_with H (u_nodes (at_nth 0 nd_hash))) (Err InvalidSignature) /\                                 (* upgrade node hash *)
  refused_ (up_with H (u_nodes (at_nth 0 (nd_size 9)))) (Err InvalidSignature) /\                             (* upgrade node size *)
  refused_ (up_with H (u_nodes (at_nth 0 (nd_index 4)))) (Err InvalidOperation) /\                            (* upgrade node index *)
  refused_ (up_with H (u_sig (flip (sc_sig 6)))) (Err InvalidSignature) /\                                    (* signature *)
  refused_ (up_with H (u_sig (sc_sig 5))) (Err InvalidSignature) /\
  refused_ (up_with H (u_start 1)) (Err InvalidOperation) /\                                                  (* start, length *)
  refused_ (up_with H (u_length 7)) (Err InvalidOperation) /\
  refused_ (up_with H (u_length 5)) (Err InvalidOperation).
Proof. vm_compute. repeat split. Qed.

(* the fresh replica and the first-contact proof meet the hypotheses of bu_altered_field_refused *)
Example sc_bu_altered_field_refused_applies :
  match sc_R0 with
  | Some (c, w) =>
      RInv sc_cr sc_blocks c (w_disk w) /\
      honest_bu sc_cr sc_blocks (c_tree c) (d_tree (w_disk w)) sc_key 0 sc_hon_bu /\
      (forall pf', altered sc_hon_bu pf' -> wire_ok pf' -> block_fits pf' ->
         refused sc_cr pf' c w \/ some_collision sc_cr \/ forged_signature sc_cr sc_blocks sc_key \/
         sig_transplant sc_cr sc_key \/ sig_malleable sc_cr sc_key) /\
      (let pf' := up_with sc_hon_bu (u_nodes (at_nth 0 nd_hash)) in
       altered sc_hon_bu pf' /\ wire_ok pf' /\ block_fits pf') /\
      (let pf' := bl_with sc_hon_bu (fun b => mkDataBlock (db_index b) [9; 11] (db_nodes b)) in
       altered sc_hon_bu pf' /\ wire_ok pf' /\ block_fits pf')
  | None => False
  end.
Proof.
  assert (Hsmall : len (enc_header (header_new (mkKeypair sc_key None))) < 1073741824)
    by (vm_compute; reflexivity).
  destruct (RInv_fresh sc_cr sc_hash32 sc_nonblank sc_blocks _ Hsmall) as (d0 & ops & c & Hopen & HR & _).
  unfold sc_R0, sc_open. rewrite Hopen. cbn [w_disk].
  assert (HL : t_length (c_tree c) = 0 /\ kp_public (c_keypair c) = sc_key).
  { vm_compute in Hopen. injection Hopen as _ _ <-. split; reflexivity. }
  destruct HL as [HL HK].
  assert (Hh : honest_bu sc_cr sc_blocks (c_tree c) (d_tree d0) sc_key 0 sc_hon_bu).
  { vm_compute in Hopen. injection Hopen as <- _ <-. unfold sc_hon_bu.
    eapply (honest_bu_intro sc_cr sc_blocks _ _ sc_key 0 4 1 6 (sc_sig 6) [ref_node sc_cr sc_blocks 2 0]).
    - lia.
    - constructor; [apply ref_node_is_ref|constructor].
    - intros x y [<-|[]] [<-|[]]. vm_compute. intros E; discriminate E.
    - vm_compute. intros E; discriminate E.
    - vm_compute. reflexivity.
    - vm_compute. reflexivity. }
  split; [exact HR|]. split; [exact Hh|]. split.
  { intros pf' Ha Hwire Hbf.
    pose proof (bu_altered_field_refused sc_cr sc_hash32 sc_nonblank sc_blocks sc_writer_fits c d0 [] [] sc_hon_bu pf') as T.
    cbv zeta in T. rewrite HL, HK in T. apply T; assumption. }
  split.
  - split; [|split; [vm_compute; reflexivity|vm_compute; intros E; discriminate E]].
    apply (alt_upgrade sc_hon_bu _ _ eq_refl).
    apply (ua_node _ 0 (nd_hash (ref_node sc_cr sc_blocks 2 0))).
    + cbn. lia.
    + vm_compute. intros E; discriminate E.
  - split; [|split; [vm_compute; reflexivity|vm_compute; intros E; discriminate E]].
    apply (alt_block sc_hon_bu _ _ eq_refl). apply (ba_value _ [9; 11]). vm_compute. intros E; discriminate E.
Qed.

Print Assumptions url_sim.
Print Assumptions url_sim_len.
Print Assumptions url_below.
Print Assumptions hon_loop.
Print Assumptions url_same.
Print Assumptions upg_no_sibling.
Print Assumptions loop_shape.
Print Assumptions upgrade_nodes_core.
Print Assumptions upgrade_target_length.
Print Assumptions upgrade_target_altered.
Print Assumptions reference_nodes_signature_checked.
Print Assumptions upgrade_sig_altered.
Print Assumptions block_altered_not_verified.
Print Assumptions block_index_altered_not_verified.
Print Assumptions altered_field_refused.
Print Assumptions accepted_block_proof_is_honest.
Print Assumptions accepted_upgrade_proof_shape.
Print Assumptions whole_proof_from_another_writer_refused.
Print Assumptions sc_honest_is_what_the_writer_serves.
Print Assumptions sc_honest_accepted.
Print Assumptions sc_upgrade_alterations_refused.
Print Assumptions sc_upgrade_structural_alterations.
Print Assumptions sc_block_alterations_refused.
Print Assumptions sc_R3_RInv.
Print Assumptions sc_altered_field_refused_applies_upgrade.
Print Assumptions sc_altered_field_refused_applies_block.
Print Assumptions sc_other_writer_refused.
Print Assumptions sc_other_writer_theorem_applies.
Print Assumptions sc_accepted_upgrade_proof_shape_applies.
Print Assumptions sc_accepted_block_proof_is_honest_applies.
Print Assumptions accepted_bu_all_reference.
Print Assumptions accepted_bu_block_is_writers.
Print Assumptions bu_altered_not_verified.
Print Assumptions bu_altered_field_refused.
Print Assumptions bu_target_altered.
Print Assumptions sc_bu_is_what_the_writer_serves.
Print Assumptions sc_bu_alterations_refused.
Print Assumptions sc_bu_altered_field_refused_applies.

(* ReplicaDisk6.v -- replicas end to end: non-vacuity of ReplicaDisk1-5 on the toy instance of SoundCore.v
   (sc_cr, sc_blocks: a writer with six blocks, a replica created from the public key alone). *)
From HC Require Import Base NMap Codec CodecFacts Crypto FlatTree Storage Bitfield Oplog Merkle Core.
From HC Require Import FlatTreeFacts StorageFacts BitfieldFacts OplogFacts TreeRef OffsetFacts CoreFacts Crash Refine.
From HC Require Import ClearRefine Reopen ContigBridge Unified1 Unified2 CrashCore1 CrashClear1.
From HC Require Import Sound NoPanic Replicate SoundCoreLib SoundCore SoundCoreUp SoundCoreBU.
From HC Require Import CrashCore2 CrashCore3.
From HC Require Import ReplicaDisk1 ReplicaDisk2 ReplicaDisk3 ReplicaDisk4 ReplicaDisk5.
From Coq Require Import FMapPositive ZifyN ZifyNat ZifyBool.
Ltac Zify.zify_post_hook ::= Z.div_mod_to_equations.
Arguments N.add : simpl never.
Arguments N.sub : simpl never.
Arguments N.mul : simpl never.
Arguments N.div : simpl never.
Arguments N.modulo : simpl never.
Arguments N.pow : simpl never.
Arguments N.eqb : simpl never.
Arguments N.ltb : simpl never.
Arguments N.leb : simpl never.
Arguments N.of_nat : simpl never.
Arguments N.to_nat : simpl never.

Lemma sc_crc_ok : crc_ok sc_cr.
Proof. intros b. cbn [cr_crc sc_cr]. lia. Qed.

Lemma sc_hashbytes : forall x, bytes_ok (cr_hash sc_cr x) = true.
Proof.
  intros x. cbn [cr_hash sc_cr]. unfold sc_hash, bytes_ok. cbn [forallb].
  apply andb_true_intro. split; [reflexivity|].
  apply forallb_forall. intros y Hy. apply in_map_iff in Hy. destruct Hy as (k & <- & _).
  unfold byte_ok. apply N.ltb_lt. apply N.mod_lt. discriminate.
Qed.

(* goal 1 on the instance: the fresh replica of SoundCore.sc_R0 satisfies the invariant *)
Example sc_fresh_RDInv :
  match sc_R0 with
  | Some (c, w) => RDInv sc_cr sc_blocks c (w_disk w) (fun _ => false) /\ t_length (c_tree c) = 0 /\
                   kp_secret (c_keypair c) = None
  | None => False
  end.
Proof.
  destruct (RDInv_fresh sc_cr sc_crc_ok sc_hash32 sc_nonblank sc_blocks (mkKeypair sc_key None) eq_refl eq_refl)
    as (d0 & ops & c & Hopen & X & K & L).
  unfold sc_R0, sc_open. rewrite Hopen. cbn [w_disk]. split; [exact X|]. split; [exact L|]. rewrite K. reflexivity.
Qed.

(* goals 2, 3, 4 on the instance: first contact (block 4 together with the upgrade 0..6, no flush: the upgrade
   entry stays pending in the oplog) is accepted; all hypotheses of apply_keeps_RDInv hold; in the resulting state
   -- unless the toy hash collides -- the invariant holds with held set {4} and length 6, the observations are
   those of the replica spec, and a reopen replays the pending upgrade entry (tree_truncate on a tree holding
   only nodes 9, 8, 10, 3) to the same state *)

Lemma sc_fc_ok d0 ops c pf :
  core_open sc_cr (Some (mkKeypair sc_key None)) false disk_empty = (d0, ops, Ok c) ->
  sc_first_contact_proof = Some pf ->
  exists b u c' w', pf = mkProof 0 (Some b) None None (Some u) /\ db_index b = 4 /\ block_upgrade_ok pf /\
    core_apply_proof sc_cr (Some false) pf c (mkWorld d0 [] []) = (c', w', Ok true).
Proof.
  intros H1 H2. pose proof sc_block_upgrade_theorem_applies as HB.
  assert (ER0 : sc_R0 = Some (c, mkWorld d0 [] [])) by (unfold sc_R0, sc_open; rewrite H1; reflexivity).
  rewrite ER0, H2 in HB. destruct HB as (b & u & c' & w' & Epf & Hi & _ & _ & _ & Hok & _ & Happ & _).
  exists b, u, c', w'. split; [exact Epf|]. split; [exact Hi|]. split; [exact Hok|exact Happ].
Qed.

Lemma sc_fc_facts d0 ops c pf c' w' r :
  core_open sc_cr (Some (mkKeypair sc_key None)) false disk_empty = (d0, ops, Ok c) ->
  sc_first_contact_proof = Some pf ->
  core_apply_proof sc_cr (Some false) pf c (mkWorld d0 [] []) = (c', w', r) ->
  t_length (c_tree c') = 6 /\
  match p_upgrade pf with Some u => bytes_ok (du_signature u) = true | None => False end.
Proof.
  intros H1 H2 H3. vm_compute in H1. injection H1 as <- _ <-. vm_compute in H2. injection H2 as <-.
  vm_compute in H3. injection H3 as <- _ _. split; vm_compute; reflexivity.
Qed.

(* goals 2, 3, 4 on the instance: first contact (block 4 together with the upgrade 0..6, no flush: the upgrade
   entry stays pending in the oplog) is accepted; all hypotheses of apply_keeps_RDInv hold; in the resulting state
   -- unless the toy hash collides -- the invariant holds with held set {4} and length 6, the observations are
   those of the replica spec, and a reopen replays the pending upgrade entry (tree_truncate on a tree holding
   only nodes 9, 8, 10, 3) to the same state *)
Example sc_first_contact_RDInv :
  match sc_R0, sc_first_contact_proof with
  | Some (c, w), Some pf =>
      rd_proof_ok pf /\
      exists c' w',
        core_apply_proof sc_cr (Some false) pf c w = (c', w', Ok true) /\
        t_length (c_tree c') = 6 /\
        ((RDInv sc_cr sc_blocks c' (w_disk w') (hold (fun _ => false) (p_block pf)) /\
          (forall i, core_has c' i = (i =? 4)) /\ i_contiguous (core_info c') = 0 /\
          (exists c'', core_open sc_cr None true (w_disk w') = (w_disk w', [], Ok c'') /\
                       RDInv sc_cr sc_blocks c'' (w_disk w') (hold (fun _ => false) (p_block pf)) /\
                       c_tree c'' = c_tree c' /\ c_header c'' = c_header c')) \/
         some_collision sc_cr \/ forged_signature sc_cr sc_blocks (kp_public (c_keypair c)))
  | _, _ => False
  end.
Proof.
  destruct (RDInv_fresh sc_cr sc_crc_ok sc_hash32 sc_nonblank sc_blocks (mkKeypair sc_key None) eq_refl eq_refl)
    as (d0 & ops & c & Hopen & X & K & L).
  assert (ER0 : sc_R0 = Some (c, mkWorld d0 [] [])) by (unfold sc_R0, sc_open; rewrite Hopen; reflexivity).
  rewrite ER0.
  destruct sc_first_contact_proof as [pf|] eqn:Ep.
  2:{ pose proof sc_block_upgrade_theorem_applies as HB. rewrite ER0, Ep in HB. exact HB. }
  destruct (sc_fc_ok d0 ops c pf Hopen Ep) as (b & u & c' & w' & Epf & Hi & Hok & Happ).
  destruct (sc_fc_facts d0 ops c pf c' w' (Ok true) Hopen Ep Happ) as [Hlen Hsb].
  assert (Hrd : rd_proof_ok pf) by (split; [exact Hok|destruct (p_upgrade pf); [exact Hsb|exact I]]).
  split; [exact Hrd|]. exists c', w'. split; [exact Happ|]. split; [exact Hlen|].
  destruct (apply_keeps_RDInv sc_cr sc_crc_ok sc_hash32 sc_nonblank sc_hashbytes sc_blocks sc_writer_fits
              (Some false) pf c d0 [] [] _ c' w' X Hrd Happ)
    as [(X' & _)|[C|F]]; [left|right; left; exact C|right; right; exact F].
  split; [exact X'|].
  assert (Hh : forall i, hold (fun _ => false) (p_block pf) i = (i =? 4)).
  { intros i. rewrite Epf. unfold hold. cbn [p_block]. rewrite Hi. apply orb_false_r. }
  split; [intros i; rewrite (RD_has sc_cr sc_blocks c' (w_disk w') _ i X'); apply Hh|].
  split.
  { destruct (RD_contiguous sc_cr sc_blocks c' (w_disk w') _ X') as [A1 A2].
    apply (fexact_unique (hold (fun _ => false) (p_block pf)) (i_contiguous (core_info c')) 0).
    - split; [exact A1|exact A2].
    - split; [intros i Hi0; exfalso; apply (N.nlt_0_r _ Hi0)|]. rewrite Hh. reflexivity. }
  destruct (reopen_RDInv sc_cr sc_crc_ok sc_nonblank sc_blocks sc_writer_fits c' (w_disk w') _ X')
    as (c'' & E & X'' & Et & Eh & _).
  exists c''. split; [exact E|]. split; [exact X''|]. split; [exact Et|exact Eh].
Qed.


(* ---------- goal 5 on the instance: first contact WITH a flush, cut after every storage operation ---------- *)

(* the journal has nine operations: data write, entry write, one bitfield page, four tree nodes, header slot,
   truncate.  Reopening after the first k of them: before the entry write (k = 0, 1) nothing is held and the
   length is 0; from the entry write on block 4 is held, reads back as the writer's block, and the length is 6 *)
Definition sc_crash_obs (f : option bool) (k : nat) :=
  match sc_R0, sc_first_contact_proof with
  | Some (c, w), Some pf =>
      match core_apply_proof sc_cr f pf c w with
      | (c', w', r) =>
          match apply_sops (w_disk w) (firstn k (journal_delta (w_journal w) (w_journal w'))) with
          | Some dk =>
              match core_open sc_cr None true dk with
              | (d'', _, Ok c'') =>
                  Some (r, length (w_journal w'), core_has c'' 4, i_length (core_info c''),
                        snd (core_get 4 c'' (mkWorld d'' [] [])))
              | _ => None
              end
          | None => None
          end
      end
  | _, _ => None
  end.

Example sc_crash_cuts_computed :
  map (sc_crash_obs (Some true)) (seq 0 10) =
  [Some (Ok true, 9%nat, false, 0, Ok None); Some (Ok true, 9%nat, false, 0, Ok None)] ++
  repeat (Some (Ok true, 9%nat, true, 6, Ok (Some [9; 10]))) 8.
Proof. vm_compute. reflexivity. Qed.

Lemma sc_fc_flush_run d0 ops c pf c' w' r :
  core_open sc_cr (Some (mkKeypair sc_key None)) false disk_empty = (d0, ops, Ok c) ->
  sc_first_contact_proof = Some pf ->
  core_apply_proof sc_cr (Some true) pf c (mkWorld d0 [] []) = (c', w', r) ->
  r = Ok true /\ length (w_journal w') = 9%nat.
Proof.
  intros H1 H2 H3. vm_compute in H1. injection H1 as <- _ <-. vm_compute in H2. injection H2 as <-.
  vm_compute in H3. injection H3 as _ <- <-. split; reflexivity.
Qed.

(* all hypotheses of apply_crash_recovers hold on the instance *)
Example sc_crash_theorem_applies :
  match sc_R0, sc_first_contact_proof with
  | Some (c, w), Some pf =>
      exists c' w',
        core_apply_proof sc_cr (Some true) pf c w = (c', w', Ok true) /\ commit_point pf = 1%nat /\
        ((exists ops,
            w_journal w' = rev ops ++ w_journal w /\ length ops = 9%nat /\
            forall k, exists dk,
              apply_sops (w_disk w) (firstn k ops) = Some dk /\
              exists c'' d'' rops, core_open sc_cr None true dk = (d'', rops, Ok c'') /\
                if (k <=? 1)%nat
                then obs_replica sc_blocks c'' d'' (fun _ => false) 0
                else obs_replica sc_blocks c'' d'' (hold (fun _ => false) (p_block pf)) (t_length (c_tree c'))) \/
         some_collision sc_cr \/ forged_signature sc_cr sc_blocks (kp_public (c_keypair c)))
  | _, _ => False
  end.
Proof.
  destruct (RDInv_fresh sc_cr sc_crc_ok sc_hash32 sc_nonblank sc_blocks (mkKeypair sc_key None) eq_refl eq_refl)
    as (d0 & ops & c & Hopen & X & K & L).
  assert (ER0 : sc_R0 = Some (c, mkWorld d0 [] [])) by (unfold sc_R0, sc_open; rewrite Hopen; reflexivity).
  rewrite ER0.
  destruct sc_first_contact_proof as [pf|] eqn:Ep.
  2:{ pose proof sc_block_upgrade_theorem_applies as HB. rewrite ER0, Ep in HB. exact HB. }
  destruct (sc_fc_ok d0 ops c pf Hopen Ep) as (b & u & c1 & w1 & Epf & Hi & Hok & Happ1).
  destruct (sc_fc_facts d0 ops c pf c1 w1 (Ok true) Hopen Ep Happ1) as [_ Hsb].
  assert (Hrd : rd_proof_ok pf) by (split; [exact Hok|destruct (p_upgrade pf); [exact Hsb|exact I]]).
  destruct (core_apply_proof sc_cr (Some true) pf c (mkWorld d0 [] [])) as [[c' w'] r] eqn:Happ.
  destruct (sc_fc_flush_run d0 ops c pf c' w' r Hopen Ep Happ) as [-> Hlen].
  exists c', w'. split; [reflexivity|]. split; [rewrite Epf; reflexivity|].
  destruct (apply_crash_recovers sc_cr sc_crc_ok sc_hash32 sc_nonblank sc_hashbytes sc_blocks sc_writer_fits
              (Some true) pf c d0 [] [] _ c' w' X Hrd Happ)
    as [(dl & Hj & _ & Hcuts)|[C|F]]; [left|right; left; exact C|right; right; exact F].
  exists dl. split; [exact Hj|]. split.
  { rewrite Hj, app_nil_r, rev_length in Hlen. exact Hlen. }
  intros k. destruct (Hcuts k) as (dk & Ak & c'' & d'' & rops & Eo & _ & Hcase).
  exists dk. split; [exact Ak|]. exists c'', d'', rops. split; [exact Eo|].
  assert (Ecp : commit_point pf = 1%nat) by (rewrite Epf; reflexivity). rewrite Ecp in Hcase.
  destruct (k <=? 1)%nat.
  - destruct Hcase as (_ & O & _). rewrite L in O. exact O.
  - destruct Hcase as (_ & O & _). exact O.
Qed.

(* ---------- goal 6 on the instance: a history with accepted proofs, reads, crashes and reopens ---------- *)

Definition sc_fc_state :=
  match sc_first_contact_proof with
  | Some pf => fst (ex_run sc_R0 (core_apply_proof sc_cr (Some false) pf))
  | None => None
  end.
(* the writer's proofs for blocks 1 and 5, with the number of nodes the replica asks for after first contact *)
Definition sc_pf1 := sc_block_proof sc_fc_state 1.
Definition sc_pf5 := sc_block_proof sc_fc_state 5.

Definition sc_history : list rdop :=
  match sc_first_contact_proof, sc_pf1, sc_pf5 with
  | Some pf, Some p1, Some p5 =>
      [RInfo; RApply (Some false) pf; RGet 4; RGet 0; RHas 4; RInfo;
       RCrashApply (Some true) p1 1; RHas 1; RReopen;
       RCrashApply (Some true) p1 3; RHas 1; RGet 1;
       RApply None p5; RInfo; RApply (Some true) p5; RReopen; RGet 5; RInfo]
  | _, _, _ => []
  end.

(* what the model does on this history (computed): the crash after the data write of block 1 (k = 1) leaves
   block 1 not held, the crash after its entry write (k = 3) leaves it held and readable *)
Example sc_history_computed :
  match sc_R0 with
  | Some (c, w) =>
      rd_run sc_cr sc_history c w =
      [ROInfo (mkInfo 0 0 0 0 false); ROApply (Ok true); ROGet (Ok (Some [9; 10])); ROGet (Ok None); ROHas true;
       ROInfo (mkInfo 6 11 0 0 false);
       ROCrash (Ok tt); ROHas false; ROReopen (Ok tt);
       ROCrash (Ok tt); ROHas true; ROGet (Ok (Some []));
       ROApply (Ok true); ROInfo (mkInfo 6 11 0 0 false); ROApply (Ok true); ROReopen (Ok tt);
       ROGet (Ok (Some [11])); ROInfo (mkInfo 6 11 0 0 false)]
  | None => False
  end.
Proof. vm_compute. reflexivity. Qed.

Lemma sc_pf1_shape p : sc_pf1 = Some p -> p_hash p = None /\ p_seek p = None /\ p_upgrade p = None.
Proof. intros E. vm_compute in E. injection E as <-. repeat split. Qed.

Lemma sc_pf5_shape p : sc_pf5 = Some p -> p_hash p = None /\ p_seek p = None /\ p_upgrade p = None.
Proof. intros E. vm_compute in E. injection E as <-. repeat split. Qed.

(* all hypotheses of fresh_replica_history hold for this history *)
Example sc_history_theorem_applies :
  Forall rdop_ok sc_history /\ length sc_history = 18%nat /\
  match sc_R0 with
  | Some (c, w) =>
      rd_ok sc_blocks (fun _ => false) 0 sc_history (rd_run sc_cr sc_history c w) \/
      some_collision sc_cr \/ forged_signature sc_cr sc_blocks sc_key
  | None => False
  end.
Proof.
  destruct (RDInv_fresh sc_cr sc_crc_ok sc_hash32 sc_nonblank sc_blocks (mkKeypair sc_key None) eq_refl eq_refl)
    as (d0 & ops & c & Hopen & X & K & L).
  assert (ER0 : sc_R0 = Some (c, mkWorld d0 [] [])) by (unfold sc_R0, sc_open; rewrite Hopen; reflexivity).
  assert (Hops : Forall rdop_ok sc_history /\ length sc_history = 18%nat).
  { unfold sc_history.
    destruct sc_first_contact_proof as [pf|] eqn:Ep.
    2:{ exfalso. pose proof sc_block_upgrade_theorem_applies as HB. rewrite ER0, Ep in HB. exact HB. }
    destruct (sc_fc_ok d0 ops c pf Hopen Ep) as (b & u & c1 & w1 & Epf & Hi & Hok & Happ1).
    destruct (sc_fc_facts d0 ops c pf c1 w1 (Ok true) Hopen Ep Happ1) as [_ Hsb].
    assert (Hrd : rd_proof_ok pf) by (split; [exact Hok|destruct (p_upgrade pf); [exact Hsb|exact I]]).
    destruct sc_pf1 as [p1|] eqn:E1; [|exfalso; clear - E1; vm_compute in E1; discriminate E1].
    destruct sc_pf5 as [p5|] eqn:E5; [|exfalso; clear - E5; vm_compute in E5; discriminate E5].
    destruct (sc_pf1_shape _ E1) as (A1 & A2 & A3).
    destruct (sc_pf5_shape _ E5) as (B1 & B2 & B3).
    assert (R1 : rd_proof_ok p1) by (split; [split; [exact A1|split; [exact A2|rewrite A3; exact I]]|rewrite A3; exact I]).
    assert (R5 : rd_proof_ok p5) by (split; [split; [exact B1|split; [exact B2|rewrite B3; exact I]]|rewrite B3; exact I]).
    split; [|reflexivity].
    repeat (constructor; [cbn [rdop_ok]; first [exact I|exact Hrd|exact R1|exact R5]|]). constructor. }
  split; [apply Hops|]. split; [apply Hops|]. rewrite ER0.
  destruct (replica_history sc_cr sc_blocks sc_crc_ok sc_hash32 sc_nonblank sc_hashbytes sc_writer_fits
              sc_history c d0 [] [] _ X (proj1 Hops)) as [Hr|[C|F]];
    [left; rewrite L in Hr; exact Hr|right; left; exact C|right; right; rewrite K in F; exact F].
Qed.

Print Assumptions sc_fresh_RDInv.
Print Assumptions sc_first_contact_RDInv.
Print Assumptions sc_crash_cuts_computed.
Print Assumptions sc_crash_theorem_applies.
Print Assumptions sc_history_computed.
Print Assumptions sc_history_theorem_applies.

(* ReplicaCorA.v -- consequences of the replica invariant SoundCore.RInv, part A (property C09):
   (A1) the tree of an RInv replica over a writer of fewer than 2^40 blocks is NoPanic2.tree_wf (given
        sig_ok, which every operation preserves and a fresh replica has); hence core_create_proof on a
        replica returns a value or an error for every request with fields below 2^40, and leaves core,
        disk and journal unchanged (replica_create_proof_returns, fresh_replica_history_create_proof_returns);
   (A2) EVERY outcome of core_apply_proof on an RInv replica, for the proofs covered by
        SoundCoreBU.block_upgrade_ok (apply_replica_outcome): accepted with the invariant kept; or the
        state is unchanged (refusal at a gate, or the failure of byte_offset_in_changeset); or the result
        is the panic of the 2^30 frame guard -- modulo an explicit hash collision / forged signature.
        With the per-field bounds and the u64 sum condition of NoPanic / NoPanic2 the only panic left is
        that frame guard and fuel never runs out (apply_replica_returns). *)
From HC Require Import Base NMap Codec CodecFacts Crypto FlatTree Storage Bitfield Oplog Merkle Core.
From HC Require Import FlatTreeFacts StorageFacts BitfieldFacts OplogFacts TreeRef OffsetFacts CoreFacts
                       Sound NoPanic Refine Replicate SoundCoreLib SoundCore SoundCoreUp SoundCoreBU
                       NoPanic2 EventsAvail CacheModel CacheOps ReplicaCor.
From Coq Require Import FMapPositive ZifyN ZifyNat ZifyBool.
Ltac Zify.zify_post_hook ::= Z.div_mod_to_equations.
Arguments N.add : simpl never.
Arguments N.sub : simpl never.
Arguments N.mul : simpl never.
Arguments N.div : simpl never.
Arguments N.modulo : simpl never.
Arguments N.pow : simpl never.
Arguments N.eqb : simpl never.
Arguments N.ltb : simpl never.
Arguments N.leb : simpl never.
Arguments N.of_nat : simpl never.
Arguments N.to_nat : simpl never.

(* the same kind of failure, at two result types *)
Definition fails_as {A B} (r : res A) (r' : res B) : Prop :=
  match r, r' with
  | Err e, Err e' => e = e'
  | Panic s, Panic s' => s = s'
  | OutOfFuel, OutOfFuel => True
  | _, _ => False
  end.

Lemma fails_as_returns {A B} (r : res A) (r' : res B) : fails_as r r' -> returns r' = true -> returns r = true.
Proof. destruct r, r'; cbn; intros H1 H2; try discriminate; try contradiction; reflexivity. Qed.

(* ====================================================================================== *)
(* Structural facts: forward stepping of the part of apply behind the gates                 *)
(* ====================================================================================== *)

Section Forward.
  Variable cr : crypto.
  Hypothesis Hhash32 : forall x, length (cr_hash cr x) = 32%nat.
  Hypothesis Hnonblank : forall x, all_zero (cr_hash cr x) = false.

  Lemma cs_verify_and_set_signature_hashed c sg pk c' :
    cs_verify_and_set_signature cr c sg pk = Ok c' ->
    exists h s, cs_hash c' = Some h /\ cs_signature c' = Some s.
  Proof.
    unfold cs_verify_and_set_signature. intros H. apply bind_ok in H. destruct H as (s & _ & H).
    destruct (cr_verify cr pk (cs_signable c (cs_tree_hash cr c)) s); [|discriminate H].
    injection H as <-. unfold cs_set_hash_sig. cbn [cs_hash cs_signature]. do 2 eexists. split; reflexivity.
  Qed.

  (* a verified changeset that changes the length carries its hash and its signature: the two panics
     of update_header_with_changeset cannot happen *)
  Lemma verify_proof_hashed t tf pf pk cs :
    verify_proof cr t tf pf pk = Ok cs -> cs_upgraded cs = true ->
    exists h s, cs_hash cs = Some h /\ cs_signature cs = Some s.
  Proof.
    unfold verify_proof. intros H. apply bind_ok in H. destruct H as ([root c1] & Hv & H).
    apply verify_tree_frame in Hv. destruct Hv as (_ & _ & _ & _ & _ & _ & _ & F8 & F9 & _).
    cbn [tree_changeset cs_signature cs_upgraded] in F8, F9.
    apply bind_ok in H. destruct H as ([root2 c2] & Hu & H).
    assert (Hc2 : cs_upgraded c2 = true -> exists h s, cs_hash c2 = Some h /\ cs_signature c2 = Some s).
    { destruct (p_upgrade pf) as [u|].
      - apply bind_ok in Hu. destruct Hu as ([consumed c'] & Hvu & Hu). injection Hu as _ <-.
        intros _. unfold verify_upgrade in Hvu.
        apply bind_ok in Hvu. destruct Hvu as (sl & _ & Hvu).
        apply bind_ok in Hvu. destruct Hvu as (to & _ & Hvu).
        apply bind_ok in Hvu. destruct Hvu as ([[c1' q1] it1] & _ & Hvu).
        apply bind_ok in Hvu. destruct Hvu as (li & _ & Hvu).
        apply bind_ok in Hvu. destruct Hvu as ([[c2' it2] rest] & _ & Hvu).
        apply bind_ok in Hvu. destruct Hvu as ([c3 it3] & _ & Hvu).
        apply bind_ok in Hvu. destruct Hvu as (c4 & H4 & Hvu). injection Hvu as _ <-.
        apply (cs_verify_and_set_signature_hashed _ _ _ _ H4).
      - injection Hu as _ <-. rewrite F9. discriminate. }
    destruct root2 as [r|].
    - apply bind_ok in H. destruct H as (n & _ & H).
      destruct (bytes_eqb (n_hash n) (n_hash r)); [|discriminate H]. injection H as <-. exact Hc2.
    - injection H as <-. exact Hc2.
  Qed.

  (* log_and_commit: with a hashed and signed changeset of 32-byte-hash nodes that can be committed, the
     only failure is the frame guard of the oplog append (before anything was journalled) *)
  Lemma log_and_commit_cases cs bu c w :
    (cs_upgraded cs = true -> exists h s, cs_hash cs = Some h /\ cs_signature cs = Some s) ->
    (forall x, In x (cs_nodes cs) -> length (n_hash x) = 32%nat) ->
    (exists t', tree_commit (c_tree c) cs = Ok t') ->
    log_and_commit cr cs bu c w = (c, w, Panic frame_msg) \/
    exists c' w', log_and_commit cr cs bu c w = (c', w', Ok tt).
  Proof.
    intros Hhs H32 (t' & HT).
    unfold log_and_commit. rewrite mbind_get_core, mbind_lift.
    assert (He : exists e h', entry_of_changeset cs bu (c_header c) = Ok (e, h') /\ e_nodes e = cs_nodes cs).
    { unfold entry_of_changeset. destruct (cs_upgraded cs).
      - destruct (Hhs eq_refl) as (h & s & -> & ->). do 2 eexists. split; reflexivity.
      - do 2 eexists. split; reflexivity. }
    destruct He as (e & h' & -> & En). rewrite mbind_lift.
    assert (H32e : forall x, In x (e_nodes e) -> length (n_hash x) = 32%nat) by (rewrite En; exact H32).
    destruct (oplog_append_cases cr (c_oplog c) e H32e) as [OA|(o' & fr & OA)]; rewrite OA.
    - left. reflexivity.
    - right. rewrite mbind_put_oplog, mbind_emit_SW, mbind_put_header.
      cbn [w_disk w_journal w_events c_keypair c_oplog c_tree c_bitfield c_header c_skip].
      match goal with |- exists c' w', mbind ?m ?k ?c1 ?w1 = _ =>
        assert (Hin : exists c2, m c1 w1 = (c2, w1, Ok tt) /\ c_tree c2 = c_tree c)
      end.
      { destruct bu as [u|].
        - rewrite mbind_get_core. cbv zeta. rewrite mbind_put_bitfield. unfold put_header.
          eexists. split; reflexivity.
        - unfold ret. eexists. split; reflexivity. }
      destruct Hin as (c2 & Hin & Ht2).
      rewrite (mbind_eq _ _ _ _ _ _ _ Hin). rewrite mbind_get_core, mbind_lift, Ht2, HT.
      unfold put_tree. do 2 eexists. reflexivity.
  Qed.

  (* maybe_flush on a tree whose unflushed nodes can be written: the only failure is the frame guard of
     the header write *)
  Lemma maybe_flush_cases f c w :
    unflushed_ok (c_tree c) ->
    (exists c' w', maybe_flush cr f c w = (c', w', Panic frame_msg)) \/
    exists c' w', maybe_flush cr f c w = (c', w', Ok tt).
  Proof.
    intros Hok. unfold maybe_flush. rewrite mbind_get_core. cbv zeta.
    set (dec := match f with Some b => b | None => _ end). destruct dec.
    - rewrite mbind_put_skip.
      set (c1 := mkCore (c_keypair c) (c_oplog c) (c_tree c) (c_bitfield c) (c_header c) 3).
      destruct (flush_all_spec cr Hhash32 Hnonblank c1 w Hok)
        as [(c2 & w2 & E)|(o' & d' & jn & t' & tops & d1 & d2 & E & _)]; rewrite E.
      + left. do 2 eexists. reflexivity.
      + right. do 2 eexists. reflexivity.
    - right. unfold put_skip. do 2 eexists. reflexivity.
  Qed.
End Forward.

(* ====================================================================================== *)
(* byte_offset_in_changeset returns on the changesets of verified block sections            *)
(* ====================================================================================== *)

Section OffsetReturns.
  Variable cr : crypto.
  Variable bs : list bytes.
  Hypothesis Hfit : sumN (map len bs) <= u64_max.

  (* the walk over the writer's nodes never underflows "node.length - parent.length"; what is left is a
     position lookup among the new roots or byte_offset_from_nodes on the old tree *)
  Lemma block_offset_returns t tf i k new c4 :
    roots_ok t -> 2 * t_length t <= B57 -> 2 * i <= u64_max ->
    cs_nodes c4 = (ref_node cr bs 0 i :: ref_path cr bs k 0 i) ++ rev new -> Forall (Tn cr bs) new ->
    returns (byte_offset_in_changeset t tf i c4) = true.
  Proof.
    intros HRo HB Hi2 Hnodes Hnew.
    unfold byte_offset_in_changeset.
    destruct (t_length t =? i); [reflexivity|].
    unfold mul64. assert (fits_u64 (2 * i) = true) as -> by (unfold fits_u64; lia). cbn [bind].
    rewrite Hnodes. cbn [app cs_path_walk].
    rewrite it_new_leaf2. rewrite ref_node_index.
    cbn [it_at it_index]. rewrite N.eqb_refl. cbn [bind].
    fold (it_at (N.of_nat 0) i). rewrite it_parent_at.
    replace (N.of_nat 0 + 1) with (N.of_nat 1) by lia.
    change (it_is_right (it_at (N.of_nat 0) i)) with (N.odd i).
    assert (HT : Forall (Tn cr bs) (ref_path cr bs k 0 i ++ rev new)).
    { apply Forall_app. split; [|apply Forall_rev, Hnew].
      pose proof (ref_path_authentic cr bs Hfit (span_end (0 + k) (i / p2 k)) k 0 i ltac:(lia)) as A.
      eapply Forall_impl; [|exact A]. intros x [Hx _]. exact Hx. }
    destruct (walk_auth cr bs Hfit _ 0 i 0 HT) as (res & kk & Hwalk & _ & _).
    rewrite Hwalk. cbn [bind].
    destruct (position_of _ (cs_roots c4) 0); [reflexivity|].
    apply returns_bind; [apply byte_offset_from_nodes_ret; assumption|intros off _; reflexivity].
  Qed.
End OffsetReturns.

(* ====================================================================================== *)
(* A. C09 on replicas                                                                      *)
(* ====================================================================================== *)

Section ReplicaA.
  Variable cr : crypto.
  Hypothesis Hhash32 : forall x, length (cr_hash cr x) = 32%nat.
  Hypothesis Hnonblank : forall x, all_zero (cr_hash cr x) = false.
  Variable bs : list bytes.
  Hypothesis Hw : writer_fits bs.

  (* ---------- A1: the tree of a replica is well formed; create_proof returns ---------- *)

  Lemma RInv_tree_shape c d :
    RInv cr bs c d -> N.of_nat (length bs) < LIM -> t_length (c_tree c) < LIM /\ roots_ok (c_tree c).
  Proof.
    intros (H1 & _ & H3 & _) Hn. split; [lia|].
    unfold roots_ok. rewrite H3. apply ref_roots_indices.
  Qed.

  Theorem RInv_tree_wf c d :
    RInv cr bs c d -> N.of_nat (length bs) < LIM -> sig_ok (c_tree c) -> tree_wf (c_tree c).
  Proof.
    intros W Hn Hs. destruct (RInv_tree_shape c d W Hn) as [HL HR]. split; [exact HL|]. split; assumption.
  Qed.

  (* create_proof on a replica: a value or an error for every request with fields below 2^40; core, disk
     and journal are left as they were *)
  Theorem replica_create_proof_returns c w block hash seek upgrade c' w' r :
    RInv cr bs c (w_disk w) -> N.of_nat (length bs) < LIM -> sig_ok (c_tree c) ->
    rblock_lim block = true -> rblock_lim hash = true -> rupgrade_lim upgrade = true ->
    core_create_proof block hash seek upgrade c w = (c', w', r) ->
    returns r = true /\ c' = c /\ w_disk w' = w_disk w /\ w_journal w' = w_journal w.
  Proof.
    intros W Hn Hs Hb Hh Hu H.
    exact (core_create_proof_returns block hash seek upgrade c w c' w' r (RInv_tree_wf c _ W Hn Hs) Hb Hh Hu H).
  Qed.

  (* ---------- A2: every outcome of apply on a replica ---------- *)

  Lemma RInv_flushable c d : RInv cr bs c d -> flushable (c_tree c).
  Proof.
    intros (H1 & _ & _ & _ & H5 & _) i x G. destruct (H5 i x G) as [E I].
    assert (Hi : n_index x = i) by (rewrite E; apply (T_index cr bs)).
    assert (A : authentic cr bs (t_length (c_tree c)) x).
    { unfold authentic. rewrite Hi. split; [exact E|exact I]. }
    destruct (authentic_facts cr Hhash32 Hnonblank bs Hw _ x H1 A) as (_ & F1 & F2 & F3 & _).
    split; [exact Hi|]. repeat split; assumption.
  Qed.

  (* how a call that left the state unchanged ended: refused (Ok false), the failure of the verifier, or
     the failure of byte_offset_in_changeset for the carried block (nothing has been written yet) *)
  Definition unchanged_outcome (pf : proof) (c : core) (w : world) (r : res bool) : Prop :=
    r = Ok false \/ fails_as r (verifier_says cr c w pf) \/
    exists b cs, p_block pf = Some b /\ verifier_says cr c w pf = Ok cs /\
      fails_as r (byte_offset_in_changeset (c_tree c) (d_tree (w_disk w)) (db_index b) cs).

  Theorem apply_replica_outcome f pf c w c' w' r :
    RInv cr bs c (w_disk w) -> block_upgrade_ok pf ->
    core_apply_proof cr f pf c w = (c', w', r) ->
    (r = Ok true /\ RInv cr bs c' (w_disk w')) \/
    (c' = c /\ w' = w /\ unchanged_outcome pf c w r) \/
    r = Panic frame_msg \/
    some_collision cr \/ forged_signature cr bs (kp_public (c_keypair c)).
  Proof.
    intros W Hok H. pose proof H as H0.
    destruct (N.eq_dec (p_fork pf) (t_fork (c_tree c))) as [Ef|Ef].
    2:{ rewrite (apply_fork_mismatch cr f pf c w Ef) in H. injection H as <- <- <-.
        right. left. split; [reflexivity|]. split; [reflexivity|]. left. reflexivity. }
    destruct (verifier_says cr c w pf) as [cs|e|s|] eqn:V.
    2:{ rewrite (apply_verify_error cr f pf c w e Ef V) in H. injection H as <- <- <-.
        right. left. split; [reflexivity|]. split; [reflexivity|]. right. left. rewrite V. reflexivity. }
    2:{ rewrite (apply_verify_panic cr f pf c w s Ef V) in H. injection H as <- <- <-.
        right. left. split; [reflexivity|]. split; [reflexivity|]. right. left. rewrite V. reflexivity. }
    2:{ rewrite (apply_verify_out_of_fuel cr f pf c w Ef V) in H. injection H as <- <- <-.
        right. left. split; [reflexivity|]. split; [reflexivity|]. right. left. rewrite V. exact I. }
    destruct (commitable (c_tree c) cs) eqn:Cm.
    2:{ rewrite (apply_not_commitable cr f pf c w cs V Cm) in H. injection H as <- <- <-.
        right. left. split; [reflexivity|]. split; [reflexivity|]. left. reflexivity. }
    rewrite (apply_gates_pass cr f pf c w cs Ef V Cm) in H.
    unfold verifier_says in V.
    destruct (verified_nodes_authentic cr Hhash32 Hnonblank bs Hw pf c (w_disk w) cs W Hok V)
      as [(m & Hrm & Hmn & Hauth & Hup & Hblk)|[C|F]];
      [|right; right; right; left; exact C|right; right; right; right; exact F].
    assert (Hwf : forall x, In x (cs_nodes cs) -> node_wf x).
    { intros x Hx. destruct (authentic_facts cr Hhash32 Hnonblank bs Hw m x Hmn (Hauth x Hx)) as (_ & F1 & F2 & F3 & _).
      repeat split; assumption. }
    (* the part behind the block write *)
    assert (Cont : forall bu w1,
               (log_and_commit cr cs bu ;;; maybe_flush cr f ;;;
                (match p_upgrade pf with Some _ => send EvUpgrade | None => ret tt end) ;;;
                (match bu with Some u => send (EvHave (bu_start u) (bu_length u) false) | None => ret tt end) ;;;
                ret true) c w1 = (c', w', r) ->
               r = Ok true \/ r = Panic frame_msg).
    { intros bu w1 HC.
      destruct (apply_commit cr _ _ _ _ _ V Cm) as (t' & Htc & _).
      destruct (log_and_commit_cases cr cs bu c w1 (verify_proof_hashed cr _ _ _ _ _ V)
                  (fun x Hx => proj1 (Hwf x Hx)) (ex_intro _ t' Htc)) as [E|(c2 & w2 & E)].
      { rewrite (mbind_panic _ _ _ _ _ _ _ E) in HC. injection HC as _ _ <-. right. reflexivity. }
      rewrite (mbind_eq _ _ _ _ _ _ _ E) in HC.
      destruct (log_and_commit_inv cr cs bu c w1 c2 w2 tt E) as (t2 & Htc2 & Et2 & _).
      assert (Hok2 : unflushed_ok (c_tree c2)).
      { rewrite Et2. apply flushable_ok. apply (commit_flushable (c_tree c) cs t2 Htc2 (RInv_flushable c _ W) Hwf). }
      destruct (maybe_flush_cases cr Hhash32 Hnonblank f c2 w2 Hok2) as [(c3 & w3 & E3)|(c3 & w3 & E3)].
      { rewrite (mbind_panic _ _ _ _ _ _ _ E3) in HC. injection HC as _ _ <-. right. reflexivity. }
      rewrite (mbind_eq _ _ _ _ _ _ _ E3) in HC.
      left. destruct (p_upgrade pf), bu; cbn in HC; injection HC as _ _ <-; reflexivity. }
    assert (Done : r = Ok true \/ r = Panic frame_msg ->
                   (r = Ok true /\ RInv cr bs c' (w_disk w')) \/
                   (c' = c /\ w' = w /\ unchanged_outcome pf c w r) \/
                   r = Panic frame_msg \/
                   some_collision cr \/ forged_signature cr bs (kp_public (c_keypair c))).
    { intros [-> | ->]; [|right; right; left; reflexivity].
      destruct w as [d j ev]. cbn [w_disk] in W.
      destruct (apply_keeps_replica_consistent_block_upgrade cr Hhash32 Hnonblank bs Hw f pf c d j ev c' w' W Hok H0)
        as [W'|[C|F]];
        [left; split; [reflexivity|exact W']|right; right; right; left; exact C|right; right; right; right; exact F]. }
    unfold apply_tail in H.
    apply mbind_inv in H. destruct H as (c1 & w1 & r1 & Hbu & H).
    destruct (p_block pf) as [b|] eqn:Eb.
    - rewrite mbind_lift in Hbu.
      destruct (byte_offset_in_changeset (c_tree c) (d_tree (w_disk w)) (db_index b) cs) as [off|e|s|] eqn:Hoff.
      + rewrite mbind_emit_SW in Hbu. unfold ret in Hbu. injection Hbu as <- <- <-.
        apply Done. exact (Cont _ _ H).
      + injection Hbu as <- <- <-. destruct H as (-> & -> & ->).
        right. left. split; [reflexivity|]. split; [reflexivity|]. right. right.
        exists b, cs. split; [exact Eb|]. split; [exact V|]. rewrite Hoff. reflexivity.
      + injection Hbu as <- <- <-. destruct H as (-> & -> & ->).
        right. left. split; [reflexivity|]. split; [reflexivity|]. right. right.
        exists b, cs. split; [exact Eb|]. split; [exact V|]. rewrite Hoff. reflexivity.
      + injection Hbu as <- <- <-. destruct H as (-> & -> & ->).
        right. left. split; [reflexivity|]. split; [reflexivity|]. right. right.
        exists b, cs. split; [exact Eb|]. split; [exact V|]. rewrite Hoff. exact I.
    - unfold ret in Hbu. injection Hbu as <- <- <-. apply Done. exact (Cont _ _ H).
  Qed.
  (* ---------- A2 at the gates, for proofs of ANY shape ---------- *)

  (* the u64 side condition of NoPanic.proof_upgrade_ok for an arbitrary upgrade section *)
  Definition announced_sizes_fit_any (c : core) (pf : proof) : Prop :=
    forall u, p_upgrade pf = Some u ->
      t_byte_length (c_tree c) + lens (du_nodes u) + lens (du_additional u) + 87 * LIM <= u64_max.

  (* on a replica the verifier returns for every proof (block / hash / seek / upgrade sections in any
     combination, node lists of any length) with fields below 2^40 whose announced sizes fit; so a
     result of apply that is a panic or fuel exhaustion can only come from behind the three gates *)
  Theorem apply_replica_gates_return f pf c w c' w' r :
    RInv cr bs c (w_disk w) -> N.of_nat (length bs) < LIM ->
    block_lim (p_block pf) = true -> hash_lim (p_hash pf) = true -> seek_lim (p_seek pf) = true ->
    upgrade_nodes_lim pf -> announced_sizes_fit_any c pf ->
    core_apply_proof cr f pf c w = (c', w', r) ->
    returns (verifier_says cr c w pf) = true /\
    (returns r = true \/
     exists cs, p_fork pf = t_fork (c_tree c) /\ verifier_says cr c w pf = Ok cs /\
                commitable (c_tree c) cs = true /\ forall b, r <> Ok b).
  Proof.
    intros W Hn Hb Hh Hs Hlim Hsum H.
    destruct (RInv_tree_shape c _ W Hn) as [HL HR].
    assert (Vret : returns (verifier_says cr c w pf) = true).
    { unfold verifier_says. apply verify_proof_returns_any_length; try assumption.
      - unfold proof_upgrade_ok. destruct (p_upgrade pf) as [u|] eqn:Eu; [|exact I].
        destruct (Hlim u Eu) as (L1 & _ & _). split; [exact L1|]. split.
        + destruct W as (_ & _ & H3 & H4 & _). unfold lens. rewrite H3, ref_roots_size, H4. lia.
        + exact (Hsum u Eu).
      - apply own_roots_lim_of_shape; assumption. }
    split; [exact Vret|].
    destruct r as [[|]|e|s|] eqn:Er; try (left; reflexivity).
    - destruct (apply_not_accepted cr f pf c w c' w' _ H ltac:(discriminate)) as [(-> & -> & Hg)|Hx];
        [|right; exact Hx].
      destruct (apply_refusal_noop cr f pf c w Hg) as (r0 & H0 & Hr0). rewrite H in H0. injection H0 as <-.
      destruct Hr0 as [Hr0|(_ & _ & Hr0)]; [discriminate Hr0|].
      destruct (verifier_says cr c w pf); try contradiction; discriminate Vret.
    - destruct (apply_not_accepted cr f pf c w c' w' _ H ltac:(discriminate)) as [(-> & -> & Hg)|Hx];
        [|right; exact Hx].
      destruct (apply_refusal_noop cr f pf c w Hg) as (r0 & H0 & Hr0). rewrite H in H0. injection H0 as <-.
      destruct Hr0 as [Hr0|(_ & _ & Hr0)]; [discriminate Hr0|].
      destruct (verifier_says cr c w pf); try contradiction; discriminate Vret.
  Qed.

  (* ---------- A2, no panic: with the bounds of NoPanic / NoPanic2 ---------- *)

  (* the u64 side condition of NoPanic.proof_upgrade_ok ("byte_length += node.length" runs once per
     announced node): the replica's byte length plus the announced sizes stays below 2^64 - 87 * 2^40 *)
  Definition announced_sizes_fit (c : core) (pf : proof) : Prop :=
    forall u, p_upgrade pf = Some u ->
      t_byte_length (c_tree c) + lens (du_nodes u) + 87 * LIM <= u64_max.

  Lemma replica_proof_upgrade_ok c d pf :
    RInv cr bs c d -> block_upgrade_ok pf -> upgrade_nodes_lim pf -> announced_sizes_fit c pf ->
    proof_upgrade_ok (c_tree c) pf.
  Proof.
    intros (_ & _ & H3 & H4 & _) (_ & _ & Hshape) Hlim Hsum. unfold proof_upgrade_ok.
    destruct (p_upgrade pf) as [u|] eqn:Eu; [|exact I].
    destruct (Hlim u Eu) as (L1 & _ & _). destruct Hshape as (Hadd & _).
    split; [exact L1|]. split.
    - unfold lens. rewrite H3, ref_roots_size, H4. lia.
    - rewrite Hadd. specialize (Hsum u Eu). unfold lens in *. cbn [map sumN]. lia.
  Qed.

  (* apply on a replica returns a value or an error -- never a panic other than the 2^30 frame guard of
     the oplog (entry or header frame), never out of fuel -- for proofs with fields below 2^40 whose
     announced sizes fit; modulo a hash collision / forged signature *)
  Theorem apply_replica_returns f pf c w c' w' r :
    RInv cr bs c (w_disk w) -> N.of_nat (length bs) < LIM -> block_upgrade_ok pf ->
    block_lim (p_block pf) = true -> upgrade_nodes_lim pf -> announced_sizes_fit c pf ->
    core_apply_proof cr f pf c w = (c', w', r) ->
    returns r = true \/ r = Panic frame_msg \/
    some_collision cr \/ forged_signature cr bs (kp_public (c_keypair c)).
  Proof.
    intros W Hn Hok Hb Hlim Hsum H.
    destruct (RInv_tree_shape c _ W Hn) as [HL HR].
    assert (Vret : returns (verifier_says cr c w pf) = true).
    { unfold verifier_says. destruct Hok as (Hh & Hs & Hshape).
      apply verify_proof_returns_any_length; try assumption.
      - rewrite Hh. reflexivity.
      - rewrite Hs. reflexivity.
      - apply (replica_proof_upgrade_ok c (w_disk w) pf W (conj Hh (conj Hs Hshape)) Hlim Hsum).
      - apply own_roots_lim_of_shape; assumption. }
    destruct (apply_replica_outcome f pf c w c' w' r W Hok H)
      as [[-> _]|[(_ & _ & [->|[Hf|(b & cs & Eb & V & Hf)]])|[->|[C|F]]]];
      [left; reflexivity|left; reflexivity|left; exact (fails_as_returns _ _ Hf Vret)| |
       right; left; reflexivity|right; right; left; exact C|right; right; right; exact F].
    unfold verifier_says in V.
    destruct (verified_nodes_authentic cr Hhash32 Hnonblank bs Hw pf c (w_disk w) cs W Hok V)
      as [(m & _ & _ & _ & _ & Hblk)|[C|F]];
      [|right; right; left; exact C|right; right; right; exact F].
    destruct (Hblk b Eb) as (k & new & Hnodes & Hnew & Hi2 & _).
    left. apply (fails_as_returns _ _ Hf).
    apply (block_offset_returns cr bs (proj1 Hw) (c_tree c) (d_tree (w_disk w)) (db_index b) k new cs HR); try assumption.
    unfold B57, LIM in *. lia.
  Qed.
End ReplicaA.

(* ====================================================================================== *)
(* A1 along histories: sig_ok from creation, hence create_proof returns after any replica history *)
(* ====================================================================================== *)

Section ReplicaHistoryA.
  Variable cr : crypto.
  Hypothesis Hhash32 : forall x, length (cr_hash cr x) = 32%nat.
  Hypothesis Hnonblank : forall x, all_zero (cr_hash cr x) = false.
  Variable bs : list bytes.
  Hypothesis Hw : writer_fits bs.

  Lemma oplog_open_nil_header key oo :
    oplog_open cr key [] = Ok oo -> ht_length (hd_tree (oo_header oo)) = 0.
  Proof.
    unfold oplog_open.
    change (slot_leader cr [] 0 HEADER_SIZE) with (@None leader).
    change (slot_leader cr [] HEADER_SIZE ENTRIES_OFFSET) with (@None leader).
    cbv iota zeta. destruct key as [k|]; [|discriminate]. intros H.
    apply bind_ok in H. destruct H as ([[[o h] ops] fr] & Hf & H).
    apply bind_ok in Hf. destruct Hf as ([[o1 h1] ops1] & Hf & E). injection E as <- <- <- <-.
    change (ENTRIES_OFFSET <? len []) with false in H. injection H as <-. cbn [oo_header].
    unfold oplog_fresh in Hf. apply bind_ok in Hf. destruct Hf as ([bits ops'] & _ & E).
    injection E as _ <- _. reflexivity.
  Qed.

  (* (1) of SoundCore with the signature clause: a fresh replica satisfies RInv and sig_ok *)
  Theorem fresh_replica kp :
    len (enc_header (header_new kp)) < 1073741824 ->
    exists d0 ops0 c0,
      core_open cr (Some kp) false disk_empty = (d0, ops0, Ok c0) /\
      RInv cr bs c0 d0 /\ c_keypair c0 = kp /\ sig_ok (c_tree c0).
  Proof.
    intros Hsmall. destruct (RInv_fresh cr Hhash32 Hnonblank bs kp Hsmall) as (d0 & ops0 & c0 & Ho & W & K).
    exists d0, ops0, c0. split; [exact Ho|]. split; [exact W|]. split; [exact K|].
    apply (core_open_sig cr _ _ _ _ _ _ Ho). intros key oo Hoo. right.
    change (f_content (d_oplog disk_empty)) with (@nil N) in Hoo. exact (oplog_open_nil_header key oo Hoo).
  Qed.

  (* sig_ok is kept by every call of a history (whatever its outcome) *)
  Lemma run_op_sig o c w c' w' ok :
    run_op cr o c w = (c', w', ok) -> sig_ok (c_tree c) -> sig_ok (c_tree c').
  Proof.
    destruct o as [f batch|f pf|i|b h s u|i|]; cbn [run_op]; intros H Hs;
      apply forget_inv in H; destruct H as (r & H & _).
    - exact (core_append_sinv cr f batch _ _ _ _ _ H Hs).
    - exact (core_apply_proof_sinv cr f pf _ _ _ _ _ H Hs).
    - destruct (core_get_quiet i _ _ _ _ _ H) as (-> & _). exact Hs.
    - exact (core_create_proof_sinv b h s u _ _ _ _ _ H Hs).
    - destruct (proj1 (core_missing_nodes_quiet i) _ _ _ _ _ H) as (-> & _). exact Hs.
    - exact (core_make_read_only_sinv cr _ _ _ _ _ H Hs).
  Qed.

  Lemma run_ops_sig ops : forall c w c' w' oks,
    run_ops cr ops c w = (c', w', oks) -> sig_ok (c_tree c) -> sig_ok (c_tree c').
  Proof.
    induction ops as [|o rest IH]; intros c w c' w' oks H Hs.
    - cbn [run_ops] in H. injection H as <- _ _. exact Hs.
    - cbn [run_ops] in H.
      destruct (run_op cr o c w) as [[c1 w1] ok] eqn:S1.
      destruct (run_ops cr rest c1 w1) as [[c2 w2] oks2] eqn:S2.
      injection H as <- _ _. exact (IH _ _ _ _ _ S2 (run_op_sig _ _ _ _ _ _ S1 Hs)).
  Qed.

  (* C09 (creation side) for every state a replica reaches: from a fresh replica, after any replica
     history (ReplicaCor.replica_op; every apply returned Ok), the tree is well formed and create_proof
     returns for every request with fields below 2^40 *)
  Theorem replica_history_tree_wf ops c w c' w' oks :
    RInv cr bs c (w_disk w) -> sig_ok (c_tree c) -> kp_secret (c_keypair c) = None ->
    N.of_nat (length bs) < LIM -> Forall replica_op ops ->
    run_ops cr ops c w = (c', w', oks) -> applies_ok ops oks ->
    (RInv cr bs c' (w_disk w') /\ tree_wf (c_tree c')) \/
    some_collision cr \/ forged_signature cr bs (kp_public (c_keypair c)).
  Proof.
    intros W Hs Hsec Hn Hops H Hoks.
    destruct (replica_history_avail cr Hhash32 Hnonblank bs Hw ops c w c' w' oks W Hsec Hops H Hoks)
      as [(W' & _)|[C|F]]; [left|right; left; exact C|right; right; exact F].
    split; [exact W'|]. apply (RInv_tree_wf cr bs c' _ W' Hn). exact (run_ops_sig ops _ _ _ _ _ H Hs).
  Qed.

  Corollary replica_history_create_proof_returns ops c w c' w' oks block hash seek upgrade c2 w2 r :
    RInv cr bs c (w_disk w) -> sig_ok (c_tree c) -> kp_secret (c_keypair c) = None ->
    N.of_nat (length bs) < LIM -> Forall replica_op ops ->
    run_ops cr ops c w = (c', w', oks) -> applies_ok ops oks ->
    rblock_lim block = true -> rblock_lim hash = true -> rupgrade_lim upgrade = true ->
    core_create_proof block hash seek upgrade c' w' = (c2, w2, r) ->
    (returns r = true /\ c2 = c' /\ w_disk w2 = w_disk w' /\ w_journal w2 = w_journal w') \/
    some_collision cr \/ forged_signature cr bs (kp_public (c_keypair c)).
  Proof.
    intros W Hs Hsec Hn Hops H Hoks Hb Hh Hu Hc.
    destruct (replica_history_tree_wf ops c w c' w' oks W Hs Hsec Hn Hops H Hoks) as [(_ & Hwf)|[C|F]];
      [left|right; left; exact C|right; right; exact F].
    exact (core_create_proof_returns block hash seek upgrade c' w' c2 w2 r Hwf Hb Hh Hu Hc).
  Qed.
End ReplicaHistoryA.

(* ====================================================================================== *)
(* Non-vacuity on the toy instance of SoundCore.v                                           *)
(* ====================================================================================== *)

(* the synced replica (length 6, roots 3 and 9): its tree is well formed, every bounded request returns,
   and the request for the upgrade 0..6 is answered with a proof *)
Example sc_replica_create_proof_returns :
  match fst sc_R1 with
  | Some (c, w) =>
      tree_wf (c_tree c) /\
      (forall block hash seek upgrade c' w' r,
         rblock_lim block = true -> rblock_lim hash = true -> rupgrade_lim upgrade = true ->
         core_create_proof block hash seek upgrade c w = (c', w', r) ->
         returns r = true /\ c' = c /\ w_disk w' = w_disk w /\ w_journal w' = w_journal w) /\
      (exists pf, core_create_proof None None None (Some (mkReqUpgrade 0 6)) c w = (c, w, Ok (Some pf))) /\
      core_create_proof (Some (mkReqBlock 4 0)) None None None c w =
        (c, mkWorld (w_disk w) (w_journal w) (EvGet 4 :: w_events w), Ok None)
  | None => False
  end.
Proof.
  pose proof sc_RInv_synced as HR.
  destruct (fst sc_R1) as [[c w]|] eqn:E; [|destruct HR]. destruct HR as [HR _].
  assert (Hs : sig_ok (c_tree c) /\
               (exists pf, core_create_proof None None None (Some (mkReqUpgrade 0 6)) c w = (c, w, Ok (Some pf))) /\
               core_create_proof (Some (mkReqBlock 4 0)) None None None c w =
                 (c, mkWorld (w_disk w) (w_journal w) (EvGet 4 :: w_events w), Ok None)).
  { vm_compute in E. injection E as <- <-. split; [right; cbn [c_tree t_signature]; discriminate|].
    split; [eexists; vm_compute; reflexivity|vm_compute; reflexivity]. }
  destruct Hs as (Hs & Hup & Hblk).
  assert (Hn : N.of_nat (length sc_blocks) < LIM) by (vm_compute; reflexivity).
  split; [apply (RInv_tree_wf sc_cr sc_blocks c _ HR Hn Hs)|]. split; [|split; assumption].
  intros block hash seek upgrade c' w' r Hb Hh Hu H.
  exact (replica_create_proof_returns sc_cr sc_blocks c w block hash seek upgrade c' w' r HR Hn Hs Hb Hh Hu H).
Qed.

(* first contact (SoundCoreBU.sc_first_contact_proof: block 4 together with the upgrade 0..6) on the fresh
   replica: all hypotheses of apply_replica_outcome / apply_replica_returns hold *)
Example sc_apply_returns_applies :
  match sc_R0, sc_first_contact_proof with
  | Some (c, w), Some pf =>
      RInv sc_cr sc_blocks c (w_disk w) /\ block_upgrade_ok pf /\
      block_lim (p_block pf) = true /\ upgrade_nodes_lim pf /\ announced_sizes_fit c pf /\
      forall f c' w' r,
        core_apply_proof sc_cr f pf c w = (c', w', r) ->
        ((r = Ok true /\ RInv sc_cr sc_blocks c' (w_disk w')) \/
         (c' = c /\ w' = w /\ unchanged_outcome sc_cr pf c w r) \/
         r = Panic frame_msg \/
         some_collision sc_cr \/ forged_signature sc_cr sc_blocks (kp_public (c_keypair c))) /\
        (returns r = true \/ r = Panic frame_msg \/
         some_collision sc_cr \/ forged_signature sc_cr sc_blocks (kp_public (c_keypair c)))
  | _, _ => False
  end.
Proof.
  pose proof sc_block_upgrade_theorem_applies as HX.
  destruct sc_R0 as [[c w]|] eqn:E0; [|destruct HX].
  destruct sc_first_contact_proof as [pf|] eqn:Ep; [|destruct HX].
  destruct HX as (b & u & c1 & w1 & _ & _ & _ & _ & _ & Hok & HR & _).
  assert (Hl : block_lim (p_block pf) = true /\ upgrade_nodes_lim pf /\ announced_sizes_fit c pf).
  { vm_compute in E0. injection E0 as <- <-. vm_compute in Ep. injection Ep as <-.
    split; [vm_compute; reflexivity|]. split.
    - intros u' Hu'. cbn [p_upgrade] in Hu'. injection Hu' as <-. repeat split; vm_compute; reflexivity.
    - intros u' Hu'. cbn [p_upgrade] in Hu'. injection Hu' as <-. vm_compute. discriminate. }
  destruct Hl as (Hb & Hlim & Hsum).
  assert (Hn : N.of_nat (length sc_blocks) < LIM) by (vm_compute; reflexivity).
  do 5 (split; [assumption|]).
  intros f c' w' r H. split.
  - exact (apply_replica_outcome sc_cr sc_hash32 sc_nonblank sc_blocks sc_writer_fits f pf c w c' w' r HR Hok H).
  - exact (apply_replica_returns sc_cr sc_hash32 sc_nonblank sc_blocks sc_writer_fits f pf c w c' w' r
             HR Hn Hok Hb Hlim Hsum H).
Qed.

(* the sum condition cannot be dropped: NoPanic2.sum_condition_needed_refuted (a replica whose byte length
   is close to 2^64: one announced node overflows "byte_length += node.length").  The frame guard is NOT
   excluded by these theorems: excluding it needs a bound on the encoded size of the logged entry (it
   carries every node of the accepted changeset and the signature) and of the header (it carries the
   keys, whose sizes the model does not fix); neither is among the hypotheses. *)

Print Assumptions verify_proof_hashed.
Print Assumptions log_and_commit_cases.
Print Assumptions maybe_flush_cases.
Print Assumptions block_offset_returns.
Print Assumptions RInv_tree_wf.
Print Assumptions replica_create_proof_returns.
Print Assumptions RInv_flushable.
Print Assumptions apply_replica_outcome.
Print Assumptions apply_replica_returns.
Print Assumptions apply_replica_gates_return.
Print Assumptions fresh_replica.
Print Assumptions replica_history_tree_wf.
Print Assumptions replica_history_create_proof_returns.
Print Assumptions sc_replica_create_proof_returns.
Print Assumptions sc_apply_returns_applies.

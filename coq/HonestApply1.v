(* HonestApply1.v -- C03 at the core level for every well-formed request, part 1 (tree level):
   a changeset accepted by the verifier all of whose nodes are the writer's reference nodes
     - consists of nodes that lie inside the tree of the new length (nodes_authentic),
     - places the received block at the writer's byte offset (offset_value),
   WITHOUT any appeal to the soundness reduction (no collision / forged-signature clause). *)
From HC Require Import Base NMap Codec CodecFacts Crypto FlatTree Storage Bitfield Oplog Merkle Core.
From HC Require Import FlatTreeFacts Sound NoPanic TreeRef OffsetFacts CoreFacts Refine Replicate Replicate2 Replicate2Z Replicate2D Replicate2E.
From HC Require Import Unified1 SoundCoreLib SoundCore SoundCoreUp SoundCoreBU ReplicaDisk1 ReplicaDisk2 ReplicaDisk3.
From HC Require Import AcceptAll1 AcceptAll2 AcceptAll3 AcceptAll AcceptAllCore1 AcceptAllClo AcceptAllClo2 AcceptAllCore2.
From Coq Require Import FMapPositive ZifyN ZifyNat ZifyBool.
Ltac Zify.zify_post_hook ::= Z.div_mod_to_equations.
Arguments N.add : simpl never.
Arguments N.sub : simpl never.
Arguments N.mul : simpl never.
Arguments N.div : simpl never.
Arguments N.modulo : simpl never.
Arguments N.pow : simpl never.
Arguments N.eqb : simpl never.
Arguments N.ltb : simpl never.
Arguments N.leb : simpl never.
Arguments N.of_nat : simpl never.
Arguments N.to_nat : simpl never.
Arguments N.log2 : simpl never.

(* ====================================================================================== *)
(* 1. The nodes of the changeset lie inside the tree of the new length                      *)
(* ====================================================================================== *)

Lemma in_len_parent m j : in_len m (ft_parent j) -> in_len m j.
Proof.
  rewrite (nd_coord j). set (d := nd_depth j). set (o := ft_offset j).
  rewrite ft_parent_index. replace (N.of_nat d + 1) with (N.of_nat (S d)) by lia.
  rewrite !in_len_index, p2_S. pose proof (p2_pos d) as Hp. intros HH. nia.
Qed.

Section Authentic.
  Variable cr : crypto.
  Variable bs : list bytes.

  Lemma root_in_len m x : In x (ref_roots cr bs m) -> in_len m (n_index x).
  Proof.
    intros Hx. rewrite ref_roots_rrl in Hx. apply in_map_iff in Hx. destruct Hx as ([D P] & <- & Hin).
    unfold rn. cbn [fst snd]. rewrite ref_node_index. apply in_len_index.
    apply in_rev in Hin. apply rrl0_in in Hin. apply is_root_bounds in Hin. tauto.
  Qed.

  Lemma in_idx_in_len m (l : list node) j :
    (forall x, In x l -> in_len m (n_index x)) -> In j (map n_index l) -> in_len m j.
  Proof. intros H Hj. apply in_map_iff in Hj. destruct Hj as (x & <- & Hx). apply H, Hx. Qed.

  (* every node of an accepted changeset is a root of the changeset, was stored before, or has its parent
     later in the list: so all of them lie inside the tree spanned by the roots *)
  Theorem nodes_in_len t tf pf pk cs r m :
    verify_proof cr t tf pf pk = Ok cs ->
    (forall j n, required_node t tf j = Ok n -> in_len r j) -> r <= m ->
    (forall x, In x (cs_roots cs) -> in_len m (n_index x)) ->
    forall x, In x (cs_nodes cs) -> in_len m (n_index x).
  Proof.
    intros Hv Hold Hrm Hroots.
    pose proof (verify_proof_parent_later cr t tf pf pk cs Hv) as PL.
    assert (G : forall l2 l1, cs_nodes cs = l1 ++ l2 -> forall x, In x l2 -> in_len m (n_index x)).
    { induction l2 as [|y l2 IH]; intros l1 E x Hx; [destruct Hx|].
      assert (IH' : forall z, In z l2 -> in_len m (n_index z)).
      { apply (IH (l1 ++ [y])). rewrite <- app_assoc. exact E. }
      destruct Hx as [<-|Hx]; [|apply IH', Hx].
      destruct (PL l1 y l2 E) as [Hr|[(n & Hn)|Hp]].
      - apply (in_idx_in_len m (cs_roots cs)); assumption.
      - apply (in_len_mono r m _ Hrm). apply (Hold _ n Hn).
      - apply in_len_parent. apply (in_idx_in_len m l2); assumption. }
    apply (G (cs_nodes cs) []). reflexivity.
  Qed.

  Theorem nodes_authentic t tf pf pk cs r m :
    verify_proof cr t tf pf pk = Ok cs ->
    (forall j n, required_node t tf j = Ok n -> in_len r j) -> r <= m ->
    cs_roots cs = ref_roots cr bs m ->
    Forall (is_ref cr bs) (cs_nodes cs) ->
    Forall (authentic cr bs m) (cs_nodes cs).
  Proof.
    intros Hv Hold Hrm Er Href. apply Forall_forall. intros x Hx. split.
    - rewrite Forall_forall in Href. apply (Href x Hx).
    - apply (nodes_in_len t tf pf pk cs r m Hv Hold Hrm); [|exact Hx].
      intros y Hy. rewrite Er in Hy. apply root_in_len, Hy.
  Qed.
End Authentic.

(* ====================================================================================== *)
(* 2. The byte offset of the received block                                                 *)
(* ====================================================================================== *)

Section OffsetValue.
  Variable cr : crypto.
  Variable bs : list bytes.

  Lemma ref_len_prefix d a :
    prefix_size bs (a * p2 d) + n_length (ref_node cr bs d a) = prefix_size bs ((a + 1) * p2 d).
  Proof. rewrite ref_node_length. apply ref_size_prefix. Qed.

  (* a parent's size minus its right child's size is the left child's size *)
  Lemma ref_left_size d a :
    N.odd a = true ->
    prefix_size bs (a / 2 * p2 (S d)) + (n_length (ref_node cr bs (S d) (a / 2)) - n_length (ref_node cr bs d a))
    = prefix_size bs (a * p2 d).
  Proof.
    intros Ho. rewrite FlatTreeFacts.odd_mod in Ho.
    assert (Ea : a = 2 * (a / 2) + 1) by lia. set (q := a / 2) in *. clearbody q. subst a. clear Ho.
    pose proof (ref_len_prefix (S d) q) as P1. pose proof (ref_len_prefix d (2 * q + 1)) as P2.
    pose proof (ref_len_prefix d (2 * q)) as P3.
    rewrite p2_S in *.
    replace (q * (2 * p2 d)) with (2 * q * p2 d) in * by lia.
    replace ((q + 1) * (2 * p2 d)) with ((2 * q + 1 + 1) * p2 d) in * by lia.
    (* the parent's length is the sum of the two children's lengths *)
    assert (E : n_length (ref_node cr bs (S d) q) = n_length (ref_node cr bs d (2 * q)) + n_length (ref_node cr bs d (2 * q + 1))).
    { cbn [ref_node]. unfold parent_node. cbn [n_length]. reflexivity. }
    lia.
  Qed.

  (* the walk over reference nodes: the offset accumulated is the distance from the first leaf under the
     last matched node to the block *)
  Lemma walk_value : forall nodes d a off isr par base,
    Forall (is_ref cr bs) nodes ->
    ((par = None /\ base = prefix_size bs (a * p2 d)) \/
     exists d0 a0, par = Some (ref_node cr bs d0 a0) /\ d = S d0 /\ a = a0 / 2 /\ isr = N.odd a0 /\
                   base = prefix_size bs (a0 * p2 d0)) ->
    exists off' par',
      cs_path_walk nodes (it_at (N.of_nat d) a) off isr par = Ok (off', par') /\
      ((par' = par /\ off' = off /\ forall n, In n nodes -> n_index n <> ft_index (N.of_nat d) a) \/
       exists l1 x l2 dx ax, nodes = l1 ++ x :: l2 /\ par' = Some x /\ x = ref_node cr bs dx ax /\
                       (forall n, In n l2 -> n_index n <> ft_parent (n_index x)) /\
                       off' + prefix_size bs (ax * p2 dx) = off + base).
  Proof.
    induction nodes as [|n rest IH]; intros d a off isr par base Href Hpar.
    - cbn [cs_path_walk]. exists off, par. split; [reflexivity|]. left. split; [reflexivity|]. split; [reflexivity|intros n []].
    - inversion Href as [|? ? Hn Hrest]; subst. cbn [cs_path_walk].
      change (it_index (it_at (N.of_nat d) a)) with (ft_index (N.of_nat d) a).
      destruct (N.eqb_spec (n_index n) (ft_index (N.of_nat d) a)) as [E|E].
      + assert (En : n = ref_node cr bs d a) by (rewrite Hn, E; apply ref_at_index).
        assert (Hoff : exists off1, (if isr
                  then match par with
                       | Some p => d0 <- sub64 "node.length - parent.length" (n_length n) (n_length p) ;; Ok (off + d0)
                       | None => Ok off
                       end
                  else Ok off) = Ok off1 /\ off1 + prefix_size bs (a * p2 d) = off + base).
        { destruct Hpar as [[-> ->]|(d0 & a0 & -> & -> & -> & -> & ->)].
          - exists off. split; [destruct isr; reflexivity|reflexivity].
          - destruct (N.odd a0) eqn:Ho.
            + unfold sub64. rewrite En. pose proof (ref_parent_ge cr bs d0 a0) as G.
              destruct (N.leb_spec (n_length (ref_node cr bs d0 a0)) (n_length (ref_node cr bs (S d0) (a0 / 2)))) as [_|L]; [|lia].
              cbn [bind]. eexists. split; [reflexivity|].
              pose proof (ref_left_size d0 a0 Ho). lia.
            + exists off. split; [reflexivity|]. f_equal.
              rewrite FlatTreeFacts.odd_mod in Ho. rewrite p2_S. f_equal.
              assert (Ea : a0 = 2 * (a0 / 2)) by lia. rewrite Ea at 2. lia. }
        destruct Hoff as (off1 & -> & Hbase). cbn [bind].
        rewrite it_parent_at. replace (N.of_nat d + 1) with (N.of_nat (S d)) by lia.
        destruct (IH (S d) (a / 2) off1 (it_is_right (it_at (N.of_nat d) a)) (Some n) (prefix_size bs (a * p2 d)) Hrest)
          as (off' & par' & Hw & Hres).
        { right. exists d, a. rewrite En. split; [reflexivity|]. split; [reflexivity|]. split; [reflexivity|].
          split; [apply it_is_right_at|reflexivity]. }
        exists off', par'. split; [exact Hw|]. right.
        destruct Hres as [(-> & -> & Hno)|(l1 & x & l2 & dx & ax & -> & -> & Ex & Hl2 & Hv)].
        * exists [], n, rest, d, a. split; [reflexivity|]. split; [reflexivity|]. split; [exact En|]. split; [|exact Hbase].
          intros m Hm. rewrite E, ft_parent_index. replace (N.of_nat d + 1) with (N.of_nat (S d)) by lia. apply Hno, Hm.
        * exists (n :: l1), x, l2, dx, ax. split; [reflexivity|]. split; [reflexivity|]. split; [exact Ex|].
          split; [exact Hl2|]. lia.
      + destruct (IH d a off isr par base Hrest Hpar) as (off' & par' & Hw & Hres).
        exists off', par'. split; [exact Hw|].
        destruct Hres as [(-> & -> & Hno)|(l1 & x & l2 & dx & ax & -> & -> & Ex & Hl2 & Hv)].
        * left. split; [reflexivity|]. split; [reflexivity|]. intros m [<-|Hm]; [exact E|apply Hno, Hm].
        * right. exists (n :: l1), x, l2, dx, ax. split; [reflexivity|]. split; [reflexivity|]. split; [exact Ex|].
          split; [exact Hl2|exact Hv].
  Qed.

  Variable t : mtree.
  Variable tf : file.
  Variable r : N.
  Hypothesis Hclosed : ClosedR t tf.
  Hypothesis Hroots : t_roots t = ref_roots cr bs r.
  Hypothesis Hbl : t_byte_length t = prefix_size bs r.
  Hypothesis Hlen : t_length t = r.
  Hypothesis Hsound : forall j n, required_node t tf j = Ok n -> n = ref_at cr bs j /\ in_len r j.
  Hypothesis H64 : 2 * r <= u64_max.
  Hypothesis Hfit : sumN (map len bs) <= u64_max.

  (* the block is written at the writer's offset *)
  Theorem offset_value i cs m :
    i * 2 <= u64_max ->
    Forall (is_ref cr bs) (cs_nodes cs) -> In (ref_node cr bs 0 i) (cs_nodes cs) ->
    cs_roots cs = ref_roots cr bs m ->
    (forall l1 x l2, cs_nodes cs = l1 ++ x :: l2 ->
       In (n_index x) (map n_index (cs_roots cs)) \/ navail t tf (n_index x) \/
       In (ft_parent (n_index x)) (map n_index l2)) ->
    byte_offset_in_changeset t tf i cs = Ok (prefix_size bs i).
  Proof.
    intros Hi Href Hleaf Er Hord. unfold byte_offset_in_changeset.
    destruct (N.eqb_spec (t_length t) i) as [E|_]; [rewrite Hbl, <- Hlen, E; reflexivity|].
    rewrite NoPanic.mul64_ok by lia. cbn [bind]. rewrite it_new_leaf2.
    destruct (walk_value (cs_nodes cs) 0 i 0 false None (prefix_size bs (i * p2 0)) Href (or_introl (conj eq_refl eq_refl)))
      as (off' & par' & -> & Hres).
    cbn [bind].
    destruct Hres as [(-> & _ & Hno)|(l1 & x & l2 & dx & ax & El & -> & Ex & Hl2 & Hv)].
    { exfalso. apply (Hno _ Hleaf). rewrite ref_node_index. reflexivity. }
    rewrite p2_0, N.mul_1_r, N.add_0_l in Hv.
    assert (Ix : n_index x = ft_index (N.of_nat dx) ax) by (rewrite Ex; apply ref_node_index).
    destruct (position_of (n_index x) (cs_roots cs) 0) as [k|] eqn:Epos.
    - rewrite Er in Epos |- *.
      destruct (position_of_roots cr bs Hfit _ m k Epos) as (D & P & EI & _ & Hs).
      rewrite Ix in EI. apply ft_index_inj in EI. destruct EI as [E1 E2].
      assert (dx = D) by lia. subst D P. rewrite Hs. f_equal. lia.
    - destruct (Hord l1 x l2 El) as [Hr|[Hav|Hlater]].
      + destruct (position_of_in (n_index x) (cs_roots cs) 0 Hr) as (k & Ek). rewrite Ek in Epos. discriminate Epos.
      + destruct Hav as (n & Hn). destruct (Hsound _ _ Hn) as [_ Hin].
        rewrite Ix in Hn, Hin |- *. apply in_len_index in Hin.
        rewrite (byte_offset_node cr bs t tf r dx ax Hroots); [cbn [bind]; f_equal; lia| |exact Hin|].
        * unfold u64_max in H64. change (2 ^ 63) with 9223372036854775808. lia.
        * apply (closed_path_reads cr bs t tf r Hclosed Hroots Hsound H64). exists n. exact Hn.
      + exfalso. apply in_map_iff in Hlater. destruct Hlater as (m' & Em & Hm). apply (Hl2 m' Hm Em).
  Qed.
End OffsetValue.

Print Assumptions nodes_authentic.
Print Assumptions offset_value.

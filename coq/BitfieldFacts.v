(* BitfieldFacts.v — facts about the bitfield model (Bitfield.v) for unbounded indices:
   range writes, dirty-page tracking, page (de)serialisation, the contiguous-length hint. *)
From HC Require Import Base NMap Storage Bitfield Core.
From Coq Require Import FMapPositive FMapFacts.
From Coq Require Import List NArith ZArith Lia Bool PeanoNat.
From Coq Require Import ZifyN ZifyNat ZifyBool.
Ltac Zify.zify_post_hook ::= Z.div_mod_to_equations.
Arguments N.add : simpl never.
Arguments N.sub : simpl never.
Arguments N.mul : simpl never.
Arguments N.div : simpl never.
Arguments N.modulo : simpl never.
Arguments N.pow : simpl never.
Arguments N.eqb : simpl never.
Arguments N.ltb : simpl never.
Arguments N.leb : simpl never.
Arguments N.min : simpl never.
Arguments N.testbit : simpl never.

(* ------------------------------------------------------------------ *)
(** * 0. membership after single-key updates *)

Lemma nm_mem_set (m : nmap unit) i j :
  nm_mem j (nm_set i tt m) = (j =? i) || nm_mem j m.
Proof.
  unfold nm_mem. rewrite nm_get_set. destruct (j =? i); reflexivity.
Qed.

Lemma nm_mem_del (m : nmap unit) i j :
  nm_mem j (nm_del i m) = negb (j =? i) && nm_mem j m.
Proof.
  unfold nm_mem. rewrite nm_get_del. destruct (j =? i); reflexivity.
Qed.

Lemma nm_mem_empty (j : N) : nm_mem j (@nm_empty unit) = false.
Proof. unfold nm_mem. rewrite nm_get_empty. reflexivity. Qed.

(* ------------------------------------------------------------------ *)
(** * 1. range writes *)

Lemma nm_mem_bits_set n : forall m i v j,
  nm_mem j (bits_set m i n v) =
  if (i <=? j) && (j <? i + N.of_nat n) then v else nm_mem j m.
Proof.
  induction n as [|n IH]; intros m i v j.
  - cbn [bits_set]. assert ((i <=? j) && (j <? i + N.of_nat 0) = false) as -> by lia. reflexivity.
  - cbn [bits_set]. rewrite IH.
    destruct (N.eq_dec j i) as [->|Hne].
    + assert ((i + 1 <=? i) && (i <? i + 1 + N.of_nat n) = false) as -> by lia.
      assert ((i <=? i) && (i <? i + N.of_nat (S n)) = true) as -> by lia.
      destruct v; [rewrite nm_mem_set | rewrite nm_mem_del]; rewrite N.eqb_refl; reflexivity.
    + assert ((i + 1 <=? j) && (j <? i + 1 + N.of_nat n) =
              (i <=? j) && (j <? i + N.of_nat (S n))) as -> by lia.
      destruct ((i <=? j) && (j <? i + N.of_nat (S n))); [reflexivity|].
      assert (j =? i = false) as E by lia.
      destruct v; [rewrite nm_mem_set | rewrite nm_mem_del]; rewrite E; reflexivity.
Qed.

Lemma bits_differ_false n : forall m i v,
  bits_differ m i n v = false ->
  forall j, i <= j < i + N.of_nat n -> nm_mem j m = v.
Proof.
  induction n as [|n IH]; intros m i v H j Hj.
  - lia.
  - cbn [bits_differ] in H. apply orb_false_elim in H. destruct H as [H1 H2].
    destruct (N.eq_dec j i) as [->|Hne].
    + destruct (nm_mem i m), v; cbn in H1; congruence.
    + apply (IH m (i + 1) v H2). lia.
Qed.

Lemma mem_N_In x l : mem_N x l = true <-> In x l.
Proof.
  unfold mem_N. rewrite existsb_exists. split.
  - intros (y & Hy & E). apply N.eqb_eq in E. subst. exact Hy.
  - intros H. exists x. split; [exact H | apply N.eqb_refl].
Qed.

(* the fuel invariant: the remaining length fits in [fuel] pages counted from the page of [s] *)
Lemma bf_get_set_pages fuel : forall b s l v i,
  l <= N.of_nat fuel * PAGE_BITS - s mod PAGE_BITS ->
  bf_get (bf_set_pages fuel b s l v) i =
  if (s <=? i) && (i <? s + l) then v else bf_get b i.
Proof.
  induction fuel as [|f IH]; intros b s l v i Hl.
  - unfold PAGE_BITS in Hl. cbn [bf_set_pages].
    assert ((s <=? i) && (i <? s + l) = false) as -> by lia. reflexivity.
  - cbn [bf_set_pages]. destruct (N.eqb_spec l 0) as [->|Hl0].
    + assert ((s <=? i) && (i <? s + 0) = false) as -> by lia. reflexivity.
    + cbv zeta.
      set (n := N.min l (PAGE_BITS - s mod PAGE_BITS)).
      rewrite IH.
      * unfold bf_get at 1. cbn [bf_bits]. rewrite nm_mem_bits_set, N2Nat.id.
        fold (bf_get b i).
        assert (Hn : n <= l) by (unfold n; lia).
        destruct (N.leb_spec s i) as [Hsi|Hsi]; cbn [andb].
        -- destruct (N.ltb_spec i (s + n)) as [Hin|Hin].
           ++ assert ((s + n <=? i) && (i <? s + n + (l - n)) = false) as -> by lia.
              assert (i <? s + l = true) as -> by lia. reflexivity.
           ++ assert ((s + n <=? i) = true) as -> by lia. cbn [andb].
              replace (s + n + (l - n)) with (s + l) by lia.
              destruct (i <? s + l); reflexivity.
        -- assert ((s + n <=? i) = false) as -> by lia. cbn [andb]. reflexivity.
      * unfold n, PAGE_BITS in *. lia.
Qed.

Lemma bf_get_set_range b s l v i :
  bf_get (bf_set_range b s l v) i =
  if (s <=? i) && (i <? s + l) then v else bf_get b i.
Proof.
  unfold bf_set_range. apply bf_get_set_pages.
  unfold PAGE_BITS. lia.
Qed.

Lemma bf_get_apply b u i :
  bf_get (bf_apply b u) i =
  if (bu_start u <=? i) && (i <? bu_start u + bu_length u)
  then negb (bu_drop u) else bf_get b i.
Proof. unfold bf_apply. apply bf_get_set_range. Qed.

(* ------------------------------------------------------------------ *)
(** * 3. page serialisation *)

Definition page_bit (bs : bytes) (j : N) : bool :=
  N.testbit (nth (N.to_nat (j / 8)) bs 0) (j mod 8).

Lemma length_nrange n : forall off, length (nrange off n) = n.
Proof. induction n as [|n IH]; intros off; cbn [nrange length]; [reflexivity | now rewrite IH]. Qed.

Lemma nth_nrange n : forall off k d, (k < n)%nat -> nth k (nrange off n) d = off + N.of_nat k.
Proof.
  induction n as [|n IH]; intros off k d Hk; [lia|].
  cbn [nrange]. destruct k as [|k].
  - cbn [nth]. lia.
  - cbn [nth]. rewrite IH by lia. lia.
Qed.

Lemma nth_map_nrange (f : N -> N) n off k d :
  (k < n)%nat -> nth k (map f (nrange off n)) d = f (off + N.of_nat k).
Proof.
  intros Hk. rewrite (nth_indep _ d (f 0)) by (rewrite map_length, length_nrange; exact Hk).
  rewrite map_nth. rewrite nth_nrange by exact Hk. reflexivity.
Qed.

Lemma nrange_app a : forall off b, nrange off (a + b) = nrange off a ++ nrange (off + N.of_nat a) b.
Proof.
  induction a as [|a IH]; intros off b.
  - cbn [plus nrange app]. f_equal. lia.
  - cbn [plus nrange app]. rewrite IH. do 3 f_equal. lia.
Qed.

(* bits_byte on explicit booleans *)
Definition byte_of (b0 b1 b2 b3 b4 b5 b6 b7 : bool) : N :=
  let bit (b : bool) t := if b then 2 ^ t else 0 in
  bit b0 0 + bit b1 1 + bit b2 2 + bit b3 3 + bit b4 4 + bit b5 5 + bit b6 6 + bit b7 7.

Lemma bits_byte_byte_of m k :
  bits_byte m k =
  byte_of (nm_mem (8 * k + 0) m) (nm_mem (8 * k + 1) m) (nm_mem (8 * k + 2) m)
          (nm_mem (8 * k + 3) m) (nm_mem (8 * k + 4) m) (nm_mem (8 * k + 5) m)
          (nm_mem (8 * k + 6) m) (nm_mem (8 * k + 7) m).
Proof. reflexivity. Qed.

Lemma byte_of_lt b0 b1 b2 b3 b4 b5 b6 b7 : byte_of b0 b1 b2 b3 b4 b5 b6 b7 < 256.
Proof. destruct b0, b1, b2, b3, b4, b5, b6, b7; vm_compute; reflexivity. Qed.

Lemma byte_of_testbit b0 b1 b2 b3 b4 b5 b6 b7 t :
  N.testbit (byte_of b0 b1 b2 b3 b4 b5 b6 b7) t =
  if t =? 0 then b0 else if t =? 1 then b1 else if t =? 2 then b2 else if t =? 3 then b3
  else if t =? 4 then b4 else if t =? 5 then b5 else if t =? 6 then b6 else if t =? 7 then b7
  else false.
Proof.
  destruct (N.lt_ge_cases t 8) as [Ht|Ht].
  - assert (t = 0 \/ t = 1 \/ t = 2 \/ t = 3 \/ t = 4 \/ t = 5 \/ t = 6 \/ t = 7) as Hc by lia.
    destruct Hc as [->|[->|[->|[->|[->|[->|[->| ->]]]]]]];
      destruct b0, b1, b2, b3, b4, b5, b6, b7; vm_compute; reflexivity.
  - assert (t =? 0 = false) as -> by lia. assert (t =? 1 = false) as -> by lia.
    assert (t =? 2 = false) as -> by lia. assert (t =? 3 = false) as -> by lia.
    assert (t =? 4 = false) as -> by lia. assert (t =? 5 = false) as -> by lia.
    assert (t =? 6 = false) as -> by lia. assert (t =? 7 = false) as -> by lia.
    pose proof (byte_of_lt b0 b1 b2 b3 b4 b5 b6 b7) as Hlt.
    destruct (byte_of b0 b1 b2 b3 b4 b5 b6 b7) as [|q] eqn:E; [apply N.bits_0|].
    apply N.bits_above_log2.
    apply N.lt_le_trans with 8; [|exact Ht].
    apply N.log2_lt_pow2; [lia|]. exact Hlt.
Qed.

Lemma bits_byte_lt m k : bits_byte m k < 256.
Proof. rewrite bits_byte_byte_of. apply byte_of_lt. Qed.

Lemma testbit_bits_byte m k t :
  t < 8 -> N.testbit (bits_byte m k) t = nm_mem (8 * k + t) m.
Proof.
  intros Ht. rewrite bits_byte_byte_of, byte_of_testbit.
  assert (t = 0 \/ t = 1 \/ t = 2 \/ t = 3 \/ t = 4 \/ t = 5 \/ t = 6 \/ t = 7) as Hc by lia.
  destruct Hc as [->|[->|[->|[->|[->|[->|[->| ->]]]]]]]; reflexivity.
Qed.

Lemma testbit_bits_byte_high m k t : 8 <= t -> N.testbit (bits_byte m k) t = false.
Proof.
  intros Ht. rewrite bits_byte_byte_of, byte_of_testbit.
  assert (t =? 0 = false) as -> by lia. assert (t =? 1 = false) as -> by lia.
  assert (t =? 2 = false) as -> by lia. assert (t =? 3 = false) as -> by lia.
  assert (t =? 4 = false) as -> by lia. assert (t =? 5 = false) as -> by lia.
  assert (t =? 6 = false) as -> by lia. assert (t =? 7 = false) as -> by lia.
  reflexivity.
Qed.

Lemma length_page_bytes m p : length (page_bytes m p) = 4096%nat.
Proof. unfold page_bytes. rewrite map_length, length_nrange. reflexivity. Qed.

Lemma bytes_ok_map_bits_byte m l : bytes_ok (map (bits_byte m) l) = true.
Proof.
  unfold bytes_ok. rewrite forallb_forall. intros x Hx.
  apply in_map_iff in Hx. destruct Hx as (k & <- & _).
  unfold byte_ok. pose proof (bits_byte_lt m k). lia.
Qed.

Lemma bytes_ok_page_bytes m p : bytes_ok (page_bytes m p) = true.
Proof. unfold page_bytes. apply bytes_ok_map_bits_byte. Qed.

Lemma page_bit_page_bytes m p j :
  j < PAGE_BITS -> page_bit (page_bytes m p) j = nm_mem (p * PAGE_BITS + j) m.
Proof.
  intros Hj. unfold page_bit, page_bytes.
  assert (HP : N.to_nat PAGE_BYTES = 4096%nat) by reflexivity.
  rewrite nth_map_nrange by (unfold PAGE_BITS in Hj; rewrite HP; lia).
  rewrite testbit_bits_byte by lia.
  f_equal. unfold PAGE_BYTES, PAGE_BITS in *. lia.
Qed.

(* loading *)
Lemma nm_mem_byte_bits t : forall m base byte i,
  nm_mem i (byte_bits m base byte t) =
  nm_mem i m || ((base <=? i) && (i <? base + N.of_nat t) && N.testbit byte (i - base)).
Proof.
  induction t as [|t IH]; intros m base byte i.
  - cbn [byte_bits]. assert ((base <=? i) && (i <? base + N.of_nat 0) = false) as -> by lia.
    cbn [andb]. rewrite orb_false_r. reflexivity.
  - cbn [byte_bits]. rewrite IH.
    assert (Hd : forall x, N.testbit (byte / 2) x = N.testbit byte (x + 1)).
    { intros x. rewrite N.div2_bits, N.add_1_r. reflexivity. }
    rewrite Hd.
    destruct (N.eq_dec i base) as [->|Hne].
    + assert ((base + 1 <=? base) = false) as -> by lia.
      assert ((base <=? base) && (base <? base + N.of_nat (S t)) = true) as -> by lia.
      cbn [andb]. rewrite orb_false_r. replace (base - base) with 0 by lia.
      destruct (N.testbit byte 0).
      * rewrite nm_mem_set, N.eqb_refl, orb_true_r. reflexivity.
      * rewrite orb_false_r. reflexivity.
    + assert (Hm : nm_mem i (if N.testbit byte 0 then nm_set base tt m else m) = nm_mem i m).
      { destruct (N.testbit byte 0); [|reflexivity].
        rewrite nm_mem_set. assert (i =? base = false) as -> by lia. reflexivity. }
      rewrite Hm.
      assert ((base + 1 <=? i) && (i <? base + 1 + N.of_nat t) =
              (base <=? i) && (i <? base + N.of_nat (S t))) as -> by lia.
      destruct ((base <=? i) && (i <? base + N.of_nat (S t))) eqn:E; cbn [andb]; [|reflexivity].
      replace (i - (base + 1) + 1) with (i - base) by lia. reflexivity.
Qed.

(* holds for arbitrary byte values: only the low 8 bits of a "byte" are looked at on both sides *)
Lemma load_bits_spec_gen data : forall m0 k i,
  nm_mem i (load_bits m0 k data) =
  nm_mem i m0 || ((8 * k <=? i) && (i <? 8 * (k + len data)) &&
                  N.testbit (nth (N.to_nat (i / 8 - k)) data 0) (i mod 8)).
Proof.
  induction data as [|b r IH]; intros m0 k i.
  - cbn [load_bits]. unfold len. cbn [length].
    assert ((8 * k <=? i) && (i <? 8 * (k + N.of_nat 0)) = false) as -> by lia.
    cbn [andb]. rewrite orb_false_r. reflexivity.
  - cbn [load_bits]. rewrite IH.
    assert (Hm : nm_mem i (if b =? 0 then m0 else byte_bits m0 (8 * k) b 8) =
                 nm_mem i m0 || ((8 * k <=? i) && (i <? 8 * k + 8) && N.testbit b (i - 8 * k))).
    { destruct (N.eqb_spec b 0) as [->|Hb].
      - rewrite N.bits_0, andb_false_r, orb_false_r. reflexivity.
      - rewrite nm_mem_byte_bits. reflexivity. }
    rewrite Hm. unfold len. cbn [length]. rewrite <- orb_assoc. f_equal.
    destruct (N.lt_ge_cases i (8 * k)) as [H1|H1].
    + assert ((8 * k <=? i) = false) as -> by lia.
      assert ((8 * (k + 1) <=? i) = false) as -> by lia. reflexivity.
    + destruct (N.lt_ge_cases i (8 * k + 8)) as [H2|H2].
      * assert ((8 * (k + 1) <=? i) = false) as -> by lia.
        assert ((8 * k <=? i) = true) as -> by lia.
        assert ((i <? 8 * k + 8) = true) as -> by lia.
        assert ((i <? 8 * (k + N.of_nat (S (length r)))) = true) as -> by lia.
        cbn [andb]. rewrite orb_false_r.
        replace (N.to_nat (i / 8 - k)) with 0%nat by lia. cbn [nth].
        f_equal. lia.
      * assert ((i <? 8 * k + 8) = false) as -> by lia.
        assert ((8 * k <=? i) = true) as -> by lia.
        assert ((8 * (k + 1) <=? i) = true) as -> by lia.
        cbn [andb orb].
        replace (8 * (k + 1 + N.of_nat (length r))) with (8 * (k + N.of_nat (S (length r)))) by lia.
        replace (N.to_nat (i / 8 - k)) with (S (N.to_nat (i / 8 - (k + 1)))) by lia.
        cbn [nth]. reflexivity.
Qed.

Lemma load_bits_spec data m0 k i :
  bytes_ok data = true ->
  nm_mem i (load_bits m0 k data) =
  nm_mem i m0 || ((8 * k <=? i) && (i <? 8 * (k + len data)) &&
                  N.testbit (nth (N.to_nat (i / 8 - k)) data 0) (i mod 8)).
Proof. intros _. apply load_bits_spec_gen. Qed.

(* the concatenation of consecutive pages is the byte image of the whole set *)
Lemma concat_pages_gen (f : N -> N) (w : nat) n : forall p0,
  concat (map (fun p => map f (nrange (p * N.of_nat w) w)) (nrange p0 n)) =
  map f (nrange (p0 * N.of_nat w) (n * w)).
Proof.
  induction n as [|n IH]; intros p0.
  - reflexivity.
  - cbn [nrange map concat]. rewrite IH.
    replace (S n * w)%nat with (w + n * w)%nat by lia.
    rewrite nrange_app, map_app. do 3 f_equal. lia.
Qed.

Lemma concat_page_bytes m n :
  concat (map (page_bytes m) (nrange 0 n)) =
  map (bits_byte m) (nrange 0 (n * 4096)).
Proof.
  pose proof (concat_pages_gen (bits_byte m) 4096 n 0) as H.
  replace (0 * N.of_nat 4096) with 0 in H by lia.
  rewrite <- H. f_equal.
Qed.

Lemma load_page_bytes m n i :
  nm_mem i (load_bits nm_empty 0 (concat (map (page_bytes m) (nrange 0 n)))) =
  (i <? N.of_nat n * PAGE_BITS) && nm_mem i m.
Proof.
  rewrite load_bits_spec_gen, nm_mem_empty, concat_page_bytes. cbn [orb].
  unfold len. rewrite map_length, length_nrange.
  unfold PAGE_BITS.
  destruct (N.ltb_spec i (N.of_nat n * 32768)) as [Hi|Hi].
  - assert ((8 * 0 <=? i) && (i <? 8 * (0 + N.of_nat (n * 4096))) = true) as -> by lia.
    cbn [andb]. rewrite nth_map_nrange by lia.
    rewrite testbit_bits_byte by lia. f_equal. lia.
  - assert ((i <? 8 * (0 + N.of_nat (n * 4096))) = false) as -> by lia.
    rewrite andb_false_r. reflexivity.
Qed.

(* ------------------------------------------------------------------ *)
(** * 4. contiguous length *)

Module PMP := FMapFacts.WProperties PositiveMap.

Definition exact_contig (b : bitfield) (c : N) : Prop :=
  (forall i, i < c -> bf_get b i = true) /\ bf_get b c = false.

Lemma exact_contig_unique b c c' : exact_contig b c -> exact_contig b c' -> c = c'.
Proof.
  intros [H1 H2] [H1' H2'].
  destruct (N.lt_trichotomy c c') as [H|[H|H]]; [|exact H|].
  - specialize (H1' c H). congruence.
  - specialize (H1 c' H). congruence.
Qed.

Lemma exact_contig_empty : exact_contig bf_empty 0.
Proof.
  split.
  - intros i Hi. lia.
  - unfold bf_get, bf_empty. cbn [bf_bits]. apply nm_mem_empty.
Qed.

(* pigeonhole: a run of k consecutive members needs k elements *)
Lemma run_le_cardinal k : forall (m : nmap unit) e,
  (forall j, j < N.of_nat k -> nm_mem (e + j) m = true) ->
  (k <= PositiveMap.cardinal m)%nat.
Proof.
  induction k as [|k IH]; intros m e H; [lia|].
  assert (He : nm_mem e m = true).
  { replace e with (e + 0) by lia. apply H. lia. }
  unfold nm_mem, nm_get in He.
  destruct (PositiveMap.find (N.succ_pos e) m) as [v|] eqn:Ef; [|discriminate].
  set (x := N.succ_pos e) in *.
  assert (Hc : PositiveMap.cardinal m = S (PositiveMap.cardinal (PositiveMap.remove x m))).
  { apply (PMP.cardinal_2 (m := PositiveMap.remove x m) (x := x) (e := v)).
    - apply PositiveMap.remove_1. reflexivity.
    - intros y. destruct (Pos.eq_dec x y) as [<-|Hne].
      + rewrite PositiveMap.gss. exact Ef.
      + rewrite PositiveMap.gso by congruence. rewrite PositiveMap.gro by congruence. reflexivity. }
  rewrite Hc. apply le_n_S.
  apply (IH (nm_del e m) (e + 1)).
  intros j Hj. rewrite nm_mem_del.
  assert (e + 1 + j =? e = false) as -> by lia. cbn [negb andb].
  replace (e + 1 + j) with (e + (j + 1)) by lia. apply H. lia.
Qed.

Lemma bf_skip_set_spec fuel : forall b e,
  let c := bf_skip_set fuel b e in
  e <= c /\ (forall i, e <= i < c -> bf_get b i = true) /\
  (bf_get b c = false \/ c = e + N.of_nat fuel).
Proof.
  induction fuel as [|f IH]; intros b e; cbn [bf_skip_set].
  - cbv zeta. split; [lia|]. split; [intros; lia|]. right. lia.
  - cbv zeta. destruct (bf_get b e) eqn:E.
    + destruct (IH b (e + 1)) as (H1 & H2 & H3). split; [lia|]. split.
      * intros i Hi. destruct (N.eq_dec i e) as [->|Hne]; [exact E|]. apply H2. lia.
      * destruct H3 as [H3|H3]; [left; exact H3|right; lia].
    + split; [lia|]. split; [intros; lia|]. left. exact E.
Qed.

(* the fuel [S (cardinal)] always suffices: the loop stops on an index that is not set *)
Lemma bf_skip_set_stops b e :
  let c := bf_skip_set (S (PositiveMap.cardinal (bf_bits b))) b e in
  e <= c /\ (forall i, e <= i < c -> bf_get b i = true) /\ bf_get b c = false.
Proof.
  cbv zeta. destruct (bf_skip_set_spec (S (PositiveMap.cardinal (bf_bits b))) b e) as (H1 & H2 & H3).
  split; [exact H1|]. split; [exact H2|].
  destruct H3 as [H3|H3]; [exact H3|].
  exfalso.
  assert (S (PositiveMap.cardinal (bf_bits b)) <= PositiveMap.cardinal (bf_bits b))%nat; [|lia].
  apply (run_le_cardinal _ (bf_bits b) e).
  intros j Hj. apply H2. lia.
Qed.

Lemma update_contig_exact b u c :
  exact_contig b c -> 0 < bu_length u ->
  exact_contig (bf_apply b u) (update_contig c (bf_apply b u) u).
Proof.
  intros [HA HB] Hl. unfold update_contig.
  set (b' := bf_apply b u). set (s := bu_start u) in *. set (l := bu_length u) in *.
  assert (Hg : forall i, bf_get b' i =
                         if (s <=? i) && (i <? s + l) then negb (bu_drop u) else bf_get b i).
  { intros i. apply bf_get_apply. }
  destruct (bu_drop u) eqn:Ed; cbn [negb] in Hg.
  - destruct (N.ltb_spec s c) as [Hsc|Hsc].
    + split.
      * intros i Hi. rewrite Hg. assert ((s <=? i) && (i <? s + l) = false) as -> by lia.
        apply HA. lia.
      * rewrite Hg. assert ((s <=? s) && (s <? s + l) = true) as -> by lia. reflexivity.
    + split.
      * intros i Hi. rewrite Hg. assert ((s <=? i) && (i <? s + l) = false) as -> by lia.
        apply HA. exact Hi.
      * rewrite Hg. destruct ((s <=? c) && (c <? s + l)); [reflexivity | exact HB].
  - destruct ((c <=? s + l) && (s <=? c)) eqn:Ef.
    + destruct (bf_skip_set_stops b' (s + l)) as (H1 & H2 & H3).
      set (c' := bf_skip_set (S (PositiveMap.cardinal (bf_bits b'))) b' (s + l)) in *.
      split; [|exact H3].
      intros i Hi. destruct (N.lt_ge_cases i (s + l)) as [Hie|Hie].
      * rewrite Hg. destruct ((s <=? i) && (i <? s + l)) eqn:Er; [reflexivity|].
        apply HA. lia.
      * apply H2. lia.
    + split.
      * intros i Hi. rewrite Hg. destruct ((s <=? i) && (i <? s + l)); [reflexivity|].
        apply HA. exact Hi.
      * rewrite Hg. assert ((s <=? c) && (c <? s + l) = false) as -> by lia. exact HB.
Qed.

(* ------------------------------------------------------------------ *)
(** * 2. dirty-page tracking *)

Lemma bf_dirty_set_pages_prefix fuel : forall b s l v,
  exists ext, bf_dirty (bf_set_pages fuel b s l v) = bf_dirty b ++ ext.
Proof.
  induction fuel as [|f IH]; intros b s l v; cbn [bf_set_pages].
  - exists []. now rewrite app_nil_r.
  - destruct (l =? 0).
    + exists []. now rewrite app_nil_r.
    + cbv zeta.
      match goal with |- context[bf_set_pages f ?b1 ?s1 ?l1 v] =>
        destruct (IH b1 s1 l1 v) as (ext & ->) end.
      cbn [bf_dirty].
      match goal with |- context[if ?c then _ else _] => destruct c end.
      * exists ([s / PAGE_BITS] ++ ext). now rewrite app_assoc.
      * exists ext. reflexivity.
Qed.

Lemma bf_dirty_set_pages_sound fuel : forall b s l v i,
  bf_get (bf_set_pages fuel b s l v) i <> bf_get b i ->
  In (i / PAGE_BITS) (bf_dirty (bf_set_pages fuel b s l v)).
Proof.
  induction fuel as [|f IH]; intros b s l v i; cbn [bf_set_pages].
  - intros H. congruence.
  - destruct (l =? 0); [intros H; congruence|].
    cbv zeta.
    set (n := N.min l (PAGE_BITS - s mod PAGE_BITS)).
    set (b1 := {| bf_bits := bits_set (bf_bits b) s (N.to_nat n) v; bf_dirty := _ |}).
    intros H.
    destruct (bool_dec (bf_get (bf_set_pages f b1 (s + n) (l - n) v) i) (bf_get b1 i)) as [E|E].
    + rewrite E in H.
      destruct (bf_dirty_set_pages_prefix f b1 (s + n) (l - n) v) as (ext & ->).
      apply in_or_app. left.
      unfold bf_get in H. unfold b1 in H. cbn [bf_bits] in H.
      rewrite nm_mem_bits_set, N2Nat.id in H.
      destruct ((s <=? i) && (i <? s + n)) eqn:Er; [|congruence].
      assert (Hp : i / PAGE_BITS = s / PAGE_BITS) by (unfold n, PAGE_BITS in *; lia).
      rewrite Hp. unfold b1. cbn [bf_dirty].
      destruct (bits_differ (bf_bits b) s (N.to_nat n) v) eqn:Ed.
      * cbn [andb]. destruct (mem_N (s / PAGE_BITS) (bf_dirty b)) eqn:Em; cbn [negb].
        -- apply mem_N_In. exact Em.
        -- apply in_or_app. right. left. reflexivity.
      * exfalso. apply H. symmetry. apply (bits_differ_false _ _ _ _ Ed).
        rewrite N2Nat.id. lia.
    + apply IH. exact E.
Qed.

(* every page that contains a changed bit is dirty afterwards *)
Lemma bf_dirty_set_range_sound b s l v i :
  bf_get (bf_set_range b s l v) i <> bf_get b i ->
  In (i / PAGE_BITS) (bf_dirty (bf_set_range b s l v)).
Proof. unfold bf_set_range. apply bf_dirty_set_pages_sound. Qed.

(* pages are only ever added, at the end *)
Lemma bf_dirty_set_range_prefix b s l v :
  exists ext, bf_dirty (bf_set_range b s l v) = bf_dirty b ++ ext.
Proof. unfold bf_set_range. apply bf_dirty_set_pages_prefix. Qed.

Lemma bf_dirty_set_range_mono b s l v p :
  In p (bf_dirty b) -> In p (bf_dirty (bf_set_range b s l v)).
Proof.
  intros H. destruct (bf_dirty_set_range_prefix b s l v) as (ext & ->).
  apply in_or_app. left. exact H.
Qed.

Lemma In_nrange n : forall off x, In x (nrange off n) -> off <= x < off + N.of_nat n.
Proof.
  induction n as [|n IH]; intros off x H; cbn [nrange In] in H; [contradiction|].
  destruct H as [<-|H]; [lia|]. apply IH in H. lia.
Qed.

(* a page image depends only on the bits of that page *)
Lemma page_bytes_ext m m' p :
  (forall j, j < PAGE_BITS -> nm_mem (p * PAGE_BITS + j) m = nm_mem (p * PAGE_BITS + j) m') ->
  page_bytes m p = page_bytes m' p.
Proof.
  intros H. unfold page_bytes. apply map_ext_in. intros k Hk.
  apply In_nrange in Hk. change (N.of_nat (N.to_nat PAGE_BYTES)) with 4096 in Hk.
  unfold PAGE_BYTES in Hk.
  assert (Hb : forall t, t < 8 -> nm_mem (8 * k + t) m = nm_mem (8 * k + t) m').
  { intros t Ht. replace (8 * k + t) with (p * PAGE_BITS + (8 * k + t - p * PAGE_BITS))
      by (unfold PAGE_BITS; lia).
    apply H. unfold PAGE_BITS. lia. }
  unfold bits_byte. rewrite !Hb by lia. reflexivity.
Qed.

(* hence: a page that is not dirty after a range write has an unchanged image,
   i.e. writing the dirty pages writes every changed page *)
Lemma page_bytes_clean_set_range b s l v p :
  ~ In p (bf_dirty (bf_set_range b s l v)) ->
  page_bytes (bf_bits (bf_set_range b s l v)) p = page_bytes (bf_bits b) p.
Proof.
  intros Hn. apply page_bytes_ext. intros j Hj.
  fold (bf_get (bf_set_range b s l v) (p * PAGE_BITS + j)).
  fold (bf_get b (p * PAGE_BITS + j)).
  destruct (bool_dec (bf_get (bf_set_range b s l v) (p * PAGE_BITS + j))
                     (bf_get b (p * PAGE_BITS + j))) as [E|E]; [exact E|].
  exfalso. apply Hn. apply bf_dirty_set_range_sound in E.
  replace ((p * PAGE_BITS + j) / PAGE_BITS) with p in E by (unfold PAGE_BITS in *; lia).
  exact E.
Qed.

Print Assumptions bf_get_set_range.
Print Assumptions bf_get_apply.
Print Assumptions bf_dirty_set_range_sound.
Print Assumptions bf_dirty_set_range_prefix.
Print Assumptions bf_dirty_set_range_mono.
Print Assumptions page_bytes_clean_set_range.
Print Assumptions page_bit_page_bytes.
Print Assumptions length_page_bytes.
Print Assumptions bytes_ok_page_bytes.
Print Assumptions load_bits_spec_gen.
Print Assumptions load_bits_spec.
Print Assumptions load_page_bytes.
Print Assumptions run_le_cardinal.
Print Assumptions bf_skip_set_stops.
Print Assumptions update_contig_exact.
Print Assumptions exact_contig_unique.
Print Assumptions exact_contig_empty.

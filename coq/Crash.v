(* Crash.v — crash / torn-write behaviour of the oplog file, on file CONTENTS (a [bytes] value)
   and [oplog_open] in open mode (kp = None).
   Properties C02 (crash between two storage operations) and C07 (torn write). *)
From HC Require Import Base Codec CodecFacts Crypto Storage Bitfield Oplog OplogFacts StorageFacts.
From Coq Require Import ZifyN ZifyNat ZifyBool.
Ltac Zify.zify_post_hook ::= Z.div_mod_to_equations.
Arguments N.add : simpl never.
Arguments N.sub : simpl never.
Arguments N.mul : simpl never.
Arguments N.div : simpl never.
Arguments N.modulo : simpl never.
Arguments N.pow : simpl never.
Arguments N.eqb : simpl never.
Arguments N.ltb : simpl never.
Arguments N.leb : simpl never.
Arguments N.of_nat : simpl never.
Arguments N.to_nat : simpl never.

(* ====================================================================================== *)
(* 0. Definitions                                                                         *)
(* ====================================================================================== *)

(* a header slot: 4096 bytes beginning with a valid frame of the header with bit b; what follows
   the frame is arbitrary (old bytes / zero padding) *)
Definition slot_holds (cr : crypto) (s : bytes) (h : header) (b : bool) : Prop :=
  length s = 4096%nat /\
  exists fr tail, frame cr b false (enc_header h) = Ok fr /\ s = fr ++ tail.

(* a slot with no valid frame *)
Definition slot_invalid (cr : crypto) (s : bytes) : Prop :=
  length s = 4096%nat /\ validate_leader cr s = None.

(* the entries area *)
Definition body_holds (cr : crypto) (bit : bool) (l : list (entry * bool)) (rest body : bytes) : Prop :=
  exists fb, frames cr bit l = Ok fb /\ body = fb ++ rest /\ no_frame_here cr bit rest /\
             forallb (fun x => entry_ok (fst x)) l = true.

(* entries with the trailing partial ones removed *)
Fixpoint drop_tp (rl : list (entry * bool)) : list (entry * bool) :=
  match rl with
  | (_, true) :: r => drop_tp r
  | _ => rl
  end.
Definition kept (l : list (entry * bool)) : list (entry * bool) := rev (drop_tp (rev l)).

(* total frame size of a list of entries *)
Definition frames_size (l : list (entry * bool)) : N := sumN (map (fun x => entry_size (fst x)) l).

(* what [oplog_open] returns for a file of length [flen] whose selected header is [h], whose
   slot bits are [bits] and whose entries area holds the frames of [l] followed by garbage *)
Definition open_result (bits : bool * bool) (h : header) (l : list (entry * bool)) (flen : N)
  : open_outcome :=
  let k := kept l in
  let used := frames_size k in
  mkOpenOutcome (mkOplog bits (N.of_nat (length k)) used) h
    (if ENTRIES_OFFSET + used <? flen then [ST Oplog (ENTRIES_OFFSET + used)] else [])
    (map fst k).

(* the same when nothing has to be cut: no partial entries, no garbage *)
Definition clean_result (bits : bool * bool) (h : header) (l : list (entry * bool)) : open_outcome :=
  mkOpenOutcome (mkOplog bits (N.of_nat (length l)) (frames_size l)) h [] (map fst l).

(* the abstract state of one slot *)
Inductive slot_state := SValid (h : header) (b : bool) | SInvalid.

Definition slot_is (cr : crypto) (s : bytes) (st : slot_state) : Prop :=
  match st with
  | SValid h b => header_ok h = true /\ slot_holds cr s h b
  | SInvalid => slot_invalid cr s
  end.

(* which header / bits [oplog_open] reconstructs from the two slots *)
Definition choose (st0 st1 : slot_state) : option ((bool * bool) * header) :=
  match st0, st1 with
  | SValid h0 b0, SValid h1 b1 => Some ((b0, b1), if Bool.eqb b0 b1 then h0 else h1)
  | SValid h0 b0, SInvalid => Some ((b0, b0), h0)
  | SInvalid, SValid h1 b1 => Some ((negb b1, b1), h1)
  | SInvalid, SInvalid => None
  end.

(* ---------- storage operations on contents ---------- *)

Definition c_grow (c : bytes) (n : N) : bytes := c ++ zeros (N.to_nat n - length c).

Definition c_write (c : bytes) (off : N) (data : bytes) : bytes :=
  let c' := c_grow c (off + len data) in
  firstn (N.to_nat off) c' ++ data ++ skipn (N.to_nat off + length data) c'.

Definition c_truncate (c : bytes) (n : N) : bytes :=
  firstn (N.to_nat n) c ++ zeros (N.to_nat n - length c).

(* the oplog never deletes ranges: SD is not given a content semantics here *)
Definition c_apply (c : bytes) (o : sop) : option bytes :=
  match o with
  | SW _ off data => Some (c_write c off data)
  | ST _ n => Some (c_truncate c n)
  | SD _ _ _ => None
  end.

Fixpoint c_apply_all (c : bytes) (l : list sop) : option bytes :=
  match l with
  | [] => Some c
  | o :: r => match c_apply c o with Some c' => c_apply_all c' r | None => None end
  end.

(* ====================================================================================== *)
(* 1. List / content helpers                                                              *)
(* ====================================================================================== *)

Lemma HS_nat : N.to_nat HEADER_SIZE = 4096%nat.
Proof. reflexivity. Qed.

Lemma EO_nat : N.to_nat ENTRIES_OFFSET = (4096 + 4096)%nat.
Proof. reflexivity. Qed.

Lemma skipn_two_slots (s0 s1 body : bytes) :
  length s0 = 4096%nat -> length s1 = 4096%nat ->
  skipn (N.to_nat ENTRIES_OFFSET) (s0 ++ s1 ++ body) = body.
Proof.
  intros H0 H1. rewrite app_assoc. apply skipn_app_exact.
  rewrite app_length, H0, H1. reflexivity.
Qed.

Lemma len_two_slots (s0 s1 body : bytes) :
  length s0 = 4096%nat -> length s1 = 4096%nat ->
  len (s0 ++ s1 ++ body) = ENTRIES_OFFSET + len body.
Proof.
  intros H0 H1. rewrite !len_app. unfold len. rewrite H0, H1. unfold ENTRIES_OFFSET. lia.
Qed.

Lemma slice_slot0 (s0 s1 body : bytes) :
  length s0 = 4096%nat -> length s1 = 4096%nat ->
  slice (s0 ++ s1 ++ body) 0 HEADER_SIZE = Some s0.
Proof.
  intros H0 H1. unfold slice. rewrite len_two_slots by assumption.
  destruct (N.leb_spec HEADER_SIZE (ENTRIES_OFFSET + len body)) as [_|H];
    [|unfold HEADER_SIZE, ENTRIES_OFFSET in H; lia].
  f_equal. change (N.to_nat 0) with 0%nat. cbn [skipn].
  change (N.to_nat (HEADER_SIZE - 0)) with 4096%nat.
  now apply firstn_app_exact.
Qed.

Lemma slice_slot1 (s0 s1 body : bytes) :
  length s0 = 4096%nat -> length s1 = 4096%nat ->
  slice (s0 ++ s1 ++ body) HEADER_SIZE ENTRIES_OFFSET = Some s1.
Proof.
  intros H0 H1. unfold slice. rewrite len_two_slots by assumption.
  destruct (N.leb_spec ENTRIES_OFFSET (ENTRIES_OFFSET + len body)) as [_|H]; [|lia].
  f_equal. change (N.to_nat HEADER_SIZE) with 4096%nat.
  change (N.to_nat (ENTRIES_OFFSET - HEADER_SIZE)) with 4096%nat.
  rewrite skipn_app_exact by assumption. now apply firstn_app_exact.
Qed.

Lemma slice_short (c : bytes) from to : len c < to -> slice c from to = None.
Proof. intros H. unfold slice. destruct (N.leb_spec to (len c)); [lia | reflexivity]. Qed.

(* ---------- kept ---------- *)

Lemma drop_tp_map rl :
  drop_trailing_partials (map (fun x => (fst x, snd x, entry_size (fst x))) rl) =
  map (fun x => (fst x, snd x, entry_size (fst x))) (drop_tp rl).
Proof.
  induction rl as [|[e p] rl IH]; [reflexivity|].
  cbn [map fst snd drop_tp drop_trailing_partials]. destruct p; [exact IH | reflexivity].
Qed.

Lemma kept_scanned l :
  rev (drop_trailing_partials (rev (scanned_of l))) = scanned_of (kept l).
Proof.
  unfold scanned_of, kept. rewrite <- map_rev, drop_tp_map, <- map_rev. reflexivity.
Qed.

Lemma scanned_sizes l : sumN (map snd (scanned_of l)) = frames_size l.
Proof. unfold scanned_of, frames_size. rewrite map_map. reflexivity. Qed.

Lemma scanned_entries l : map (fun x => fst (fst x)) (scanned_of l) = map fst l.
Proof. unfold scanned_of. rewrite map_map. reflexivity. Qed.

Lemma scanned_length l : length (scanned_of l) = length l.
Proof. unfold scanned_of. apply map_length. Qed.

Lemma drop_tp_nopartial rl :
  forallb (fun x => negb (snd x)) rl = true -> drop_tp rl = rl.
Proof. destruct rl as [|[e p] rl]; [reflexivity|]. cbn [forallb snd]. now destruct p. Qed.

Lemma forallb_rev {A} (f : A -> bool) l : forallb f (rev l) = forallb f l.
Proof.
  induction l as [|a l IH]; [reflexivity|]. cbn [rev forallb].
  rewrite forallb_app, IH. cbn [forallb]. rewrite andb_true_r. apply andb_comm.
Qed.

Lemma kept_nopartial l : forallb (fun x => negb (snd x)) l = true -> kept l = l.
Proof.
  intros H. unfold kept. rewrite drop_tp_nopartial by now rewrite forallb_rev.
  apply rev_involutive.
Qed.

Lemma kept_nil : kept [] = [].
Proof. reflexivity. Qed.

(* ---------- frames ---------- *)

Lemma frames_app cr bit l1 l2 b1 b2 :
  frames cr bit l1 = Ok b1 -> frames cr bit l2 = Ok b2 -> frames cr bit (l1 ++ l2) = Ok (b1 ++ b2).
Proof.
  revert b1. induction l1 as [|[e p] l1 IH]; intros b1 H1 H2.
  - injection H1 as <-. exact H2.
  - cbn [frames app] in *. apply bind_ok in H1 as (payload & Hp & H1).
    apply bind_ok in H1 as (fr & Hf & H1). apply bind_ok in H1 as (b' & Hb & H1).
    injection H1 as <-. rewrite Hp. cbn [bind]. rewrite Hf. cbn [bind].
    rewrite (IH _ Hb H2). cbn [bind]. now rewrite app_assoc.
Qed.

Lemma frames_len cr bit l fb : frames cr bit l = Ok fb -> len fb = frames_size l.
Proof.
  revert fb. induction l as [|[e p] l IH]; intros fb H.
  - injection H as <-. reflexivity.
  - cbn [frames] in H. apply bind_ok in H as (payload & Hp & H).
    apply bind_ok in H as (fr & Hf & H). apply bind_ok in H as (b' & Hb & H).
    injection H as <-. unfold frames_size. cbn [map sumN fst].
    fold (frames_size l). rewrite len_app, (IH _ Hb), (frame_length _ _ _ _ _ Hf).
    unfold entry_size. now rewrite Hp.
Qed.

Lemma frames_single cr bit e p payload fr :
  enc_entry e = Ok payload -> frame cr bit p payload = Ok fr -> frames cr bit [(e, p)] = Ok fr.
Proof.
  intros Hp Hf. cbn [frames]. rewrite Hp. cbn [bind]. rewrite Hf. cbn [bind].
  now rewrite app_nil_r.
Qed.

Lemma no_frame_nil cr bit : no_frame_here cr bit [].
Proof. left. apply validate_short. cbn. lia. Qed.

(* a frame carrying bit b is no frame for the epoch (negb b) *)
Lemma frames_other_bit cr bit l fb rest :
  crc_ok cr -> frames cr bit l = Ok fb -> l <> [] -> no_frame_here cr (negb bit) (fb ++ rest).
Proof.
  intros Hcrc H Hne. destruct l as [|[e p] l]; [contradiction|].
  cbn [frames] in H. apply bind_ok in H as (payload & Hp & H).
  apply bind_ok in H as (fr & Hf & H). apply bind_ok in H as (b' & Hb & H).
  injection H as <-. right. rewrite <- app_assoc.
  rewrite (validate_frame cr bit p payload fr (b' ++ rest) Hcrc (enc_entry_nonempty _ _ Hp) Hf).
  eexists. split; [reflexivity|]. cbn [ld_bit]. now destruct bit.
Qed.

Lemma frames_nil_inv cr bit l : frames cr bit l = Ok [] -> l = [].
Proof.
  intros H. apply frames_length in H. destruct l; [reflexivity | cbn in H; lia].
Qed.

Lemma old_body_no_frame cr bit l fb :
  crc_ok cr -> frames cr bit l = Ok fb -> no_frame_here cr (negb bit) fb.
Proof.
  intros Hcrc H. destruct l as [|x l].
  - injection H as <-. apply no_frame_nil.
  - rewrite <- (app_nil_r fb). eapply frames_other_bit; eauto. discriminate.
Qed.

(* ====================================================================================== *)
(* 2. What open sees in one slot                                                          *)
(* ====================================================================================== *)

Lemma enc_header_nonempty h : enc_header h <> [].
Proof. unfold enc_header. cbn [app]. discriminate. Qed.

Lemma slot_holds_leader cr s h b :
  crc_ok cr -> slot_holds cr s h b ->
  exists tail, validate_leader cr s = Some (mkLeader b false (len (enc_header h)) (enc_header h ++ tail)).
Proof.
  intros Hcrc (Hl & fr & tail & Hf & ->). exists tail.
  apply validate_frame; auto. apply enc_header_nonempty.
Qed.

(* the abstract view of [slot_leader] + header decoding *)
Definition slot_view (cr : crypto) (s : bytes) (st : slot_state) : Prop :=
  match st with
  | SValid h b => exists ld, validate_leader cr s = Some ld /\ ld_bit ld = b /\
                             exists r, dec_header (ld_state ld) = Ok (h, r)
  | SInvalid => validate_leader cr s = None
  end.

Lemma slot_is_view cr s st : crc_ok cr -> slot_is cr s st -> slot_view cr s st /\ length s = 4096%nat.
Proof.
  intros Hcrc. destruct st as [h b|]; cbn [slot_is slot_view].
  - intros [Hok Hs]. split; [|apply Hs].
    destruct (slot_holds_leader cr s h b Hcrc Hs) as [tail Hv].
    eexists. split; [exact Hv|]. split; [reflexivity|]. exists tail. cbn [ld_state].
    now apply dec_enc_header.
  - intros [Hl Hv]. auto.
Qed.

(* ====================================================================================== *)
(* 3. The open theorems                                                                   *)
(* ====================================================================================== *)

Section Open.
  Variable cr : crypto.
  Hypothesis Hcrc : crc_ok cr.

  (* the header stage of oplog_open *)
  Lemma open_header_stage s0 s1 body st0 st1 :
    slot_is cr s0 st0 -> slot_is cr s1 st1 ->
    (match slot_leader cr (s0 ++ s1 ++ body) 0 HEADER_SIZE,
           slot_leader cr (s0 ++ s1 ++ body) HEADER_SIZE ENTRIES_OFFSET with
     | Some l1, Some l2 =>
         '(h, _) <- lift_enc (dec_header (ld_state (if Bool.eqb (ld_bit l1) (ld_bit l2) then l1 else l2))) ;;
         Ok (mkOplog (ld_bit l1, ld_bit l2) 0 0, h, [], false)
     | Some l1, None =>
         '(h, _) <- lift_enc (dec_header (ld_state l1)) ;;
         Ok (mkOplog (ld_bit l1, ld_bit l1) 0 0, h, [], false)
     | None, Some l2 =>
         '(h, _) <- lift_enc (dec_header (ld_state l2)) ;;
         Ok (mkOplog (negb (ld_bit l2), ld_bit l2) 0 0, h, [], false)
     | None, None => @Err (oplog * header * list sop * bool) EmptyStorage
     end) =
    match choose st0 st1 with
    | Some (bits, h) => Ok (mkOplog bits 0 0, h, [], false)
    | None => Err EmptyStorage
    end.
  Proof.
    intros H0 H1.
    destruct (slot_is_view cr s0 st0 Hcrc H0) as [V0 L0].
    destruct (slot_is_view cr s1 st1 Hcrc H1) as [V1 L1].
    unfold slot_leader. rewrite slice_slot0, slice_slot1 by assumption.
    destruct st0 as [h0 b0|], st1 as [h1 b1|]; cbn [slot_view choose] in *.
    - destruct V0 as (l1 & -> & <- & r0 & D0). destruct V1 as (l2 & -> & <- & r1 & D1).
      destruct (Bool.eqb (ld_bit l1) (ld_bit l2)).
      + rewrite D0. reflexivity.
      + rewrite D1. reflexivity.
    - destruct V0 as (l1 & -> & <- & r0 & D0). rewrite V1, D0. reflexivity.
    - destruct V1 as (l2 & -> & <- & r1 & D1). rewrite V0, D1. reflexivity.
    - rewrite V0, V1. reflexivity.
  Qed.

  (* the workhorse: any combination of valid / invalid slots *)
  Theorem open_slots s0 s1 body st0 st1 bits h l rest :
    slot_is cr s0 st0 -> slot_is cr s1 st1 -> choose st0 st1 = Some (bits, h) ->
    body_holds cr (current_bit bits) l rest body ->
    oplog_open cr None (s0 ++ s1 ++ body) = Ok (open_result bits h l (ENTRIES_OFFSET + len body)).
  Proof.
    intros H0 H1 Hch (fb & Hfb & -> & Hrest & Hok).
    assert (L0 : length s0 = 4096%nat) by (destruct st0; apply H0).
    assert (L1 : length s1 = 4096%nat) by (destruct st1; apply H1).
    unfold oplog_open. cbv zeta.
    rewrite (open_header_stage s0 s1 (fb ++ rest) st0 st1 H0 H1).
    rewrite Hch. cbn [bind].
    rewrite len_two_slots by assumption.
    destruct (N.ltb_spec ENTRIES_OFFSET (ENTRIES_OFFSET + len (fb ++ rest))) as [Hlt|Hge].
    - rewrite skipn_two_slots by assumption. cbn [ol_bits].
      rewrite (scan_entries_open_fuel cr (current_bit bits) l fb rest Hcrc Hok Hfb Hrest).
      cbn [bind]. rewrite kept_scanned, scanned_sizes, scanned_entries, scanned_length.
      cbn [app]. reflexivity.
    - assert (E : fb ++ rest = []) by (destruct (fb ++ rest); [reflexivity | rewrite len_cons in Hge; lia]).
      apply app_eq_nil in E as [-> ->]. apply frames_nil_inv in Hfb as ->.
      unfold open_result. rewrite kept_nil. cbn [length map]. unfold frames_size. cbn [map sumN].
      change (len ([] ++ [])) with 0.
      destruct (N.ltb_spec (ENTRIES_OFFSET + 0) (ENTRIES_OFFSET + 0)); [lia|]. reflexivity.
  Qed.

  (* O3 (general form) *)
  Theorem open_slots_none s0 s1 body st0 st1 :
    slot_is cr s0 st0 -> slot_is cr s1 st1 -> choose st0 st1 = None ->
    oplog_open cr None (s0 ++ s1 ++ body) = Err EmptyStorage.
  Proof.
    intros H0 H1 Hch. unfold oplog_open. cbv zeta.
    rewrite (open_header_stage s0 s1 body st0 st1 H0 H1).
    rewrite Hch. reflexivity.
  Qed.

  (* O1 *)
  Theorem open_two_slots s0 s1 body h0 h1 b0 b1 l rest :
    header_ok h0 = true -> header_ok h1 = true ->
    slot_holds cr s0 h0 b0 -> slot_holds cr s1 h1 b1 ->
    body_holds cr (xorb b0 b1) l rest body ->
    oplog_open cr None (s0 ++ s1 ++ body) =
    Ok (open_result (b0, b1) (if Bool.eqb b0 b1 then h0 else h1) l (ENTRIES_OFFSET + len body)).
  Proof.
    intros K0 K1 S0 S1 B.
    apply (open_slots s0 s1 body (SValid h0 b0) (SValid h1 b1) _ _ l rest); cbn [slot_is choose]; auto.
  Qed.

  (* O1, the case of an empty entries area: the file is exactly 8192 bytes long *)
  Lemma open_two_slots_empty s0 s1 h0 h1 b0 b1 :
    header_ok h0 = true -> header_ok h1 = true ->
    slot_holds cr s0 h0 b0 -> slot_holds cr s1 h1 b1 ->
    oplog_open cr None (s0 ++ s1) =
    Ok (mkOpenOutcome (mkOplog (b0, b1) 0 0) (if Bool.eqb b0 b1 then h0 else h1) [] []).
  Proof.
    intros K0 K1 S0 S1.
    rewrite <- (app_nil_r s1).
    rewrite (open_two_slots s0 s1 [] h0 h1 b0 b1 [] []); auto.
    exists []. repeat split; auto. apply no_frame_nil.
  Qed.

  (* O1, projections *)
  Corollary open_two_slots_fields s0 s1 body h0 h1 b0 b1 l rest :
    header_ok h0 = true -> header_ok h1 = true ->
    slot_holds cr s0 h0 b0 -> slot_holds cr s1 h1 b1 ->
    body_holds cr (xorb b0 b1) l rest body ->
    exists oo, oplog_open cr None (s0 ++ s1 ++ body) = Ok oo /\
      oo_header oo = (if Bool.eqb b0 b1 then h0 else h1) /\
      ol_bits (oo_oplog oo) = (b0, b1) /\
      oo_entries oo = map fst (kept l) /\
      ol_entries_len (oo_oplog oo) = N.of_nat (length (kept l)) /\
      ol_entries_bytes (oo_oplog oo) = frames_size (kept l) /\
      oo_ops oo = (if ENTRIES_OFFSET + frames_size (kept l) <? len (s0 ++ s1 ++ body)
                   then [ST Oplog (ENTRIES_OFFSET + frames_size (kept l))] else []).
  Proof.
    intros K0 K1 S0 S1 B. eexists. split; [now apply open_two_slots with (rest := rest)|].
    rewrite len_two_slots by (apply S0 || apply S1). cbn. repeat split; reflexivity.
  Qed.

  (* O2 *)
  Theorem open_one_slot_0 s0 s1 body h0 b0 l rest :
    header_ok h0 = true -> slot_holds cr s0 h0 b0 -> slot_invalid cr s1 ->
    body_holds cr false l rest body ->
    oplog_open cr None (s0 ++ s1 ++ body) = Ok (open_result (b0, b0) h0 l (ENTRIES_OFFSET + len body)).
  Proof.
    intros K0 S0 S1 B.
    apply (open_slots s0 s1 body (SValid h0 b0) SInvalid _ _ l rest); cbn [slot_is choose]; auto.
    unfold current_bit. cbn [fst snd]. now rewrite xorb_nilpotent.
  Qed.

  Theorem open_one_slot_1 s0 s1 body h1 b1 l rest :
    header_ok h1 = true -> slot_invalid cr s0 -> slot_holds cr s1 h1 b1 ->
    body_holds cr true l rest body ->
    oplog_open cr None (s0 ++ s1 ++ body) = Ok (open_result (negb b1, b1) h1 l (ENTRIES_OFFSET + len body)).
  Proof.
    intros K1 S0 S1 B.
    apply (open_slots s0 s1 body SInvalid (SValid h1 b1) _ _ l rest); cbn [slot_is choose]; auto.
    unfold current_bit. cbn [fst snd]. now destruct b1.
  Qed.

  (* O3 *)
  Theorem open_no_slot s0 s1 body :
    slot_invalid cr s0 -> slot_invalid cr s1 ->
    oplog_open cr None (s0 ++ s1 ++ body) = Err EmptyStorage.
  Proof.
    intros S0 S1. apply (open_slots_none s0 s1 body SInvalid SInvalid); auto.
  Qed.

End Open.

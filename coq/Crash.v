(* Crash.v — crash / torn-write behaviour of the oplog file, on file CONTENTS (a [bytes] value)
   and [oplog_open] in open mode (kp = None).
   Properties C02 (crash between two storage operations) and C07 (torn write). *)
From HC Require Import Base Codec CodecFacts Crypto Storage Bitfield Oplog OplogFacts StorageFacts.
From Coq Require Import ZifyN ZifyNat ZifyBool.
Ltac Zify.zify_post_hook ::= Z.div_mod_to_equations.
Arguments N.add : simpl never.
Arguments N.sub : simpl never.
Arguments N.mul : simpl never.
Arguments N.div : simpl never.
Arguments N.modulo : simpl never.
Arguments N.pow : simpl never.
Arguments N.eqb : simpl never.
Arguments N.ltb : simpl never.
Arguments N.leb : simpl never.
Arguments N.of_nat : simpl never.
Arguments N.to_nat : simpl never.

(* ====================================================================================== *)
(* 0. Definitions                                                                         *)
(* ====================================================================================== *)

(* the length of a header slot as a nat.  Written [N.to_nat HEADER_SIZE] rather than the unary
   numeral to keep terms small; see [SLOT_4096]. *)
Notation SLOT := (N.to_nat HEADER_SIZE).

(* a header slot: 4096 bytes beginning with a valid frame of the header with bit b; what follows
   the frame is arbitrary (old bytes / zero padding) *)
Definition slot_holds (cr : crypto) (s : bytes) (h : header) (b : bool) : Prop :=
  length s = SLOT /\
  exists fr tail, frame cr b false (enc_header h) = Ok fr /\ s = fr ++ tail.

(* a slot with no valid frame *)
Definition slot_invalid (cr : crypto) (s : bytes) : Prop :=
  length s = SLOT /\ validate_leader cr s = None.

(* the entries area *)
Definition body_holds (cr : crypto) (bit : bool) (l : list (entry * bool)) (rest body : bytes) : Prop :=
  exists fb, frames cr bit l = Ok fb /\ body = fb ++ rest /\ no_frame_here cr bit rest /\
             forallb (fun x => entry_ok (fst x)) l = true.

(* entries with the trailing partial ones removed *)
Fixpoint drop_tp (rl : list (entry * bool)) : list (entry * bool) :=
  match rl with
  | (_, true) :: r => drop_tp r
  | _ => rl
  end.
Definition kept (l : list (entry * bool)) : list (entry * bool) := rev (drop_tp (rev l)).

(* total frame size of a list of entries *)
Definition frames_size (l : list (entry * bool)) : N := sumN (map (fun x => entry_size (fst x)) l).

(* what [oplog_open] returns for a file of length [flen] whose selected header is [h], whose
   slot bits are [bits] and whose entries area holds the frames of [l] followed by garbage *)
Definition open_result (bits : bool * bool) (h : header) (l : list (entry * bool)) (flen : N)
  : open_outcome :=
  let k := kept l in
  let used := frames_size k in
  mkOpenOutcome (mkOplog bits (N.of_nat (length k)) used) h
    (if ENTRIES_OFFSET + used <? flen then [ST Oplog (ENTRIES_OFFSET + used)] else [])
    (map fst k).

(* the same when nothing has to be cut: no partial entries, no garbage *)
Definition clean_result (bits : bool * bool) (h : header) (l : list (entry * bool)) : open_outcome :=
  mkOpenOutcome (mkOplog bits (N.of_nat (length l)) (frames_size l)) h [] (map fst l).

(* the abstract state of one slot *)
Inductive slot_state := SValid (h : header) (b : bool) | SInvalid.

Definition slot_is (cr : crypto) (s : bytes) (st : slot_state) : Prop :=
  match st with
  | SValid h b => header_ok h = true /\ slot_holds cr s h b
  | SInvalid => slot_invalid cr s
  end.

(* which header / bits [oplog_open] reconstructs from the two slots *)
Definition choose (st0 st1 : slot_state) : option ((bool * bool) * header) :=
  match st0, st1 with
  | SValid h0 b0, SValid h1 b1 => Some ((b0, b1), if Bool.eqb b0 b1 then h0 else h1)
  | SValid h0 b0, SInvalid => Some ((b0, b0), h0)
  | SInvalid, SValid h1 b1 => Some ((negb b1, b1), h1)
  | SInvalid, SInvalid => None
  end.

(* ---------- storage operations on contents ---------- *)

Definition c_grow (c : bytes) (n : N) : bytes := c ++ zeros (N.to_nat n - length c).

Definition c_write (c : bytes) (off : N) (data : bytes) : bytes :=
  let c' := c_grow c (off + len data) in
  firstn (N.to_nat off) c' ++ data ++ skipn (N.to_nat off + length data) c'.

Definition c_truncate (c : bytes) (n : N) : bytes :=
  firstn (N.to_nat n) c ++ zeros (N.to_nat n - length c).

(* the oplog never deletes ranges: SD is not given a content semantics here *)
Definition c_apply (c : bytes) (o : sop) : option bytes :=
  match o with
  | SW _ off data => Some (c_write c off data)
  | ST _ n => Some (c_truncate c n)
  | SD _ _ _ => None
  end.

Fixpoint c_apply_all (c : bytes) (l : list sop) : option bytes :=
  match l with
  | [] => Some c
  | o :: r => match c_apply c o with Some c' => c_apply_all c' r | None => None end
  end.

(* ====================================================================================== *)
(* 1. List / content helpers                                                              *)
(* ====================================================================================== *)

Lemma SLOT_4096 : SLOT = 4096%nat.
Proof. reflexivity. Qed.

Lemma EO_nat : N.to_nat ENTRIES_OFFSET = (SLOT + SLOT)%nat.
Proof. reflexivity. Qed.

Lemma skipn_two_slots (s0 s1 body : bytes) :
  length s0 = SLOT -> length s1 = SLOT ->
  skipn (N.to_nat ENTRIES_OFFSET) (s0 ++ s1 ++ body) = body.
Proof.
  intros H0 H1. rewrite app_assoc. apply skipn_app_exact.
  rewrite app_length, H0, H1. unfold HEADER_SIZE, ENTRIES_OFFSET. lia.
Qed.

Lemma len_two_slots (s0 s1 body : bytes) :
  length s0 = SLOT -> length s1 = SLOT ->
  len (s0 ++ s1 ++ body) = ENTRIES_OFFSET + len body.
Proof.
  intros H0 H1. rewrite !len_app. unfold len. rewrite H0, H1. unfold HEADER_SIZE, ENTRIES_OFFSET. lia.
Qed.

Lemma slice_slot0 (s0 s1 body : bytes) :
  length s0 = SLOT -> length s1 = SLOT ->
  slice (s0 ++ s1 ++ body) 0 HEADER_SIZE = Some s0.
Proof.
  intros H0 H1. unfold slice. rewrite len_two_slots by assumption.
  destruct (N.leb_spec HEADER_SIZE (ENTRIES_OFFSET + len body)) as [_|H];
    [|unfold HEADER_SIZE, ENTRIES_OFFSET in H; lia].
  f_equal. change (N.to_nat 0) with 0%nat. cbn [skipn].
  rewrite N.sub_0_r.
  now apply firstn_app_exact.
Qed.

Lemma slice_slot1 (s0 s1 body : bytes) :
  length s0 = SLOT -> length s1 = SLOT ->
  slice (s0 ++ s1 ++ body) HEADER_SIZE ENTRIES_OFFSET = Some s1.
Proof.
  intros H0 H1. unfold slice. rewrite len_two_slots by assumption.
  destruct (N.leb_spec ENTRIES_OFFSET (ENTRIES_OFFSET + len body)) as [_|H]; [|lia].
  f_equal. change (ENTRIES_OFFSET - HEADER_SIZE) with HEADER_SIZE.
  rewrite skipn_app_exact by assumption. now apply firstn_app_exact.
Qed.

Lemma slice_short (c : bytes) from to : len c < to -> slice c from to = None.
Proof. intros H. unfold slice. destruct (N.leb_spec to (len c)); [lia | reflexivity]. Qed.

(* ---------- kept ---------- *)

Lemma drop_tp_map rl :
  drop_trailing_partials (map (fun x => (fst x, snd x, entry_size (fst x))) rl) =
  map (fun x => (fst x, snd x, entry_size (fst x))) (drop_tp rl).
Proof.
  induction rl as [|[e p] rl IH]; [reflexivity|].
  cbn [map fst snd drop_tp drop_trailing_partials]. destruct p; [exact IH | reflexivity].
Qed.

Lemma kept_scanned l :
  rev (drop_trailing_partials (rev (scanned_of l))) = scanned_of (kept l).
Proof.
  unfold scanned_of, kept. rewrite <- map_rev, drop_tp_map, <- map_rev. reflexivity.
Qed.

Lemma scanned_sizes l : sumN (map snd (scanned_of l)) = frames_size l.
Proof. unfold scanned_of, frames_size. rewrite map_map. reflexivity. Qed.

Lemma scanned_entries l : map (fun x => fst (fst x)) (scanned_of l) = map fst l.
Proof. unfold scanned_of. rewrite map_map. reflexivity. Qed.

Lemma scanned_length l : length (scanned_of l) = length l.
Proof. unfold scanned_of. apply map_length. Qed.

Lemma drop_tp_nopartial rl :
  forallb (fun x => negb (snd x)) rl = true -> drop_tp rl = rl.
Proof. destruct rl as [|[e p] rl]; [reflexivity|]. cbn [forallb snd]. now destruct p. Qed.

Lemma forallb_rev {A} (f : A -> bool) l : forallb f (rev l) = forallb f l.
Proof.
  induction l as [|a l IH]; [reflexivity|]. cbn [rev forallb].
  rewrite forallb_app, IH. cbn [forallb]. rewrite andb_true_r. apply andb_comm.
Qed.

Lemma kept_nopartial l : forallb (fun x => negb (snd x)) l = true -> kept l = l.
Proof.
  intros H. unfold kept. rewrite drop_tp_nopartial by now rewrite forallb_rev.
  apply rev_involutive.
Qed.

Lemma kept_nil : kept [] = [].
Proof. reflexivity. Qed.

(* ---------- frames ---------- *)

Lemma frames_app cr bit l1 l2 b1 b2 :
  frames cr bit l1 = Ok b1 -> frames cr bit l2 = Ok b2 -> frames cr bit (l1 ++ l2) = Ok (b1 ++ b2).
Proof.
  revert b1. induction l1 as [|[e p] l1 IH]; intros b1 H1 H2.
  - injection H1 as <-. exact H2.
  - cbn [frames app] in *. apply bind_ok in H1 as (payload & Hp & H1).
    apply bind_ok in H1 as (fr & Hf & H1). apply bind_ok in H1 as (b' & Hb & H1).
    injection H1 as <-. rewrite Hp. cbn [bind]. rewrite Hf. cbn [bind].
    rewrite (IH _ Hb H2). cbn [bind]. now rewrite app_assoc.
Qed.

Lemma frames_len cr bit l fb : frames cr bit l = Ok fb -> len fb = frames_size l.
Proof.
  revert fb. induction l as [|[e p] l IH]; intros fb H.
  - injection H as <-. reflexivity.
  - cbn [frames] in H. apply bind_ok in H as (payload & Hp & H).
    apply bind_ok in H as (fr & Hf & H). apply bind_ok in H as (b' & Hb & H).
    injection H as <-. unfold frames_size. cbn [map sumN fst].
    fold (frames_size l). rewrite len_app, (IH _ Hb), (frame_length _ _ _ _ _ Hf).
    unfold entry_size. now rewrite Hp.
Qed.

Lemma frames_single cr bit e p payload fr :
  enc_entry e = Ok payload -> frame cr bit p payload = Ok fr -> frames cr bit [(e, p)] = Ok fr.
Proof.
  intros Hp Hf. cbn [frames]. rewrite Hp. cbn [bind]. rewrite Hf. cbn [bind].
  now rewrite app_nil_r.
Qed.

Lemma no_frame_nil cr bit : no_frame_here cr bit [].
Proof. left. apply validate_short. cbn. lia. Qed.

(* a frame carrying bit b is no frame for the epoch (negb b) *)
Lemma frames_other_bit cr bit l fb rest :
  crc_ok cr -> frames cr bit l = Ok fb -> l <> [] -> no_frame_here cr (negb bit) (fb ++ rest).
Proof.
  intros Hcrc H Hne. destruct l as [|[e p] l]; [contradiction|].
  cbn [frames] in H. apply bind_ok in H as (payload & Hp & H).
  apply bind_ok in H as (fr & Hf & H). apply bind_ok in H as (b' & Hb & H).
  injection H as <-. right. rewrite <- app_assoc.
  rewrite (validate_frame cr bit p payload fr (b' ++ rest) Hcrc (enc_entry_nonempty _ _ Hp) Hf).
  eexists. split; [reflexivity|]. cbn [ld_bit]. now destruct bit.
Qed.

Lemma frames_nil_inv cr bit l : frames cr bit l = Ok [] -> l = [].
Proof.
  intros H. apply frames_length in H. destruct l; [reflexivity | cbn in H; lia].
Qed.

Lemma old_body_no_frame cr bit l fb :
  crc_ok cr -> frames cr bit l = Ok fb -> no_frame_here cr (negb bit) fb.
Proof.
  intros Hcrc H. destruct l as [|x l].
  - injection H as <-. apply no_frame_nil.
  - rewrite <- (app_nil_r fb). eapply frames_other_bit; eauto. discriminate.
Qed.

(* ====================================================================================== *)
(* 2. What open sees in one slot                                                          *)
(* ====================================================================================== *)

Lemma enc_header_nonempty h : enc_header h <> [].
Proof. unfold enc_header. cbn [app]. discriminate. Qed.

Lemma slot_holds_leader cr s h b :
  crc_ok cr -> slot_holds cr s h b ->
  exists tail, validate_leader cr s = Some (mkLeader b false (len (enc_header h)) (enc_header h ++ tail)).
Proof.
  intros Hcrc (Hl & fr & tail & Hf & ->). exists tail.
  apply validate_frame; auto. apply enc_header_nonempty.
Qed.

(* the abstract view of [slot_leader] + header decoding *)
Definition slot_view (cr : crypto) (s : bytes) (st : slot_state) : Prop :=
  match st with
  | SValid h b => exists ld, validate_leader cr s = Some ld /\ ld_bit ld = b /\
                             exists r, dec_header (ld_state ld) = Ok (h, r)
  | SInvalid => validate_leader cr s = None
  end.

Lemma slot_is_view cr s st : crc_ok cr -> slot_is cr s st -> slot_view cr s st /\ length s = SLOT.
Proof.
  intros Hcrc. destruct st as [h b|]; cbn [slot_is slot_view].
  - intros [Hok Hs]. split; [|apply Hs].
    destruct (slot_holds_leader cr s h b Hcrc Hs) as [tail Hv].
    eexists. split; [exact Hv|]. split; [reflexivity|]. exists tail. cbn [ld_state].
    now apply dec_enc_header.
  - intros [Hl Hv]. auto.
Qed.

(* ====================================================================================== *)
(* 3. The open theorems                                                                   *)
(* ====================================================================================== *)

Section Open.
  Variable cr : crypto.
  Hypothesis Hcrc : crc_ok cr.

  (* the header stage of oplog_open *)
  Lemma open_header_stage s0 s1 body st0 st1 :
    slot_is cr s0 st0 -> slot_is cr s1 st1 ->
    (match slot_leader cr (s0 ++ s1 ++ body) 0 HEADER_SIZE,
           slot_leader cr (s0 ++ s1 ++ body) HEADER_SIZE ENTRIES_OFFSET with
     | Some l1, Some l2 =>
         '(h, _) <- lift_enc (dec_header (ld_state (if Bool.eqb (ld_bit l1) (ld_bit l2) then l1 else l2))) ;;
         Ok (mkOplog (ld_bit l1, ld_bit l2) 0 0, h, [], false)
     | Some l1, None =>
         '(h, _) <- lift_enc (dec_header (ld_state l1)) ;;
         Ok (mkOplog (ld_bit l1, ld_bit l1) 0 0, h, [], false)
     | None, Some l2 =>
         '(h, _) <- lift_enc (dec_header (ld_state l2)) ;;
         Ok (mkOplog (negb (ld_bit l2), ld_bit l2) 0 0, h, [], false)
     | None, None => @Err (oplog * header * list sop * bool) EmptyStorage
     end) =
    match choose st0 st1 with
    | Some (bits, h) => Ok (mkOplog bits 0 0, h, [], false)
    | None => Err EmptyStorage
    end.
  Proof.
    intros H0 H1.
    destruct (slot_is_view cr s0 st0 Hcrc H0) as [V0 L0].
    destruct (slot_is_view cr s1 st1 Hcrc H1) as [V1 L1].
    unfold slot_leader. rewrite slice_slot0, slice_slot1 by assumption.
    destruct st0 as [h0 b0|], st1 as [h1 b1|]; cbn [slot_view choose] in *.
    - destruct V0 as (l1 & -> & <- & r0 & D0). destruct V1 as (l2 & -> & <- & r1 & D1).
      destruct (Bool.eqb (ld_bit l1) (ld_bit l2)).
      + rewrite D0. reflexivity.
      + rewrite D1. reflexivity.
    - destruct V0 as (l1 & -> & <- & r0 & D0). rewrite V1, D0. reflexivity.
    - destruct V1 as (l2 & -> & <- & r1 & D1). rewrite V0, D1. reflexivity.
    - rewrite V0, V1. reflexivity.
  Qed.

  (* the workhorse: any combination of valid / invalid slots *)
  Theorem open_slots s0 s1 body st0 st1 bits h l rest :
    slot_is cr s0 st0 -> slot_is cr s1 st1 -> choose st0 st1 = Some (bits, h) ->
    body_holds cr (current_bit bits) l rest body ->
    oplog_open cr None (s0 ++ s1 ++ body) = Ok (open_result bits h l (ENTRIES_OFFSET + len body)).
  Proof.
    intros H0 H1 Hch (fb & Hfb & -> & Hrest & Hok).
    assert (L0 : length s0 = SLOT) by (destruct st0; apply H0).
    assert (L1 : length s1 = SLOT) by (destruct st1; apply H1).
    unfold oplog_open. cbv zeta.
    rewrite (open_header_stage s0 s1 (fb ++ rest) st0 st1 H0 H1).
    rewrite Hch. cbn [bind].
    rewrite len_two_slots by assumption.
    destruct (N.ltb_spec ENTRIES_OFFSET (ENTRIES_OFFSET + len (fb ++ rest))) as [Hlt|Hge].
    - rewrite skipn_two_slots by assumption. cbn [ol_bits].
      rewrite (scan_entries_open_fuel cr (current_bit bits) l fb rest Hcrc Hok Hfb Hrest).
      cbn [bind]. rewrite kept_scanned, scanned_sizes, scanned_entries, scanned_length.
      cbn [app]. reflexivity.
    - assert (E : fb ++ rest = []) by (destruct (fb ++ rest); [reflexivity | rewrite len_cons in Hge; lia]).
      apply app_eq_nil in E as [-> ->]. apply frames_nil_inv in Hfb as ->.
      unfold open_result. rewrite kept_nil. cbn [length map]. unfold frames_size. cbn [map sumN].
      change (len ([] ++ [])) with 0.
      destruct (N.ltb_spec (ENTRIES_OFFSET + 0) (ENTRIES_OFFSET + 0)); [lia|]. reflexivity.
  Qed.

  (* O3 (general form) *)
  Theorem open_slots_none s0 s1 body st0 st1 :
    slot_is cr s0 st0 -> slot_is cr s1 st1 -> choose st0 st1 = None ->
    oplog_open cr None (s0 ++ s1 ++ body) = Err EmptyStorage.
  Proof.
    intros H0 H1 Hch. unfold oplog_open. cbv zeta.
    rewrite (open_header_stage s0 s1 body st0 st1 H0 H1).
    rewrite Hch. reflexivity.
  Qed.

  (* O1 *)
  Theorem open_two_slots s0 s1 body h0 h1 b0 b1 l rest :
    header_ok h0 = true -> header_ok h1 = true ->
    slot_holds cr s0 h0 b0 -> slot_holds cr s1 h1 b1 ->
    body_holds cr (xorb b0 b1) l rest body ->
    oplog_open cr None (s0 ++ s1 ++ body) =
    Ok (open_result (b0, b1) (if Bool.eqb b0 b1 then h0 else h1) l (ENTRIES_OFFSET + len body)).
  Proof.
    intros K0 K1 S0 S1 B.
    apply (open_slots s0 s1 body (SValid h0 b0) (SValid h1 b1) _ _ l rest); cbn [slot_is choose]; auto.
  Qed.

  (* O1, the case of an empty entries area: the file is exactly 8192 bytes long *)
  Lemma open_two_slots_empty s0 s1 h0 h1 b0 b1 :
    header_ok h0 = true -> header_ok h1 = true ->
    slot_holds cr s0 h0 b0 -> slot_holds cr s1 h1 b1 ->
    oplog_open cr None (s0 ++ s1) =
    Ok (mkOpenOutcome (mkOplog (b0, b1) 0 0) (if Bool.eqb b0 b1 then h0 else h1) [] []).
  Proof.
    intros K0 K1 S0 S1.
    rewrite <- (app_nil_r s1).
    rewrite (open_two_slots s0 s1 [] h0 h1 b0 b1 [] []); auto.
    exists []. repeat split; auto. apply no_frame_nil.
  Qed.

  (* O1, projections *)
  Corollary open_two_slots_fields s0 s1 body h0 h1 b0 b1 l rest :
    header_ok h0 = true -> header_ok h1 = true ->
    slot_holds cr s0 h0 b0 -> slot_holds cr s1 h1 b1 ->
    body_holds cr (xorb b0 b1) l rest body ->
    exists oo, oplog_open cr None (s0 ++ s1 ++ body) = Ok oo /\
      oo_header oo = (if Bool.eqb b0 b1 then h0 else h1) /\
      ol_bits (oo_oplog oo) = (b0, b1) /\
      oo_entries oo = map fst (kept l) /\
      ol_entries_len (oo_oplog oo) = N.of_nat (length (kept l)) /\
      ol_entries_bytes (oo_oplog oo) = frames_size (kept l) /\
      oo_ops oo = (if ENTRIES_OFFSET + frames_size (kept l) <? len (s0 ++ s1 ++ body)
                   then [ST Oplog (ENTRIES_OFFSET + frames_size (kept l))] else []).
  Proof.
    intros K0 K1 S0 S1 B. eexists. split; [apply (open_two_slots s0 s1 body h0 h1 b0 b1 l rest); assumption|].
    rewrite len_two_slots by (apply S0 || apply S1).
    unfold open_result. cbn [oo_header oo_oplog ol_bits oo_entries ol_entries_len ol_entries_bytes oo_ops].
    repeat split; reflexivity.
  Qed.

  (* O2 *)
  Theorem open_one_slot_0 s0 s1 body h0 b0 l rest :
    header_ok h0 = true -> slot_holds cr s0 h0 b0 -> slot_invalid cr s1 ->
    body_holds cr false l rest body ->
    oplog_open cr None (s0 ++ s1 ++ body) = Ok (open_result (b0, b0) h0 l (ENTRIES_OFFSET + len body)).
  Proof.
    intros K0 S0 S1 B.
    apply (open_slots s0 s1 body (SValid h0 b0) SInvalid _ _ l rest); cbn [slot_is choose]; auto.
    unfold current_bit. cbn [fst snd]. now rewrite xorb_nilpotent.
  Qed.

  Theorem open_one_slot_1 s0 s1 body h1 b1 l rest :
    header_ok h1 = true -> slot_invalid cr s0 -> slot_holds cr s1 h1 b1 ->
    body_holds cr true l rest body ->
    oplog_open cr None (s0 ++ s1 ++ body) = Ok (open_result (negb b1, b1) h1 l (ENTRIES_OFFSET + len body)).
  Proof.
    intros K1 S0 S1 B.
    apply (open_slots s0 s1 body SInvalid (SValid h1 b1) _ _ l rest); cbn [slot_is choose]; auto.
    unfold current_bit. cbn [fst snd]. now destruct b1.
  Qed.

  (* O3 *)
  Theorem open_no_slot s0 s1 body :
    slot_invalid cr s0 -> slot_invalid cr s1 ->
    oplog_open cr None (s0 ++ s1 ++ body) = Err EmptyStorage.
  Proof.
    intros S0 S1. apply (open_slots_none s0 s1 body SInvalid SInvalid); auto.
  Qed.

End Open.

(* ====================================================================================== *)
(* 4. Storage operations on contents                                                      *)
(* ====================================================================================== *)

Lemma c_grow_id c n : (N.to_nat n <= length c)%nat -> c_grow c n = c.
Proof.
  intros H. unfold c_grow. replace (N.to_nat n - length c)%nat with 0%nat by lia.
  unfold zeros. cbn [repeat]. apply app_nil_r.
Qed.

Lemma zeros_length n : length (zeros n) = n.
Proof. apply repeat_length. Qed.

(* [d] written over the beginning of [s] *)
Definition overlay (d s : bytes) : bytes := d ++ skipn (length d) s.

Lemma overlay_length d s : (length d <= length s)%nat -> length (overlay d s) = length s.
Proof. intros H. unfold overlay. rewrite app_length, skipn_length. lia. Qed.

Lemma c_write_end c d : c_write c (len c) d = c ++ d.
Proof.
  unfold c_write, c_grow.
  replace (N.to_nat (len c + len d) - length c)%nat with (length d) by (unfold len; lia).
  replace (N.to_nat (len c)) with (length c) by (unfold len; lia).
  rewrite firstn_app_exact by reflexivity. f_equal.
  rewrite skipn_all2; [apply app_nil_r|]. rewrite app_length, zeros_length. lia.
Qed.

Lemma c_write_slot0 s0 s1 body d :
  length s0 = SLOT -> length s1 = SLOT -> (length d <= SLOT)%nat ->
  c_write (s0 ++ s1 ++ body) 0 d = overlay d s0 ++ s1 ++ body.
Proof.
  intros H0 H1 Hd. unfold c_write.
  rewrite c_grow_id by (rewrite !app_length; unfold len; lia).
  change (N.to_nat 0) with 0%nat. cbn [firstn app Nat.add].
  rewrite skipn_app. replace (length d - length s0)%nat with 0%nat by lia. cbn [skipn].
  unfold overlay. now rewrite <- app_assoc.
Qed.

Lemma c_write_slot1 s0 s1 body d :
  length s0 = SLOT -> length s1 = SLOT -> (length d <= SLOT)%nat ->
  c_write (s0 ++ s1 ++ body) HEADER_SIZE d = s0 ++ overlay d s1 ++ body.
Proof.
  intros H0 H1 Hd. unfold c_write.
  rewrite c_grow_id by (rewrite !app_length; unfold len; lia).
  rewrite firstn_app_exact by assumption. f_equal.
  rewrite skipn_app. rewrite (skipn_all2 s0) by lia.
  replace (SLOT + length d - length s0)%nat with (length d) by lia. cbn [app].
  rewrite skipn_app. replace (length d - length s1)%nat with 0%nat by lia. cbn [skipn].
  unfold overlay. now rewrite <- app_assoc.
Qed.

Lemma c_truncate_entries s0 s1 body n :
  length s0 = SLOT -> length s1 = SLOT -> n <= len body ->
  c_truncate (s0 ++ s1 ++ body) (ENTRIES_OFFSET + n) = s0 ++ s1 ++ firstn (N.to_nat n) body.
Proof.
  intros H0 H1 Hn. unfold c_truncate.
  replace (N.to_nat (ENTRIES_OFFSET + n) - length (s0 ++ s1 ++ body))%nat with 0%nat
    by (rewrite !app_length; unfold len, ENTRIES_OFFSET, HEADER_SIZE in *; lia).
  unfold zeros. cbn [repeat]. rewrite app_nil_r.
  replace (N.to_nat (ENTRIES_OFFSET + n)) with (SLOT + (SLOT + N.to_nat n))%nat
    by (unfold ENTRIES_OFFSET, HEADER_SIZE; lia).
  rewrite firstn_app, H0, (firstn_all2 s0) by lia. f_equal.
  replace (SLOT + (SLOT + N.to_nat n) - SLOT)%nat with (SLOT + N.to_nat n)%nat by lia.
  rewrite firstn_app, H1, (firstn_all2 s1) by lia. f_equal.
  f_equal. lia.
Qed.

Lemma c_truncate_all_entries s0 s1 body :
  length s0 = SLOT -> length s1 = SLOT ->
  c_truncate (s0 ++ s1 ++ body) ENTRIES_OFFSET = s0 ++ s1 ++ [].
Proof.
  intros H0 H1. replace ENTRIES_OFFSET with (ENTRIES_OFFSET + 0) at 1 by lia.
  rewrite c_truncate_entries by (assumption || lia). reflexivity.
Qed.

Lemma c_truncate_same c : c_truncate c (len c) = c.
Proof.
  unfold c_truncate. replace (N.to_nat (len c)) with (length c) by (unfold len; lia).
  rewrite firstn_all, Nat.sub_diag. unfold zeros. cbn [repeat]. apply app_nil_r.
Qed.

Lemma c_write_empty d : c_write [] 0 d = d.
Proof.
  unfold c_write, c_grow. change (N.to_nat 0) with 0%nat. cbn [firstn app Nat.add length].
  rewrite skipn_all2; [apply app_nil_r|]. rewrite zeros_length. unfold len. lia.
Qed.

Lemma c_truncate_grow c n : (length c <= N.to_nat n)%nat ->
  c_truncate c n = c ++ zeros (N.to_nat n - length c).
Proof. intros H. unfold c_truncate. now rewrite firstn_all2. Qed.

(* ====================================================================================== *)
(* 5. The stable state and appends (C-A)                                                  *)
(* ====================================================================================== *)

(* the crate never writes partial entries *)
Definition tag (l : list entry) : list (entry * bool) := map (fun e => (e, false)) l.

Lemma tag_app l1 l2 : tag (l1 ++ l2) = tag l1 ++ tag l2.
Proof. apply map_app. Qed.
Lemma tag_fst l : map fst (tag l) = l.
Proof. unfold tag. rewrite map_map. cbn [fst]. apply map_id. Qed.
Lemma tag_length l : length (tag l) = length l.
Proof. apply map_length. Qed.
Lemma tag_nopartial l : forallb (fun x => negb (snd x)) (tag l) = true.
Proof. induction l; [reflexivity | exact IHl]. Qed.
Lemma tag_ok l : forallb (fun x => entry_ok (fst x)) (tag l) = forallb entry_ok l.
Proof. induction l as [|e l IH]; [reflexivity|]. cbn [tag map forallb fst]. now rewrite <- IH. Qed.
Lemma kept_tag l : kept (tag l) = tag l.
Proof. apply kept_nopartial, tag_nopartial. Qed.

Definition entries_size (l : list entry) : N := frames_size (tag l).

(* the result of opening a file in a stable state: nothing to repair *)
Definition stable_result (bits : bool * bool) (h : header) (l : list entry) : open_outcome :=
  mkOpenOutcome (mkOplog bits (N.of_nat (length l)) (entries_size l)) h [] l.

Section Crash.
  Variable cr : crypto.
  Hypothesis Hcrc : crc_ok cr.

  (* the state between two calls: slot states [st0], [st1] selecting header [hc] with bits
     [bits]; the entries area holds exactly the frames of [l], all carrying the current bit *)
  Definition good (s0 s1 body : bytes) (st0 st1 : slot_state) (bits : bool * bool) (hc : header)
             (l : list entry) : Prop :=
    slot_is cr s0 st0 /\ slot_is cr s1 st1 /\ choose st0 st1 = Some (bits, hc) /\
    frames cr (current_bit bits) (tag l) = Ok body /\ forallb entry_ok l = true.

  Lemma open_result_tag bits h l flen :
    open_result bits h (tag l) flen =
    mkOpenOutcome (mkOplog bits (N.of_nat (length l)) (entries_size l)) h
      (if ENTRIES_OFFSET + entries_size l <? flen then [ST Oplog (ENTRIES_OFFSET + entries_size l)] else [])
      l.
  Proof. unfold open_result. rewrite kept_tag, tag_fst, tag_length. reflexivity. Qed.

  (* the slots select (bits, hc); the entries area is frames of l followed by [rest] that does not
     continue the log: open returns l and cuts [rest] *)
  Lemma open_with_garbage s0 s1 fb rest st0 st1 bits hc l :
    slot_is cr s0 st0 -> slot_is cr s1 st1 -> choose st0 st1 = Some (bits, hc) ->
    frames cr (current_bit bits) (tag l) = Ok fb -> forallb entry_ok l = true ->
    no_frame_here cr (current_bit bits) rest ->
    oplog_open cr None (s0 ++ s1 ++ fb ++ rest) =
    Ok (mkOpenOutcome (mkOplog bits (N.of_nat (length l)) (len fb)) hc
          (if 0 <? len rest then [ST Oplog (ENTRIES_OFFSET + len fb)] else []) l).
  Proof.
    intros H0 H1 Hch Hf Hok Hr.
    rewrite (open_slots cr Hcrc s0 s1 (fb ++ rest) st0 st1 bits hc (tag l) rest H0 H1 Hch).
    2:{ exists fb. repeat split; auto. now rewrite tag_ok. }
    rewrite open_result_tag. unfold entries_size. rewrite <- (frames_len _ _ _ _ Hf).
    rewrite len_app.
    replace (ENTRIES_OFFSET + len fb <? ENTRIES_OFFSET + (len fb + len rest)) with (0 <? len rest) by lia.
    reflexivity.
  Qed.

  (* C-A / C-F / C-R "before": reopening a stable state *)
  Theorem good_open s0 s1 body st0 st1 bits hc l :
    good s0 s1 body st0 st1 bits hc l ->
    oplog_open cr None (s0 ++ s1 ++ body) = Ok (stable_result bits hc l).
  Proof.
    intros (H0 & H1 & Hch & Hf & Hok).
    rewrite <- (app_nil_r body).
    rewrite (open_with_garbage s0 s1 body [] st0 st1 bits hc l H0 H1 Hch Hf Hok (no_frame_nil _ _)).
    unfold stable_result, entries_size. now rewrite (frames_len _ _ _ _ Hf).
  Qed.

  Lemma good_len_body s0 s1 body st0 st1 bits hc l :
    good s0 s1 body st0 st1 bits hc l -> len body = entries_size l.
  Proof. intros (_ & _ & _ & Hf & _). exact (frames_len _ _ _ _ Hf). Qed.

  Lemma good_slot_lengths s0 s1 body st0 st1 bits hc l :
    good s0 s1 body st0 st1 bits hc l -> length s0 = SLOT /\ length s1 = SLOT.
  Proof.
    intros (H0 & H1 & _). split; [destruct st0; apply H0 | destruct st1; apply H1].
  Qed.

  (* what oplog_append emits *)
  Lemma oplog_append_inv o e o' ops :
    oplog_append cr o e = Ok (o', ops) ->
    exists payload fr, enc_entry e = Ok payload /\
      frame cr (current_bit (ol_bits o)) false payload = Ok fr /\
      o' = mkOplog (ol_bits o) (ol_entries_len o + 1) (ol_entries_bytes o + len fr) /\
      ops = [SW Oplog (ENTRIES_OFFSET + ol_entries_bytes o) fr].
  Proof.
    unfold oplog_append. intros H. apply bind_ok in H as (payload & Hp & H).
    apply bind_ok in H as (fr & Hf & H). injection H as <- <-.
    exists payload, fr. repeat split; auto.
    destruct (enc_entry e) as [x|[]| |]; cbn [lift_enc] in Hp; try discriminate; exact Hp.
  Qed.

  (* C-A: an append on a stable state.  [o] is the in-memory oplog as reconstructed by open. *)
  Theorem append_crash s0 s1 body st0 st1 bits hc l e o' ops :
    good s0 s1 body st0 st1 bits hc l -> entry_ok e = true ->
    oplog_append cr (oo_oplog (stable_result bits hc l)) e = Ok (o', ops) ->
    let c := s0 ++ s1 ++ body in
    exists fr, ops = [SW Oplog (len c) fr] /\
      (* before the write *)
      oplog_open cr None c = Ok (stable_result bits hc l) /\
      (* complete write: the new state is stable, holds l ++ [e], and the in-memory oplog
         returned by append is the one a reopen reconstructs *)
      c_write c (len c) fr = s0 ++ s1 ++ (body ++ fr) /\
      good s0 s1 (body ++ fr) st0 st1 bits hc (l ++ [e]) /\
      oplog_open cr None (c_write c (len c) fr) = Ok (stable_result bits hc (l ++ [e])) /\
      o' = oo_oplog (stable_result bits hc (l ++ [e])) /\
      (* torn write: only t bytes of the frame reached the store *)
      forall t, (t < length fr)%nat ->
        oplog_open cr None (c_write c (len c) (firstn t fr)) =
          Ok (mkOpenOutcome (oo_oplog (stable_result bits hc l)) hc
                (if 0 <? N.of_nat t then [ST Oplog (len c)] else []) l) /\
        (* and the truncate issued by that open restores the old content *)
        c_truncate (c_write c (len c) (firstn t fr)) (len c) = c.
  Proof.
    intros G He Ha c.
    pose proof G as (H0 & H1 & Hch & Hf & Hok).
    destruct (good_slot_lengths _ _ _ _ _ _ _ _ G) as [L0 L1].
    pose proof (good_len_body _ _ _ _ _ _ _ _ G) as Lb.
    apply oplog_append_inv in Ha as (payload & fr & Hp & Hfr & -> & ->).
    cbn [stable_result oo_oplog ol_bits ol_entries_bytes ol_entries_len] in *.
    assert (Lc : len c = ENTRIES_OFFSET + entries_size l).
    { subst c. rewrite len_two_slots by assumption. now rewrite Lb. }
    exists fr. split; [now rewrite Lc|].
    split; [now apply good_open with (st0 := st0) (st1 := st1)|].
    assert (W : c_write c (len c) fr = s0 ++ s1 ++ body ++ fr).
    { rewrite c_write_end. subst c. now rewrite <- !app_assoc. }
    assert (Hf' : frames cr (current_bit bits) (tag (l ++ [e])) = Ok (body ++ fr)).
    { rewrite tag_app. apply frames_app; [exact Hf|]. eapply frames_single; eauto. }
    assert (G' : good s0 s1 (body ++ fr) st0 st1 bits hc (l ++ [e])).
    { repeat split; auto. rewrite forallb_app, Hok. cbn [forallb]. now rewrite He. }
    split; [exact W|]. split; [exact G'|].
    split; [rewrite W; now apply good_open with (st0 := st0) (st1 := st1)|].
    split.
    { unfold entries_size. rewrite app_length. cbn [length].
      rewrite <- (frames_len _ _ _ _ Hf'), len_app, <- (frames_len _ _ _ _ Hf).
      f_equal. lia. }
    intros t Ht. split.
    - rewrite c_write_end. subst c. rewrite <- !app_assoc.
      rewrite (open_with_garbage s0 s1 body (firstn t fr) st0 st1 bits hc l H0 H1 Hch Hf Hok).
      2:{ left. eapply validate_torn_entry_strong; eauto. }
      rewrite len_two_slots by assumption. rewrite Lb.
      replace (len (firstn t fr)) with (N.of_nat t) by (unfold len; rewrite firstn_length; lia).
      reflexivity.
    - rewrite c_write_end. unfold c_truncate.
      replace (N.to_nat (len c)) with (length c) by (unfold len; lia).
      rewrite firstn_app_exact by reflexivity.
      replace (length c - length (c ++ firstn t fr))%nat with 0%nat by (rewrite app_length; lia).
      unfold zeros. cbn [repeat]. apply app_nil_r.
  Qed.


  (* ==================================================================================== *)
  (* 6. Header writes: flush (C-F) and make_read_only (C-R)                               *)
  (* ==================================================================================== *)

  Definition w_slot (bits : bool * bool) : N := fst (fst (next_slot bits)).
  Definition w_bit (bits : bool * bool) : bool := snd (fst (next_slot bits)).
  Definition w_bits (bits : bool * bool) : bool * bool := snd (next_slot bits).

  (* slot contents after writing [d] at offset [slot] (0 or 4096) *)
  Definition put0 (slot : N) (d s0 : bytes) : bytes := if slot =? 0 then overlay d s0 else s0.
  Definition put1 (slot : N) (d s1 : bytes) : bytes := if slot =? 0 then s1 else overlay d s1.

  (* the header fits its slot.  With clear_traces the crate checks it; without, the buffer is
     8 + 2 * (payload length) bytes long and nothing checks that this stays below 4096 *)
  Definition hdr_fits (ct : bool) (h : header) : Prop :=
    ct = true \/ 8 + 2 * len (enc_header h) <= HEADER_SIZE.

  Lemma w_slot_cases bits : w_slot bits = 0 \/ w_slot bits = HEADER_SIZE.
  Proof. destruct bits as [[] []]; cbv; auto. Qed.

  Lemma w_bits_current bits : current_bit (w_bits bits) = negb (current_bit bits).
  Proof. destruct bits as [[] []]; reflexivity. Qed.

  Lemma c_write_slot s0 s1 body bits d :
    length s0 = SLOT -> length s1 = SLOT -> (length d <= SLOT)%nat ->
    c_write (s0 ++ s1 ++ body) (w_slot bits) d =
    put0 (w_slot bits) d s0 ++ put1 (w_slot bits) d s1 ++ body.
  Proof.
    intros H0 H1 Hd. unfold put0, put1. destruct (w_slot_cases bits) as [-> | ->].
    - change (0 =? 0) with true. cbv iota. now apply c_write_slot0.
    - change (HEADER_SIZE =? 0) with false. cbv iota. now apply c_write_slot1.
  Qed.

  Lemma insert_header_inv h eb bits ct bits' ops :
    insert_header cr h eb bits ct = Ok (bits', ops) ->
    exists fr pad, frame cr (w_bit bits) false (enc_header h) = Ok fr /\ bits' = w_bits bits /\
      ops = [SW Oplog (w_slot bits) (fr ++ pad); ST Oplog (ENTRIES_OFFSET + eb)] /\
      (ct = true -> length (fr ++ pad) = SLOT) /\
      (hdr_fits ct h -> (length (fr ++ pad) <= SLOT)%nat).
  Proof.
    unfold insert_header, w_bit, w_bits, w_slot.
    destruct (next_slot bits) as [[slot bit] b'] eqn:E. cbn [fst snd].
    intros H. apply bind_ok in H as (fr & Hf & H).
    destruct (N.ltb_spec (if ct then HEADER_SIZE else 8 + 2 * len (enc_header h)) (len fr)) as [Hlt|Hge];
      [discriminate|].
    injection H as <- <-. unfold pad_to.
    exists fr. eexists. split; [exact Hf|]. split; [reflexivity|]. split; [reflexivity|].
    pose proof (frame_length _ _ _ _ _ Hf) as Lf.
    split.
    - intros ->. rewrite app_length, zeros_length. unfold len, HEADER_SIZE in *. lia.
    - intros [-> | Hfit]; rewrite app_length, zeros_length; unfold len, HEADER_SIZE in *; [lia|].
      destruct ct; lia.
  Qed.

  Lemma overlay_slot_holds fr pad s h b :
    frame cr b false (enc_header h) = Ok fr -> length s = SLOT ->
    (length (fr ++ pad) <= SLOT)%nat -> slot_holds cr (overlay (fr ++ pad) s) h b.
  Proof.
    intros Hf Hs Hl. split.
    - rewrite overlay_length; [exact Hs | lia].
    - exists fr. eexists. split; [exact Hf|]. unfold overlay. rewrite <- app_assoc. reflexivity.
  Qed.

  Lemma choose_after_write st0 st1 bits hc hn :
    choose st0 st1 = Some (bits, hc) ->
    choose (if w_slot bits =? 0 then SValid hn (w_bit bits) else st0)
           (if w_slot bits =? 0 then st1 else SValid hn (w_bit bits)) = Some (w_bits bits, hn).
  Proof.
    destruct st0 as [h0 b0|], st1 as [h1 b1|]; cbn [choose]; intros E; try discriminate;
      injection E as <- <-.
    - destruct b0, b1; reflexivity.
    - destruct b0; reflexivity.
    - destruct b1; reflexivity.
  Qed.

  (* the written slot is never the one holding the current header *)
  Lemma choose_after_torn st0 st1 bits hc :
    choose st0 st1 = Some (bits, hc) ->
    choose (if w_slot bits =? 0 then SInvalid else st0)
           (if w_slot bits =? 0 then st1 else SInvalid) = Some (bits, hc).
  Proof.
    destruct st0 as [h0 b0|], st1 as [h1 b1|]; cbn [choose]; intros E; try discriminate;
      injection E as <- <-.
    - destruct b0, b1; reflexivity.
    - destruct b0; reflexivity.
    - destruct b1; reflexivity.
  Qed.

  Lemma header_write_step s0 s1 st0 st1 bits hc hn eb ct bits' ops :
    slot_is cr s0 st0 -> slot_is cr s1 st1 -> choose st0 st1 = Some (bits, hc) ->
    header_ok hn = true -> hdr_fits ct hn ->
    insert_header cr hn eb bits ct = Ok (bits', ops) ->
    exists fr pad,
      frame cr (w_bit bits) false (enc_header hn) = Ok fr /\ (length (fr ++ pad) <= SLOT)%nat /\
      (ct = true -> length (fr ++ pad) = SLOT) /\
      bits' = w_bits bits /\
      ops = [SW Oplog (w_slot bits) (fr ++ pad); ST Oplog (ENTRIES_OFFSET + eb)] /\
      (forall body, c_write (s0 ++ s1 ++ body) (w_slot bits) (fr ++ pad) =
                    put0 (w_slot bits) (fr ++ pad) s0 ++ put1 (w_slot bits) (fr ++ pad) s1 ++ body) /\
      exists st0' st1', slot_is cr (put0 (w_slot bits) (fr ++ pad) s0) st0' /\
                        slot_is cr (put1 (w_slot bits) (fr ++ pad) s1) st1' /\
                        choose st0' st1' = Some (bits', hn) /\
                        current_bit bits' = negb (current_bit bits).
  Proof.
    intros H0 H1 Hch Hok Hfit Hins.
    assert (L0 : length s0 = SLOT) by (destruct st0; apply H0).
    assert (L1 : length s1 = SLOT) by (destruct st1; apply H1).
    apply insert_header_inv in Hins as (fr & pad & Hf & -> & -> & Hct & Hl).
    specialize (Hl Hfit). exists fr, pad.
    split; [exact Hf|]. split; [exact Hl|]. split; [exact Hct|]. split; [reflexivity|].
    split; [reflexivity|].
    split; [intros body; now apply c_write_slot|].
    exists (if w_slot bits =? 0 then SValid hn (w_bit bits) else st0),
           (if w_slot bits =? 0 then st1 else SValid hn (w_bit bits)).
    split; [|split; [|split]].
    - unfold put0. destruct (w_slot bits =? 0); [|exact H0].
      split; [exact Hok|]. now apply overlay_slot_holds.
    - unfold put1. destruct (w_slot bits =? 0); [exact H1|].
      split; [exact Hok|]. now apply overlay_slot_holds.
    - eapply choose_after_write; eauto.
    - apply w_bits_current.
  Qed.

  (* the state right after a header write, before its truncate: the new header is current, the
     old entries carry the old entry bit and are cut by open *)
  Lemma open_after_header_write s0 s1 body st0 st1 bits hn cb l :
    slot_is cr s0 st0 -> slot_is cr s1 st1 -> choose st0 st1 = Some (bits, hn) ->
    current_bit bits = negb cb -> frames cr cb (tag l) = Ok body ->
    oplog_open cr None (s0 ++ s1 ++ body) =
    Ok (mkOpenOutcome (mkOplog bits 0 0) hn (if 0 <? len body then [ST Oplog ENTRIES_OFFSET] else []) []).
  Proof.
    intros H0 H1 Hch Hcb Hf.
    change body with ([] ++ body).
    rewrite (open_with_garbage s0 s1 [] body st0 st1 bits hn [] H0 H1 Hch); auto.
    rewrite Hcb. eapply old_body_no_frame; eauto.
  Qed.

  (* C-F: flush of a new header [hn] on a stable state *)
  Theorem flush_crash s0 s1 body st0 st1 bits hc l hn o o' ops :
    good s0 s1 body st0 st1 bits hc l -> header_ok hn = true -> hdr_fits false hn ->
    ol_bits o = bits -> oplog_flush cr o hn false = Ok (o', ops) ->
    let c := s0 ++ s1 ++ body in
    exists w s0' s1' st0' st1',
      ops = [w; ST Oplog (ENTRIES_OFFSET + 0)] /\
      (* before *)
      oplog_open cr None c = Ok (stable_result bits hc l) /\
      (* after the slot write, before the truncate: new header, no entries; open cuts the
         stale entries itself *)
      c_apply c w = Some (s0' ++ s1' ++ body) /\
      oplog_open cr None (s0' ++ s1' ++ body) =
        Ok (mkOpenOutcome (mkOplog (ol_bits o') 0 0) hn
              (if 0 <? len body then [ST Oplog ENTRIES_OFFSET] else []) []) /\
      (* after the truncate: stable again *)
      c_apply (s0' ++ s1' ++ body) (ST Oplog (ENTRIES_OFFSET + 0)) = Some (s0' ++ s1' ++ []) /\
      good s0' s1' [] st0' st1' (ol_bits o') hn [] /\
      oplog_open cr None (s0' ++ s1' ++ []) = Ok (stable_result (ol_bits o') hn []) /\
      o' = oo_oplog (stable_result (ol_bits o') hn []).
  Proof.
    intros G Hok Hfit Hb Hfl c.
    pose proof G as (H0 & H1 & Hch & Hf & Hoks).
    unfold oplog_flush in Hfl. apply bind_ok in Hfl as ([bits1 ops1] & Hins & Hfl).
    injection Hfl as <- <-. rewrite Hb in Hins.
    destruct (header_write_step s0 s1 st0 st1 bits hc hn 0 false bits1 ops1 H0 H1 Hch Hok Hfit Hins)
      as (fr & pad & Hfr & Hl & _ & -> & -> & Hw & st0' & st1' & S0 & S1 & Hch' & Hcb).
    exists (SW Oplog (w_slot bits) (fr ++ pad)), (put0 (w_slot bits) (fr ++ pad) s0),
           (put1 (w_slot bits) (fr ++ pad) s1), st0', st1'.
    cbn [ol_bits].
    assert (L0 : length (put0 (w_slot bits) (fr ++ pad) s0) = SLOT) by (destruct st0'; apply S0).
    assert (L1 : length (put1 (w_slot bits) (fr ++ pad) s1) = SLOT) by (destruct st1'; apply S1).
    assert (G' : good (put0 (w_slot bits) (fr ++ pad) s0) (put1 (w_slot bits) (fr ++ pad) s1) []
                      st0' st1' (w_bits bits) hn []).
    { repeat split; auto. }
    split; [reflexivity|].
    split; [now apply good_open with (st0 := st0) (st1 := st1)|].
    split; [cbn [c_apply]; subst c; now rewrite Hw|].
    split; [eapply open_after_header_write; eauto|].
    split; [cbn [c_apply]; rewrite N.add_0_r; now rewrite c_truncate_all_entries|].
    split; [exact G'|].
    split; [now apply good_open with (st0 := st0') (st1 := st1')|].
    reflexivity.
  Qed.


  (* C-R: make_read_only = flush with clear_traces: both slots are rewritten with [hn] (the header
     without the secret key), each write followed by its truncate.  Journal:
     [write slot A; truncate 8192; write slot B; truncate 8192]. *)
  Theorem read_only_crash s0 s1 body st0 st1 bits hc l hn o o' ops :
    good s0 s1 body st0 st1 bits hc l -> header_ok hn = true ->
    ol_bits o = bits -> oplog_flush cr o hn true = Ok (o', ops) ->
    let c := s0 ++ s1 ++ body in
    let T := ST Oplog (ENTRIES_OFFSET + 0) in
    exists w1 w2 a0 a1 sa0 sa1 bits1 b0 b1 sb0 sb1,
      ops = [w1; T; w2; T] /\
      (* cut 0: before *)
      oplog_open cr None c = Ok (stable_result bits hc l) /\
      (* cut 1: first slot written: new header, no entries (open cuts the stale ones) *)
      c_apply c w1 = Some (a0 ++ a1 ++ body) /\
      oplog_open cr None (a0 ++ a1 ++ body) =
        Ok (mkOpenOutcome (mkOplog bits1 0 0) hn (if 0 <? len body then [ST Oplog ENTRIES_OFFSET] else []) []) /\
      (* cut 2: first truncate done: stable, new header, the entries are gone from the file *)
      c_apply (a0 ++ a1 ++ body) T = Some (a0 ++ a1 ++ []) /\
      good a0 a1 [] sa0 sa1 bits1 hn [] /\
      oplog_open cr None (a0 ++ a1 ++ []) = Ok (stable_result bits1 hn []) /\
      (* cut 3: second slot written: stable, new header in both slots *)
      c_apply (a0 ++ a1 ++ []) w2 = Some (b0 ++ b1 ++ []) /\
      good b0 b1 [] sb0 sb1 (ol_bits o') hn [] /\
      oplog_open cr None (b0 ++ b1 ++ []) = Ok (stable_result (ol_bits o') hn []) /\
      (exists b b', sb0 = SValid hn b /\ sb1 = SValid hn b') /\
      (* cut 4: the last truncate changes nothing *)
      c_apply (b0 ++ b1 ++ []) T = Some (b0 ++ b1 ++ []) /\
      o' = oo_oplog (stable_result (ol_bits o') hn []) /\
      (* had the first truncate been left out (the bug), the second slot write would flip the
         entry bit back and resurrect the old entries under the new header *)
      (exists x0 x1, c_apply (a0 ++ a1 ++ body) w2 = Some (x0 ++ x1 ++ body) /\
         oplog_open cr None (x0 ++ x1 ++ body) = Ok (stable_result (ol_bits o') hn l)).
  Proof.
    intros G Hok Hb Hfl c T.
    pose proof G as (H0 & H1 & Hch & Hf & Hoks).
    unfold oplog_flush in Hfl. apply bind_ok in Hfl as ([bits1 ops1] & Hins1 & Hfl).
    apply bind_ok in Hfl as ([bits2 ops2] & Hins2 & Hfl).
    injection Hfl as <- <-. rewrite Hb in Hins1. cbn [ol_bits].
    destruct (header_write_step s0 s1 st0 st1 bits hc hn 0 true bits1 ops1 H0 H1 Hch Hok (or_introl eq_refl) Hins1)
      as (fr1 & pad1 & Hfr1 & Hl1 & Hfull1 & -> & -> & Hw1 & sa0 & sa1 & A0 & A1 & HchA & HcbA).
    set (a0 := put0 (w_slot bits) (fr1 ++ pad1) s0) in *.
    set (a1 := put1 (w_slot bits) (fr1 ++ pad1) s1) in *.
    destruct (header_write_step a0 a1 sa0 sa1 (w_bits bits) hn hn 0 true bits2 ops2 A0 A1 HchA Hok (or_introl eq_refl) Hins2)
      as (fr2 & pad2 & Hfr2 & Hl2 & Hfull2 & -> & -> & Hw2 & sb0 & sb1 & B0 & B1 & HchB & HcbB).
    set (b0 := put0 (w_slot (w_bits bits)) (fr2 ++ pad2) a0) in *.
    set (b1 := put1 (w_slot (w_bits bits)) (fr2 ++ pad2) a1) in *.
    exists (SW Oplog (w_slot bits) (fr1 ++ pad1)), (SW Oplog (w_slot (w_bits bits)) (fr2 ++ pad2)).
    exists a0, a1, sa0, sa1, (w_bits bits), b0, b1.
    (* the second write goes to the other slot: both slots now hold hn *)
    assert (Hboth : exists sb0' sb1', slot_is cr b0 sb0' /\ slot_is cr b1 sb1' /\
                      choose sb0' sb1' = Some (w_bits (w_bits bits), hn) /\
                      exists b b', sb0' = SValid hn b /\ sb1' = SValid hn b').
    { assert (LA0 : length a0 = SLOT) by (destruct sa0; apply A0).
      assert (LA1 : length a1 = SLOT) by (destruct sa1; apply A1).
      assert (L0 : length s0 = SLOT) by (destruct st0; apply H0).
      assert (L1 : length s1 = SLOT) by (destruct st1; apply H1).
      subst b0 b1 a0 a1. unfold put0, put1 in *.
      destruct (w_slot_cases bits) as [E|E]; rewrite E in *.
      - assert (E2 : w_slot (w_bits bits) = HEADER_SIZE) by (destruct bits as [[] []]; cbv in E |- *; congruence).
        rewrite E2 in *. change (0 =? 0) with true in *. change (HEADER_SIZE =? 0) with false in *. cbv iota in *.
        exists (SValid hn (w_bit bits)), (SValid hn (w_bit (w_bits bits))).
        split; [split; [exact Hok | now apply overlay_slot_holds]|].
        split; [split; [exact Hok | now apply overlay_slot_holds]|].
        split; [|eauto]. destruct bits as [[] []]; cbv in E; try discriminate E; reflexivity.
      - assert (E2 : w_slot (w_bits bits) = 0) by (destruct bits as [[] []]; cbv in E |- *; congruence).
        rewrite E2 in *. change (0 =? 0) with true in *. change (HEADER_SIZE =? 0) with false in *. cbv iota in *.
        exists (SValid hn (w_bit (w_bits bits))), (SValid hn (w_bit bits)).
        split; [split; [exact Hok | now apply overlay_slot_holds]|].
        split; [split; [exact Hok | now apply overlay_slot_holds]|].
        split; [|eauto]. destruct bits as [[] []]; cbv in E; try discriminate E; reflexivity. }
    destruct Hboth as (sb0' & sb1' & B0' & B1' & HchB' & Hvalid).
    exists sb0', sb1'.
    assert (LA0 : length a0 = SLOT) by (destruct sa0; apply A0).
    assert (LA1 : length a1 = SLOT) by (destruct sa1; apply A1).
    assert (LB0 : length b0 = SLOT) by (destruct sb0; apply B0).
    assert (LB1 : length b1 = SLOT) by (destruct sb1; apply B1).
    assert (GA : good a0 a1 [] sa0 sa1 (w_bits bits) hn []) by (repeat split; auto).
    assert (GB : good b0 b1 [] sb0' sb1' (w_bits (w_bits bits)) hn []) by (repeat split; auto).
    split; [reflexivity|].
    split; [now apply good_open with (st0 := st0) (st1 := st1)|].
    split; [cbn [c_apply]; subst c; now rewrite Hw1|].
    split; [eapply open_after_header_write; eauto|].
    split; [subst T; cbn [c_apply]; rewrite N.add_0_r; now rewrite c_truncate_all_entries|].
    split; [exact GA|].
    split; [now apply good_open with (st0 := sa0) (st1 := sa1)|].
    split; [cbn [c_apply]; now rewrite Hw2|].
    split; [exact GB|].
    split; [now apply good_open with (st0 := sb0') (st1 := sb1')|].
    split; [exact Hvalid|].
    split; [subst T; cbn [c_apply]; rewrite N.add_0_r; now rewrite c_truncate_all_entries|].
    split; [reflexivity|].
    exists b0, b1. split; [cbn [c_apply]; now rewrite Hw2|].
    apply good_open with (st0 := sb0') (st1 := sb1'). repeat split; auto.
    replace (current_bit (w_bits (w_bits bits))) with (current_bit bits); [exact Hf|].
    rewrite !w_bits_current. now rewrite negb_involutive.
  Qed.

  (* the lemma named in the task: in the make_read_only journal the content the second slot
     write is applied to has no entries area at all (length exactly 8192), whatever entries the
     log held before; so the entry bit flipping back cannot resurrect anything *)
  Corollary second_slot_write_sees_no_entries s0 s1 body st0 st1 bits hc l hn o o' ops c2 :
    good s0 s1 body st0 st1 bits hc l -> header_ok hn = true ->
    ol_bits o = bits -> oplog_flush cr o hn true = Ok (o', ops) ->
    c_apply_all (s0 ++ s1 ++ body) (firstn 2 ops) = Some c2 ->
    len c2 = ENTRIES_OFFSET /\
    exists w2 c3, nth_error ops 2 = Some w2 /\ c_apply c2 w2 = Some c3 /\
      oplog_open cr None c3 = Ok (stable_result (ol_bits o') hn []).
  Proof.
    intros G Hok Hb Hfl Hc2.
    destruct (read_only_crash _ _ _ _ _ _ _ _ hn o o' ops G Hok Hb Hfl)
      as (w1 & w2 & a0 & a1 & sa0 & sa1 & bits1 & b0 & b1 & sb0 & sb1 & -> & _ & C1 & _ & C2 & GA & _ & C3 & GB & O3 & _).
    cbn [firstn c_apply_all] in Hc2. rewrite C1, C2 in Hc2. injection Hc2 as <-.
    destruct (good_slot_lengths _ _ _ _ _ _ _ _ GA) as [LA0 LA1].
    split; [now rewrite len_two_slots|].
    exists w2, (b0 ++ b1 ++ []). cbn [nth_error]. auto.
  Qed.


  (* ==================================================================================== *)
  (* 7. Torn header writes (C07)                                                          *)
  (* ==================================================================================== *)

  Lemma validate_leader_inv buf ld : validate_leader cr buf = Some ld ->
    exists c lf data, buf = c ++ lf ++ data /\ length c = 4%nat /\ length lf = 4%nat /\
      le_val lf / 4 <> 0 /\ le_val lf / 4 <= len data /\
      cr_crc cr (lf ++ firstn (N.to_nat (le_val lf / 4)) data) = le_val c /\
      ld = mkLeader (N.odd (le_val lf)) (N.odd (le_val lf / 2)) (le_val lf / 4) data.
  Proof.
    unfold validate_leader. destruct (take 4 buf) as [[c r1]|] eqn:E1; [|discriminate].
    destruct (take 4 r1) as [[lf data]|] eqn:E2; [|discriminate].
    apply take_length in E1 as [-> Lc]. apply take_length in E2 as [-> Ll]. cbv zeta.
    destruct (N.eqb_spec (le_val lf / 4) 0) as [Z|NZ]; cbn [orb]; [discriminate|].
    destruct (N.ltb_spec (len data) (le_val lf / 4)) as [Lt|Ge]; [discriminate|].
    destruct (N.eqb_spec (cr_crc cr (lf ++ firstn (N.to_nat (le_val lf / 4)) data)) (le_val c)) as [Eq|Ne];
      [|discriminate].
    intros [= <-]. exists c, lf, data. repeat split; auto.
  Qed.

  Lemma app_eq_len {A} (a a' b b' : list A) :
    a ++ b = a' ++ b' -> length a = length a' -> a = a' /\ b = b'.
  Proof.
    revert a'. induction a as [|x a IH]; intros [|y a'] H L; cbn [length] in L; try discriminate.
    - auto.
    - cbn [app] in H. injection H as -> H. injection L as L. destruct (IH _ H L) as [-> ->]. auto.
  Qed.

  Lemma le_bytes_le_val c : bytes_ok c = true -> le_bytes (length c) (le_val c) = c.
  Proof.
    induction c as [|b c IH]; [reflexivity|]. cbn [bytes_ok forallb]. intros H.
    apply andb_prop in H as [Hb Hc]. unfold byte_ok in Hb.
    cbn [length le_bytes le_val]. f_equal; [lia|].
    replace ((b + 256 * le_val c) / 256) with (le_val c) by lia. now apply IH.
  Qed.

  Lemma bytes_ok_firstn n b : bytes_ok b = true -> bytes_ok (firstn n b) = true.
  Proof.
    intros H. rewrite <- (firstn_skipn n b), bytes_ok_app in H. now apply andb_prop in H.
  Qed.
  Lemma bytes_ok_skipn n b : bytes_ok b = true -> bytes_ok (skipn n b) = true.
  Proof.
    intros H. rewrite <- (firstn_skipn n b), bytes_ok_app in H. now apply andb_prop in H.
  Qed.

  Definition collision (t : nat) : Prop :=
    exists x y : bytes, x <> y /\ cr_crc cr x = cr_crc cr y /\ ((8 <= t)%nat -> length x = length y).

  (* the content of a slot [s] after the first [t] bytes of the buffer [fr ++ pad] reached it *)
  Lemma torn_slot_cases bit payload fr pad s t :
    frame cr bit false payload = Ok fr -> length s = SLOT ->
    (length (fr ++ pad) <= SLOT)%nat -> (t <= length (fr ++ pad))%nat ->
    let m := overlay (firstn t (fr ++ pad)) s in
    length m = SLOT /\
    ( validate_leader cr m = None
      \/ (exists tail, m = fr ++ tail)
      \/ ((t <= 4)%nat /\ m = (firstn t fr ++ skipn t (firstn 4 s)) ++ skipn 4 s)
      \/ collision t ).
  Proof.
    intros Hf Ls Lb Ht m.
    assert (Lm : length m = SLOT).
    { subst m. rewrite overlay_length; [exact Ls|]. rewrite firstn_length. lia. }
    split; [exact Lm|].
    assert (Hm : m = firstn t (fr ++ pad) ++ skipn t s).
    { subst m. unfold overlay. rewrite firstn_length. f_equal. f_equal. lia. }
    pose proof (frame_length _ _ _ _ _ Hf) as Lfr. unfold len in Lfr.
    destruct (Nat.le_gt_cases (length fr) t) as [Hge|Hlt].
    { right; left. exists (firstn (t - length fr) pad ++ skipn t s).
      rewrite Hm, firstn_app, (firstn_all2 fr) by lia. now rewrite <- app_assoc. }
    destruct (Nat.le_gt_cases t 4) as [H4|H4].
    { right; right; left. split; [exact H4|].
      rewrite Hm, firstn_app. replace (t - length fr)%nat with 0%nat by lia.
      cbn [firstn]. rewrite app_nil_r, <- app_assoc. f_equal.
      rewrite <- (firstn_skipn 4 s) at 1. rewrite skipn_app, firstn_length.
      replace (t - Nat.min 4 (length s))%nat with 0%nat by (unfold HEADER_SIZE in Ls; lia).
      reflexivity. }
    destruct (validate_leader cr m) as [ld|] eqn:V; [|now left].
    right.
    apply validate_leader_inv in V as (c & lf & data & Em & Lc & Ll & Hnz & Hle & Hcrc' & _).
    apply frame_inv in Hf as [Hlen Efr].
    destruct (len_field_facts (len payload) bit false Hlen) as (Hlf & Hdiv & _).
    set (lfn := le_bytes 4 (len_field (len payload) bit false)) in *.
    set (cn := le_bytes 4 (cr_crc cr (lfn ++ payload))) in *.
    assert (Lcn : length cn = 4%nat) by apply length_le_bytes.
    assert (Llfn : length lfn = 4%nat) by apply length_le_bytes.
    assert (Hm2 : m = cn ++ firstn (t - 4) (lfn ++ payload ++ pad) ++ skipn t s).
    { rewrite Hm, Efr, <- !app_assoc, firstn_app, (firstn_all2 cn), Lcn by lia.
      now rewrite <- app_assoc. }
    rewrite Hm2 in Em. symmetry in Em. apply app_eq_len in Em as [-> Em]; [|lia].
    assert (Hv : le_val cn = cr_crc cr (lfn ++ payload)) by (apply le_val_le_bytes, Hcrc).
    destruct (list_eq_dec N.eq_dec (lf ++ firstn (N.to_nat (le_val lf / 4)) data) (lfn ++ payload))
      as [E|NE].
    - left. apply app_eq_len in E as [-> E2]; [|lia].
      exists (skipn (N.to_nat (le_val lfn / 4)) data).
      rewrite Hm2, <- Em, Efr, <- E2, <- !app_assoc, firstn_skipn. reflexivity.
    - right; right. exists (lf ++ firstn (N.to_nat (le_val lf / 4)) data), (lfn ++ payload).
      split; [exact NE|]. split; [congruence|].
      intros H8.
      assert (Elf : lf = lfn).
      { rewrite firstn_app, (firstn_all2 lfn), Llfn, <- app_assoc in Em by lia.
        apply app_eq_len in Em as [-> _]; [reflexivity | lia]. }
      subst lf. rewrite !app_length. f_equal.
      assert (Hvl : le_val lfn = len_field (len payload) bit false) by (apply le_val_le_bytes, Hlf).
      rewrite Hvl, Hdiv in *. rewrite firstn_length. unfold len in *. lia.
  Qed.

  (* if only (part of) the CRC field of a valid slot was overwritten, the slot is either no
     frame any more or still the same frame *)
  Lemma crc_field_determined b p payload fro tail c4 ld :
    frame cr b p payload = Ok fro -> payload <> [] ->
    length c4 = 4%nat -> bytes_ok c4 = true ->
    validate_leader cr (c4 ++ skipn 4 (fro ++ tail)) = Some ld -> c4 = firstn 4 (fro ++ tail).
  Proof.
    intros Hf Hne L4 Hok V.
    apply frame_inv in Hf as [Hlen ->].
    destruct (len_field_facts (len payload) b p Hlen) as (Hlf & Hdiv & _).
    set (lfo := le_bytes 4 (len_field (len payload) b p)) in *.
    set (co := le_bytes 4 (cr_crc cr (lfo ++ payload))) in *.
    assert (Lco : length co = 4%nat) by apply length_le_bytes.
    assert (Llfo : length lfo = 4%nat) by apply length_le_bytes.
    rewrite <- !app_assoc in *. rewrite skipn_app_exact in V by assumption.
    rewrite firstn_app_exact by assumption.
    apply validate_leader_inv in V as (c & lf & data & Em & Lc & Ll & _ & Hle & Hc & _).
    apply app_eq_len in Em as [<- Em]; [|lia]. apply app_eq_len in Em as [<- <-]; [|lia].
    assert (Hvl : le_val lfo = len_field (len payload) b p) by (apply le_val_le_bytes, Hlf).
    rewrite Hvl, Hdiv in Hc. unfold len in Hc at 1. rewrite Nat2N.id, firstn_app_exact in Hc by reflexivity.
    rewrite <- (le_bytes_le_val c4 Hok), L4, <- Hc. reflexivity.
  Qed.

  (* a slot that no CRC field can make valid: e.g. the never written, zero filled slot 1 of a
     fresh log *)
  Definition slot_dead (s : bytes) : Prop :=
    length s = SLOT /\ forall c4, length c4 = 4%nat -> validate_leader cr (c4 ++ skipn 4 s) = None.

  Lemma slot_dead_invalid s : slot_dead s -> slot_invalid cr s.
  Proof.
    intros [L D]. split; [exact L|].
    rewrite <- (firstn_skipn 4 s). apply D. rewrite firstn_length. unfold HEADER_SIZE in L. lia.
  Qed.

  Lemma zero_length_field_dead s r :
    length s = SLOT -> skipn 4 s = [0; 0; 0; 0] ++ r -> slot_dead s.
  Proof.
    intros L E. split; [exact L|]. intros c4 L4. rewrite E. unfold validate_leader.
    rewrite (take_app_n 4) by assumption. rewrite (take_app_n 4) by reflexivity. reflexivity.
  Qed.

  Lemma zeros_dead : slot_dead (zeros SLOT).
  Proof.
    apply (zero_length_field_dead _ (zeros (SLOT - 8))); [apply zeros_length | reflexivity].
  Qed.

  (* the state of the written slot after a torn header write *)
  Lemma torn_slot_state bit hn fr pad s st t :
    frame cr bit false (enc_header hn) = Ok fr -> header_ok hn = true -> slot_is cr s st ->
    (length (fr ++ pad) <= SLOT)%nat -> (t <= length (fr ++ pad))%nat ->
    ((t <= 4)%nat -> st = SInvalid -> slot_dead s) ->
    let m := overlay (firstn t (fr ++ pad)) s in
    slot_is cr m SInvalid \/ slot_is cr m (SValid hn bit) \/ slot_is cr m st \/ collision t.
  Proof.
    intros Hf Hok Hs Lb Ht Hdead m.
    assert (Ls : length s = SLOT) by (destruct st; apply Hs).
    destruct (torn_slot_cases bit (enc_header hn) fr pad s t Hf Ls Lb Ht) as [Lm Hcases].
    fold m in Lm, Hcases.
    destruct (validate_leader cr m) as [ld|] eqn:V; [|left; split; auto].
    destruct Hcases as [C|[(tail & E)|[[H4 E]|C]]].
    - congruence.
    - right; left. split; [exact Hok|]. split; [exact Lm|]. exists fr, tail. auto.
    - right; right; left. destruct st as [ho bo|].
      + destruct Hs as [Hoko (_ & fro & tailo & Hfo & ->)].
        assert (E4 : firstn t fr ++ skipn t (firstn 4 (fro ++ tailo)) = firstn 4 (fro ++ tailo)).
        { rewrite E in V. eapply crc_field_determined; eauto.
          - apply enc_header_nonempty.
          - rewrite app_length, firstn_length, skipn_length, firstn_length.
            pose proof (frame_length _ _ _ _ _ Hf) as Lfr. unfold len in Lfr.
            unfold HEADER_SIZE in Ls. lia.
          - rewrite bytes_ok_app. apply andb_true_intro. split.
            + apply frame_inv in Hf as [_ ->]. rewrite firstn_app, length_le_bytes.
              replace (t - 4)%nat with 0%nat by lia. cbn [firstn]. rewrite app_nil_r.
              apply bytes_ok_firstn, bytes_ok_le_bytes.
            + apply bytes_ok_skipn. apply frame_inv in Hfo as [_ ->].
              rewrite <- !app_assoc, firstn_app_exact by apply length_le_bytes.
              apply bytes_ok_le_bytes. }
        rewrite E4, firstn_skipn in E. rewrite E.
        split; [exact Hoko|]. split; [exact Ls|]. exists fro, tailo. auto.
      + exfalso. destruct (Hdead H4 eq_refl) as [_ D]. rewrite E, D in V; [discriminate|].
        rewrite app_length, firstn_length, skipn_length, firstn_length.
        pose proof (frame_length _ _ _ _ _ Hf) as Lfr. unfold len in Lfr.
        unfold HEADER_SIZE in Ls. lia.
    - right; right; right. exact C.
  Qed.


  (* C07 for header slots.  State: stable (s0, s1, body) selecting (bits, hc) with entries l.
     The header write emitted by [insert_header] is torn after t bytes.  Reopening gives exactly
     the state before, or exactly the state after the complete write, unless the run exhibits
     a CRC collision.  Side condition: when the tear falls inside the 4-byte CRC field of a slot
     that was ALREADY invalid, that slot must be dead (see [slot_dead]); for an arbitrary invalid
     slot the statement is false, see [torn_crc_field_counterexample] below. *)
  Theorem header_write_torn s0 s1 body st0 st1 bits hc l hn eb ct bits' slot buf tr t :
    good s0 s1 body st0 st1 bits hc l -> header_ok hn = true -> hdr_fits ct hn ->
    insert_header cr hn eb bits ct = Ok (bits', [SW Oplog slot buf; tr]) ->
    (t <= length buf)%nat ->
    ((t <= 4)%nat -> (if slot =? 0 then st0 else st1) = SInvalid ->
     slot_dead (if slot =? 0 then s0 else s1)) ->
    forall c', c_apply (s0 ++ s1 ++ body) (tear (SW Oplog slot buf) t) = Some c' ->
    (* before *)
    oplog_open cr None c' = Ok (stable_result bits hc l)
    (* after (the complete slot write, truncate pending) *)
    \/ oplog_open cr None c' =
         Ok (mkOpenOutcome (mkOplog bits' 0 0) hn (if 0 <? len body then [ST Oplog ENTRIES_OFFSET] else []) [])
    \/ collision t.
  Proof.
    intros G Hok Hfit Hins Ht Hdead c' Hc'.
    pose proof G as (H0 & H1 & Hch & Hf & Hoks).
    destruct (good_slot_lengths _ _ _ _ _ _ _ _ G) as [L0 L1].
    apply insert_header_inv in Hins as (fr & pad & Hfr & -> & Hops & _ & Hl).
    injection Hops as -> -> _. specialize (Hl Hfit).
    cbn [tear c_apply] in Hc'. injection Hc' as <-.
    rewrite c_write_slot by (try assumption; rewrite firstn_length; lia).
    set (d := firstn t (fr ++ pad)).
    set (sw := if w_slot bits =? 0 then s0 else s1) in *.
    set (stw := if w_slot bits =? 0 then st0 else st1) in *.
    assert (Hsw : slot_is cr sw stw) by (subst sw stw; destruct (w_slot bits =? 0); assumption).
    (* the three possible states X of the written slot *)
    assert (Hput : forall X, slot_is cr (overlay d sw) X ->
              slot_is cr (put0 (w_slot bits) d s0) (if w_slot bits =? 0 then X else st0) /\
              slot_is cr (put1 (w_slot bits) d s1) (if w_slot bits =? 0 then st1 else X)).
    { intros X HX. unfold put0, put1. subst sw. destruct (w_slot bits =? 0); auto. }
    destruct (torn_slot_state (w_bit bits) hn fr pad sw stw t Hfr Hok Hsw Hl Ht Hdead)
      as [HX|[HX|[HX|C]]]; try fold d in HX.
    - left. destruct (Hput _ HX) as [A0 A1].
      eapply good_open. repeat split; [exact A0 | exact A1 | | exact Hf | exact Hoks].
      now apply choose_after_torn.
    - right; left. destruct (Hput _ HX) as [A0 A1].
      eapply open_after_header_write; [exact A0 | exact A1 | | | exact Hf].
      + eapply choose_after_write; eauto.
      + apply w_bits_current.
    - left. destruct (Hput _ HX) as [A0 A1].
      eapply good_open. repeat split; [exact A0 | exact A1 | | exact Hf | exact Hoks].
      subst stw. destruct (w_slot bits =? 0); exact Hch.
    - right; right. exact C.
  Qed.

  (* the two clean sub-cases, without any side condition and without the collision disjunct *)

  (* (i) the whole frame arrived, only (part of) the padding is missing: after *)
  Theorem header_write_torn_in_padding s0 s1 body st0 st1 bits hc l hn eb ct bits' slot buf tr t fr :
    good s0 s1 body st0 st1 bits hc l -> header_ok hn = true -> hdr_fits ct hn ->
    insert_header cr hn eb bits ct = Ok (bits', [SW Oplog slot buf; tr]) ->
    frame cr (w_bit bits) false (enc_header hn) = Ok fr ->
    (length fr <= t)%nat -> (t <= length buf)%nat ->
    forall c', c_apply (s0 ++ s1 ++ body) (tear (SW Oplog slot buf) t) = Some c' ->
    oplog_open cr None c' =
      Ok (mkOpenOutcome (mkOplog bits' 0 0) hn (if 0 <? len body then [ST Oplog ENTRIES_OFFSET] else []) []).
  Proof.
    intros G Hok Hfit Hins Hfr0 Hge Ht c' Hc'.
    pose proof G as (H0 & H1 & Hch & Hf & Hoks).
    destruct (good_slot_lengths _ _ _ _ _ _ _ _ G) as [L0 L1].
    apply insert_header_inv in Hins as (fr' & pad & Hfr & -> & Hops & _ & Hl).
    rewrite Hfr0 in Hfr. injection Hfr as <-.
    injection Hops as -> -> _. specialize (Hl Hfit).
    cbn [tear c_apply] in Hc'. injection Hc' as <-.
    rewrite c_write_slot by (try assumption; rewrite firstn_length; lia).
    assert (Ed : firstn t (fr ++ pad) = fr ++ firstn (t - length fr) pad).
    { rewrite firstn_app, (firstn_all2 fr) by lia. reflexivity. }
    rewrite Ed.
    assert (Ld : (length (fr ++ firstn (t - length fr) pad) <= SLOT)%nat).
    { rewrite <- Ed, firstn_length. lia. }
    eapply open_after_header_write; [ | | eapply choose_after_write; eauto | apply w_bits_current | exact Hf].
    - unfold put0. destruct (w_slot bits =? 0); [|exact H0].
      split; [exact Hok|]. now apply overlay_slot_holds.
    - unfold put1. destruct (w_slot bits =? 0); [exact H1|].
      split; [exact Hok|]. now apply overlay_slot_holds.
  Qed.

  (* (ii) the mixed slot fails validation: before *)
  Theorem header_write_torn_invalid s0 s1 body st0 st1 bits hc l hn eb ct bits' slot buf tr t :
    good s0 s1 body st0 st1 bits hc l -> hdr_fits ct hn ->
    insert_header cr hn eb bits ct = Ok (bits', [SW Oplog slot buf; tr]) ->
    (t <= length buf)%nat ->
    validate_leader cr (overlay (firstn t buf) (if slot =? 0 then s0 else s1)) = None ->
    forall c', c_apply (s0 ++ s1 ++ body) (tear (SW Oplog slot buf) t) = Some c' ->
    oplog_open cr None c' = Ok (stable_result bits hc l).
  Proof.
    intros G Hfit Hins Ht Hv c' Hc'.
    pose proof G as (H0 & H1 & Hch & Hf & Hoks).
    destruct (good_slot_lengths _ _ _ _ _ _ _ _ G) as [L0 L1].
    apply insert_header_inv in Hins as (fr & pad & Hfr & -> & Hops & _ & Hl).
    injection Hops as -> -> _. specialize (Hl Hfit).
    cbn [tear c_apply] in Hc'. injection Hc' as <-.
    rewrite c_write_slot by (try assumption; rewrite firstn_length; lia).
    eapply good_open. repeat split; [ | | apply choose_after_torn; exact Hch | exact Hf | exact Hoks].
    - unfold put0. destruct (w_slot bits =? 0); [|exact H0].
      split; [|exact Hv]. rewrite overlay_length; [exact L0|]. rewrite firstn_length. lia.
    - unfold put1. destruct (w_slot bits =? 0); [exact H1|].
      split; [|exact Hv]. rewrite overlay_length; [exact L1|]. rewrite firstn_length. lia.
  Qed.


  (* C-F torn, stated on oplog_flush *)
  Corollary flush_torn s0 s1 body st0 st1 bits hc l hn o o' slot buf tr t :
    good s0 s1 body st0 st1 bits hc l -> header_ok hn = true -> hdr_fits false hn ->
    ol_bits o = bits -> oplog_flush cr o hn false = Ok (o', [SW Oplog slot buf; tr]) ->
    (t <= length buf)%nat ->
    ((t <= 4)%nat -> (if slot =? 0 then st0 else st1) = SInvalid ->
     slot_dead (if slot =? 0 then s0 else s1)) ->
    forall c', c_apply (s0 ++ s1 ++ body) (tear (SW Oplog slot buf) t) = Some c' ->
    oplog_open cr None c' = Ok (stable_result bits hc l)
    \/ oplog_open cr None c' =
         Ok (mkOpenOutcome o' hn (if 0 <? len body then [ST Oplog ENTRIES_OFFSET] else []) [])
    \/ collision t.
  Proof.
    intros G Hok Hfit Hb Hfl Ht Hdead c' Hc'.
    unfold oplog_flush in Hfl. apply bind_ok in Hfl as ([bits1 ops1] & Hins & Hfl).
    injection Hfl as <- ->. rewrite Hb in Hins.
    eapply header_write_torn; eauto.
  Qed.

  (* after a header write the slot written next (the other one) holds a valid header *)
  Lemma next_written_slot_valid st0 st1 bits hc hn :
    choose st0 st1 = Some (bits, hc) ->
    (if w_slot (w_bits bits) =? 0
     then (if w_slot bits =? 0 then SValid hn (w_bit bits) else st0)
     else (if w_slot bits =? 0 then st1 else SValid hn (w_bit bits))) <> SInvalid.
  Proof.
    destruct st0 as [h0 b0|], st1 as [h1 b1|]; cbn [choose]; intros E; try discriminate;
      injection E as <- <-.
    - destruct b0, b1; discriminate.
    - destruct b0; discriminate.
    - destruct b1; discriminate.
  Qed.

  (* C-R torn: tears of the two slot writes of make_read_only *)
  Theorem read_only_torn s0 s1 body st0 st1 bits hc l hn o o' sl1 buf1 tr1 sl2 buf2 tr2 :
    good s0 s1 body st0 st1 bits hc l -> header_ok hn = true ->
    ol_bits o = bits ->
    oplog_flush cr o hn true = Ok (o', [SW Oplog sl1 buf1; tr1; SW Oplog sl2 buf2; tr2]) ->
    (* first slot write torn: before, or new header without entries *)
    (forall t c', (t <= length buf1)%nat ->
       ((t <= 4)%nat -> (if sl1 =? 0 then st0 else st1) = SInvalid ->
        slot_dead (if sl1 =? 0 then s0 else s1)) ->
       c_apply (s0 ++ s1 ++ body) (tear (SW Oplog sl1 buf1) t) = Some c' ->
       oplog_open cr None c' = Ok (stable_result bits hc l)
       \/ (exists bits1, oplog_open cr None c' =
             Ok (mkOpenOutcome (mkOplog bits1 0 0) hn (if 0 <? len body then [ST Oplog ENTRIES_OFFSET] else []) []))
       \/ collision t) /\
    (* second slot write torn: the new header without entries in any case *)
    (forall c2 t c', c_apply_all (s0 ++ s1 ++ body) [SW Oplog sl1 buf1; tr1] = Some c2 ->
       (t <= length buf2)%nat ->
       c_apply c2 (tear (SW Oplog sl2 buf2) t) = Some c' ->
       (exists bits2, oplog_open cr None c' = Ok (stable_result bits2 hn [])) \/ collision t).
  Proof.
    intros G Hok Hb Hfl.
    pose proof G as (H0 & H1 & Hch & Hf & Hoks).
    destruct (good_slot_lengths _ _ _ _ _ _ _ _ G) as [L0 L1].
    unfold oplog_flush in Hfl. apply bind_ok in Hfl as ([bits1 ops1] & Hins1 & Hfl).
    apply bind_ok in Hfl as ([bits2 ops2] & Hins2 & Hfl).
    injection Hfl as <- Hops. rewrite Hb in Hins1.
    pose proof Hins1 as Hi1. pose proof Hins2 as Hi2.
    apply insert_header_inv in Hi1 as (fr1 & pad1 & Hfr1 & -> & -> & _ & Hl1).
    apply insert_header_inv in Hi2 as (fr2 & pad2 & Hfr2 & -> & -> & _ & Hl2).
    specialize (Hl1 (or_introl eq_refl)). specialize (Hl2 (or_introl eq_refl)).
    cbn [app] in Hops. injection Hops as <- <- <- <- <-.
    split.
    - intros t c' Ht Hdead Hc'.
      destruct (header_write_torn s0 s1 body st0 st1 bits hc l hn 0 true _ _ _ _ t G Hok
                  (or_introl eq_refl) Hins1 Ht Hdead c' Hc') as [A|[A|A]]; eauto.
    - intros c2 t c' Hc2 Ht Hc'.
      cbn [c_apply_all c_apply] in Hc2. injection Hc2 as <-.
      assert (LA0 : length (put0 (w_slot bits) (fr1 ++ pad1) s0) = SLOT).
      { unfold put0. destruct (w_slot bits =? 0); [|exact L0]. rewrite overlay_length; [exact L0 | lia]. }
      assert (LA1 : length (put1 (w_slot bits) (fr1 ++ pad1) s1) = SLOT).
      { unfold put1. destruct (w_slot bits =? 0); [exact L1|]. rewrite overlay_length; [exact L1 | lia]. }
      rewrite c_write_slot in Hc' by assumption.
      rewrite N.add_0_r, c_truncate_all_entries in Hc' by assumption.
      set (sa0 := if w_slot bits =? 0 then SValid hn (w_bit bits) else st0).
      set (sa1 := if w_slot bits =? 0 then st1 else SValid hn (w_bit bits)).
      assert (GA : good (put0 (w_slot bits) (fr1 ++ pad1) s0) (put1 (w_slot bits) (fr1 ++ pad1) s1) []
                        sa0 sa1 (w_bits bits) hn []).
      { repeat split; auto.
        - subst sa0. unfold put0. destruct (w_slot bits =? 0); [|exact H0].
          split; [exact Hok|]. now apply overlay_slot_holds.
        - subst sa1. unfold put1. destruct (w_slot bits =? 0); [exact H1|].
          split; [exact Hok|]. now apply overlay_slot_holds.
        - eapply choose_after_write; eauto. }
      destruct (header_write_torn _ _ _ _ _ _ _ _ hn 0 true _ _ _ _ t GA Hok
                  (or_introl eq_refl) Hins2 Ht) with (c' := c') as [A|[A|A]].
      + intros _ E. exfalso. revert E. subst sa0 sa1. eapply next_written_slot_valid; eauto.
      + exact Hc'.
      + left. eauto.
      + left. exists (w_bits (w_bits bits)). exact A.
      + right. exact A.
  Qed.

  (* ==================================================================================== *)
  (* 8. Creation                                                                          *)
  (* ==================================================================================== *)

  Lemma open_short c : len c < HEADER_SIZE -> oplog_open cr None c = Err EmptyStorage.
  Proof.
    intros H. unfold oplog_open, slot_leader.
    rewrite !slice_short by (unfold HEADER_SIZE, ENTRIES_OFFSET in *; lia). reflexivity.
  Qed.

  Lemma size_uint_le v : size_uint v <= 9.
  Proof.
    unfold size_uint. destruct (v <? 253); [lia|]. destruct (v <=? 65535); [lia|].
    destruct (v <=? 4294967295); lia.
  Qed.

  Lemma header_new_ok kp : keypair_ok kp = true -> header_ok (header_new kp) = true.
  Proof.
    intros H. unfold header_ok, header_new.
    cbn [hd_key hd_ns hd_mpk hd_keypair hd_tree hd_contig ht_fork ht_length ht_root_hash ht_signature].
    rewrite H. pose proof H as H'. unfold keypair_ok in H'. split_ok H'. rewrite H'. reflexivity.
  Qed.

  Lemma header_new_len kp : keypair_ok kp = true -> len (enc_header (header_new kp)) <= 300.
  Proof.
    intros H. unfold keypair_ok in H. split_ok H. apply Nat.eqb_eq in H.
    unfold enc_header, header_new, enc_keypair, enc_header_tree, enc_buffer.
    cbn [hd_key hd_ns hd_mpk hd_keypair hd_tree hd_contig ht_fork ht_length ht_root_hash ht_signature
         kp_public kp_secret].
    assert (Lns : len DEFAULT_NAMESPACE = 32) by reflexivity.
    assert (Lpk : len (kp_public kp) = 32) by (unfold len; rewrite H; reflexivity).
    destruct (kp_secret kp) as [sk|].
    - split_ok Hok. apply Nat.eqb_eq in Hok.
      assert (Lsk : len sk = 32) by (unfold len; rewrite Hok; reflexivity).
      rewrite !len_app, !len_enc_uint, Lns, Lpk, Lsk.
      pose proof (size_uint_le 32). pose proof (size_uint_le (32 + 32)). pose proof (size_uint_le 0).
      pose proof (size_uint_le (len [])).
      change (len [1; 6]) with 2. change (len [0; 0; 1]) with 3. change (len [0]) with 1.
      change (len []) with 0 in *. lia.
    - rewrite !len_app, !len_enc_uint, Lns, Lpk.
      pose proof (size_uint_le 32). pose proof (size_uint_le 0). pose proof (size_uint_le (len [])).
      change (len [1; 6]) with 2. change (len [0; 0; 1]) with 3. change (len [0]) with 1.
      change (len []) with 0 in *. lia.
  Qed.

  Lemma zeros_app a b : zeros (a + b) = zeros a ++ zeros b.
  Proof. apply repeat_app. Qed.

  (* creation: [oplog_fresh] writes slot 0 and zero-extends the file to 8192 bytes.  Reopening
     the result gives the new header with no entries; a crash before the truncate (whether the
     slot write was complete, torn, or did not happen) leaves a file shorter than one slot,
     which opens as EmptyStorage: the state before creation. *)
  Theorem oplog_fresh_then_open kp :
    keypair_ok kp = true ->
    exists buf s0,
      oplog_fresh cr kp =
        Ok (mkOplog (false, false) 0 0, header_new kp, [SW Oplog 0 buf; ST Oplog (ENTRIES_OFFSET + 0)]) /\
      (* nothing written yet, or the slot write torn / complete but not yet extended *)
      (forall t, oplog_open cr None (c_write [] 0 (firstn t buf)) = Err EmptyStorage) /\
      oplog_open cr None (c_write [] 0 buf) = Err EmptyStorage /\
      (* both operations done *)
      c_apply_all [] [SW Oplog 0 buf; ST Oplog (ENTRIES_OFFSET + 0)] = Some (s0 ++ zeros SLOT ++ []) /\
      good s0 (zeros SLOT) [] (SValid (header_new kp) false) SInvalid (false, false) (header_new kp) [] /\
      slot_dead (zeros SLOT) /\
      oplog_open cr None (s0 ++ zeros SLOT ++ []) = Ok (stable_result (false, false) (header_new kp) []).
  Proof.
    intros Hkp.
    pose proof (header_new_ok kp Hkp) as Hok. pose proof (header_new_len kp Hkp) as Hlen.
    unfold oplog_fresh.
    destruct (insert_header cr (header_new kp) 0 INITIAL_HEADER_BITS false) as [[b' ops]| | |] eqn:Hins.
    2,3,4: exfalso; revert Hins; unfold insert_header, INITIAL_HEADER_BITS, next_slot; cbn [fst snd xorb negb];
      unfold frame;
      (destruct (N.leb_spec 1073741824 (len (enc_header (header_new kp)))) as [Hbig|Hsmall]; [lia|]);
      cbn [bind]; rewrite !len_app, !len_le_bytes;
      (destruct (N.ltb_spec (8 + 2 * len (enc_header (header_new kp)))
                           (N.of_nat 4 + (N.of_nat 4 + len (enc_header (header_new kp))))) as [A|A]; [lia|]);
      discriminate.
    pose proof Hins as Hi.
    apply insert_header_inv in Hi as (fr & pad & Hfr & -> & -> & _ & Hl).
    assert (Hfit : hdr_fits false (header_new kp)) by (right; unfold HEADER_SIZE; lia).
    specialize (Hl Hfit). cbn [bind].
    change (w_slot INITIAL_HEADER_BITS) with 0 in *. change (w_bits INITIAL_HEADER_BITS) with (false, false).
    change (w_bit INITIAL_HEADER_BITS) with false in *.
    (* the buffer is strictly shorter than a slot *)
    assert (Lbuf : (length (fr ++ pad) < SLOT)%nat).
    { revert Hins. unfold insert_header, INITIAL_HEADER_BITS, next_slot. cbn [fst snd xorb negb].
      rewrite Hfr. cbn [bind].
      destruct (8 + 2 * len (enc_header (header_new kp)) <? len fr); [discriminate|].
      intros [= E]. apply (f_equal (@length N)) in E. unfold pad_to in E.
      rewrite (app_length fr), zeros_length in E.
      pose proof (frame_length _ _ _ _ _ Hfr) as Lfr. unfold len, HEADER_SIZE in *. lia. }
    exists (fr ++ pad), ((fr ++ pad) ++ zeros (SLOT - length (fr ++ pad))).
    split; [reflexivity|].
    split; [intros t; rewrite c_write_empty; apply open_short; unfold len; rewrite firstn_length; lia|].
    split; [rewrite c_write_empty; apply open_short; unfold len; lia|].
    assert (S0 : slot_holds cr ((fr ++ pad) ++ zeros (SLOT - length (fr ++ pad))) (header_new kp) false).
    { split; [rewrite app_length, zeros_length; lia|].
      exists fr. eexists. split; [exact Hfr|]. rewrite <- app_assoc. reflexivity. }
    assert (G : good ((fr ++ pad) ++ zeros (SLOT - length (fr ++ pad))) (zeros SLOT) []
                     (SValid (header_new kp) false) SInvalid (false, false) (header_new kp) []).
    { split; [split; [exact Hok | exact S0]|].
      split; [apply slot_dead_invalid, zeros_dead|].
      repeat split; reflexivity. }
    split.
    { cbn [c_apply_all c_apply]. rewrite c_write_empty. f_equal.
      rewrite c_truncate_grow by (unfold ENTRIES_OFFSET, HEADER_SIZE in *; lia).
      replace (N.to_nat (ENTRIES_OFFSET + 0) - length (fr ++ pad))%nat
        with ((SLOT - length (fr ++ pad)) + SLOT)%nat by (unfold ENTRIES_OFFSET, HEADER_SIZE in *; lia).
      rewrite zeros_app, app_nil_r, app_assoc. reflexivity. }
    split; [exact G|]. split; [apply zeros_dead|].
    now apply good_open with (st0 := SValid (header_new kp) false) (st1 := SInvalid).
  Qed.

End Crash.

(* the premise [hdr_fits false h] holds for every header the crate can produce: root hashes
   are 32 bytes and signatures 64 bytes long *)
Lemma hdr_fits_real h :
  header_ok h = true -> len (ht_root_hash (hd_tree h)) <= 32 -> len (ht_signature (hd_tree h)) <= 64 ->
  hdr_fits false h.
Proof.
  intros H Hr Hs. right. unfold header_ok in H. split_ok H.
  apply Nat.eqb_eq in H, Hok6, Hok5. unfold keypair_ok in Hok4. split_ok Hok4. apply Nat.eqb_eq in Hok4.
  unfold enc_header, enc_keypair, enc_header_tree, enc_buffer.
  assert (L1 : len (hd_key h) = 32) by (unfold len; rewrite H; reflexivity).
  assert (L2 : len (hd_ns h) = 32) by (unfold len; rewrite Hok6; reflexivity).
  assert (L3 : len (hd_mpk h) = 32) by (unfold len; rewrite Hok5; reflexivity).
  assert (L4 : len (kp_public (hd_keypair h)) = 32) by (unfold len; rewrite Hok4; reflexivity).
  assert (Hsz : forall v, size_uint v <= 9) by apply size_uint_le.
  destruct (kp_secret (hd_keypair h)) as [sk|].
  - split_ok Hok7. apply Nat.eqb_eq in Hok7.
    assert (L5 : len sk = 32) by (unfold len; rewrite Hok7; reflexivity).
    rewrite !len_app, !len_enc_uint.
    repeat match goal with
           | |- context [size_uint ?v] =>
               let x := fresh "x" in let Hx := fresh "Hx" in let Ex := fresh "Ex" in
               pose proof (Hsz v) as Hx; remember (size_uint v) as x eqn:Ex; clear Ex
           end.
    change (len [1; 6]) with 2. change (len [0; 0; 1]) with 3. change (len [0]) with 1.
    unfold HEADER_SIZE. lia.
  - rewrite !len_app, !len_enc_uint.
    repeat match goal with
           | |- context [size_uint ?v] =>
               let x := fresh "x" in let Hx := fresh "Hx" in let Ex := fresh "Ex" in
               pose proof (Hsz v) as Hx; remember (size_uint v) as x eqn:Ex; clear Ex
           end.
    change (len [1; 6]) with 2. change (len [0; 0; 1]) with 3. change (len [0]) with 1.
    unfold HEADER_SIZE. lia.
Qed.

(* ====================================================================================== *)
(* 10. Contents versus the sparse files of Storage.v                                      *)
(* ====================================================================================== *)

Lemma length_f_content f : length (f_content f) = N.to_nat (f_len f).
Proof. unfold f_content. now rewrite map_length, nrange_length. Qed.

Lemma nth_f_content f i :
  nth i (f_content f) 0 = if N.of_nat i <? f_len f then f_byte f (N.of_nat i) else 0.
Proof.
  destruct (N.ltb_spec (N.of_nat i) (f_len f)) as [H|H].
  - unfold f_content. rewrite map_nrange_nth by lia. f_equal.
  - apply nth_overflow. rewrite length_f_content. lia.
Qed.

Lemma nth_zeros n i : nth i (zeros n) 0 = 0.
Proof.
  unfold zeros. revert i. induction n as [|n IH]; intros [|i]; cbn [repeat nth]; auto.
Qed.

Lemma nth_c_grow c n i : nth i (c_grow c n) 0 = nth i c 0.
Proof.
  unfold c_grow. destruct (Nat.lt_ge_cases i (length c)) as [H|H].
  - now rewrite app_nth1.
  - rewrite app_nth2 by exact H. rewrite nth_zeros. symmetry. now apply nth_overflow.
Qed.

Lemma length_c_grow c n : length (c_grow c n) = Nat.max (length c) (N.to_nat n).
Proof. unfold c_grow. rewrite app_length, zeros_length. lia. Qed.

Lemma nth_c_write c off d i :
  nth i (c_write c off d) 0 =
  if (N.to_nat off <=? i)%nat && (i <? N.to_nat off + length d)%nat
  then nth (i - N.to_nat off) d 0 else nth i c 0.
Proof.
  unfold c_write. set (c' := c_grow c (off + len d)).
  assert (Lc' : (N.to_nat off + length d <= length c')%nat).
  { subst c'. rewrite length_c_grow. unfold len. lia. }
  assert (Lf : length (firstn (N.to_nat off) c') = N.to_nat off) by (rewrite firstn_length; lia).
  destruct (Nat.leb_spec (N.to_nat off) i) as [A|A]; cbn [andb].
  - rewrite app_nth2 by lia. rewrite Lf.
    destruct (Nat.ltb_spec i (N.to_nat off + length d)) as [B|B].
    + rewrite app_nth1 by lia. reflexivity.
    + rewrite app_nth2 by lia. rewrite nth_skipn_add.
      replace (N.to_nat off + length d + (i - N.to_nat off - length d))%nat with i by lia.
      subst c'. apply nth_c_grow.
  - rewrite app_nth1 by lia. rewrite nth_firstn_lt by lia. subst c'. apply nth_c_grow.
Qed.

Lemma length_c_write c off d :
  length (c_write c off d) = Nat.max (length c) (N.to_nat off + length d).
Proof.
  unfold c_write. rewrite !app_length, firstn_length, skipn_length, length_c_grow. unfold len. lia.
Qed.

Theorem f_content_write f off d : f_content (f_write f off d) = c_write (f_content f) off d.
Proof.
  apply (nth_ext _ _ 0 0).
  - rewrite length_c_write, !length_f_content, f_write_len. unfold len. lia.
  - intros i Hi. rewrite length_f_content, f_write_len in Hi.
    rewrite nth_c_write, !nth_f_content, f_write_len, f_write_byte. unfold len in *.
    destruct (N.ltb_spec (N.of_nat i) (N.max (f_len f) (off + N.of_nat (length d)))) as [A|A]; [|lia].
    destruct (Nat.leb_spec (N.to_nat off) i) as [B|B];
      destruct (Nat.ltb_spec i (N.to_nat off + length d)) as [C|C]; cbn [andb];
      bcase; try reflexivity; try lia.
    all: try (f_equal; lia).
Qed.

Lemma nth_c_truncate c n i :
  nth i (c_truncate c n) 0 = if (i <? N.to_nat n)%nat then nth i c 0 else 0.
Proof.
  unfold c_truncate.
  destruct (Nat.lt_ge_cases i (length (firstn (N.to_nat n) c))) as [H|H].
  - rewrite app_nth1 by exact H. rewrite firstn_length in H.
    rewrite nth_firstn_lt by lia. destruct (Nat.ltb_spec i (N.to_nat n)); [reflexivity | lia].
  - rewrite app_nth2 by exact H. rewrite nth_zeros. rewrite firstn_length in H.
    destruct (Nat.ltb_spec i (N.to_nat n)); [|reflexivity].
    symmetry. apply nth_overflow. lia.
Qed.

Lemma length_c_truncate c n : length (c_truncate c n) = N.to_nat n.
Proof. unfold c_truncate. rewrite app_length, firstn_length, zeros_length. lia. Qed.

Theorem f_content_truncate f n : f_content (f_truncate f n) = c_truncate (f_content f) n.
Proof.
  apply (nth_ext _ _ 0 0).
  - now rewrite length_c_truncate, length_f_content, f_truncate_len.
  - intros i Hi. rewrite length_f_content, f_truncate_len in Hi.
    rewrite nth_c_truncate, !nth_f_content, f_truncate_len, f_truncate_byte.
    destruct (Nat.ltb_spec i (N.to_nat n)) as [A|A]; [|lia].
    bcase; try reflexivity; lia.
Qed.

(* the content-level semantics used in this file is the one of Storage.v *)
Theorem c_apply_sound d o d' c' :
  sop_store o = Oplog -> apply_sop d o = Some d' ->
  c_apply (f_content (d_oplog d)) o = Some c' -> f_content (d_oplog d') = c'.
Proof.
  destruct o as [s off data | s off n | s n]; cbn [sop_store apply_sop c_apply]; intros -> E C;
    try discriminate; injection E as <-; injection C as <-; cbn [d_set d_get d_oplog].
  - apply f_content_write.
  - apply f_content_truncate.
Qed.

Theorem c_apply_all_sound ops : forall d d' c',
  Forall (fun o => sop_store o = Oplog) ops -> apply_sops d ops = Some d' ->
  c_apply_all (f_content (d_oplog d)) ops = Some c' -> f_content (d_oplog d') = c'.
Proof.
  induction ops as [|o ops IH]; intros d d' c' Hall E C.
  - cbn in E, C. injection E as <-. now injection C as <-.
  - inversion Hall as [|? ? Ho Hops]; subst. cbn [apply_sops c_apply_all] in E, C.
    destruct (apply_sop d o) as [d1|] eqn:E1; [|discriminate].
    destruct (c_apply (f_content (d_oplog d)) o) as [c1|] eqn:C1; [|discriminate].
    rewrite <- (c_apply_sound d o d1 c1 Ho E1 C1) in C. eapply IH; eauto.
Qed.

(* a torn write is a write of the prefix: same semantics *)
Lemma tear_store o t : sop_store (tear o t) = sop_store o.
Proof. destruct o; reflexivity. Qed.

(* ====================================================================================== *)
(* 9. Non-vacuity: a toy crypto and concrete runs                                         *)
(* ====================================================================================== *)

Definition toy : crypto :=
  mkCrypto (fun _ => []) (fun b => sumN b mod 4294967296) (fun _ _ => []) (fun _ _ _ => true).

Lemma toy_crc_ok : crc_ok toy.
Proof. intros b. cbn [cr_crc toy]. lia. Qed.

Definition ex_header (c : N) : header :=
  mkHeader (zeros 32) (zeros 32) (zeros 32) (mkKeypair (zeros 32) None)
           (mkHeaderTree 0 c (zeros 32) (zeros 64)) c.
Definition ex_frame (b : bool) (h : header) : bytes :=
  match frame toy b false (enc_header h) with Ok fr => fr | _ => [] end.
Definition ex_slot (b : bool) (h : header) : bytes := pad_to HEADER_SIZE (ex_frame b h).
Definition ex_entry (n : N) : entry := mkEntry [] None (Some (mkBfUpdate false n 1)).
Definition ex_body (bit : bool) (l : list entry) : bytes :=
  match frames toy bit (tag l) with Ok b => b | _ => [] end.


Definition h3 := ex_header 3.
Definition h4 := ex_header 4.
Definition h5 := ex_header 5.
Definition e7 := ex_entry 7.
Definition e9 := ex_entry 9.

(* slot 0: header h3 with bit true; slot 1: header h4 with bit false; bits (true, false): slot 1
   is current, the entry bit is true; two entries *)
Definition ex_s0 : bytes := ex_slot true h3.
Definition ex_s1 : bytes := ex_slot false h4.
Definition ex_b : bytes := ex_body true [e7; e9].
Definition ex_c : bytes := ex_s0 ++ ex_s1 ++ ex_b.

Lemma ex_slot_is b c : (c <? 10) = true -> slot_is toy (ex_slot b (ex_header c)) (SValid (ex_header c) b).
Proof.
  intros Hc.
  assert (C : c = 0 \/ c = 1 \/ c = 2 \/ c = 3 \/ c = 4 \/ c = 5 \/ c = 6 \/ c = 7 \/ c = 8 \/ c = 9) by lia.
  split; [|split].
  - repeat (destruct C as [-> | C]; [reflexivity|]). subst c. reflexivity.
  - repeat (destruct C as [-> | C]; [destruct b; vm_compute; reflexivity|]). subst c. destruct b; vm_compute; reflexivity.
  - exists (ex_frame b (ex_header c)), (zeros (N.to_nat (HEADER_SIZE - len (ex_frame b (ex_header c))))).
    split; [|reflexivity].
    repeat (destruct C as [-> | C]; [destruct b; vm_compute; reflexivity|]). subst c. destruct b; vm_compute; reflexivity.
Qed.

Example ex_good : good toy ex_s0 ex_s1 ex_b (SValid h3 true) (SValid h4 false) (true, false) h4 [e7; e9].
Proof.
  split; [apply ex_slot_is; reflexivity|]. split; [apply ex_slot_is; reflexivity|].
  split; [reflexivity|]. split; [vm_compute; reflexivity | reflexivity].
Qed.

(* O1 instantiated ... *)
Example ex_open_thm : oplog_open toy None ex_c = Ok (stable_result (true, false) h4 [e7; e9]).
Proof. exact (good_open toy toy_crc_ok _ _ _ _ _ _ _ _ ex_good). Qed.

(* ... and the same run computed *)
Example ex_open_run :
  oplog_open toy None ex_c = Ok (mkOpenOutcome (mkOplog (true, false) 2 24) h4 [] [e7; e9]).
Proof. vm_compute. reflexivity. Qed.

(* O1 with a trailing partial entry and garbage after it: both are cut *)
Definition ex_b2 : bytes :=
  match frames toy true [(e7, false); (e9, true)] with Ok b => b ++ [1; 2; 3] | _ => [] end.

Example ex_open_partial_thm :
  oplog_open toy None (ex_s0 ++ ex_s1 ++ ex_b2) =
  Ok (open_result (true, false) h4 [(e7, false); (e9, true)] (ENTRIES_OFFSET + len ex_b2)).
Proof.
  pose proof (ex_slot_is true 3 eq_refl) as [K0 S0]. pose proof (ex_slot_is false 4 eq_refl) as [K1 S1].
  apply (open_two_slots toy toy_crc_ok ex_s0 ex_s1 ex_b2 h3 h4 true false _ [1; 2; 3] K0 K1 S0 S1).
  eexists. split; [vm_compute; reflexivity|]. split; [vm_compute; reflexivity|].
  split; [|reflexivity]. left. apply validate_short. cbn. lia.
Qed.

Example ex_open_partial_run :
  oplog_open toy None (ex_s0 ++ ex_s1 ++ ex_b2) =
  Ok (mkOpenOutcome (mkOplog (true, false) 1 12) h4 [ST Oplog 8204] [e7]).
Proof. vm_compute. reflexivity. Qed.

(* C-F: flush of h5 *)
Definition ex_o : oplog := mkOplog (true, false) 2 24.
Definition ex_flush_w : sop := SW Oplog 0 (pad_to (8 + 2 * len (enc_header h5)) (ex_frame false h5)).
Definition ex_flush_t : sop := ST Oplog (ENTRIES_OFFSET + 0).

Example ex_flush_run :
  oplog_flush toy ex_o h5 false = Ok (mkOplog (false, false) 0 0, [ex_flush_w; ex_flush_t]).
Proof. vm_compute. reflexivity. Qed.

Lemma ex_fits : hdr_fits false h5.
Proof. right. vm_compute. discriminate. Qed.

(* C-F instantiated on this state ... *)
Example ex_flush_thm :
  exists s0' s1',
    c_apply ex_c ex_flush_w = Some (s0' ++ s1' ++ ex_b) /\
    oplog_open toy None (s0' ++ s1' ++ ex_b) =
      Ok (mkOpenOutcome (mkOplog (false, false) 0 0) h5 [ST Oplog ENTRIES_OFFSET] []) /\
    c_apply (s0' ++ s1' ++ ex_b) ex_flush_t = Some (s0' ++ s1' ++ []) /\
    oplog_open toy None (s0' ++ s1' ++ []) = Ok (stable_result (false, false) h5 []).
Proof.
  destruct (flush_crash toy toy_crc_ok _ _ _ _ _ _ _ _ h5 ex_o _ _ ex_good eq_refl ex_fits eq_refl ex_flush_run)
    as (w & s0' & s1' & st0' & st1' & Hops & _ & C1 & O1 & C2 & _ & O2 & _).
  injection Hops as <-. exists s0', s1'. cbn [ol_bits] in *.
  change (0 <? len ex_b) with true in O1. cbv iota in O1. auto.
Qed.

(* ... and the same runs computed *)

Definition open_after (c : bytes) (ops : list sop) : res open_outcome :=
  match c_apply_all c ops with Some c' => oplog_open toy None c' | None => Err IOErr end.

(* crash before / between / after the two operations of the flush *)
Example ex_flush_cut0 :
  open_after ex_c [] = Ok (mkOpenOutcome (mkOplog (true, false) 2 24) h4 [] [e7; e9]).
Proof. vm_compute. reflexivity. Qed.
Example ex_flush_cut1 :
  open_after ex_c [ex_flush_w] = Ok (mkOpenOutcome (mkOplog (false, false) 0 0) h5 [ST Oplog 8192] []).
Proof. vm_compute. reflexivity. Qed.
Example ex_flush_cut2 :
  open_after ex_c [ex_flush_w; ex_flush_t] = Ok (mkOpenOutcome (mkOplog (false, false) 0 0) h5 [] []).
Proof. vm_compute. reflexivity. Qed.
(* torn slot write: inside the frame (before), inside the padding (after) *)
Example ex_flush_torn_100 :
  open_after ex_c [tear ex_flush_w 100] = Ok (mkOpenOutcome (mkOplog (true, false) 2 24) h4 [] [e7; e9]).
Proof. vm_compute. reflexivity. Qed.
Example ex_flush_torn_3 :
  open_after ex_c [tear ex_flush_w 3] = Ok (mkOpenOutcome (mkOplog (true, false) 2 24) h4 [] [e7; e9]).
Proof. vm_compute. reflexivity. Qed.
Example ex_flush_torn_300 :
  open_after ex_c [tear ex_flush_w 300] = Ok (mkOpenOutcome (mkOplog (false, false) 0 0) h5 [ST Oplog 8192] []).
Proof. vm_compute. reflexivity. Qed.

(* Why [header_write_torn] needs its side condition.  Slot 0 is invalid but not dead: it holds
   the frame of some header hx (bit false) whose first CRC byte is wrong.  Slot 1 holds the
   current header h4.  A flush of h5 rewrites slot 0; the write is torn after ONE byte.  The
   first CRC byte of the new frame happens to be the byte that was wrong (for CRC-32: one chance
   in 256; the two checksums differ, no collision is involved), so slot 0 now validates as hx
   with the bit that makes it current: reopening yields hx, which is neither the state before
   (h4 with two entries) nor the state after (h5).  Such a slot content is not produced by the
   crate from a fresh log without a previous torn write; ruling it out needs an invariant on
   the history of invalid slots that is not part of this development. *)
Definition hx : header :=
  mkHeader (255 :: 1 :: zeros 30) (zeros 32) (zeros 32) (mkKeypair (zeros 32) None)
           (mkHeaderTree 0 4 (zeros 32) (zeros 64)) 6.
Definition ex_bad_s0 : bytes :=
  match ex_slot false hx with x :: r => ((x + 1) mod 256) :: r | [] => [] end.

Example torn_crc_field_counterexample :
  good toy ex_bad_s0 ex_s1 ex_b SInvalid (SValid h4 false) (true, false) h4 [e7; e9] /\
  oplog_flush toy ex_o h5 false = Ok (mkOplog (false, false) 0 0, [ex_flush_w; ex_flush_t]) /\
  cr_crc toy (skipn 4 (ex_frame false hx)) <> cr_crc toy (skipn 4 (ex_frame false h5)) /\
  open_after (ex_bad_s0 ++ ex_s1 ++ ex_b) [] =
    Ok (mkOpenOutcome (mkOplog (true, false) 2 24) h4 [] [e7; e9]) /\
  open_after (ex_bad_s0 ++ ex_s1 ++ ex_b) [ex_flush_w] =
    Ok (mkOpenOutcome (mkOplog (false, false) 0 0) h5 [ST Oplog 8192] []) /\
  open_after (ex_bad_s0 ++ ex_s1 ++ ex_b) [tear ex_flush_w 1] =
    Ok (mkOpenOutcome (mkOplog (false, false) 0 0) hx [ST Oplog 8192] []).
Proof.
  split.
  { split; [split; vm_compute; reflexivity|]. split; [apply ex_slot_is; reflexivity|].
    split; [reflexivity|]. split; [vm_compute; reflexivity | reflexivity]. }
  split; [exact ex_flush_run|].
  split; [vm_compute; discriminate|].
  repeat split; vm_compute; reflexivity.
Qed.

Print Assumptions open_slots.
Print Assumptions open_slots_none.
Print Assumptions open_two_slots.
Print Assumptions open_two_slots_empty.
Print Assumptions open_two_slots_fields.
Print Assumptions open_one_slot_0.
Print Assumptions open_one_slot_1.
Print Assumptions open_no_slot.
Print Assumptions good_open.
Print Assumptions append_crash.
Print Assumptions header_write_step.
Print Assumptions flush_crash.
Print Assumptions read_only_crash.
Print Assumptions second_slot_write_sees_no_entries.
Print Assumptions torn_slot_cases.
Print Assumptions torn_slot_state.
Print Assumptions header_write_torn.
Print Assumptions header_write_torn_in_padding.
Print Assumptions header_write_torn_invalid.
Print Assumptions flush_torn.
Print Assumptions read_only_torn.
Print Assumptions zeros_dead.
Print Assumptions oplog_fresh_then_open.
Print Assumptions hdr_fits_real.
Print Assumptions f_content_write.
Print Assumptions f_content_truncate.
Print Assumptions c_apply_sound.
Print Assumptions c_apply_all_sound.
Print Assumptions toy_crc_ok.
Print Assumptions ex_good.
Print Assumptions ex_open_thm.
Print Assumptions ex_open_run.
Print Assumptions ex_open_partial_thm.
Print Assumptions ex_open_partial_run.
Print Assumptions ex_flush_run.
Print Assumptions ex_flush_thm.
Print Assumptions ex_flush_cut1.
Print Assumptions ex_flush_cut2.
Print Assumptions ex_flush_torn_100.
Print Assumptions ex_flush_torn_300.
Print Assumptions torn_crc_field_counterexample.

(* BroadcastLib.v — list and counting lemmas used by BroadcastRefine.v / BroadcastFacts.v:
   `l_set`, the number of subscribers waiting for a position, the smallest cursor, the image of the queue. *)
From HC Require Import Base Broadcast.
From Coq Require Import ZifyN ZifyNat ZifyBool.
Ltac Zify.zify_post_hook ::= Z.div_mod_to_equations.
Arguments N.add : simpl never.
Arguments N.sub : simpl never.
Arguments N.mul : simpl never.
Arguments N.div : simpl never.
Arguments N.modulo : simpl never.
Arguments N.pow : simpl never.
Arguments N.eqb : simpl never.
Arguments N.ltb : simpl never.
Arguments N.leb : simpl never.
Arguments N.max : simpl never.
Arguments N.min : simpl never.
Arguments N.of_nat : simpl never.
Arguments N.to_nat : simpl never.
Arguments N.iter : simpl never.

(* ---------- l_set ---------- *)

Lemma l_set_length {B} (l : list B) k x : length (l_set l k x) = length l.
Proof.
  revert k. induction l as [|y r IH]; intros k; [reflexivity|].
  destruct k as [|k]; cbn [l_set length]; [reflexivity|]. now rewrite IH.
Qed.

Lemma l_set_nth_eq {B} (l : list B) k x : (k < length l)%nat -> nth_error (l_set l k x) k = Some x.
Proof.
  revert k. induction l as [|y r IH]; intros k H; cbn [length] in H; [lia|].
  destruct k as [|k]; cbn [l_set nth_error]; [reflexivity|]. apply IH. lia.
Qed.

Lemma l_set_nth_ne {B} (l : list B) k j x : j <> k -> nth_error (l_set l k x) j = nth_error l j.
Proof.
  revert k j. induction l as [|y r IH]; intros k j H; [reflexivity|].
  destruct k as [|k]; destruct j as [|j]; cbn [l_set nth_error]; try reflexivity; try congruence.
  apply IH. congruence.
Qed.

Lemma l_set_twice {B} (l : list B) k x y : l_set (l_set l k x) k y = l_set l k y.
Proof.
  revert k. induction l as [|z r IH]; intros k; [reflexivity|].
  destruct k as [|k]; cbn [l_set]; [reflexivity|]. now rewrite IH.
Qed.

Lemma l_set_same {B} (l : list B) k x : nth_error l k = Some x -> l_set l k x = l.
Proof.
  revert k. induction l as [|z r IH]; intros k H; [reflexivity|].
  destruct k as [|k]; cbn [l_set nth_error] in *; [congruence|]. now rewrite IH.
Qed.

Lemma l_set_In {B} (l : list B) k x y : In y (l_set l k x) -> y = x \/ In y l.
Proof.
  revert k. induction l as [|z r IH]; intros k H; [destruct H|].
  destruct k as [|k]; cbn [l_set In] in *.
  - destruct H as [H|H]; [left; congruence|right; right; exact H].
  - destruct H as [H|H]; [right; left; exact H|]. destruct (IH _ H) as [E|E]; [left; exact E|right; right; exact E].
Qed.

Lemma l_set_map {B C} (f : B -> C) (l : list B) k x : map f (l_set l k x) = l_set (map f l) k (f x).
Proof.
  revert k. induction l as [|z r IH]; intros k; [reflexivity|].
  destruct k as [|k]; cbn [l_set map]; [reflexivity|]. now rewrite IH.
Qed.

Lemma nth_error_lt {B} (l : list B) k x : nth_error l k = Some x -> (k < length l)%nat.
Proof. intros H. apply nth_error_Some. congruence. Qed.

(* ---------- counting subscribers ---------- *)

(* does a subscriber with cursor `o` still have to read position q *)
Definition contrib (o : option N) (q : N) : N :=
  match o with Some p => if p <=? q then 1 else 0 | None => 0 end.

(* number of live subscribers whose cursor is at or before position q *)
Fixpoint waiting (rs : list (option N)) (q : N) : N :=
  match rs with [] => 0 | o :: r => contrib o q + waiting r q end.

Definition alive (o : option N) : N := match o with Some _ => 1 | None => 0 end.

(* number of live subscribers *)
Fixpoint nlive (rs : list (option N)) : N :=
  match rs with [] => 0 | o :: r => alive o + nlive r end.

(* the smallest cursor of a live subscriber, t if there is none *)
Fixpoint minpos (rs : list (option N)) (t : N) : N :=
  match rs with
  | [] => t
  | Some p :: r => N.min p (minpos r t)
  | None :: r => minpos r t
  end.

Lemma contrib_le o q : contrib o q <= alive o.
Proof. destruct o as [p|]; cbn [contrib alive]; [destruct (p <=? q)|]; lia. Qed.

Lemma waiting_set rs k o o' q :
  nth_error rs k = Some o -> waiting (l_set rs k o') q + contrib o q = waiting rs q + contrib o' q.
Proof.
  revert k. induction rs as [|z r IH]; intros k H; [destruct k; discriminate|].
  destruct k as [|k]; cbn [l_set nth_error waiting] in *.
  - injection H as ->. lia.
  - specialize (IH _ H). lia.
Qed.

Lemma nlive_set rs k o o' :
  nth_error rs k = Some o -> nlive (l_set rs k o') + alive o = nlive rs + alive o'.
Proof.
  revert k. induction rs as [|z r IH]; intros k H; [destruct k; discriminate|].
  destruct k as [|k]; cbn [l_set nth_error nlive] in *.
  - injection H as ->. lia.
  - specialize (IH _ H). lia.
Qed.

Lemma waiting_app rs1 rs2 q : waiting (rs1 ++ rs2) q = waiting rs1 q + waiting rs2 q.
Proof. induction rs1 as [|o r IH]; cbn [app waiting]; [lia|]. rewrite IH. lia. Qed.

Lemma nlive_app rs1 rs2 : nlive (rs1 ++ rs2) = nlive rs1 + nlive rs2.
Proof. induction rs1 as [|o r IH]; cbn [app nlive]; [lia|]. rewrite IH. lia. Qed.

Lemma waiting_mono rs q q' : q <= q' -> waiting rs q <= waiting rs q'.
Proof.
  intros H. induction rs as [|o r IH]; cbn [waiting]; [lia|].
  assert (contrib o q <= contrib o q').
  { destruct o as [p|]; cbn [contrib]; [|lia]. destruct (p <=? q) eqn:E1; destruct (p <=? q') eqn:E2; lia. }
  lia.
Qed.

Lemma waiting_le_nlive rs q : waiting rs q <= nlive rs.
Proof. induction rs as [|o r IH]; cbn [waiting nlive]; [lia|]. pose proof (contrib_le o q). lia. Qed.

Lemma waiting_all rs q : (forall p, In (Some p) rs -> p <= q) -> waiting rs q = nlive rs.
Proof.
  induction rs as [|o r IH]; intros H; cbn [waiting nlive]; [reflexivity|].
  rewrite IH by (intros p Hp; apply H; right; exact Hp).
  destruct o as [p|]; cbn [contrib alive]; [|reflexivity].
  assert (p <= q) by (apply H; left; reflexivity). destruct (p <=? q) eqn:E; lia.
Qed.

Lemma waiting_zero rs q p : waiting rs q = 0 -> In (Some p) rs -> q < p.
Proof.
  induction rs as [|o r IH]; intros H Hin; [destruct Hin|].
  cbn [waiting] in H. destruct Hin as [->|Hin].
  - cbn [contrib] in H. destruct (p <=? q) eqn:E; lia.
  - apply IH; [lia|exact Hin].
Qed.

Lemma waiting_pos rs q : 1 <= waiting rs q -> exists p, In (Some p) rs /\ p <= q.
Proof.
  induction rs as [|o r IH]; intros H; cbn [waiting] in H; [lia|].
  destruct o as [p|]; cbn [contrib] in H.
  - destruct (p <=? q) eqn:E.
    + exists p. split; [left; reflexivity|lia].
    + destruct IH as (p' & Hin & Hle); [lia|]. exists p'. split; [right; exact Hin|exact Hle].
  - destruct IH as (p' & Hin & Hle); [lia|]. exists p'. split; [right; exact Hin|exact Hle].
Qed.

Lemma nlive_pos rs : 1 <= nlive rs -> exists p, In (Some p) rs.
Proof.
  induction rs as [|o r IH]; intros H; cbn [nlive] in H; [lia|].
  destruct o as [p|]; [exists p; left; reflexivity|].
  cbn [alive] in H. destruct IH as (p & Hp); [lia|]. exists p. right. exact Hp.
Qed.

Lemma nlive_zero rs p : nlive rs = 0 -> In (Some p) rs -> False.
Proof.
  induction rs as [|o r IH]; intros H Hin; [destruct Hin|].
  cbn [nlive] in H. destruct Hin as [->|Hin]; [cbn [alive] in H; lia|]. apply IH; [lia|exact Hin].
Qed.

Lemma minpos_le_t rs t : minpos rs t <= t.
Proof. induction rs as [|[p|] r IH]; cbn [minpos]; lia. Qed.

Lemma minpos_le_in rs t p : In (Some p) rs -> minpos rs t <= p.
Proof.
  induction rs as [|o r IH]; intros H; [destruct H|].
  destruct H as [->|H]; cbn [minpos].
  - lia.
  - specialize (IH H). destruct o; lia.
Qed.

Lemma minpos_attained rs t : minpos rs t < t -> In (Some (minpos rs t)) rs.
Proof.
  induction rs as [|[p|] r IH]; cbn [minpos]; intros H; [lia| |right; apply IH; exact H].
  destruct (N.le_gt_cases p (minpos r t)) as [L|L].
  - replace (N.min p (minpos r t)) with p by lia. left. reflexivity.
  - replace (N.min p (minpos r t)) with (minpos r t) in * by lia. right. apply IH. exact H.
Qed.

(* ---------- the image of the queue ---------- *)

Section Img.
  Variable A : Type.

  (* the queue holding the messages l, the first of them at position p, for the cursors rs *)
  Fixpoint qimg (rs : list (option N)) (l : list A) (p : N) : list (A * N) :=
    match l with
    | [] => []
    | a :: l' => (a, waiting rs p) :: qimg rs l' (p + 1)
    end.

  Lemma qimg_length rs l p : length (qimg rs l p) = length l.
  Proof. revert p. induction l as [|a l IH]; intros p; cbn [qimg length]; [reflexivity|]. now rewrite IH. Qed.

  Lemma qimg_nth rs l p i :
    nth_error (qimg rs l p) i = option_map (fun a => (a, waiting rs (p + N.of_nat i))) (nth_error l i).
  Proof.
    revert p i. induction l as [|a l IH]; intros p i; [destruct i; reflexivity|].
    destruct i as [|i]; cbn [qimg nth_error option_map].
    - replace (p + N.of_nat 0) with p by lia. reflexivity.
    - rewrite IH. replace (p + 1 + N.of_nat i) with (p + N.of_nat (S i)) by lia. reflexivity.
  Qed.

  Lemma qimg_app rs l1 l2 p :
    qimg rs (l1 ++ l2) p = qimg rs l1 p ++ qimg rs l2 (p + N.of_nat (length l1)).
  Proof.
    revert p. induction l1 as [|a l IH]; intros p; cbn [app qimg length].
    - replace (p + N.of_nat 0) with p by lia. reflexivity.
    - rewrite IH. replace (p + 1 + N.of_nat (length l)) with (p + N.of_nat (S (length l))) by lia. reflexivity.
  Qed.

  Lemma qimg_ext rs rs' l p :
    (forall q, p <= q < p + N.of_nat (length l) -> waiting rs' q = waiting rs q) ->
    qimg rs' l p = qimg rs l p.
  Proof.
    revert p. induction l as [|a l IH]; intros p H; [reflexivity|].
    cbn [qimg]. rewrite H by (cbn [length]; lia). f_equal.
    apply IH. intros q Hq. apply H. cbn [length]. lia.
  Qed.

  Lemma qimg_set rs rs' l p i a :
    nth_error l i = Some a ->
    (forall q, p <= q < p + N.of_nat (length l) -> q <> p + N.of_nat i -> waiting rs' q = waiting rs q) ->
    l_set (qimg rs l p) i (a, waiting rs' (p + N.of_nat i)) = qimg rs' l p.
  Proof.
    revert p i. induction l as [|b l IH]; intros p i Hn H; [destruct i; discriminate|].
    destruct i as [|i]; cbn [nth_error qimg l_set] in *.
    - injection Hn as ->. replace (p + N.of_nat 0) with p by lia. f_equal.
      symmetry. apply qimg_ext. intros q Hq. apply H; cbn [length]; lia.
    - rewrite <- H by (cbn [length]; lia). f_equal.
      replace (p + N.of_nat (S i)) with (p + 1 + N.of_nat i) by lia.
      apply IH; [exact Hn|]. intros q Hq Hne. apply H; cbn [length]; lia.
  Qed.
End Img.
Arguments qimg {A}.

(* ---------- skipn / firstn ---------- *)

Lemma skipn_nth {B} (l : list B) h i : nth_error (skipn h l) i = nth_error l (h + i).
Proof.
  revert l. induction h as [|h IH]; intros l; [reflexivity|].
  destruct l as [|x l]; cbn [skipn plus nth_error]; [destruct i; reflexivity|]. apply IH.
Qed.

Lemma skipn_tl {B} (l : list B) h : tl (skipn h l) = skipn (S h) l.
Proof.
  revert l. induction h as [|h IH]; intros l; [destruct l; reflexivity|].
  destruct l as [|x l]; [reflexivity|]. cbn [skipn] in *. apply IH.
Qed.

Lemma skipn_hd {B} (l : list B) h : hd_error (skipn h l) = nth_error l h.
Proof.
  revert l. induction h as [|h IH]; intros l; [destruct l; reflexivity|].
  destruct l as [|x l]; [reflexivity|]. cbn [skipn nth_error]. apply IH.
Qed.

Lemma skipn_snoc {B} (l : list B) h x : (h <= length l)%nat -> skipn h (l ++ [x]) = skipn h l ++ [x].
Proof.
  intros H. rewrite skipn_app. replace (h - length l)%nat with O by lia. reflexivity.
Qed.

(* FlatTree.v — flat in-order tree arithmetic and the stateful iterator.
   Mirrors: dependency crate flat-tree 6.0.0 (src/lib.rs, src/iterator.rs), over unbounded N.
   u64 overflow inside these functions is not modelled here: callers bound their climbs by fuel. *)
From HC Require Export Base.

Fixpoint tz (p : positive) : N :=
  match p with xO q => 1 + tz q | _ => 0 end.

(* number of trailing one bits of i *)
Definition ft_depth (i : N) : N := tz (N.succ_pos i).

Definition ft_offset (i : N) : N :=
  if N.even i then i / 2 else i / 2 ^ (ft_depth i + 1).

Definition ft_index (d o : N) : N := o * 2 ^ (d + 1) + 2 ^ d - 1.

Definition ft_parent (i : N) : N := ft_index (ft_depth i + 1) (ft_offset i / 2).

Definition ft_sibling (i : N) : N :=
  let o := ft_offset i in ft_index (ft_depth i) (if N.even o then o + 1 else o - 1).

Definition ft_left_span (i : N) : N :=
  let d := ft_depth i in if d =? 0 then i else ft_offset i * 2 ^ (d + 1).

Definition ft_right_span (i : N) : N :=
  let d := ft_depth i in if d =? 0 then i else (ft_offset i + 1) * 2 ^ (d + 1) - 2.

(* full_roots(2n): descending powers of two of n *)
Fixpoint full_roots_aux (fuel : nat) (tmp offset : N) : list N :=
  match fuel with
  | O => []
  | S f =>
      if tmp =? 0 then []
      else let factor := 2 ^ N.log2 tmp in
           (offset + factor - 1) :: full_roots_aux f (tmp - factor) (offset + 2 * factor)
  end.

(* argument is the even flat index 2n (the crate asserts evenness) *)
Definition ft_full_roots (i : N) : list N := full_roots_aux (N.size_nat (i / 2)) (i / 2) 0.

(* ---------- iterator ---------- *)

Record fiter := mkIter { it_index : N; it_offset : N; it_factor : N }.

Definition it_new (i : N) : fiter :=
  if N.odd i then mkIter i (ft_offset i) (2 ^ (ft_depth i + 1))
  else mkIter i (i / 2) 2.

Definition it_is_right (t : fiter) : bool := N.odd (it_offset t).

Definition it_contains (t : fiter) (i : N) : bool :=
  if it_index t <? i then i <? it_index t + it_factor t / 2
  else if i <? it_index t then
    let comp := it_factor t / 2 in (it_index t <? comp) || (it_index t - comp <? i)
  else true.

Definition it_next (t : fiter) : fiter :=
  mkIter (it_index t + it_factor t) (it_offset t + 1) (it_factor t).

Definition it_prev (t : fiter) : fiter :=
  if it_offset t =? 0 then t
  else mkIter (it_index t - it_factor t) (it_offset t - 1) (it_factor t).

Definition it_sibling (t : fiter) : fiter :=
  if N.even (it_offset t) then it_next t else it_prev t.

Definition it_parent (t : fiter) : fiter :=
  if N.odd (it_offset t)
  then mkIter (it_index t - it_factor t / 2) ((it_offset t - 1) / 2) (it_factor t * 2)
  else mkIter (it_index t + it_factor t / 2) (it_offset t / 2) (it_factor t * 2).

Definition it_left_child (t : fiter) : fiter :=
  if it_factor t =? 2 then t
  else let f := it_factor t / 2 in mkIter (it_index t - f / 2) (it_offset t * 2) f.

Definition it_right_child (t : fiter) : fiter :=
  if it_factor t =? 2 then t
  else let f := it_factor t / 2 in mkIter (it_index t + f / 2) (2 * it_offset t + 1) f.

Definition it_next_tree (t : fiter) : fiter :=
  let i := it_index t + it_factor t / 2 + 1 in mkIter i (i / 2) 2.

Definition it_right_span_index (t : fiter) : N := it_index t + it_factor t / 2 - 1.

(* while index > self.index + self.factor + self.factor / 2 { grow } *)
Fixpoint it_full_root_loop (fuel : nat) (t : fiter) (i : N) : fiter :=
  match fuel with
  | O => t
  | S f =>
      if it_index t + it_factor t + it_factor t / 2 <? i
      then it_full_root_loop f
             (mkIter (it_index t + it_factor t / 2) (it_offset t / 2) (it_factor t * 2)) i
      else t
  end.

(* returns (found, iterator); the loop doubles the factor each round, so [size i] rounds suffice *)
Definition it_full_root (t : fiter) (i : N) : bool * fiter :=
  if (i <=? it_index t) || N.odd (it_index t) then (false, t)
  else (true, it_full_root_loop (N.size_nat i) t i).

(* FixedWordsFacts.v — refinement of the word-level FixedBitfield model (FixedWords.v), part a:
   bit abstraction fw_bits, get/set, set_range (exact bits written, exact 'changed', no panic in range,
   panic out of range). Mirrors src/bitfield/fixed.rs. *)
From HC Require Import Base NMap Storage Bitfield BitfieldFacts FixedWords.
From Coq Require Import List NArith ZArith Lia Bool PeanoNat.
From Coq Require Import ZifyN ZifyNat ZifyBool.
Ltac Zify.zify_post_hook ::= Z.div_mod_to_equations.
#[local] Arguments N.add : simpl never.
#[local] Arguments N.sub : simpl never.
#[local] Arguments N.mul : simpl never.
#[local] Arguments N.div : simpl never.
#[local] Arguments N.modulo : simpl never.
#[local] Arguments N.pow : simpl never.
#[local] Arguments N.eqb : simpl never.
#[local] Arguments N.ltb : simpl never.
#[local] Arguments N.leb : simpl never.
#[local] Arguments N.min : simpl never.
#[local] Arguments N.shiftl : simpl never.
#[local] Arguments N.shiftr : simpl never.
#[local] Arguments N.land : simpl never.
#[local] Arguments N.lor : simpl never.
#[local] Arguments N.lxor : simpl never.
#[local] Arguments N.testbit : simpl never.
#[local] Arguments N.to_nat : simpl never.
#[local] Arguments N.of_nat : simpl never.

(* ------------------------------------------------------------------ *)
(** * 0. bit-level preliminaries *)

Lemma land31 x : N.land x 31 = x mod 32.
Proof. change 31 with (N.ones 5). rewrite N.land_ones. reflexivity. Qed.

Lemma land32767 x : N.land x 32767 = x mod 32768.
Proof. change 32767 with (N.ones 15). rewrite N.land_ones. reflexivity. Qed.

Lemma land3 x : N.land x 3 = x mod 4.
Proof. change 3 with (N.ones 2). rewrite N.land_ones. reflexivity. Qed.

Lemma word_idx x : (x - x mod 32) / 32 = x / 32.
Proof. lia. Qed.

Lemma page_idx x : (x - x mod 32768) / 32768 = x / 32768.
Proof. lia. Qed.

Lemma land_bit_eq0 w t : (N.land w (N.shiftl 1 t) =? 0) = negb (N.testbit w t).
Proof.
  rewrite N.shiftl_1_l. destruct (N.testbit w t) eqn:E; cbn [negb].
  - apply N.eqb_neq. intros H.
    assert (N.testbit (N.land w (2 ^ t)) t = false) as H1 by (rewrite H; apply N.bits_0).
    rewrite N.land_spec, E, N.pow2_bits_true in H1. discriminate.
  - apply N.eqb_eq. apply N.bits_inj_0. intros n.
    rewrite N.land_spec, N.pow2_bits_eqb.
    destruct (N.eqb_spec t n) as [<-|Hne]; [rewrite E; reflexivity | apply andb_false_r].
Qed.

Lemma bits_lt_pow2 a n : a < 2 ^ n -> forall t, n <= t -> N.testbit a t = false.
Proof.
  intros Ha t Ht. destruct (N.eq_dec a 0) as [->|Hn]; [apply N.bits_0|].
  apply N.bits_above_log2. apply N.lt_le_trans with n; [|exact Ht].
  apply N.log2_lt_pow2; lia.
Qed.

Lemma lt_pow2_bits a n : (forall t, n <= t -> N.testbit a t = false) -> a < 2 ^ n.
Proof.
  intros H. destruct (N.eq_dec a 0) as [->|Hn].
  - apply N.neq_0_lt_0. apply N.pow_nonzero. lia.
  - apply N.log2_lt_pow2; [lia|].
    destruct (N.lt_ge_cases (N.log2 a) n) as [Hl|Hl]; [exact Hl|].
    specialize (H _ Hl). rewrite N.bit_log2 in H by exact Hn. discriminate.
Qed.

Definition w32 (w : N) : Prop := w < 4294967296.

Lemma w32_bits w : w32 w <-> (forall t, 32 <= t -> N.testbit w t = false).
Proof.
  unfold w32. change 4294967296 with (2 ^ 32). split.
  - apply bits_lt_pow2.
  - apply lt_pow2_bits.
Qed.

(* the mask of set_range *)
Definition rmask (power offset : N) : N :=
  (N.shiftl (if power =? 32 then u32_max else 2 ^ power - 1) offset) mod 4294967296.

Lemma rmask_bits power offset t :
  offset + power <= 32 ->
  N.testbit (rmask power offset) t = (offset <=? t) && (t <? offset + power).
Proof.
  intros Hp. unfold rmask.
  assert (Hs : (if power =? 32 then u32_max else 2 ^ power - 1) = N.ones power).
  { destruct (N.eqb_spec power 32) as [->|_]; [reflexivity|].
    rewrite N.ones_equiv, N.sub_1_r. reflexivity. }
  rewrite Hs. change 4294967296 with (2 ^ 32).
  destruct (N.lt_ge_cases t 32) as [Ht|Ht].
  - rewrite N.mod_pow2_bits_low by exact Ht.
    destruct (N.le_gt_cases offset t) as [Ho|Ho].
    + rewrite N.shiftl_spec_high' by exact Ho.
      destruct (N.lt_ge_cases (t - offset) power) as [Hq|Hq].
      * rewrite N.ones_spec_low by exact Hq. lia.
      * rewrite N.ones_spec_high by exact Hq. lia.
    + rewrite N.shiftl_spec_low by exact Ho. lia.
  - rewrite N.mod_pow2_bits_high by exact Ht. lia.
Qed.

Lemma land_eq_mask_all w mask :
  (N.land w mask =? mask) = true -> forall t, N.testbit mask t = true -> N.testbit w t = true.
Proof.
  intros H t Ht. apply N.eqb_eq in H.
  apply (f_equal (fun x => N.testbit x t)) in H. rewrite N.land_spec, Ht, andb_true_r in H. exact H.
Qed.

Lemma land_neq_mask_ex w mask :
  (N.land w mask =? mask) = false -> exists t, N.testbit mask t = true /\ N.testbit w t = false.
Proof.
  intros H. apply N.eqb_neq in H.
  assert (Hd : N.ldiff mask w <> 0).
  { intros E. apply H. apply N.bits_inj. intros t.
    apply (f_equal (fun x => N.testbit x t)) in E. rewrite N.ldiff_spec, N.bits_0 in E.
    rewrite N.land_spec. destruct (N.testbit mask t), (N.testbit w t); cbn in *; congruence. }
  exists (N.log2 (N.ldiff mask w)).
  pose proof (N.bit_log2 _ Hd) as Hb. rewrite N.ldiff_spec in Hb.
  apply andb_true_iff in Hb. destruct Hb as [Hb1 Hb2]. split; [exact Hb1|].
  now apply negb_true_iff in Hb2.
Qed.

Lemma land_eq0_all w mask :
  (N.land w mask =? 0) = true -> forall t, N.testbit mask t = true -> N.testbit w t = false.
Proof.
  intros H t Ht. apply N.eqb_eq in H.
  apply (f_equal (fun x => N.testbit x t)) in H. rewrite N.land_spec, Ht, andb_true_r, N.bits_0 in H. exact H.
Qed.

Lemma land_neq0_ex w mask :
  (N.land w mask =? 0) = false -> exists t, N.testbit mask t = true /\ N.testbit w t = true.
Proof.
  intros H. apply N.eqb_neq in H. exists (N.log2 (N.land w mask)).
  pose proof (N.bit_log2 _ H) as Hb. rewrite N.land_spec in Hb.
  apply andb_true_iff in Hb. destruct Hb as [Hb1 Hb2]. split; assumption.
Qed.

(* ------------------------------------------------------------------ *)
(** * 1. lists of words *)

Lemma length_list_upd {A} (l : list A) : forall n x, length (list_upd l n x) = length l.
Proof.
  induction l as [|a r IH]; intros n x; [reflexivity|].
  destruct n; cbn [list_upd length]; [reflexivity | now rewrite IH].
Qed.

Lemma nth_list_upd {A} (l : list A) : forall n m x d,
  (m < length l)%nat -> nth n (list_upd l m x) d = if (n =? m)%nat then x else nth n l d.
Proof.
  induction l as [|a r IH]; intros n m x d Hm; cbn [length] in Hm; [lia|].
  destruct m as [|m]; cbn [list_upd].
  - destruct n; reflexivity.
  - destruct n as [|n]; cbn [nth]; [reflexivity|].
    rewrite IH by lia. reflexivity.
Qed.

Lemma Forall_list_upd {A} (P : A -> Prop) (l : list A) : forall n x,
  Forall P l -> P x -> Forall P (list_upd l n x).
Proof.
  induction l as [|a r IH]; intros n x Hl Hx; [constructor|].
  inversion Hl as [|? ? Ha Hr]; subst.
  destruct n; cbn [list_upd]; constructor; auto.
Qed.

Lemma Forall_nth_N (P : N -> Prop) l n : Forall P l -> P 0 -> P (nth n l 0).
Proof.
  intros Hl H0. destruct (Nat.lt_ge_cases n (length l)) as [H|H].
  - rewrite Forall_forall in Hl. apply Hl. now apply nth_In.
  - rewrite nth_overflow by exact H. exact H0.
Qed.

(* bit k of a word list *)
Definition wbit (ws : list N) (k : N) : bool :=
  N.testbit (nth (N.to_nat (k / 32)) ws 0) (k mod 32).

Definition fw_bits (p : page) (k : N) : bool := wbit (pg_words p) k.

Definition page_wf (p : page) : Prop := len (pg_words p) = 1024.
Definition page_ok (p : page) : Prop := len (pg_words p) = 1024 /\ Forall w32 (pg_words p).

Lemma wbit_upd ws i w' k :
  i < len ws ->
  wbit (list_upd ws (N.to_nat i) w') k =
  if k / 32 =? i then N.testbit w' (k mod 32) else wbit ws k.
Proof.
  intros Hi. unfold wbit, len in *. rewrite nth_list_upd by lia.
  destruct (N.eqb_spec (k / 32) i) as [E|E].
  - rewrite E, Nat.eqb_refl. reflexivity.
  - assert ((N.to_nat (k / 32) =? N.to_nat i)%nat = false) as -> by (apply Nat.eqb_neq; lia).
    reflexivity.
Qed.

Lemma wbit_high ws k : len ws * 32 <= k -> wbit ws k = false.
Proof.
  intros H. unfold wbit, len in *. rewrite nth_overflow by lia. apply N.bits_0.
Qed.

(* ------------------------------------------------------------------ *)
(** * 2. get / set *)

Theorem fw_get_bits p i : i < 32768 -> fw_get p i = Ok (fw_bits p i).
Proof.
  intros Hi. unfold fw_get, word_at, FW_WORDS. rewrite land31, word_idx.
  assert (i / 32 <? 1024 = true) as -> by lia. cbn [bind].
  rewrite land_bit_eq0, negb_involutive. reflexivity.
Qed.

Theorem fw_get_panics p i : 32768 <= i -> exists s, fw_get p i = Panic s.
Proof.
  intros Hi. unfold fw_get, word_at, FW_WORDS. rewrite land31, word_idx.
  assert (i / 32 <? 1024 = false) as -> by lia. cbn [bind]. eexists. reflexivity.
Qed.

Lemma testbit_lxor_bit w t u :
  N.testbit (N.lxor w (N.shiftl 1 t)) u = if u =? t then negb (N.testbit w u) else N.testbit w u.
Proof.
  rewrite N.lxor_spec, N.shiftl_1_l, N.pow2_bits_eqb.
  rewrite (N.eqb_sym t u). destruct (u =? t), (N.testbit w u); reflexivity.
Qed.

Theorem fw_set_spec p i v :
  page_wf p -> i < 32768 ->
  exists p', fw_set p i v = Ok (p', xorb (fw_bits p i) v) /\
             page_wf p' /\ pg_dirty p' = pg_dirty p /\
             (Forall w32 (pg_words p) -> Forall w32 (pg_words p')) /\
             forall k, fw_bits p' k = if k =? i then v else fw_bits p k.
Proof.
  intros Hwf Hi. unfold page_wf in *. unfold fw_set, word_at, FW_WORDS. rewrite land31, word_idx.
  assert (i / 32 <? 1024 = true) as -> by lia. cbn [bind].
  rewrite land_bit_eq0, negb_involutive.
  fold (wbit (pg_words p) i). fold (fw_bits p i).
  destruct (Bool.eqb (fw_bits p i) v) eqn:E.
  - apply eqb_prop in E. exists p. rewrite E, xorb_nilpotent. repeat split; auto.
    intros k. destruct (N.eqb_spec k i) as [->|_]; [exact E | reflexivity].
  - apply eqb_false_iff in E. eexists. split; [|split; [|split; [|split]]].
    + f_equal. f_equal. destruct (fw_bits p i), v; cbn; congruence.
    + unfold page_wf. cbn [pg_words]. unfold len in *. rewrite length_list_upd. exact Hwf.
    + reflexivity.
    + cbn [pg_words]. intros Hf. apply Forall_list_upd; [exact Hf|].
      apply w32_bits. intros t Ht. rewrite testbit_lxor_bit.
      assert (Hw : w32 (nth (N.to_nat (i / 32)) (pg_words p) 0)).
      { apply Forall_nth_N; [exact Hf | unfold w32; lia]. }
      rewrite w32_bits in Hw. assert (t =? i mod 32 = false) as -> by lia. apply Hw. exact Ht.
    + intros k. unfold fw_bits at 1. cbn [pg_words]. rewrite wbit_upd by lia.
      destruct (N.eqb_spec k i) as [->|Hne].
      * rewrite N.eqb_refl, testbit_lxor_bit, N.eqb_refl.
        fold (wbit (pg_words p) i). fold (fw_bits p i). destruct (fw_bits p i), v; cbn; congruence.
      * destruct (N.eqb_spec (k / 32) (i / 32)) as [E2|E2]; [|reflexivity].
        rewrite testbit_lxor_bit. assert (k mod 32 =? i mod 32 = false) as -> by lia.
        unfold fw_bits, wbit. rewrite E2. reflexivity.
Qed.

(* ------------------------------------------------------------------ *)
(** * 3. set_range *)

Definition in_range (s n k : N) : bool := (s <=? k) && (k <? s + n).

Lemma range_step (ws : list N) i offset power (value changed : bool) :
  len ws = 1024 -> i < 1024 -> 0 < power -> offset + power <= 32 ->
  let w := nth (N.to_nat i) ws 0 in
  let mask := rmask power offset in
  let wc := if value then
              if negb (N.land w mask =? mask)
              then (list_upd ws (N.to_nat i) (N.lor w mask), true) else (ws, changed)
            else
              if negb (N.land w mask =? 0)
              then (list_upd ws (N.to_nat i) (N.land w (N.lxor mask u32_max)), true) else (ws, changed) in
  len (fst wc) = 1024 /\
  (Forall w32 ws -> Forall w32 (fst wc)) /\
  (forall k, wbit (fst wc) k = if in_range (32 * i + offset) power k then value else wbit ws k) /\
  (snd wc = true <-> changed = true \/
                     exists k, 32 * i + offset <= k < 32 * i + offset + power /\ wbit ws k <> value).
Proof.
  intros Hlen Hi Hp Hop w mask wc.
  assert (Hm : forall t, N.testbit mask t = (offset <=? t) && (t <? offset + power)).
  { intros t. apply rmask_bits. exact Hop. }
  assert (Hk : forall k, in_range (32 * i + offset) power k =
                         (k / 32 =? i) && N.testbit mask (k mod 32)).
  { intros k. rewrite Hm. unfold in_range. lia. }
  assert (Hwk : forall k, k / 32 = i -> wbit ws k = N.testbit w (k mod 32)).
  { intros k E. unfold wbit, w. rewrite E. reflexivity. }
  assert (Hex1 : forall (b : bool), (exists t, N.testbit mask t = true /\ N.testbit w t = b) ->
            exists k, 32 * i + offset <= k < 32 * i + offset + power /\ wbit ws k = b).
  { intros b (t & Ht1 & Ht2). rewrite Hm in Ht1. exists (32 * i + t). split; [lia|].
    rewrite Hwk by lia. replace ((32 * i + t) mod 32) with t by lia. exact Ht2. }
  assert (Hmk : forall k, 32 * i + offset <= k < 32 * i + offset + power ->
                k / 32 = i /\ N.testbit mask (k mod 32) = true).
  { intros k Hkr. rewrite Hm. lia. }
  assert (Hw32 : Forall w32 ws -> w32 w).
  { intros Hf. apply Forall_nth_N; [exact Hf | unfold w32; lia]. }
  assert (Hmask32 : w32 mask).
  { apply w32_bits. intros t Ht. rewrite Hm. lia. }
  unfold wc. destruct value.
  - destruct (N.land w mask =? mask) eqn:E; cbn [negb fst snd].
    + split; [exact Hlen|]. split; [auto|]. split.
      * intros k. rewrite Hk. destruct (N.eqb_spec (k / 32) i) as [E2|E2]; cbn [andb]; [|reflexivity].
        destruct (N.testbit mask (k mod 32)) eqn:E3; [|reflexivity].
        rewrite Hwk by exact E2. apply (land_eq_mask_all _ _ E). exact E3.
      * split; [auto|]. intros [H|(k & Hkr & Hb)]; [exact H|]. exfalso. apply Hb.
        destruct (Hmk k Hkr) as [E2 E3]. rewrite Hwk by exact E2. apply (land_eq_mask_all _ _ E). exact E3.
    + split; [unfold len in *; rewrite length_list_upd; exact Hlen|]. split; [|split].
      * intros Hf. apply Forall_list_upd; [exact Hf|]. apply w32_bits. intros t Ht.
        rewrite N.lor_spec. apply w32_bits with (t := t) in Hmask32; [|exact Ht].
        specialize (Hw32 Hf). apply w32_bits with (t := t) in Hw32; [|exact Ht].
        rewrite Hmask32, Hw32. reflexivity.
      * intros k. rewrite wbit_upd by lia. rewrite Hk.
        destruct (N.eqb_spec (k / 32) i) as [E2|E2]; cbn [andb]; [|reflexivity].
        rewrite N.lor_spec. rewrite Hwk by exact E2.
        destruct (N.testbit mask (k mod 32)); [apply orb_true_r | apply orb_false_r].
      * split; [|reflexivity]. intros _. right.
        destruct (Hex1 false (land_neq_mask_ex _ _ E)) as (k & Hkr & Hb). exists k. split; [exact Hkr|].
        rewrite Hb. discriminate.
  - destruct (N.land w mask =? 0) eqn:E; cbn [negb fst snd].
    + split; [exact Hlen|]. split; [auto|]. split.
      * intros k. rewrite Hk. destruct (N.eqb_spec (k / 32) i) as [E2|E2]; cbn [andb]; [|reflexivity].
        destruct (N.testbit mask (k mod 32)) eqn:E3; [|reflexivity].
        rewrite Hwk by exact E2. apply (land_eq0_all _ _ E). exact E3.
      * split; [auto|]. intros [H|(k & Hkr & Hb)]; [exact H|]. exfalso. apply Hb.
        destruct (Hmk k Hkr) as [E2 E3]. rewrite Hwk by exact E2. apply (land_eq0_all _ _ E). exact E3.
    + split; [unfold len in *; rewrite length_list_upd; exact Hlen|]. split; [|split].
      * intros Hf. apply Forall_list_upd; [exact Hf|]. apply w32_bits. intros t Ht.
        rewrite N.land_spec.
        specialize (Hw32 Hf). apply w32_bits with (t := t) in Hw32; [|exact Ht].
        rewrite Hw32. reflexivity.
      * intros k. rewrite wbit_upd by lia. rewrite Hk.
        destruct (N.eqb_spec (k / 32) i) as [E2|E2]; cbn [andb]; [|reflexivity].
        rewrite N.land_spec, N.lxor_spec. rewrite Hwk by exact E2.
        change u32_max with (N.ones 32). rewrite N.ones_spec_low by lia.
        destruct (N.testbit mask (k mod 32)); cbn [xorb negb]; [apply andb_false_r | apply andb_true_r].
      * split; [|reflexivity]. intros _. right.
        destruct (Hex1 true (land_neq0_ex _ _ E)) as (k & Hkr & Hb). exists k. split; [exact Hkr|].
        rewrite Hb. discriminate.
Qed.

Lemma fw_range_loop_spec fuel : forall ws remaining offset i value changed,
  len ws = 1024 -> offset < 32 -> 32 * i + offset + remaining <= 32768 ->
  1024 < i + N.of_nat fuel ->
  exists ws' ch',
    fw_range_loop fuel ws remaining offset i value changed = Ok (ws', ch') /\
    len ws' = 1024 /\
    (Forall w32 ws -> Forall w32 ws') /\
    (forall k, wbit ws' k = if in_range (32 * i + offset) remaining k then value else wbit ws k) /\
    (ch' = true <-> changed = true \/
                    exists k, 32 * i + offset <= k < 32 * i + offset + remaining /\ wbit ws k <> value).
Proof.
  induction fuel as [|f IH]; intros ws remaining offset i value changed Hlen Ho Hr Hf; [lia|].
  cbn [fw_range_loop]. destruct (N.eqb_spec remaining 0) as [->|Hr0].
  - exists ws, changed. split; [reflexivity|]. split; [exact Hlen|]. split; [auto|]. split.
    + intros k. unfold in_range. assert ((32 * i + offset <=? k) && (k <? 32 * i + offset + 0) = false) as -> by lia.
      reflexivity.
    + split; [auto|]. intros [H|(k & Hk & _)]; [exact H | lia].
  - assert (Hi : i < 1024) by lia.
    unfold word_at, FW_WORDS. assert (i <? 1024 = true) as -> by lia. cbn [bind].
    set (power := N.min remaining (32 - offset)).
    fold (rmask power offset).
    assert (Hp : 0 < power) by (unfold power; lia).
    assert (Hop : offset + power <= 32) by (unfold power; lia).
    pose proof (range_step ws i offset power value changed Hlen Hi Hp Hop) as Hstep.
    cbv zeta in Hstep.
    match type of Hstep with len (fst ?wc0) = _ /\ _ => set (wc := wc0) in * end.
    destruct Hstep as (S1 & S2 & S3 & S4).
    destruct (IH (fst wc) (remaining - (32 - offset)) 0 (i + 1) value (snd wc) S1) as (ws' & ch' & R0 & R1 & R2 & R3 & R4);
      [lia | unfold power in *; lia | lia |].
    exists ws', ch'. split; [exact R0|]. split; [exact R1|]. split; [auto|]. split.
    + intros k. rewrite R3, S3. unfold in_range, power.
      destruct (N.le_gt_cases remaining (32 - offset)) as [Hc|Hc].
      * replace (remaining - (32 - offset)) with 0 by lia.
        replace (N.min remaining (32 - offset)) with remaining by lia.
        assert ((32 * (i + 1) + 0 <=? k) && (k <? 32 * (i + 1) + 0 + 0) = false) as -> by lia. reflexivity.
      * replace (N.min remaining (32 - offset)) with (32 - offset) by lia.
        destruct ((32 * (i + 1) + 0 <=? k) && (k <? 32 * (i + 1) + 0 + (remaining - (32 - offset)))) eqn:E1.
        -- assert ((32 * i + offset <=? k) && (k <? 32 * i + offset + remaining) = true) as -> by lia. reflexivity.
        -- destruct ((32 * i + offset <=? k) && (k <? 32 * i + offset + (32 - offset))) eqn:E2.
           ++ assert ((32 * i + offset <=? k) && (k <? 32 * i + offset + remaining) = true) as -> by lia. reflexivity.
           ++ assert ((32 * i + offset <=? k) && (k <? 32 * i + offset + remaining) = false) as -> by lia. reflexivity.
    + rewrite R4, S4. split.
      * intros [[H|(k & Hk & Hb)]|(k & Hk & Hb)].
        -- left. exact H.
        -- right. exists k. split; [unfold power in Hk; lia | exact Hb].
        -- right. exists k. split; [lia|]. rewrite S3 in Hb.
           assert (in_range (32 * i + offset) power k = false) as E by (unfold in_range, power; lia).
           rewrite E in Hb. exact Hb.
      * intros [H|(k & Hk & Hb)]; [left; left; exact H|].
        destruct (N.lt_ge_cases k (32 * i + offset + power)) as [Hc|Hc].
        -- left. right. exists k. split; [lia | exact Hb].
        -- right. exists k. split; [unfold power in *; lia|]. rewrite S3.
           assert (in_range (32 * i + offset) power k = false) as -> by (unfold in_range; lia).
           exact Hb.
Qed.

(* does some bit of f in [i, i+n) differ from v ? (Bitfield.bits_differ on a bit function) *)
Fixpoint fbits_differ (f : N -> bool) (i : N) (n : nat) (v : bool) : bool :=
  match n with
  | O => false
  | S k => xorb (f i) v || fbits_differ f (i + 1) k v
  end.

Lemma fbits_differ_iff f n : forall i v,
  fbits_differ f i n v = true <-> exists k, i <= k < i + N.of_nat n /\ f k <> v.
Proof.
  induction n as [|n IH]; intros i v; cbn [fbits_differ].
  - split; [discriminate | intros (k & Hk & _); lia].
  - rewrite orb_true_iff, IH. split.
    + intros [H|(k & Hk & Hb)].
      * exists i. split; [lia|]. destruct (f i), v; cbn in H; congruence.
      * exists k. split; [lia | exact Hb].
    + intros (k & Hk & Hb). destruct (N.eq_dec k i) as [->|Hne].
      * left. destruct (f i), v; cbn; congruence.
      * right. exists k. split; [lia | exact Hb].
Qed.

Lemma bits_differ_fbits (m : nmap unit) n : forall i v,
  bits_differ m i n v = fbits_differ (fun k => nm_mem k m) i n v.
Proof. induction n as [|n IH]; intros i v; cbn [bits_differ fbits_differ]; [reflexivity | now rewrite IH]. Qed.

Lemma fbits_differ_ext f g n : forall i v,
  (forall k, i <= k < i + N.of_nat n -> f k = g k) -> fbits_differ f i n v = fbits_differ g i n v.
Proof.
  induction n as [|n IH]; intros i v H; cbn [fbits_differ]; [reflexivity|].
  rewrite H by lia. rewrite (IH (i + 1) v); [reflexivity|]. intros k Hk. apply H. lia.
Qed.

Lemma fw_range_fuel_val : N.of_nat fw_range_fuel = 1025.
Proof. unfold fw_range_fuel. apply N2Nat.id. Qed.

(** set_range on in-range arguments: never panics, writes exactly [start, start+length), and
    `changed` is exactly "some bit of the range differed from v". *)
Theorem fw_set_range_spec p start length v :
  page_wf p -> start + length <= 32768 ->
  exists p',
    fw_set_range p start length v = Ok (p', fbits_differ (fw_bits p) start (N.to_nat length) v) /\
    page_wf p' /\ pg_dirty p' = pg_dirty p /\
    (Forall w32 (pg_words p) -> Forall w32 (pg_words p')) /\
    forall k, fw_bits p' k = if in_range start length k then v else fw_bits p k.
Proof.
  intros Hwf Hr. unfold page_wf in *. unfold fw_set_range, fits_u32, u32_max.
  assert (start + length <=? 4294967295 = true) as -> by lia. cbn [negb].
  rewrite land31, word_idx.
  destruct (fw_range_loop_spec fw_range_fuel (pg_words p) length (start mod 32) (start / 32) v false Hwf)
    as (ws' & ch' & R0 & R1 & R2 & R3 & R4); [lia | lia | rewrite fw_range_fuel_val; lia |].
  rewrite R0. cbn [bind].
  replace (32 * (start / 32) + start mod 32) with start in * by lia.
  exists (mkPage (pg_dirty p) ws'). split; [|split; [|split; [|split]]].
  - f_equal. f_equal. apply eq_true_iff_eq. rewrite R4, fbits_differ_iff, N2Nat.id.
    unfold fw_bits. split.
    + intros [H|H]; [discriminate | exact H].
    + intros H. right. exact H.
  - exact R1.
  - reflexivity.
  - exact R2.
  - exact R3.
Qed.

Lemma fbits_differ_shift f base n : forall i v,
  fbits_differ (fun k => f (base + k)) i n v = fbits_differ f (base + i) n v.
Proof.
  induction n as [|n IH]; intros i v; cbn [fbits_differ]; [reflexivity|].
  rewrite IH. replace (base + (i + 1)) with (base + i + 1) by lia. reflexivity.
Qed.

(* the same with the abstract model's vocabulary: [changed] is Bitfield.bits_differ of any set
   that agrees with the page on the page's 32768 bits (placed at [base]) *)
Corollary fw_set_range_bits_differ p start length v (m : nmap unit) base :
  page_wf p -> start + length <= 32768 ->
  (forall k, k < 32768 -> nm_mem (base + k) m = fw_bits p k) ->
  exists p', fw_set_range p start length v = Ok (p', bits_differ m (base + start) (N.to_nat length) v) /\
             page_wf p' /\ pg_dirty p' = pg_dirty p /\
             (Forall w32 (pg_words p) -> Forall w32 (pg_words p')) /\
             forall k, fw_bits p' k = if in_range start length k then v else fw_bits p k.
Proof.
  intros Hwf Hr Hm. destruct (fw_set_range_spec p start length v Hwf Hr) as (p' & H & Hrest).
  exists p'. split; [|exact Hrest]. rewrite H. f_equal. f_equal.
  rewrite bits_differ_fbits, <- fbits_differ_shift.
  apply fbits_differ_ext. intros k Hk. symmetry. apply Hm. lia.
Qed.

Lemma fw_range_loop_panics fuel : forall ws remaining offset i value changed,
  offset < 32 -> 0 < remaining -> 32768 < 32 * i + offset + remaining ->
  1024 <= i + N.of_nat fuel ->
  exists s, fw_range_loop (S fuel) ws remaining offset i value changed = Panic s.
Proof.
  induction fuel as [|f IH]; intros ws remaining offset i value changed Ho Hr0 Hr Hf.
  - cbn [fw_range_loop]. assert (remaining =? 0 = false) as -> by lia.
    unfold word_at, FW_WORDS. assert (i <? 1024 = false) as -> by lia. cbn [bind]. eexists; reflexivity.
  - remember (S f) as f' eqn:Ef. cbn [fw_range_loop]. assert (remaining =? 0 = false) as -> by lia.
    unfold word_at, FW_WORDS. destruct (N.ltb_spec i 1024) as [Hi|Hi]; cbn [bind]; [|eexists; reflexivity].
    subst f'. apply IH; lia.
Qed.

(* out of range: a non-empty range reaching beyond bit 32768 panics (u32 overflow or word index 1024) *)
Theorem fw_set_range_panics p start length v :
  0 < length -> 32768 < start + length ->
  exists s, fw_set_range p start length v = Panic s.
Proof.
  intros Hl Hr. unfold fw_set_range. destruct (fits_u32 (start + length)); cbn [negb]; [|eexists; reflexivity].
  rewrite land31, word_idx.
  unfold fw_range_fuel. replace (N.to_nat 1025) with (S (N.to_nat 1024)) by lia.
  destruct (fw_range_loop_panics (N.to_nat 1024) (pg_words p) length (start mod 32) (start / 32) v false)
    as (s & ->); [lia | lia | lia | lia |].
  cbn [bind]. eexists. reflexivity.
Qed.

(* an empty range never panics and changes nothing, wherever it starts *)
Theorem fw_set_range_empty p start v :
  start <= 4294967295 -> fw_set_range p start 0 v = Ok (mkPage (pg_dirty p) (pg_words p), false).
Proof.
  intros Hs. unfold fw_set_range, fits_u32, u32_max.
  assert (start + 0 <=? 4294967295 = true) as -> by lia. cbn [negb].
  unfold fw_range_fuel. replace (N.to_nat 1025) with (S (N.to_nat 1024)) by lia.
  cbn [fw_range_loop]. rewrite N.eqb_refl. reflexivity.
Qed.

Lemma page_wf_new : page_wf fw_new.
Proof. vm_compute. reflexivity. Qed.

Lemma page_ok_new : page_ok fw_new.
Proof.
  split; [apply page_wf_new|]. cbn [fw_new pg_words]. unfold fw_zero_words.
  generalize fw_fuel_words as n. induction n; cbn [repeat]; constructor; [unfold w32; lia | assumption].
Qed.

Lemma fw_bits_new k : fw_bits fw_new k = false.
Proof.
  unfold fw_bits, wbit. cbn [fw_new pg_words]. unfold fw_zero_words.
  assert (H : forall n m, nth m (repeat 0 n) 0 = 0).
  { induction n as [|n IH]; intros [|m]; cbn [repeat nth]; auto. }
  rewrite H. apply N.bits_0.
Qed.

(* non-vacuity: the hypotheses hold on concrete, non-trivial instances *)
Example fw_set_range_spec_ex :
  page_wf fw_new /\ 30 + 30070 <= 32768 /\
  (exists p', fw_set_range fw_new 30 30070 true = Ok (p', true) /\ page_wf p' /\
     fw_set_range p' 100 200 true = Ok (p', false) /\
     (exists p'', fw_set_range p' 29 2 true = Ok (p'', true) /\ fw_get p'' 29 = Ok true)).
Proof.
  split; [apply page_wf_new|]. split; [lia|].
  destruct (fw_set_range fw_new 30 30070 true) as [[p' c]| | |] eqn:E; try (vm_compute in E; discriminate).
  assert (c = true) by (vm_compute in E; congruence). subst c.
  exists p'. split; [reflexivity|].
  assert (Hp : p' = fst (match fw_set_range fw_new 30 30070 true with Ok x => x | _ => (fw_new, false) end))
    by (rewrite E; reflexivity).
  split; [rewrite Hp; vm_compute; reflexivity|]. split; [rewrite Hp; vm_compute; reflexivity|].
  rewrite Hp.
  eexists. split; vm_compute; reflexivity.
Qed.

Example fw_set_range_panics_ex :
  (exists s, fw_set_range fw_new 32760 9 true = Panic s) /\
  (exists s, fw_set_range fw_new 4294967295 1 true = Panic s).
Proof. split; eexists; vm_compute; reflexivity. Qed.

Print Assumptions fw_get_bits.
Print Assumptions fw_get_panics.
Print Assumptions fw_set_spec.
Print Assumptions fw_set_range_spec.
Print Assumptions fw_set_range_bits_differ.
Print Assumptions fw_set_range_panics.
Print Assumptions fw_set_range_empty.
Print Assumptions fbits_differ_iff.

(* FnDesc.v — the vocabulary in which tools/srcfns.py states small pure Rust expressions of /repo/src (SrcFns.v, regenerated on
   every run), and their meaning. An expression is over named variables (a Rust place such as `self.header_bits[0]`,
   `bitfield_update.start`, `data_buff.len()`, a parameter, a `let mut` variable or a file-level constant, by its normalised
   source text), natural-number literals and the operators below.

   Meaning ([reval]): unbounded naturals; a boolean is 0 / 1 ([truthy] = "is not 0"); `<<` `>>` `&` `|` `^` are N.shiftl / N.shiftr /
   N.land / N.lor / N.lxor; `-` saturates at 0. The machine-width effects of the Rust operators (wrap-around of `<<` and `+`, panic
   of `-` below 0 in debug builds) are outside this meaning: every theorem of FnTie.v states the range of its arguments, in which
   they cannot occur. `!` is the negation of a bool (the translator emits it only for operands of type bool). *)
From Coq Require Export String List NArith Bool.
Export ListNotations.
Local Open Scope N_scope.

Inductive rbinop :=
| OShl | OShr | OAnd | OOr | OXor | OAdd | OSub | OMul
| OEq | ONe | OLt | OLe | OGt | OGe
| OLAnd | OLOr.

Inductive rexpr :=
| RLit (n : N)
| RVar (x : string)
| RNot (a : rexpr)
| RBin (op : rbinop) (a b : rexpr)
| RIf (c a b : rexpr).

Definition truthy (n : N) : bool := negb (n =? 0).

Definition rbin (op : rbinop) (a b : N) : N :=
  match op with
  | OShl => N.shiftl a b
  | OShr => N.shiftr a b
  | OAnd => N.land a b
  | OOr => N.lor a b
  | OXor => N.lxor a b
  | OAdd => a + b
  | OSub => a - b
  | OMul => a * b
  | OEq => N.b2n (a =? b)
  | ONe => N.b2n (negb (a =? b))
  | OLt => N.b2n (a <? b)
  | OLe => N.b2n (a <=? b)
  | OGt => N.b2n (b <? a)
  | OGe => N.b2n (b <=? a)
  | OLAnd => N.b2n (truthy a && truthy b)
  | OLOr => N.b2n (truthy a || truthy b)
  end.

Fixpoint reval (env : string -> N) (e : rexpr) : N :=
  match e with
  | RLit n => n
  | RVar x => env x
  | RNot a => N.b2n (negb (truthy (reval env a)))
  | RBin op a b => rbin op (reval env a) (reval env b)
  | RIf c a b => if truthy (reval env c) then reval env a else reval env b
  end.

(* an environment given as an association list; a variable that is not listed is 0 *)
Fixpoint env_of (l : list (string * N)) (x : string) : N :=
  match l with
  | [] => 0
  | (y, v) :: r => if String.eqb y x then v else env_of r x
  end.

(* the shape of every obligation about a source-derived item: [None] (no longer found in the recognisable form) is trivially true *)
Definition tied_fn {A} (src : option A) (P : A -> Prop) : Prop :=
  match src with Some e => P e | None => True end.

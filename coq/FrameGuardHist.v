(* FrameGuardHist.v -- the header premise of FrameGuard.apply_any_returns_no_panic along replica histories.
   header_room is asked of the state a proof is applied to.  Here it is derived from a condition on the INITIAL
   state that every call of a replica history (EventsAvail.run_ops: append attempts, apply with ANY outcome,
   get, create_proof, missing_nodes, make_read_only) preserves:
     hdr_small h :  key + namespace + manifest key + encoded key pair + 261 < 2^30,
                    root hash of at most 32 bytes, signature of at most 64 bytes
   (a commit rewrites only the tree section and the hint; make_read_only only shrinks the key pair).
     apply_header                 the header after core_apply_proof, whatever the outcome
     any_history_hdr_small        hdr_small along run_ops
     any_history_apply_returns_no_panic_init
                                  C09 (verification side) for every state a replica reaches, no frame alternative,
                                  the header condition asked of the initial state only
     hdr_small_new                every header made by header_new from a 32-byte public key is small *)
From HC Require Import Base NMap Codec CodecFacts Crypto FlatTree Storage Bitfield Oplog Merkle Core.
From HC Require Import FlatTreeFacts StorageFacts BitfieldFacts OplogFacts Sound NoPanic NoPanic2 TreeRef OffsetFacts CoreFacts Refine.
From HC Require Import Replicate Reopen EventsAvail SoundCoreLib SoundCore ReplicaCor ReplicaCorA ReplicaDisk3.
From HC Require Import AnyProof AnyProofCor.
From HC Require Import FrameGuardLib FrameGuard.
From Coq Require Import ZifyN ZifyNat ZifyBool.
Ltac Zify.zify_post_hook ::= Z.div_mod_to_equations.
Arguments N.add : simpl never.
Arguments N.sub : simpl never.
Arguments N.mul : simpl never.
Arguments N.div : simpl never.
Arguments N.modulo : simpl never.
Arguments N.pow : simpl never.
Arguments N.eqb : simpl never.
Arguments N.ltb : simpl never.
Arguments N.leb : simpl never.
Arguments N.of_nat : simpl never.
Arguments N.to_nat : simpl never.

Definition hdr_fixed (h : header) : N :=
  len (hd_key h) + len (hd_ns h) + len (hd_mpk h) + len (enc_keypair (hd_keypair h)).

Definition hdr_small (h : header) : Prop :=
  hdr_fixed h + 261 < FRAME_LIMIT /\
  len (ht_root_hash (hd_tree h)) <= 32 /\ len (ht_signature (hd_tree h)) <= 64.

Lemma hdr_small_room c : hdr_small (c_header c) -> header_room c.
Proof.
  intros (A & B & C). unfold header_room, HEADER_GROWTH. rewrite enc_header_len.
  destruct (enc_header_tree_len (hd_tree (c_header c))) as [_ T]. specialize (T B C).
  pose proof (size_uint_bounds (hd_contig (c_header c))). unfold hdr_fixed in A. lia.
Qed.

Lemma hdr_small_set_contig h cg : hdr_small h -> hdr_small (set_contig h cg).
Proof. intros H. exact H. Qed.

Lemma hdr_small_set_tree h f l hash sg :
  hdr_small h -> len hash <= 32 -> len sg <= 64 -> hdr_small (set_tree h (mkHeaderTree f l hash sg)).
Proof. intros (A & _ & _) B C. split; [exact A|]. split; assumption. Qed.

Lemma enc_keypair_public_only k : len (enc_keypair (mkKeypair (kp_public k) None)) <= len (enc_keypair k).
Proof.
  unfold enc_keypair. cbn [kp_public kp_secret]. rewrite !len_app. destruct (kp_secret k) as [sk|]; [|lia].
  assert (L1 : len [0] = 1) by reflexivity.
  assert (L2 : 1 <= len (enc_buffer (sk ++ kp_public k))).
  { unfold enc_buffer. rewrite len_app. pose proof (len_enc_uint_bounds (len (sk ++ kp_public k))). lia. }
  lia.
Qed.

Lemma hdr_small_erase h :
  hdr_small h -> hdr_small (set_keypair h (mkKeypair (kp_public (hd_keypair h)) None)).
Proof.
  intros (A & B & C). split; [|split; assumption]. unfold hdr_fixed in *.
  cbn [set_keypair hd_key hd_ns hd_mpk hd_keypair]. pose proof (enc_keypair_public_only (hd_keypair h)). lia.
Qed.

(* a header made by header_new from a 32-byte public key (secret key of 32 bytes or none) *)
Lemma hdr_small_new kp : keypair_ok kp = true -> hdr_small (header_new kp).
Proof.
  intros Hk. unfold keypair_ok in Hk. apply andb_prop in Hk as [Hk Hs]. apply andb_prop in Hk as [Hp _].
  apply Nat.eqb_eq in Hp.
  assert (Lp : len (kp_public kp) = 32) by (unfold len; rewrite Hp; reflexivity).
  unfold hdr_small, hdr_fixed, header_new. cbn [hd_key hd_ns hd_mpk hd_keypair hd_tree ht_root_hash ht_signature].
  split; [|split; rewrite len_nil; lia].
  assert (Ln : len DEFAULT_NAMESPACE = 32) by reflexivity. rewrite Ln, Lp.
  unfold enc_keypair, enc_buffer. rewrite !len_app, Lp.
  pose proof (len_enc_uint_bounds 32).
  destruct (kp_secret kp) as [sk|].
  - apply andb_prop in Hs as [Hs _]. apply Nat.eqb_eq in Hs.
    rewrite !len_app, Lp. assert (Lk : len sk = 32) by (unfold len; rewrite Hs; reflexivity). rewrite Lk.
    pose proof (len_enc_uint_bounds (32 + 32)). unfold FRAME_LIMIT. lia.
  - rewrite len_cons, len_nil. unfold FRAME_LIMIT. lia.
Qed.

Section HeaderSteps.
  Variable cr : crypto.

  (* the header after log_and_commit, whatever the outcome: untouched, or the header of the entry, possibly with a
     new hint *)
  Lemma log_and_commit_header cs bu c w c' w' r :
    log_and_commit cr cs bu c w = (c', w', r) ->
    c_header c' = c_header c \/
    exists e h1, entry_of_changeset cs bu (c_header c) = Ok (e, h1) /\
                 (c_header c' = h1 \/ exists cg, c_header c' = set_contig h1 cg).
  Proof.
    unfold log_and_commit. rewrite mbind_get_core, mbind_lift. intros H.
    destruct (entry_of_changeset cs bu (c_header c)) as [[e h1]|er|s|] eqn:EC;
      try (injection H as <- _ _; left; reflexivity).
    rewrite mbind_lift in H.
    destruct (oplog_append cr (c_oplog c) e) as [[o' ops]|er|s|] eqn:OA;
      try (injection H as <- _ _; left; reflexivity).
    rewrite mbind_put_oplog in H.
    apply mbind_emit_inv in H. destruct H as [(w2 & _ & H)|(-> & _ & _)]; [|left; reflexivity].
    rewrite mbind_put_header in H. cbn [c_keypair c_oplog c_tree c_bitfield c_header c_skip] in H.
    right. exists e, h1. split; [reflexivity|].
    apply mbind_inv in H. destruct H as (c3 & w3 & r3 & Hbu & H).
    assert (Hh3 : (c_header c3 = h1 \/ exists cg, c_header c3 = set_contig h1 cg) /\ exists u, r3 = Ok u).
    { destruct bu as [u|].
      - rewrite mbind_get_core, mbind_put_bitfield in Hbu. unfold put_header in Hbu.
        cbn [c_keypair c_oplog c_tree c_bitfield c_header c_skip] in Hbu. injection Hbu as <- _ <-.
        cbn [c_header]. split; [right; eexists; reflexivity|eexists; reflexivity].
      - unfold ret in Hbu. injection Hbu as <- _ <-. cbn [c_header]. split; [left; reflexivity|eexists; reflexivity]. }
    destruct Hh3 as (Hh3 & u3 & ->).
    rewrite mbind_get_core, mbind_lift in H.
    destruct (tree_commit (c_tree c3) cs) as [t'|er|s|]; try (injection H as <- _ _; exact Hh3).
  Qed.

  Lemma maybe_flush_keeps_header f : keeps c_header (maybe_flush cr f).
  Proof. pose proof (flush_all_keeps_header cr) as FK. unfold maybe_flush. keeps_tac. Qed.

  (* the header after core_apply_proof, whatever the outcome *)
  Theorem apply_header f pf c w c' w' r :
    core_apply_proof cr f pf c w = (c', w', r) ->
    c_header c' = c_header c \/
    exists cs e h1,
      verifier_says cr c w pf = Ok cs /\
      entry_of_changeset cs (proof_bu pf) (c_header c) = Ok (e, h1) /\
      (c_header c' = h1 \/ exists cg, c_header c' = set_contig h1 cg).
  Proof.
    unfold core_apply_proof. rewrite mbind_get_core. intros H.
    destruct (negb (p_fork pf =? t_fork (c_tree c))); [injection H as <- _ _; left; reflexivity|].
    rewrite mbind_get_disk, mbind_lift in H. unfold verifier_says.
    destruct (verify_proof cr (c_tree c) (d_tree (w_disk w)) pf (kp_public (c_keypair c))) as [cs|er|s|] eqn:V;
      try (injection H as <- _ _; left; reflexivity).
    destruct (negb (commitable (c_tree c) cs)); [injection H as <- _ _; left; reflexivity|].
    apply mbind_inv in H. destruct H as (c0 & w0 & r0 & Hbu & H).
    assert (Hb : c0 = c /\ (r0 = Ok (proof_bu pf) \/ forall x, r0 <> Ok x)).
    { unfold proof_bu. destruct (p_block pf) as [b|].
      - rewrite mbind_lift in Hbu.
        destruct (byte_offset_in_changeset (c_tree c) (d_tree (w_disk w)) (db_index b) cs) as [off|er|s|].
        + rewrite mbind_emit_SW in Hbu. unfold ret in Hbu. injection Hbu as <- _ <-. split; [reflexivity|left; reflexivity].
        + injection Hbu as <- _ <-. split; [reflexivity|right; discriminate].
        + injection Hbu as <- _ <-. split; [reflexivity|right; discriminate].
        + injection Hbu as <- _ <-. split; [reflexivity|right; discriminate].
      - unfold ret in Hbu. injection Hbu as <- _ <-. split; [reflexivity|left; reflexivity]. }
    destruct Hb as [-> [->|Hne]].
    2:{ left. destruct r0 as [x|er|s|]; [destruct (Hne x eq_refl)| | |]; destruct H as (-> & _); reflexivity. }
    apply mbind_inv in H. destruct H as (c2 & w2 & r2 & Hlc & H).
    assert (Hh2 : c_header c' = c_header c2).
    { destruct r2 as [[]|er|s|]; [|destruct H as (-> & _); reflexivity|destruct H as (-> & _); reflexivity|
                                   destruct H as (-> & _); reflexivity].
      assert (K : keeps c_header
                    (maybe_flush cr f ;;;
                     (match p_upgrade pf with Some _ => send EvUpgrade | None => ret tt end) ;;;
                     (match proof_bu pf with Some u => send (EvHave (bu_start u) (bu_length u) false) | None => ret tt end) ;;;
                     ret true)).
      { pose proof (maybe_flush_keeps_header f) as MK. keeps_tac. }
      exact (K _ _ _ _ _ H). }
    rewrite Hh2.
    destruct (log_and_commit_header cs (proof_bu pf) c w0 c2 w2 r2 Hlc) as [E|(e & h1 & He & Hh)].
    - left. exact E.
    - right. exists cs, e, h1. split; [reflexivity|]. split; [exact He|exact Hh].
  Qed.

  Lemma mbind_put_keypair_h {B} k (g : unit -> M B) c w :
    mbind (put_keypair k) g c w = g tt (mkCore k (c_oplog c) (c_tree c) (c_bitfield c) (c_header c) (c_skip c)) w.
  Proof. reflexivity. Qed.

  (* make_read_only, whatever the outcome: the secret is erased from core and header *)
  Lemma make_read_only_header c w c' w' r :
    core_make_read_only cr c w = (c', w', r) ->
    c_header c' = set_keypair (c_header c) (mkKeypair (kp_public (hd_keypair (c_header c))) None) /\
    c_keypair c' = mkKeypair (kp_public (c_keypair c)) None.
  Proof.
    unfold core_make_read_only. rewrite mbind_get_core. cbv zeta. rewrite mbind_put_keypair_h, mbind_put_header.
    intros H. apply mbind_inv in H. destruct H as (c1 & w1 & r1 & Hfl & H).
    pose proof (flush_all_keeps_header cr true _ _ _ _ _ Hfl) as K1.
    pose proof (flush_all_keeps_keypair cr true _ _ _ _ _ Hfl) as K2.
    cbn [c_header c_keypair] in K1, K2.
    destruct r1 as [[]|er|s|]; [unfold ret in H; injection H as <- _ _|destruct H as (-> & _)|destruct H as (-> & _)|
                                destruct H as (-> & _)]; split; assumption.
  Qed.
End HeaderSteps.

Section HeaderHistories.
  Variable cr : crypto.
  Hypothesis Hhash32 : forall x, length (cr_hash cr x) = 32%nat.

  Theorem apply_keeps_hdr_small f pf c w c' w' r :
    core_apply_proof cr f pf c w = (c', w', r) -> hdr_small (c_header c) -> hdr_small (c_header c').
  Proof.
    intros H S. destruct (apply_header cr f pf c w c' w' r H) as [->|(cs & e & h1 & V & He & Hh)]; [exact S|].
    unfold verifier_says in V. destruct (verified_sig_hash cr Hhash32 _ _ _ _ _ V) as [Hsg Hhs].
    assert (S1 : hdr_small h1).
    { destruct (entry_of_changeset_shape cs _ _ e h1 He) as (_ & _ & [(_ & _ & ->)|(hash & sg & U & Eh & Es & _ & ->)]);
        [exact S|]. apply hdr_small_set_tree; [exact S|apply (Hhs hash U Eh)|apply (Hsg sg U Es)]. }
    destruct Hh as [->|(cg & ->)]; [exact S1|apply hdr_small_set_contig, S1].
  Qed.

  (* one call of a replica history, whatever its outcome *)
  Lemma any_step_hdr_small o c w c' w' ok :
    hdr_small (c_header c) -> kp_secret (c_keypair c) = None ->
    run_op cr o c w = (c', w', ok) ->
    hdr_small (c_header c') /\ kp_secret (c_keypair c') = None.
  Proof.
    intros S Hsec H.
    destruct o as [f batch|f pf|i|b h s u|i|]; cbn [run_op] in H; apply forget_inv in H; destruct H as (r & H & _).
    - unfold core_append in H. rewrite mbind_get_core, Hsec in H. unfold lift in H.
      injection H as <- _ _. split; assumption.
    - split; [apply (apply_keeps_hdr_small f pf c w c' w' r H S)|].
      rewrite (apply_keeps_keypair cr f pf _ _ _ _ _ H). exact Hsec.
    - destruct (core_get_quiet i _ _ _ _ _ H) as (-> & _). split; assumption.
    - destruct (core_create_proof_quiet b h s u _ _ _ _ _ H) as (-> & _). split; assumption.
    - destruct (proj1 (core_missing_nodes_quiet i) _ _ _ _ _ H) as (-> & _). split; assumption.
    - destruct (make_read_only_header cr c w c' w' r H) as [-> ->]. split; [apply hdr_small_erase, S|reflexivity].
  Qed.

  Theorem any_history_hdr_small ops : forall c w c' w' oks,
    hdr_small (c_header c) -> kp_secret (c_keypair c) = None ->
    run_ops cr ops c w = (c', w', oks) ->
    hdr_small (c_header c') /\ kp_secret (c_keypair c') = None.
  Proof.
    induction ops as [|o rest IH]; intros c w c' w' oks S Hsec H; cbn [run_ops] in H.
    - injection H as <- _ _. split; assumption.
    - destruct (run_op cr o c w) as [[c1 w1] ok] eqn:S1.
      destruct (run_ops cr rest c1 w1) as [[c2 w2] oks2] eqn:S2.
      injection H as <- _ _.
      destruct (any_step_hdr_small o c w c1 w1 ok S Hsec S1) as [A B].
      apply (IH c1 w1 c2 w2 oks2 A B S2).
  Qed.

  Hypothesis Hnonblank : forall x, all_zero (cr_hash cr x) = false.
  Variable bs : list bytes.
  Hypothesis Hw : writer_fits bs.

  (* C09, verification side, for EVERY state a replica reaches by calls with any outcomes, WITHOUT the frame
     alternative; the header condition is asked of the initial state only (every replica opened from a public key
     satisfies it: hdr_small_new) *)
  Theorem any_history_apply_returns_no_panic_init ops c w c1 w1 oks f pf c' w' r :
    HInv cr bs c (w_disk w) -> kp_secret (c_keypair c) = None -> N.of_nat (length bs) < LIM ->
    hdr_small (c_header c) ->
    Forall (any_op cr) ops -> run_ops cr ops c w = (c1, w1, oks) ->
    proof_wire pf ->
    block_lim (p_block pf) = true -> hash_lim (p_hash pf) = true -> seek_lim (p_seek pf) = true ->
    upgrade_nodes_lim pf -> announced_sizes_fit_any c1 pf ->
    N.of_nat (proof_carried pf) <= MAX_PROOF_NODES ->
    core_apply_proof cr f pf c1 w1 = (c', w', r) ->
    returns r = true \/ some_collision cr \/ forged_signature cr bs (kp_public (c_keypair c)).
  Proof.
    intros W Hsec Hn S Hops Hrun Hwire Hb Hh Hs Hlim Hsum Hcar H.
    destruct (any_history_hdr_small ops c w c1 w1 oks S Hsec Hrun) as [S1 _].
    apply (any_history_apply_returns_no_panic cr Hhash32 Hnonblank bs Hw ops c w c1 w1 oks f pf c' w' r
             W Hsec Hn Hops Hrun Hwire Hb Hh Hs Hlim Hsum Hcar (hdr_small_room c1 S1) H).
  Qed.
End HeaderHistories.

Print Assumptions hdr_small_new.
Print Assumptions apply_header.
Print Assumptions apply_keeps_hdr_small.
Print Assumptions any_history_hdr_small.
Print Assumptions any_history_apply_returns_no_panic_init.

(* StorageFacts.v — the file-system layer: observational semantics of the sparse byte files
   (read / write / truncate / del), observational equality, commutation of operations on
   different stores, torn writes. *)
From HC Require Import Base NMap Storage.
From Coq Require Import ZifyN ZifyNat ZifyBool.
Ltac Zify.zify_post_hook ::= Z.div_mod_to_equations.
Arguments N.add : simpl never.
Arguments N.sub : simpl never.
Arguments N.mul : simpl never.
Arguments N.div : simpl never.
Arguments N.modulo : simpl never.
Arguments N.pow : simpl never.
Arguments N.eqb : simpl never.
Arguments N.ltb : simpl never.
Arguments N.leb : simpl never.
Arguments N.max : simpl never.
Arguments N.of_nat : simpl never.
Arguments N.to_nat : simpl never.

(* case split on the N comparisons that occur in the goal *)
Ltac bcase :=
  repeat match goal with
  | |- context [N.leb ?a ?b] => destruct (N.leb_spec a b)
  | |- context [N.ltb ?a ?b] => destruct (N.ltb_spec a b)
  | |- context [N.eqb ?a ?b] => destruct (N.eqb_spec a b)
  end; cbn [andb orb negb].

(* the observational view: what a reader can see *)
Definition f_at (f : file) (i : N) : option N := if i <? f_len f then Some (f_byte f i) else None.

(* ---------- ranges ---------- *)

Lemma nrange_length n : forall off, length (nrange off n) = n.
Proof. induction n as [|n IH]; intros off; cbn [nrange length]; [reflexivity | now rewrite IH]. Qed.

Lemma nrange_nth n : forall off k d, (k < n)%nat -> nth k (nrange off n) d = off + N.of_nat k.
Proof.
  induction n as [|n IH]; intros off k d Hk; [lia|].
  cbn [nrange]. destruct k as [|k]; cbn [nth]; [lia|].
  rewrite IH by lia. lia.
Qed.

Lemma nrange_app a : forall off b, nrange off (a + b) = nrange off a ++ nrange (off + N.of_nat a) b.
Proof.
  induction a as [|a IH]; intros off b.
  - cbn [nrange app Nat.add]. f_equal. lia.
  - cbn [nrange app Nat.add]. f_equal. rewrite IH. f_equal. f_equal. lia.
Qed.

Lemma map_nrange_nth {A} (g : N -> A) n off k d :
  (k < n)%nat -> nth k (map g (nrange off n)) d = g (off + N.of_nat k).
Proof.
  intros Hk. rewrite (nth_indep _ d (g 0)) by (rewrite map_length, nrange_length; exact Hk).
  rewrite map_nth, nrange_nth by exact Hk. reflexivity.
Qed.

Lemma map_nrange_ext {A} (g h : N -> A) n : forall off,
  (forall k, k < N.of_nat n -> g (off + k) = h (off + k)) ->
  map g (nrange off n) = map h (nrange off n).
Proof.
  induction n as [|n IH]; intros off H; cbn [nrange map]; [reflexivity|].
  f_equal.
  - specialize (H 0). rewrite N.add_0_r in H. apply H. lia.
  - apply IH. intros k Hk. replace (off + 1 + k) with (off + (1 + k)) by lia. apply H. lia.
Qed.

Lemma map_nrange_data (data : bytes) : forall off,
  map (fun i => nth (N.to_nat (i - off)) data 0) (nrange off (length data)) = data.
Proof.
  induction data as [|b r IH]; intros off; cbn [length nrange map]; [reflexivity|].
  f_equal.
  - replace (N.to_nat (off - off)) with 0%nat by lia. reflexivity.
  - rewrite <- (IH (off + 1)) at 2. apply map_nrange_ext. intros k Hk.
    replace (N.to_nat (off + 1 + k - off)) with (S (N.to_nat (off + 1 + k - (off + 1)))) by lia.
    reflexivity.
Qed.

(* ---------- the two map loops ---------- *)

Lemma m_clear_get n : forall m off i,
  nm_get i (m_clear m off n) =
  if (off <=? i) && (i <? off + N.of_nat n) then None else nm_get i m.
Proof.
  induction n as [|n IH]; intros m off i; cbn [m_clear].
  - bcase; try reflexivity; lia.
  - rewrite IH, nm_get_del. bcase; try reflexivity; lia.
Qed.

Lemma m_write_get data : forall m off i,
  nm_get i (m_write m off data) =
  if (off <=? i) && (i <? off + len data)
  then Some (nth (N.to_nat (i - off)) data 0) else nm_get i m.
Proof.
  induction data as [|b r IH]; intros m off i; cbn [m_write]; unfold len; cbn [length].
  - bcase; try reflexivity; lia.
  - rewrite IH, nm_get_set. unfold len. bcase; try reflexivity; try lia.
    + replace (N.to_nat (i - off)) with (S (N.to_nat (i - (off + 1)))) by lia. reflexivity.
    + replace (N.to_nat (i - off)) with 0%nat by lia. reflexivity.
Qed.

(* ---------- grow ---------- *)

Lemma f_grow_len f n : f_len (f_grow f n) = N.max (f_len f) n.
Proof. unfold f_grow. bcase; cbn [f_len]; lia. Qed.

Lemma f_grow_byte f n i :
  f_byte (f_grow f n) i = if (f_len f <=? i) && (i <? n) then 0 else f_byte f i.
Proof.
  unfold f_grow. destruct (N.ltb_spec (f_len f) n) as [H|H].
  - unfold f_byte. cbn [f_map]. rewrite m_clear_get. bcase; try reflexivity; lia.
  - bcase; try reflexivity; lia.
Qed.

(* ---------- 1. read ---------- *)

Lemma f_read_some f off n :
  off + n <= f_len f -> f_read f off n = Some (map (f_byte f) (nrange off (N.to_nat n))).
Proof. intros H. unfold f_read. bcase; [reflexivity | lia]. Qed.

Lemma f_read_none f off n : f_len f < off + n -> f_read f off n = None.
Proof. intros H. unfold f_read. bcase; [lia | reflexivity]. Qed.

Lemma f_read_spec f off n bs :
  f_read f off n = Some bs <->
  off + n <= f_len f /\ length bs = N.to_nat n /\
  forall k, k < n -> nth (N.to_nat k) bs 0 = f_byte f (off + k).
Proof.
  split.
  - unfold f_read. destruct (N.leb_spec (off + n) (f_len f)) as [H|H]; [|discriminate].
    intros E. injection E as <-. split; [exact H|]. split.
    + now rewrite map_length, nrange_length.
    + intros k Hk. rewrite map_nrange_nth by lia. f_equal. lia.
  - intros (H & Hl & Hb). rewrite f_read_some by exact H. f_equal.
    apply (nth_ext _ _ 0 0).
    + now rewrite map_length, nrange_length.
    + intros k Hk. rewrite map_length, nrange_length in Hk.
      rewrite map_nrange_nth by exact Hk.
      specialize (Hb (N.of_nat k)). rewrite Nat2N.id in Hb. symmetry. apply Hb. lia.
Qed.

Lemma f_read_exists f off n : off + n <= f_len f -> exists bs, f_read f off n = Some bs.
Proof. intros H. eexists. now apply f_read_some. Qed.

Lemma f_read_length f off n bs : f_read f off n = Some bs -> len bs = n.
Proof. intros H. apply f_read_spec in H. unfold len. lia. Qed.

(* ---------- 2. write ---------- *)

Lemma f_write_len f off data : f_len (f_write f off data) = N.max (f_len f) (off + len data).
Proof. unfold f_write. cbn [f_len]. apply f_grow_len. Qed.

(* every key, also the (unobservable) ones beyond the new length *)
Lemma f_write_byte f off data i :
  f_byte (f_write f off data) i =
  if (off <=? i) && (i <? off + len data) then nth (N.to_nat (i - off)) data 0
  else if (f_len f <=? i) && (i <? off + len data) then 0
  else f_byte f i.
Proof.
  unfold f_write, f_byte at 1. cbn [f_map]. rewrite m_write_get.
  destruct ((off <=? i) && (i <? off + len data)); [reflexivity|].
  apply f_grow_byte.
Qed.

Lemma f_write_at_written f off data i :
  off <= i -> i < off + len data ->
  f_byte (f_write f off data) i = nth (N.to_nat (i - off)) data 0.
Proof. intros H1 H2. rewrite f_write_byte. bcase; try reflexivity; lia. Qed.

Lemma f_write_at_old f off data i :
  i < f_len f -> (i < off \/ off + len data <= i) ->
  f_byte (f_write f off data) i = f_byte f i.
Proof. intros H1 H2. rewrite f_write_byte. bcase; try reflexivity; lia. Qed.

Lemma f_write_at_gap f off data i :
  f_len f <= i -> i < off -> f_byte (f_write f off data) i = 0.
Proof.
  intros H1 H2. rewrite f_write_byte. bcase; try reflexivity; try lia.
  (* data = [] and the gap still has to be cleared: off + 0 <= i is impossible since i < off *)
Qed.

(* the three cases in one statement, for observable positions *)
Lemma f_write_at f off data i :
  i < f_len (f_write f off data) ->
  f_byte (f_write f off data) i =
  if (off <=? i) && (i <? off + len data) then nth (N.to_nat (i - off)) data 0
  else if i <? f_len f then f_byte f i
  else 0.
Proof.
  rewrite f_write_len. intros H. rewrite f_write_byte. bcase; try reflexivity; lia.
Qed.

Lemma f_read_write_same f off data : f_read (f_write f off data) off (len data) = Some data.
Proof.
  rewrite f_read_some by (rewrite f_write_len; lia). f_equal.
  unfold len at 1. rewrite Nat2N.id.
  transitivity (map (fun i => nth (N.to_nat (i - off)) data 0) (nrange off (length data)));
    [|apply map_nrange_data].
  apply map_nrange_ext. intros k Hk. rewrite f_write_byte. unfold len. bcase; try reflexivity; lia.
Qed.

Lemma f_read_write_other f off data off' n :
  off' + n <= f_len f -> (off' + n <= off \/ off + len data <= off') ->
  f_read (f_write f off data) off' n = f_read f off' n.
Proof.
  intros H1 H2. rewrite !f_read_some by (try rewrite f_write_len; lia). f_equal.
  apply map_nrange_ext. intros k Hk. apply f_write_at_old; lia.
Qed.

(* ---------- 5. append ---------- *)

Lemma f_content_write_append f data :
  f_content (f_write f (f_len f) data) = f_content f ++ data.
Proof.
  unfold f_content. rewrite f_write_len.
  replace (N.to_nat (N.max (f_len f) (f_len f + len data)))
    with (N.to_nat (f_len f) + length data)%nat by (unfold len; lia).
  rewrite nrange_app, map_app. f_equal.
  - apply map_nrange_ext. intros k Hk. rewrite N.add_0_l. apply f_write_at_old; lia.
  - transitivity (map (fun i => nth (N.to_nat (i - (0 + N.of_nat (N.to_nat (f_len f))))) data 0)
                    (nrange (0 + N.of_nat (N.to_nat (f_len f))) (length data)));
      [|apply map_nrange_data].
    apply map_nrange_ext. intros k Hk. rewrite f_write_byte. unfold len.
    bcase; try lia. f_equal. lia.
Qed.

(* ---------- 3. truncate ---------- *)

Lemma f_truncate_len f n : f_len (f_truncate f n) = n.
Proof. unfold f_truncate. bcase; [reflexivity|]. rewrite f_grow_len. lia. Qed.

(* every key *)
Lemma f_truncate_byte f n i :
  f_byte (f_truncate f n) i = if (f_len f <=? i) && (i <? n) then 0 else f_byte f i.
Proof.
  unfold f_truncate. destruct (N.ltb_spec n (f_len f)) as [H|H].
  - unfold f_byte. cbn [f_map]. bcase; try reflexivity; lia.
  - apply f_grow_byte.
Qed.

Lemma f_truncate_at f n i :
  i < n -> f_byte (f_truncate f n) i = if i <? f_len f then f_byte f i else 0.
Proof. intros H. rewrite f_truncate_byte. bcase; try reflexivity; lia. Qed.

Lemma f_truncate_at_shrink f n i :
  n <= f_len f -> i < n -> f_byte (f_truncate f n) i = f_byte f i.
Proof. intros H1 H2. rewrite f_truncate_at by exact H2. bcase; try reflexivity; lia. Qed.

Lemma f_truncate_at_grow_old f n i :
  i < f_len f -> f_byte (f_truncate f n) i = f_byte f i.
Proof. intros H. rewrite f_truncate_byte. bcase; try reflexivity; lia. Qed.

Lemma f_truncate_at_grow_new f n i :
  f_len f <= i -> i < n -> f_byte (f_truncate f n) i = 0.
Proof. intros H1 H2. rewrite f_truncate_byte. bcase; try reflexivity; lia. Qed.

(* shrink-then-grow exposes zeros, not the old content (no condition on n is needed) *)
Lemma f_truncate_truncate_zero f n m i :
  n <= i -> i < m -> f_byte (f_truncate (f_truncate f n) m) i = 0.
Proof. intros H1 H2. apply f_truncate_at_grow_new; [rewrite f_truncate_len|]; assumption. Qed.

(* the requested form *)
Lemma f_truncate_shrink_grow_zero f n m i :
  n <= f_len f -> n <= i -> i < m -> f_byte (f_truncate (f_truncate f n) m) i = 0.
Proof. intros _. apply f_truncate_truncate_zero. Qed.

(* ---------- observational equality ---------- *)

Definition feq (f g : file) : Prop :=
  f_len f = f_len g /\ forall i, i < f_len f -> f_byte f i = f_byte g i.

Lemma feq_refl f : feq f f.
Proof. split; [reflexivity | intros; reflexivity]. Qed.

Lemma feq_sym f g : feq f g -> feq g f.
Proof. intros [Hl Hb]. split; [now symmetry|]. intros i Hi. symmetry. apply Hb. now rewrite Hl. Qed.

Lemma feq_trans f g h : feq f g -> feq g h -> feq f h.
Proof.
  intros [Hl1 Hb1] [Hl2 Hb2]. split; [congruence|]. intros i Hi.
  rewrite Hb1 by exact Hi. apply Hb2. now rewrite <- Hl1.
Qed.

Lemma feq_f_at f g : feq f g <-> forall i, f_at f i = f_at g i.
Proof.
  unfold f_at. split.
  - intros [Hl Hb] i. rewrite <- Hl. destruct (N.ltb_spec i (f_len f)) as [H|H]; [|reflexivity].
    now rewrite Hb.
  - intros H. assert (Hl : f_len f = f_len g).
    { destruct (N.lt_trichotomy (f_len f) (f_len g)) as [L|[L|L]]; [|exact L|].
      - specialize (H (f_len f)). revert H. bcase; try discriminate; lia.
      - specialize (H (f_len g)). revert H. bcase; try discriminate; lia. }
    split; [exact Hl|]. intros i Hi. specialize (H i). rewrite <- Hl in H. revert H.
    bcase; [|lia]. intros E. now injection E.
Qed.

Lemma feq_read f g off n : feq f g -> f_read f off n = f_read g off n.
Proof.
  intros [Hl Hb]. unfold f_read. rewrite <- Hl.
  destruct (N.leb_spec (off + n) (f_len f)) as [H|H]; [|reflexivity].
  f_equal. apply map_nrange_ext. intros k Hk. apply Hb. lia.
Qed.

Lemma feq_content f g : feq f g -> f_content f = f_content g.
Proof.
  intros [Hl Hb]. unfold f_content. rewrite <- Hl.
  apply map_nrange_ext. intros k Hk. apply Hb. lia.
Qed.

Lemma feq_content_iff f g : feq f g <-> f_content f = f_content g.
Proof.
  split; [apply feq_content|]. unfold f_content. intros E.
  assert (Hl : f_len f = f_len g).
  { apply (f_equal (@length N)) in E. rewrite !map_length, !nrange_length in E. lia. }
  split; [exact Hl|]. intros i Hi.
  apply (f_equal (fun l => nth (N.to_nat i) l 0)) in E.
  rewrite !map_nrange_nth in E by lia.
  replace (0 + N.of_nat (N.to_nat i)) with i in E by lia. exact E.
Qed.

Lemma feq_write f g off data : feq f g -> feq (f_write f off data) (f_write g off data).
Proof.
  intros [Hl Hb]. split.
  - rewrite !f_write_len. now rewrite Hl.
  - intros i Hi. rewrite f_write_len in Hi. rewrite !f_write_byte. rewrite <- Hl.
    bcase; try reflexivity; apply Hb; lia.
Qed.

Lemma feq_truncate f g n : feq f g -> feq (f_truncate f n) (f_truncate g n).
Proof.
  intros [Hl Hb]. split.
  - now rewrite !f_truncate_len.
  - intros i Hi. rewrite f_truncate_len in Hi. rewrite !f_truncate_byte. rewrite <- Hl.
    bcase; try reflexivity; apply Hb; lia.
Qed.

(* ---------- 4. del ---------- *)

Lemma f_del_none f off n : f_del f off n = None <-> f_len f < off.
Proof.
  unfold f_del. destruct (N.ltb_spec (f_len f) off) as [H|H].
  - split; [intros _; exact H | reflexivity].
  - split; [|lia]. destruct (n =? 0); [discriminate|]. destruct (f_len f <=? off + n); discriminate.
Qed.

Lemma f_del_some f off n : off <= f_len f -> exists f', f_del f off n = Some f'.
Proof.
  intros H. destruct (f_del f off n) as [f'|] eqn:E; [now exists f'|].
  apply f_del_none in E. lia.
Qed.

Lemma f_del_cases f off n f' :
  f_del f off n = Some f' ->
  off <= f_len f /\
  (n = 0 -> f' = f) /\
  (n <> 0 -> f_len f <= off + n -> f' = f_truncate f off) /\
  (n <> 0 -> off + n < f_len f ->
     f_len f' = f_len f /\
     forall i, f_byte f' i = if (off <=? i) && (i <? off + n) then 0 else f_byte f i).
Proof.
  unfold f_del. destruct (N.ltb_spec (f_len f) off) as [H|H]; [discriminate|].
  destruct (N.eqb_spec n 0) as [Hn|Hn].
  - intros E. injection E as <-. split; [exact H|]. repeat split; try reflexivity; intros; lia.
  - destruct (N.leb_spec (f_len f) (off + n)) as [H2|H2]; intros E; injection E as <-.
    + split; [exact H|]. repeat split; try reflexivity; intros; lia.
    + split; [exact H|]. split; [intros; lia|]. split; [intros; lia|]. intros _ _.
      split; [reflexivity|]. intros i. unfold f_byte. cbn [f_map]. rewrite m_clear_get.
      bcase; try reflexivity; lia.
Qed.

(* the requested specification, as one statement *)
Lemma f_del_spec f off n :
  (f_del f off n = None <-> f_len f < off) /\
  forall f', f_del f off n = Some f' ->
    (n = 0 -> feq f' f) /\
    (n <> 0 -> f_len f <= off + n -> feq f' (f_truncate f off)) /\
    (n <> 0 -> off + n < f_len f ->
       f_len f' = f_len f /\
       (forall i, off <= i -> i < off + n -> f_byte f' i = 0) /\
       (forall i, i < off \/ off + n <= i -> f_byte f' i = f_byte f i)).
Proof.
  split; [apply f_del_none|]. intros f' E. apply f_del_cases in E.
  destruct E as (H & H0 & H1 & H2). split; [|split].
  - intros Hn. rewrite (H0 Hn). apply feq_refl.
  - intros Hn Hl. rewrite (H1 Hn Hl). apply feq_refl.
  - intros Hn Hl. destruct (H2 Hn Hl) as [Hlen Hb]. split; [exact Hlen|]. split.
    + intros i A B. rewrite Hb. bcase; try reflexivity; lia.
    + intros i A. rewrite Hb. bcase; try reflexivity; lia.
Qed.

Lemma feq_del f g off n :
  feq f g ->
  match f_del f off n, f_del g off n with
  | Some f', Some g' => feq f' g'
  | None, None => True
  | _, _ => False
  end.
Proof.
  intros Hfg. assert (Hfg' := Hfg). destruct Hfg' as [Hl Hb].
  unfold f_del. rewrite <- Hl.
  destruct (f_len f <? off); [exact I|].
  destruct (n =? 0); [exact Hfg|].
  destruct (N.leb_spec (f_len f) (off + n)) as [H|H].
  - now apply feq_truncate.
  - split; [reflexivity|]. cbn [f_len]. intros i Hi.
    unfold f_byte. cbn [f_map]. rewrite !m_clear_get.
    destruct ((off <=? i) && (i <? off + N.of_nat (N.to_nat n))); [reflexivity|].
    apply Hb. exact Hi.
Qed.

Lemma feq_del_some f g off n f' :
  feq f g -> f_del f off n = Some f' -> exists g', f_del g off n = Some g' /\ feq f' g'.
Proof.
  intros Hfg E. pose proof (feq_del f g off n Hfg) as H. rewrite E in H.
  destruct (f_del g off n) as [g'|]; [|contradiction]. now exists g'.
Qed.

Lemma feq_del_none f g off n : feq f g -> f_del f off n = None -> f_del g off n = None.
Proof.
  intros Hfg E. pose proof (feq_del f g off n Hfg) as H. rewrite E in H.
  destruct (f_del g off n); [contradiction | reflexivity].
Qed.

(* ---------- disks ---------- *)

Definition deq (d e : disk) : Prop := forall s, feq (d_get d s) (d_get e s).

Lemma deq_refl d : deq d d.
Proof. intros s. apply feq_refl. Qed.
Lemma deq_sym d e : deq d e -> deq e d.
Proof. intros H s. apply feq_sym, H. Qed.
Lemma deq_trans d e g : deq d e -> deq e g -> deq d g.
Proof. intros H1 H2 s. eapply feq_trans; [apply H1 | apply H2]. Qed.

Lemma d_get_set_same d s f : d_get (d_set d s f) s = f.
Proof. destruct s; reflexivity. Qed.

Lemma d_get_set_other d s s' f : s <> s' -> d_get (d_set d s f) s' = d_get d s'.
Proof. destruct s, s'; intros H; try reflexivity; congruence. Qed.

Lemma d_set_set_comm d s s' f g :
  s <> s' -> d_set (d_set d s f) s' g = d_set (d_set d s' g) s f.
Proof. destruct s, s'; intros H; try reflexivity; congruence. Qed.

Lemma deq_set d e s f g : deq d e -> feq f g -> deq (d_set d s f) (d_set e s g).
Proof.
  intros Hd Hf s'. destruct s, s'; cbn [d_get d_set d_tree d_data d_bitfield d_oplog];
    first [exact Hf | apply (Hd Tree) | apply (Hd Data) | apply (Hd Bitfield) | apply (Hd Oplog)].
Qed.

Definition sop_store (o : sop) : store :=
  match o with SW s _ _ => s | SD s _ _ => s | ST s _ => s end.

Lemma apply_sop_other d o d' s :
  apply_sop d o = Some d' -> s <> sop_store o -> d_get d' s = d_get d s.
Proof.
  destruct o as [s0 off data | s0 off n | s0 n]; cbn [apply_sop sop_store].
  - intros E Hs. injection E as <-. apply d_get_set_other. congruence.
  - destruct (f_del (d_get d s0) off n); [|discriminate].
    intros E Hs. injection E as <-. apply d_get_set_other. congruence.
  - intros E Hs. injection E as <-. apply d_get_set_other. congruence.
Qed.

(* an operation is a function of the one file it touches *)
Definition f_apply (f : file) (o : sop) : option file :=
  match o with
  | SW _ off data => Some (f_write f off data)
  | SD _ off n => f_del f off n
  | ST _ n => Some (f_truncate f n)
  end.

Lemma apply_sop_f_apply d o :
  apply_sop d o =
  match f_apply (d_get d (sop_store o)) o with
  | Some f => Some (d_set d (sop_store o) f)
  | None => None
  end.
Proof. destruct o; reflexivity. Qed.

(* ---------- 7. operations on different stores commute ---------- *)

Lemma apply_sop_comm d o1 o2 :
  sop_store o1 <> sop_store o2 ->
  option_bind (apply_sop d o1) (fun d' => apply_sop d' o2) =
  option_bind (apply_sop d o2) (fun d' => apply_sop d' o1).
Proof.
  intros Hne. rewrite (apply_sop_f_apply d o1), (apply_sop_f_apply d o2).
  destruct (f_apply (d_get d (sop_store o1)) o1) as [f1|] eqn:E1;
  destruct (f_apply (d_get d (sop_store o2)) o2) as [f2|] eqn:E2; cbn [option_bind].
  - rewrite !apply_sop_f_apply.
    rewrite !d_get_set_other by congruence. rewrite E1, E2.
    f_equal. apply d_set_set_comm. exact Hne.
  - rewrite apply_sop_f_apply. rewrite d_get_set_other by congruence. now rewrite E2.
  - rewrite apply_sop_f_apply. rewrite d_get_set_other by congruence. now rewrite E1.
  - reflexivity.
Qed.

Lemma apply_sop_swap d o1 o2 d1 d2 :
  sop_store o1 <> sop_store o2 ->
  apply_sop d o1 = Some d1 -> apply_sop d1 o2 = Some d2 ->
  exists d1', apply_sop d o2 = Some d1' /\ apply_sop d1' o1 = Some d2 /\
              d_get d1' (sop_store o1) = d_get d (sop_store o1) /\
              d_get d1 (sop_store o2) = d_get d (sop_store o2).
Proof.
  intros Hne E1 E2. pose proof (apply_sop_comm d o1 o2 Hne) as C.
  rewrite E1 in C. cbn [option_bind] in C. rewrite E2 in C.
  destruct (apply_sop d o2) as [d1'|] eqn:E3; cbn [option_bind] in C; [|discriminate].
  exists d1'. split; [reflexivity|]. split; [now symmetry|]. split.
  - eapply apply_sop_other; [exact E3 | exact Hne].
  - eapply apply_sop_other; [exact E1 | congruence].
Qed.

(* operations respect observational equality of disks *)
Lemma apply_sop_deq d e o :
  deq d e ->
  match apply_sop d o, apply_sop e o with
  | Some d', Some e' => deq d' e'
  | None, None => True
  | _, _ => False
  end.
Proof.
  intros H. destruct o as [s off data | s off n | s n]; cbn [apply_sop].
  - apply deq_set; [exact H | apply feq_write, H].
  - pose proof (feq_del _ _ off n (H s)) as D.
    destruct (f_del (d_get d s) off n), (f_del (d_get e s) off n); try exact D.
    apply deq_set; assumption.
  - apply deq_set; [exact H | apply feq_truncate, H].
Qed.

(* ---------- 8. torn writes ---------- *)

Lemma nth_firstn_lt {A} (l : list A) : forall t k d, (k < t)%nat -> nth k (firstn t l) d = nth k l d.
Proof.
  induction l as [|a l IH]; intros t k d H.
  - now rewrite firstn_nil.
  - destruct t as [|t]; [lia|]. cbn [firstn]. destruct k as [|k]; cbn [nth]; [reflexivity|].
    apply IH. lia.
Qed.

Lemma nth_skipn_add {A} (l : list A) : forall t k d, nth k (skipn t l) d = nth (t + k) l d.
Proof.
  induction l as [|a l IH]; intros t k d.
  - rewrite skipn_nil. destruct k, t; reflexivity.
  - destruct t as [|t]; [reflexivity|]. cbn [skipn Nat.add nth]. apply IH.
Qed.

(* Holds in general (no coverage condition): the torn prefix grows the file up to off + t and
   clears the gap, the remainder then grows it to off + len data.  t <= length data is needed:
   run 4 [7;8;6] 5 on a 2-byte file gives length 9 instead of 7 (the empty tail write at
   off + t still grows the file). *)
Lemma f_write_split f off data t :
  (t <= length data)%nat ->
  let g := f_write (f_write f off (firstn t data)) (off + N.of_nat t) (skipn t data) in
  f_len g = f_len (f_write f off data) /\
  forall i, f_byte g i = f_byte (f_write f off data) i.
Proof.
  intros Ht g. subst g.
  assert (L1 : len (firstn t data) = N.of_nat t) by (unfold len; rewrite firstn_length; lia).
  assert (L2 : len (skipn t data) = len data - N.of_nat t) by (unfold len; rewrite skipn_length; lia).
  assert (L3 : N.of_nat t <= len data) by (unfold len; lia).
  split.
  - rewrite !f_write_len, L1, L2. lia.
  - intros i. rewrite !f_write_byte, f_write_len, L1, L2.
    destruct (N.ltb_spec i off) as [A|A].
    + bcase; try reflexivity; lia.
    + destruct (N.ltb_spec i (off + N.of_nat t)) as [B|B].
      * bcase; try lia; apply nth_firstn_lt; lia.
      * destruct (N.ltb_spec i (off + len data)) as [C|C].
        -- bcase; try lia; rewrite nth_skipn_add; f_equal; lia.
        -- bcase; try reflexivity; lia.
Qed.

Lemma feq_write_split f off data t :
  (t <= length data)%nat ->
  feq (f_write (f_write f off (firstn t data)) (off + N.of_nat t) (skipn t data))
      (f_write f off data).
Proof. intros Ht. destruct (f_write_split f off data t Ht) as [Hl Hb]. split; [exact Hl|]. intros i _. apply Hb. Qed.

Lemma tear_prefix d s off data t :
  (t <= length data)%nat ->
  exists d1 d2 d3,
    apply_sop d (tear (SW s off data) t) = Some d1 /\
    apply_sop d1 (SW s (off + N.of_nat t) (skipn t data)) = Some d2 /\
    apply_sop d (SW s off data) = Some d3 /\
    deq d2 d3.
Proof.
  intros Ht. cbn [tear apply_sop]. eexists _, _, _. split; [reflexivity|]. split; [reflexivity|].
  split; [reflexivity|]. rewrite d_get_set_same. intros s'.
  destruct s, s'; cbn [d_get d_set d_tree d_data d_bitfield d_oplog];
    first [apply feq_refl | now apply feq_write_split].
Qed.

Print Assumptions f_read_spec.
Print Assumptions f_read_exists.
Print Assumptions f_write_len.
Print Assumptions f_write_byte.
Print Assumptions f_write_at.
Print Assumptions f_write_at_written.
Print Assumptions f_write_at_old.
Print Assumptions f_write_at_gap.
Print Assumptions f_read_write_same.
Print Assumptions f_read_write_other.
Print Assumptions f_content_write_append.
Print Assumptions f_truncate_len.
Print Assumptions f_truncate_byte.
Print Assumptions f_truncate_at.
Print Assumptions f_truncate_truncate_zero.
Print Assumptions f_truncate_shrink_grow_zero.
Print Assumptions f_del_cases.
Print Assumptions f_del_spec.
Print Assumptions feq_refl.
Print Assumptions feq_sym.
Print Assumptions feq_trans.
Print Assumptions feq_f_at.
Print Assumptions feq_read.
Print Assumptions feq_content_iff.
Print Assumptions feq_write.
Print Assumptions feq_truncate.
Print Assumptions feq_del.
Print Assumptions feq_del_some.
Print Assumptions apply_sop_other.
Print Assumptions apply_sop_comm.
Print Assumptions apply_sop_swap.
Print Assumptions apply_sop_deq.
Print Assumptions f_write_split.
Print Assumptions tear_prefix.

(* AcceptAllEx.v -- C03 at the core level: non-vacuity of AcceptAllCore3.replication_round and
   AcceptAllHist.replicas_converge on the toy instance of SoundCore.v (sc_cr, sc_blocks: a writer with six
   blocks, a replica created from the public key alone).
   History: first contact "block 4 + upgrade 0..6" (no flush), reopen, "block 1" with the replica's own count
   (native flush decision).  The states are computed once (Eval vm_compute) and named. *)
From HC Require Import Base NMap Codec CodecFacts Crypto FlatTree Storage Bitfield Oplog Merkle Core.
From HC Require Import FlatTreeFacts Sound NoPanic TreeRef OffsetFacts CoreFacts Refine Replicate Replicate2 Replicate2Z Replicate2D Replicate2E.
From HC Require Import Unified1 SoundCoreLib SoundCore SoundCoreUp SoundCoreBU ReplicaDisk1 ReplicaDisk2 ReplicaDisk3 ReplicaDisk4 ReplicaDisk6.
From HC Require Import AcceptAll1 AcceptAll2 AcceptAll3 AcceptAll AcceptAllCore1 AcceptAllClo AcceptAllClo2 AcceptAllFlush AcceptAllCore2 AcceptAllCore3 AcceptAllHist.
From Coq Require Import FMapPositive ZifyN ZifyNat ZifyBool.
Ltac Zify.zify_post_hook ::= Z.div_mod_to_equations.
Arguments N.add : simpl never.
Arguments N.sub : simpl never.
Arguments N.mul : simpl never.
Arguments N.div : simpl never.
Arguments N.modulo : simpl never.
Arguments N.pow : simpl never.
Arguments N.eqb : simpl never.
Arguments N.ltb : simpl never.
Arguments N.leb : simpl never.
Arguments N.of_nat : simpl never.
Arguments N.to_nat : simpl never.
Arguments N.log2 : simpl never.

Definition dummy_core : core :=
  mkCore (mkKeypair [] None) (mkOplog (false, false) 0 0) empty_tree bf_empty
         (mkHeader [] [] [] (mkKeypair [] None) (mkHeaderTree 0 0 [] []) 0) 0.
Definition dummy_world : world := mkWorld disk_empty [] [].

(* the writer after its append, the fresh replica: computed *)
Definition scW_c : core := Eval vm_compute in match sc_W with Some (c, _) => c | None => dummy_core end.
Definition scW_w : world := Eval vm_compute in match sc_W with Some (_, w) => w | None => dummy_world end.
Definition scR_c : core := Eval vm_compute in match sc_R0 with Some (c, _) => c | None => dummy_core end.
Definition scR_w : world := Eval vm_compute in match sc_R0 with Some (_, w) => w | None => dummy_world end.

Lemma sc_W_eq : sc_W = Some (scW_c, scW_w).
Proof. vm_compute. reflexivity. Qed.
Lemma sc_R0_eq : sc_R0 = Some (scR_c, scR_w).
Proof. vm_compute. reflexivity. Qed.

(* the writer state of the instance is the result of Hypercore::new followed by one append that did not hit
   the frame limit *)
Lemma sc_append_res :
  match core_open sc_cr (Some (mkKeypair sc_key (Some sc_key))) false disk_empty with
  | (d0, _, Ok c0) =>
      match core_append sc_cr (Some true) sc_blocks c0 (mkWorld d0 [] []) with
      | (c', w', Ok _) => (c', w') = (scW_c, scW_w)
      | _ => False
      end
  | _ => False
  end.
Proof. vm_compute. reflexivity. Qed.

(* the writer of the instance satisfies the append-only writer invariant (Refine.WInv_init, append_preserves) *)
Lemma sc_W_WInv : WInv sc_cr scW_c (w_disk scW_w) sc_blocks.
Proof.
  pose proof sc_append_res as R.
  destruct (WInv_init sc_cr (mkKeypair sc_key (Some sc_key)) ltac:(vm_compute; reflexivity)) as (d0 & ops & c0 & Hopen & W0 & K0).
  rewrite Hopen in R.
  destruct (core_append sc_cr (Some true) sc_blocks c0 (mkWorld d0 [] [])) as [[c' w'] r] eqn:E.
  destruct (append_preserves sc_cr sc_hash32 sc_nonblank (Some true) sc_blocks c0 d0 [] [] [] sc_key c' w' r W0
              ltac:(rewrite K0; reflexivity) ltac:(vm_compute; discriminate) ltac:(vm_compute; discriminate) E)
    as [Hp|(Hr & W1 & _)].
  - rewrite Hp in R. contradiction R.
  - rewrite Hr in R. injection R as <- <-. exact W1.
Qed.

Definition sc_rq1 : request := mkRequest (Some (mkReqBlock 4 0)) None None (Some (mkReqUpgrade 0 6)).
Definition sc_rq2 : request := mkRequest (Some (mkReqBlock 1 2)) None None None.

Definition sc_sg : bytes :=
  Eval vm_compute in match t_signature (c_tree scW_c) with Some s => s | None => [] end.

Definition sc_e1 : revent := EServe (Some false) sc_rq1 scW_c (w_disk scW_w) (w_journal scW_w) (w_events scW_w) sc_blocks sc_sg.
Definition sc_e3 : revent := EServe None sc_rq2 scW_c (w_disk scW_w) (w_journal scW_w) (w_events scW_w) sc_blocks sc_sg.
Definition sc_es : list revent := [sc_e1; EReopen; sc_e3].

Lemma sc_writer_at : writer_at sc_cr sc_blocks scW_c (w_disk scW_w) sc_blocks sc_key sc_sg.
Proof.
  split; [exists []; symmetry; apply app_nil_r|]. split; [exact sc_W_WInv|].
  repeat split; vm_compute; reflexivity.
Qed.

(* the fresh replica: invariant and (trivially) closed stored nodes *)
Lemma sc_R0_RCInv : RCInv sc_cr sc_blocks scR_c (w_disk scR_w) (fun _ => false).
Proof.
  pose proof sc_fresh_RDInv as F. rewrite sc_R0_eq in F. destruct F as (X & _ & _).
  split; [exact X|].
  change (c_tree scR_c) with (mkTree [] 0 0 0 None nm_empty). change (d_tree (w_disk scR_w)) with file_empty.
  apply ClosedR_empty. intros j (n & Hn).
  unfold required_node, node_get in Hn. cbn [t_unflushed] in Hn. rewrite nm_get_empty in Hn.
  destruct (mul64 "40 * index" NODE_SIZE j) as [off| | |]; cbn [bind] in Hn; try discriminate Hn.
  unfold f_read, file_empty in Hn. cbn [f_len] in Hn.
  destruct (N.leb_spec (off + NODE_SIZE) 0) as [L|_]; [unfold NODE_SIZE in L; lia|]. cbn [bind] in Hn. discriminate Hn.
Qed.

(* the states of the history, computed *)
Definition sc_s1 : option (core * world) := Eval vm_compute in exec sc_cr scR_c scR_w sc_e1.
Definition sc1_c : core := Eval vm_compute in match sc_s1 with Some (c, _) => c | None => dummy_core end.
Definition sc1_w : world := Eval vm_compute in match sc_s1 with Some (_, w) => w | None => dummy_world end.
Lemma sc_exec1 : exec sc_cr scR_c scR_w sc_e1 = Some (sc1_c, sc1_w).
Proof. vm_compute. reflexivity. Qed.

Definition sc_s2 : option (core * world) := Eval vm_compute in exec sc_cr sc1_c sc1_w EReopen.
Definition sc2_c : core := Eval vm_compute in match sc_s2 with Some (c, _) => c | None => dummy_core end.
Definition sc2_w : world := Eval vm_compute in match sc_s2 with Some (_, w) => w | None => dummy_world end.
Lemma sc_exec2 : exec sc_cr sc1_c sc1_w EReopen = Some (sc2_c, sc2_w).
Proof. vm_compute. reflexivity. Qed.

Definition sc_s3 : option (core * world) := Eval vm_compute in exec sc_cr sc2_c sc2_w sc_e3.
Definition sc3_c : core := Eval vm_compute in match sc_s3 with Some (c, _) => c | None => dummy_core end.
Definition sc3_w : world := Eval vm_compute in match sc_s3 with Some (_, w) => w | None => dummy_world end.
Lemma sc_exec3 : exec sc_cr sc2_c sc2_w sc_e3 = Some (sc3_c, sc3_w).
Proof. vm_compute. reflexivity. Qed.

(* the whole history runs, the replica ends with blocks 4 and 1, read back byte-identical *)
Example sc_run_computed :
  run sc_cr sc_es scR_c scR_w = Some (sc3_c, sc3_w) /\
  core_has sc3_c 4 = true /\ core_has sc3_c 1 = true /\ core_has sc3_c 0 = false /\
  t_length (c_tree sc3_c) = 6 /\
  snd (core_get 4 sc3_c sc3_w) = Ok (Some [9; 10]) /\ snd (core_get 1 sc3_c sc3_w) = Ok (Some []).
Proof. vm_compute. repeat split. Qed.

(* ---------- the frame guard as a computation ---------- *)
Section GuardCheck.
  Variable cr : crypto.
  Variable bs : list bytes.

  Definition frame_check (c : core) (d : disk) (pf : proof) : bool :=
    match verify_proof cr (c_tree c) (d_tree d) pf (kp_public (c_keypair c)) with
    | Ok cs =>
        match entry_of_changeset cs (match p_block pf with Some bl => Some (mkBfUpdate false (db_index bl) 1) | None => None end)
                                 (c_header c) with
        | Ok (e, _) => match enc_entry e with Ok b => len b <? 1073741824 | _ => true end
        | _ => true
        end
    | _ => true
    end.

  Lemma frame_check_ok c d pf : frame_check c d pf = true -> frame_guard cr c d pf.
  Proof.
    unfold frame_check, frame_guard. intros Hchk cs Hv e h b He Hb.
    rewrite Hv, He, Hb in Hchk. apply N.ltb_lt. exact Hchk.
  Qed.

  Definition guard_check (cw : core) (dw : disk) (c : core) (d : disk) (rq : request) : bool :=
    match create_valueless_proof (c_tree cw) (d_tree dw) (rq_block rq) (rq_hash rq) (rq_seek rq) (rq_upgrade rq) with
    | Ok vp => frame_check c d (vp_to_proof vp (rq_value bs rq))
    | _ => true
    end.

  Lemma guard_check_ok cw dw c d rq :
    guard_check cw dw c d rq = true ->
    forall vp, create_valueless_proof (c_tree cw) (d_tree dw) (rq_block rq) (rq_hash rq) (rq_seek rq) (rq_upgrade rq) = Ok vp ->
               frame_guard cr c d (vp_to_proof vp (rq_value bs rq)).
  Proof.
    unfold guard_check. intros Hchk vp Hc. rewrite Hc in Hchk. apply frame_check_ok, Hchk.
  Qed.
End GuardCheck.

(* ---------- every request of the history is well formed for the state it is sent from ---------- *)

Lemma sc_pre1 : pre sc_cr sc_blocks scR_c (w_disk scR_w) sc_e1.
Proof.
  unfold pre, sc_e1. cbv zeta.
  change (kp_public (c_keypair scR_c)) with sc_key.
  split; [exact sc_writer_at|]. split; [vm_compute; discriminate|]. split.
  { split; [cbn; repeat split; vm_compute; try reflexivity; discriminate|].
    cbn [sc_rq1 rq_block rq_hash rq_seek rq_upgrade rb_index rb_nodes rq_target ru_start ru_length].
    unfold wf_node. cbv zeta. rewrite p2_0. split; [vm_compute; discriminate|]. right.
    split; [vm_compute; discriminate|reflexivity]. }
  split; [cbn; repeat split|].
  apply guard_check_ok. vm_compute. reflexivity.
Qed.

Lemma sc_pre3 : pre sc_cr sc_blocks sc2_c (w_disk sc2_w) sc_e3.
Proof.
  unfold pre, sc_e3. cbv zeta.
  change (kp_public (c_keypair sc2_c)) with sc_key.
  split; [exact sc_writer_at|]. split; [vm_compute; discriminate|]. split.
  { split; [exact I|].
    cbn [sc_rq2 rq_block rq_hash rq_seek rq_upgrade rb_index rb_nodes rq_target].
    unfold wf_node. cbv zeta. split; [vm_compute; discriminate|]. left.
    split; [vm_compute; discriminate|]. split; [vm_compute; reflexivity|]. split; [vm_compute; discriminate|exact I]. }
  split; [cbn; repeat split; discriminate|].
  apply guard_check_ok. vm_compute. reflexivity.
Qed.

Lemma sc_hist : hist sc_cr sc_blocks sc_es scR_c scR_w.
Proof.
  unfold sc_es. cbn [hist]. split; [exact sc_pre1|].
  intros c1 w1 E1. rewrite sc_exec1 in E1. injection E1 as <- <-. split; [exact I|].
  intros c2 w2 E2. rewrite sc_exec2 in E2. injection E2 as <- <-. split; [exact sc_pre3|].
  intros c3 w3 _. exact I.
Qed.

(* the theorem applies to the instance without any escape on its hypotheses *)
Example sc_replicas_converge_applies :
  (exists c' w',
     run sc_cr sc_es scR_c scR_w = Some (c', w') /\
     RCInv sc_cr sc_blocks c' (w_disk w') (held_all (fun _ => false) sc_es) /\
     core_has c' 4 = true /\ core_has c' 1 = true /\
     (forall i j2 ev2, core_has c' i = true ->
        core_get i c' (mkWorld (w_disk w') j2 ev2) = (c', mkWorld (w_disk w') j2 ev2, Ok (Some (blk sc_blocks i))))) \/
  some_collision sc_cr \/ forged_signature sc_cr sc_blocks sc_key.
Proof.
  destruct scR_w as [d0 j0 ev0] eqn:Ew.
  pose proof sc_R0_RCInv as RC. pose proof sc_hist as Hh. rewrite Ew in RC, Hh. cbn [w_disk] in RC.
  destruct (replicas_converge sc_cr sc_crc_ok sc_hash32 sc_nonblank sc_hashbytes sc_blocks sc_writer_fits sc_es
              scR_c d0 j0 ev0 (fun _ => false) RC Hh)
    as [(c' & w' & Hrun & RC' & _ & _ & Hreq & _ & Hget)|Esc].
  - left. exists c', w'. split; [exact Hrun|]. split; [exact RC'|].
    split; [apply Hreq; cbn; left; eexists; split; reflexivity|].
    split; [apply Hreq; cbn; right; left; eexists; split; reflexivity|exact Hget].
  - right. exact Esc.
Qed.

Print Assumptions sc_W_WInv.
Print Assumptions sc_hist.
Print Assumptions sc_run_computed.
Print Assumptions sc_replicas_converge_applies.

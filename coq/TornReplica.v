(* TornReplica.v — C07 on replicas: torn writes of an accepted proof application; histories with torn crashes.
   (1) apply_torn_recovers: the process dies during the k-th operation of the journal of an accepted
       core_apply_proof, a write of [data] to store [s] at [off], after only the first t < length data bytes reached
       the store — the data write of the block value, the oplog entry write, a bitfield page, a tree node, the header
       slot.  The disk reached reopens, to the replica state before the call (k <= commit point: a torn data write
       leaves bytes of a block that is not held, or the same bytes again; a torn entry write is cut off by open) or
       after it (the flush group) — a torn HEADER SLOT write may instead exhibit a CRC-32 collision and needs the side
       condition tear_safe of TornCoreB.  The state reached satisfies TornReplicaA.RDInvZ (a torn page write leaves a
       partial last bitfield page, a torn node write a damaged record of the tree store that the unflushed map shadows
       until the next flush rewrites it); RDInv -> RDInvZ for states whose tree store has byte-valued length fields,
       in particular for every state reached from a fresh replica.
   (2) replica_torn_history: ReplicaDisk5.replica_history extended with ZTornApply f pf k t, from any RDInvZ state,
       under the side conditions of the run (rz_safe) or the hygiene-tracking sufficient condition (rz_tears). *)
From HC Require Import Base NMap Codec CodecFacts Crypto FlatTree Storage Bitfield Oplog Merkle Core.
From HC Require Import FlatTreeFacts StorageFacts BitfieldFacts OplogFacts TreeRef OffsetFacts CoreFacts Crash Refine.
From HC Require Import ClearRefine Reopen ContigBridge Unified1 Unified2 CrashCore1 CrashCore2 CrashCore3 CrashClear1.
From HC Require Import Sound NoPanic Replicate SoundCoreLib SoundCore SoundCoreUp SoundCoreBU.
From HC Require Import ReplicaDisk1 ReplicaDisk2 ReplicaDisk3 ReplicaDisk4 ReplicaDisk5 ReplicaDisk6.
From HC Require Import TornCoreA TornCoreB TornClear TornReplicaA TornReplicaB.
From HC Require TornCore.
From Coq Require Import FMapPositive ZifyN ZifyNat ZifyBool.
Ltac Zify.zify_post_hook ::= Z.div_mod_to_equations.
Arguments N.add : simpl never.
Arguments N.sub : simpl never.
Arguments N.mul : simpl never.
Arguments N.div : simpl never.
Arguments N.modulo : simpl never.
Arguments N.pow : simpl never.
Arguments N.eqb : simpl never.
Arguments N.ltb : simpl never.
Arguments N.leb : simpl never.
Arguments N.max : simpl never.
Arguments N.min : simpl never.
Arguments N.of_nat : simpl never.
Arguments N.to_nat : simpl never.
Arguments N.testbit : simpl never.

(* ====================================================================================== *)
(* A. One accepted proof application, torn at every byte of every write                     *)
(* ====================================================================================== *)

Lemma journal_same (delta delta0 j : list sop) : rev delta0 ++ j = rev delta ++ j -> delta0 = delta.
Proof.
  intros Hj. apply app_inv_tail in Hj. apply (f_equal (@rev sop)) in Hj. rewrite !rev_involutive in Hj. exact Hj.
Qed.

Section TornApply.
  Variable cr : crypto.
  Hypothesis Hcrc : crc_ok cr.
  Hypothesis Hhash32 : forall x, length (cr_hash cr x) = 32%nat.
  Hypothesis Hnonblank : forall x, all_zero (cr_hash cr x) = false.
  Hypothesis Hhashbytes : forall x, bytes_ok (cr_hash cr x) = true.
  Variable bs : list bytes.
  Hypothesis Hw : writer_fits bs.

  (* what the reopened replica shows *)
  Definition reopens_to (c0 : core) (dkt : disk) (H : N -> bool) (r : N) : Prop :=
    exists c'' d'' rops, core_open cr None true dkt = (d'', rops, Ok c'') /\
      c_keypair c'' = c_keypair c0 /\
      RDInvZ cr bs c'' d'' H /\ obs_replica bs c'' d'' H r /\ t_length (c_tree c'') = r.

  Lemma recoversR_reopens c0 d H r dkt :
    RDInvZ cr bs c0 d H ->
    recoversR cr bs (kp_public (c_keypair c0)) dkt H r -> reopens_to c0 dkt H r.
  Proof.
    intros X0 (c'' & d'' & rops & E & X & L & K & _).
    exists c'', d'', rops. split; [exact E|].
    split; [rewrite K; symmetry; apply (RDInvZ_keypair cr Hhash32 Hnonblank bs Hw c0 d H X0)|].
    split; [exact X|]. split; [|exact L]. rewrite <- L. apply (RDZ_observations cr Hhash32 Hnonblank bs Hw c'' d'' H X).
  Qed.

  (* C07 for an accepted proof application, from a torn-tolerant state *)
  Theorem apply_torn_recovers f pf c d j ev H c' w' delta :
    RDInvZ cr bs c d H -> rd_proof_ok pf ->
    core_apply_proof cr f pf c (mkWorld d j ev) = (c', w', Ok true) ->
    w_journal w' = rev delta ++ j ->
    (forall k s off data t, nth_error delta k = Some (SW s off data) -> (t < length data)%nat ->
       exists dk dkt,
         apply_sops d (firstn k delta) = Some dk /\
         apply_sop dk (tear (SW s off data) t) = Some dkt /\
         (tear_safe cr dk (SW s off data) t ->
          (if (k <=? commit_point pf)%nat
           then reopens_to c dkt H (t_length (c_tree c))
           else reopens_to c dkt (hold H (p_block pf)) (t_length (c_tree c'))) \/
          (s = Oplog /\ off < ENTRIES_OFFSET /\ Crash.collision cr t))) \/
    some_collision cr \/ forged_signature cr bs (kp_public (c_keypair c)).
  Proof.
    intros X Hrd Happ Hj.
    destruct (apply_Z cr Hcrc Hhash32 Hnonblank Hhashbytes bs Hw f pf c d j ev H c' w' X Hrd Happ)
      as [Hz|[C|F]]; [left|right; left; exact C|right; right; exact F].
    cbv zeta in Hz. destruct Hz as (delta0 & Hj0 & _ & Xfin & Kfin & _ & _ & _ & _ & _ & T).
    rewrite Hj0 in Hj. apply journal_same in Hj. subst delta0.
    intros k s off data t Hk Ht. destruct (T k _ t Hk Ht) as (dk & dkt & Ak & At & Q).
    exists dk, dkt. split; [exact Ak|]. split; [exact At|]. intros Hsafe.
    destruct (Q Hsafe) as [R|[Sl Cl]].
    - left. destruct (k <=? commit_point pf)%nat.
      + apply (recoversR_reopens c d H _ dkt X R).
      + destruct R as (c'' & d'' & rops & E & X'' & L & K & _).
        exists c'', d'', rops. split; [exact E|].
        split; [rewrite K; symmetry; apply (RDInvZ_keypair cr Hhash32 Hnonblank bs Hw c d H X)|].
        split; [exact X''|]. split; [|exact L]. rewrite <- L.
        apply (RDZ_observations cr Hhash32 Hnonblank bs Hw c'' d'' _ X'').
    - right. cbn [is_slot_write] in Sl. destruct s; try discriminate Sl.
      split; [reflexivity|]. split; [apply N.ltb_lt, Sl|exact Cl].
  Qed.

  (* from the states of ReplicaDisk1.RDInv whose tree store has byte-valued length fields *)
  Corollary apply_torn_recovers_from_RDInv f pf c d j ev H c' w' delta :
    RDInv cr bs c d H -> TreeOk (d_tree d) -> rd_proof_ok pf ->
    core_apply_proof cr f pf c (mkWorld d j ev) = (c', w', Ok true) ->
    w_journal w' = rev delta ++ j ->
    (forall k s off data t, nth_error delta k = Some (SW s off data) -> (t < length data)%nat ->
       exists dk dkt,
         apply_sops d (firstn k delta) = Some dk /\
         apply_sop dk (tear (SW s off data) t) = Some dkt /\
         (tear_safe cr dk (SW s off data) t ->
          (if (k <=? commit_point pf)%nat
           then reopens_to c dkt H (t_length (c_tree c))
           else reopens_to c dkt (hold H (p_block pf)) (t_length (c_tree c'))) \/
          (s = Oplog /\ off < ENTRIES_OFFSET /\ Crash.collision cr t))) \/
    some_collision cr \/ forged_signature cr bs (kp_public (c_keypair c)).
  Proof.
    intros X Hok. apply apply_torn_recovers. apply (RDInv_RDInvZ cr Hhash32 Hnonblank bs c d H X Hok).
  Qed.

  (* for every write that is not a header slot write: no side condition, no escape clause *)
  Corollary apply_torn_recovers_plain f pf c d j ev H c' w' delta :
    RDInvZ cr bs c d H -> rd_proof_ok pf ->
    core_apply_proof cr f pf c (mkWorld d j ev) = (c', w', Ok true) ->
    w_journal w' = rev delta ++ j ->
    (forall k s off data t, nth_error delta k = Some (SW s off data) -> (t < length data)%nat ->
       is_slot_write (SW s off data) = false ->
       exists dk dkt,
         apply_sops d (firstn k delta) = Some dk /\
         apply_sop dk (tear (SW s off data) t) = Some dkt /\
         if (k <=? commit_point pf)%nat
         then reopens_to c dkt H (t_length (c_tree c))
         else reopens_to c dkt (hold H (p_block pf)) (t_length (c_tree c'))) \/
    some_collision cr \/ forged_signature cr bs (kp_public (c_keypair c)).
  Proof.
    intros X Hrd Happ Hj.
    destruct (apply_torn_recovers f pf c d j ev H c' w' delta X Hrd Happ Hj) as [T|[C|F]];
      [left|right; left; exact C|right; right; exact F].
    intros k s off data t Hk Ht Hns. destruct (T k s off data t Hk Ht) as (dk & dkt & Ak & At & Q).
    exists dk, dkt. split; [exact Ak|]. split; [exact At|].
    destruct Q as [R|(-> & Lt & _)]; [|exact R|].
    - cbn [tear_safe]. destruct s; try exact I. intros Lt. cbn [is_slot_write] in Hns.
      apply N.ltb_ge in Hns. unfold HEADER_SIZE, ENTRIES_OFFSET in *. lia.
    - cbn [is_slot_write] in Hns. apply N.ltb_ge in Hns. lia.
  Qed.

  (* when both header slots are hygienic (true after creation and after every completed forced flush, kept by
     every whole write) every tear is safe *)
  Corollary apply_torn_recovers_hyg f pf c d j ev H c' w' delta :
    RDInvZ cr bs c d H -> hyg cr (f_content (d_oplog d)) -> rd_proof_ok pf ->
    core_apply_proof cr f pf c (mkWorld d j ev) = (c', w', Ok true) ->
    w_journal w' = rev delta ++ j ->
    (forall k s off data t, nth_error delta k = Some (SW s off data) -> (t < length data)%nat ->
       exists dk dkt,
         apply_sops d (firstn k delta) = Some dk /\
         apply_sop dk (tear (SW s off data) t) = Some dkt /\
         ((if (k <=? commit_point pf)%nat
           then reopens_to c dkt H (t_length (c_tree c))
           else reopens_to c dkt (hold H (p_block pf)) (t_length (c_tree c'))) \/
          (s = Oplog /\ off < ENTRIES_OFFSET /\ Crash.collision cr t))) \/
    some_collision cr \/ forged_signature cr bs (kp_public (c_keypair c)).
  Proof.
    intros X Hh Hrd Happ Hj.
    destruct (apply_Z cr Hcrc Hhash32 Hnonblank Hhashbytes bs Hw f pf c d j ev H c' w' X Hrd Happ)
      as [Hz|[C|F]]; [left|right; left; exact C|right; right; exact F].
    cbv zeta in Hz. destruct Hz as (delta0 & Hj0 & _ & _ & _ & _ & _ & _ & _ & Cc & T).
    rewrite Hj0 in Hj. apply journal_same in Hj. subst delta0.
    intros k s off data t Hk Ht. destruct (T k _ t Hk Ht) as (dk & dkt & Ak & At & Q).
    exists dk, dkt. split; [exact Ak|]. split; [exact At|].
    assert (Hsafe : tear_safe cr dk (SW s off data) t).
    { destruct (Cc k) as (dk0 & Ak0 & _ & Hk0). rewrite Ak in Ak0. injection Ak0 as <-.
      apply hyg_tear_safe, Hk0, Hh. }
    destruct (Q Hsafe) as [R|[Sl Cl]].
    - left. destruct (k <=? commit_point pf)%nat.
      + apply (recoversR_reopens c d H _ dkt X R).
      + destruct R as (c'' & d'' & rops & E & X'' & L & K & _).
        exists c'', d'', rops. split; [exact E|].
        split; [rewrite K; symmetry; apply (RDInvZ_keypair cr Hhash32 Hnonblank bs Hw c d H X)|].
        split; [exact X''|]. split; [|exact L]. rewrite <- L.
        apply (RDZ_observations cr Hhash32 Hnonblank bs Hw c'' d'' _ X'').
    - right. cbn [is_slot_write] in Sl. destruct s; try discriminate Sl.
      split; [reflexivity|]. split; [apply N.ltb_lt, Sl|exact Cl].
  Qed.
End TornApply.

(* ====================================================================================== *)
(* B. Histories of a replica with clean and torn crashes inside proof applications           *)
(* ====================================================================================== *)

(* ReplicaDisk5.rdop with a cut that may tear: ot = None: the process dies after k storage operations of the
   application; ot = Some t: after k whole operations and the first t bytes of the k-th one (when that one is a
   write of more than t bytes; otherwise a clean cut at k); then the storage is opened again *)
Inductive rzop :=
| RZApply (f : option bool) (pf : proof)
| RZGet (i : N)
| RZHas (i : N)
| RZInfo
| RZReopen
| RZCutApply (f : option bool) (pf : proof) (k : nat) (ot : option nat).

Definition RZCrashApply f pf k := RZCutApply f pf k None.
Definition RTornApply f pf k (t : nat) := RZCutApply f pf k (Some t).

Definition rzop_of_rdop (o : rdop) : rzop :=
  match o with
  | RApply f pf => RZApply f pf
  | RGet i => RZGet i
  | RHas i => RZHas i
  | RInfo => RZInfo
  | RReopen => RZReopen
  | RCrashApply f pf k => RZCrashApply f pf k
  end.

Definition rzop_ok (o : rzop) : Prop :=
  match o with
  | RZApply _ pf => rd_proof_ok pf
  | RZCutApply _ pf _ _ => rd_proof_ok pf
  | _ => True
  end.

Section HistoryRZ.
  Variable cr : crypto.
  Variable bs : list bytes.               (* the writer's blocks *)

  (* the run; as ReplicaDisk5.rd_run, the part of the journal that reached the store given by TornCore.crash_ops *)
  Fixpoint rz_run (ops : list rzop) (c : core) (w : world) : list rdobs :=
    match ops with
    | [] => []
    | RZApply f pf :: rest =>
        let '(c', w', r) := core_apply_proof cr f pf c w in
        ROApply r ::
        (if gates_pass cr c w pf then match r with Ok true => rz_run rest c' w' | _ => [] end
         else rz_run rest c' w')
    | RZGet i :: rest => let '(c', w', r) := core_get i c w in ROGet r :: rz_run rest c' w'
    | RZHas i :: rest => ROHas (core_has c i) :: rz_run rest c w
    | RZInfo :: rest => ROInfo (core_info c) :: rz_run rest c w
    | RZReopen :: rest => reopen_then cr (w_disk w) (w_journal w) (w_events w) ROReopen (rz_run rest)
    | RZCutApply f pf k ot :: rest =>
        let '(c', w', r) := core_apply_proof cr f pf c w in
        if gates_pass cr c w pf then
          match r with
          | Ok true =>
              let cut := TornCore.crash_ops (journal_delta (w_journal w) (w_journal w')) k ot in
              match apply_sops (w_disk w) cut with
              | Some dk => reopen_then cr dk (rev cut ++ w_journal w) (w_events w) ROCrash (rz_run rest)
              | None => [ROCrash (Err InvalidOperation)]
              end
          | _ => [ROApply r]
          end
        else (* refused at a gate: nothing was written, the crash loses the memory only *)
          reopen_then cr (w_disk w) (w_journal w) (w_events w) ROCrash (rz_run rest)
    end.

  Lemma rz_run_of_rd_run ops : forall c w, rz_run (map rzop_of_rdop ops) c w = rd_run cr ops c w.
  Proof.
    induction ops as [|op ops IH]; intros c w; [reflexivity|].
    destruct op as [f pf|i|i| | |f pf k]; cbn [map rzop_of_rdop rz_run rd_run RZCrashApply].
    - destruct (core_apply_proof cr f pf c w) as [[c' w'] r]. rewrite !IH. reflexivity.
    - destruct (core_get i c w) as [[c' w'] r]. rewrite IH. reflexivity.
    - rewrite IH. reflexivity.
    - rewrite IH. reflexivity.
    - unfold reopen_then. destruct (core_open cr None true (w_disk w)) as [[d' sops] ro].
      destruct ro; try reflexivity. rewrite IH. reflexivity.
    - destruct (core_apply_proof cr f pf c w) as [[c' w'] r].
      unfold TornCore.crash_ops. rewrite app_nil_r.
      assert (E : forall d jn ev mk, reopen_then cr d jn ev mk (rz_run (map rzop_of_rdop ops)) =
                                     reopen_then cr d jn ev mk (rd_run cr ops)).
      { intros d jn ev mk. unfold reopen_then. destruct (core_open cr None true d) as [[d' sops] ro].
        destruct ro; try reflexivity. rewrite IH. reflexivity. }
      destruct (gates_pass cr c w pf); [|apply E].
      destruct r as [[|]| | |]; try reflexivity.
      destruct (apply_sops (w_disk w) _); [apply E|reflexivity].
  Qed.

  (* the replica spec: ReplicaDisk5.rd_ok, a torn cut counted as the clean cut at the same k *)
  Inductive rz_ok : (N -> bool) -> N -> list rzop -> list rdobs -> Prop :=
  | zok_nil H r : rz_ok H r [] []
  | zok_get H r i rest obs :
      rz_ok H r rest obs ->
      rz_ok H r (RZGet i :: rest) (ROGet (Ok (if H i then Some (blk bs i) else None)) :: obs)
  | zok_has H r i rest obs :
      rz_ok H r rest obs -> rz_ok H r (RZHas i :: rest) (ROHas (H i) :: obs)
  | zok_info H r cg rest obs :
      (forall i, i < cg -> H i = true) -> H cg = false ->
      rz_ok H r rest obs ->
      rz_ok H r (RZInfo :: rest) (ROInfo (mkInfo r (prefix_size bs r) cg 0 false) :: obs)
  | zok_reopen H r rest obs :
      rz_ok H r rest obs -> rz_ok H r (RZReopen :: rest) (ROReopen (Ok tt) :: obs)
  | zok_apply_accepted H r f pf r' rest obs :
      r <= r' -> r' <= N.of_nat (length bs) -> (p_upgrade pf = None -> r' = r) ->
      rz_ok (hold H (p_block pf)) r' rest obs ->
      rz_ok H r (RZApply f pf :: rest) (ROApply (Ok true) :: obs)
  | zok_apply_refused H r f pf res rest obs :
      res <> Ok true -> rz_ok H r rest obs ->
      rz_ok H r (RZApply f pf :: rest) (ROApply res :: obs)
  | zok_apply_failed H r f pf res rest :
      (forall b, res <> Ok b) -> rz_ok H r (RZApply f pf :: rest) [ROApply res]
  | zok_cut_before H r f pf k ot rest obs :
      rz_ok H r rest obs -> rz_ok H r (RZCutApply f pf k ot :: rest) (ROCrash (Ok tt) :: obs)
  | zok_cut_after H r f pf k ot r' rest obs :
      (commit_point pf < k)%nat ->
      r <= r' -> r' <= N.of_nat (length bs) -> (p_upgrade pf = None -> r' = r) ->
      rz_ok (hold H (p_block pf)) r' rest obs ->
      rz_ok H r (RZCutApply f pf k ot :: rest) (ROCrash (Ok tt) :: obs)
  | zok_cut_failed H r f pf k ot res rest :
      (forall b, res <> Ok b) -> rz_ok H r (RZCutApply f pf k ot :: rest) [ROApply res].

  (* the side conditions of the torn writes of a run *)
  Definition reopen_cond (d : disk) (jn : list sop) (ev : list event) (K : core -> world -> Prop) : Prop :=
    let '(d', sops, ro) := core_open cr None true d in
    match ro with
    | Ok c'' => K c'' (mkWorld d' (rev sops ++ jn) ev)
    | _ => True
    end.

  Fixpoint rz_safe (ops : list rzop) (c : core) (w : world) : Prop :=
    match ops with
    | [] => True
    | RZApply f pf :: rest =>
        let '(c', w', r) := core_apply_proof cr f pf c w in
        if gates_pass cr c w pf then match r with Ok true => rz_safe rest c' w' | _ => True end
        else rz_safe rest c' w'
    | RZGet i :: rest => let '(c', w', r) := core_get i c w in rz_safe rest c' w'
    | RZHas i :: rest => rz_safe rest c w
    | RZInfo :: rest => rz_safe rest c w
    | RZReopen :: rest => reopen_cond (w_disk w) (w_journal w) (w_events w) (rz_safe rest)
    | RZCutApply f pf k ot :: rest =>
        let '(c', w', r) := core_apply_proof cr f pf c w in
        if gates_pass cr c w pf then
          match r with
          | Ok true =>
              let delta := journal_delta (w_journal w) (w_journal w') in
              let cut := TornCore.crash_ops delta k ot in
              TornCore.crash_safe cr (w_disk w) delta k ot /\
              match apply_sops (w_disk w) cut with
              | Some dk => reopen_cond dk (rev cut ++ w_journal w) (w_events w) (rz_safe rest)
              | None => True
              end
          | _ => True
          end
        else reopen_cond (w_disk w) (w_journal w) (w_events w) (rz_safe rest)
    end.

  (* a sufficient condition that follows the run.  seen = a torn crash happened and no accepted application with a
     forced flush completed since.  A torn crash is free when seen = false; otherwise it must tear after the CRC
     field *)
  Fixpoint rz_tears (seen : bool) (ops : list rzop) (c : core) (w : world) : Prop :=
    match ops with
    | [] => True
    | RZApply f pf :: rest =>
        let '(c', w', r) := core_apply_proof cr f pf c w in
        if gates_pass cr c w pf then
          match r with
          | Ok true => rz_tears (match f with Some true => false | _ => seen end) rest c' w'
          | _ => True
          end
        else rz_tears seen rest c' w'
    | RZGet i :: rest => let '(c', w', r) := core_get i c w in rz_tears seen rest c' w'
    | RZHas i :: rest => rz_tears seen rest c w
    | RZInfo :: rest => rz_tears seen rest c w
    | RZReopen :: rest => reopen_cond (w_disk w) (w_journal w) (w_events w) (rz_tears seen rest)
    | RZCutApply f pf k ot :: rest =>
        let '(c', w', r) := core_apply_proof cr f pf c w in
        if gates_pass cr c w pf then
          match r with
          | Ok true =>
              let cut := TornCore.crash_ops (journal_delta (w_journal w) (w_journal w')) k ot in
              match ot with Some t => seen = false \/ (4 < t)%nat | None => True end /\
              match apply_sops (w_disk w) cut with
              | Some dk => reopen_cond dk (rev cut ++ w_journal w) (w_events w)
                             (rz_tears (match ot with Some _ => true | None => seen end) rest)
              | None => True
              end
          | _ => True
          end
        else reopen_cond (w_disk w) (w_journal w) (w_events w) (rz_tears seen rest)
    end.

  Hypothesis Hcrc : crc_ok cr.
  Hypothesis Hhash32 : forall x, length (cr_hash cr x) = 32%nat.
  Hypothesis Hnonblank : forall x, all_zero (cr_hash cr x) = false.
  Hypothesis Hhashbytes : forall x, bytes_ok (cr_hash cr x) = true.
  Hypothesis Hw : writer_fits bs.

  (* the disk a clean or torn cut of an accepted application leaves *)
  Lemma rcut_outcome pk d delta cp (H H' : N -> bool) r r' k ot :
    (forall k, exists dk, apply_sops d (firstn k delta) = Some dk /\
        (if (k <=? cp)%nat then RDiskZ cr bs pk dk H r else RDiskZ cr bs pk dk H' r') /\
        (hyg cr (f_content (d_oplog d)) -> hyg cr (f_content (d_oplog dk)))) ->
    (forall k o t, nth_error delta k = Some o -> (t < wlen o)%nat ->
        exists dk dkt, apply_sops d (firstn k delta) = Some dk /\ apply_sop dk (tear o t) = Some dkt /\
          (tear_safe cr dk o t ->
           (if (k <=? cp)%nat then recoversR cr bs pk dkt H r else recoversR cr bs pk dkt H' r') \/
           (is_slot_write o = true /\ Crash.collision cr t))) ->
    exists dc, apply_sops d (TornCore.crash_ops delta k ot) = Some dc /\
      (TornCore.crash_safe cr d delta k ot ->
         (if (k <=? cp)%nat then recoversR cr bs pk dc H r else recoversR cr bs pk dc H' r') \/
         exists t, Crash.collision cr t) /\
      (hyg cr (f_content (d_oplog d)) -> TornCore.crash_safe cr d delta k ot) /\
      (ot = None -> hyg cr (f_content (d_oplog d)) -> hyg cr (f_content (d_oplog dc))).
  Proof.
    intros C1 T1.
    assert (Clean : exists dc, apply_sops d (firstn k delta ++ []) = Some dc /\
              (if (k <=? cp)%nat then recoversR cr bs pk dc H r else recoversR cr bs pk dc H' r') /\
              (hyg cr (f_content (d_oplog d)) -> hyg cr (f_content (d_oplog dc)))).
    { destruct (C1 k) as (dk & Ak & Yk & Hk). exists dk. rewrite app_nil_r. split; [exact Ak|].
      split; [|exact Hk].
      destruct (k <=? cp)%nat; apply (RDiskZ_recovers cr Hcrc Hhash32 Hnonblank Hhashbytes bs), Yk. }
    unfold TornCore.crash_ops, TornCore.crash_safe.
    destruct ot as [t|].
    - destruct (nth_error delta k) as [o|] eqn:En.
      + destruct (Nat.ltb_spec t (wlen o)) as [Lt|Ge].
        * destruct (T1 k o t En Lt) as (dk & dkt & Ak & At & Q). exists dkt.
          split. { rewrite CoreFacts.apply_sops_app, Ak. cbn [apply_sops]. rewrite At. reflexivity. }
          rewrite Ak. split.
          { intros Hs. destruct (Q (Hs Lt)) as [R|[_ Cl]]; [left; exact R|right; exists t; exact Cl]. }
          split; [|intros E; discriminate E].
          intros Hh _. apply hyg_tear_safe.
          destruct (C1 k) as (dk' & Ak' & _ & Hk'). rewrite Ak in Ak'. injection Ak' as <-. apply Hk', Hh.
        * destruct Clean as (dc & Ac & Rc & Hc). exists dc. split; [exact Ac|].
          split; [intros _; left; exact Rc|].
          split; [|intros _; exact Hc].
          intros _. destruct (apply_sops d (firstn k delta)); [|exact I]. intros Hlt. lia.
      + destruct Clean as (dc & Ac & Rc & Hc). exists dc. split; [exact Ac|].
        split; [intros _; left; exact Rc|]. split; [intros _; exact I|intros _; exact Hc].
    - destruct Clean as (dc & Ac & Rc & Hc). exists dc. split; [exact Ac|].
      split; [intros _; left; exact Rc|]. split; [intros _; exact I|intros _; exact Hc].
  Qed.

  (* the escape clauses: a CRC-32 collision exhibited by a torn header slot write, a hash collision, a signature
     on a message the writer never signed *)
  Definition escapes (pk : bytes) : Prop :=
    (exists t, Crash.collision cr t) \/ some_collision cr \/ forged_signature cr bs pk.

  (* GOAL: histories with clean and torn crashes, from any state of RDInvZ, under the side conditions of the run *)
  Theorem replica_torn_history (ops : list rzop) : forall c d j ev H,
    RDInvZ cr bs c d H -> Forall rzop_ok ops ->
    rz_safe ops c (mkWorld d j ev) ->
    rz_ok H (t_length (c_tree c)) ops (rz_run ops c (mkWorld d j ev)) \/ escapes (kp_public (c_keypair c)).
  Proof.
    induction ops as [|op ops IH]; intros c d j ev H X Hops Hsafe.
    - left. constructor.
    - inversion Hops as [|? ? Hop Hops']; subst.
      assert (Kp : forall c1 c2, c_keypair c1 = c_keypair c2 -> escapes (kp_public (c_keypair c1)) ->
                                 escapes (kp_public (c_keypair c2))) by (intros c1 c2 E; rewrite E; intros Q; exact Q).
      destruct op as [f pf|i|i| | |f pf k ot]; cbn [rz_run rz_safe rzop_ok] in *.
      + (* apply *)
        destruct (core_apply_proof cr f pf c (mkWorld d j ev)) as [[c' w'] res] eqn:Happ.
        destruct (gates_pass cr c (mkWorld d j ev) pf) eqn:Gp.
        * destruct res as [[|]| | |].
          -- destruct (apply_Z cr Hcrc Hhash32 Hnonblank Hhashbytes bs Hw f pf c d j ev H c' w' X Hop Happ)
               as [Hz|[C|F]]; [|right; right; left; exact C|right; right; right; exact F].
             cbv zeta in Hz. destruct Hz as (delta & _ & _ & X' & K' & Hle & Hno & _).
             destruct w' as [d' j' ev'].
             destruct (IH c' d' j' ev' _ X' Hops' Hsafe) as [Hr|E]; [left|right; apply (Kp c' c K' E)].
             apply (zok_apply_accepted H _ f pf (t_length (c_tree c'))); try assumption.
             apply (RDZ_info cr Hhash32 Hnonblank bs Hw c' d' _ X').
          -- exfalso. destruct (apply_not_accepted cr f pf c _ c' w' _ Happ ltac:(discriminate))
               as [(_ & _ & R)|(cs & _ & _ & _ & Hn)].
             ++ apply (gates_pass_not_refused cr c _ pf Gp R).
             ++ apply (Hn false). reflexivity.
          -- left. apply zok_apply_failed. intros b. discriminate.
          -- left. apply zok_apply_failed. intros b. discriminate.
          -- left. apply zok_apply_failed. intros b. discriminate.
        * destruct (apply_refusal_noop cr f pf c (mkWorld d j ev) (gates_fail_refused cr c _ pf Gp)) as (r0 & E & Hr0).
          rewrite E in Happ. injection Happ as <- <- <-.
          destruct (IH c d j ev H X Hops' Hsafe) as [Hr|E']; [left|right; exact E'].
          apply zok_apply_refused; [|exact Hr].
          destruct Hr0 as [->|(_ & Hn & _)]; [discriminate|apply Hn].
      + (* get *)
        rewrite (RDZ_get cr Hhash32 Hnonblank bs Hw c d H j ev i X) in *.
        destruct (H i) eqn:Hi.
        * destruct (IH c d j ev H X Hops' Hsafe) as [Hr|E]; [left|right; exact E].
          pose proof (zok_get H _ i ops _ Hr) as G. rewrite Hi in G. exact G.
        * destruct (IH c d j (EvGet i :: ev) H X Hops' Hsafe) as [Hr|E]; [left|right; exact E].
          pose proof (zok_get H _ i ops _ Hr) as G. rewrite Hi in G. exact G.
      + (* has *)
        rewrite (RDZ_has cr bs c d H i X).
        destruct (IH c d j ev H X Hops' Hsafe) as [Hr|E]; [left|right; exact E].
        apply zok_has, Hr.
      + (* info *)
        destruct (RDZ_info cr Hhash32 Hnonblank bs Hw c d H X) as (I & _ & [E1 E2]). rewrite I.
        destruct (IH c d j ev H X Hops' Hsafe) as [Hr|E]; [left|right; exact E].
        apply zok_info; assumption.
      + (* reopen *)
        destruct (reopen_RDInvZ cr Hcrc Hhash32 Hnonblank Hhashbytes bs Hw c d H X) as (c1 & E & X1 & Et & Ek & _).
        unfold reopen_then, reopen_cond in *. cbn [w_disk w_journal w_events] in *. rewrite E in *.
        cbn [res_unit rev app] in *.
        destruct (IH c1 d j ev H X1 Hops' Hsafe) as [Hr|E']; [left|right; apply (Kp c1 c Ek E')].
        rewrite Et in Hr. apply zok_reopen, Hr.
      + (* a clean or torn cut inside an apply *)
        destruct (core_apply_proof cr f pf c (mkWorld d j ev)) as [[c' w'] res] eqn:Happ.
        destruct (gates_pass cr c (mkWorld d j ev) pf) eqn:Gp.
        * destruct res as [[|]| | |].
          -- destruct (apply_Z cr Hcrc Hhash32 Hnonblank Hhashbytes bs Hw f pf c d j ev H c' w' X Hop Happ)
               as [Hz|[C|F]]; [|right; right; left; exact C|right; right; right; exact F].
             cbv zeta in Hz. destruct Hz as (delta & Hj & _ & X' & K' & Hle & Hno & _ & _ & Cc & Tc).
             cbn [w_journal w_disk w_events] in *. rewrite Hj, journal_delta_spec in *.
             destruct (rcut_outcome _ d delta (commit_point pf) H (hold H (p_block pf)) _ _ k ot Cc Tc)
               as (dc & Ac & R & _ & _).
             rewrite Ac in *. destruct Hsafe as [Hs Hrest].
             destruct (R Hs) as [Rk|Cl]; [|right; left; exact Cl].
             unfold reopen_then, reopen_cond in *.
             destruct (Nat.leb_spec k (commit_point pf)) as [Lk|Lk].
             ++ destruct Rk as (c'' & d'' & rops & Eo & X'' & L'' & K'' & _).
                rewrite Eo in *. cbn [res_unit].
                assert (Ek : c_keypair c'' = c_keypair c).
                { rewrite K''. symmetry. apply (RDInvZ_keypair cr Hhash32 Hnonblank bs Hw c d H X). }
                destruct (IH c'' d'' (rev rops ++ rev (TornCore.crash_ops delta k ot) ++ j) ev H X'' Hops' Hrest)
                  as [Hr|E]; [left|right; apply (Kp c'' c Ek E)].
                rewrite L'' in Hr. apply zok_cut_before, Hr.
             ++ destruct Rk as (c'' & d'' & rops & Eo & X'' & L'' & K'' & _).
                rewrite Eo in *. cbn [res_unit].
                assert (Ek : c_keypair c'' = c_keypair c).
                { rewrite K''. symmetry. apply (RDInvZ_keypair cr Hhash32 Hnonblank bs Hw c d H X). }
                destruct (IH c'' d'' (rev rops ++ rev (TornCore.crash_ops delta k ot) ++ j) ev _ X'' Hops' Hrest)
                  as [Hr|E]; [left|right; apply (Kp c'' c Ek E)].
                rewrite L'' in Hr.
                apply (zok_cut_after H _ f pf k ot (t_length (c_tree c'))); try assumption.
                apply (RDZ_info cr Hhash32 Hnonblank bs Hw c' (w_disk w') _ X').
          -- exfalso. destruct (apply_not_accepted cr f pf c _ c' w' _ Happ ltac:(discriminate))
               as [(_ & _ & R)|(cs & _ & _ & _ & Hn)].
             ++ apply (gates_pass_not_refused cr c _ pf Gp R).
             ++ apply (Hn false). reflexivity.
          -- left. apply zok_cut_failed. intros b. discriminate.
          -- left. apply zok_cut_failed. intros b. discriminate.
          -- left. apply zok_cut_failed. intros b. discriminate.
        * destruct (reopen_RDInvZ cr Hcrc Hhash32 Hnonblank Hhashbytes bs Hw c d H X) as (c1 & E & X1 & Et & Ek & _).
          unfold reopen_then, reopen_cond in *. cbn [w_disk w_journal w_events] in *. rewrite E in *.
          cbn [res_unit rev app] in *.
          destruct (IH c1 d j ev H X1 Hops' Hsafe) as [Hr|E']; [left|right; apply (Kp c1 c Ek E')].
          rewrite Et in Hr. apply zok_cut_before, Hr.
  Qed.
End HistoryRZ.

(* ====================================================================================== *)
(* C. The side conditions hold along a run whose header slots start hygienic; creation       *)
(* ====================================================================================== *)

Section TearsRZ.
  Variable cr : crypto.
  Variable bs : list bytes.
  Hypothesis Hcrc : crc_ok cr.
  Hypothesis Hhash32 : forall x, length (cr_hash cr x) = 32%nat.
  Hypothesis Hnonblank : forall x, all_zero (cr_hash cr x) = false.
  Hypothesis Hhashbytes : forall x, bytes_ok (cr_hash cr x) = true.
  Hypothesis Hw : writer_fits bs.

  Theorem rz_tears_safe (ops : list rzop) : forall seen c d j ev H,
    RDInvZ cr bs c d H -> Forall rzop_ok ops ->
    (seen = false -> hyg cr (f_content (d_oplog d))) ->
    rz_tears cr seen ops c (mkWorld d j ev) ->
    rz_safe cr ops c (mkWorld d j ev) \/ escapes cr bs (kp_public (c_keypair c)).
  Proof.
    induction ops as [|op ops IH]; intros seen c d j ev H X Hops Hh Ht.
    - left. exact I.
    - inversion Hops as [|? ? Hop Hops']; subst.
      assert (Kp : forall c1 c2, c_keypair c1 = c_keypair c2 -> escapes cr bs (kp_public (c_keypair c1)) ->
                                 escapes cr bs (kp_public (c_keypair c2))) by (intros c1 c2 E; rewrite E; intros Q; exact Q).
      destruct op as [f pf|i|i| | |f pf k ot]; cbn [rz_tears rz_safe rzop_ok] in *.
      + destruct (core_apply_proof cr f pf c (mkWorld d j ev)) as [[c' w'] res] eqn:Happ.
        destruct (gates_pass cr c (mkWorld d j ev) pf) eqn:Gp.
        * destruct res as [[|]| | |]; try (left; exact I).
          destruct (apply_Z cr Hcrc Hhash32 Hnonblank Hhashbytes bs Hw f pf c d j ev H c' w' X Hop Happ)
            as [Hz|[C|F]]; [|right; right; left; exact C|right; right; right; exact F].
          cbv zeta in Hz. destruct Hz as (delta & _ & Ad & X' & K' & _ & _ & Hf & _ & Cc & _).
          destruct w' as [d' j' ev']. cbn [w_disk] in *.
          assert (Keep : hyg cr (f_content (d_oplog d)) -> hyg cr (f_content (d_oplog d'))).
          { intros Hh0. destruct (Cc (length delta)) as (dk & Ak & _ & Hk). rewrite firstn_all, Ad in Ak.
            injection Ak as <-. apply Hk, Hh0. }
          assert (Hh' : (match f with Some true => false | _ => seen end) = false -> hyg cr (f_content (d_oplog d'))).
          { intros Es. destruct f as [[|]|]; [apply Hf; reflexivity|apply Keep, Hh, Es|apply Keep, Hh, Es]. }
          destruct (IH _ c' d' j' ev' _ X' Hops' Hh' Ht) as [Hs|E]; [left; exact Hs|right; apply (Kp c' c K' E)].
        * destruct (apply_refusal_noop cr f pf c (mkWorld d j ev) (gates_fail_refused cr c _ pf Gp)) as (r0 & E & _).
          rewrite E in Happ. injection Happ as <- <- <-.
          apply (IH seen c d j ev H X Hops' Hh Ht).
      + rewrite (RDZ_get cr Hhash32 Hnonblank bs Hw c d H j ev i X) in *.
        destruct (H i).
        * apply (IH seen c d j ev H X Hops' Hh Ht).
        * apply (IH seen c d j (EvGet i :: ev) H X Hops' Hh Ht).
      + apply (IH seen c d j ev H X Hops' Hh Ht).
      + apply (IH seen c d j ev H X Hops' Hh Ht).
      + destruct (reopen_RDInvZ cr Hcrc Hhash32 Hnonblank Hhashbytes bs Hw c d H X) as (c1 & E & X1 & Et & Ek & _).
        unfold reopen_cond in *. cbn [w_disk w_journal w_events] in *. rewrite E in *. cbn [rev app] in *.
        destruct (IH seen c1 d j ev H X1 Hops' Hh Ht) as [Hs|E']; [left; exact Hs|right; apply (Kp c1 c Ek E')].
      + destruct (core_apply_proof cr f pf c (mkWorld d j ev)) as [[c' w'] res] eqn:Happ.
        destruct (gates_pass cr c (mkWorld d j ev) pf) eqn:Gp.
        * destruct res as [[|]| | |]; try (left; exact I).
          destruct (apply_Z cr Hcrc Hhash32 Hnonblank Hhashbytes bs Hw f pf c d j ev H c' w' X Hop Happ)
            as [Hz|[C|F]]; [|right; right; left; exact C|right; right; right; exact F].
          cbv zeta in Hz. destruct Hz as (delta & Hj & _ & X' & K' & _ & _ & _ & _ & Cc & Tc).
          cbn [w_journal w_disk w_events] in *. rewrite Hj, journal_delta_spec in *.
          destruct (rcut_outcome cr bs Hcrc Hhash32 Hnonblank Hhashbytes _ d delta (commit_point pf) H
                      (hold H (p_block pf)) _ _ k ot Cc Tc) as (dc & Ac & R & S & Hc).
          rewrite Ac in *. destruct Ht as [Hot Hrest].
          assert (Hsafe : TornCore.crash_safe cr d delta k ot).
          { destruct ot as [t|]; [|exact I]. destruct Hot as [Es|Lt]; [apply S, Hh, Es|].
            unfold TornCore.crash_safe. destruct (nth_error delta k); [|exact I].
            destruct (apply_sops d (firstn k delta)); [|exact I]. intros _. apply late_tear_safe, Lt. }
          destruct (R Hsafe) as [Rk|Cl]; [|right; left; exact Cl].
          unfold reopen_cond in *.
          assert (Go : forall Hx rx, recoversR cr bs (kp_public (c_keypair c)) dc Hx rx ->
                    (TornCore.crash_safe cr d delta k ot /\
                     (let '(d', sops, ro) := core_open cr None true dc in
                      match ro with
                      | Ok c'' => rz_safe cr ops c'' (mkWorld d' (rev sops ++ rev (TornCore.crash_ops delta k ot) ++ j) ev)
                      | _ => True
                      end)) \/ escapes cr bs (kp_public (c_keypair c))).
          { intros Hx rx (c'' & d'' & rops & Eo & X'' & _ & K'' & _ & _ & _ & _ & Hhy).
            rewrite Eo in *.
            assert (Ek : c_keypair c'' = c_keypair c).
            { rewrite K''. symmetry. apply (RDInvZ_keypair cr Hhash32 Hnonblank bs Hw c d H X). }
            assert (Hh' : (match ot with Some _ => true | None => seen end) = false -> hyg cr (f_content (d_oplog d''))).
            { intros Es. apply Hhy. destruct ot as [t|]; [discriminate Es|]. apply (Hc eq_refl), Hh, Es. }
            destruct (IH _ c'' d'' (rev rops ++ rev (TornCore.crash_ops delta k ot) ++ j) ev _ X'' Hops' Hh' Hrest)
              as [Hs|E]; [left; split; [exact Hsafe|exact Hs]|right; apply (Kp c'' c Ek E)]. }
          destruct (k <=? commit_point pf)%nat; apply (Go _ _ Rk).
        * destruct (reopen_RDInvZ cr Hcrc Hhash32 Hnonblank Hhashbytes bs Hw c d H X) as (c1 & E & X1 & Et & Ek & _).
          unfold reopen_cond in *. cbn [w_disk w_journal w_events] in *. rewrite E in *. cbn [rev app] in *.
          destruct (IH seen c1 d j ev H X1 Hops' Hh Ht) as [Hs|E']; [left; exact Hs|right; apply (Kp c1 c Ek E')].
  Qed.

  (* the two together *)
  Theorem replica_torn_history_tears ops seen c d j ev H :
    RDInvZ cr bs c d H -> Forall rzop_ok ops ->
    (seen = false -> hyg cr (f_content (d_oplog d))) ->
    rz_tears cr seen ops c (mkWorld d j ev) ->
    rz_ok bs H (t_length (c_tree c)) ops (rz_run cr ops c (mkWorld d j ev)) \/
    escapes cr bs (kp_public (c_keypair c)).
  Proof.
    intros X Hops Hh Ht.
    destruct (rz_tears_safe ops seen c d j ev H X Hops Hh Ht) as [Hs|E]; [|right; exact E].
    apply (replica_torn_history cr bs Hcrc Hhash32 Hnonblank Hhashbytes Hw ops c d j ev H X Hops Hs).
  Qed.

  (* ---------- creation: the fresh replica satisfies RDInvZ and its header slots are hygienic ---------- *)

  Theorem RDInvZ_fresh kp :
    keypair_ok kp = true -> kp_secret kp = None ->
    exists d0 ops0 c0,
      core_open cr (Some kp) false disk_empty = (d0, ops0, Ok c0) /\
      RDInv cr bs c0 d0 (fun _ => false) /\ RDInvZ cr bs c0 d0 (fun _ => false) /\
      c_keypair c0 = kp /\ t_length (c_tree c0) = 0 /\ hyg cr (f_content (d_oplog d0)).
  Proof.
    intros Hkp Hsec.
    destruct (RDInv_fresh cr Hcrc Hhash32 Hnonblank bs kp Hkp Hsec) as (d0 & ops0 & c0 & E & X & K & L).
    destruct (TornCore.YInv_init cr Hcrc Hhash32 Hnonblank Hhashbytes kp Hkp) as (d1 & ops1 & c1 & E1 & Y & _ & Hh).
    rewrite E in E1. injection E1 as <- <- <-.
    destruct Y as (_ & Hok & _).
    exists d0, ops0, c0. split; [exact E|]. split; [exact X|].
    split; [apply (RDInv_RDInvZ cr Hhash32 Hnonblank bs c0 d0 _ X Hok)|]. split; [exact K|]. split; [exact L|exact Hh].
  Qed.

  (* from a fresh replica: created from the public key alone on empty storage *)
  Theorem fresh_replica_torn_history kp ops :
    keypair_ok kp = true -> kp_secret kp = None -> Forall rzop_ok ops ->
    exists d0 ops0 c0,
      core_open cr (Some kp) false disk_empty = (d0, ops0, Ok c0) /\
      (rz_tears cr false ops c0 (mkWorld d0 [] []) ->
       rz_ok bs (fun _ => false) 0 ops (rz_run cr ops c0 (mkWorld d0 [] [])) \/ escapes cr bs (kp_public kp)).
  Proof.
    intros Hkp Hsec Hops.
    destruct (RDInvZ_fresh kp Hkp Hsec) as (d0 & ops0 & c0 & E & _ & X & K & L & Hh).
    exists d0, ops0, c0. split; [exact E|]. intros Ht.
    destruct (replica_torn_history_tears ops false c0 d0 [] [] _ X Hops (fun _ => Hh) Ht) as [Hr|Es].
    - left. rewrite L in Hr. exact Hr.
    - right. rewrite K in Es. exact Es.
  Qed.

  Theorem fresh_replica_torn_history_safe kp ops :
    keypair_ok kp = true -> kp_secret kp = None -> Forall rzop_ok ops ->
    exists d0 ops0 c0,
      core_open cr (Some kp) false disk_empty = (d0, ops0, Ok c0) /\
      (rz_safe cr ops c0 (mkWorld d0 [] []) ->
       rz_ok bs (fun _ => false) 0 ops (rz_run cr ops c0 (mkWorld d0 [] [])) \/ escapes cr bs (kp_public kp)).
  Proof.
    intros Hkp Hsec Hops.
    destruct (RDInvZ_fresh kp Hkp Hsec) as (d0 & ops0 & c0 & E & _ & X & K & L & _).
    exists d0, ops0, c0. split; [exact E|]. intros Hs.
    destruct (replica_torn_history cr bs Hcrc Hhash32 Hnonblank Hhashbytes Hw ops c0 d0 [] [] _ X Hops Hs) as [Hr|Es].
    - left. rewrite L in Hr. exact Hr.
    - right. rewrite K in Es. exact Es.
  Qed.
End TearsRZ.

(* ====================================================================================== *)
(* D. Non-vacuity: the toy replica of SoundCore.v with a real CRC-32                        *)
(* ====================================================================================== *)

(* hash and signatures of SoundCore.sc_cr (its checksum is constantly 0: every torn header slot write would fall
   under the collision clause), the checksum a real CRC-32 *)
Definition scz : crypto := mkCrypto (cr_hash sc_cr) TornCore.crc32 (cr_sign sc_cr) (cr_verify sc_cr).

Lemma scz_crc_ok : crc_ok scz.
Proof. intros b. cbn [cr_crc scz]. unfold TornCore.crc32. apply N.mod_lt. discriminate. Qed.
Lemma scz_hash32 : forall x, length (cr_hash scz x) = 32%nat.
Proof. exact sc_hash32. Qed.
Lemma scz_nonblank : forall x, all_zero (cr_hash scz x) = false.
Proof. exact sc_nonblank. Qed.
Lemma scz_hashbytes : forall x, bytes_ok (cr_hash scz x) = true.
Proof.
  intros x. cbn [cr_hash scz sc_cr]. unfold sc_hash, bytes_ok. cbn [forallb].
  apply andb_true_intro. split; [reflexivity|].
  apply forallb_forall. intros y Hy. apply in_map_iff in Hy. destruct Hy as (k & <- & _).
  unfold byte_ok. apply N.ltb_lt. apply N.mod_lt. discriminate.
Qed.

Definition scz_kp : keypair := mkKeypair sc_key None.
Definition scz_R0 : option (core * world) :=
  match core_open scz (Some scz_kp) false disk_empty with
  | (d, _, Ok c0) => Some (c0, mkWorld d [] [])
  | _ => None
  end.
Definition no_proof : proof := mkProof 0 None None None None.
(* the writer's proofs: first contact (block 4 together with the upgrade 0..6), and the blocks i after it *)
Definition scz_fc : proof := match sc_first_contact_proof with Some pf => pf | None => no_proof end.
Definition scz_pb (i : N) : proof := match sc_block_proof sc_fc_state i with Some pf => pf | None => no_proof end.

(* what a replica shows: has and get at the indices 0..6, length, contiguous length *)
Definition scz_probe (c : core) (d : disk) : list (bool * res (option bytes)) * N * N :=
  (map (fun i => (core_has c i, snd (core_get i c (mkWorld d [] [])))) [0; 1; 2; 3; 4; 5; 6],
   i_length (core_info c), i_contiguous (core_info c)).

Definition scz_torn_obs (s : option (core * world)) (f : option bool) (pf : proof) (k t : nat) :=
  match s with
  | Some (c, w) =>
      match core_apply_proof scz f pf c w with
      | (c', w', Ok true) =>
          let delta := journal_delta (w_journal w) (w_journal w') in
          match apply_sops (w_disk w) (TornCore.crash_ops delta k (Some t)) with
          | Some dk =>
              match core_open scz None true dk with
              | (d'', _, Ok c'') => Some (scz_probe c'' d'')
              | _ => None
              end
          | None => None
          end
      | _ => None
      end
  | None => None
  end.

Definition scz_shape (s : option (core * world)) (f : option bool) (pf : proof) : list (store * nat) :=
  match s with
  | Some (c, w) =>
      match core_apply_proof scz f pf c w with
      | (c', w', r) => map (fun o => (sop_store o, wlen o)) (journal_delta (w_journal w) (w_journal w'))
      end
  | None => []
  end.

Definition scz_before : list (bool * res (option bytes)) * N * N :=
  (repeat (false, Ok None) 7, 0, 0).
Definition scz_after : list (bool * res (option bytes)) * N * N :=
  ([(false, Ok None); (false, Ok None); (false, Ok None); (false, Ok None); (true, Ok (Some [9; 10]));
    (false, Ok None); (false, Ok None)], 6, 0).

(* the tears looked at: every t for a write of at most 40 bytes; otherwise 0..39, 100, the middle, the last three *)
Definition scz_tears (w : nat) : list nat :=
  if (w <=? 40)%nat then seq 0 w else seq 0 40 ++ [100; w / 2; w - 3; w - 2; w - 1]%nat.

(* First contact WITH a flush on the fresh replica, tear by tear.  The journal has nine operations: data write
   (2 bytes), entry write (251), one bitfield page (4096), four tree nodes (40 each), header slot (486), truncate.
   After every torn cut (k, t), t in scz_tears, the storage reopens; for k = 0, 1 nothing is held and the length is
   0; for k >= 2 block 4 is held, reads back as the writer's block and the length is 6, also for the tears of the
   header slot write (no collision occurs) *)
Example scz_every_tear_of_first_contact :
  scz_shape scz_R0 (Some true) scz_fc =
    [(Data, 2); (Oplog, 251); (Bitfield, 4096); (Tree, 40); (Tree, 40); (Tree, 40); (Tree, 40); (Oplog, 486);
     (Oplog, 0)]%nat /\
  map (fun kw => map (scz_torn_obs scz_R0 (Some true) scz_fc (fst kw)) (scz_tears (snd kw)))
      (combine (seq 0 9) [2; 251; 4096; 40; 40; 40; 40; 486; 0]%nat) =
  map (fun kw => map (fun _ => Some (if (fst kw <=? 1)%nat then scz_before else scz_after)) (scz_tears (snd kw)))
      (combine (seq 0 9) [2; 251; 4096; 40; 40; 40; 40; 486; 0]%nat).
Proof. split; vm_compute; reflexivity. Qed.

(* the first-contact proof and the block proofs satisfy the side conditions on proofs (SoundCoreBU, ReplicaDisk6) *)
Lemma sc_fc_rd_ok pf : sc_first_contact_proof = Some pf -> rd_proof_ok pf /\ commit_point pf = 1%nat.
Proof.
  intros Ep.
  destruct (RDInv_fresh sc_cr sc_crc_ok sc_hash32 sc_nonblank sc_blocks (mkKeypair sc_key None) eq_refl eq_refl)
    as (d0 & ops & c & Hopen & _).
  destruct (sc_fc_ok d0 ops c pf Hopen Ep) as (b & u & c1 & w1 & Epf & Hi & Hok & Happ1).
  destruct (sc_fc_facts d0 ops c pf c1 w1 (Ok true) Hopen Ep Happ1) as [_ Hsb].
  split; [split; [exact Hok|destruct (p_upgrade pf); [exact Hsb|exact I]]|].
  rewrite Epf. reflexivity.
Qed.

Lemma scz_fc_eq : sc_first_contact_proof = Some scz_fc.
Proof. vm_compute. reflexivity. Qed.

Lemma scz_fc_ok : rd_proof_ok scz_fc /\ commit_point scz_fc = 1%nat.
Proof. apply sc_fc_rd_ok, scz_fc_eq. Qed.

Lemma scz_pb_shape : Forall (fun i => (p_hash (scz_pb i), p_seek (scz_pb i), p_upgrade (scz_pb i)) = (None, None, None)) [0; 1; 2; 3; 5].
Proof. repeat (apply Forall_cons; [vm_compute; reflexivity|]). apply Forall_nil. Qed.

Lemma shape_rd_ok pf : (p_hash pf, p_seek pf, p_upgrade pf) = (None, None, None) -> rd_proof_ok pf.
Proof.
  intros E. injection E as A1 A2 A3.
  split; [split; [exact A1|split; [exact A2|rewrite A3; exact I]]|rewrite A3; exact I].
Qed.

(* the run of first contact with a flush on the instance: accepted, nine operations *)
Lemma scz_fc_flush_run d0 ops c c' w' r :
  core_open scz (Some scz_kp) false disk_empty = (d0, ops, Ok c) ->
  core_apply_proof scz (Some true) scz_fc c (mkWorld d0 [] []) = (c', w', r) ->
  r = Ok true /\ length (w_journal w') = 9%nat.
Proof.
  intros H1 H3. vm_compute in H1. injection H1 as <- _ <-.
  vm_compute in H3. injection H3 as _ <- <-. split; reflexivity.
Qed.

(* all hypotheses of apply_torn_recovers_from_RDInv hold on the instance: the fresh replica, first contact with a
   flush; hence every write of its nine-operation journal torn at every byte reopens to the state before (k <= 1)
   or after *)
Example scz_torn_theorem_applies :
  match scz_R0 with
  | Some (c, w) =>
      RDInv scz sc_blocks c (w_disk w) (fun _ => false) /\ TreeOk (d_tree (w_disk w)) /\
      hyg scz (f_content (d_oplog (w_disk w))) /\ rd_proof_ok scz_fc /\ commit_point scz_fc = 1%nat /\
      exists c' w' delta,
        core_apply_proof scz (Some true) scz_fc c w = (c', w', Ok true) /\
        w_journal w' = rev delta ++ w_journal w /\ length delta = 9%nat /\
        ((forall k s off data t, nth_error delta k = Some (SW s off data) -> (t < length data)%nat ->
            exists dk dkt,
              apply_sops (w_disk w) (firstn k delta) = Some dk /\
              apply_sop dk (tear (SW s off data) t) = Some dkt /\
              ((if (k <=? 1)%nat
                then reopens_to scz sc_blocks c dkt (fun _ => false) 0
                else reopens_to scz sc_blocks c dkt (hold (fun _ => false) (p_block scz_fc)) (t_length (c_tree c'))) \/
               (s = Oplog /\ off < ENTRIES_OFFSET /\ Crash.collision scz t))) \/
         some_collision scz \/ forged_signature scz sc_blocks (kp_public (c_keypair c)))
  | None => False
  end.
Proof.
  destruct (RDInvZ_fresh scz sc_blocks scz_crc_ok scz_hash32 scz_nonblank scz_hashbytes scz_kp eq_refl eq_refl)
    as (d0 & ops0 & c0 & E & X & XZ & K & L & Hh).
  assert (ER0 : scz_R0 = Some (c0, mkWorld d0 [] [])) by (unfold scz_R0; rewrite E; reflexivity).
  rewrite ER0. cbn [w_disk w_journal].
  destruct scz_fc_ok as [Hrd Hcp].
  split; [exact X|]. split; [apply XZ|]. split; [exact Hh|]. split; [exact Hrd|]. split; [exact Hcp|].
  destruct (core_apply_proof scz (Some true) scz_fc c0 (mkWorld d0 [] [])) as [[c' w'] r] eqn:Happ.
  destruct (scz_fc_flush_run d0 ops0 c0 c' w' r E Happ) as [-> Hlen].
  exists c', w', (rev (w_journal w')).
  split; [reflexivity|]. split; [rewrite rev_involutive, app_nil_r; reflexivity|]. split; [rewrite rev_length; exact Hlen|].
  assert (Hj : w_journal w' = rev (rev (w_journal w')) ++ []) by (rewrite rev_involutive, app_nil_r; reflexivity).
  destruct (apply_torn_recovers_hyg scz scz_crc_ok scz_hash32 scz_nonblank scz_hashbytes sc_blocks sc_writer_fits
              (Some true) scz_fc c0 d0 [] [] _ c' w' _ XZ Hh Hrd Happ Hj) as [T|[C|F]];
    [left|right; left; exact C|right; right; exact F].
  intros k s off data t Hk Ht. destruct (T k s off data t Hk Ht) as (dk & dkt & Ak & At & Q).
  exists dk, dkt. split; [exact Ak|]. split; [exact At|]. rewrite Hcp, L in Q. exact Q.
Qed.

(* A history from creation with torn crashes of every kind inside proof applications:
   - RTornApply (Some true) scz_fc 4 17: first contact, the second tree node write (record 8, at byte 320 of a store of
     160 bytes) torn inside its hash: the tree store ends in a partial record; block 4 is held, the length is 6;
   - RTornApply (Some true) (scz_pb 1) 2 5: the bitfield page write torn at byte 5: block 1 held;
   - RTornApply None (scz_pb 5) 0 5: the data write has 1 byte only: a clean cut before it: not held;
   - RTornApply (Some false) (scz_pb 5) 1 30: the entry write torn (30 of 47 bytes): not held;
   - an accepted application with a forced flush (the slots are hygienic again);
   - RTornApply (Some true) (scz_pb 0) 8 2: the header slot write torn after 2 bytes, inside the CRC field: held
     (the old header stays, the entry is replayed);
   - a clean crash, applications without and with a flush, reopens. *)
Definition scz_history : list rzop :=
  [RZInfo; RTornApply (Some true) scz_fc 4 17; RZHas 4; RZGet 4; RZInfo;
   RTornApply (Some true) (scz_pb 1) 2 5; RZHas 1; RZGet 1;
   RTornApply None (scz_pb 5) 0 5; RZHas 5;
   RTornApply (Some false) (scz_pb 5) 1 30; RZHas 5;
   RZApply (Some true) (scz_pb 5); RZGet 5;
   RTornApply (Some true) (scz_pb 0) 8 2; RZHas 0; RZGet 0; RZReopen;
   RZCrashApply (Some true) (scz_pb 2) 1; RZHas 2;
   RZApply None (scz_pb 2); RZApply (Some true) (scz_pb 3); RZReopen; RZInfo; RZGet 3; RZGet 2].

Example scz_history_computed :
  match scz_R0 with
  | Some (c, w) =>
      rz_run scz scz_history c w =
      [ROInfo (mkInfo 0 0 0 0 false); ROCrash (Ok tt); ROHas true; ROGet (Ok (Some [9; 10]));
       ROInfo (mkInfo 6 11 0 0 false);
       ROCrash (Ok tt); ROHas true; ROGet (Ok (Some []));
       ROCrash (Ok tt); ROHas false; ROCrash (Ok tt); ROHas false;
       ROApply (Ok true); ROGet (Ok (Some [11]));
       ROCrash (Ok tt); ROHas true; ROGet (Ok (Some [1; 2; 3])); ROReopen (Ok tt);
       ROCrash (Ok tt); ROHas false;
       ROApply (Ok true); ROApply (Ok true); ROReopen (Ok tt);
       ROInfo (mkInfo 6 11 6 0 false); ROGet (Ok (Some [5; 6; 7; 8])); ROGet (Ok (Some [4]))]
  | None => False
  end.
Proof. vm_compute. reflexivity. Qed.

Lemma scz_history_ok : Forall rzop_ok scz_history.
Proof.
  destruct scz_fc_ok as [Hrd _].
  pose proof scz_pb_shape as S.
  inversion S as [|? ? S0 S']; subst. inversion S' as [|? ? S1 S'']; subst. inversion S'' as [|? ? S2 S3']; subst.
  inversion S3' as [|? ? S3 S5']; subst. inversion S5' as [|? ? S5 _]; subst.
  pose proof (shape_rd_ok _ S0). pose proof (shape_rd_ok _ S1). pose proof (shape_rd_ok _ S2).
  pose proof (shape_rd_ok _ S3). pose proof (shape_rd_ok _ S5).
  unfold scz_history.
  repeat (apply Forall_cons; [cbn [rzop_ok RTornApply RZCrashApply]; first [exact I|assumption]|]). apply Forall_nil.
Qed.

(* the hygiene-tracking side condition holds along the run: the first tear is free, the next three tear after the
   CRC field or are clean cuts, the accepted forced flush makes the tear of 2 bytes of the header slot write free *)
Lemma scz_history_tears c w : scz_R0 = Some (c, w) -> rz_tears scz false scz_history c w.
Proof.
  intros E. vm_compute in E. injection E as <- <-.
  vm_compute. repeat split; try (left; reflexivity); right; repeat constructor.
Qed.

(* all hypotheses of fresh_replica_torn_history hold for this history *)
Example scz_history_theorem_applies :
  Forall rzop_ok scz_history /\ length scz_history = 26%nat /\
  match scz_R0 with
  | Some (c, w) =>
      rz_tears scz false scz_history c w /\
      (rz_ok sc_blocks (fun _ => false) 0 scz_history (rz_run scz scz_history c w) \/
       escapes scz sc_blocks sc_key)
  | None => False
  end.
Proof.
  split; [exact scz_history_ok|]. split; [reflexivity|].
  destruct (fresh_replica_torn_history scz sc_blocks scz_crc_ok scz_hash32 scz_nonblank scz_hashbytes sc_writer_fits
              scz_kp scz_history eq_refl eq_refl scz_history_ok) as (d0 & ops0 & c0 & E & Hth).
  assert (ER0 : scz_R0 = Some (c0, mkWorld d0 [] [])) by (unfold scz_R0; rewrite E; reflexivity).
  rewrite ER0. pose proof (scz_history_tears _ _ ER0) as Ht. split; [exact Ht|]. exact (Hth Ht).
Qed.

(* States of RDInvZ that ReplicaDisk1.RDInv does not describe, reached by the theorems: first contact with a flush
   on the fresh replica, torn (a) inside the second tree node write (k = 4, t = 17): the tree store is 377 bytes
   long, it ends in a partial record; (b) inside the bitfield page write (k = 2, t = 5): the bitfield store is 5
   bytes long.  Both reopen to a replica that holds block 4 with length 6. *)
Lemma scz_torn_cut_computed d0 ops c c' w' r k t o dk dkt :
  core_open scz (Some scz_kp) false disk_empty = (d0, ops, Ok c) ->
  core_apply_proof scz (Some true) scz_fc c (mkWorld d0 [] []) = (c', w', r) ->
  (k, t) = (4, 17)%nat \/ (k, t) = (2, 5)%nat ->
  nth_error (rev (w_journal w')) k = Some o ->
  apply_sops d0 (firstn k (rev (w_journal w'))) = Some dk -> apply_sop dk (tear o t) = Some dkt ->
  (t < wlen o)%nat /\ is_slot_write o = false /\ sop_store o <> Oplog /\ t_length (c_tree c') = 6 /\
  (f_len (d_tree dkt), f_len (d_bitfield dkt)) = (if (k =? 4)%nat then (377, 4096) else (0, 5)).
Proof.
  intros H1 H3 Hkt Hn Ak At. vm_compute in H1. injection H1 as <- _ <-.
  vm_compute in H3. injection H3 as <- <- <-.
  destruct Hkt as [Ek|Ek]; injection Ek as -> ->.
  - vm_compute in Hn. injection Hn as <-. vm_compute in Ak. injection Ak as <-. vm_compute in At. injection At as <-.
    vm_compute. repeat split; try reflexivity; try discriminate. repeat constructor.
  - vm_compute in Hn. injection Hn as <-. vm_compute in Ak. injection Ak as <-. vm_compute in At. injection At as <-.
    vm_compute. repeat split; try reflexivity; try discriminate. repeat constructor.
Qed.

Lemma scz_fc_block : match p_block scz_fc with Some b => db_index b = 4 | None => False end.
Proof. vm_compute. reflexivity. Qed.

Example scz_torn_states_met :
  forall k t, (k, t) = (4, 17)%nat \/ (k, t) = (2, 5)%nat ->
  (exists c d H,
     RDInvZ scz sc_blocks c d H /\ H 4 = true /\ t_length (c_tree c) = 6 /\
     (f_len (d_tree d), f_len (d_bitfield d)) = (if (k =? 4)%nat then (377, 4096) else (0, 5)) /\
     (forall H', ~ RDInv scz sc_blocks c d H')) \/
  some_collision scz \/ forged_signature scz sc_blocks sc_key.
Proof.
  intros k t Hkt.
  destruct (RDInvZ_fresh scz sc_blocks scz_crc_ok scz_hash32 scz_nonblank scz_hashbytes scz_kp eq_refl eq_refl)
    as (d0 & ops0 & c0 & E & X & XZ & K & L & Hh).
  destruct scz_fc_ok as [Hrd Hcp].
  destruct (core_apply_proof scz (Some true) scz_fc c0 (mkWorld d0 [] [])) as [[c' w'] r] eqn:Happ.
  destruct (scz_fc_flush_run d0 ops0 c0 c' w' r E Happ) as [-> Hlen].
  destruct (apply_Z scz scz_crc_ok scz_hash32 scz_nonblank scz_hashbytes sc_blocks sc_writer_fits
              (Some true) scz_fc c0 d0 [] [] _ c' w' XZ Hrd Happ) as [Hz|[C|F]];
    [left|right; left; exact C|right; right; rewrite K in F; exact F].
  cbv zeta in Hz. destruct Hz as (delta & Hj & _ & _ & _ & _ & _ & _ & _ & Cc & T).
  assert (Ed : rev (w_journal w') = delta) by (rewrite Hj, app_nil_r; apply rev_involutive).
  assert (Hk9 : (k < length delta)%nat).
  { rewrite <- Ed, rev_length, Hlen. destruct Hkt as [Ek|Ek]; injection Ek as -> ->; lia. }
  destruct (nth_error delta k) as [o|] eqn:Ho; [|apply nth_error_None in Ho; lia].
  destruct (Cc k) as (dk & Ak & _).
  destruct (apply_sop dk (tear o t)) as [dkt|] eqn:At.
  2:{ exfalso. destruct (Cc (S k)) as (dk1 & Ak1 & _).
      rewrite (firstn_S_nth_error _ _ _ Ho), CoreFacts.apply_sops_app, Ak in Ak1. cbn [apply_sops] in Ak1.
      destruct o; cbn [tear] in At; first [rewrite At in Ak1; discriminate Ak1|cbn [apply_sop] in At; discriminate At]. }
  rewrite <- Ed in Ho, Ak.
  destruct (scz_torn_cut_computed d0 ops0 c0 c' w' _ k t o dk dkt E Happ Hkt Ho Ak At) as (Ht & Hns & Hst & Hl6 & Hlen2).
  rewrite Ed in Ho, Ak.
  destruct (T k o t Ho Ht) as (dk' & dkt' & Ak' & At' & Q).
  rewrite Ak in Ak'. injection Ak' as <-. rewrite At in At'. injection At' as <-.
  assert (Hsafe : tear_safe scz dk o t).
  { destruct o as [s off data| |]; try exact I. destruct s; try exact I. exfalso. apply Hst. reflexivity. }
  destruct (Q Hsafe) as [R|[Sl _]]; [|rewrite Hns in Sl; discriminate Sl].
  assert (Ek1 : (k <=? commit_point scz_fc)%nat = false).
  { rewrite Hcp. destruct Hkt as [Ek|Ek]; injection Ek as -> ->; reflexivity. }
  rewrite Ek1 in R. destruct R as (c'' & d'' & rops & Eo & X'' & L'' & _ & _ & Et'' & _ & Eb'' & _).
  exists c'', d'', (hold (fun _ => false) (p_block scz_fc)).
  split; [exact X''|].
  split. { pose proof scz_fc_block as C3. unfold hold. destruct (p_block scz_fc) as [b|]; [|contradiction]. rewrite C3. reflexivity. }
  split; [rewrite L''; exact Hl6|].
  split; [rewrite Et'', Eb''; exact Hlen2|].
  intros H' XR. rewrite <- Et'', <- Eb'' in Hlen2.
  destruct Hkt as [Ek|Ek]; injection Ek as -> ->; cbn [Nat.eqb] in Hlen2; injection Hlen2 as Clt Clb.
  - destruct XR as ((_ & _ & _ & _ & _ & (Hal & _) & _) & _). rewrite Clt in Hal. vm_compute in Hal. discriminate Hal.
  - destruct XR as (_ & _ & _ & _ & _ & s0 & s1 & body & st0 & st1 & hf & l & kf & _ & _ & _ & _ & _ & _ & _ & _ & _ & (Hm & _) & _).
    rewrite Clb in Hm. vm_compute in Hm. discriminate Hm.
Qed.

Print Assumptions apply_torn_recovers.
Print Assumptions apply_torn_recovers_from_RDInv.
Print Assumptions apply_torn_recovers_plain.
Print Assumptions apply_torn_recovers_hyg.
Print Assumptions rz_run_of_rd_run.
Print Assumptions rcut_outcome.
Print Assumptions replica_torn_history.
Print Assumptions rz_tears_safe.
Print Assumptions replica_torn_history_tears.
Print Assumptions RDInvZ_fresh.
Print Assumptions fresh_replica_torn_history.
Print Assumptions fresh_replica_torn_history_safe.
Print Assumptions scz_every_tear_of_first_contact.
Print Assumptions scz_torn_theorem_applies.
Print Assumptions scz_history_computed.
Print Assumptions scz_history_theorem_applies.
Print Assumptions scz_torn_states_met.

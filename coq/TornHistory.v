(* TornHistory.v — C07, history level, for writers WITH clears: histories whose crashes may tear the last write.
   Operations: those of CrashClear3 (append/batch, clear, get, has, info, reopen, clean crash inside an append or
   a clear after k operations of its journal) plus
     ZTornAppend f batch k t / ZTornClear f s e k t = the call is cut after k whole operations of its journal and the
       first t bytes of the k-th one (when that one is a write of more than t bytes; otherwise a clean cut at k),
       then the storage is opened.
   Every observation is that of the model "list of blocks + set of cleared indices" of CrashClear3, where a call
   that crashed — cleanly or with a torn last write — took effect completely or not at all (append: k >= 2, clear:
   k >= 1: the oplog entry write is the commit point; a torn entry write is ignored by open).
   Escape clauses, exactly those of TornClear's per-operation theorems: a torn HEADER SLOT write may exhibit a CRC-32
   collision; a tear of at most 4 bytes over a slot that was already invalid needs that slot to be dead —
   [zrun_safe] states this on the run (semantic side condition), [ztears_ok] is a syntactic sufficient condition
   (a torn crash is free when it is the first of the history or the first since a completed call with a forced
   flush, otherwise t > 4); it is discharged through slot hygiene [hyg], which every step propagates. *)
From HC Require Import Base NMap Codec CodecFacts Crypto FlatTree Storage Bitfield Oplog Merkle Core.
From HC Require Import FlatTreeFacts StorageFacts BitfieldFacts OplogFacts TreeRef OffsetFacts CoreFacts Crash Refine.
From HC Require Import ClearRefine Reopen ContigBridge Unified1 Unified2 CrashCore1 CrashCore2 CrashCore3.
From HC Require Import TornCoreA TornCoreB.
From HC Require TornCore.
From HC Require Import CrashClear1 CrashClear2 CrashClear3 TornClear.
From Coq Require Import FMapPositive ZifyN ZifyNat ZifyBool.
Ltac Zify.zify_post_hook ::= Z.div_mod_to_equations.
Arguments N.add : simpl never.
Arguments N.sub : simpl never.
Arguments N.mul : simpl never.
Arguments N.div : simpl never.
Arguments N.modulo : simpl never.
Arguments N.pow : simpl never.
Arguments N.eqb : simpl never.
Arguments N.ltb : simpl never.
Arguments N.leb : simpl never.
Arguments N.max : simpl never.
Arguments N.min : simpl never.
Arguments N.of_nat : simpl never.
Arguments N.to_nat : simpl never.
Arguments N.testbit : simpl never.

(* ot = None: a clean cut after k operations; ot = Some t: the k-th operation torn at byte t *)
Inductive zop :=
| ZAppend (f : option bool) (batch : list bytes)
| ZClear (f : option bool) (start end_ : N)
| ZGet (i : N)
| ZHas (i : N)
| ZInfo
| ZReopen
| ZCutAppend (f : option bool) (batch : list bytes) (k : nat) (ot : option nat)
| ZCutClear (f : option bool) (start end_ : N) (k : nat) (ot : option nat).

Definition ZCrashAppend f batch k := ZCutAppend f batch k None.
Definition ZCrashClear f s e k := ZCutClear f s e k None.
Definition ZTornAppend f batch k (t : nat) := ZCutAppend f batch k (Some t).
Definition ZTornClear f s e k (t : nat) := ZCutClear f s e k (Some t).

(* CrashClear3's operations are the torn-free ones *)
Definition zop_of_yop (o : yop) : zop :=
  match o with
  | YAppend f b => ZAppend f b
  | YClear f s e => ZClear f s e
  | YGet i => ZGet i
  | YHas i => ZHas i
  | YInfo => ZInfo
  | YReopen => ZReopen
  | YCrashAppend f b k => ZCrashAppend f b k
  | YCrashClear f s e k => ZCrashClear f s e k
  end.

(* the model: CrashClear3.yspec, a torn call counted as the clean cut at the same k *)
Fixpoint zspec (ops : list zop) (bs : list bytes) (cl : N -> bool) : list yobs :=
  let n := N.of_nat (length bs) in
  match ops with
  | [] => []
  | ZAppend _ batch :: rest =>
      YOAppend (Ok (N.of_nat (length (bs ++ batch)), sumN (map len (bs ++ batch))))
        :: zspec rest (bs ++ batch) (cl_mask cl n)
  | ZClear _ s e :: rest =>
      YOClear (Ok tt) :: zspec rest bs (if e <=? s then cl else cl_clear cl s e)
  | ZGet i :: rest =>
      YOGet (Ok (if held n cl i then Some (nth (N.to_nat i) bs []) else None)) :: zspec rest bs cl
  | ZHas i :: rest => YOHas (held n cl i) :: zspec rest bs cl
  | ZInfo :: rest =>
      YOInfo (mkInfo n (sumN (map len bs)) (spec_contig bs cl) 0 true) :: zspec rest bs cl
  | ZReopen :: rest => YOReopen (Ok tt) :: zspec rest bs cl
  | ZCutAppend _ batch k _ :: rest =>
      YOCrash (Ok tt) ::
      (if append_took_effect k then zspec rest (bs ++ batch) (cl_mask cl n) else zspec rest bs cl)
  | ZCutClear _ s e k _ :: rest =>
      YOCrash (Ok tt) ::
      zspec rest bs (if (e <=? s) || negb (clear_took_effect k) then cl else cl_clear cl s e)
  end.

Lemma zspec_of_yspec ops : forall bs cl, zspec (map zop_of_yop ops) bs cl = yspec ops bs cl.
Proof.
  induction ops as [|op ops IH]; intros bs cl; [reflexivity|].
  destruct op; cbn [map zop_of_yop zspec yspec ZCrashAppend ZCrashClear]; rewrite ?IH; reflexivity.
Qed.

Fixpoint zappended (ops : list zop) : list bytes :=
  match ops with
  | [] => []
  | ZAppend _ batch :: rest => batch ++ zappended rest
  | ZCutAppend _ batch _ _ :: rest => batch ++ zappended rest
  | _ :: rest => zappended rest
  end.

(* every non-empty clear (crashed or not) starts below the current length n and its end is a u64 *)
Fixpoint wf_z (ops : list zop) (n : N) : Prop :=
  match ops with
  | [] => True
  | ZAppend _ batch :: rest => wf_z rest (n + N.of_nat (length batch))
  | ZClear _ s e :: rest => (e <= s \/ (s < n /\ e <= u64_max)) /\ wf_z rest n
  | ZCutAppend _ batch k _ :: rest =>
      wf_z rest (if append_took_effect k then n + N.of_nat (length batch) else n)
  | ZCutClear _ s e _ _ :: rest => (e <= s \/ (s < n /\ e <= u64_max)) /\ wf_z rest n
  | _ :: rest => wf_z rest n
  end.

(* the syntactic side condition.  seen = a torn crash happened and no call with a forced flush completed since
   (such a call — an append of a non-empty batch or a non-empty clear with f = Some true — rewrites the slot a
   torn header write may have damaged).  A torn crash is free when seen = false; otherwise it must tear after the
   CRC field *)
Fixpoint ztears_ok (seen : bool) (ops : list zop) : Prop :=
  match ops with
  | [] => True
  | ZCutAppend _ _ _ (Some t) :: rest => (seen = false \/ (4 < t)%nat) /\ ztears_ok true rest
  | ZCutClear _ _ _ _ (Some t) :: rest => (seen = false \/ (4 < t)%nat) /\ ztears_ok true rest
  | ZAppend (Some true) (_ :: _) :: rest => ztears_ok false rest
  | ZClear (Some true) s e :: rest => ztears_ok (if s <? e then false else seen) rest
  | _ :: rest => ztears_ok seen rest
  end.

Section ZRun.
  Variable cr : crypto.

  (* the crash: w = the world before the call, w' = the world after the complete call; the disk is the old disk
     after the part of the journal of the call that reached the store (TornCore.crash_ops: k whole operations,
     then possibly the first t bytes of the k-th); memory and events are lost; core_open runs on that disk *)
  Definition cut_reopen (w w' : world) (k : nat) (ot : option nat) (cont : core -> world -> list yobs) : list yobs :=
    let cut := TornCore.crash_ops (journal_delta (w_journal w) (w_journal w')) k ot in
    match apply_sops (w_disk w) cut with
    | Some dk =>
        let '(d', sops, ro) := core_open cr None true dk in
        YOCrash (res_unit ro) ::
        (match ro with
         | Ok c'' => cont c'' (mkWorld d' (rev sops ++ rev cut ++ w_journal w) (w_events w))
         | _ => []
         end)
    | None => [YOCrash (Err InvalidOperation)]
    end.

  Fixpoint zrun (ops : list zop) (c : core) (w : world) : list yobs :=
    match ops with
    | [] => []
    | ZAppend f batch :: rest =>
        let '(c', w', r) := core_append cr f batch c w in
        YOAppend r :: (match r with Ok _ => zrun rest c' w' | _ => [] end)
    | ZClear f s e :: rest =>
        let '(c', w', r) := core_clear cr f s e c w in
        YOClear r :: (match r with Ok _ => zrun rest c' w' | _ => [] end)
    | ZGet i :: rest =>
        let '(c', w', r) := core_get i c w in YOGet r :: zrun rest c' w'
    | ZHas i :: rest => YOHas (core_has c i) :: zrun rest c w
    | ZInfo :: rest => YOInfo (core_info c) :: zrun rest c w
    | ZReopen :: rest =>
        let '(d', sops, r) := core_open cr None true (w_disk w) in
        YOReopen (res_unit r) ::
        (match r with
         | Ok c' => zrun rest c' (mkWorld d' (rev sops ++ w_journal w) (w_events w))
         | _ => []
         end)
    | ZCutAppend f batch k ot :: rest =>
        let '(c', w', r) := core_append cr f batch c w in
        match r with
        | Ok _ => cut_reopen w w' k ot (zrun rest)
        | _ => [YOAppend r]     (* the append fails by itself (30-bit frame limit): as for ZAppend *)
        end
    | ZCutClear f s e k ot :: rest =>
        let '(c', w', r) := core_clear cr f s e c w in
        match r with
        | Ok _ => cut_reopen w w' k ot (zrun rest)
        | _ => [YOClear r]
        end
    end.

  (* the side conditions of the torn writes of a run (TornCore.crash_safe: tear_safe on the disk before the tear) *)
  Definition cut_side (w w' : world) (k : nat) (ot : option nat) (K : core -> world -> Prop) : Prop :=
    let delta := journal_delta (w_journal w) (w_journal w') in
    let cut := TornCore.crash_ops delta k ot in
    TornCore.crash_safe cr (w_disk w) delta k ot /\
    match apply_sops (w_disk w) cut with
    | Some dk =>
        let '(d', sops, ro) := core_open cr None true dk in
        match ro with
        | Ok c'' => K c'' (mkWorld d' (rev sops ++ rev cut ++ w_journal w) (w_events w))
        | _ => True
        end
    | None => True
    end.

  Fixpoint zrun_safe (ops : list zop) (c : core) (w : world) : Prop :=
    match ops with
    | [] => True
    | ZAppend f batch :: rest =>
        let '(c', w', r) := core_append cr f batch c w in
        match r with Ok _ => zrun_safe rest c' w' | _ => True end
    | ZClear f s e :: rest =>
        let '(c', w', r) := core_clear cr f s e c w in
        match r with Ok _ => zrun_safe rest c' w' | _ => True end
    | ZGet i :: rest => let '(c', w', r) := core_get i c w in zrun_safe rest c' w'
    | ZHas i :: rest => zrun_safe rest c w
    | ZInfo :: rest => zrun_safe rest c w
    | ZReopen :: rest =>
        let '(d', sops, r) := core_open cr None true (w_disk w) in
        match r with
        | Ok c' => zrun_safe rest c' (mkWorld d' (rev sops ++ w_journal w) (w_events w))
        | _ => True
        end
    | ZCutAppend f batch k ot :: rest =>
        let '(c', w', r) := core_append cr f batch c w in
        match r with Ok _ => cut_side w w' k ot (zrun_safe rest) | _ => True end
    | ZCutClear f s e k ot :: rest =>
        let '(c', w', r) := core_clear cr f s e c w in
        match r with Ok _ => cut_side w w' k ot (zrun_safe rest) | _ => True end
    end.

  (* on torn-free histories the run is CrashClear3's *)
  Lemma crash_ops_clean delta k : TornCore.crash_ops delta k None = firstn k delta.
  Proof. unfold TornCore.crash_ops. apply app_nil_r. Qed.

  Lemma zrun_of_yrun ops : forall c w, zrun (map zop_of_yop ops) c w = yrun cr ops c w.
  Proof.
    induction ops as [|op ops IH]; intros c w; [reflexivity|].
    destruct op as [f batch|f s e|i|i| | |f batch k|f s e k];
      cbn [map zop_of_yop zrun yrun ZCrashAppend ZCrashClear].
    - destruct (core_append cr f batch c w) as [[c' w'] r]. destruct r; try reflexivity. rewrite IH. reflexivity.
    - destruct (core_clear cr f s e c w) as [[c' w'] r]. destruct r; try reflexivity. rewrite IH. reflexivity.
    - destruct (core_get i c w) as [[c' w'] r]. rewrite IH. reflexivity.
    - rewrite IH. reflexivity.
    - rewrite IH. reflexivity.
    - destruct (core_open cr None true (w_disk w)) as [[d' sops] r]. destruct r; try reflexivity. rewrite IH. reflexivity.
    - destruct (core_append cr f batch c w) as [[c' w'] r]. destruct r; try reflexivity.
      unfold cut_reopen, crash_reopen. rewrite crash_ops_clean.
      destruct (apply_sops (w_disk w) _); [|reflexivity].
      destruct (core_open cr None true d) as [[d' sops] ro]. destruct ro; try reflexivity.
      f_equal. generalize (mkWorld d' (rev sops ++ rev (firstn k (journal_delta (w_journal w) (w_journal w'))) ++ w_journal w) (w_events w)).
      intros w0. apply IH.
    - destruct (core_clear cr f s e c w) as [[c' w'] r]. destruct r; try reflexivity.
      unfold cut_reopen, crash_reopen. rewrite crash_ops_clean.
      destruct (apply_sops (w_disk w) _); [|reflexivity].
      destruct (core_open cr None true d) as [[d' sops] ro]. destruct ro; try reflexivity.
      f_equal. generalize (mkWorld d' (rev sops ++ rev (firstn k (journal_delta (w_journal w) (w_journal w'))) ++ w_journal w) (w_events w)).
      intros w0. apply IH.
  Qed.
End ZRun.

(* ====================================================================================== *)
(* Tests on the crypto instance with a real CRC-32                                         *)
(* ====================================================================================== *)

Definition zobs_all (n : nat) : list zop :=
  ZInfo :: flat_map (fun i => [ZGet i; ZHas i]) (map N.of_nat (seq 0 n)).

Definition zcheck (ops : list zop) : Prop :=
  match core_open zcr (Some toy_keypair) false disk_empty with
  | (d0, _, Ok c0) => zrun zcr ops c0 (mkWorld d0 [] []) = zspec ops [] (fun _ => false)
  | _ => False
  end.

(* ====================================================================================== *)
(* The crash step: what a clean or torn cut of a call leaves, for any continuation         *)
(* ====================================================================================== *)

Section CutStep.
  Variable cr : crypto.
  Hypothesis Hcrc : crc_ok cr.
  Hypothesis Hhash32 : forall x, length (cr_hash cr x) = 32%nat.
  Hypothesis Hnonblank : forall x, all_zero (cr_hash cr x) = false.
  Hypothesis Hhashbytes : forall x, bytes_ok (cr_hash cr x) = true.

  Notation panic_obs := (YOAppend (Panic frame_msg)).

  (* the clean and the torn cuts of a journal, the model state reached at cut k being st k *)
  Definition clean_cuts (kp : keypair) (d : disk) (delta : list sop) (st : nat -> list bytes * (N -> bool)) : Prop :=
    forall k, exists dk, apply_sops d (firstn k delta) = Some dk /\
      ZDisk cr kp dk (fst (st k)) (snd (st k)) /\
      (hyg cr (f_content (d_oplog d)) -> hyg cr (f_content (d_oplog dk))).

  Definition torn_cuts (kp : keypair) (d : disk) (delta : list sop) (st : nat -> list bytes * (N -> bool)) : Prop :=
    forall k o t, nth_error delta k = Some o -> (t < wlen o)%nat ->
      exists dk dkt, apply_sops d (firstn k delta) = Some dk /\ apply_sop dk (tear o t) = Some dkt /\
        QAZ cr kp (fst (st k)) (snd (st k)) dk o t dkt.

  (* the disk a crash leaves *)
  Lemma cut_outcome kp d delta st k ot :
    clean_cuts kp d delta st -> torn_cuts kp d delta st ->
    exists dc, apply_sops d (TornCore.crash_ops delta k ot) = Some dc /\
      (TornCore.crash_safe cr d delta k ot ->
         recoversZ cr kp dc (fst (st k)) (snd (st k)) \/ exists t, collision cr t) /\
      (hyg cr (f_content (d_oplog d)) -> TornCore.crash_safe cr d delta k ot) /\
      (ot = None -> hyg cr (f_content (d_oplog d)) -> hyg cr (f_content (d_oplog dc))).
  Proof.
    intros C1 T1.
    assert (Clean : exists dc, apply_sops d (firstn k delta ++ []) = Some dc /\
              recoversZ cr kp dc (fst (st k)) (snd (st k)) /\
              (hyg cr (f_content (d_oplog d)) -> hyg cr (f_content (d_oplog dc)))).
    { destruct (C1 k) as (dk & Ak & Yk & Hk). exists dk. rewrite app_nil_r. split; [exact Ak|].
      split; [apply (ZDisk_recovers cr Hcrc Hhash32 Hnonblank Hhashbytes), Yk|exact Hk]. }
    unfold TornCore.crash_ops, TornCore.crash_safe.
    destruct ot as [t|].
    - destruct (nth_error delta k) as [o|] eqn:En.
      + destruct (Nat.ltb_spec t (wlen o)) as [Lt|Ge].
        * destruct (T1 k o t En Lt) as (dk & dkt & Ak & At & Q). exists dkt.
          split. { rewrite CoreFacts.apply_sops_app, Ak. cbn [apply_sops]. rewrite At. reflexivity. }
          rewrite Ak. split.
          { intros Hs. destruct (Q (Hs Lt)) as [R|[_ Cl]]; [left; exact R|right; exists t; exact Cl]. }
          split; [|intros E; discriminate E].
          intros Hh _. apply hyg_tear_safe.
          destruct (C1 k) as (dk' & Ak' & _ & Hk'). rewrite Ak in Ak'. injection Ak' as <-. apply Hk', Hh.
        * destruct Clean as (dc & Ac & Rc & Hc). exists dc. split; [exact Ac|].
          split; [intros _; left; exact Rc|].
          split; [|intros _; exact Hc].
          intros _. destruct (apply_sops d (firstn k delta)); [|exact I]. intros Hlt. lia.
      + destruct Clean as (dc & Ac & Rc & Hc). exists dc. split; [exact Ac|].
        split; [intros _; left; exact Rc|]. split; [intros _; exact I|intros _; exact Hc].
    - destruct Clean as (dc & Ac & Rc & Hc). exists dc. split; [exact Ac|].
      split; [intros _; left; exact Rc|]. split; [intros _; exact I|intros _; exact Hc].
  Qed.

  (* one crashing call, for any continuation: the observations *)
  Lemma cut_step kp sk d j ev d' ev' delta st k ot (KO : core -> world -> list yobs) (KS : core -> world -> Prop)
        (spec : list yobs) :
    clean_cuts kp d delta st -> torn_cuts kp d delta st -> kp_secret kp = Some sk ->
    (forall c1 d1 j1, ZInv cr c1 d1 (fst (st k)) (snd (st k)) -> c_keypair c1 = kp -> KS c1 (mkWorld d1 j1 ev) ->
       KO c1 (mkWorld d1 j1 ev) = spec \/
       (exists k0, KO c1 (mkWorld d1 j1 ev) = firstn k0 spec ++ [panic_obs]) \/
       exists t, collision cr t) ->
    cut_side cr (mkWorld d j ev) (mkWorld d' (rev delta ++ j) ev') k ot KS ->
    cut_reopen cr (mkWorld d j ev) (mkWorld d' (rev delta ++ j) ev') k ot KO = YOCrash (Ok tt) :: spec \/
    (exists k0, cut_reopen cr (mkWorld d j ev) (mkWorld d' (rev delta ++ j) ev') k ot KO =
                firstn k0 (YOCrash (Ok tt) :: spec) ++ [panic_obs]) \/
    exists t, collision cr t.
  Proof.
    intros C1 T1 Hsk IH Hside. unfold cut_reopen, cut_side in *.
    cbn [w_journal w_disk w_events] in *. rewrite journal_delta_spec in *.
    destruct (cut_outcome kp d delta st k ot C1 T1) as (dc & Ac & R & _ & _).
    rewrite Ac in *. destruct Hside as [Hsafe Hrest].
    destruct (R Hsafe) as [(ck & dk' & ops1 & Eo & Xk & Kk & _)|Cl]; [|right; right; exact Cl].
    rewrite Eo in *. cbn [res_unit].
    destruct (IH ck dk' (rev ops1 ++ rev (TornCore.crash_ops delta k ot) ++ j) Xk Kk Hrest) as [E1|[[k0 E1]|Cl]].
    - left. rewrite E1. reflexivity.
    - right. left. exists (S k0). rewrite E1. reflexivity.
    - right. right. exact Cl.
  Qed.

  (* one crashing call: the side conditions, from hygiene *)
  Lemma cut_side_step kp d j ev d' ev' delta st k ot (KS : core -> world -> Prop) (seen : bool) :
    clean_cuts kp d delta st -> torn_cuts kp d delta st ->
    (seen = false -> hyg cr (f_content (d_oplog d))) ->
    (ot = None \/ seen = false \/ exists t, ot = Some t /\ (4 < t)%nat) ->
    (forall c1 d1 j1, ZInv cr c1 d1 (fst (st k)) (snd (st k)) -> c_keypair c1 = kp ->
       ((match ot with None => seen | Some _ => true end) = false -> hyg cr (f_content (d_oplog d1))) ->
       KS c1 (mkWorld d1 j1 ev) \/ exists t, collision cr t) ->
    cut_side cr (mkWorld d j ev) (mkWorld d' (rev delta ++ j) ev') k ot KS \/ exists t, collision cr t.
  Proof.
    intros C1 T1 Hh Hot IH. unfold cut_side.
    cbn [w_journal w_disk w_events]. rewrite journal_delta_spec.
    destruct (cut_outcome kp d delta st k ot C1 T1) as (dc & Ac & R & S & Hc).
    rewrite Ac.
    assert (Hsafe : TornCore.crash_safe cr d delta k ot).
    { destruct Hot as [-> |[-> |(t & -> & Ht)]].
      - unfold TornCore.crash_safe. exact I.
      - apply S, Hh. reflexivity.
      - unfold TornCore.crash_safe. destruct (nth_error delta k); [|exact I].
        destruct (apply_sops d (firstn k delta)); [|exact I]. intros _. apply late_tear_safe, Ht. }
    destruct (R Hsafe) as [(ck & dk' & ops1 & Eo & Xk & Kk & _ & _ & _ & _ & Hhyg)|Cl]; [|right; exact Cl].
    rewrite Eo.
    destruct (IH ck dk' (rev ops1 ++ rev (TornCore.crash_ops delta k ot) ++ j) Xk Kk) as [Hk|Cl].
    - intros Hseen. apply Hhyg. destruct ot as [t|]; [discriminate Hseen|]. apply (Hc eq_refl), Hh, Hseen.
    - left. split; [exact Hsafe|exact Hk].
    - right. exact Cl.
  Qed.
End CutStep.

(* ====================================================================================== *)
(* Histories                                                                               *)
(* ====================================================================================== *)

(* the model state at cut k of an append / of a (non-empty) clear *)
Definition ast (bs : list bytes) (cl : N -> bool) (batch : list bytes) (k : nat) : list bytes * (N -> bool) :=
  if (k <? 2)%nat then (bs, cl) else (bs ++ batch, cl_mask cl (N.of_nat (length bs))).
Definition cst (bs : list bytes) (cl : N -> bool) (s e : N) (k : nat) : list bytes * (N -> bool) :=
  (bs, if (k <? 1)%nat then cl else cl_clear cl s e).

Section HistoryZ.
  Variable cr : crypto.
  Hypothesis Hcrc : crc_ok cr.
  Hypothesis Hhash32 : forall x, length (cr_hash cr x) = 32%nat.
  Hypothesis Hnonblank : forall x, all_zero (cr_hash cr x) = false.
  Hypothesis Hhashbytes : forall x, bytes_ok (cr_hash cr x) = true.
  Hypothesis Hsig64 : forall sk m, length (cr_sign cr sk m) = 64%nat.
  Hypothesis Hsigbytes : forall sk m, bytes_ok (cr_sign cr sk m) = true.

  Notation panic_obs := (YOAppend (Panic frame_msg)).

  (* TornClear.append_Z in the form the crash step uses *)
  Lemma append_cuts f batch c d j ev bs cl sk :
    ZInv cr c d bs cl -> kp_secret (c_keypair c) = Some sk ->
    sumN (map len (bs ++ batch)) <= u64_max ->
    NODE_SIZE * (2 * N.of_nat (length (bs ++ batch))) <= u64_max ->
    (exists w1, core_append cr f batch c (mkWorld d j ev) = (c, w1, Panic frame_msg)) \/
    exists c' d' delta ev',
      core_append cr f batch c (mkWorld d j ev) =
        (c', mkWorld d' (rev delta ++ j) ev',
         Ok (N.of_nat (length (bs ++ batch)), sumN (map len (bs ++ batch)))) /\
      ZInv cr c' d' (bs ++ batch) (cl_mask cl (N.of_nat (length bs))) /\ c_keypair c' = c_keypair c /\
      (f = Some true -> batch <> [] -> hyg cr (f_content (d_oplog d'))) /\
      (hyg cr (f_content (d_oplog d)) -> hyg cr (f_content (d_oplog d'))) /\
      clean_cuts cr (c_keypair c) d delta (ast bs cl batch) /\
      torn_cuts cr (c_keypair c) d delta (ast bs cl batch).
  Proof.
    intros X Hsk Hfit Hidx.
    destruct (append_Z cr Hcrc Hhash32 Hnonblank Hhashbytes Hsig64 Hsigbytes f batch c d j ev bs cl sk X Hsk Hfit Hidx)
      as [(d1 & E & _)|(c1 & d1 & delta & ev1 & E & A & X1 & K1 & Hh1 & C1 & T1)].
    - left. eexists. exact E.
    - right. exists c1, d1, delta, ev1. split; [exact E|]. split; [exact X1|]. split; [exact K1|].
      split; [exact Hh1|]. split.
      { intros Hh. destruct (C1 (length delta)) as (dk & Ak & _ & Hk). rewrite firstn_all, A in Ak.
        injection Ak as <-. apply Hk, Hh. }
      split.
      + intros k. destruct (C1 k) as (dk & Ak & Yk & Hk). exists dk. split; [exact Ak|]. split; [|exact Hk].
        unfold ast. destruct (k <? 2)%nat; exact Yk.
      + intros k o t Hk Ht. destruct (T1 k o t Hk Ht) as (dk & dkt & Ak & At & Q). exists dk, dkt.
        split; [exact Ak|]. split; [exact At|]. unfold ast. destruct (k <? 2)%nat; exact Q.
  Qed.

  Lemma clear_cuts f c d j ev bs cl s e :
    ZInv cr c d bs cl -> s < N.of_nat (length bs) -> s < e -> e <= u64_max ->
    exists c' d' delta,
      core_clear cr f s e c (mkWorld d j ev) = (c', mkWorld d' (rev delta ++ j) ev, Ok tt) /\
      ZInv cr c' d' bs (cl_clear cl s e) /\ c_keypair c' = c_keypair c /\
      (f = Some true -> hyg cr (f_content (d_oplog d'))) /\
      (hyg cr (f_content (d_oplog d)) -> hyg cr (f_content (d_oplog d'))) /\
      clean_cuts cr (c_keypair c) d delta (cst bs cl s e) /\
      torn_cuts cr (c_keypair c) d delta (cst bs cl s e).
  Proof.
    intros X Hs Hse He.
    destruct (clear_Z cr Hcrc Hhash32 Hnonblank Hhashbytes f c d j ev bs cl s e X Hs Hse He)
      as (c1 & d1 & delta & E & A & X1 & K1 & Hh1 & _ & C1 & T1).
    exists c1, d1, delta. split; [exact E|]. split; [exact X1|]. split; [exact K1|]. split; [exact Hh1|].
    split.
    { intros Hh. destruct (C1 (length delta)) as (dk & Ak & _ & Hk). rewrite firstn_all, A in Ak.
      injection Ak as <-. apply Hk, Hh. }
    split; [exact C1|exact T1].
  Qed.

  (* a cut of a call that wrote nothing (a clear of an empty range) *)
  Lemma noop_cuts c d bs cl : ZInv cr c d bs cl ->
    clean_cuts cr (c_keypair c) d [] (fun _ => (bs, cl)) /\ torn_cuts cr (c_keypair c) d [] (fun _ => (bs, cl)).
  Proof.
    intros X. split.
    - intros k. exists d. rewrite firstn_nil. split; [reflexivity|]. split; [|intros Hh; exact Hh].
      apply (ZInv_ZDisk cr c d bs cl X).
    - intros k o t Hk. destruct k; discriminate Hk.
  Qed.

  Lemma obs_cons (o : yobs) r s :
    (r = s \/ (exists k0, r = firstn k0 s ++ [panic_obs]) \/ exists t, collision cr t) ->
    o :: r = o :: s \/ (exists k0, o :: r = firstn k0 (o :: s) ++ [panic_obs]) \/ exists t, collision cr t.
  Proof.
    intros [->|[[k0 ->]|Cl]]; [left; reflexivity|right; left; exists (S k0); reflexivity|right; right; exact Cl].
  Qed.

  Lemma fit_app bs batch rest :
    sumN (map len (bs ++ batch ++ rest)) <= u64_max ->
    sumN (map len (bs ++ batch)) <= u64_max /\ sumN (map len (bs ++ rest)) <= u64_max.
  Proof.
    intros H. pose proof (sum_app3 bs batch rest). rewrite app_assoc, map_app, TreeRef.sumN_app in H.
    rewrite (map_app _ bs rest), TreeRef.sumN_app. rewrite (map_app _ bs batch), TreeRef.sumN_app in *. lia.
  Qed.

  Lemma idx_app (bs batch rest : list bytes) :
    NODE_SIZE * (2 * N.of_nat (length (bs ++ batch ++ rest))) <= u64_max ->
    NODE_SIZE * (2 * N.of_nat (length (bs ++ batch))) <= u64_max /\
    NODE_SIZE * (2 * N.of_nat (length (bs ++ rest))) <= u64_max.
  Proof.
    intros H. rewrite !app_length in *. unfold NODE_SIZE in *. lia.
  Qed.

  (* histories with clean and torn crashes inside appends and clears, from any ZInv state, under the side
     conditions of the run *)
  Theorem torn_clear_history_correct (ops : list zop) : forall c d j ev bs cl sk,
    ZInv cr c d bs cl -> kp_secret (c_keypair c) = Some sk ->
    wf_z ops (N.of_nat (length bs)) ->
    sumN (map len (bs ++ zappended ops)) <= u64_max ->
    NODE_SIZE * (2 * N.of_nat (length (bs ++ zappended ops))) <= u64_max ->
    zrun_safe cr ops c (mkWorld d j ev) ->
    zrun cr ops c (mkWorld d j ev) = zspec ops bs cl \/
    (exists k, zrun cr ops c (mkWorld d j ev) = firstn k (zspec ops bs cl) ++ [panic_obs]) \/
    exists t, collision cr t.
  Proof.
    induction ops as [|op ops IH]; intros c d j ev bs cl sk X Hsk Hwf Hfit Hidx Hsafe.
    - left. reflexivity.
    - pose proof (ZInv_YW cr c d bs cl X) as W.
      destruct op as [f batch|f s e|i|i| | |f batch k ot|f s e k ot]; cbn [zrun zspec zappended wf_z zrun_safe] in *.
      + (* append *)
        destruct (fit_app _ _ _ Hfit) as [Hfit1 _]. destruct (idx_app _ _ _ Hidx) as [Hidx1 _].
        rewrite app_assoc in Hfit, Hidx.
        destruct (append_cuts f batch c d j ev bs cl sk X Hsk Hfit1 Hidx1)
          as [(w1 & E)|(c1 & d1 & delta & ev1 & E & X1 & K1 & _)]; rewrite E in *.
        * right. left. exists 0%nat. reflexivity.
        * rewrite <- K1 in Hsk. apply obs_cons.
          apply (IH c1 d1 (rev delta ++ j) ev1 (bs ++ batch) _ sk X1 Hsk); try assumption.
          rewrite app_length, Nat2N.inj_add. exact Hwf.
      + (* clear *)
        destruct Hwf as [Hse Hwf].
        destruct (N.leb_spec e s) as [L|L].
        * rewrite (clear_noop cr f s e c _ L) in *. apply obs_cons.
          apply (IH c d j ev bs cl sk X Hsk Hwf Hfit Hidx Hsafe).
        * destruct Hse as [Hse|[Hse He]]; [lia|].
          destruct (clear_cuts f c d j ev bs cl s e X Hse L He) as (c1 & d1 & delta & E & X1 & K1 & _).
          rewrite E in *. rewrite <- K1 in Hsk. apply obs_cons.
          apply (IH c1 d1 (rev delta ++ j) ev bs _ sk X1 Hsk Hwf Hfit Hidx Hsafe).
      + rewrite (Y_get cr c d bs cl j ev i W) in *.
        destruct (held (N.of_nat (length bs)) cl i); apply obs_cons.
        * apply (IH c d j ev bs cl sk X Hsk Hwf Hfit Hidx Hsafe).
        * apply (IH c d j (EvGet i :: ev) bs cl sk X Hsk Hwf Hfit Hidx Hsafe).
      + rewrite (Y_has cr c d bs cl i W). apply obs_cons, (IH c d j ev bs cl sk X Hsk Hwf Hfit Hidx Hsafe).
      + rewrite (Y_info cr c d bs cl W), Hsk. apply obs_cons, (IH c d j ev bs cl sk X Hsk Hwf Hfit Hidx Hsafe).
      + (* reopen *)
        destruct (reopen_ZInv cr Hcrc Hhash32 Hnonblank Hhashbytes c d bs cl X) as (c1 & E & X1 & K1 & _).
        cbn [w_disk w_journal w_events] in *. rewrite E in *. cbn [res_unit rev app] in *. rewrite <- K1 in Hsk.
        apply obs_cons, (IH c1 d j ev bs cl sk X1 Hsk Hwf Hfit Hidx Hsafe).
      + (* a cut inside an append *)
        destruct (fit_app _ _ _ Hfit) as [Hfit1 Hfit0]. destruct (idx_app _ _ _ Hidx) as [Hidx1 Hidx0].
        rewrite app_assoc in Hfit, Hidx.
        destruct (append_cuts f batch c d j ev bs cl sk X Hsk Hfit1 Hidx1)
          as [(w1 & E)|(c1 & d1 & delta & ev1 & E & X1 & K1 & _ & _ & C1 & T1)]; rewrite E in *.
        * right. left. exists 0%nat. reflexivity.
        * apply (cut_step cr Hcrc Hhash32 Hnonblank Hhashbytes (c_keypair c) sk d j ev d1 ev1 delta
                   (ast bs cl batch) k ot (zrun cr ops) (zrun_safe cr ops) _ C1 T1 Hsk); [|exact Hsafe].
          intros c2 d2 j2 X2 K2 Hs2. rewrite <- K2 in Hsk.
          unfold ast, append_took_effect in *. destruct (k <? 2)%nat; cbn [fst snd negb] in *.
          -- apply (IH c2 d2 j2 ev bs cl sk X2 Hsk Hwf Hfit0 Hidx0 Hs2).
          -- apply (IH c2 d2 j2 ev (bs ++ batch) _ sk X2 Hsk); try assumption.
             rewrite app_length, Nat2N.inj_add. exact Hwf.
      + (* a cut inside a clear *)
        destruct Hwf as [Hse Hwf].
        destruct (N.leb_spec e s) as [L|L].
        * rewrite (clear_noop cr f s e c _ L) in *. cbn [orb].
          destruct (noop_cuts c d bs cl X) as [C1 T1].
          apply (cut_step cr Hcrc Hhash32 Hnonblank Hhashbytes (c_keypair c) sk d j ev d ev []
                   (fun _ => (bs, cl)) k ot (zrun cr ops) (zrun_safe cr ops) _ C1 T1 Hsk); [|exact Hsafe].
          intros c2 d2 j2 X2 K2 Hs2. rewrite <- K2 in Hsk. cbn [fst snd] in X2.
          apply (IH c2 d2 j2 ev bs cl sk X2 Hsk Hwf Hfit Hidx Hs2).
        * destruct Hse as [Hse|[Hse He]]; [lia|].
          destruct (clear_cuts f c d j ev bs cl s e X Hse L He) as (c1 & d1 & delta & E & X1 & K1 & _ & _ & C1 & T1).
          rewrite E in *. cbn [orb].
          apply (cut_step cr Hcrc Hhash32 Hnonblank Hhashbytes (c_keypair c) sk d j ev d1 ev delta
                   (cst bs cl s e) k ot (zrun cr ops) (zrun_safe cr ops) _ C1 T1 Hsk); [|exact Hsafe].
          intros c2 d2 j2 X2 K2 Hs2. rewrite <- K2 in Hsk.
          unfold cst, clear_took_effect in *. cbn [fst snd] in X2. rewrite Bool.negb_involutive.
          apply (IH c2 d2 j2 ev bs _ sk X2 Hsk Hwf Hfit Hidx Hs2).
  Qed.
End HistoryZ.

(* ====================================================================================== *)
(* The side conditions hold along a history whose header slots start hygienic              *)
(* ====================================================================================== *)

Section TearsOkZ.
  Variable cr : crypto.
  Hypothesis Hcrc : crc_ok cr.
  Hypothesis Hhash32 : forall x, length (cr_hash cr x) = 32%nat.
  Hypothesis Hnonblank : forall x, all_zero (cr_hash cr x) = false.
  Hypothesis Hhashbytes : forall x, bytes_ok (cr_hash cr x) = true.
  Hypothesis Hsig64 : forall sk m, length (cr_sign cr sk m) = 64%nat.
  Hypothesis Hsigbytes : forall sk m, bytes_ok (cr_sign cr sk m) = true.

  Notation panic_obs := (YOAppend (Panic frame_msg)).

  Lemma ot_cases (seen : bool) (ot : option nat) :
    match ot with Some t => seen = false \/ (4 < t)%nat | None => True end ->
    ot = None \/ seen = false \/ exists t, ot = Some t /\ (4 < t)%nat.
  Proof.
    destruct ot as [t|]; [|intros _; left; reflexivity].
    intros [H|H]; [right; left; exact H|right; right; exists t; split; [reflexivity|exact H]].
  Qed.

  (* ztears_ok seen ops, the slots hygienic unless a torn crash was seen: the side conditions of the run hold (or
     a collision is exhibited by a torn header slot write on the way) *)
  Theorem ztears_ok_safe (ops : list zop) : forall seen c d j ev bs cl sk,
    ztears_ok seen ops ->
    ZInv cr c d bs cl -> kp_secret (c_keypair c) = Some sk ->
    wf_z ops (N.of_nat (length bs)) ->
    sumN (map len (bs ++ zappended ops)) <= u64_max ->
    NODE_SIZE * (2 * N.of_nat (length (bs ++ zappended ops))) <= u64_max ->
    (seen = false -> hyg cr (f_content (d_oplog d))) ->
    zrun_safe cr ops c (mkWorld d j ev) \/ exists t, collision cr t.
  Proof.
    induction ops as [|op ops IH]; intros seen c d j ev bs cl sk Hok X Hsk Hwf Hfit Hidx Hh.
    - left. exact I.
    - pose proof (ZInv_YW cr c d bs cl X) as W.
      destruct op as [f batch|f s e|i|i| | |f batch k ot|f s e k ot]; cbn [zappended wf_z zrun_safe] in *.
      + (* append *)
        destruct (fit_app _ _ _ Hfit) as [Hfit1 _]. destruct (idx_app _ _ _ Hidx) as [Hidx1 _].
        rewrite app_assoc in Hfit, Hidx.
        destruct (append_cuts cr Hcrc Hhash32 Hnonblank Hhashbytes Hsig64 Hsigbytes f batch c d j ev bs cl sk X Hsk Hfit1 Hidx1)
          as [(w1 & E)|(c1 & d1 & delta & ev1 & E & X1 & K1 & Hf1 & Hk1 & _)]; rewrite E.
        * left. exact I.
        * rewrite <- K1 in Hsk.
          assert (Hwf' : wf_z ops (N.of_nat (length (bs ++ batch)))).
          { rewrite app_length, Nat2N.inj_add. exact Hwf. }
          assert (Keep : seen = false -> hyg cr (f_content (d_oplog d1))) by (intros Hs; apply Hk1, Hh, Hs).
          destruct f as [[|]|]; [destruct batch as [|b0 rb]|..]; cbn [ztears_ok] in Hok;
            try (apply (IH seen c1 d1 (rev delta ++ j) ev1 _ _ sk Hok X1 Hsk Hwf' Hfit Hidx Keep)).
          apply (IH false c1 d1 (rev delta ++ j) ev1 _ _ sk Hok X1 Hsk Hwf' Hfit Hidx).
          intros _. apply Hf1; [reflexivity|discriminate].
      + (* clear *)
        destruct Hwf as [Hse Hwf].
        destruct (N.leb_spec e s) as [L|L].
        * rewrite (clear_noop cr f s e c _ L).
          apply (IH seen c d j ev bs cl sk); try assumption.
          destruct f as [[|]|]; cbn [ztears_ok] in Hok; try exact Hok.
          destruct (N.ltb_spec s e); [lia|exact Hok].
        * destruct Hse as [Hse|[Hse He]]; [lia|].
          destruct (clear_cuts cr Hcrc Hhash32 Hnonblank Hhashbytes f c d j ev bs cl s e X Hse L He)
            as (c1 & d1 & delta & E & X1 & K1 & Hf1 & Hk1 & _).
          rewrite E. rewrite <- K1 in Hsk.
          assert (Keep : seen = false -> hyg cr (f_content (d_oplog d1))) by (intros Hs; apply Hk1, Hh, Hs).
          destruct f as [[|]|]; cbn [ztears_ok] in Hok;
            try (apply (IH seen c1 d1 (rev delta ++ j) ev _ _ sk Hok X1 Hsk Hwf Hfit Hidx Keep)).
          destruct (N.ltb_spec s e); [|lia].
          apply (IH false c1 d1 (rev delta ++ j) ev _ _ sk Hok X1 Hsk Hwf Hfit Hidx).
          intros _. apply Hf1. reflexivity.
      + rewrite (Y_get cr c d bs cl j ev i W).
        destruct (held (N.of_nat (length bs)) cl i).
        * apply (IH seen c d j ev bs cl sk Hok X Hsk Hwf Hfit Hidx Hh).
        * apply (IH seen c d j (EvGet i :: ev) bs cl sk Hok X Hsk Hwf Hfit Hidx Hh).
      + apply (IH seen c d j ev bs cl sk Hok X Hsk Hwf Hfit Hidx Hh).
      + apply (IH seen c d j ev bs cl sk Hok X Hsk Hwf Hfit Hidx Hh).
      + destruct (reopen_ZInv cr Hcrc Hhash32 Hnonblank Hhashbytes c d bs cl X) as (c1 & E & X1 & K1 & _).
        cbn [w_disk w_journal w_events]. rewrite E. cbn [rev app]. rewrite <- K1 in Hsk.
        apply (IH seen c1 d j ev bs cl sk Hok X1 Hsk Hwf Hfit Hidx Hh).
      + (* a cut inside an append *)
        destruct (fit_app _ _ _ Hfit) as [Hfit1 Hfit0]. destruct (idx_app _ _ _ Hidx) as [Hidx1 Hidx0].
        rewrite app_assoc in Hfit, Hidx.
        assert (Hot : ot = None \/ seen = false \/ exists t, ot = Some t /\ (4 < t)%nat).
        { apply ot_cases. destruct ot; cbn [ztears_ok] in Hok; [apply Hok|exact I]. }
        assert (Hok' : ztears_ok (match ot with None => seen | Some _ => true end) ops).
        { destruct ot; cbn [ztears_ok] in Hok; [apply Hok|exact Hok]. }
        destruct (append_cuts cr Hcrc Hhash32 Hnonblank Hhashbytes Hsig64 Hsigbytes f batch c d j ev bs cl sk X Hsk Hfit1 Hidx1)
          as [(w1 & E)|(c1 & d1 & delta & ev1 & E & X1 & K1 & _ & _ & C1 & T1)]; rewrite E.
        * left. exact I.
        * apply (cut_side_step cr Hcrc Hhash32 Hnonblank Hhashbytes (c_keypair c) d j ev d1 ev1 delta
                   (ast bs cl batch) k ot (zrun_safe cr ops) seen C1 T1 Hh Hot).
          intros c2 d2 j2 X2 K2 Hh2. rewrite <- K2 in Hsk.
          unfold ast, append_took_effect in *. destruct (k <? 2)%nat; cbn [fst snd negb] in *.
          -- apply (IH _ c2 d2 j2 ev bs cl sk Hok' X2 Hsk Hwf Hfit0 Hidx0 Hh2).
          -- apply (IH _ c2 d2 j2 ev (bs ++ batch) _ sk Hok' X2 Hsk); try assumption.
             rewrite app_length, Nat2N.inj_add. exact Hwf.
      + (* a cut inside a clear *)
        destruct Hwf as [Hse Hwf].
        assert (Hot : ot = None \/ seen = false \/ exists t, ot = Some t /\ (4 < t)%nat).
        { apply ot_cases. destruct ot; cbn [ztears_ok] in Hok; [apply Hok|exact I]. }
        assert (Hok' : ztears_ok (match ot with None => seen | Some _ => true end) ops).
        { destruct ot; cbn [ztears_ok] in Hok; [apply Hok|exact Hok]. }
        destruct (N.leb_spec e s) as [L|L].
        * rewrite (clear_noop cr f s e c _ L).
          destruct (noop_cuts cr c d bs cl X) as [C1 T1].
          apply (cut_side_step cr Hcrc Hhash32 Hnonblank Hhashbytes (c_keypair c) d j ev d ev []
                   (fun _ => (bs, cl)) k ot (zrun_safe cr ops) seen C1 T1 Hh Hot).
          intros c2 d2 j2 X2 K2 Hh2. rewrite <- K2 in Hsk. cbn [fst snd] in X2.
          apply (IH _ c2 d2 j2 ev bs cl sk Hok' X2 Hsk Hwf Hfit Hidx Hh2).
        * destruct Hse as [Hse|[Hse He]]; [lia|].
          destruct (clear_cuts cr Hcrc Hhash32 Hnonblank Hhashbytes f c d j ev bs cl s e X Hse L He)
            as (c1 & d1 & delta & E & X1 & K1 & _ & _ & C1 & T1).
          rewrite E.
          apply (cut_side_step cr Hcrc Hhash32 Hnonblank Hhashbytes (c_keypair c) d j ev d1 ev delta
                   (cst bs cl s e) k ot (zrun_safe cr ops) seen C1 T1 Hh Hot).
          intros c2 d2 j2 X2 K2 Hh2. rewrite <- K2 in Hsk. unfold cst in X2. cbn [fst snd] in X2.
          apply (IH _ c2 d2 j2 ev bs _ sk Hok' X2 Hsk Hwf Hfit Hidx Hh2).
  Qed.

  (* the two together: from any ZInv state whose slots are hygienic (or seen = true: no assumption on the slots,
     every tear after the CRC field until a forced flush completes) *)
  Theorem torn_clear_history_tears_ok ops seen c d j ev bs cl sk :
    ztears_ok seen ops ->
    ZInv cr c d bs cl -> kp_secret (c_keypair c) = Some sk ->
    wf_z ops (N.of_nat (length bs)) ->
    sumN (map len (bs ++ zappended ops)) <= u64_max ->
    NODE_SIZE * (2 * N.of_nat (length (bs ++ zappended ops))) <= u64_max ->
    (seen = false -> hyg cr (f_content (d_oplog d))) ->
    zrun cr ops c (mkWorld d j ev) = zspec ops bs cl \/
    (exists k, zrun cr ops c (mkWorld d j ev) = firstn k (zspec ops bs cl) ++ [panic_obs]) \/
    exists t, collision cr t.
  Proof.
    intros Hok X Hsk Hwf Hfit Hidx Hh.
    destruct (ztears_ok_safe ops seen c d j ev bs cl sk Hok X Hsk Hwf Hfit Hidx Hh) as [Hsafe|Cl];
      [|right; right; exact Cl].
    apply (torn_clear_history_correct cr Hcrc Hhash32 Hnonblank Hhashbytes Hsig64 Hsigbytes ops c d j ev bs cl sk);
      assumption.
  Qed.

  (* ---------- creation ---------- *)

  Theorem ZInv_init kp :
    keypair_ok kp = true ->
    exists d0 ops0 c0,
      core_open cr (Some kp) false disk_empty = (d0, ops0, Ok c0) /\
      ZInv cr c0 d0 [] (fun _ => false) /\ c_keypair c0 = kp /\ hyg cr (f_content (d_oplog d0)).
  Proof.
    intros Hkp.
    destruct (TornCore.YInv_init cr Hcrc Hhash32 Hnonblank Hhashbytes kp Hkp) as (d0 & ops0 & c0 & Ho & Y & K & Hh).
    exists d0, ops0, c0. split; [exact Ho|]. split; [apply TornYInv_ZInv, Y|]. split; [exact K|exact Hh].
  Qed.

  (* from creation, under the side conditions of the run *)
  Theorem fresh_torn_clear_history_safe kp sk ops :
    keypair_ok kp = true -> kp_secret kp = Some sk ->
    wf_z ops 0 ->
    sumN (map len (zappended ops)) <= u64_max ->
    NODE_SIZE * (2 * N.of_nat (length (zappended ops))) <= u64_max ->
    exists d0 ops0 c0,
      core_open cr (Some kp) false disk_empty = (d0, ops0, Ok c0) /\
      (zrun_safe cr ops c0 (mkWorld d0 [] []) ->
       zrun cr ops c0 (mkWorld d0 [] []) = zspec ops [] (fun _ => false) \/
       (exists k, zrun cr ops c0 (mkWorld d0 [] []) = firstn k (zspec ops [] (fun _ => false)) ++ [panic_obs]) \/
       exists t, collision cr t).
  Proof.
    intros Hkp Hsk Hwf Hfit Hidx.
    destruct (ZInv_init kp Hkp) as (d0 & ops0 & c0 & Ho & Z & K & _).
    exists d0, ops0, c0. split; [exact Ho|]. intros Hsafe.
    apply (torn_clear_history_correct cr Hcrc Hhash32 Hnonblank Hhashbytes Hsig64 Hsigbytes ops c0 d0 [] [] []
             (fun _ => false) sk); [exact Z|rewrite K; exact Hsk|exact Hwf|exact Hfit|exact Hidx|exact Hsafe].
  Qed.

  (* from creation, for histories whose torn crashes after the first one (or after the first one since a completed
     forced flush) tear after the CRC field: every observation is the model's, up to the 30-bit frame panic and an
     exhibited CRC-32 collision *)
  Theorem fresh_torn_clear_history_correct kp sk ops :
    keypair_ok kp = true -> kp_secret kp = Some sk ->
    wf_z ops 0 ->
    sumN (map len (zappended ops)) <= u64_max ->
    NODE_SIZE * (2 * N.of_nat (length (zappended ops))) <= u64_max ->
    ztears_ok false ops ->
    exists d0 ops0 c0,
      core_open cr (Some kp) false disk_empty = (d0, ops0, Ok c0) /\
      (zrun cr ops c0 (mkWorld d0 [] []) = zspec ops [] (fun _ => false) \/
       (exists k, zrun cr ops c0 (mkWorld d0 [] []) = firstn k (zspec ops [] (fun _ => false)) ++ [panic_obs]) \/
       exists t, collision cr t).
  Proof.
    intros Hkp Hsk Hwf Hfit Hidx Hok.
    destruct (ZInv_init kp Hkp) as (d0 & ops0 & c0 & Ho & Z & K & Hh).
    exists d0, ops0, c0. split; [exact Ho|].
    apply (torn_clear_history_tears_ok ops false c0 d0 [] [] [] (fun _ => false) sk);
      [exact Hok|exact Z|rewrite K; exact Hsk|exact Hwf|exact Hfit|exact Hidx|intros _; exact Hh].
  Qed.

End TearsOkZ.

(* ====================================================================================== *)
(* Non-vacuity, on the crypto instance with a real CRC-32 (TornCore.crc_cr = TornClear.zcr) *)
(* ====================================================================================== *)

(* A history from creation with torn crashes of every kind inside appends AND clears:
   - ZTornClear (Some true) 3 9 11 3: 5 blocks and the clear [1,3) are pending (no flush yet); the first flush, inside
     a clear; its header slot write (operation 11 of 13) torn after 3 bytes, inside the CRC field, over the never
     written slot: the old header stays, the three entries are replayed: cleared;
   - ZTornClear (Some true) 0 1 0 5: the entry write of a clear (12 bytes) torn at byte 5: not cleared;
   - ZTornAppend (Some true) [[8;9];[10]] 2 5: the bitfield page write torn at byte 5 (the bitfield store is 5 bytes
     long afterwards, with cleared bits in the state): appended;
   - a complete append with a forced flush (the slots are hygienic again);
   - ZTornClear (Some true) 4 70000 3 2: a clear beyond the length whose header slot write is torn after 2 bytes;
   - ZTornAppend .. 0 5: the data write torn (5 of 7 bytes stay as junk): not appended;
   - ZTornAppend None .. 1 50: the oplog entry write torn (50 of 115 bytes): not appended;
   - ZTornAppend (Some true) .. 3 17: a tree node write torn inside its hash: appended;
   - clean crashes inside a clear and an append, a complete clear with a forced flush, a header slot write torn
     after 1 byte, reopen. *)
Definition toy_zops : list zop :=
  [ZAppend (Some false) [[1; 2; 3]; []; [4]; [5; 6]; [7]]; ZClear (Some false) 1 3;
   ZTornClear (Some true) 3 9 11 3] ++ zobs_all 7 ++
  [ZTornClear (Some true) 0 1 0 5] ++ zobs_all 7 ++
  [ZTornAppend (Some true) [[8; 9]; [10]] 2 5] ++ zobs_all 8 ++
  [ZAppend (Some true) [[11]];
   ZTornClear (Some true) 4 70000 3 2] ++ zobs_all 9 ++
  [ZTornAppend (Some false) [[12; 13; 14; 15; 16; 17; 18]] 0 5;
   ZTornAppend None [[12; 13; 14]] 1 50;
   ZTornAppend (Some true) [[12; 13; 14]] 3 17] ++ zobs_all 10 ++
  [ZCrashClear (Some true) 0 1 2;
   ZCrashAppend (Some true) [[15]] 3;
   ZClear (Some true) 2 4;
   ZTornAppend (Some true) [[16]] 4 1; ZReopen] ++ zobs_all 12.

Example toy_torn_clear_history : keypair_ok toy_keypair = true /\ zcheck toy_zops.
Proof. split; vm_compute; reflexivity. Qed.

(* the hypotheses of fresh_torn_clear_history_correct on that history *)
Example toy_zops_tears_ok : ztears_ok false toy_zops.
Proof.
  cbn [toy_zops zobs_all ztears_ok app flat_map map seq ZTornClear ZTornAppend ZCrashClear ZCrashAppend N.ltb N.compare
       Pos.compare Pos.compare_cont].
  repeat split; try (left; reflexivity); right; lia.
Qed.

Example toy_zops_wf : wf_z toy_zops 0.
Proof.
  cbn [toy_zops zobs_all wf_z app flat_map map seq length append_took_effect Nat.ltb Nat.leb negb
       ZTornClear ZTornAppend ZCrashClear ZCrashAppend].
  unfold u64_max. lia.
Qed.

Example toy_zops_fits :
  sumN (map len (zappended toy_zops)) <= u64_max /\
  NODE_SIZE * (2 * N.of_nat (length (zappended toy_zops))) <= u64_max.
Proof. split; vm_compute; discriminate. Qed.

(* the instance of the history theorem for the crypto with a real CRC-32 *)
Example crc_torn_clear_instance ops sk :
  kp_secret toy_keypair = Some sk -> wf_z ops 0 ->
  sumN (map len (zappended ops)) <= u64_max ->
  NODE_SIZE * (2 * N.of_nat (length (zappended ops))) <= u64_max ->
  ztears_ok false ops ->
  exists d0 ops0 c0,
    core_open zcr (Some toy_keypair) false disk_empty = (d0, ops0, Ok c0) /\
    (zrun zcr ops c0 (mkWorld d0 [] []) = zspec ops [] (fun _ => false) \/
     (exists k, zrun zcr ops c0 (mkWorld d0 [] []) =
                firstn k (zspec ops [] (fun _ => false)) ++ [YOAppend (Panic frame_msg)]) \/
     exists t, collision zcr t).
Proof.
  apply (fresh_torn_clear_history_correct zcr TornCore.crc_cr_crc_ok TornCore.crc_cr_hash32 TornCore.crc_cr_nonblank
           TornCore.crc_cr_hashbytes TornCore.crc_cr_sig64 TornCore.crc_cr_sigbytes toy_keypair sk ops). reflexivity.
Qed.

(* One flushing clear and one flushing append inside a history, tear by tear (sampled): 5 blocks and the clear of
   [1, 3) pending; a clear of [3, 9) with a flush (13 operations) cut at (k, t); reads; an append of two blocks with
   a flush (16 operations) cut at (k + 1, t + 5); reads; a complete flushing append, reopen, reads. *)
Definition zfamily (k t : nat) : list zop :=
  [ZAppend (Some false) [[1; 2; 3]; []; [4]; [5; 6]; [7]]; ZClear (Some false) 1 3;
   ZTornClear (Some true) 3 9 k t] ++ zobs_all 7 ++
  [ZTornAppend (Some true) [[8; 9]; [10]] (k + 1) (t + 5)] ++ zobs_all 8 ++
  [ZAppend (Some true) [[11]]; ZReopen] ++ zobs_all 9.

Example toy_torn_clear_family :
  Forall (fun k => Forall (fun t => zcheck (zfamily k t)) [0; 3; 4; 11; 39; 613]%nat)
         [0; 1; 2; 3; 10; 11; 12; 13]%nat.
Proof.
  repeat (apply Forall_cons || apply Forall_nil); vm_compute; reflexivity.
Qed.

Example toy_family_tears_ok k t : ztears_ok false (zfamily k t) /\ wf_z (zfamily k t) 0.
Proof.
  split.
  - cbn [zfamily zobs_all ztears_ok app flat_map map seq ZTornClear ZTornAppend].
    split; [left; reflexivity|]. split; [right; lia|exact I].
  - cbn [zfamily zobs_all wf_z app flat_map map seq length ZTornClear ZTornAppend].
    split; [right; unfold u64_max; lia|]. split; [right; unfold u64_max; lia|].
    destruct (append_took_effect (k + 1)); exact I.
Qed.

(* the hypotheses of torn_clear_history_correct / torn_clear_history_tears_ok are met by a concrete non-trivial
   ZInv state with a cleared set, pending entries and hygienic slots (TornClear.crc_ZInv_state_met), for a history
   that tears the header slot write of a flushing clear inside the CRC field *)
Example crc_torn_clear_state_met :
  exists c d cl sk,
    ZInv zcr c d z5 cl /\ (forall i, cl i = zcl1 i) /\ kp_secret (c_keypair c) = Some sk /\
    hyg zcr (f_content (d_oplog d)) /\
    let ops := [ZTornClear (Some true) 3 9 11 3; ZInfo; ZGet 3; ZGet 0] in
    ztears_ok false ops /\ wf_z ops (N.of_nat (length z5)) /\
    sumN (map len (z5 ++ zappended ops)) <= u64_max /\
    NODE_SIZE * (2 * N.of_nat (length (z5 ++ zappended ops))) <= u64_max.
Proof.
  destruct crc_ZInv_state_met as (c & d & cl & sk & _ & _ & _ & Z & Hcl & Hsk & Hh & _).
  exists c, d, cl, sk. split; [exact Z|]. split; [exact Hcl|]. split; [exact Hsk|]. split; [exact Hh|].
  cbv zeta. split; [cbn [ztears_ok ZTornClear]; split; [left; reflexivity|exact I]|].
  split; [cbn [wf_z ZTornClear z5 length]; unfold u64_max; lia|].
  split; vm_compute; discriminate.
Qed.

Print Assumptions zspec_of_yspec.
Print Assumptions zrun_of_yrun.
Print Assumptions cut_outcome.
Print Assumptions cut_step.
Print Assumptions cut_side_step.
Print Assumptions torn_clear_history_correct.
Print Assumptions ztears_ok_safe.
Print Assumptions torn_clear_history_tears_ok.
Print Assumptions ZInv_init.
Print Assumptions fresh_torn_clear_history_safe.
Print Assumptions fresh_torn_clear_history_correct.
Print Assumptions toy_torn_clear_history.
Print Assumptions toy_zops_tears_ok.
Print Assumptions toy_zops_wf.
Print Assumptions toy_zops_fits.
Print Assumptions crc_torn_clear_instance.
Print Assumptions toy_torn_clear_family.
Print Assumptions toy_family_tears_ok.
Print Assumptions crc_torn_clear_state_met.

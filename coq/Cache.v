(* Cache.v — the optional tree-node cache (src/common/cache.rs, MerkleTree::node / infos_to_nodes).
   The crate consults the cache BEFORE the unflushed map and the tree store; it inserts the roots
   when the tree is opened and every non-blank node it reads from the store; moka may evict any
   entry at any time. The executable model (Merkle.node_get) has no cache; this file defines the
   cached lookup and proves that it is indistinguishable from the uncached one for every cache
   content the insertion rule can produce, under any eviction. *)
From HC Require Import Base NMap Codec Crypto FlatTree Storage Oplog Merkle.

Definition node_get_cached (cache : nmap node) (t : mtree) (tf : file) (index : N) (allow_miss : bool)
  : res (option node) :=
  match nm_get index cache with
  | Some n => Ok (Some n)
  | None => node_get t tf index allow_miss
  end.

(* every cached node is what the uncached lookup returns for its index *)
Definition cache_ok (cache : nmap node) (t : mtree) (tf : file) : Prop :=
  forall i n, nm_get i cache = Some n -> forall am, node_get t tf i am = Ok (Some n).

(* eviction: the cache after eviction holds a subset of the entries *)
Definition submap (c' c : nmap node) : Prop := forall i n, nm_get i c' = Some n -> nm_get i c = Some n.

Lemma node_get_found_any_mode t tf i am n :
  node_get t tf i am = Ok (Some n) -> forall am', node_get t tf i am' = Ok (Some n).
Proof.
  unfold node_get. intros H am'.
  destruct (nm_get i (t_unflushed t)) as [u|].
  - destruct (node_blank u); [destruct am; discriminate | exact H].
  - destruct (mul64 "40 * index" NODE_SIZE i) as [off| | |]; cbn [bind] in *; try discriminate.
    destruct (f_read tf off NODE_SIZE) as [data|]; [|destruct am; discriminate].
    destruct (node_blank (node_from_bytes i data)); [destruct am; discriminate | exact H].
Qed.

Theorem cached_lookup_transparent cache t tf :
  cache_ok cache t tf -> forall i am, node_get_cached cache t tf i am = node_get t tf i am.
Proof.
  intros Hok i am. unfold node_get_cached. destruct (nm_get i cache) as [n|] eqn:E; [|reflexivity].
  symmetry. now apply Hok.
Qed.

Lemma cache_ok_empty t tf : cache_ok nm_empty t tf.
Proof. intros i n H. now rewrite nm_get_empty in H. Qed.

(* insertion rule: a node that the lookup has just returned may be cached *)
Lemma cache_ok_insert cache t tf i am n :
  cache_ok cache t tf -> node_get t tf i am = Ok (Some n) -> cache_ok (nm_set i n cache) t tf.
Proof.
  intros Hok Hget j m Hj am'. rewrite nm_get_set in Hj. destruct (N.eqb_spec j i) as [->|Hne].
  - injection Hj as <-. eapply node_get_found_any_mode; eauto.
  - now apply Hok.
Qed.

(* any eviction policy *)
Lemma cache_ok_evict cache cache' t tf : cache_ok cache t tf -> submap cache' cache -> cache_ok cache' t tf.
Proof. intros Hok Hsub i n H. apply Hok. now apply Hsub. Qed.

(* a mutation of the tree / tree store that does not change the answer for any cached index keeps
   the cache valid; in the fork-free regime every node is immutable per index, which is exactly this
   condition (nodes added by a commit and nodes moved from unflushed to the store by a flush) *)
Lemma cache_ok_preserved cache t tf t' tf' :
  cache_ok cache t tf ->
  (forall i n, nm_get i cache = Some n -> forall am, node_get t tf i am = Ok (Some n) -> node_get t' tf' i am = Ok (Some n)) ->
  cache_ok cache t' tf'.
Proof. intros Hok Hpres i n H am. eapply Hpres; eauto. Qed.

(* adding a node to unflushed that equals the cached one (immutability) preserves validity *)
Lemma node_get_add_same t tf n i am :
  node_blank n = false ->
  node_get (tree_add_node t n) tf i am = if i =? n_index n then Ok (Some n) else node_get t tf i am.
Proof.
  intros Hb. unfold node_get, tree_add_node. cbn [t_unflushed]. rewrite nm_get_set.
  destruct (i =? n_index n); [now rewrite Hb | reflexivity].
Qed.

Lemma cache_ok_add_node cache t tf n :
  cache_ok cache t tf -> node_blank n = false ->
  (forall m, nm_get (n_index n) cache = Some m -> m = n) ->
  cache_ok cache (tree_add_node t n) tf.
Proof.
  intros Hok Hb Hagree i m Hi am. rewrite node_get_add_same by assumption.
  destruct (N.eqb_spec i (n_index n)) as [->|Hne]; [now rewrite (Hagree _ Hi) | now apply Hok].
Qed.

(* required_node / optional_node through the cache *)
Definition required_node_cached cache t tf i : res node :=
  r <- node_get_cached cache t tf i false ;; match r with Some n => Ok n | None => Err InvalidOperation end.

Corollary required_node_cached_transparent cache t tf i :
  cache_ok cache t tf -> required_node_cached cache t tf i = required_node t tf i.
Proof. intros H. unfold required_node_cached, required_node. now rewrite cached_lookup_transparent. Qed.

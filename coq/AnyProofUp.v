(* AnyProofUp.v -- the shape of what verify_upgrade pushes, for EVERY upgrade section (sibling pairs among
   the supplied nodes, additional nodes, the root of the block / hash / seek sections as the extra node
   of the queue): every pushed node is supplied or computed from two nodes of the pool, every node of
   the pool is a root of the final changeset or was merged into a pushed parent.  No hash reasoning
   here: the backward argument is AnyProofLib.backward_hauth. *)
From HC Require Import Base NMap Codec CodecFacts Crypto FlatTree Storage Bitfield Oplog Merkle Core.
From HC Require Import FlatTreeFacts StorageFacts BitfieldFacts OplogFacts TreeRef OffsetFacts CoreFacts
                       Sound NoPanic Refine Replicate SoundCoreLib SoundCore SoundCoreUp AnyProofLib.
From Coq Require Import FMapPositive ZifyN ZifyNat ZifyBool.
Ltac Zify.zify_post_hook ::= Z.div_mod_to_equations.
Arguments N.add : simpl never.
Arguments N.sub : simpl never.
Arguments N.mul : simpl never.
Arguments N.div : simpl never.
Arguments N.modulo : simpl never.
Arguments N.pow : simpl never.
Arguments N.eqb : simpl never.
Arguments N.ltb : simpl never.
Arguments N.leb : simpl never.
Arguments N.of_nat : simpl never.
Arguments N.to_nat : simpl never.

Section MergeRun.
  Variable cr : crypto.
  Hypothesis Hhash32 : forall x, length (cr_hash cr x) = 32%nat.

  Lemma span_at' x d o : n_index x = ft_index (N.of_nat d) o -> span x = p2 d.
  Proof. intros H. unfold span. rewrite H, ft_depth_index. reflexivity. Qed.

  (* the merge loop of append_root: arithmetic and shape *)
  Lemma merge_run : forall fuel a rest nodes d o rr nodes' it',
    merge_roots cr fuel (a :: rest) nodes (it_at (N.of_nat d) o) = Ok (rr, nodes', it') ->
    n_index a = ft_index (N.of_nat d) o -> root_wf a -> Forall root_wf rest ->
    exists top rest' new consumed,
      rr = top :: rest' /\ rest = consumed ++ rest' /\ nodes' = new ++ nodes /\
      it' = it_at (N.of_nat (d + length consumed)) (o / p2 (length consumed)) /\
      n_index top = ft_index (N.of_nat (d + length consumed)) (o / p2 (length consumed)) /\ root_wf top /\
      n_length top = n_length a + lens consumed /\ span top = span a + spans consumed /\
      Forall node_fit new /\
      Forall (fun x => x = top \/ child_of cr (a :: consumed ++ new) new x) (a :: consumed ++ new) /\
      Forall (fun P => exists x s, merged_of cr x s P /\ In x (a :: consumed ++ new) /\ In s (a :: consumed ++ new)) new /\
      (consumed = [] -> top = a /\ new = []) /\ (consumed <> [] -> In top new).
  Proof.
    induction fuel as [|f IH]; intros a rest nodes d o rr nodes' it' H Ia Wa Wr; [discriminate H|].
    assert (Hstop : (rr, nodes', it') = (a :: rest, nodes, it_at (N.of_nat d) o) ->
      exists top rest' new consumed,
        rr = top :: rest' /\ rest = consumed ++ rest' /\ nodes' = new ++ nodes /\
        it' = it_at (N.of_nat (d + length consumed)) (o / p2 (length consumed)) /\
        n_index top = ft_index (N.of_nat (d + length consumed)) (o / p2 (length consumed)) /\ root_wf top /\
        n_length top = n_length a + lens consumed /\ span top = span a + spans consumed /\
        Forall node_fit new /\
        Forall (fun x => x = top \/ child_of cr (a :: consumed ++ new) new x) (a :: consumed ++ new) /\
        Forall (fun P => exists x s, merged_of cr x s P /\ In x (a :: consumed ++ new) /\ In s (a :: consumed ++ new)) new /\
        (consumed = [] -> top = a /\ new = []) /\ (consumed <> [] -> In top new)).
    { intros [= -> -> ->]. exists a, rest, [], []. cbn [app length]. unfold lens, spans. cbn [map sumN].
      rewrite Nat.add_0_r, p2_0, N.div_1_r.
      split; [reflexivity|]. split; [reflexivity|]. split; [reflexivity|]. split; [reflexivity|].
      split; [exact Ia|]. split; [exact Wa|]. split; [lia|]. split; [lia|]. split; [constructor|].
      split; [constructor; [left; reflexivity|constructor]|]. split; [constructor|].
      split; [auto|congruence]. }
    cbn [merge_roots] in H. destruct rest as [|b rest2].
    { apply Hstop. now injection H as <- <- <-. }
    rewrite it_sibling_at_sib in H. cbn [it_at it_index] in H.
    destruct (N.eqb_spec (ft_index (N.of_nat d) (sib o)) (n_index b)) as [Eb|Eb]; cbn [negb] in H.
    2:{ apply Hstop. now injection H as <- <- <-. }
    clear Hstop. fold (it_at (N.of_nat d) (sib o)) in H. rewrite it_parent_at, sib_div in H.
    replace (N.of_nat d + 1) with (N.of_nat (S d)) in H by lia.
    apply bind_ok in H. destruct H as (l & Hadd & H).
    unfold add64 in Hadd. destruct (fits_u64 (n_length a + n_length b)) eqn:F; [|discriminate Hadd].
    injection Hadd as <-. cbn [it_at it_index] in H. fold (it_at (N.of_nat (S d)) (o / 2)) in H.
    set (P := mkNode (ft_index (N.of_nat (S d)) (o / 2)) (n_length a + n_length b) (parent_hash cr a b)) in *.
    inversion Wr as [|? ? Wb Wr2]; subst.
    pose proof Wa as (Wa1 & Wa2 & Wa3). pose proof Wb as (Wb1 & Wb2 & Wb3).
    assert (Hl64 : n_length a + n_length b <= u64_max) by (unfold fits_u64 in F; lia).
    assert (WP : root_wf P).
    { split; [apply Hhash32|]. split; [|apply u64_lt; exact Hl64].
      pose proof (parent_index_lt d o) as Lt. unfold P. cbn [n_index]. rewrite <- Ia, Eb in Lt. lia. }
    assert (MP : merged_of cr a b P).
    { exists d, o. repeat split; auto. }
    destruct (IH P rest2 (P :: nodes) (S d) (o / 2) rr nodes' it' H eq_refl WP Wr2)
      as (top & rest' & new & consumed & -> & -> & -> & -> & It & Wt & Lt & St & Fn & Hch & Hmd & Hnil & Hne).
    exists top, rest', (new ++ [P]), (b :: consumed).
    cbn [length]. rewrite <- div_p2_S.
    replace (d + S (length consumed))%nat with (S d + length consumed)%nat by lia.
    split; [reflexivity|]. split; [reflexivity|]. split; [rewrite <- app_assoc; reflexivity|].
    split; [reflexivity|]. split; [exact It|]. split; [exact Wt|].
    split; [rewrite Lt, lens_cons; unfold P; cbn [n_length]; lia|].
    split.
    { rewrite St, spans_cons. rewrite (span_at' P (S d) (o / 2) eq_refl), (span_at' a d o Ia).
      rewrite (span_at' b d (sib o)) by (symmetry; exact Eb). rewrite p2_S. lia. }
    split; [apply Forall_app; split; [exact Fn|constructor; [split; [apply Hhash32|exact Hl64]|constructor]]|].
    set (L' := P :: consumed ++ new) in *. set (L := a :: (b :: consumed) ++ new ++ [P]).
    assert (Hsub : forall x, In x L' -> In x L).
    { intros x [<-|Hx].
      - right. right. apply in_or_app. right. apply in_or_app. right. left. reflexivity.
      - apply in_app_or in Hx. destruct Hx as [Hx|Hx].
        + right. right. apply in_or_app. left. exact Hx.
        + right. right. apply in_or_app. right. apply in_or_app. left. exact Hx. }
    assert (Hnew : forall x, In x new -> In x (new ++ [P])) by (intros x Hx; apply in_or_app; left; exact Hx).
    assert (HPnew : In P (new ++ [P])) by (apply in_or_app; right; left; reflexivity).
    assert (Hlift : forall x, (x = top \/ child_of cr L' new x) -> (x = top \/ child_of cr L (new ++ [P]) x)).
    { intros x [E|C]; [left; exact E|right]. apply (child_of_incl cr L' new); assumption. }
    split.
    { constructor.
      { right. exists b, P. split; [left; exact MP|]. split; [right; left; reflexivity|exact HPnew]. }
      constructor.
      { right. exists a, P. split; [right; exact MP|]. split; [left; reflexivity|exact HPnew]. }
      inversion Hch as [|? ? HP Hrest]; subst.
      apply Forall_app in Hrest. destruct Hrest as [Hc Hn].
      apply Forall_app. split.
      + eapply Forall_impl; [|exact Hc]. exact Hlift.
      + apply Forall_app. split.
        * eapply Forall_impl; [|exact Hn]. exact Hlift.
        * constructor; [apply Hlift, HP|constructor]. }
    split.
    { apply Forall_app. split.
      + eapply Forall_impl; [|exact Hmd]. intros P0 (x & s & F1 & F2 & F3).
        exists x, s. split; [exact F1|]. split; apply Hsub; assumption.
      + constructor; [|constructor]. exists a, b. split; [exact MP|].
        split; [left; reflexivity|right; left; reflexivity]. }
    split; [discriminate|]. intros _.
    destruct consumed as [|c1 cons'].
    - destruct (Hnil eq_refl) as [-> ->]. left. reflexivity.
    - apply in_or_app. left. apply Hne. discriminate.
  Qed.
End MergeRun.

(* ====================================================================================== *)
(* The changesets an upgrade goes through                                                   *)
(* ====================================================================================== *)

Section UpgradeRunH.
  Variable cr : crypto.
  Hypothesis Hhash32 : forall x, length (cr_hash cr x) = 32%nat.
  Variable Sq : node -> Prop.             (* the nodes handed to the upgrade: its own, and the tree root *)
  Hypothesis Sq_wf : forall x, Sq x -> length (n_hash x) = 32%nat /\ n_index x < 2 ^ 64.
  Variable c0 : changeset.                (* the changeset the upgrade starts from *)

  (* the nodes that were roots at some time: the roots at the start and the nodes pushed since *)
  Definition hpool (new : list node) : list node := cs_roots c0 ++ new.

  Record HUI (c : changeset) (new : list node) : Prop := mkHUI {
    hu_bytes : cs_byte_length c = lens (cs_roots c);
    hu_len : cs_length c = spans (cs_roots c);
    hu_wf : Forall root_wf (cs_roots c);
    hu_rnodes : cs_rnodes c = new ++ cs_rnodes c0;
    hu_made : Forall (fun P => Sq P \/
                               exists a b, merged_of cr a b P /\ In a (hpool new) /\ In b (hpool new)) new;
    hu_fit : Forall node_fit new;
    hu_roots_in : Forall (fun x => In x (hpool new)) (cs_roots c);
    hu_closure : Forall (fun x => In x (cs_roots c) \/ child_of cr (hpool new) new x) (hpool new);
    hu_frame : cs_fork c = cs_fork c0 /\ cs_ancestors c = cs_ancestors c0 /\
               cs_orig_length c = cs_orig_length c0 /\ cs_orig_fork c = cs_orig_fork c0 /\
               cs_batch_length c = cs_batch_length c0;
    hu_grow : cs_length c0 <= cs_length c;
    hu_up : cs_upgraded c = false -> cs_roots c = cs_roots c0 /\ new = [] }.

  Lemma hpool_incl new new0 x : In x (hpool new) -> In x (hpool (new0 ++ new)).
  Proof.
    unfold hpool. intros H. apply in_app_or in H. apply in_or_app. destruct H as [H|H]; [left; exact H|right].
    apply in_or_app. right. exact H.
  Qed.

  Lemma HUI_init c1 :
    cs_byte_length c1 = lens (cs_roots c1) -> cs_length c1 = spans (cs_roots c1) ->
    Forall root_wf (cs_roots c1) -> c1 = c0 -> HUI c1 [].
  Proof.
    intros HB HL HW ->. constructor; try assumption.
    - reflexivity.
    - constructor.
    - constructor.
    - apply Forall_forall. intros x Hx. unfold hpool. rewrite app_nil_r. exact Hx.
    - apply Forall_forall. intros x Hx. unfold hpool in Hx. rewrite app_nil_r in Hx. left. exact Hx.
    - repeat split.
    - lia.
    - intros _. split; reflexivity.
  Qed.

  Lemma append_root_h c new n d o c' it' :
    append_root cr c n (it_at (N.of_nat d) o) = Ok (c', it') ->
    n_index n = ft_index (N.of_nat d) o -> Sq n -> HUI c new ->
    exists new0, HUI c' (new0 ++ n :: new) /\
      exists k, it' = it_at (N.of_nat (d + k)) (o / p2 k).
  Proof.
    intros H Hidx Sn [U1 U2 U3 N1 Nmade Nfit Nin Ncl U6 U7 _].
    unfold append_root in H. apply bind_ok in H. destruct H as (bl & Hbl & H).
    apply bind_ok in H. destruct H as ([[rr nr] it1] & Hm & H). injection H as <- <-.
    unfold add64 in Hbl. destruct (fits_u64 (cs_byte_length c + n_length n)) eqn:F; [|discriminate Hbl].
    injection Hbl as <-.
    destruct (Sq_wf n Sn) as [Sn1 Sn2].
    assert (Hnl : n_length n <= u64_max) by (unfold fits_u64 in F; lia).
    assert (Wn : root_wf n).
    { split; [exact Sn1|]. split; [exact Sn2|]. apply u64_lt. exact Hnl. }
    destruct (merge_run cr Hhash32 _ _ _ _ _ _ _ _ _ Hm Hidx Wn (Forall_rev U3))
      as (top & rest' & new0 & consumed & -> & Erest & -> & -> & It & Wt & Lt & St & Fn & Hch & Hmd & Hnil & Hne).
    assert (Eroots : cs_roots c = rev rest' ++ rev consumed).
    { rewrite <- rev_app_distr, <- Erest. symmetry. apply rev_involutive. }
    set (new' := new0 ++ n :: new).
    assert (Hpool : forall x, In x (hpool new) -> In x (hpool new')).
    { intros x Hx. unfold new'. replace (new0 ++ n :: new) with ((new0 ++ [n]) ++ new)
        by (rewrite <- app_assoc; reflexivity). apply hpool_incl, Hx. }
    assert (Hcons_pool : forall x, In x consumed -> In x (hpool new')).
    { intros x Hx. apply Hpool.
      rewrite Forall_forall in Nin. apply Nin. rewrite Eroots. apply in_or_app. right. apply -> in_rev. exact Hx. }
    assert (HL_pool : forall x, In x (n :: consumed ++ new0) -> In x (hpool new')).
    { intros x [<-|Hx].
      - unfold hpool, new'. apply in_or_app. right. apply in_or_app. right. left. reflexivity.
      - apply in_app_or in Hx. destruct Hx as [Hx|Hx]; [apply Hcons_pool, Hx|].
        unfold hpool, new'. apply in_or_app. right. apply in_or_app. left. exact Hx. }
    assert (Hnew0 : forall x, In x new0 -> In x new') by (intros x Hx; apply in_or_app; left; exact Hx).
    assert (Hnewold : forall x, In x new -> In x new') by (intros x Hx; apply in_or_app; right; right; exact Hx).
    exists new0. split.
    - constructor; cbn [cs_byte_length cs_length cs_roots cs_rnodes cs_fork cs_ancestors cs_orig_length
                        cs_orig_fork cs_batch_length rev cs_upgraded].
      + rewrite U1, Eroots, !lens_app, !lens_rev, lens_cons, Lt. change (lens []) with 0. lia.
      + rewrite U2, Eroots, !spans_app, !spans_rev, spans_cons, St. change (spans []) with 0.
        cbn [it_at it_factor]. rewrite (span_at' n d o Hidx), pow2_succ, p2_N.
        pose proof (p2_pos d). replace (2 * p2 d / 2) with (p2 d) by lia. lia.
      + apply Forall_app. split; [|constructor; [exact Wt|constructor]].
        rewrite Eroots in U3. apply Forall_app in U3. apply U3.
      + rewrite N1. unfold new'. rewrite <- app_assoc. reflexivity.
      + unfold new'. apply Forall_app. split.
        * eapply Forall_impl; [|exact Hmd]. intros P0 (x & s & F1 & F2 & F3). right.
          exists x, s. split; [exact F1|]. split; apply HL_pool; assumption.
        * constructor; [left; exact Sn|].
          eapply Forall_impl; [|exact Nmade]. intros P0 [HP|(x & s & F1 & F2 & F3)]; [left; exact HP|].
          right. exists x, s. split; [exact F1|]. split; apply Hpool; assumption.
      + unfold new'. apply Forall_app. split; [exact Fn|]. constructor; [split; assumption|exact Nfit].
      + apply Forall_app. split.
        * rewrite Eroots in Nin. apply Forall_app in Nin. destruct Nin as [Nin _].
          eapply Forall_impl; [|exact Nin]. intros x Hx. apply Hpool. exact Hx.
        * constructor; [|constructor].
          destruct consumed as [|c1 cons'].
          -- destruct (Hnil eq_refl) as [-> _]. apply HL_pool. left. reflexivity.
          -- apply HL_pool. right. apply in_or_app. right. apply Hne. discriminate.
      + (* closure *)
        assert (Hchain : forall x, In x (n :: consumed ++ new0) ->
                  In x (rev rest' ++ [top]) \/ child_of cr (hpool new') new' x).
        { intros x Hx. rewrite Forall_forall in Hch. destruct (Hch x Hx) as [->|C].
          - left. apply in_or_app. right. left. reflexivity.
          - right. apply (child_of_incl cr (n :: consumed ++ new0) new0); [exact HL_pool|exact Hnew0|exact C]. }
        assert (Hold : forall x, In x (hpool new) -> In x (rev rest' ++ [top]) \/ child_of cr (hpool new') new' x).
        { intros x Hx. rewrite Forall_forall in Ncl. destruct (Ncl x Hx) as [Hr|C].
          - rewrite Eroots in Hr. apply in_app_or in Hr. destruct Hr as [Hr|Hr].
            + left. apply in_or_app. left. exact Hr.
            + apply Hchain. right. apply in_or_app. left. apply in_rev. exact Hr.
          - right. apply (child_of_incl cr (hpool new) new); [exact Hpool|exact Hnewold|exact C]. }
        apply Forall_forall. intros x Hx. unfold hpool, new' in Hx.
        apply in_app_or in Hx. destruct Hx as [Hx|Hx].
        * apply Hold. unfold hpool. apply in_or_app. left. exact Hx.
        * apply in_app_or in Hx. destruct Hx as [Hx|[<-|Hx]].
          -- apply Hchain. right. apply in_or_app. right. exact Hx.
          -- apply Hchain. left. reflexivity.
          -- apply Hold. unfold hpool. apply in_or_app. right. exact Hx.
      + exact U6.
      + cbn [it_at it_factor]. lia.
      + discriminate.
    - exists (length consumed). reflexivity.
  Qed.

  Definition qtrackh (q q' : nodeq) (new' : list node) : Prop :=
    match q_extra q with
    | Some e => q_extra q' = Some e \/ (q_extra q' = None /\ In e new')
    | None => q_extra q' = None
    end.

  Lemma qtrackh_refl q new : qtrackh q q new.
  Proof. unfold qtrackh. destruct (q_extra q); auto. Qed.

  Lemma qtrackh_step q q1 q' n new' :
    (forall e, q_extra q = Some e -> q_extra q1 = Some e \/ (n = e /\ q_extra q1 = None)) ->
    (q_extra q = None -> q_extra q1 = None) ->
    In n new' -> qtrackh q1 q' new' -> qtrackh q q' new'.
  Proof.
    unfold qtrackh. intros H1 H2 Hn H.
    destruct (q_extra q) as [e|].
    - destruct (H1 e eq_refl) as [E|[-> E]]; rewrite E in H; [exact H|]. right. split; assumption.
    - rewrite (H2 eq_refl) in H. exact H.
  Qed.

  Lemma qtrackh_trans q q1 q2 new1 new2 :
    (forall x, In x new1 -> In x new2) -> qtrackh q q1 new1 -> qtrackh q1 q2 new2 -> qtrackh q q2 new2.
  Proof.
    unfold qtrackh. intros Hs H1 H2. destruct (q_extra q) as [e|].
    - destruct H1 as [E|[E Hin]]; rewrite E in H2; [exact H2|]. right. split; [exact H2|apply Hs, Hin].
    - rewrite H1 in H2. exact H2.
  Qed.

  Lemma grow_loop_h : forall fuel c new q d o ri c' q' it',
    grow_loop cr fuel c q (it_at (N.of_nat d) o) ri = Ok (c', q', it') ->
    HUI c new -> Forall Sq (q_list q) ->
    exists new1, HUI c' (new1 ++ new) /\ Forall Sq (q_list q') /\ qtrackh q q' (new1 ++ new) /\
    exists d' o', it' = it_at (N.of_nat d') o' /\ ft_index (N.of_nat d') o' = ri.
  Proof.
    induction fuel as [|f IH]; intros c new q d o ri c' q' it' H U Hq; [discriminate H|].
    cbn [grow_loop] in H. cbn [it_at it_index] in H.
    destruct (N.eqb_spec (ft_index (N.of_nat d) o) ri) as [E|E].
    - injection H as <- <- <-. exists []. split; [exact U|]. split; [exact Hq|].
      split; [apply qtrackh_refl|]. exists d, o. split; [reflexivity|exact E].
    - fold (it_at (N.of_nat d) o) in H. rewrite it_sibling_at_sib in H.
      apply bind_ok in H. destruct H as ([n q1] & Hs & H).
      apply bind_ok in H. destruct H as ([c1 it1] & Ha & H).
      pose proof Hs as Hs0. apply q_shift_inv in Hs. destruct Hs as (Hn & _ & HF). cbn [it_at it_index] in Hn.
      apply HF in Hq. destruct Hq as [Sn Hq1].
      destruct (append_root_h c new n d (sib o) c1 it1 Ha Hn Sn U) as (new0 & U1 & k & ->).
      destruct (IH c1 (new0 ++ n :: new) q1 (d + k)%nat (sib o / p2 k) ri c' q' it' H U1 Hq1)
        as (new1 & U2 & Hq2 & Ht & Hit).
      exists (new1 ++ new0 ++ [n]).
      replace ((new1 ++ new0 ++ [n]) ++ new) with (new1 ++ new0 ++ n :: new)
        by (rewrite <- !app_assoc; reflexivity).
      split; [exact U2|]. split; [exact Hq2|]. split; [|exact Hit].
      apply (qtrackh_step q q1 q' n); try assumption.
      + intros e He. apply (q_shift_extra _ _ _ _ _ Hs0 He).
      + intros He. apply (q_shift_extra_none _ _ _ _ Hs0 He).
      + apply in_or_app. right. apply in_or_app. right. left. reflexivity.
  Qed.

  Section Url.
  Variable to : N.
  Hypothesis Hto : to mod 2 = 0.

  Lemma url_h : forall fuel c new q x i (grow : bool) c' q' it',
    Jx to x ->
    upgrade_roots_loop cr fuel c q (mkIter x (x / 2) 2) to i grow = Ok (c', q', it') ->
    HUI c new -> Forall Sq (q_list q) ->
    exists new1, HUI c' (new1 ++ new) /\ Forall Sq (q_list q') /\ qtrackh q q' (new1 ++ new).
  Proof.
    induction fuel as [|f IH]; intros c new q x i grow c' q' it' HJ H U Hq; [discriminate H|].
    cbn [upgrade_roots_loop] in H.
    destruct (it_full_root (mkIter x (x / 2) 2) to) as [found it1] eqn:Efr.
    destruct (full_root_at to x found it1 Hto HJ Efr) as [->|(-> & d & o & -> & Ho & Ex0 & Hstop & HJ')].
    { cbn [negb] in H. injection H as <- <- <-. exists []. split; [exact U|]. split; [exact Hq|apply qtrackh_refl]. }
    cbn [negb] in H.
    assert (Hnext : it_next_tree (it_at (N.of_nat d) o) =
                    mkIter (x + 2 * p2 d) ((x + 2 * p2 d) / 2) 2).
    { rewrite it_next_tree_at. replace (2 * ((o + 1) * p2 d)) with (x + 2 * p2 d) by lia. reflexivity. }
    assert (Happ : forall i0,
      ('(n, q1) <- q_shift q (it_index (it_at (N.of_nat d) o)) ;;
       '(c1, it2) <- append_root cr c n (it_at (N.of_nat d) o) ;;
       upgrade_roots_loop cr f c1 q1 (it_next_tree it2) to i0 false) = Ok (c', q', it') ->
      exists new1, HUI c' (new1 ++ new) /\ Forall Sq (q_list q') /\ qtrackh q q' (new1 ++ new)).
    { intros i0 H0.
      apply bind_ok in H0. destruct H0 as ([n q1] & Hs & H0).
      apply bind_ok in H0. destruct H0 as ([c1 it2] & Ha & H0).
      pose proof Hs as Hs0. apply q_shift_inv in Hs. destruct Hs as (Hn & _ & HF). cbn [it_at it_index] in Hn.
      pose proof Hq as Hq'. apply HF in Hq'. destruct Hq' as [Sn Hq1].
      destruct (append_root_h c new n d o c1 it2 Ha Hn Sn U) as (new0 & U1 & k & ->).
      assert (Hrec : exists new1, HUI c' (new1 ++ new0 ++ n :: new) /\ Forall Sq (q_list q') /\
                                  qtrackh q1 q' (new1 ++ new0 ++ n :: new)).
      { destruct k as [|k].
        - rewrite Nat.add_0_r, p2_0, N.div_1_r, Hnext in H0. apply (IH _ _ _ _ _ _ _ _ _ HJ' H0 U1 Hq1).
        - rewrite it_next_tree_at in H0.
          refine (IH _ _ _ _ _ _ _ _ _ _ H0 U1 Hq1).
          split; [lia|]. left.
          pose proof (merged_end_beyond o d (S k) Ho ltac:(lia)). lia. }
      destruct Hrec as (new1 & U2 & Hq2 & Ht).
      exists (new1 ++ new0 ++ [n]).
      replace ((new1 ++ new0 ++ [n]) ++ new) with (new1 ++ new0 ++ n :: new)
        by (rewrite <- !app_assoc; reflexivity).
      split; [exact U2|]. split; [exact Hq2|].
      apply (qtrackh_step q q1 q' n); try assumption.
      + intros e He. apply (q_shift_extra _ _ _ _ _ Hs0 He).
      + intros He. apply (q_shift_extra_none _ _ _ _ Hs0 He).
      + apply in_or_app. right. apply in_or_app. right. left. reflexivity. }
    destruct (nth_error (cs_roots c) i) as [r0|].
    - destruct (n_index r0 =? it_index (it_at (N.of_nat d) o)).
      + rewrite Hnext in H. apply (IH _ _ _ _ _ _ _ _ _ HJ' H U Hq).
      + destruct grow.
        * apply bind_ok in H. destruct H as (li & Hli & H).
          apply bind_ok in H. destruct H as ([[c1 q1] it2] & Hg & H).
          rewrite it_new_at_nat in Hg.
          destruct (grow_loop_h _ _ _ _ _ _ _ _ _ _ Hg U Hq) as (new0 & U1 & Hq1 & Ht1 & d' & o' & -> & Ei).
          cbn [it_at it_index] in Ei. apply ft_index_inj in Ei. destruct Ei as [Ed ->].
          assert (d' = d) by lia. subst d'.
          rewrite Hnext in H.
          destruct (IH _ _ _ _ _ _ _ _ _ HJ' H U1 Hq1) as (new1 & U2 & Hq2 & Ht2).
          exists (new1 ++ new0). rewrite <- app_assoc. split; [exact U2|]. split; [exact Hq2|].
          apply (qtrackh_trans q q1 q' (new0 ++ new)); [|exact Ht1|exact Ht2].
          intros y Hy. apply in_or_app. right. exact Hy.
        * apply (Happ i H).
    - apply (Happ i H).
  Qed.
  End Url.

  (* ---------- additional nodes ---------- *)

  Lemma extra_siblings_h : forall extra c new d o c' it' rest,
    extra_siblings cr c (it_at (N.of_nat d) o) extra = Ok (c', it', rest) ->
    HUI c new -> Forall Sq extra ->
    exists new1, HUI c' (new1 ++ new) /\ Forall Sq rest /\ exists d' o', it' = it_at (N.of_nat d') o'.
  Proof.
    induction extra as [|n r IH]; intros c new d o c' it' rest H U Hq; cbn [extra_siblings] in H.
    - injection H as <- <- <-. exists []. split; [exact U|]. split; [constructor|]. eauto.
    - rewrite it_sibling_at_sib in H. cbn [it_at it_index] in H.
      destruct (N.eqb_spec (n_index n) (ft_index (N.of_nat d) (sib o))) as [E|E].
      + fold (it_at (N.of_nat d) (sib o)) in H.
        apply bind_ok in H. destruct H as ([c1 it1] & Ha & H).
        inversion Hq as [|? ? Sn Hq1]; subst.
        destruct (append_root_h c new n d (sib o) c1 it1 Ha E Sn U) as (new0 & U1 & k & ->).
        destruct (IH _ _ _ _ _ _ _ H U1 Hq1) as (new1 & U2 & Hr & Hit).
        exists (new1 ++ new0 ++ [n]).
        replace ((new1 ++ new0 ++ [n]) ++ new) with (new1 ++ new0 ++ n :: new)
          by (rewrite <- !app_assoc; reflexivity).
        split; [exact U2|]. split; [exact Hr|exact Hit].
      + injection H as <- <- <-. exists []. split; [exact U|]. split; [exact Hq|].
        exists d, (sib o). reflexivity.
  Qed.

  Lemma descend_to_at : forall fuel d o index it1,
    descend_to fuel (it_at (N.of_nat d) o) index = Ok it1 ->
    exists d1 o1, it1 = it_at (N.of_nat d1) o1 /\ ft_index (N.of_nat d1) o1 = index.
  Proof.
    induction fuel as [|f IH]; intros d o index it1 H; [discriminate H|].
    cbn [descend_to] in H. cbn [it_at it_index] in H.
    destruct (N.eqb_spec (ft_index (N.of_nat d) o) index) as [E|E].
    - injection H as <-. exists d, o. split; [reflexivity|exact E].
    - destruct (N.eqb_spec (it_factor (it_at (N.of_nat d) o)) 2) as [E2|E2]; [discriminate H|].
      destruct d as [|d].
      { exfalso. apply E2. reflexivity. }
      replace (N.of_nat (S d)) with (N.of_nat d + 1) in H by lia.
      rewrite it_left_child_at in H. apply (IH _ _ _ _ H).
  Qed.

  Lemma extra_rest_h : forall extra c new d o c' it',
    extra_rest cr c (it_at (N.of_nat d) o) extra = Ok (c', it') ->
    HUI c new -> Forall Sq extra ->
    exists new1, HUI c' (new1 ++ new).
  Proof.
    induction extra as [|n r IH]; intros c new d o c' it' H U Hq; cbn [extra_rest] in H.
    - injection H as <- <-. exists []. exact U.
    - apply bind_ok in H. destruct H as (it1 & Hd & H).
      apply bind_ok in H. destruct H as ([c1 it2] & Ha & H).
      destruct (descend_to_at _ _ _ _ _ Hd) as (d1 & o1 & -> & Ei).
      inversion Hq as [|? ? Sn Hq1]; subst.
      destruct (append_root_h c new n d1 o1 c1 it2 Ha (eq_sym Ei) Sn U) as (new0 & U1 & k & ->).
      rewrite it_sibling_at_sib in H.
      destruct (IH _ _ _ _ _ _ H U1 Hq1) as (new1 & U2).
      exists (new1 ++ new0 ++ [n]).
      replace ((new1 ++ new0 ++ [n]) ++ new) with (new1 ++ new0 ++ n :: new)
        by (rewrite <- !app_assoc; reflexivity).
      exact U2.
  Qed.
End UpgradeRunH.

(* ====================================================================================== *)
(* verify_upgrade, any upgrade section                                                      *)
(* ====================================================================================== *)

Section VerifyUpgradeH.
  Variable cr : crypto.
  Hypothesis Hhash32 : forall x, length (cr_hash cr x) = 32%nat.

  (* the nodes handed to verify_upgrade *)
  Definition up_supplied (u : data_upgrade) (root : option node) (x : node) : Prop :=
    In x (du_nodes u) \/ In x (du_additional u) \/ Some x = root.

  Lemma verify_upgrade_shape c1 fork u root pk consumed c4 :
    cs_byte_length c1 = lens (cs_roots c1) -> cs_length c1 = spans (cs_roots c1) ->
    Forall root_wf (cs_roots c1) ->
    Forall node_wire (du_nodes u) -> Forall node_wire (du_additional u) ->
    (forall r0, root = Some r0 -> hash32 r0 /\ n_index r0 < 2 ^ 64) ->
    verify_upgrade cr fork u root pk c1 = Ok (consumed, c4) ->
    exists new,
      cs_rnodes c4 = new ++ cs_rnodes c1 /\
      Forall (fun P => up_supplied u root P \/
                       exists a b, merged_of cr a b P /\ In a (cs_roots c1 ++ new) /\ In b (cs_roots c1 ++ new)) new /\
      Forall node_fit new /\
      Forall (fun x => In x (cs_roots c1 ++ new)) (cs_roots c4) /\
      Forall (fun x => In x (cs_roots c4) \/ child_of cr (cs_roots c1 ++ new) new x) (cs_roots c1 ++ new) /\
      cs_byte_length c4 = lens (cs_roots c4) /\ cs_length c4 = spans (cs_roots c4) /\
      Forall root_wf (cs_roots c4) /\
      cs_fork c4 = fork /\ cs_ancestors c4 = cs_ancestors c1 /\ cs_orig_length c4 = cs_orig_length c1 /\
      cs_orig_fork c4 = cs_orig_fork c1 /\ cs_length c1 <= cs_length c4 /\
      (cs_upgraded c4 = false -> cs_roots c4 = cs_roots c1 /\ new = []) /\
      cr_verify cr pk (signable (tree_hash cr (cs_roots c4)) (cs_length c4) fork) (du_signature u) = true /\
      cs_signature c4 = Some (du_signature u) /\ cs_hash c4 = Some (tree_hash cr (cs_roots c4)) /\
      (forall r0, root = Some r0 -> consumed = true -> In r0 new) /\
      (root = None -> consumed = true).
  Proof.
    intros HB HL HW Wn Wa Hroot H.
    unfold verify_upgrade in H.
    apply bind_ok in H. destruct H as (sl & _ & H).
    apply bind_ok in H. destruct H as (to & Hto & H).
    apply bind_ok in H. destruct H as ([[c2 q1] itx] & Hurl & H).
    apply bind_ok in H. destruct H as (li & _ & H).
    apply bind_ok in H. destruct H as ([[c2' it2] rest] & Hes & H).
    apply bind_ok in H. destruct H as ([c3 it3] & Her & H).
    apply bind_ok in H. destruct H as (c4' & Hsig & H). injection H as Econs <-.
    assert (Eto : to mod 2 = 0).
    { unfold mul64 in Hto. destruct (fits_u64 (2 * sl)); [|discriminate Hto]. injection Hto as <-. lia. }
    set (Sq := up_supplied u root).
    assert (Sq_wf : forall x, Sq x -> length (n_hash x) = 32%nat /\ n_index x < 2 ^ 64).
    { intros x [Hx|[Hx|Hx]].
      - rewrite Forall_forall in Wn. destruct (Wn x Hx) as [[A _] B]. split; [exact A|apply u64_lt, B].
      - rewrite Forall_forall in Wa. destruct (Wa x Hx) as [[A _] B]. split; [exact A|apply u64_lt, B].
      - apply Hroot. symmetry. exact Hx. }
    assert (Hq0 : Forall Sq (q_list (mkQ (du_nodes u) root))).
    { unfold q_list. cbn [q_nodes q_extra]. apply Forall_app. split.
      - apply Forall_forall. intros x Hx. left. exact Hx.
      - destruct root as [r0|]; [constructor; [right; right; reflexivity|constructor]|constructor]. }
    change (it_new 0) with (mkIter 0 (0 / 2) 2) in Hurl.
    assert (HJ : Jx to 0) by (split; [reflexivity|right; apply aligned_0]).
    destruct (url_h cr Hhash32 Sq Sq_wf c1 to Eto _ _ [] _ _ _ _ _ _ _ HJ Hurl
                (HUI_init cr Sq c1 c1 HB HL HW eq_refl) Hq0) as (new1 & U1 & _ & Ht).
    rewrite app_nil_r in U1, Ht.
    rewrite it_new_at_nat in Hes.
    assert (Hadd : Forall Sq (du_additional u)).
    { apply Forall_forall. intros x Hx. right. left. exact Hx. }
    destruct (extra_siblings_h cr Hhash32 Sq Sq_wf c1 _ _ _ _ _ _ _ _ Hes U1 Hadd) as (new2 & U2 & Hrest & d2 & o2 & ->).
    destruct (extra_rest_h cr Hhash32 Sq Sq_wf c1 _ _ _ _ _ _ _ Her U2 Hrest) as (new3 & U3).
    set (new := new3 ++ new2 ++ new1) in *.
    pose proof Hsig as Hsig0.
    apply upgrade_signature_binds in Hsig.
    cbn [cs_set_fork cs_roots cs_length cs_fork] in Hsig.
    destruct Hsig as (V & R & L & Fk & Sg & Hh & _).
    destruct U3 as [B1 B2 B3 B4 B5 B6 B7 B8 (F1 & F2 & F3 & F4 & F5) B9 B10].
    assert (Efields : cs_rnodes c4' = cs_rnodes c3 /\ cs_byte_length c4' = cs_byte_length c3 /\
                      cs_ancestors c4' = cs_ancestors c3 /\ cs_orig_length c4' = cs_orig_length c3 /\
                      cs_orig_fork c4' = cs_orig_fork c3 /\ cs_upgraded c4' = cs_upgraded c3).
    { unfold cs_verify_and_set_signature in Hsig0. apply bind_ok in Hsig0. destruct Hsig0 as (s0 & _ & Hs0).
      match type of Hs0 with (if ?v then _ else _) = _ => destruct v end; [|discriminate Hs0].
      injection Hs0 as <-. cbn. repeat split. }
    exists new. unfold hpool in *. rewrite R, L.
    destruct Efields as (E1 & E2 & E3 & E4 & E5 & E6).
    split; [rewrite E1; exact B4|]. split; [exact B5|]. split; [exact B6|]. split; [exact B7|].
    split; [exact B8|]. split; [rewrite E2; exact B1|]. split; [exact B2|]. split; [exact B3|].
    split; [exact Fk|]. split; [rewrite E3; exact F2|]. split; [rewrite E4; exact F3|].
    split; [rewrite E5; exact F4|]. split; [exact B9|]. split; [rewrite E6; exact B10|].
    split; [exact V|]. split; [exact Sg|]. split; [rewrite Hh; reflexivity|].
    split.
    - intros r0 -> Hc. unfold qtrackh in Ht. cbn [q_extra] in Ht.
      destruct Ht as [E|[_ Hin]].
      + rewrite E in Econs. subst consumed. discriminate Hc.
      + unfold new. apply in_or_app. right. apply in_or_app. right. exact Hin.
    - intros ->. unfold qtrackh in Ht. cbn [q_extra] in Ht. rewrite Ht in Econs. symmetry. exact Econs.
  Qed.
End VerifyUpgradeH.

Print Assumptions merge_run.
Print Assumptions append_root_h.
Print Assumptions url_h.
Print Assumptions extra_siblings_h.
Print Assumptions extra_rest_h.
Print Assumptions verify_upgrade_shape.

(* AcceptAll1.v -- C03, first contact: a block, hash or seek section together with an upgrade, sent to an
   EMPTY replica (r = 0).  The prover's root loop starts with has_upgrade = true (from = 0), the verifier
   appends every root from the queue (no grow branch); the root above the requested sub-tree is replaced
   by the section and handed to the verifier's upgrade as the extra node of its queue. *)
From HC Require Import Base NMap Codec CodecFacts Crypto FlatTree Storage Oplog Merkle Core.
From HC Require Import FlatTreeFacts Sound NoPanic TreeRef OffsetFacts CoreFacts Refine Replicate Replicate2 Replicate2Z Replicate2D.
From Coq Require Import FMapPositive ZifyN ZifyNat ZifyBool.
Ltac Zify.zify_post_hook ::= Z.div_mod_to_equations.
Arguments N.add : simpl never.
Arguments N.sub : simpl never.
Arguments N.mul : simpl never.
Arguments N.div : simpl never.
Arguments N.modulo : simpl never.
Arguments N.pow : simpl never.
Arguments N.eqb : simpl never.
Arguments N.ltb : simpl never.
Arguments N.leb : simpl never.
Arguments N.of_nat : simpl never.
Arguments N.to_nat : simpl never.
Arguments N.log2 : simpl never.

Notation root_nodes cr bs u := (map (rn cr bs) (roots_from g64 0 u)) (only parsing).
Notation addl_nodes cr bs u w := (if u <? w then map (rn cr bs) (upg_idx g64 0 u w) else []) (only parsing).

Lemma roots_tiles u : u < p2 g64 -> tiles (roots_from g64 0 u) 0 u.
Proof. intros H. apply tiles_roots_from; [apply pref_0|lia]. Qed.

Lemma depth_climb d o u : (o + 1) * p2 d <= u -> 2 * u <= u64_max -> (d < CLIMB)%nat.
Proof.
  intros H H64. assert (L : p2 d < p2 g64).
  { rewrite p2_64. unfold u64_max in H64. pose proof (p2_pos d). nia. }
  apply p2_lt_mono in L. pose proof climb_64. lia.
Qed.

Section EmptySections.
  Variable cr : crypto.
  Variable bs : list bytes.
  Hypothesis total_fits : sumN (map len bs) <= u64_max.

  (* the verifier's upgrade section on an empty changeset, with a queue that may carry an extra node *)
  Lemma verify_upgrade_empty_q c u w fork nodes sg pk broot q1 :
    0 < u -> u <= w -> 2 * w <= u64_max -> vinv cr bs c 0 -> cs_roots c = [] ->
    serves (mkQ nodes broot) (root_nodes cr bs u) q1 ->
    length sg = 64%nat ->
    cr_verify cr pk (signable (tree_hash cr (ref_roots cr bs w)) w fork) sg = true ->
    exists c3,
      verify_upgrade cr fork (mkDataUpgrade 0 u nodes (addl_nodes cr bs u w) sg) broot pk c
        = Ok (match q_extra q1 with None => true | Some _ => false end,
              cs_set_hash_sig (cs_set_fork c3 fork) (tree_hash cr (ref_roots cr bs w)) sg) /\
      vinv cr bs c3 w /\ cs_grown cr bs c c3 /\ cs_upgraded c3 = true.
  Proof.
    intros Hu Huw H64 V Hnil Hs Hsg Hver.
    pose proof climb_64 as Hc64.
    assert (Hw64 : w < p2 g64) by (rewrite p2_64; unfold u64_max in H64; lia).
    destruct (url_rest cr bs total_fits u g64 CLIMB 0 c (mkQ nodes broot) q1 0 false)
      as (c1 & it1 & Hrun & V1 & G1 & U1);
      [exact Hc64|apply pref_0|lia|exact V|discriminate|exact Hs|].
    assert (El : exists x l, rrl 0 u = x :: l).
    { destruct (rrl 0 u) as [|x l] eqn:E; [exfalso; apply (rrl_nonempty 0 u Hu E)|eauto]. }
    destruct El as (x0 & l0 & Erl).
    assert (Elast : last_root_index c1 = Ok (n_index (rn cr bs x0))).
    { unfold last_root_index. destruct V1 as (_ & V1 & _). rewrite V1, Erl. reflexivity. }
    assert (Ehd : it_new (n_index (rn cr bs x0)) = it_hd (rrl 0 u)).
    { rewrite Erl. cbn [it_hd]. unfold rn. rewrite ref_node_index. apply FlatTreeFacts.it_new_index. }
    destruct (extra_phase_addl cr bs total_fits u w c1 Hu Huw Hw64 V1) as (c2 & it2 & rest & c3 & it3 & He1 & He2 & V3 & G3).
    exists c3. split; [|split; [exact V3|split; [eapply cs_grown_trans; eassumption|eapply cs_grown_upgraded; [eassumption|apply U1; lia]]]].
    unfold verify_upgrade. cbn [du_nodes du_start du_length du_additional du_signature].
    rewrite NoPanic.add64_ok by lia. cbn [bind]. replace (0 + u) with u by lia.
    rewrite NoPanic.mul64_ok by lia. cbn [bind].
    rewrite Hnil. change (it_new 0) with (mkIter (2 * 0) 0 2). rewrite Hrun. cbn [bind].
    rewrite Elast. cbn [bind]. rewrite Ehd, He1. cbn [bind]. rewrite He2. cbn [bind].
    unfold cs_verify_and_set_signature, parse_signature. rewrite Hsg. cbn [Nat.eqb bind].
    change (Nat.eqb 64 64) with true. cbn [bind].
    unfold cs_signable, cs_tree_hash. cbn [cs_set_fork cs_length cs_fork cs_roots].
    rewrite (vinv_roots cr bs c3 w V3). destruct V3 as (-> & _ & _). rewrite Hver. reflexivity.
  Qed.

  Lemma vinv_push_empty rt visited :
    t_roots rt = [] -> t_length rt = 0 -> t_byte_length rt = 0 ->
    vinv cr bs (cs_push_nodes (tree_changeset rt) visited) 0.
  Proof.
    intros Hroots Hrl Hrb. unfold vinv, cs_push_nodes, tree_changeset. cbn [cs_length cs_roots cs_byte_length].
    rewrite Hroots, Hrl, Hrb, prefix_size_0. repeat split.
  Qed.

  (* the verifier: a tree section whose root is the root y of the requested length, and the upgrade without y *)
  Lemma verify_section_upgrade0 rt rtf u w fork sg pk l1 y l2 block hash seek visited :
    t_roots rt = [] -> t_length rt = 0 -> t_byte_length rt = 0 ->
    0 < u -> u <= w -> 2 * w <= u64_max ->
    roots_from g64 0 u = l1 ++ y :: l2 ->
    verify_tree cr block hash seek (tree_changeset rt)
      = Ok (Some (rn cr bs y), cs_push_nodes (tree_changeset rt) visited) ->
    Forall (is_ref cr bs) visited ->
    length sg = 64%nat ->
    cr_verify cr pk (signable (tree_hash cr (ref_roots cr bs w)) w fork) sg = true ->
    exists cs,
      verify_proof cr rt rtf
        (mkProof fork block hash seek
           (Some (mkDataUpgrade 0 u (map (rn cr bs) (l1 ++ l2)) (addl_nodes cr bs u w) sg))) pk = Ok cs /\
      cs_roots cs = ref_roots cr bs w /\ cs_length cs = w /\ cs_byte_length cs = prefix_size bs w /\
      cs_fork cs = fork /\ cs_upgraded cs = true /\ cs_signature cs = Some sg /\
      cs_hash cs = Some (tree_hash cr (ref_roots cr bs w)) /\
      cs_ancestors cs = 0 /\ Forall (is_ref cr bs) (cs_nodes cs) /\
      (forall n, In n visited -> In n (cs_nodes cs)) /\ commitable rt cs = true.
  Proof.
    intros Hroots Hrl Hrb Hu Huw H64 El Hvt Hvis Hs64 Hver.
    assert (Hu64 : u < p2 g64) by (rewrite p2_64; unfold u64_max in H64; lia).
    pose proof (roots_tiles u Hu64) as T. rewrite El in T.
    set (c1 := cs_push_nodes (tree_changeset rt) visited) in *.
    pose proof (vinv_push_empty rt visited Hroots Hrl Hrb) as V. fold c1 in V.
    destruct (verify_upgrade_empty_q c1 u w fork (map (rn cr bs) (l1 ++ l2)) sg pk
                (Some (rn cr bs y)) (mkQ [] None) Hu Huw H64 V)
      as (c2 & Hvu & V2 & G2 & U2); [exact Hroots| |exact Hs64|exact Hver|].
    { rewrite El, !map_app. cbn [map]. apply serves_extra. apply Forall_forall. intros n Hn.
      apply in_map_iff in Hn. destruct Hn as (x & <- & Hx). unfold rn. rewrite !ref_node_index.
      apply (tiles_idx_distinct _ _ _ _ _ T x Hx). }
    cbn [q_extra] in Hvu.
    exists (cs_set_hash_sig (cs_set_fork c2 fork) (tree_hash cr (ref_roots cr bs w)) sg).
    split.
    { unfold verify_proof. cbn [p_block p_hash p_seek p_upgrade p_fork]. rewrite Hvt. cbn [bind].
      rewrite Hvu. cbn [bind]. reflexivity. }
    pose proof (vinv_roots cr bs c2 w V2) as R2. destruct V2 as (L2 & _ & B2).
    pose proof G2 as (A2 & _ & _ & _ & _ & O1 & O2 & _).
    cbn [c1 cs_push_nodes tree_changeset cs_ancestors cs_orig_length cs_orig_fork] in A2, O1, O2.
    assert (Hn1 : Forall (is_ref cr bs) (cs_nodes c1)).
    { unfold c1. rewrite cs_nodes_push_fresh. exact Hvis. }
    pose proof (cs_nodes_grown cr bs c1 c2 G2 Hn1) as Hn2.
    assert (Hsub : forall n, In n (cs_nodes c1) -> In n (cs_nodes c2)).
    { destruct G2 as (_ & _ & _ & _ & _ & _ & _ & new & E & _). intros n. unfold cs_nodes.
      rewrite !rev_append_rev, !app_nil_r, E, rev_app_distr. intros Hin. apply in_or_app. left. exact Hin. }
    cbn [cs_set_hash_sig cs_set_fork cs_roots cs_length cs_byte_length cs_fork cs_upgraded cs_signature
         cs_hash cs_ancestors].
    split; [exact R2|]. split; [exact L2|]. split; [exact B2|]. split; [reflexivity|]. split; [exact U2|].
    split; [reflexivity|]. split; [reflexivity|]. split; [congruence|]. split; [exact Hn2|]. split.
    { intros n Hn. apply Hsub. unfold c1. rewrite cs_nodes_push_fresh. exact Hn. }
    unfold commitable. cbn [cs_set_hash_sig cs_set_fork cs_orig_fork cs_orig_length cs_upgraded].
    rewrite O1, O2, U2, !N.eqb_refl. reflexivity.
  Qed.

  (* ---------- the prover: the root loop from = 0 with a sub-tree request ---------- *)

  Section Writer0.
    Variable t : mtree.
    Variable tf : file.
    Variable w : N.
    Hypothesis Hlook : lookups cr t tf bs w.
    Variable ix : option indexed.
    Variable is_seek : bool.
    Variable sub : N.
    Variable inside : nat * N -> bool.
    Variable sec : nat * N -> list node.
    Variable put_sec : local_proof -> list node -> local_proof.
    Hypothesis Hinside : forall d o, it_contains (it_at (N.of_nat d) o) sub = inside (d, o).
    Hypothesis Hsec : forall d o p, inside (d, o) = true -> (o + 1) * p2 d <= w -> (d < CLIMB)%nat ->
      block_and_seek_proof t tf ix is_seek sub (ft_index (N.of_nat d) o) p = Ok (put_sec p (sec (d, o))).

    Lemma upgrade_proof0 u p' nodes :
      0 < u -> u <= w -> 2 * w <= u64_max ->
      gemit_all cr bs inside sec put_sec (roots_from g64 0 u) lp_empty [] = (p', nodes) ->
      upgrade_proof t tf ix is_seek (2 * 0) (2 * u) sub lp_empty
      = Ok (mkLp (lp_seek p') (lp_nodes p') (Some nodes) (lp_additional p')).
    Proof.
      intros Hu Huw H64 Hem. unfold upgrade_proof. change (2 * 0 =? 0) with true.
      change (it_new 0) with (mkIter (2 * 0) 0 2).
      rewrite (grest_emit cr bs total_fits t tf w Hlook ix is_seek sub inside sec put_sec Hinside Hsec 0 u Huw
                 g64 CLIMB 0 lp_empty []);
        [|apply climb_64|apply climb_64|apply pref_0|rewrite p2_64; unfold u64_max in H64; lia|lia].
      rewrite Hem. cbn [bind fst snd]. reflexivity.
    Qed.

    Lemma gemit_none l :
      (forall x, In x l -> inside x = false) ->
      gemit_all cr bs inside sec put_sec l lp_empty [] = (lp_empty, map (rn cr bs) l).
    Proof.
      intros H. rewrite (gemit_all_outside cr bs inside sec put_sec l lp_empty [] H). reflexivity.
    Qed.

    (* the root that contains the sub-tree is replaced by its section, the others are sent *)
    Lemma gemit_split l1 y l2 :
      inside y = true -> (forall x, In x l1 -> inside x = false) ->
      pempty (put_sec lp_empty (sec y)) = false ->
      gemit_all cr bs inside sec put_sec (l1 ++ y :: l2) lp_empty []
      = (put_sec lp_empty (sec y), map (rn cr bs) (l1 ++ l2)).
    Proof.
      intros Hy Hl1 Hpe. rewrite gemit_all_app.
      rewrite (gemit_all_outside cr bs inside sec put_sec l1 lp_empty [] Hl1).
      cbn [fst snd gemit_all app]. rewrite Hy. cbn [andb pempty lp_empty lp_nodes lp_seek].
      rewrite gemit_all_nonempty by exact Hpe. rewrite map_app. reflexivity.
    Qed.
  End Writer0.

  (* the tail of create_valueless_proof after the upgrade nodes: additional nodes and the signature *)
  Lemma additional_tail t tf w u sg p :
    lookups cr t tf bs w -> t_signature t = Some sg -> 0 < u -> u <= w -> 2 * w <= u64_max ->
    lp_additional p = None ->
    (if 2 * u <? 2 * w then additional_upgrade_proof t tf (2 * u) (2 * w) p else Ok p)
    = Ok (mkLp (lp_seek p) (lp_nodes p) (lp_upgrade p)
               (if u <? w then Some (map (rn cr bs) (upg_idx g64 0 u w)) else None)).
  Proof.
    intros Hlook Hsg Hu Huw H64 Hpa. destruct (N.ltb_spec u w) as [Lw|Lw].
    - destruct (N.ltb_spec (2 * u) (2 * w)) as [_|L3]; [|lia].
      apply (additional_created cr bs total_fits t tf w Hlook u p Hu Lw H64).
    - destruct (N.ltb_spec (2 * u) (2 * w)) as [L3|_]; [lia|].
      destruct p as [a b c d]. cbn [lp_additional] in Hpa. subst d. reflexivity.
  Qed.

  (* ---------- block + upgrade, empty replica ---------- *)

  Theorem block_upgrade_empty_accepted t tf rt rtf w u i k sg pk :
    lookups cr t tf bs w -> t_length t = w -> t_signature t = Some sg ->
    t_roots rt = [] -> t_length rt = 0 -> t_byte_length rt = 0 ->
    0 < u -> u <= w -> 2 * w <= u64_max -> i < u ->
    length sg = 64%nat ->
    cr_verify cr pk (signable (tree_hash cr (ref_roots cr bs w)) w (t_fork t)) sg = true ->
    exists l1 y l2 cs,
      roots_from g64 0 u = l1 ++ y :: l2 /\ covers y i = true /\
      let ns := path_nodes cr bs (fst y) i in
      let up := mkDataUpgrade 0 u (map (rn cr bs) (l1 ++ l2)) (addl_nodes cr bs u w) sg in
      create_valueless_proof t tf (Some (mkReqBlock i k)) None None (Some (mkReqUpgrade 0 u))
        = Ok (mkVproof (t_fork t) (Some (mkDataHash i ns)) None None (Some up)) /\
      verify_proof cr rt rtf (mkProof (t_fork t) (Some (mkDataBlock i (blk bs i) ns)) None None (Some up)) pk = Ok cs /\
      cs_roots cs = ref_roots cr bs w /\ cs_length cs = w /\ cs_byte_length cs = prefix_size bs w /\
      cs_fork cs = t_fork t /\ cs_upgraded cs = true /\ cs_signature cs = Some sg /\
      cs_hash cs = Some (tree_hash cr (ref_roots cr bs w)) /\
      cs_ancestors cs = 0 /\ Forall (is_ref cr bs) (cs_nodes cs) /\
      In (ref_node cr bs 0 i) (cs_nodes cs) /\ (forall n, In n ns -> In n (cs_nodes cs)) /\
      commitable rt cs = true.
  Proof.
    intros Hlook Hl Hsg Hroots Hrl Hrb Hu Huw H64 Hiu Hs64 Hver.
    assert (Hu64 : u < p2 g64) by (rewrite p2_64; unfold u64_max in H64; lia).
    pose proof (roots_tiles u Hu64) as T.
    destruct (tiles_split _ _ _ i T ltac:(lia) Hiu) as (l1 & [d o] & l2 & El & T1 & C1 & C2 & C3).
    cbn [fst snd] in *.
    exists l1, (d, o), l2.
    assert (Hcov : covers (d, o) i = true).
    { unfold covers. cbn [fst snd]. apply andb_true_iff. lia. }
    pose proof (depth_climb d o u C3 ltac:(lia)) as Hd.
    cbv zeta. cbn [fst].
    set (ns := path_nodes cr bs d i).
    set (up := mkDataUpgrade 0 u (map (rn cr bs) (l1 ++ l2)) (addl_nodes cr bs u w) sg).
    (* the writer *)
    set (inside := fun x : nat * N => covers x i).
    set (sec := fun x : nat * N => path_nodes cr bs (fst x) i).
    set (put_sec := fun (p : local_proof) (l : list node) => mkLp (lp_seek p) (Some l) (lp_upgrade p) (lp_additional p)).
    set (ixx := mkIndexed true (2 * i) k i).
    assert (Hinside : forall dd oo, it_contains (it_at (N.of_nat dd) oo) (2 * i) = inside (dd, oo)).
    { intros dd oo. apply it_contains_covers. }
    assert (Hsec : forall dd oo p, inside (dd, oo) = true -> (oo + 1) * p2 dd <= w -> (dd < CLIMB)%nat ->
               block_and_seek_proof t tf (Some ixx) false (2 * i) (ft_index (N.of_nat dd) oo) p = Ok (put_sec p (sec (dd, oo)))).
    { intros dd oo p Hi Hw Hc. unfold inside, covers in Hi. cbn [fst snd] in Hi. apply andb_true_iff in Hi.
      unfold ixx. rewrite (block_and_seek_value cr bs total_fits t tf w Hlook i k i (2 * i) dd oo p); try lia.
      reflexivity. }
    assert (Hl1 : forall x, In x l1 -> inside x = false).
    { intros x Hx. destruct (tiles_in _ _ _ x T1 Hx) as [_ Tx]. unfold inside, covers.
      apply andb_false_iff. right. destruct (N.ltb_spec i ((snd x + 1) * p2 (fst x))); [lia|reflexivity]. }
    assert (Hem : gemit_all cr bs inside sec put_sec (roots_from g64 0 u) lp_empty []
                  = (put_sec lp_empty (sec (d, o)), map (rn cr bs) (l1 ++ l2))).
    { rewrite El. apply (gemit_split inside sec put_sec l1 (d, o) l2 Hcov Hl1 eq_refl). }
    assert (Hcreate : create_valueless_proof t tf (Some (mkReqBlock i k)) None None (Some (mkReqUpgrade 0 u))
                      = Ok (mkVproof (t_fork t) (Some (mkDataHash i ns)) None None (Some up))).
    { unfold create_valueless_proof, normalize_indexed. cbn [ru_start ru_length rb_index rb_nodes bind].
      unfold u64_max in H64.
      rewrite !NoPanic.mul64_ok by (unfold u64_max; lia). cbn [bind].
      rewrite NoPanic.add64_ok by (unfold u64_max; lia). cbn [bind].
      replace (0 * 2 + u * 2) with (2 * u) by lia. replace (0 * 2) with (2 * 0) by lia.
      rewrite (N.mul_comm i 2), Hl.
      destruct (N.leb_spec (2 * u) (2 * 0)) as [L1|_]; [lia|].
      destruct (N.ltb_spec (2 * w) (2 * u)) as [L2|_]; [lia|]. cbn [orb negb andb bind ix_last ix_index ix_nodes].
      destruct (N.ltb_spec i 0) as [L3|_]; [lia|]. cbn [bind negb].
      fold ixx.
      rewrite (upgrade_proof0 t tf w Hlook (Some ixx) false (2 * i) inside sec put_sec Hinside Hsec u _ _ Hu Huw
                 ltac:(unfold u64_max; lia) Hem).
      cbn [bind fst snd put_sec sec lp_seek lp_nodes lp_upgrade lp_additional lp_empty].
      rewrite (additional_tail t tf w u sg) by first [assumption|reflexivity|unfold u64_max; lia].
      cbn [bind lp_seek lp_nodes lp_upgrade lp_additional]. rewrite Hsg. fold ns. unfold up.
      destruct (u <? w); reflexivity. }
    (* the replica *)
    destruct (verify_tree_ref cr bs total_fits i d o (tree_changeset rt) Hd C1 C2 ltac:(unfold u64_max in *; lia))
      as (vis & Hvt & Hvis & Hvin). fold ns in Hvt.
    destruct (verify_section_upgrade0 rt rtf u w (t_fork t) sg pk l1 (d, o) l2
                (Some (mkDataBlock i (blk bs i) ns)) None None (ref_node cr bs 0 i :: vis)
                Hroots Hrl Hrb Hu Huw H64 El Hvt ltac:(constructor; [apply ref_node_is_ref|exact Hvis]) Hs64 Hver)
      as (cs & Hv & R & L & B & F & U & Sg & Hh & A & Hn & Hin & Hcm).
    exists cs. split; [exact El|]. split; [exact Hcov|]. split; [exact Hcreate|]. split; [exact Hv|].
    repeat (split; [assumption|]). split; [apply Hin; left; reflexivity|]. split; [|exact Hcm].
    intros n Hn'. apply Hin. right.
    unfold ns, path_nodes in Hn'. apply in_map_iff in Hn'. destruct Hn' as (x & <- & Hx). apply Hvin, Hx.
  Qed.

  (* ---------- hash + upgrade, empty replica ---------- *)

  Theorem hash_upgrade_empty_accepted t tf rt rtf w u d0 a0 k sg pk l1 d o l2 :
    lookups cr t tf bs w -> t_length t = w -> t_signature t = Some sg ->
    t_roots rt = [] -> t_length rt = 0 -> t_byte_length rt = 0 ->
    0 < u -> u <= w -> 2 * w <= u64_max ->
    roots_from g64 0 u = l1 ++ (d, o) :: l2 ->
    (d0 <= d)%nat -> o * p2 (d - d0) <= a0 -> a0 < (o + 1) * p2 (d - d0) ->
    length sg = 64%nat ->
    cr_verify cr pk (signable (tree_hash cr (ref_roots cr bs w)) w (t_fork t)) sg = true ->
    let idx := ft_index (N.of_nat d0) a0 in
    let ns := hash_nodes cr bs (d - d0) d0 a0 in
    let up := mkDataUpgrade 0 u (map (rn cr bs) (l1 ++ l2)) (addl_nodes cr bs u w) sg in
    exists cs,
      create_valueless_proof t tf None (Some (mkReqBlock idx k)) None (Some (mkReqUpgrade 0 u))
        = Ok (mkVproof (t_fork t) None (Some (mkDataHash idx ns)) None (Some up)) /\
      verify_proof cr rt rtf (mkProof (t_fork t) None (Some (mkDataHash idx ns)) None (Some up)) pk = Ok cs /\
      cs_roots cs = ref_roots cr bs w /\ cs_length cs = w /\ cs_byte_length cs = prefix_size bs w /\
      cs_fork cs = t_fork t /\ cs_upgraded cs = true /\ cs_signature cs = Some sg /\
      cs_hash cs = Some (tree_hash cr (ref_roots cr bs w)) /\
      cs_ancestors cs = 0 /\ Forall (is_ref cr bs) (cs_nodes cs) /\
      In (ref_node cr bs d0 a0) (cs_nodes cs) /\ commitable rt cs = true.
  Proof.
    intros Hlook Hl Hsg Hroots Hrl Hrb Hu Huw H64 El Hdd I1 I2 Hs64 Hver idx ns up.
    assert (Hu64 : u < p2 g64) by (rewrite p2_64; unfold u64_max in H64; lia).
    pose proof (roots_tiles u Hu64) as T.
    assert (Hy : 0 <= o * p2 d /\ (o + 1) * p2 d <= u).
    { rewrite El in T. apply (tiles_in _ _ _ (d, o) T). apply in_or_app. right. left. reflexivity. }
    pose proof (depth_climb d o u (proj2 Hy) ltac:(lia)) as Hd.
    pose proof (p2_pos d0) as Hp0. pose proof (p2_pos (d - d0)) as Hpe.
    assert (Ed : p2 d = p2 (d - d0) * p2 d0) by (rewrite <- p2_add; f_equal; lia).
    (* the writer *)
    set (inside := fun x : nat * N => it_contains (it_at (N.of_nat (fst x)) (snd x)) idx).
    set (sec := fun x : nat * N => hash_nodes cr bs (fst x - d0) d0 a0).
    set (put_sec := fun (p : local_proof) (l : list node) => mkLp (lp_seek p) (Some l) (lp_upgrade p) (lp_additional p)).
    set (ixx := mkIndexed false idx k (ft_right_span idx / 2)).
    assert (Hinside : forall dd oo, it_contains (it_at (N.of_nat dd) oo) idx = inside (dd, oo)) by reflexivity.
    assert (Hsec : forall dd oo p, inside (dd, oo) = true -> (oo + 1) * p2 dd <= w -> (dd < CLIMB)%nat ->
               block_and_seek_proof t tf (Some ixx) false idx (ft_index (N.of_nat dd) oo) p = Ok (put_sec p (sec (dd, oo)))).
    { intros dd oo p Hi Hw Hc. unfold inside, idx in Hi. cbn [fst snd] in Hi.
      apply it_contains_node in Hi. destruct Hi as (Hd1 & J1 & J2).
      unfold ixx, idx. replace dd with (d0 + (dd - d0))%nat at 1 by lia.
      rewrite (block_and_seek_hash cr bs total_fits t tf w Hlook d0 a0 k _ _ (dd - d0) oo p J1 J2); try lia.
      - reflexivity.
      - replace (d0 + (dd - d0))%nat with dd by lia. exact Hw. }
    assert (Hiy : inside (d, o) = true).
    { unfold inside, idx. cbn [fst snd]. apply (it_contains_spec _ _ (wf_at _ _)).
      pose proof (lo_at (N.of_nat d) o) as Hlo'. pose proof (hi_at (N.of_nat d) o) as Hhi'. fold (p2 d) in Hlo', Hhi'.
      pose proof (ft_index_succ (N.of_nat d0) a0) as Hix. fold (p2 d0) in Hix.
      assert (o * p2 d <= a0 * p2 d0) by (rewrite Ed; apply (N.mul_le_mono_r _ _ (p2 d0)) in I1; lia).
      assert ((a0 + 1) * p2 d0 <= (o + 1) * p2 d).
      { rewrite Ed. assert (a0 + 1 <= (o + 1) * p2 (d - d0)) by lia.
        apply (N.mul_le_mono_r _ _ (p2 d0)) in H0. lia. }
      lia. }
    assert (Hl1 : forall x, In x l1 -> inside x = false).
    { intros [dx ox] Hx. unfold inside. cbn [fst snd].
      destruct (it_contains (it_at (N.of_nat dx) ox) idx) eqn:E; [|reflexivity]. exfalso.
      unfold idx in E. apply it_contains_node in E. destruct E as (Hd1 & J1 & J2).
      rewrite El in T. pose proof (tiles_prefix _ _ _ _ _ T) as T1.
      destruct (tiles_in _ _ _ (dx, ox) T1 Hx) as [_ Tx]. cbn [fst snd] in Tx.
      assert (Edx : p2 dx = p2 (dx - d0) * p2 d0) by (rewrite <- p2_add; f_equal; lia).
      assert ((a0 + 1) * p2 d0 <= (ox + 1) * p2 dx).
      { rewrite Edx. assert (a0 + 1 <= (ox + 1) * p2 (dx - d0)) by lia.
        apply (N.mul_le_mono_r _ _ (p2 d0)) in H. lia. }
      assert (o * p2 d <= a0 * p2 d0) by (rewrite Ed; apply (N.mul_le_mono_r _ _ (p2 d0)) in I1; lia).
      lia. }
    assert (Hem : gemit_all cr bs inside sec put_sec (roots_from g64 0 u) lp_empty []
                  = (put_sec lp_empty (sec (d, o)), map (rn cr bs) (l1 ++ l2))).
    { rewrite El. apply (gemit_split inside sec put_sec l1 (d, o) l2 Hiy Hl1 eq_refl). }
    assert (Hcreate : create_valueless_proof t tf None (Some (mkReqBlock idx k)) None (Some (mkReqUpgrade 0 u))
                      = Ok (mkVproof (t_fork t) None (Some (mkDataHash idx ns)) None (Some up))).
    { unfold create_valueless_proof, normalize_indexed. cbn [ru_start ru_length rb_index rb_nodes bind].
      unfold u64_max in H64.
      rewrite !NoPanic.mul64_ok by (unfold u64_max; lia). cbn [bind].
      rewrite NoPanic.add64_ok by (unfold u64_max; lia). cbn [bind].
      replace (0 * 2 + u * 2) with (2 * u) by lia. replace (0 * 2) with (2 * 0) by lia. rewrite Hl.
      destruct (N.leb_spec (2 * u) (2 * 0)) as [L1|_]; [lia|].
      destruct (N.ltb_spec (2 * w) (2 * u)) as [L2|_]; [lia|]. cbn [orb negb andb bind ix_last ix_index ix_nodes].
      destruct (N.ltb_spec (ft_right_span idx / 2) 0) as [L3|_]; [lia|]. cbn [bind negb].
      fold ixx.
      rewrite (upgrade_proof0 t tf w Hlook (Some ixx) false idx inside sec put_sec Hinside Hsec u _ _ Hu Huw
                 ltac:(unfold u64_max; lia) Hem).
      cbn [bind fst snd put_sec sec lp_seek lp_nodes lp_upgrade lp_additional lp_empty].
      rewrite (additional_tail t tf w u sg) by first [assumption|reflexivity|unfold u64_max; lia].
      cbn [bind lp_seek lp_nodes lp_upgrade lp_additional]. rewrite Hsg. fold ns. unfold up.
      destruct (u <? w); reflexivity. }
    (* the replica *)
    destruct (verify_tree_hash_ref cr bs total_fits d0 a0 (d - d0) o (tree_changeset rt) ltac:(lia) I1 I2)
      as (vis & Hvt & Hvis & _).
    replace (d0 + (d - d0))%nat with d in Hvt by lia. fold idx in Hvt. fold ns in Hvt.
    destruct (verify_section_upgrade0 rt rtf u w (t_fork t) sg pk l1 (d, o) l2 None
                (Some (mkDataHash idx ns)) None (ref_node cr bs d0 a0 :: vis)
                Hroots Hrl Hrb Hu Huw H64 El Hvt ltac:(constructor; [apply ref_node_is_ref|exact Hvis]) Hs64 Hver)
      as (cs & Hv & R & L & B & F & U & Sg & Hh & A & Hn & Hin & Hcm).
    exists cs. split; [exact Hcreate|]. split; [exact Hv|].
    repeat (split; [assumption|]). split; [|exact Hcm]. apply Hin. left. reflexivity.
  Qed.

  (* ---------- seek + upgrade, empty replica ---------- *)

  Lemma seek_upgrade0_created t tf w u bytes sg S sk nodes :
    lookups cr t tf bs w -> t_length t = w -> t_signature t = Some sg ->
    0 < u -> u <= w -> 2 * w <= u64_max ->
    seek_from_head t tf (2 * u) bytes = Ok S ->
    upgrade_proof t tf None true (2 * 0) (2 * u) S lp_empty
      = Ok (mkLp sk None (Some nodes) None) ->
    create_valueless_proof t tf None None (Some (mkReqSeek bytes)) (Some (mkReqUpgrade 0 u))
    = Ok (mkVproof (t_fork t) None None
            (match sk with Some ns => Some (mkDataSeek bytes ns) | None => None end)
            (Some (mkDataUpgrade 0 u nodes (addl_nodes cr bs u w) sg))).
  Proof.
    intros Hlook Hl Hsg Hu Huw H64 HS Hup.
    unfold create_valueless_proof, normalize_indexed. cbn [ru_start ru_length rs_bytes bind].
    unfold u64_max in H64.
    rewrite !NoPanic.mul64_ok by (unfold u64_max; lia). cbn [bind].
    rewrite NoPanic.add64_ok by (unfold u64_max; lia). cbn [bind].
    replace (0 * 2 + u * 2) with (2 * u) by lia. replace (0 * 2) with (2 * 0) by lia. rewrite Hl.
    destruct (N.leb_spec (2 * u) (2 * 0)) as [L1|_]; [lia|].
    destruct (N.ltb_spec (2 * w) (2 * u)) as [L2|_]; [lia|]. cbn [orb negb andb bind].
    rewrite HS. cbn [bind]. rewrite Hup. cbn [bind].
    rewrite (additional_tail t tf w u sg) by first [assumption|reflexivity|unfold u64_max; lia].
    cbn [bind lp_seek lp_nodes lp_upgrade lp_additional]. rewrite Hsg. cbn [bind].
    destruct sk; destruct (u <? w); reflexivity.
  Qed.

  (* Seek with upgrade on an empty replica: any byte offset.  If a root of the requested length covers the
     seek target S it is replaced by the seek section, otherwise (the offset lies beyond the requested
     length) the proof has no seek section. *)
  Theorem seek_upgrade_empty_accepted t tf rt rtf w u bytes sg pk :
    lookups cr t tf bs w -> t_length t = w -> t_signature t = Some sg ->
    t_roots rt = [] -> t_length rt = 0 -> t_byte_length rt = 0 ->
    0 < u -> u <= w -> 2 * w <= u64_max ->
    length sg = 64%nat ->
    cr_verify cr pk (signable (tree_hash cr (ref_roots cr bs w)) w (t_fork t)) sg = true ->
    exists vp cs,
      create_valueless_proof t tf None None (Some (mkReqSeek bytes)) (Some (mkReqUpgrade 0 u)) = Ok vp /\
      vp_block vp = None /\ vp_hash vp = None /\ vp_fork vp = t_fork t /\
      verify_proof cr rt rtf (vp_to_proof vp None) pk = Ok cs /\
      cs_roots cs = ref_roots cr bs w /\ cs_length cs = w /\ cs_byte_length cs = prefix_size bs w /\
      cs_fork cs = t_fork t /\ cs_upgraded cs = true /\ cs_signature cs = Some sg /\
      cs_hash cs = Some (tree_hash cr (ref_roots cr bs w)) /\
      cs_ancestors cs = 0 /\ Forall (is_ref cr bs) (cs_nodes cs) /\ commitable rt cs = true.
  Proof.
    intros Hlook Hl Hsg Hroots Hrl Hrb Hu Huw H64 Hs64 Hver.
    assert (Hu64 : u < p2 g64) by (rewrite p2_64; unfold u64_max in H64; lia).
    pose proof (roots_tiles u Hu64) as T.
    destruct (seek_from_head_ok cr bs total_fits t tf w Hlook u bytes Huw ltac:(lia)) as (S & HS).
    set (dS := N.to_nat (ft_depth S)). set (aS := ft_offset S).
    assert (ES : S = ft_index (N.of_nat dS) aS).
    { unfold dS, aS. rewrite N2Nat.id. symmetry. apply ft_index_depth_offset. }
    set (sec := fun x : nat * N => hash_nodes cr bs (fst x - dS) dS aS).
    set (put_sec := fun (p : local_proof) (l : list node) => mkLp (Some l) (lp_nodes p) (lp_upgrade p) (lp_additional p)).
    assert (Hinside : forall d o, it_contains (it_at (N.of_nat d) o) S = inside_S S (d, o)) by reflexivity.
    assert (Hsec : forall d o p, inside_S S (d, o) = true -> (o + 1) * p2 d <= w -> (d < CLIMB)%nat ->
               block_and_seek_proof t tf None true S (ft_index (N.of_nat d) o) p = Ok (put_sec p (sec (d, o)))).
    { intros d o p Hi Hw Hd. unfold inside_S in Hi. cbn [fst snd] in Hi. rewrite ES in Hi.
      apply it_contains_node in Hi. destruct Hi as (Hdd & I1 & I2).
      cbn [block_and_seek_proof]. rewrite ES at 1.
      rewrite (seek_proof_spec cr bs total_fits t tf w Hlook dS aS d o p Hdd I1 I2 Hw Hd). reflexivity. }
    pose proof (fun p' nodes => upgrade_proof0 t tf w Hlook None true S (inside_S S) sec put_sec Hinside Hsec u p' nodes
                  Hu Huw H64) as Hup0.
    destruct (first_inside (inside_S S) (roots_from g64 0 u)) as [Hnone|(l1 & [d o] & l2 & El & Hy & Hl1)].
    - (* no root covers the target: the proof is the upgrade-only proof *)
      pose proof (Hup0 _ _ (gemit_none (inside_S S) sec put_sec _ Hnone)) as Hup.
      destruct (empty_upgrade_accepted cr bs total_fits t tf rt rtf w u sg pk Hlook Hl Hsg Hroots Hrl Hrb
                  Hu Huw H64 Hs64 Hver) as (cs & _ & Hv & R & L & B & F & U & Sg & Hh & A & Hn & Hcm & _).
      exists (mkVproof (t_fork t) None None None
                (Some (mkDataUpgrade 0 u (root_nodes cr bs u) (addl_nodes cr bs u w) sg))), cs.
      split.
      { rewrite (seek_upgrade0_created t tf w u bytes sg S None (root_nodes cr bs u) Hlook Hl Hsg Hu Huw H64 HS Hup). reflexivity. }
      cbn [vp_block vp_hash vp_fork]. split; [reflexivity|]. split; [reflexivity|]. split; [reflexivity|].
      unfold vp_to_proof. cbn [vp_block vp_hash vp_seek vp_upgrade vp_fork].
      split; [exact Hv|]. repeat (split; [assumption|]). assumption.
    - pose proof Hy as Hy'. unfold inside_S in Hy'. cbn [fst snd] in Hy'. rewrite ES in Hy'.
      apply it_contains_node in Hy'. destruct Hy' as (Hdd & I1 & I2).
      assert (Hem : gemit_all cr bs (inside_S S) sec put_sec (roots_from g64 0 u) lp_empty []
                    = (put_sec lp_empty (sec (d, o)), map (rn cr bs) (l1 ++ l2))).
      { rewrite El. apply (gemit_split (inside_S S) sec put_sec l1 (d, o) l2 Hy Hl1 eq_refl). }
      pose proof (Hup0 _ _ Hem) as Hup.
      assert (Hyw : (o + 1) * p2 d <= u).
      { rewrite El in T. apply (tiles_in _ _ _ (d, o) T). apply in_or_app. right. left. reflexivity. }
      pose proof (depth_climb d o u Hyw ltac:(lia)) as Hd.
      destruct (verify_tree_seek_ref cr bs total_fits bytes dS aS (d - dS) o (tree_changeset rt) ltac:(lia) I1 I2)
        as (vis & Hvt & Hvis).
      replace (dS + (d - dS))%nat with d in Hvt by lia.
      destruct (verify_section_upgrade0 rt rtf u w (t_fork t) sg pk l1 (d, o) l2 None None
                  (Some (mkDataSeek bytes (hash_nodes cr bs (d - dS) dS aS))) (ref_node cr bs dS aS :: vis)
                  Hroots Hrl Hrb Hu Huw H64 El Hvt ltac:(constructor; [apply ref_node_is_ref|exact Hvis]) Hs64 Hver)
        as (cs & Hv & R & L & B & F & U & Sg & Hh & A & Hn & _ & Hcm).
      exists (mkVproof (t_fork t) None None (Some (mkDataSeek bytes (hash_nodes cr bs (d - dS) dS aS)))
                (Some (mkDataUpgrade 0 u (map (rn cr bs) (l1 ++ l2)) (addl_nodes cr bs u w) sg))), cs.
      split.
      { rewrite (seek_upgrade0_created t tf w u bytes sg S
                   (Some (hash_nodes cr bs (d - dS) dS aS)) (map (rn cr bs) (l1 ++ l2)) Hlook Hl Hsg Hu Huw H64 HS Hup).
        reflexivity. }
      cbn [vp_block vp_hash vp_fork]. split; [reflexivity|]. split; [reflexivity|]. split; [reflexivity|].
      unfold vp_to_proof. cbn [vp_block vp_hash vp_seek vp_upgrade vp_fork].
      split; [exact Hv|]. repeat (split; [assumption|]). assumption.
  Qed.
End EmptySections.

Print Assumptions verify_upgrade_empty_q.
Print Assumptions verify_section_upgrade0.
Print Assumptions block_upgrade_empty_accepted.
Print Assumptions hash_upgrade_empty_accepted.
Print Assumptions seek_upgrade_empty_accepted.

(* FlatTreeFacts.v — facts about flat-tree arithmetic and the stateful iterator of FlatTree.v.
   The iterator facts are stated on the power-free invariant [wf]; powers of two only appear in
   the section relating [ft_depth]/[ft_offset]/[ft_index] (needed once, for [it_new]). *)
From HC Require Import Base FlatTree.
From Coq Require Import ZifyN ZifyNat ZifyBool.
Ltac Zify.zify_post_hook ::= Z.div_mod_to_equations.
Arguments N.add : simpl never.
Arguments N.sub : simpl never.
Arguments N.mul : simpl never.
Arguments N.div : simpl never.
Arguments N.modulo : simpl never.
Arguments N.pow : simpl never.
Arguments N.eqb : simpl never.
Arguments N.ltb : simpl never.
Arguments N.leb : simpl never.

(* ---------- parity ---------- *)

Lemma parity (n : N) :
  (N.even n = true /\ N.odd n = false /\ exists q, n = 2 * q) \/
  (N.even n = false /\ N.odd n = true /\ exists q, n = 2 * q + 1).
Proof.
  destruct (N.even n) eqn:E.
  - left. split; [reflexivity|]. split.
    + rewrite <- N.negb_even, E. reflexivity.
    + apply N.even_spec in E. destruct E as [q E]. exists q. exact E.
  - right. split; [reflexivity|].
    assert (O : N.odd n = true) by (rewrite <- N.negb_even, E; reflexivity).
    split; [exact O|]. apply N.odd_spec in O. destruct O as [q O]. exists q. exact O.
Qed.

Lemma even_mod (n : N) : N.even n = (n mod 2 =? 0).
Proof. destruct (parity n) as [(E & _ & q & ->)|(E & _ & q & ->)]; rewrite E; lia. Qed.

Lemma odd_mod (n : N) : N.odd n = (n mod 2 =? 1).
Proof. destruct (parity n) as [(_ & E & q & ->)|(_ & E & q & ->)]; rewrite E; lia. Qed.

(* ---------- powers: depth / offset / index ---------- *)

Lemma pow2_pos (d : N) : 0 < 2 ^ d.
Proof. apply N.neq_0_lt_0. apply N.pow_nonzero. discriminate. Qed.

Lemma pow2_succ (d : N) : 2 ^ (d + 1) = 2 * 2 ^ d.
Proof. rewrite N.add_1_r. apply N.pow_succ_r'. Qed.

Lemma tz_spec (p : positive) : exists k, N.pos p = 2 ^ tz p * (2 * k + 1).
Proof.
  induction p as [p _|p [k IH]|].
  - exists (N.pos p). cbn [tz]. rewrite N.pow_0_r. lia.
  - exists k. cbn [tz]. rewrite N.add_comm, pow2_succ. lia.
  - exists 0. cbn [tz]. rewrite N.pow_0_r. reflexivity.
Qed.

(* uniqueness of the decomposition  2^d * (2 o + 1) *)
Lemma pow2_odd_unique (d : N) :
  forall d' o o', 2 ^ d * (2 * o + 1) = 2 ^ d' * (2 * o' + 1) -> d = d' /\ o = o'.
Proof.
  induction d as [|d IH] using N.peano_ind; intros d' o o' H.
  - rewrite N.pow_0_r in H.
    destruct d' as [|d'] using N.peano_ind.
    + rewrite N.pow_0_r in H. lia.
    + rewrite N.pow_succ_r' in H. lia.
  - rewrite N.pow_succ_r' in H.
    destruct d' as [|d' _] using N.peano_ind.
    + rewrite N.pow_0_r in H. lia.
    + rewrite N.pow_succ_r' in H.
      destruct (IH d' o o') as [-> ->]; [lia|]. split; reflexivity.
Qed.

Lemma ft_depth_even (i : N) : N.even i = true -> ft_depth i = 0.
Proof. destruct i as [|[q|q|]]; intros H; try discriminate H; reflexivity. Qed.

(* i + 1 = 2^depth * (2 * offset + 1) *)
Lemma ft_decomp (i : N) : i + 1 = 2 ^ ft_depth i * (2 * ft_offset i + 1).
Proof.
  unfold ft_offset.
  destruct (parity i) as [(E & _ & q & Hq)|(E & _ & q & Hq)]; rewrite E.
  - rewrite (ft_depth_even i E), N.pow_0_r. lia.
  - unfold ft_depth. destruct (tz_spec (N.succ_pos i)) as [k Hk].
    rewrite N.succ_pos_spec in Hk. rewrite pow2_succ.
    pose proof (pow2_pos (tz (N.succ_pos i))) as Hp.
    set (P := 2 ^ tz (N.succ_pos i)) in *.
    assert (Hd : k = i / (2 * P)).
    { apply (N.div_unique i (2 * P) k (P - 1)); lia. }
    rewrite <- Hd. lia.
Qed.

Lemma ft_index_succ (d o : N) : ft_index d o + 1 = 2 ^ d * (2 * o + 1).
Proof. unfold ft_index. rewrite pow2_succ. pose proof (pow2_pos d). lia. Qed.

Lemma ft_depth_index (d o : N) : ft_depth (ft_index d o) = d.
Proof.
  pose proof (ft_decomp (ft_index d o)) as H. rewrite ft_index_succ in H.
  symmetry in H. apply pow2_odd_unique in H. tauto.
Qed.

Lemma ft_offset_index (d o : N) : ft_offset (ft_index d o) = o.
Proof.
  pose proof (ft_decomp (ft_index d o)) as H. rewrite ft_index_succ in H.
  symmetry in H. apply pow2_odd_unique in H. tauto.
Qed.

Lemma ft_index_depth_offset (i : N) : ft_index (ft_depth i) (ft_offset i) = i.
Proof. pose proof (ft_index_succ (ft_depth i) (ft_offset i)). pose proof (ft_decomp i). lia. Qed.

Lemma ft_index_inj (d o d' o' : N) : ft_index d o = ft_index d' o' -> d = d' /\ o = o'.
Proof.
  intros H. apply (pow2_odd_unique d d' o o'). rewrite <- !ft_index_succ, H. reflexivity.
Qed.

Lemma ft_index_leaf (o : N) : ft_index 0 o = 2 * o.
Proof. unfold ft_index. rewrite N.add_0_l, N.pow_1_r, N.pow_0_r. lia. Qed.

Lemma ft_index_lt_offset (d o o' : N) : o < o' -> ft_index d o < ft_index d o'.
Proof.
  intros H. pose proof (ft_index_succ d o). pose proof (ft_index_succ d o').
  pose proof (pow2_pos d). nia.
Qed.

(* index of a parent from its children *)
Lemma ft_index_parent_left (d o : N) : ft_index (d + 1) o = ft_index d (2 * o) + 2 ^ d.
Proof.
  pose proof (ft_index_succ (d + 1) o) as H1. pose proof (ft_index_succ d (2 * o)) as H2.
  rewrite pow2_succ in H1. lia.
Qed.

Lemma ft_index_sibling_right (d o : N) : ft_index d (o + 1) = ft_index d o + 2 ^ (d + 1).
Proof.
  pose proof (ft_index_succ d (o + 1)) as H1. pose proof (ft_index_succ d o) as H2.
  rewrite pow2_succ. lia.
Qed.

(* ---------- the iterator positioned at (depth, offset) ---------- *)

Definition it_at (d o : N) : fiter := mkIter (ft_index d o) o (2 ^ (d + 1)).

Lemma it_new_at (i : N) : it_new i = it_at (ft_depth i) (ft_offset i).
Proof.
  unfold it_new, it_at. rewrite ft_index_depth_offset.
  destruct (parity i) as [(E & O & _)|(E & O & _)]; rewrite O.
  - unfold ft_offset. rewrite E, (ft_depth_even i E). reflexivity.
  - reflexivity.
Qed.

Lemma it_new_index (d o : N) : it_new (ft_index d o) = it_at d o.
Proof. rewrite it_new_at, ft_depth_index, ft_offset_index. reflexivity. Qed.

(* ---------- the power-free invariant ---------- *)

(* h is half the factor, i.e. 2^depth *)
Definition wf (t : fiter) : Prop :=
  exists h, it_factor t = 2 * h /\ 0 < h /\ it_index t + 1 = it_offset t * it_factor t + h.

Definition it_half (t : fiter) : N := it_factor t / 2.

Lemma wf_half (t : fiter) :
  wf t <-> (it_factor t = 2 * it_half t /\ 0 < it_half t /\
            it_index t + 1 = it_offset t * it_factor t + it_half t).
Proof.
  unfold wf, it_half. split.
  - intros (h & Hf & Hh & Hi). assert (it_factor t / 2 = h) as -> by lia. auto.
  - intros H. exists (it_factor t / 2). exact H.
Qed.

Lemma wf_at (d o : N) : wf (it_at d o).
Proof.
  exists (2 ^ d). cbn [it_at it_factor it_index it_offset].
  pose proof (pow2_pos d). pose proof (ft_index_succ d o). rewrite pow2_succ. lia.
Qed.

Lemma wf_new (i : N) : wf (it_new i).
Proof. rewrite it_new_at. apply wf_at. Qed.

Ltac wf_open t H :=
  let i := fresh "i" in let o := fresh "o" in let f := fresh "f" in
  let h := fresh "h" in let Hf := fresh "Hf" in let Hh := fresh "Hh" in let Hi := fresh "Hi" in
  destruct t as [i o f]; destruct H as (h & Hf & Hh & Hi);
  cbn [it_index it_offset it_factor] in Hf, Hh, Hi; subst f.

Lemma wf_parent (t : fiter) : wf t -> wf (it_parent t).
Proof.
  intros H. wf_open t H. unfold it_parent. cbn [it_index it_offset it_factor].
  rewrite odd_mod. exists (2 * h).
  destruct (o mod 2 =? 1) eqn:E; cbn [it_index it_offset it_factor].
  - assert (exists q, o = 2 * q + 1) as [q ->] by (exists (o / 2); lia).
    replace ((2 * q + 1 - 1) / 2) with q by lia. lia.
  - assert (exists q, o = 2 * q) as [q ->] by (exists (o / 2); lia).
    replace (2 * q / 2) with q by lia. lia.
Qed.

Lemma wf_next (t : fiter) : wf t -> wf (it_next t).
Proof.
  intros H. wf_open t H. unfold it_next. cbn [it_index it_offset it_factor].
  exists h. cbn [it_index it_offset it_factor]. lia.
Qed.

Lemma wf_prev (t : fiter) : wf t -> wf (it_prev t).
Proof.
  intros H. unfold it_prev. destruct (it_offset t =? 0) eqn:E; [exact H|].
  wf_open t H. cbn [it_index it_offset it_factor] in *.
  exists h. cbn [it_index it_offset it_factor].
  assert (exists q, o = q + 1) as [q ->] by (exists (o - 1); lia).
  replace (q + 1 - 1) with q by lia. lia.
Qed.

Lemma wf_sibling (t : fiter) : wf t -> wf (it_sibling t).
Proof.
  intros H. unfold it_sibling. destruct (N.even (it_offset t)).
  - apply wf_next, H.
  - apply wf_prev, H.
Qed.

(* REQUESTED (false as stated):
     wf t -> it_factor t <> 2 -> wf (it_left_child t) /\ wf (it_right_child t).
   Counterexample: t = mkIter 2 0 6 satisfies wf with h = 3, but its children have factor 3,
   which is odd (see [wf_children_counterexample] below).  wf does not force h to be even.
   True version: add the hypothesis that the factor is a multiple of 4 (always the case for an
   iterator [it_at d o] with 0 < d, see [it_left_child_at] / [it_right_child_at]). *)
Lemma wf_children (t : fiter) :
  wf t -> it_factor t mod 4 = 0 -> wf (it_left_child t) /\ wf (it_right_child t).
Proof.
  intros H Hn. wf_open t H. cbn [it_factor] in Hn.
  unfold it_left_child, it_right_child. cbn [it_index it_offset it_factor].
  destruct (2 * h =? 2) eqn:E; [lia|].
  assert (exists g, h = 2 * g) as [g ->] by (exists (h / 2); lia).
  replace (2 * (2 * g) / 2) with (2 * g) by lia. replace (2 * g / 2) with g by lia.
  split; exists g; cbn [it_index it_offset it_factor]; lia.
Qed.

Example wf_children_counterexample :
  wf (mkIter 2 0 6) /\ it_factor (mkIter 2 0 6) <> 2 /\ ~ wf (it_left_child (mkIter 2 0 6)).
Proof.
  split; [exists 3; cbn; lia|]. split; [cbn; lia|].
  intros (h & Hf & _). change (it_factor (it_left_child (mkIter 2 0 6))) with 3 in Hf. lia.
Qed.

(* ---------- algebra of sibling / parent / children ---------- *)

Lemma sib_even (i o f : N) : o mod 2 = 0 -> it_sibling (mkIter i o f) = mkIter (i + f) (o + 1) f.
Proof.
  intros H. unfold it_sibling, it_next. cbn [it_index it_offset it_factor].
  rewrite even_mod. destruct (o mod 2 =? 0) eqn:E; [reflexivity|lia].
Qed.

Lemma sib_odd (i o f : N) : o mod 2 = 1 -> it_sibling (mkIter i o f) = mkIter (i - f) (o - 1) f.
Proof.
  intros H. unfold it_sibling, it_prev. cbn [it_index it_offset it_factor].
  rewrite even_mod. destruct (o mod 2 =? 0) eqn:E; [lia|].
  destruct (o =? 0) eqn:E0; [lia|reflexivity].
Qed.

Lemma par_even (i o f : N) :
  o mod 2 = 0 -> it_parent (mkIter i o f) = mkIter (i + f / 2) (o / 2) (f * 2).
Proof.
  intros H. unfold it_parent. cbn [it_index it_offset it_factor].
  rewrite odd_mod. destruct (o mod 2 =? 1) eqn:E; [lia|reflexivity].
Qed.

Lemma par_odd (i o f : N) :
  o mod 2 = 1 -> it_parent (mkIter i o f) = mkIter (i - f / 2) ((o - 1) / 2) (f * 2).
Proof.
  intros H. unfold it_parent. cbn [it_index it_offset it_factor].
  rewrite odd_mod. destruct (o mod 2 =? 1) eqn:E; [reflexivity|lia].
Qed.

Lemma mod2_cases (o : N) : (o mod 2 = 0 /\ exists q, o = 2 * q) \/ (o mod 2 = 1 /\ exists q, o = 2 * q + 1).
Proof.
  assert (o mod 2 = 0 \/ o mod 2 = 1) as [H|H] by lia; [left|right]; (split; [exact H|]);
    exists (o / 2); lia.
Qed.

Lemma it_sibling_involutive (t : fiter) : wf t -> it_sibling (it_sibling t) = t.
Proof.
  intros H. wf_open t H.
  destruct (mod2_cases o) as [(E & q & Hq)|(E & q & Hq)].
  - rewrite sib_even by exact E. rewrite sib_odd by lia. f_equal; lia.
  - rewrite sib_odd by exact E. rewrite sib_even by lia. subst o. f_equal; lia.
Qed.

Lemma it_parent_sibling (t : fiter) : wf t -> it_parent (it_sibling t) = it_parent t.
Proof.
  intros H. wf_open t H.
  destruct (mod2_cases o) as [(E & q & Hq)|(E & q & Hq)].
  - rewrite sib_even by exact E. rewrite par_odd by lia. rewrite par_even by exact E.
    f_equal; lia.
  - rewrite sib_odd by exact E. rewrite par_even by lia. rewrite par_odd by exact E.
    subst o. f_equal; lia.
Qed.

(* a left node: parent is h to the right, sibling 2h to the right *)
Lemma it_left_node (t : fiter) :
  wf t -> it_is_right t = false ->
  it_index (it_parent t) = it_index t + it_half t /\
  it_index (it_sibling t) = it_index t + 2 * it_half t /\
  it_offset (it_sibling t) = it_offset t + 1 /\
  it_offset (it_parent t) = it_offset t / 2.
Proof.
  intros H. unfold it_is_right, it_half. wf_open t H.
  unfold it_parent, it_sibling, it_next. cbn [it_index it_offset it_factor].
  intros R. rewrite R. assert (E : N.even o = true) by (rewrite <- N.negb_odd, R; reflexivity).
  rewrite E. cbn [it_index it_offset it_factor]. lia.
Qed.

(* a right node: parent is h to the left, sibling 2h to the left *)
Lemma it_right_node (t : fiter) :
  wf t -> it_is_right t = true ->
  it_index (it_parent t) + it_half t = it_index t /\
  it_index (it_sibling t) + 2 * it_half t = it_index t /\
  it_offset (it_sibling t) + 1 = it_offset t /\
  it_offset (it_parent t) = it_offset t / 2.
Proof.
  intros H. unfold it_is_right, it_half. wf_open t H.
  unfold it_parent, it_sibling, it_prev. cbn [it_index it_offset it_factor].
  intros R. rewrite R. assert (E : N.even o = false) by (rewrite <- N.negb_odd, R; reflexivity).
  rewrite E. rewrite odd_mod in R.
  destruct (o =? 0) eqn:E0; [lia|]. cbn [it_index it_offset it_factor].
  assert (exists q, o = 2 * q + 1) as [q ->] by (exists (o / 2); lia).
  split; [|split; [|split]]; lia.
Qed.

Lemma it_parent_factor (t : fiter) : it_factor (it_parent t) = 2 * it_factor t.
Proof. unfold it_parent. destruct (N.odd (it_offset t)); cbn [it_factor]; lia. Qed.

Lemma it_sibling_factor (t : fiter) : it_factor (it_sibling t) = it_factor t.
Proof.
  unfold it_sibling, it_next, it_prev. destruct (N.even (it_offset t)); [reflexivity|].
  destruct (it_offset t =? 0); reflexivity.
Qed.

(* descending again from the parent *)
Lemma it_left_child_parent (t : fiter) :
  wf t -> it_left_child (it_parent t) = if it_is_right t then it_sibling t else t.
Proof.
  intros H. unfold it_is_right. wf_open t H. cbn [it_offset]. rewrite odd_mod.
  destruct (mod2_cases o) as [(E & q & Hq)|(E & q & Hq)].
  - rewrite par_even by exact E. destruct (o mod 2 =? 1) eqn:E1; [lia|].
    unfold it_left_child. cbn [it_index it_offset it_factor].
    destruct (2 * h * 2 =? 2) eqn:E2; [lia|]. f_equal; lia.
  - rewrite par_odd, sib_odd by exact E. destruct (o mod 2 =? 1) eqn:E1; [|lia].
    unfold it_left_child. cbn [it_index it_offset it_factor].
    destruct (2 * h * 2 =? 2) eqn:E2; [lia|]. subst o. f_equal; lia.
Qed.

Lemma it_right_child_parent (t : fiter) :
  wf t -> it_right_child (it_parent t) = if it_is_right t then t else it_sibling t.
Proof.
  intros H. unfold it_is_right. wf_open t H. cbn [it_offset]. rewrite odd_mod.
  destruct (mod2_cases o) as [(E & q & Hq)|(E & q & Hq)].
  - rewrite par_even, sib_even by exact E. destruct (o mod 2 =? 1) eqn:E1; [lia|].
    unfold it_right_child. cbn [it_index it_offset it_factor].
    destruct (2 * h * 2 =? 2) eqn:E2; [lia|]. f_equal; lia.
  - rewrite par_odd by exact E. destruct (o mod 2 =? 1) eqn:E1; [|lia].
    unfold it_right_child. cbn [it_index it_offset it_factor].
    destruct (2 * h * 2 =? 2) eqn:E2; [lia|]. subst o. f_equal; lia.
Qed.

(* ---------- spans ---------- *)

(* leftmost / rightmost flat index below the iterator *)
Definition lo (t : fiter) : N := it_index t + 1 - it_half t.
Definition hi (t : fiter) : N := it_index t + it_half t - 1.

Lemma lo_le_hi (t : fiter) : wf t -> lo t <= it_index t /\ it_index t <= hi t.
Proof. intros H. unfold lo, hi, it_half. wf_open t H. cbn [it_index it_factor]. lia. Qed.

Lemma it_right_span_index_hi (t : fiter) : it_right_span_index t = hi t.
Proof. reflexivity. Qed.

(* the children split the span of the parent, the parent index sitting in the middle *)
Lemma span_children (t : fiter) :
  wf t -> it_factor t mod 4 = 0 ->
  lo (it_left_child t) = lo t /\
  hi (it_left_child t) + 1 = it_index t /\
  lo (it_right_child t) = it_index t + 1 /\
  hi (it_right_child t) = hi t.
Proof.
  intros H Hn. unfold lo, hi, it_half. wf_open t H. cbn [it_factor] in Hn.
  unfold it_left_child, it_right_child. cbn [it_index it_offset it_factor].
  destruct (2 * h =? 2) eqn:E; [lia|]. cbn [it_index it_offset it_factor].
  assert (exists g, h = 2 * g) as [g ->] by (exists (h / 2); lia).
  replace (2 * (2 * g) / 2) with (2 * g) by lia. replace (2 * g / 2) with g by lia.
  lia.
Qed.

(* the same fact read upwards: the span of the parent is the union of the spans of t and its sibling *)
Lemma span_parent_left (t : fiter) :
  wf t -> it_is_right t = false ->
  lo (it_parent t) = lo t /\ hi t + 1 = it_index (it_parent t) /\
  lo (it_sibling t) = it_index (it_parent t) + 1 /\ hi (it_parent t) = hi (it_sibling t).
Proof.
  intros H R. pose proof (it_left_node t H R) as (Hp & Hs & _).
  unfold lo, hi, it_half in *. rewrite it_parent_factor, it_sibling_factor, Hp, Hs.
  wf_open t H. cbn [it_index it_factor]. lia.
Qed.

Lemma span_parent_right (t : fiter) :
  wf t -> it_is_right t = true ->
  lo (it_parent t) = lo (it_sibling t) /\ hi (it_sibling t) + 1 = it_index (it_parent t) /\
  lo t = it_index (it_parent t) + 1 /\ hi (it_parent t) = hi t.
Proof.
  intros H R. pose proof (it_right_node t H R) as (Hp & Hs & Ho & _).
  unfold lo, hi, it_half in *. rewrite it_parent_factor, it_sibling_factor.
  wf_open t H. cbn [it_index it_factor it_offset] in *.
  assert (exists q, o = q + 1) as [q ->] by (exists (o - 1); lia).
  lia.
Qed.

Lemma it_contains_spec (t : fiter) (i : N) :
  wf t -> it_contains t i = true <-> lo t <= i /\ i <= hi t.
Proof.
  intros H. unfold it_contains, lo, hi, it_half. wf_open t H. cbn [it_index it_factor].
  replace (2 * h / 2) with h by lia.
  destruct (i0 <? i) eqn:E1.
  - lia.
  - destruct (i <? i0) eqn:E2.
    + rewrite orb_true_iff. lia.
    + lia.
Qed.

(* ---------- the same algebra on [it_at] ---------- *)

Lemma it_sibling_at_even (d o : N) : N.even o = true -> it_sibling (it_at d o) = it_at d (o + 1).
Proof.
  intros E. unfold it_sibling, it_next, it_at. cbn [it_index it_offset it_factor]. rewrite E.
  f_equal. rewrite ft_index_sibling_right. reflexivity.
Qed.

Lemma it_sibling_at_odd (d o : N) : N.odd o = true -> it_sibling (it_at d o) = it_at d (o - 1).
Proof.
  intros O. assert (E : N.even o = false) by (rewrite <- N.negb_odd, O; reflexivity).
  rewrite odd_mod in O.
  unfold it_sibling, it_prev, it_at. cbn [it_index it_offset it_factor]. rewrite E.
  destruct (o =? 0) eqn:E0; [lia|]. f_equal.
  pose proof (ft_index_sibling_right d (o - 1)) as H. replace (o - 1 + 1) with o in H by lia. lia.
Qed.

Lemma it_parent_at (d o : N) : it_parent (it_at d o) = it_at (d + 1) (o / 2).
Proof.
  unfold it_parent, it_at. cbn [it_index it_offset it_factor].
  pose proof (ft_index_succ d o) as H1. pose proof (ft_index_succ (d + 1) (o / 2)) as H2.
  pose proof (pow2_pos d) as Hp. rewrite !pow2_succ in *.
  replace (2 * 2 ^ d / 2) with (2 ^ d) by lia.
  rewrite odd_mod. destruct (o mod 2 =? 1) eqn:E.
  - assert (exists q, o = 2 * q + 1) as [q ->] by (exists (o / 2); lia).
    replace ((2 * q + 1) / 2) with q in * by lia. f_equal; lia.
  - assert (exists q, o = 2 * q) as [q ->] by (exists (o / 2); lia).
    replace (2 * q / 2) with q in * by lia. f_equal; lia.
Qed.

Lemma it_left_child_at (d o : N) : it_left_child (it_at (d + 1) o) = it_at d (2 * o).
Proof.
  unfold it_left_child, it_at. cbn [it_index it_offset it_factor].
  pose proof (ft_index_succ d (2 * o)) as H1. pose proof (ft_index_succ (d + 1) o) as H2.
  pose proof (pow2_pos d) as Hp. rewrite !pow2_succ in *.
  destruct (2 * (2 * 2 ^ d) =? 2) eqn:E; [lia|].
  replace (2 * (2 * 2 ^ d) / 2) with (2 * 2 ^ d) by lia.
  replace (2 * 2 ^ d / 2) with (2 ^ d) by lia. f_equal; lia.
Qed.

Lemma it_right_child_at (d o : N) : it_right_child (it_at (d + 1) o) = it_at d (2 * o + 1).
Proof.
  unfold it_right_child, it_at. cbn [it_index it_offset it_factor].
  pose proof (ft_index_succ d (2 * o + 1)) as H1. pose proof (ft_index_succ (d + 1) o) as H2.
  pose proof (pow2_pos d) as Hp. rewrite !pow2_succ in *.
  destruct (2 * (2 * 2 ^ d) =? 2) eqn:E; [lia|].
  replace (2 * (2 * 2 ^ d) / 2) with (2 * 2 ^ d) by lia.
  replace (2 * 2 ^ d / 2) with (2 ^ d) by lia. f_equal; lia.
Qed.

(* span of a node in leaf terms: [it_at d o] covers the flat indices of leaves o*2^d .. (o+1)*2^d - 1 *)
Lemma lo_at (d o : N) : lo (it_at d o) = 2 * (o * 2 ^ d).
Proof.
  unfold lo, it_half, it_at. cbn [it_index it_factor].
  pose proof (ft_index_succ d o). pose proof (pow2_pos d). rewrite pow2_succ.
  replace (2 * 2 ^ d / 2) with (2 ^ d) by lia. lia.
Qed.

Lemma hi_at (d o : N) : hi (it_at d o) + 2 = 2 * ((o + 1) * 2 ^ d).
Proof.
  unfold hi, it_half, it_at. cbn [it_index it_factor].
  pose proof (ft_index_succ d o). pose proof (pow2_pos d). rewrite pow2_succ.
  replace (2 * 2 ^ d / 2) with (2 ^ d) by lia. lia.
Qed.

Print Assumptions wf_new.
Print Assumptions wf_parent.
Print Assumptions wf_sibling.
Print Assumptions wf_children.
Print Assumptions it_sibling_involutive.
Print Assumptions it_parent_sibling.
Print Assumptions it_left_node.
Print Assumptions it_right_node.
Print Assumptions it_left_child_parent.
Print Assumptions it_right_child_parent.
Print Assumptions span_children.
Print Assumptions span_parent_left.
Print Assumptions span_parent_right.
Print Assumptions it_contains_spec.
Print Assumptions ft_decomp.
Print Assumptions ft_depth_index.
Print Assumptions ft_offset_index.
Print Assumptions ft_index_inj.
Print Assumptions it_new_index.
Print Assumptions it_sibling_at_even.
Print Assumptions it_sibling_at_odd.
Print Assumptions it_parent_at.
Print Assumptions it_left_child_at.
Print Assumptions it_right_child_at.

(* AnyProofLib.v -- library for AnyProof.v (C04 for proofs of ANY shape).
   1. the hash-level notion of an authentic node ([hauth]: the writer's HASH at an index inside the tree,
      the size unconstrained), sound lookups of a replica at that level, their preservation by commit
      and flush;
   2. the shape of what the verifier computes: [merged_of a b P] (P is the parent the verifier computed
      from a and b), the chain a climb builds;
   3. the generic backward argument: in a pool of nodes in which every node is a "top" or was merged
      with its sibling into a parent of the pool, if the tops carry the writer's hashes then every
      node does (or there is a hash collision); every computed parent then has the writer's SIZE and the
      sizes of its two children have the writer's SUM. *)
From HC Require Import Base NMap Codec CodecFacts Crypto FlatTree Storage Bitfield Oplog Merkle Core.
From HC Require Import FlatTreeFacts StorageFacts BitfieldFacts OplogFacts TreeRef OffsetFacts CoreFacts
                       Sound NoPanic Refine Replicate SoundCoreLib SoundCore SoundCoreUp.
From Coq Require Import FMapPositive ZifyN ZifyNat ZifyBool.
Ltac Zify.zify_post_hook ::= Z.div_mod_to_equations.
Arguments N.add : simpl never.
Arguments N.sub : simpl never.
Arguments N.mul : simpl never.
Arguments N.div : simpl never.
Arguments N.modulo : simpl never.
Arguments N.pow : simpl never.
Arguments N.eqb : simpl never.
Arguments N.ltb : simpl never.
Arguments N.leb : simpl never.
Arguments N.of_nat : simpl never.
Arguments N.to_nat : simpl never.

(* ====================================================================================== *)
(* 1. Hash-level lookups                                                                   *)
(* ====================================================================================== *)

Section HLookups.
  Variable cr : crypto.
  Hypothesis Hhash32 : forall x, length (cr_hash cr x) = 32%nat.
  Variable bs : list bytes.

  (* the node carries the writer's hash at its index *)
  Definition hagree (x : node) : Prop := n_hash x = n_hash (ref_at cr bs (n_index x)).
  (* ... and lies inside the tree over m blocks *)
  Definition hauth (m : N) (x : node) : Prop := hagree x /\ in_len m (n_index x).
  (* what can be written as a 40-byte record *)
  Definition node_fit (x : node) : Prop := length (n_hash x) = 32%nat /\ n_length x <= u64_max.

  Lemma hauth_mono m m' x : m <= m' -> hauth m x -> hauth m' x.
  Proof. intros L [A B]. split; [exact A|]. eapply in_len_mono; eassumption. Qed.

  Lemma hagree_hash32 x : hagree x -> length (n_hash x) = 32%nat.
  Proof. unfold hagree. intros ->. apply ref_at_hash_length, Hhash32. Qed.

  Lemma authentic_hauth m x : authentic cr bs m x -> hauth m x.
  Proof. intros [E I]. split; [|exact I]. unfold hagree. rewrite E at 1. reflexivity. Qed.

  Definition hunfl_sound (t : mtree) (r : N) : Prop :=
    forall j nd, nm_get j (t_unflushed t) = Some nd ->
      n_index nd = j /\ hauth r nd /\ n_length nd <= u64_max.

  Definition hfile_sound (tf : file) (r : N) : Prop :=
    f_len tf mod NODE_SIZE = 0 /\
    forall j data, f_read tf (NODE_SIZE * j) NODE_SIZE = Some data ->
      node_blank (node_from_bytes j data) = false -> hauth r (node_from_bytes j data).

  Lemma node_get_hsound t tf r j am nd :
    hunfl_sound t r -> hfile_sound tf r ->
    node_get t tf j am = Ok (Some nd) -> n_index nd = j /\ hauth r nd.
  Proof.
    intros Hu [_ Hf] H. unfold node_get in H.
    destruct (nm_get j (t_unflushed t)) as [n0|] eqn:G.
    - destruct (node_blank n0) eqn:B.
      + destruct am; discriminate H.
      + injection H as <-. destruct (Hu j n0 G) as (A1 & A2 & _). auto.
    - apply bind_ok in H. destruct H as (off & Hm & H).
      unfold mul64 in Hm. destruct (fits_u64 (NODE_SIZE * j)); [|discriminate Hm]. injection Hm as <-.
      destruct (f_read tf (NODE_SIZE * j) NODE_SIZE) as [data|] eqn:R.
      + destruct (node_blank (node_from_bytes j data)) eqn:B.
        * destruct am; discriminate H.
        * injection H as <-. split; [reflexivity|]. apply (Hf j data R B).
      + destruct am; discriminate H.
  Qed.

  Lemma required_node_hsound t tf r j nd :
    hunfl_sound t r -> hfile_sound tf r ->
    required_node t tf j = Ok nd -> n_index nd = j /\ hauth r nd.
  Proof.
    intros Hu Hf H. unfold required_node in H. apply bind_ok in H. destruct H as ([x|] & Hg & H).
    - injection H as <-. apply (node_get_hsound t tf r j false x Hu Hf Hg).
    - discriminate H.
  Qed.

  Lemma hunfl_sound_ok t r : hunfl_sound t r -> unflushed_ok t.
  Proof.
    intros Hu j nd G. destruct (Hu j nd G) as (A1 & [A2 _] & A3).
    split; [exact A1|]. split; [apply hagree_hash32, A2|exact A3].
  Qed.

  Lemma hunfl_sound_mono t r r' : r <= r' -> hunfl_sound t r -> hunfl_sound t r'.
  Proof.
    intros L H j nd G. destruct (H j nd G) as (A1 & A2 & A3).
    split; [exact A1|]. split; [eapply hauth_mono; eassumption|exact A3].
  Qed.

  Lemma hfile_sound_mono tf r r' : r <= r' -> hfile_sound tf r -> hfile_sound tf r'.
  Proof.
    intros L [A H]. split; [exact A|]. intros j data R B. eapply hauth_mono; [exact L|]. apply (H j data R B).
  Qed.

  (* the size-level notions of SoundCoreLib imply the hash-level ones *)
  Lemma unfl_sound_h t r : sumN (map len bs) <= u64_max -> unfl_sound cr bs t r -> hunfl_sound t r.
  Proof.
    intros Hfit H j nd G. destruct (H j nd G) as [-> I].
    split; [apply ref_at_index_id|]. split.
    - split; [unfold hagree; rewrite ref_at_index_id; reflexivity|rewrite ref_at_index_id; exact I].
    - apply (T_fits cr bs j Hfit).
  Qed.

  Lemma file_sound_h tf r : file_sound cr bs tf r -> hfile_sound tf r.
  Proof.
    intros [A H]. split; [exact A|]. intros j data R B. destruct (H j data R B) as [E I].
    split; [|exact I]. unfold hagree. rewrite E at 1. reflexivity.
  Qed.

  (* ---------- commit ---------- *)

  Lemma add_nodes_hsound t t' r l :
    hunfl_sound t r -> (forall x, In x l -> hauth r x /\ n_length x <= u64_max) ->
    t_unflushed t' = add_nodes (t_unflushed t) l -> hunfl_sound t' r.
  Proof.
    intros Hu Hl E j nd G. rewrite E in G.
    destruct (add_nodes_get l (t_unflushed t) j) as [(x & Hin & Hi & Hg)|[_ Hg]]; rewrite Hg in G.
    - injection G as <-. destruct (Hl x Hin) as [A1 A2]. auto.
    - apply (Hu j nd G).
  Qed.

  (* ---------- flush ---------- *)

  Lemma tree_flush_hsound t t' ops d d' r :
    tree_flush t = Ok (t', ops) -> apply_sops d ops = Some d' ->
    hunfl_sound t r -> hfile_sound (d_tree d) r ->
    hunfl_sound t' r /\ hfile_sound (d_tree d') r.
  Proof.
    intros Hf Ha Hu [Hal Hfs]. pose proof (hunfl_sound_ok t r Hu) as Hok.
    rewrite (tree_flush_ok t Hok) in Hf. injection Hf as <- <-.
    rewrite apply_node_writes in Ha. injection Ha as <-.
    set (ws := map snd (nm_elements (t_unflushed t))) in *.
    assert (Hws : forall v, In v ws -> nm_get (n_index v) (t_unflushed t) = Some v).
    { intros v Hv. apply in_map_iff in Hv as ([k v'] & E & Hv). cbn [snd] in E. subst v'.
      apply nm_elements_in in Hv. destruct (Hok k v Hv) as (-> & _). exact Hv. }
    assert (H32 : forall v, In v ws -> length (n_hash v) = 32%nat).
    { intros v Hv. apply Hws in Hv. apply Hok in Hv. tauto. }
    split.
    { intros j nd G. cbn [t_unflushed] in G. rewrite nm_get_empty in G. discriminate G. }
    cbn [d_set d_tree].
    destruct (write_nodes_len ws (d_tree d) Hal H32) as [Hal' Hge].
    split; [exact Hal'|].
    intros k data R B.
    destruct (write_nodes_read ws (d_tree d) k H32) as [(v & Hin & Hk & Hr)|[Hno Hr]].
    - rewrite Hr in R. injection R as <-.
      pose proof (Hws v Hin) as G. destruct (Hok _ _ G) as (_ & Hh & Hl).
      rewrite <- Hk. rewrite node_bytes_roundtrip; [|rewrite Hh; reflexivity|unfold u64_max in Hl; lia].
      destruct (Hu _ _ G) as (_ & A & _). exact A.
    - destruct (N.le_gt_cases (NODE_SIZE * k + NODE_SIZE) (f_len (d_tree d))) as [L|L].
      + rewrite (Hr L) in R. apply (Hfs k data R B).
      + exfalso.
        assert (Hk : f_len (d_tree d) <= NODE_SIZE * k) by (unfold NODE_SIZE in *; lia).
        pose proof R as R'. apply f_read_spec in R'. destruct R' as (Rb & Rl & Rn).
        assert (Z : forall j, nth j data 0 = 0).
        { intros j. destruct (Nat.lt_ge_cases j (length data)) as [Lj|Lj]; [|apply nth_overflow; lia].
          replace j with (N.to_nat (N.of_nat j)) by lia.
          rewrite (Rn (N.of_nat j)) by (unfold NODE_SIZE in *; lia).
          apply (write_nodes_gap cr bs ws (d_tree d) k); try assumption.
          - intros i A1 A2 A3. lia.
          - lia.
          - unfold NODE_SIZE in *. lia.
          - unfold NODE_SIZE in *. lia. }
        rewrite (node_from_zero_blank k data Z) in B. discriminate B.
  Qed.
End HLookups.


(* ====================================================================================== *)
(* 2. What the verifier computes: merges, chains                                           *)
(* ====================================================================================== *)

Lemma Forall_or_ext {A} (P : A -> Prop) (C : Prop) (l : list A) :
  (forall x, In x l -> P x \/ C) -> Forall P l \/ C.
Proof.
  induction l as [|x l IH]; intros H; [left; constructor|].
  destruct (H x (or_introl eq_refl)) as [Hx|Hc]; [|right; exact Hc].
  destruct IH as [Hl|Hc]; [intros y Hy; apply H; right; exact Hy| |right; exact Hc].
  left. constructor; assumption.
Qed.

Lemma q_shift_in q i n q' :
  q_shift q i = Ok (n, q') -> forall x, In x (q_list q) <-> x = n \/ In x (q_list q').
Proof.
  destruct q as [ns e]. unfold q_shift, q_list. cbn [q_nodes q_extra].
  destruct e as [e|].
  - destruct (n_index e =? i) eqn:E.
    + intros [= <- <-] x. cbn [q_nodes q_extra]. rewrite app_nil_r, in_app_iff. cbn [In]. intuition.
    + destruct ns as [|m r]; [discriminate|].
      destruct (n_index m =? i) eqn:E'; [|discriminate].
      intros [= <- <-] x. cbn [q_nodes q_extra app In]. intuition.
  - destruct ns as [|m r]; [discriminate|].
    destruct (n_index m =? i) eqn:E'; [|discriminate].
    intros [= <- <-] x. cbn [q_nodes q_extra app In]. intuition.
Qed.

Section Shape.
  Variable cr : crypto.
  Hypothesis Hhash32 : forall x, length (cr_hash cr x) = 32%nat.

  (* P is the parent the verifier computed from a (first argument of the hash) and b, two nodes at
     sibling positions; the sum of the sizes passed the u64 check *)
  Definition merged_of (a b P : node) : Prop :=
    exists d o, n_index a = ft_index (N.of_nat d) o /\ n_index b = ft_index (N.of_nat d) (sib o) /\
      P = mkNode (ft_index (N.of_nat (S d)) (o / 2)) (n_length a + n_length b) (parent_hash cr a b) /\
      n_length a + n_length b <= u64_max /\ hash32 a /\ hash32 b.

  (* x was merged with a node s of the pool into a pushed parent *)
  Definition child_of (pool new : list node) (x : node) : Prop :=
    exists s P, (merged_of x s P \/ merged_of s x P) /\ In s pool /\ In P new.

  Lemma child_of_incl pool new pool' new' x :
    (forall y, In y pool -> In y pool') -> (forall y, In y new -> In y new') ->
    child_of pool new x -> child_of pool' new' x.
  Proof. intros H1 H2 (s & P & M & Hs & HP). exists s, P. auto. Qed.

  Lemma merged_of_fit a b P : merged_of a b P -> node_fit P /\ n_index P < N.max (n_index a) (n_index b).
  Proof.
    intros (d & o & Ia & Ib & -> & Hl & _ & _). split.
    - split; [apply Hhash32|exact Hl].
    - cbn [n_index]. rewrite Ia, Ib. apply parent_index_lt.
  Qed.

  Lemma merged_of_depth a b P :
    merged_of a b P ->
    ft_depth (n_index P) = ft_depth (n_index a) + 1 /\ ft_depth (n_index P) = ft_depth (n_index b) + 1.
  Proof.
    intros (d & o & Ia & Ib & -> & _). cbn [n_index]. rewrite Ia, Ib, !ft_depth_index. lia.
  Qed.

  (* the steps of a climb: (sibling taken from the queue, parent computed) *)
  Fixpoint flat (s : list (node * node)) : list node :=
    match s with [] => [] | (n, p) :: r => n :: p :: flat r end.

  Fixpoint chain (cur : node) (steps : list (node * node)) (root : node) : Prop :=
    match steps with
    | [] => root = cur
    | (n, p) :: r => merged_of cur n p /\ chain p r root
    end.

  Lemma flat_app a b : flat (a ++ b) = flat a ++ flat b.
  Proof. induction a as [|[n p] a IH]; cbn [app flat]; [reflexivity|]. now rewrite IH. Qed.

  Lemma in_flat s x : In x (flat s) <-> In x (map fst s) \/ In x (map snd s).
  Proof.
    induction s as [|[n p] s IH]; cbn [flat map In fst snd]; [tauto|]. rewrite IH. tauto.
  Qed.

  Lemma climb_chain : forall fuel q d o cur acc root visited,
    climb cr fuel q (it_at (N.of_nat d) o) cur acc = Ok (root, visited) ->
    n_index cur = ft_index (N.of_nat d) o -> hash32 cur -> Forall hash32 (q_list q) ->
    exists steps, visited = acc ++ flat steps /\ chain cur steps root /\
      (forall x, In x (map fst steps) <-> In x (q_list q)) /\ length steps = length (q_list q).
  Proof.
    induction fuel as [|f IH]; intros q d o cur acc root visited H Hi H32 Hq; [discriminate H|].
    destruct (q_length q =? 0) eqn:E.
    - rewrite climb_S, E in H. injection H as <- <-. apply N.eqb_eq in E. rewrite q_length_list in E.
      assert (E' : q_list q = []) by (apply length_zero_iff_nil; lia).
      exists []. cbn [flat chain map]. rewrite app_nil_r, E'. repeat split; tauto.
    - pose proof H as H0. rewrite climb_S, E in H0. cbv zeta in H0.
      apply bind_ok in H0. destruct H0 as [[n0 q0] [Hs0 _]].
      rewrite it_sibling_at_sib in Hs0.
      (* the node climb_step speaks about is the one q_shift returned *)
      pose proof H as H1. rewrite climb_S, E in H1. cbv zeta in H1. rewrite it_sibling_at_sib, Hs0 in H1.
      cbn [bind] in H1. apply bind_ok in H1. destruct H1 as [l1 [Hadd1 H1]].
      rewrite it_parent_at, sib_div in H1.
      replace (N.of_nat d + 1) with (N.of_nat (S d)) in H1 by lia. cbn [it_at it_index] in H1.
      pose proof (q_shift_inv _ _ _ _ Hs0) as (Hn & HL & HF). cbn [it_at it_index] in Hn.
      pose proof (q_shift_in _ _ _ _ Hs0) as Hin.
      apply HF in Hq. destruct Hq as [Hn32 Hq'].
      unfold add64 in Hadd1. destruct (fits_u64 (n_length cur + n_length n0)) eqn:F; [|discriminate Hadd1].
      injection Hadd1 as <-.
      set (pn := mkNode (ft_index (N.of_nat (S d)) (o / 2)) (n_length cur + n_length n0) (parent_hash cr cur n0)) in *.
      fold (it_at (N.of_nat (S d)) (o / 2)) in H1.
      destruct (IH q0 (S d) (o / 2) pn (acc ++ [n0; pn]) root visited H1 eq_refl (Hhash32 _) Hq')
        as (steps & -> & Hch & Hfs & Hlen).
      exists ((n0, pn) :: steps). cbn [flat chain map fst In length].
      split; [rewrite <- app_assoc; reflexivity|]. split.
      + split; [|exact Hch]. exists d, o. repeat split; try assumption. unfold fits_u64 in F. lia.
      + split; [|rewrite HL, Hlen; reflexivity].
        intros x. rewrite Hin, Hfs. intuition.
  Qed.

  Lemma chain_index : forall steps cur root d o,
    chain cur steps root -> n_index cur = ft_index (N.of_nat d) o ->
    n_index root = ft_index (N.of_nat (d + length steps)) (o / p2 (length steps)).
  Proof.
    induction steps as [|[n p] steps IH]; intros cur root d o H Hi; cbn [chain length] in *.
    - subst. rewrite Nat.add_0_r, p2_0, N.div_1_r. exact Hi.
    - destruct H as [(d' & o' & Ia & _ & Ep & _) H]. rewrite Hi in Ia. apply ft_index_inj in Ia.
      destruct Ia as [Ed <-]. assert (d' = d) by lia. subst d'.
      rewrite (IH p root (S d) (o / 2) H) by (rewrite Ep; reflexivity).
      rewrite div_p2_S. f_equal. lia.
  Qed.

  Lemma chain_root_fit : forall steps cur root,
    chain cur steps root -> steps <> [] -> node_fit root.
  Proof.
    induction steps as [|[n p] steps IH]; intros cur root H Hne; [congruence|].
    cbn [chain] in H. destruct H as [M H]. destruct steps as [|s steps'].
    - cbn [chain] in H. subst. apply (merged_of_fit _ _ _ M).
    - apply (IH p root H). discriminate.
  Qed.

  (* closure: every node of a chain is its top or was merged into a pushed parent *)
  Lemma chain_closure : forall steps cur root,
    chain cur steps root ->
    Forall (fun x => x = root \/ child_of (cur :: flat steps) (flat steps) x) (cur :: flat steps).
  Proof.
    induction steps as [|[n p] steps IH]; intros cur root H; cbn [chain flat] in *.
    - subst. constructor; [left; reflexivity|constructor].
    - destruct H as [M H]. specialize (IH p root H).
      assert (Hl : forall x, x = root \/ child_of (p :: flat steps) (flat steps) x ->
                             x = root \/ child_of (cur :: n :: p :: flat steps) (n :: p :: flat steps) x).
      { intros x [E|C]; [left; exact E|right].
        apply (child_of_incl (p :: flat steps) (flat steps)); [| |exact C].
        - intros y Hy. right. right. exact Hy.
        - intros y Hy. right. right. exact Hy. }
      constructor.
      { right. exists n, p. split; [left; exact M|]. split; [right; left; reflexivity|right; left; reflexivity]. }
      constructor.
      { right. exists cur, p. split; [right; exact M|]. split; [left; reflexivity|right; left; reflexivity]. }
      eapply Forall_impl; [|exact IH]. exact Hl.
  Qed.

  (* made: every pushed node is a sibling from the queue or a computed parent *)
  Lemma chain_made : forall steps cur root,
    chain cur steps root ->
    Forall (fun P => In P (map fst steps) \/
                     exists a b, merged_of a b P /\ In a (cur :: flat steps) /\ In b (cur :: flat steps))
           (flat steps).
  Proof.
    induction steps as [|[n p] steps IH]; intros cur root H; cbn [chain flat map fst] in *; [constructor|].
    destruct H as [M H]. specialize (IH p root H).
    constructor; [left; left; reflexivity|].
    constructor.
    { right. exists cur, n. split; [exact M|]. split; [left; reflexivity|right; left; reflexivity]. }
    eapply Forall_impl; [|exact IH]. intros P [Hs|(a & b & Mab & Ha & Hb)].
    - left. right. exact Hs.
    - right. exists a, b. split; [exact Mab|]. split; right; right; assumption.
  Qed.

  Lemma chain_fit : forall steps cur root,
    chain cur steps root -> Forall node_fit (map fst steps) -> Forall node_fit (flat steps).
  Proof.
    induction steps as [|[n p] steps IH]; intros cur root H Hs; cbn [chain flat map fst] in *; [constructor|].
    destruct H as [M H]. inversion Hs as [|? ? Hn Hs']; subst.
    constructor; [exact Hn|]. constructor; [apply (merged_of_fit _ _ _ M)|]. apply (IH p root H Hs').
  Qed.
End Shape.

(* ====================================================================================== *)
(* 3. The backward argument                                                                *)
(* ====================================================================================== *)

Section Backward.
  Variable cr : crypto.
  Hypothesis Hhash32 : forall x, length (cr_hash cr x) = 32%nat.
  Variable bs : list bytes.
  Hypothesis Hfit : sumN (map len bs) <= u64_max.

  (* one merge, read backwards: hashes of both children, and what the hash says about the sizes *)
  Lemma merge_one_h a b P m :
    merged_of cr a b P -> hauth cr bs m P ->
    (hauth cr bs m a /\ hauth cr bs m b /\
     n_length P = n_length (ref_at cr bs (n_index P)) /\
     n_length a + n_length b = n_length (ref_at cr bs (n_index a)) + n_length (ref_at cr bs (n_index b)))
    \/ some_collision cr.
  Proof.
    intros (d & o & Ia & Ib & -> & Hl & Ha & Hb) [HT Hin]. unfold hagree in HT. cbn [n_index n_hash] in HT, Hin.
    rewrite ref_at_index in HT. destruct (R_parent cr bs d o) as [Rh Rl]. rewrite Rh in HT.
    apply in_len_index in Hin.
    assert (Hia : in_len m (n_index a)).
    { rewrite Ia. apply in_len_index. pose proof (span_end_parent d o). unfold span_end in *. lia. }
    assert (Hib : in_len m (n_index b)).
    { rewrite Ib. apply in_len_index. pose proof (span_end_sib d o). unfold span_end in *. lia. }
    apply (parent_hash_binds_first cr) in HT;
      [|rewrite ref_node_index; exact Ia|rewrite ref_node_index; exact Ib
       |rewrite Ha; symmetry; apply (R_hash32 cr Hhash32)].
    destruct HT as [(A1 & A2 & A3)|C]; [left|right; exact C].
    assert (Ea : ref_at cr bs (n_index a) = ref_node cr bs d o) by (rewrite Ia; apply ref_at_index).
    assert (Eb : ref_at cr bs (n_index b) = ref_node cr bs d (sib o)) by (rewrite Ib; apply ref_at_index).
    assert (Hsum : n_length a + n_length b = n_length (ref_node cr bs d o) + n_length (ref_node cr bs d (sib o))).
    { apply A3; apply u64_lt; [exact Hl|]. rewrite <- Rl. apply (R_fits cr bs Hfit). }
    split; [split; [unfold hagree; rewrite Ea; exact A1|exact Hia]|].
    split; [split; [unfold hagree; rewrite Eb; exact A2|exact Hib]|].
    cbn [n_index n_length]. rewrite ref_at_index, Ea, Eb, Rl. split; exact Hsum.
  Qed.

  Definition dep (x : node) : nat := N.to_nat (ft_depth (n_index x)).

  Lemma child_parent_dep pool new x :
    child_of cr pool new x -> exists s P, (merged_of cr x s P \/ merged_of cr s x P) /\ In s pool /\ In P new /\
                                          dep P = S (dep x).
  Proof.
    intros (s & P & M & Hs & HP). exists s, P. repeat split; try assumption.
    unfold dep. destruct M as [M|M]; apply merged_of_depth in M; lia.
  Qed.

  (* every node of the pool is a top carrying the writer's hash or was merged into a parent of the pool:
     then every node carries the writer's hash *)
  Theorem backward_hauth pool new m :
    (forall x, In x new -> In x pool) ->
    Forall (fun x => hauth cr bs m x \/ child_of cr pool new x) pool ->
    Forall (hauth cr bs m) pool \/ some_collision cr.
  Proof.
    intros Hsub Hcl.
    set (D := list_max (map dep pool)).
    assert (HD : forall x, In x pool -> (dep x <= D)%nat).
    { intros x Hx. pose proof (proj1 (list_max_le (map dep pool) D) (Nat.le_refl _)) as F.
      rewrite Forall_forall in F. apply F. apply in_map. exact Hx. }
    assert (Q : forall k, Forall (fun x => (D - dep x < k)%nat -> hauth cr bs m x) pool \/ some_collision cr).
    { induction k as [|k IH].
      - left. apply Forall_forall. intros x _ Hlt. lia.
      - destruct IH as [IH|C]; [|right; exact C]. rewrite Forall_forall in IH.
        apply Forall_or_ext. intros x Hx.
        rewrite Forall_forall in Hcl. destruct (Hcl x Hx) as [A|Hc]; [left; intros _; exact A|].
        destruct (child_parent_dep _ _ _ Hc) as (s & P & M & Hs & HP & Hd).
        pose proof (HD P (Hsub P HP)) as HPd.
        destruct (Nat.lt_ge_cases (D - dep x) (S k)) as [Lt|Ge]; [|left; intros L; lia].
        assert (AP : hauth cr bs m P) by (apply (IH P (Hsub P HP)); lia).
        destruct M as [M|M]; destruct (merge_one_h _ _ _ m M AP) as [(A1 & A2 & _)|C];
          try (right; exact C); left; intros _; assumption. }
    destruct (Q (S D)) as [F|C]; [left|right; exact C].
    eapply Forall_impl; [|exact F]. intros x H. apply H. lia.
  Qed.
End Backward.

(* ====================================================================================== *)
(* 4. verify_tree: the shape of what it pushes                                             *)
(* ====================================================================================== *)

(* what the wire decoder guarantees about a node *)
Definition node_wire (x : node) : Prop := node_fit x /\ n_index x <= u64_max.

Lemma nodes_ok_wire l : nodes_ok l = true -> Forall node_wire l.
Proof.
  intros H. apply nodes_ok_inv in H. destruct H as [_ H]. rewrite forallb_forall in H.
  apply Forall_forall. intros x Hx. apply H, node_ok_inv in Hx. destruct Hx as (A & B & C).
  unfold fits_u64 in *. split; [split; [exact C|lia]|lia].
Qed.

Lemma it_new_at_nat i : it_new i = it_at (N.of_nat (N.to_nat (ft_depth i))) (ft_offset i).
Proof. rewrite it_new_at. f_equal. lia. Qed.

Lemma index_at_nat i : i = ft_index (N.of_nat (N.to_nat (ft_depth i))) (ft_offset i).
Proof. rewrite N2Nat.id. symmetry. apply ft_index_depth_offset. Qed.

Lemma cs_frame_rnodes_eq c c' : cs_frame c c' -> cs_rnodes c' = cs_rnodes c -> c' = c.
Proof.
  destruct c, c'. unfold cs_frame. cbn. intros (A1 & A2 & A3 & A4 & A5 & A6 & A7 & A8 & A9 & A10 & A11) B.
  subst. reflexivity.
Qed.

Lemma rnodes_push c l : cs_rnodes (cs_push_nodes c l) = rev l ++ cs_rnodes c.
Proof. unfold cs_push_nodes. cbn [cs_rnodes]. apply rev_append_rev. Qed.

Section VerifyTree.
  Variable cr : crypto.
  Hypothesis Hhash32 : forall x, length (cr_hash cr x) = 32%nat.

  (* the shape of a group of pushed nodes: well-formed records, each supplied or computed from two
     nodes of the group, each the top of the group or merged into a node of the group *)
  Definition VShape (sup : node -> Prop) (vis : list node) (root : option node) : Prop :=
    Forall node_fit vis /\
    Forall (fun P => sup P \/ exists a b, merged_of cr a b P /\ In a vis /\ In b vis) vis /\
    Forall (fun x => Some x = root \/ child_of cr vis vis x) vis /\
    (forall r0, root = Some r0 -> In r0 vis) /\ (root = None -> vis = []).

  Lemma chain_VShape (sup : node -> Prop) cur steps root :
    chain cr cur steps root -> sup cur -> node_fit cur -> Forall node_fit (map fst steps) ->
    (forall x, In x (map fst steps) -> sup x) ->
    VShape sup (cur :: flat steps) (Some root).
  Proof.
    intros Hch Hc Hcf Hsf Hs. split; [|split; [|split; [|split]]].
    - constructor; [exact Hcf|]. apply (chain_fit cr Hhash32 _ _ _ Hch Hsf).
    - constructor; [left; exact Hc|].
      eapply Forall_impl; [|apply (chain_made cr _ _ _ Hch)].
      intros P [HP|HP]; [left; apply Hs, HP|right; exact HP].
    - eapply Forall_impl; [|apply (chain_closure cr _ _ _ Hch)].
      intros x [->|C]; [left; reflexivity|right].
      eapply child_of_incl; [| |exact C]; [intros y Hy; exact Hy|intros y Hy; right; exact Hy].
    - intros r0 [= <-]. destruct steps as [|[n p] steps].
      + cbn [chain] in Hch. subst. left. reflexivity.
      + clear -Hch. right. revert cur n p Hch. induction steps as [|[n' p'] steps IH]; intros cur n p Hch.
        * cbn [chain] in Hch. destruct Hch as [_ ->]. cbn [flat]. right. left. reflexivity.
        * cbn [chain] in Hch. destruct Hch as [_ Hch]. cbn [flat]. right. right.
          apply (IH p n' p'). exact Hch.
    - discriminate.
  Qed.

  Lemma chain_root_hash32 cur steps root : chain cr cur steps root -> hash32 cur -> hash32 root.
  Proof.
    destruct steps as [|s steps]; [cbn [chain]; intros -> H; exact H|].
    intros H _. apply (chain_root_fit cr Hhash32 _ _ _ H). discriminate.
  Qed.

  (* the seek phase *)
  Lemma vt_seek_shape c sn root c' :
    vt_seek cr c sn = Ok (root, c') -> Forall node_wire sn ->
    exists vis, cs_rnodes c' = rev vis ++ cs_rnodes c /\ cs_frame c c' /\
      VShape (fun x => In x sn) vis root /\
      (sn = [] -> root = None) /\
      (forall r0, root = Some r0 -> hash32 r0 /\
         ((vis = [r0] /\ sn = [r0]) \/ exists a b, merged_of cr a b r0)).
  Proof.
    intros H Hw. pose proof (vt_seek_frame cr _ _ _ _ H) as Hfr.
    unfold vt_seek in H. destruct sn as [|n0 rest].
    - injection H as <- <-. exists []. split; [reflexivity|]. split; [exact Hfr|].
      split; [|split; [reflexivity|discriminate]].
      split; [constructor|]. split; [constructor|]. split; [constructor|]. split; [discriminate|reflexivity].
    - cbv zeta in H. rewrite Sound.it_index_it_new in H.
      unfold q_shift in H. cbn [q_extra q_nodes] in H. rewrite N.eqb_refl in H. cbn [bind] in H.
      apply bind_ok in H. destruct H as ([r vis] & Hc & H). injection H as <- <-.
      inversion Hw as [|? ? [[Hn32 Hnl] Hni] Hw']; subst.
      rewrite it_new_at_nat in Hc.
      assert (Hq : Forall hash32 (q_list (mkQ rest None))).
      { unfold q_list. cbn [q_nodes q_extra]. rewrite app_nil_r.
        eapply Forall_impl; [|exact Hw']. intros x [[A _] _]. exact A. }
      destruct (climb_chain cr Hhash32 _ _ _ _ _ _ _ _ Hc (index_at_nat _) Hn32 Hq)
        as (steps & -> & Hch & Hfs & Hlen).
      unfold q_list in Hfs. cbn [q_nodes q_extra] in Hfs. rewrite app_nil_r in Hfs.
      exists (n0 :: flat steps). split; [apply rnodes_push|]. split; [exact Hfr|]. split.
      + apply (chain_VShape (fun x => In x (n0 :: rest)) n0 steps r Hch).
        * left. reflexivity.
        * split; assumption.
        * apply Forall_forall. intros x Hx. apply Hfs in Hx. rewrite Forall_forall in Hw'. apply Hw', Hx.
        * intros x Hx. right. apply Hfs, Hx.
      + split; [discriminate|]. intros r0 [= <-]. split; [apply (chain_root_hash32 _ _ _ Hch Hn32)|].
        destruct steps as [|[n p] steps].
        * left. cbn [chain] in Hch. subst r. cbn [flat]. split; [reflexivity|].
          destruct rest as [|y rest]; [reflexivity|]. cbn [q_list q_nodes q_extra length app] in Hlen. discriminate Hlen.
        * right. clear -Hch. revert n0 n p Hch. induction steps as [|[n' p'] steps IH]; intros cur n p Hch.
          -- cbn [chain] in Hch. destruct Hch as [M ->]. eauto.
          -- cbn [chain] in Hch. destruct Hch as [_ Hch]. apply (IH p n' p' Hch).
  Qed.

  (* the block / hash phase, with the seek root as the extra node of the queue *)
  Lemma vt_main_shape rs c value index nodes root c' :
    vt_main cr rs c (Some (value, index, nodes)) = Ok (root, c') ->
    Forall node_wire nodes -> (forall v, value = Some v -> len v <= u64_max) ->
    (forall e, rs = Some e -> node_fit e) ->
    exists cur steps r,
      root = Some r /\ cs_rnodes c' = rev (cur :: flat steps) ++ cs_rnodes c /\ cs_frame c c' /\
      chain cr cur steps r /\ node_fit cur /\ n_index cur = index /\
      match value with
      | Some v => cur = block_node cr index v /\
                  (forall x, In x (map fst steps) <-> In x nodes \/ Some x = rs)
      | None => forall x, In x (cur :: map fst steps) <-> In x nodes \/ Some x = rs
      end.
  Proof.
    intros H Hw Hv He. pose proof (vt_main_frame cr _ _ _ _ _ H) as Hfr.
    unfold vt_main in H. cbv zeta in H. rewrite Sound.it_index_it_new in H.
    apply bind_ok in H. destruct H as ([cur q] & Hs & H).
    apply bind_ok in H. destruct H as ([r vis] & Hc & H). injection H as <- <-.
    assert (Hql : forall x, In x (q_list (mkQ nodes rs)) <-> In x nodes \/ Some x = rs).
    { intros x. unfold q_list. cbn [q_nodes q_extra]. rewrite in_app_iff.
      destruct rs as [e|]; cbn [In]; intuition congruence. }
    assert (Hq0 : Forall node_fit (q_list (mkQ nodes rs))).
    { apply Forall_forall. intros x Hx. apply Hql in Hx. destruct Hx as [Hx|Hx].
      - rewrite Forall_forall in Hw. apply Hw, Hx.
      - apply He. symmetry. exact Hx. }
    assert (Hcur : node_fit cur /\ n_index cur = index /\ Forall node_fit (q_list q) /\
                   match value with
                   | Some v => cur = block_node cr index v /\
                               (forall x, In x (q_list q) <-> In x nodes \/ Some x = rs)
                   | None => forall x, In x (cur :: q_list q) <-> In x nodes \/ Some x = rs
                   end).
    { destruct value as [v|].
      - injection Hs as <- <-. split; [split; [apply Hhash32|apply Hv; reflexivity]|].
        split; [reflexivity|]. split; [exact Hq0|]. split; [reflexivity|exact Hql].
      - pose proof (q_shift_inv _ _ _ _ Hs) as (Hn & _ & HF). pose proof (q_shift_in _ _ _ _ Hs) as Hin.
        apply HF in Hq0. destruct Hq0 as [A B]. split; [exact A|]. split; [exact Hn|]. split; [exact B|].
        intros x. rewrite <- Hql, Hin. cbn [In]. intuition. }
    destruct Hcur as (Hcf & Hci & Hqf & Hval).
    rewrite it_new_at_nat in Hc.
    assert (Hq32 : Forall hash32 (q_list q)).
    { eapply Forall_impl; [|exact Hqf]. intros x [A _]. exact A. }
    assert (Hidx : n_index cur = ft_index (N.of_nat (N.to_nat (ft_depth index))) (ft_offset index))
      by (rewrite Hci; apply index_at_nat).
    destruct (climb_chain cr Hhash32 _ _ _ _ _ _ _ _ Hc Hidx (proj1 Hcf) Hq32) as (steps & -> & Hch & Hfs & _).
    exists cur, steps, r. split; [reflexivity|]. split; [apply rnodes_push|]. split; [exact Hfr|].
    split; [exact Hch|]. split; [exact Hcf|]. split; [exact Hci|].
    destruct value as [v|].
    - destruct Hval as [E Hq]. split; [exact E|]. intros x. rewrite Hfs. apply Hq.
    - intros x. rewrite <- Hval. cbn [In]. rewrite Hfs. reflexivity.
  Qed.

  (* the nodes a proof supplies to verify_tree *)
  Definition vt_supplied (block : option data_block) (hash : option data_hash) (seek : option data_seek)
    (x : node) : Prop :=
    (exists b, block = Some b /\ In x (db_nodes b)) \/
    (block = None /\ exists h, hash = Some h /\ In x (dh_nodes h)) \/
    (exists s, seek = Some s /\ In x (ds_nodes s)).

  Definition vt_leaf (block : option data_block) (x : node) : Prop :=
    exists b, block = Some b /\ x = block_node cr (2 * db_index b) (db_value b).

  Definition vt_wire (block : option data_block) (hash : option data_hash) (seek : option data_seek) : Prop :=
    (forall b, block = Some b -> Forall node_wire (db_nodes b) /\ len (db_value b) <= u64_max) /\
    (forall h, hash = Some h -> Forall node_wire (dh_nodes h)) /\
    (forall s, seek = Some s -> Forall node_wire (ds_nodes s)).

  Lemma VShape_combine sup vs rs cur steps r :
    VShape sup vs rs -> chain cr cur steps r ->
    sup cur \/ Some cur = rs -> node_fit cur -> Forall node_fit (map fst steps) ->
    (forall x, In x (map fst steps) -> sup x \/ Some x = rs) ->
    (forall e, rs = Some e -> In e (cur :: map fst steps)) ->
    VShape sup (vs ++ cur :: flat steps) (Some r).
  Proof.
    intros (S1 & S2 & S3 & S4 & S5) Hch Hc Hcf Hsf Hs He.
    assert (Hsup' : forall x, sup x \/ Some x = rs ->
              sup x \/ exists a b, merged_of cr a b x /\ In a (vs ++ cur :: flat steps) /\ In b (vs ++ cur :: flat steps)).
    { intros x [A|A]; [left; exact A|].
      symmetry in A. pose proof (S4 x A) as Hin. rewrite Forall_forall in S2.
      destruct (S2 x Hin) as [B|(a & b & M & Ha & Hb)]; [left; exact B|right].
      exists a, b. split; [exact M|]. split; apply in_or_app; left; assumption. }
    pose proof (chain_closure cr _ _ _ Hch) as Hcl. rewrite Forall_forall in Hcl.
    assert (Hcl' : forall x, In x (cur :: flat steps) ->
              Some x = Some r \/ child_of cr (vs ++ cur :: flat steps) (vs ++ cur :: flat steps) x).
    { intros x Hx. destruct (Hcl x Hx) as [->|C]; [left; reflexivity|right].
      eapply child_of_incl; [| |exact C]; intros y Hy; apply in_or_app; right; [exact Hy|right; exact Hy]. }
    split; [|split; [|split; [|split]]].
    - apply Forall_app. split; [exact S1|]. constructor; [exact Hcf|]. apply (chain_fit cr Hhash32 _ _ _ Hch Hsf).
    - apply Forall_app. split.
      + eapply Forall_impl; [|exact S2]. intros P [A|(a & b & M & Ha & Hb)]; [left; exact A|right].
        exists a, b. split; [exact M|]. split; apply in_or_app; left; assumption.
      + constructor; [apply Hsup', Hc|].
        eapply Forall_impl; [|apply (chain_made cr _ _ _ Hch)].
        intros P [HP|(a & b & M & Ha & Hb)]; [apply Hsup', Hs, HP|right].
        exists a, b. split; [exact M|]. split; apply in_or_app; right; assumption.
    - apply Forall_app. split.
      + apply Forall_forall. intros x Hx. rewrite Forall_forall in S3.
        destruct (S3 x Hx) as [A|C].
        * apply Hcl'. symmetry in A. destruct (He x A) as [<-|Hin]; [left; reflexivity|].
          right. apply in_flat. left. exact Hin.
        * right. eapply child_of_incl; [| |exact C]; intros y Hy; apply in_or_app; left; exact Hy.
      + apply Forall_forall. exact Hcl'.
    - intros r0 [= <-]. apply in_or_app. right.
      destruct (chain_VShape (fun _ => True) cur steps r Hch I Hcf Hsf (fun _ _ => I)) as (_ & _ & _ & R & _).
      apply R. reflexivity.
    - discriminate.
  Qed.

  Lemma VShape_sup (sup sup' : node -> Prop) vis root :
    (forall x, sup x -> sup' x) -> VShape sup vis root -> VShape sup' vis root.
  Proof.
    intros Hs (S1 & S2 & S3 & S4 & S5). split; [exact S1|]. split; [|auto].
    eapply Forall_impl; [|exact S2]. intros P [A|A]; [left; apply Hs, A|right; exact A].
  Qed.

  Theorem verify_tree_shape block hash seek c root c' :
    verify_tree cr block hash seek c = Ok (root, c') -> vt_wire block hash seek ->
    exists vis,
      cs_rnodes c' = rev vis ++ cs_rnodes c /\ cs_frame c c' /\
      VShape (fun x => vt_supplied block hash seek x \/ vt_leaf block x) vis root /\
      (forall r0, root = Some r0 -> hash32 r0) /\
      (forall b, block = Some b ->
         In (block_node cr (2 * db_index b) (db_value b)) vis /\ 2 * db_index b <= u64_max).
  Proof.
    intros H (Wb & Wh & Ws). pose proof (verify_tree_frame cr _ _ _ _ _ _ H) as Hfr.
    rewrite verify_tree_eq in H. apply bind_ok in H. destruct H as (u & Hu & H). cbv zeta in H.
    set (sn := match seek with Some s => ds_nodes s | None => [] end) in *.
    assert (Wsn : Forall node_wire sn).
    { unfold sn. destruct seek as [s|]; [apply (Ws s eq_refl)|constructor]. }
    assert (Hsn : forall x, In x sn -> vt_supplied block hash seek x).
    { intros x Hx. right. right. unfold sn in Hx. destruct seek as [s|]; [|destruct Hx]. eauto. }
    set (sup := fun x => vt_supplied block hash seek x \/ vt_leaf block x).
    (* only the seek phase *)
    assert (Hseek : u = None -> vt_seek cr c sn = Ok (root, c') ->
              exists vis, cs_rnodes c' = rev vis ++ cs_rnodes c /\ cs_frame c c' /\ VShape sup vis root /\
                (forall r0, root = Some r0 -> hash32 r0) /\
                (forall b, block = Some b ->
                   In (block_node cr (2 * db_index b) (db_value b)) vis /\ 2 * db_index b <= u64_max)).
    { intros -> H1. destruct (vt_seek_shape _ _ _ _ H1 Wsn) as (vs & Rs & _ & Sh & _ & Hr1).
      exists vs. split; [exact Rs|]. split; [exact Hfr|]. split.
      - apply (VShape_sup (fun x => In x sn)); [|exact Sh]. intros x Hx. left. apply Hsn, Hx.
      - split; [intros r0 E; apply (Hr1 r0 E)|].
        intros b ->. unfold vt_untrusted in Hu. apply bind_ok in Hu. destruct Hu as (i & _ & Hu). discriminate Hu. }
    (* the two phases *)
    assert (Hboth : forall u0, u = Some u0 ->
              ('(root, c) <- vt_seek cr c sn ;; vt_main cr root c u) = Ok (root, c') ->
              exists vis, cs_rnodes c' = rev vis ++ cs_rnodes c /\ cs_frame c c' /\ VShape sup vis root /\
                (forall r0, root = Some r0 -> hash32 r0) /\
                (forall b, block = Some b ->
                   In (block_node cr (2 * db_index b) (db_value b)) vis /\ 2 * db_index b <= u64_max)).
    { intros [[value index] nodes] -> H12.
      apply bind_ok in H12. destruct H12 as ([r1 c1] & H1 & H2).
      destruct (vt_seek_shape _ _ _ _ H1 Wsn) as (vs & Rs & _ & Sh & _ & Hr1).
      assert (Hun : Forall node_wire nodes /\ (forall v, value = Some v -> len v <= u64_max) /\
                    (forall x, In x nodes -> vt_supplied block hash seek x) /\
                    match value with
                    | Some v => exists b, block = Some b /\ v = db_value b /\ index = 2 * db_index b /\
                                          2 * db_index b <= u64_max
                    | None => block = None
                    end).
      { unfold vt_untrusted in Hu. destruct block as [b|].
        - apply bind_ok in Hu. destruct Hu as (i & Hi & Hu). injection Hu as <- <- <-.
          unfold mul64 in Hi. destruct (fits_u64 (db_index b * 2)) eqn:F; [|discriminate Hi]. injection Hi as <-.
          destruct (Wb b eq_refl) as [A B]. split; [exact A|]. split; [intros v [= <-]; exact B|].
          split; [intros x Hx; left; eauto|]. exists b. unfold fits_u64 in F. repeat split; lia.
        - destruct hash as [h|]; [|discriminate Hu]. injection Hu as <- <- <-.
          split; [apply (Wh h eq_refl)|]. split; [discriminate|]. split; [|reflexivity].
          intros x Hx. right. left. split; [reflexivity|]. eauto. }
      destruct Hun as (Wn & Wv & Hnsup & Hvalue).
      assert (He : forall e, r1 = Some e -> node_fit e).
      { intros e ->. destruct Sh as (S1 & _ & _ & S4 & _). rewrite Forall_forall in S1. apply S1, S4. reflexivity. }
      destruct (vt_main_shape _ _ _ _ _ _ _ H2 Wn Wv He) as (cur & steps & r & -> & Rm & _ & Hch & Hcf & Hci & Hval).
      exists (vs ++ cur :: flat steps). split.
      { rewrite Rm, Rs, rev_app_distr, <- app_assoc. reflexivity. }
      split; [exact Hfr|].
      assert (Sh' : VShape sup vs r1).
      { apply (VShape_sup (fun x => In x sn)); [|exact Sh]. intros x Hx. left. apply Hsn, Hx. }
      assert (Hsibs : forall x, In x (map fst steps) -> (In x nodes \/ Some x = r1)).
      { intros x Hx. destruct value as [v|].
        - destruct Hval as [_ Hq]. apply Hq, Hx.
        - apply Hval. right. exact Hx. }
      assert (Hsf : Forall node_fit (map fst steps)).
      { apply Forall_forall. intros x Hx. destruct (Hsibs x Hx) as [A|A].
        - rewrite Forall_forall in Wn. apply (Wn x A).
        - apply He. symmetry. exact A. }
      assert (Hcs : sup cur \/ Some cur = r1).
      { destruct value as [v|].
        - destruct Hvalue as (b & -> & -> & -> & _). destruct Hval as [-> _]. left. right. exists b. auto.
        - destruct (proj1 (Hval cur) (or_introl eq_refl)) as [A|A]; [left; left; apply Hnsup, A|right; exact A]. }
      assert (Hex : forall e, r1 = Some e -> In e (cur :: map fst steps)).
      { intros e ->. destruct value as [v|].
        - right. destruct Hval as [_ Hq]. apply Hq. right. reflexivity.
        - apply Hval. right. reflexivity. }
      split.
      { apply (VShape_combine sup vs r1 cur steps r Sh' Hch Hcs Hcf Hsf); [|exact Hex].
        intros x Hx. destruct (Hsibs x Hx) as [A|A]; [left; left; apply Hnsup, A|right; exact A]. }
      split.
      { intros r0 [= <-]. apply (chain_root_hash32 _ _ _ Hch (proj1 Hcf)). }
      intros b Eb. destruct value as [v|].
      - destruct Hvalue as (b' & Eb' & -> & -> & Hfit). rewrite Eb in Eb'. injection Eb' as <-.
        destruct Hval as [-> _]. split; [|exact Hfit]. apply in_or_app. right. left. reflexivity.
      - rewrite Hvalue in Eb. discriminate Eb. }
    destruct u as [u0|]; [apply (Hboth u0 eq_refl H)|].
    destruct sn as [|n0 rest] eqn:Esn.
    - injection H as <- <-. exists []. split; [reflexivity|]. split; [exact Hfr|].
      split; [|split; [discriminate|]].
      + split; [constructor|]. split; [constructor|]. split; [constructor|]. split; [discriminate|reflexivity].
      + intros b ->. unfold vt_untrusted in Hu. apply bind_ok in Hu. destruct Hu as (i & _ & Hu). discriminate Hu.
    - apply (Hseek eq_refl). apply bind_ok in H. destruct H as ([r1 c1] & H1 & H2).
      cbn [vt_main] in H2. injection H2 as <- <-. exact H1.
  Qed.
End VerifyTree.

Print Assumptions node_get_hsound.
Print Assumptions tree_flush_hsound.
Print Assumptions climb_chain.
Print Assumptions chain_closure.
Print Assumptions chain_made.
Print Assumptions merge_one_h.
Print Assumptions backward_hauth.
Print Assumptions verify_tree_shape.

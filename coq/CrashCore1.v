(* CrashCore1.v — C02 over all four stores, part 1: the crash-tolerant invariant and reopening.
   XDisk kp d bs : what a disk looks like after a crash at any point of an append of the writer
                   fragment (before the next open);
   XInv c d bs   : memory c and disk d between two calls, tolerant of what crashes leave behind
                   (junk after the blocks in the data store, extra nodes in the tree store, extra
                   bits of [kf, n) in the bitfield store).
   DInv -> XInv; XInv determines the observations; core_open from XDisk gives XInv. *)
From HC Require Import Base NMap Codec CodecFacts Crypto FlatTree Storage Bitfield Oplog Merkle Core.
From HC Require Import FlatTreeFacts StorageFacts BitfieldFacts OplogFacts TreeRef OffsetFacts CoreFacts Crash Refine Reopen.
From HC Require Import ContigBridge.
From Coq Require Import FMapPositive ZifyN ZifyNat ZifyBool.
Ltac Zify.zify_post_hook ::= Z.div_mod_to_equations.
Arguments N.add : simpl never.
Arguments N.sub : simpl never.
Arguments N.mul : simpl never.
Arguments N.div : simpl never.
Arguments N.modulo : simpl never.
Arguments N.pow : simpl never.
Arguments N.eqb : simpl never.
Arguments N.ltb : simpl never.
Arguments N.leb : simpl never.
Arguments N.of_nat : simpl never.
Arguments N.to_nat : simpl never.

(* ====================================================================================== *)
(* A. Small facts about files                                                              *)
(* ====================================================================================== *)

(* a file with a given content *)
Definition file_of (b : bytes) : file := f_write file_empty 0 b.

Lemma file_of_content b : f_content (file_of b) = b.
Proof.
  unfold file_of. rewrite f_content_write. change (f_content file_empty) with (@nil N).
  apply c_write_empty.
Qed.

(* overwriting what follows a prefix: the prefix stays, the data follows, the rest of the old tail stays *)
Lemma c_write_after (a junk data : bytes) :
  c_write (a ++ junk) (len a) data = (a ++ data) ++ skipn (length data) junk.
Proof.
  unfold c_write, c_grow, len.
  rewrite Nat2N.id.
  set (Z := zeros _).
  rewrite <- (app_assoc a junk Z).
  rewrite firstn_app, firstn_all, Nat.sub_diag. cbn [firstn]. rewrite app_nil_r.
  rewrite <- app_assoc. f_equal. f_equal.
  rewrite skipn_app. rewrite (skipn_all2 a) by lia. cbn [app].
  replace (length a + length data - length a)%nat with (length data) by lia.
  rewrite skipn_app.
  subst Z. rewrite app_length.
  destruct (Nat.le_gt_cases (length data) (length junk)) as [L|L].
  - replace (N.to_nat (N.of_nat (length a) + N.of_nat (length data)) - (length a + length junk))%nat with 0%nat by lia.
    replace (length data - length junk)%nat with 0%nat by lia.
    unfold zeros. cbn [repeat skipn]. apply app_nil_r.
  - rewrite (skipn_all2 junk) by lia. cbn [app].
    apply skipn_all2. rewrite zeros_length. lia.
Qed.

Lemma data_read_junk (f : file) (bs : list bytes) (junk : bytes) (i : nat) :
  f_content f = concat bs ++ junk -> (i < length bs)%nat ->
  f_read f (prefix_size bs (N.of_nat i)) (len (nth i bs [])) = Some (nth i bs []).
Proof.
  intros H Hi. rewrite prefix_size_concat.
  apply (f_read_content f _ _ (concat (skipn (S i) bs) ++ junk)).
  rewrite H, (concat_split bs i Hi), <- !app_assoc. reflexivity.
Qed.

(* ====================================================================================== *)
(* B. The crash-tolerant clauses                                                           *)
(* ====================================================================================== *)

(* bitfield store: whole pages; every bit below kf is set; no bit at or above n is set; the
   bits of [kf, n) are arbitrary (any mixture of flushed and unflushed pages) *)
Definition BfX (f : file) (kf n : N) : Prop :=
  f_len f mod PAGE_BYTES = 0 /\ (forall i, i < kf -> fbit f i = true) /\ (forall i, n <= i -> fbit f i = false).

(* every bit on which memory and store differ lies in a dirty page *)
Definition BfSync (f : file) (b : bitfield) : Prop :=
  forall i, bf_get b i <> fbit f i -> In (i / PAGE_BITS) (bf_dirty b).

Lemma BfDisk_BfX f kf n : BfDisk f kf -> kf <= n -> BfX f kf n.
Proof.
  intros [Hm Hb] Hle. split; [exact Hm|]. split; intros i Hi; rewrite Hb; lia.
Qed.

Lemma BfX_weaken f kf n n' : BfX f kf n -> n <= n' -> BfX f kf n'.
Proof. intros (H1 & H2 & H3) Hle. split; [exact H1|]. split; [exact H2|]. intros i Hi. apply H3. lia. Qed.

Lemma BfSync_apply f b u : BfSync f b -> BfSync f (bf_apply b u).
Proof.
  intros H i Hne. unfold bf_apply in *.
  destruct (Bool.bool_dec (bf_get (bf_set_range b (bu_start u) (bu_length u) (negb (bu_drop u))) i) (bf_get b i)) as [E|E].
  - apply bf_dirty_set_range_mono. apply H. rewrite <- E. exact Hne.
  - apply bf_dirty_set_range_sound. exact E.
Qed.

Lemma BfSync_fold f us : forall b, BfSync f b -> BfSync f (fold_left bf_apply us b).
Proof.
  induction us as [|u us IH]; intros b H; [exact H|]. cbn [fold_left]. apply IH, BfSync_apply, H.
Qed.

Lemma BfSync_open f : f_len f mod PAGE_BYTES = 0 -> BfSync f (bf_open f).
Proof. intros Hm i Hne. exfalso. apply Hne. apply bf_open_get, Hm. Qed.

Lemma BfSync_flush f b :
  BfSync f b -> forall i, fbit (write_pages f (bf_bits b) (bf_dirty b)) i = bf_get b i.
Proof.
  intros H i. destruct (fbit_write_pages (bf_bits b) (bf_dirty b) f i) as [I1 I2].
  destruct (in_dec N.eq_dec (i / PAGE_BITS) (bf_dirty b)) as [Hin|Hnin].
  - apply I1, Hin.
  - rewrite (I2 Hnin).
    destruct (Bool.bool_dec (bf_get b i) (fbit f i)) as [E|E]; [symmetry; exact E|].
    exfalso. apply Hnin. apply (H i). exact E.
Qed.

(* a bitfield holding exactly [0, k) *)
Definition bf_upto (k : N) : bitfield := bf_apply bf_empty (mkBfUpdate false 0 k).

Lemma bf_upto_get k i : bf_get (bf_upto k) i = (i <? k).
Proof.
  unfold bf_upto. rewrite bf_get_apply. cbn [bu_start bu_length bu_drop negb].
  unfold bf_get, bf_empty. cbn [bf_bits]. rewrite nm_mem_empty.
  destruct (N.leb_spec 0 i), (N.ltb_spec i (0 + k)), (N.ltb_spec i k); cbn [andb]; try reflexivity; lia.
Qed.

(* ====================================================================================== *)
(* C. XDisk, XInv                                                                          *)
(* ====================================================================================== *)

Section X.
  Variable cr : crypto.

  (* the oplog file after a crash: stable, or a new header already written while the entries of the
     previous epoch (other entry bit) are still there — open cuts them *)
  Definition OplX (s0 s1 body : bytes) (st0 st1 : slot_state) (bits : bool * bool) (hf : header)
             (l : list entry) : Prop :=
    good cr s0 s1 body st0 st1 bits hf l \/
    (l = [] /\ slot_is cr s0 st0 /\ slot_is cr s1 st1 /\ choose st0 st1 = Some (bits, hf) /\
     exists cb l0, current_bit bits = negb cb /\ frames cr cb (tag l0) = Ok body).

  (* a disk as a crash may leave it (no memory): hf = the header on disk describing kf blocks,
     l = the entries logged since *)
  Definition XDisk (kp : keypair) (d : disk) (bs : list bytes) : Prop :=
    let n := N.of_nat (length bs) in
    sumN (map len bs) <= u64_max /\ NODE_SIZE * (2 * n) <= u64_max /\
    (exists junk, f_content (d_data d) = concat bs ++ junk) /\
    exists s0 s1 body st0 st1 bits hf l kf,
      f_content (d_oplog d) = s0 ++ s1 ++ body /\
      OplX s0 s1 body st0 st1 bits hf l /\
      hdr_desc kp hf kf /\
      echain cr bs kf l n /\
      lookups cr tE (d_tree d) bs kf /\
      BfX (d_bitfield d) kf n.

  (* the memory/tree/data part: Refine.WInv with the data clause weakened to a prefix *)
  Definition XW (c : core) (d : disk) (bs : list bytes) : Prop :=
    let t := c_tree c in
    let n := N.of_nat (length bs) in
    t_length t = n /\ t_byte_length t = sumN (map len bs) /\ t_fork t = 0 /\
    t_roots t = ref_roots cr bs n /\
    lookups cr t (d_tree d) bs n /\
    unflushed_ok t /\
    (forall i, bf_get (c_bitfield c) i = (i <? n)) /\
    hd_contig (c_header c) = n /\
    (exists junk, f_content (d_data d) = concat bs ++ junk) /\
    sumN (map len bs) <= u64_max /\ NODE_SIZE * (2 * n) <= u64_max.

  (* memory c and disk d between two calls *)
  Definition XInv (c : core) (d : disk) (bs : list bytes) : Prop :=
    let n := N.of_nat (length bs) in
    XW c d bs /\
    exists s0 s1 body st0 st1 hf l kf,
      f_content (d_oplog d) = s0 ++ s1 ++ body /\
      good cr s0 s1 body st0 st1 (ol_bits (c_oplog c)) hf l /\
      ol_entries_len (c_oplog c) = N.of_nat (length l) /\
      ol_entries_bytes (c_oplog c) = entries_size l /\
      hdr_desc (c_keypair c) hf kf /\
      hdr_desc (c_keypair c) (c_header c) n /\
      echain cr bs kf l n /\
      lookups cr tE (d_tree d) bs kf /\
      BfX (d_bitfield d) kf n /\
      BfSync (d_bitfield d) (c_bitfield c).

  Lemma XInv_XW c d bs : XInv c d bs -> XW c d bs.
  Proof. intros [W _]. exact W. Qed.

  Lemma WInv_XW c d bs : WInv cr c d bs -> XW c d bs.
  Proof.
    intros (HL & HB & HF & HR & Hlook & Hun & Hbf & Hc & Hd & Hs & Hn).
    unfold XW. repeat (split; [assumption|]). split; [|split; assumption].
    exists []. rewrite app_nil_r. exact Hd.
  Qed.

  (* the disk with the junk removed from the data store satisfies Refine.WInv *)
  Definition clean_data (d : disk) (bs : list bytes) : disk :=
    mkDisk (d_tree d) (file_of (concat bs)) (d_bitfield d) (d_oplog d).

  Lemma XW_WInv c d bs : XW c d bs -> WInv cr c (clean_data d bs) bs.
  Proof.
    intros (HL & HB & HF & HR & Hlook & Hun & Hbf & Hc & Hd & Hs & Hn).
    unfold WInv, clean_data. cbn [d_tree d_data].
    repeat (split; [assumption|]). split; [apply file_of_content|split; assumption].
  Qed.

  (* (1) DInv -> XInv *)
  Theorem DInv_XInv c d bs : DInv cr c d bs -> XInv c d bs.
  Proof.
    intros (W & s0 & s1 & body & st0 & st1 & hf & l & kf & Hcont & G & Hlen & Hbytes & Hhf & Hhc & Hch &
            Hstore & Hbfd & Hdirty).
    pose proof W as (HL & HB & HF & HR & Hlook & Hun & Hbf & Hcg & Hd & Hs & Hn).
    pose proof (echain_le cr bs l kf _ Hch) as Hle.
    split; [apply WInv_XW, W|].
    exists s0, s1, body, st0, st1, hf, l, kf.
    repeat (split; [assumption|]).
    split; [apply BfDisk_BfX; assumption|].
    intros i Hne. apply Hdirty.
    - destruct Hbfd as [_ Hb]. rewrite Hbf, Hb in Hne. lia.
    - destruct Hbfd as [_ Hb]. rewrite Hbf, Hb in Hne. lia.
  Qed.

  (* XInv -> XDisk: the disk part alone *)
  Theorem XInv_XDisk c d bs : XInv c d bs -> XDisk (c_keypair c) d bs.
  Proof.
    intros ((HL & HB & HF & HR & Hlook & Hun & Hbf & Hcg & Hd & Hs & Hn) &
            s0 & s1 & body & st0 & st1 & hf & l & kf & Hcont & G & Hlen & Hbytes & Hhf & Hhc & Hch &
            Hstore & Hbx & Hsync).
    unfold XDisk. split; [exact Hs|]. split; [exact Hn|]. split; [exact Hd|].
    exists s0, s1, body, st0, st1, (ol_bits (c_oplog c)), hf, l, kf.
    split; [exact Hcont|]. split; [left; exact G|]. repeat (split; [assumption|]). exact Hbx.
  Qed.

  (* ---------- (2) XInv determines the observations ---------- *)

  Hypothesis Hhash32 : forall x, length (cr_hash cr x) = 32%nat.
  Hypothesis Hnonblank : forall x, all_zero (cr_hash cr x) = false.

  Theorem X_info c d bs :
    XW c d bs ->
    core_info c = mkInfo (N.of_nat (length bs)) (sumN (map len bs)) (N.of_nat (length bs)) 0
                         (match kp_secret (c_keypair c) with Some _ => true | None => false end).
  Proof. intros W. apply (info_correct cr c (clean_data d bs) bs), XW_WInv, W. Qed.

  Theorem X_has c d bs i : XW c d bs -> core_has c i = (i <? N.of_nat (length bs)).
  Proof. intros W. apply (has_correct cr c (clean_data d bs) bs), XW_WInv, W. Qed.

  Theorem X_get c d bs j ev i :
    XW c d bs ->
    core_get i c (mkWorld d j ev) =
    if i <? N.of_nat (length bs)
    then (c, mkWorld d j ev, Ok (Some (nth (N.to_nat i) bs [])))
    else (c, mkWorld d j (EvGet i :: ev), Ok None).
  Proof.
    intros W. pose proof (XW_WInv c d bs W) as W0.
    destruct W as (HL & HB & HF & HR & Hlook & Hun & Hbf & Hc & (junk & Hd) & Hs & Hn).
    unfold core_get. rewrite mbind_get_core, Hbf.
    destruct (N.ltb_spec i (N.of_nat (length bs))) as [L|L]; cbn [negb].
    - rewrite mbind_get_disk. cbn [w_disk]. rewrite mbind_lift.
      pose proof (byte_range_correct cr c (clean_data d bs) bs i W0 L) as BR.
      cbn [clean_data d_tree] in BR. rewrite BR.
      destruct (N.eqb_spec (len (nth (N.to_nat i) bs [])) 0) as [E|E].
      + apply len_zero_nil in E. rewrite E. reflexivity.
      + replace (prefix_size bs i) with (prefix_size bs (N.of_nat (N.to_nat i))) by (f_equal; lia).
        rewrite (data_read_junk (d_data d) bs junk (N.to_nat i) Hd) by lia. reflexivity.
    - reflexivity.
  Qed.

  (* all observations at once, as a predicate on (c, d) and the list model *)
  Definition obs_list (c : core) (d : disk) (bs : list bytes) : Prop :=
    core_info c = mkInfo (N.of_nat (length bs)) (sumN (map len bs)) (N.of_nat (length bs)) 0
                         (match kp_secret (c_keypair c) with Some _ => true | None => false end) /\
    (forall i, core_has c i = (i <? N.of_nat (length bs))) /\
    (forall i j ev, core_get i c (mkWorld d j ev) =
                    if i <? N.of_nat (length bs)
                    then (c, mkWorld d j ev, Ok (Some (nth (N.to_nat i) bs [])))
                    else (c, mkWorld d j (EvGet i :: ev), Ok None)).

  Theorem XInv_observations c d bs : XInv c d bs -> obs_list c d bs.
  Proof.
    intros [W _]. split; [apply (X_info c d bs W)|]. split.
    - intros i. apply (X_has c d bs i W).
    - intros i j ev. apply (X_get c d bs j ev i W).
  Qed.
End X.

(* ====================================================================================== *)
(* D. Replay over a disk left by a crash                                                   *)
(* ====================================================================================== *)

Section ReplayX.
  Variable cr : crypto.
  Hypothesis Hhash32 : forall x, length (cr_hash cr x) = 32%nat.
  Hypothesis Hnonblank : forall x, all_zero (cr_hash cr x) = false.
  Hypothesis Hhashbytes : forall x, bytes_ok (cr_hash cr x) = true.

  (* the tree/header part of Reopen.RInv: nothing is said about the bitfield, and the contiguous
     length of the header is left open (it depends on the bits found in the store) *)
  Definition RInvT (bs : list bytes) (tf : file) (kp : keypair)
             (st : mtree * bitfield * header) (a : N) : Prop :=
    let '(t, b, h) := st in
    t_length t = a /\ t_byte_length t = prefix_size bs a /\ t_fork t = 0 /\
    t_roots t = ref_roots cr bs a /\ lookups cr t tf bs a /\ unflushed_ok t /\
    hdr_desc kp (set_contig h a) a.

  Lemma replay_entry_okT bs tf kp t b h e a m :
    sumN (map len bs) <= u64_max -> m <= u64_max ->
    RInvT bs tf kp (t, b, h) a -> edesc cr bs a e m ->
    exists t' b' h', replay_entry cr tf (t, b, h) e = Ok (t', b', h') /\ RInvT bs tf kp (t', b', h') m.
  Proof.
    intros Hfit Hm (HL & HB & HF & HR & Hlook & Hun & Hh)
           (Hlt & (sg & Hup & Hsg & Hsgb) & Hbu & Hsound & Hcompl).
    assert (Sound : forall x, In x (e_nodes e) -> x = ref_at cr bs (n_index x)).
    { intros x Hx. destruct (Hsound x Hx) as (j & q & -> & _). apply ref_node_is_ref. }
    unfold replay_entry. rewrite fold_add_node, Hbu, Hup.
    cbn [tu_length tu_fork tu_signature tu_ancestors].
    set (t1 := mkTree (t_roots t) (t_length t) (t_byte_length t) (t_fork t) (t_signature t)
                      (add_nodes (t_unflushed t) (e_nodes e))).
    set (u := mkBfUpdate false a (m - a)).
    assert (L1 : lookups cr t1 tf bs m).
    { apply (lookups_add cr Hnonblank bs t t1 tf (e_nodes e) a m Sound Hcompl); [reflexivity|exact Hlook]. }
    rewrite (tree_truncate_ref cr Hnonblank bs t1 tf m 0).
    2:{ intros x Hx. unfold t1 in Hx. cbn [t_roots] in Hx. rewrite HR in Hx. eapply in_ref_roots. exact Hx. }
    2:{ exact L1. }
    cbn [bind]. unfold parse_signature. rewrite Hsg. cbn [Nat.eqb bind].
    cbn [cs_length cs_byte_length cs_batch_length cs_fork cs_roots cs_rnodes cs_orig_length cs_orig_fork].
    unfold tree_commit, commitable.
    cbn [cs_orig_fork cs_upgraded cs_orig_length cs_ancestors cs_roots cs_length cs_byte_length cs_fork
         cs_signature cs_nodes cs_rnodes rev_append].
    rewrite !N.eqb_refl. cbn [andb negb].
    assert ((a <? t_length t1) = false) as ->.
    { unfold t1. cbn [t_length]. rewrite HL. apply N.ltb_irrefl. }
    cbn [bind]. do 3 eexists. split; [reflexivity|].
    unfold RInvT. cbn [t_length t_byte_length t_fork t_roots].
    split; [reflexivity|]. split; [reflexivity|]. split; [reflexivity|]. split; [reflexivity|].
    split.
    { intros d o Hfull. rewrite <- (L1 d o Hfull). apply required_node_same_unflushed. reflexivity. }
    split.
    { apply (commit_unflushed_ok cr Hhash32 bs t _ (e_nodes e) Hfit Sound); [reflexivity|exact Hun]. }
    pose proof Hh as (Hok & Hkp & Hfk & Hln & Hcg & Hrh & Hsgn).
    apply (hdr_desc_upd kp (set_contig h a) a _ m (tree_hash cr (ref_roots cr bs m)) sg);
      try reflexivity; try assumption.
    - cbn [set_tree set_contig hd_tree hd_contig ht_fork] in *. rewrite Hfk. reflexivity.
    - apply Hhash32.
    - apply Hhashbytes.
  Qed.

  Lemma replay_entries_okT bs tf kp (l : list entry) : forall t b h a n,
    sumN (map len bs) <= u64_max -> n <= u64_max ->
    RInvT bs tf kp (t, b, h) a -> echain cr bs a l n ->
    exists t' b' h', replay_entries cr tf (t, b, h) l = Ok (t', b', h') /\ RInvT bs tf kp (t', b', h') n.
  Proof.
    induction l as [|e l IH]; intros t b h a n Hfit Hn R C; cbn [echain replay_entries] in *.
    - subst. do 3 eexists. split; [reflexivity|exact R].
    - destruct C as (m & He & C). pose proof (echain_le _ _ _ _ _ C) as Le.
      destruct (replay_entry_okT bs tf kp t b h e a m Hfit ltac:(lia) R He) as (t1 & b1 & h1 & E1 & R1).
      rewrite E1. cbn [bind]. apply (IH t1 b1 h1 m n Hfit Hn R1 C).
  Qed.

  (* ---------- the bitfield part ---------- *)

  Lemma updates_of_cons e l :
    updates_of (e :: l) = (match e_bitfield e with Some u => [u] | None => [] end) ++ updates_of l.
  Proof. reflexivity. Qed.

  Lemma echain_updates bs l : forall a n b,
    echain cr bs a l n -> (forall i, bf_get b i = (i <? a)) ->
    forall i, bf_get (fold_left bf_apply (updates_of l) b) i = (i <? n).
  Proof.
    induction l as [|e l IH]; intros a n b C Hb i; cbn [echain] in C.
    - subst. apply Hb.
    - destruct C as (m & (Hlt & _ & Hbu & _) & C).
      rewrite updates_of_cons, Hbu. cbn [app fold_left].
      apply (IH m n _ C). intros k.
      destruct (contig_after b a (m - a) Hb ltac:(lia)) as [G _].
      rewrite G. f_equal. lia.
  Qed.

  Lemma echain_drops bs l : forall a n, echain cr bs a l n -> drops_nonempty (updates_of l).
  Proof.
    induction l as [|e l IH]; intros a n C; cbn [echain] in C.
    - intros u [].
    - destruct C as (m & (Hlt & _ & Hbu & _) & C).
      rewrite updates_of_cons, Hbu. intros u [<-|Hin] Hd.
      + discriminate Hd.
      + apply (IH m n C u Hin Hd).
  Qed.

  (* replay over a bitfield store left by a crash: final field exactly [0, n), exact hint *)
  Lemma replay_bitfield bs tf l t d h t' b' h' kf n :
    replay_entries cr tf (t, d, h) l = Ok (t', b', h') ->
    echain cr bs kf l n -> hd_contig h = kf ->
    (forall i, i < kf -> bf_get d i = true) -> (forall i, n <= i -> bf_get d i = false) ->
    (forall i, bf_get b' i = (i <? n)) /\ hd_contig h' = n /\ b' = fold_left bf_apply (updates_of l) d.
  Proof.
    intros Hr C Hc Hlo Hhi.
    pose proof (echain_le _ _ _ _ _ C) as Hle.
    pose proof (echain_updates bs l kf n (bf_upto kf) C (bf_upto_get kf)) as Hfin.
    destruct (replay_entries_contig_exact cr tf l t d h t' b' h' (bf_upto kf) Hr (echain_drops bs l kf n C)) as [E Hx].
    { rewrite Hc. split; [intros i Hi; rewrite bf_upto_get; lia|rewrite bf_upto_get; lia]. }
    { intros i. rewrite Hfin, bf_upto_get.
      destruct (N.lt_ge_cases i kf) as [A|A]; [left; rewrite Hlo by exact A; lia|].
      destruct (N.lt_ge_cases i n) as [B|B].
      - destruct (bf_get d i); [right|left]; lia.
      - left. rewrite Hhi by exact B. lia. }
    assert (G : forall i, bf_get b' i = (i <? n)) by (intros i; rewrite E; apply Hfin).
    split; [exact G|]. split.
    - apply (exact_contig_unique b' _ _ Hx). split; [intros i Hi; rewrite G; lia|rewrite G; lia].
    - apply replay_entries_bf in Hr.
      rewrite <- (fst_replay_bf (updates_of l) d (hd_contig h)), <- Hr. reflexivity.
  Qed.
End ReplayX.

(* ====================================================================================== *)
(* E. (3) core_open from a crash disk                                                      *)
(* ====================================================================================== *)

Section ReopenX.
  Variable cr : crypto.
  Hypothesis Hcrc : crc_ok cr.
  Hypothesis Hhash32 : forall x, length (cr_hash cr x) = 32%nat.
  Hypothesis Hnonblank : forall x, all_zero (cr_hash cr x) = false.
  Hypothesis Hhashbytes : forall x, bytes_ok (cr_hash cr x) = true.

  (* what core_open does after the oplog has been opened and repaired *)
  Definition open_tail (d' : disk) (oo : open_outcome) : res core :=
    t <- tree_open (hd_tree (oo_header oo)) (d_tree d') ;;
    let b := bf_open (d_bitfield d') in
    '(t, b, h) <- replay_entries cr (d_tree d') (t, b, oo_header oo) (oo_entries oo) ;;
    Ok (mkCore (hd_keypair h) (oo_oplog oo) t b h 0).

  Lemma core_open_eq d oo d' :
    oplog_open cr None (f_content (d_oplog d)) = Ok oo -> apply_sops d (oo_ops oo) = Some d' ->
    core_open cr None true d = (d', oo_ops oo, open_tail d' oo).
  Proof. intros H1 H2. unfold core_open. cbv iota. rewrite H1, H2. reflexivity. Qed.

  Lemma set_contig_id h : set_contig h (hd_contig h) = h.
  Proof. destruct h; reflexivity. Qed.

  Lemma open_tail_X kp d bs s0 s1 body st0 st1 bits hf l kf ops :
    let n := N.of_nat (length bs) in
    sumN (map len bs) <= u64_max -> NODE_SIZE * (2 * n) <= u64_max ->
    (exists junk, f_content (d_data d) = concat bs ++ junk) ->
    f_content (d_oplog d) = s0 ++ s1 ++ body ->
    good cr s0 s1 body st0 st1 bits hf l ->
    hdr_desc kp hf kf -> echain cr bs kf l n ->
    lookups cr tE (d_tree d) bs kf -> BfX (d_bitfield d) kf n ->
    exists c', open_tail d (mkOpenOutcome (mkOplog bits (N.of_nat (length l)) (entries_size l)) hf ops l) = Ok c' /\
               XInv cr c' d bs /\ c_keypair c' = kp /\ c_skip c' = 0.
  Proof.
    intros n Hs Hn Hd Hcont G Hhf Hch Hstore (Hpages & Hlo & Hhi).
    unfold open_tail. cbn [oo_header oo_entries oo_oplog].
    pose proof Hhf as (Hok & Hkp & Hfk & Hln & Hcgf & Hrh & Hsg).
    destruct (tree_open_ref cr Hnonblank bs (d_tree d) (hd_tree hf) kf Hstore Hln Hsg) as [sg0 Hto].
    rewrite Hto. cbn [bind]. rewrite Hfk.
    set (t0 := mkTree (ref_roots cr bs kf) kf (prefix_size bs kf) 0 sg0 nm_empty).
    assert (R0 : RInvT cr bs (d_tree d) kp (t0, bf_open (d_bitfield d), hf) kf).
    { unfold RInvT, t0. cbn [t_length t_byte_length t_fork t_roots].
      split; [reflexivity|]. split; [reflexivity|]. split; [reflexivity|]. split; [reflexivity|].
      split. { intros dd o Hfull. rewrite <- (Hstore dd o Hfull). apply required_node_same_unflushed. reflexivity. }
      split. { intros i x H. cbn [t_unflushed] in H. rewrite nm_get_empty in H. discriminate H. }
      rewrite <- Hcgf, set_contig_id, Hcgf. exact Hhf. }
    assert (Hn64 : n <= u64_max) by (unfold NODE_SIZE in Hn; lia).
    destruct (replay_entries_okT cr Hhash32 Hnonblank Hhashbytes bs (d_tree d) kp l
                t0 (bf_open (d_bitfield d)) hf kf n Hs Hn64 R0 Hch) as (t' & b' & h' & Hrep & R').
    rewrite Hrep. cbn [bind].
    destruct R' as (HL' & HB' & HF' & HR' & Hlook' & Hun' & Hh').
    destruct (replay_bitfield cr bs (d_tree d) l t0 (bf_open (d_bitfield d)) hf t' b' h' kf n Hrep Hch Hcgf)
      as (Hbf' & Hcg' & Eb').
    { intros i Hi. rewrite bf_open_get by exact Hpages. apply Hlo, Hi. }
    { intros i Hi. rewrite bf_open_get by exact Hpages. apply Hhi, Hi. }
    rewrite <- Hcg', set_contig_id in Hh'. rewrite Hcg' in Hh'.
    pose proof Hh' as (Hok' & Hkp' & _).
    eexists. split; [reflexivity|].
    split; [|split; [exact Hkp'|reflexivity]].
    split.
    { unfold XW. cbn [c_tree c_bitfield c_header]. fold n.
      split; [exact HL'|]. split; [rewrite HB'; unfold n; apply prefix_size_all|].
      split; [exact HF'|]. split; [exact HR'|]. split; [exact Hlook'|]. split; [exact Hun'|].
      split; [exact Hbf'|]. split; [exact Hcg'|]. split; [exact Hd|]. split; [exact Hs|exact Hn]. }
    cbn [c_oplog c_keypair c_header c_bitfield ol_bits ol_entries_len ol_entries_bytes].
    fold n. rewrite Hkp'.
    exists s0, s1, body, st0, st1, hf, l, kf.
    split; [exact Hcont|]. split; [exact G|]. split; [reflexivity|]. split; [reflexivity|].
    split; [exact Hhf|]. split; [exact Hh'|]. split; [exact Hch|].
    split; [exact Hstore|]. split; [repeat split; assumption|].
    rewrite Eb'. apply BfSync_fold, BfSync_open, Hpages.
  Qed.

  (* opening the oplog of a crash disk: either nothing to repair, or one truncate of the stale entries *)
  Lemma OplX_open s0 s1 body st0 st1 bits hf l :
    OplX cr s0 s1 body st0 st1 bits hf l ->
    exists ops,
      oplog_open cr None (s0 ++ s1 ++ body) =
        Ok (mkOpenOutcome (mkOplog bits (N.of_nat (length l)) (entries_size l)) hf ops l) /\
      ((ops = [] /\ good cr s0 s1 body st0 st1 bits hf l) \/
       (ops = [ST Oplog ENTRIES_OFFSET] /\ length s0 = SLOT /\ length s1 = SLOT /\
        good cr s0 s1 [] st0 st1 bits hf l)).
  Proof.
    intros [G|(-> & H0 & H1 & Hch & cb & l0 & Hcb & Hf)].
    - exists []. split; [apply (good_open cr Hcrc _ _ _ _ _ _ _ _ G)|]. left. split; [reflexivity|exact G].
    - rewrite (open_after_header_write cr Hcrc s0 s1 body st0 st1 bits hf cb l0 H0 H1 Hch Hcb Hf).
      assert (L0 : length s0 = SLOT) by (destruct st0; apply H0).
      assert (L1 : length s1 = SLOT) by (destruct st1; apply H1).
      assert (G0 : good cr s0 s1 [] st0 st1 bits hf []).
      { split; [exact H0|]. split; [exact H1|]. split; [exact Hch|]. split; reflexivity. }
      destruct (N.ltb_spec 0 (len body)) as [Lt|Ge].
      + exists [ST Oplog ENTRIES_OFFSET]. split; [reflexivity|]. right. repeat split; assumption.
      + exists []. split; [reflexivity|]. left. split; [reflexivity|].
        assert (body = []) as -> by (apply len_zero_nil; lia). exact G0.
  Qed.

  (* (3) reopening a crash disk: success, XInv for the same block list; only the oplog store may change *)
  Theorem reopen_X kp d bs :
    XDisk cr kp d bs ->
    exists c' d' ops, core_open cr None true d = (d', ops, Ok c') /\
      XInv cr c' d' bs /\ c_keypair c' = kp /\ c_skip c' = 0 /\
      d_tree d' = d_tree d /\ d_data d' = d_data d /\ d_bitfield d' = d_bitfield d /\
      (ops = [] /\ d' = d \/ ops = [ST Oplog ENTRIES_OFFSET]).
  Proof.
    intros (Hs & Hn & Hd & s0 & s1 & body & st0 & st1 & bits & hf & l & kf & Hcont & HO & Hhf & Hch & Hstore & Hbx).
    destruct (OplX_open s0 s1 body st0 st1 bits hf l HO) as (ops & Hopen & [(-> & G)|(-> & L0 & L1 & G)]).
    - rewrite <- Hcont in Hopen.
      rewrite (core_open_eq d _ d Hopen eq_refl). cbn [oo_ops].
      destruct (open_tail_X kp d bs s0 s1 body st0 st1 bits hf l kf [] Hs Hn Hd Hcont G Hhf Hch Hstore Hbx)
        as (c' & E & X & K & Sk).
      exists c', d, []. split; [rewrite E; reflexivity|].
      repeat (split; [assumption || reflexivity|]). left. split; reflexivity.
    - rewrite <- Hcont in Hopen.
      set (d' := d_set d Oplog (f_truncate (d_oplog d) ENTRIES_OFFSET)).
      assert (Ha : apply_sops d [ST Oplog ENTRIES_OFFSET] = Some d') by reflexivity.
      rewrite (core_open_eq d _ d' Hopen Ha). cbn [oo_ops].
      assert (Hcont' : f_content (d_oplog d') = s0 ++ s1 ++ []).
      { unfold d'. destruct d as [ft fd fb fo]. cbn [d_set d_oplog] in *.
        rewrite f_content_truncate, Hcont. apply c_truncate_all_entries; assumption. }
      assert (Et : d_tree d' = d_tree d) by (destruct d; reflexivity).
      assert (Ed : d_data d' = d_data d) by (destruct d; reflexivity).
      assert (Eb : d_bitfield d' = d_bitfield d) by (destruct d; reflexivity).
      destruct (open_tail_X kp d' bs s0 s1 [] st0 st1 bits hf l kf [ST Oplog ENTRIES_OFFSET] Hs Hn)
        as (c' & E & X & K & Sk); try assumption.
      exists c', d', [ST Oplog ENTRIES_OFFSET]. split; [rewrite E; reflexivity|].
      repeat (split; [assumption|]). right. reflexivity.
  Qed.

  (* reopening a running state: the same observations (both are those of the list model) *)
  Corollary reopen_XInv c d bs :
    XInv cr c d bs ->
    exists c' d' ops, core_open cr None true d = (d', ops, Ok c') /\
      XInv cr c' d' bs /\ c_keypair c' = c_keypair c /\ d' = d /\ ops = [].
  Proof.
    intros X.
    pose proof X as (_ & s0 & s1 & body & st0 & st1 & hf & l & kf & Hcont & G & _).
    destruct (reopen_X (c_keypair c) d bs (XInv_XDisk cr c d bs X))
      as (c' & d' & ops & E & X' & K & _ & _ & _ & _ & [(-> & ->) | -> ]).
    - exists c', d, []. split; [exact E|]. split; [exact X'|]. split; [exact K|]. split; reflexivity.
    - exfalso. unfold core_open in E. cbv iota in E. rewrite Hcont in E.
      rewrite (good_open cr Hcrc _ _ _ _ _ _ _ _ G) in E. cbn [stable_result oo_ops apply_sops] in E.
      injection E as _ E _. discriminate E.
  Qed.

  (* reopening a running state changes no observation: info, has, and get (result, events, disk, journal) *)
  Corollary reopen_XInv_observations c d bs :
    XInv cr c d bs ->
    exists c', core_open cr None true d = (d, [], Ok c') /\ XInv cr c' d bs /\
      core_info c' = core_info c /\ (forall i, core_has c' i = core_has c i) /\
      (forall i j ev, snd (core_get i c' (mkWorld d j ev)) = snd (core_get i c (mkWorld d j ev)) /\
                      snd (fst (core_get i c' (mkWorld d j ev))) = snd (fst (core_get i c (mkWorld d j ev)))).
  Proof.
    intros X. destruct (reopen_XInv c d bs X) as (c' & d' & ops & E & X' & K & -> & ->).
    exists c'. split; [exact E|]. split; [exact X'|].
    pose proof (XInv_XW cr c d bs X) as W. pose proof (XInv_XW cr c' d bs X') as W'.
    split; [rewrite (X_info cr c' d bs W'), (X_info cr c d bs W), K; reflexivity|].
    split; [intros i; rewrite (X_has cr c' d bs i W'), (X_has cr c d bs i W); reflexivity|].
    intros i j ev. rewrite (X_get cr Hhash32 Hnonblank c' d bs j ev i W'), (X_get cr Hhash32 Hnonblank c d bs j ev i W).
    destruct (i <? N.of_nat (length bs)); split; reflexivity.
  Qed.
End ReopenX.

Print Assumptions DInv_XInv.
Print Assumptions XInv_XDisk.
Print Assumptions X_info.
Print Assumptions X_has.
Print Assumptions X_get.
Print Assumptions XInv_observations.
Print Assumptions replay_entry_okT.
Print Assumptions replay_entries_okT.
Print Assumptions replay_bitfield.
Print Assumptions open_tail_X.
Print Assumptions OplX_open.
Print Assumptions reopen_X.
Print Assumptions reopen_XInv.
Print Assumptions reopen_XInv_observations.

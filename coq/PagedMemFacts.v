(* PagedMemFacts.v — C14: the page-map algorithm of random-access-memory 3.0.0 (PagedMem.v) refines the flat
   byte file of Storage.v: every operation history gives the same observations and the same final content. *)
From HC Require Import Base NMap Storage StorageFacts PagedMem.
From Coq Require Import ZifyN ZifyNat ZifyBool.
Ltac Zify.zify_post_hook ::= Z.div_mod_to_equations.
Arguments N.add : simpl never.
Arguments N.sub : simpl never.
Arguments N.mul : simpl never.
Arguments N.div : simpl never.
Arguments N.modulo : simpl never.
Arguments N.pow : simpl never.
Arguments N.eqb : simpl never.
Arguments N.ltb : simpl never.
Arguments N.leb : simpl never.
Arguments N.max : simpl never.
Arguments N.min : simpl never.
Arguments N.of_nat : simpl never.
Arguments N.to_nat : simpl never.
Arguments N.iter : simpl never.

(* ---------- Vec helpers ---------- *)

(* l[k], 0 beyond the end *)
Definition l_get (l : list N) (k : N) : N := nth (N.to_nat k) l 0.

Lemma l_get_nil k : l_get [] k = 0.
Proof. unfold l_get. destruct (N.to_nat k); reflexivity. Qed.

Lemma l_get_cons_0 x r : l_get (x :: r) 0 = x.
Proof. reflexivity. Qed.

Lemma l_get_cons_S x r k : k <> 0 -> l_get (x :: r) k = l_get r (k - 1).
Proof.
  intros H. unfold l_get. replace (N.to_nat k) with (S (N.to_nat (k - 1))) by lia. reflexivity.
Qed.

Lemma l_get_beyond l k : len l <= k -> l_get l k = 0.
Proof. intros H. unfold l_get. apply nth_overflow. unfold len in H. lia. Qed.

Lemma len_cons x (r : bytes) : len (x :: r) = len r + 1.
Proof. unfold len. cbn [length]. lia. Qed.

Lemma len_nil : len [] = 0.
Proof. reflexivity. Qed.

Lemma len_0_nil (d : bytes) : len d = 0 -> d = [].
Proof. destruct d; [reflexivity|]. rewrite len_cons. lia. Qed.

Lemma zeros_n_repeat n : zeros_n n = repeat 0 (N.to_nat n).
Proof.
  unfold zeros_n. induction n as [|n IH] using N.peano_ind; [reflexivity|].
  rewrite N.iter_succ, IH, N2Nat.inj_succ. reflexivity.
Qed.

Lemma len_zeros_n n : len (zeros_n n) = n.
Proof. rewrite zeros_n_repeat. unfold len. rewrite repeat_length. lia. Qed.

Lemma l_get_zeros_n n k : l_get (zeros_n n) k = 0.
Proof.
  rewrite zeros_n_repeat. unfold l_get. generalize (N.to_nat k) as j. generalize (N.to_nat n) as m.
  induction m as [|m IH]; intros [|j]; cbn [repeat nth]; try reflexivity. apply IH.
Qed.

Lemma len_l_take d : forall n, len (l_take n d) = N.min n (len d).
Proof.
  induction d as [|x r IH]; intros n; cbn [l_take].
  - rewrite len_nil. lia.
  - destruct (N.eqb_spec n 0) as [E|E].
    + rewrite len_nil. lia.
    + rewrite !len_cons, IH. lia.
Qed.

Lemma l_get_l_take d : forall n k, l_get (l_take n d) k = if k <? n then l_get d k else 0.
Proof.
  induction d as [|x r IH]; intros n k; cbn [l_take].
  - rewrite l_get_nil. now destruct (k <? n).
  - destruct (N.eqb_spec n 0) as [E|E].
    + rewrite l_get_nil. destruct (N.ltb_spec k n); [lia | reflexivity].
    + destruct (N.eqb_spec k 0) as [K|K].
      * subst k. rewrite !l_get_cons_0. destruct (N.ltb_spec 0 n); [reflexivity | lia].
      * rewrite !l_get_cons_S by exact K. rewrite IH.
        destruct (N.ltb_spec (k - 1) (n - 1)), (N.ltb_spec k n); try reflexivity; lia.
Qed.

Lemma len_l_drop d : forall n, len (l_drop n d) = len d - n.
Proof.
  induction d as [|x r IH]; intros n; cbn [l_drop].
  - rewrite len_nil. lia.
  - destruct (N.eqb_spec n 0) as [E|E].
    + rewrite len_cons. lia.
    + rewrite IH, len_cons. lia.
Qed.

Lemma l_get_l_drop d : forall n k, l_get (l_drop n d) k = l_get d (n + k).
Proof.
  induction d as [|x r IH]; intros n k; cbn [l_drop].
  - now rewrite !l_get_nil.
  - destruct (N.eqb_spec n 0) as [E|E].
    + subst n. now rewrite N.add_0_l.
    + rewrite IH. rewrite (l_get_cons_S x r (n + k)) by lia. f_equal. lia.
Qed.

Lemma len_l_write l : forall a d, len (l_write l a d) = len l.
Proof.
  induction l as [|x r IH]; intros a d; cbn [l_write]; [reflexivity|].
  destruct d as [|y d']; [reflexivity|].
  destruct (a =? 0); rewrite !len_cons, IH; reflexivity.
Qed.

Lemma l_get_l_write l : forall a d k,
  a + len d <= len l ->
  l_get (l_write l a d) k = if (a <=? k) && (k <? a + len d) then l_get d (k - a) else l_get l k.
Proof.
  induction l as [|x r IH]; intros a d k H; cbn [l_write].
  - rewrite len_nil in H. rewrite l_get_nil.
    destruct (N.leb_spec a k), (N.ltb_spec k (a + len d)); cbn [andb]; try reflexivity; lia.
  - destruct d as [|y d'].
    + rewrite len_nil. destruct (N.leb_spec a k), (N.ltb_spec k (a + 0)); cbn [andb]; try reflexivity; lia.
    + rewrite !len_cons in H. rewrite len_cons.
      destruct (N.eqb_spec a 0) as [A|A].
      * subst a. destruct (N.eqb_spec k 0) as [K|K].
        -- subst k. rewrite l_get_cons_0. cbn [andb N.leb].
           destruct (N.leb_spec 0 0), (N.ltb_spec 0 (0 + (len d' + 1))); cbn [andb]; try lia.
           reflexivity.
        -- rewrite l_get_cons_S by exact K. rewrite IH by lia.
           rewrite (l_get_cons_S x r k) by exact K.
           destruct (N.leb_spec 0 (k - 1)), (N.ltb_spec (k - 1) (0 + len d')),
                    (N.leb_spec 0 k), (N.ltb_spec k (0 + (len d' + 1))); cbn [andb]; try lia; try reflexivity.
           rewrite (l_get_cons_S y d' (k - 0)) by lia. f_equal. lia.
      * destruct (N.eqb_spec k 0) as [K|K].
        -- subst k. rewrite !l_get_cons_0.
           destruct (N.leb_spec a 0); cbn [andb]; [lia | reflexivity].
        -- rewrite l_get_cons_S by exact K. rewrite IH by (rewrite len_cons; lia).
           rewrite (l_get_cons_S x r k) by exact K. rewrite len_cons.
           destruct (N.leb_spec (a - 1) (k - 1)), (N.ltb_spec (k - 1) (a - 1 + (len d' + 1))),
                    (N.leb_spec a k), (N.ltb_spec k (a + (len d' + 1))); cbn [andb]; try lia; try reflexivity.
           f_equal. lia.
Qed.

Lemma len_l_zero l : forall a b, len (l_zero l a b) = len l.
Proof.
  induction l as [|x r IH]; intros a b; cbn [l_zero]; [reflexivity|].
  destruct (b =? 0); [reflexivity|]. rewrite !len_cons, IH. reflexivity.
Qed.

Lemma l_get_l_zero l : forall a b k,
  l_get (l_zero l a b) k = if (a <=? k) && (k <? b) then 0 else l_get l k.
Proof.
  induction l as [|x r IH]; intros a b k; cbn [l_zero].
  - rewrite l_get_nil. now destruct ((a <=? k) && (k <? b)).
  - destruct (N.eqb_spec b 0) as [B|B].
    + subst b. destruct (N.leb_spec a k), (N.ltb_spec k 0); cbn [andb]; try reflexivity; lia.
    + destruct (N.eqb_spec k 0) as [K|K].
      * subst k. rewrite !l_get_cons_0.
        destruct (N.eqb_spec a 0), (N.leb_spec a 0), (N.ltb_spec 0 b); cbn [andb]; try reflexivity; lia.
      * rewrite l_get_cons_S by exact K. rewrite IH. rewrite (l_get_cons_S x r k) by exact K.
        destruct (N.leb_spec (a - 1) (k - 1)), (N.ltb_spec (k - 1) (b - 1)),
                 (N.leb_spec a k), (N.ltb_spec k b); cbn [andb]; try reflexivity; lia.
Qed.

Lemma map_nrange_reindex {A} (g h : N -> A) n : forall a b,
  (forall k, k < N.of_nat n -> g (a + k) = h (b + k)) ->
  map g (nrange a n) = map h (nrange b n).
Proof.
  induction n as [|n IH]; intros a b H; cbn [nrange map]; [reflexivity|].
  f_equal.
  - specialize (H 0). rewrite !N.add_0_r in H. apply H. lia.
  - apply IH. intros k Hk.
    replace (a + 1 + k) with (a + (1 + k)) by lia. replace (b + 1 + k) with (b + (1 + k)) by lia.
    apply H. lia.
Qed.

Lemma l_slice_spec l : forall a n,
  a + n <= len l -> l_slice l a n = map (l_get l) (nrange a (N.to_nat n)).
Proof.
  induction l as [|x r IH]; intros a n H; cbn [l_slice].
  - rewrite len_nil in H. replace (N.to_nat n) with 0%nat by lia. reflexivity.
  - rewrite len_cons in H. destruct (N.eqb_spec n 0) as [E|E].
    + subst n. reflexivity.
    + destruct (N.eqb_spec a 0) as [A|A].
      * subst a. replace (N.to_nat n) with (S (N.to_nat (n - 1))) by lia.
        cbn [nrange map]. rewrite l_get_cons_0. f_equal. rewrite IH by lia.
        apply map_nrange_reindex. intros k Hk. rewrite l_get_cons_S by lia. f_equal. lia.
      * rewrite IH by lia. apply map_nrange_reindex. intros k Hk.
        rewrite (l_get_cons_S x r (a + k)) by lia. f_equal. lia.
Qed.

Lemma zeros_n_map n (g : N -> N) a :
  (forall k, k < n -> g (a + k) = 0) -> zeros_n n = map g (nrange a (N.to_nat n)).
Proof.
  intros H. rewrite zeros_n_repeat.
  assert (G : forall m a, (forall k, k < N.of_nat m -> g (a + k) = 0) -> repeat 0 m = map g (nrange a m)).
  { induction m as [|m IH]; intros a' H'; cbn [repeat nrange map]; [reflexivity|]. f_equal.
    - specialize (H' 0). rewrite N.add_0_r in H'. symmetry. apply H'. lia.
    - apply IH. intros k Hk. replace (a' + 1 + k) with (a' + (1 + k)) by lia. apply H'. lia. }
  apply G. intros k Hk. apply H. lia.
Qed.

(* ---------- removing a range of keys ---------- *)

Lemma nm_del_range_iter {A} n : forall a (m : nmap A),
  let s := N.iter n (fun im : N * nmap A => (fst im + 1, nm_del (fst im) (snd im))) (a, m) in
  fst s = a + n /\
  forall k, nm_get k (snd s) = if (a <=? k) && (k <? a + n) then None else nm_get k m.
Proof.
  induction n as [|n IH] using N.peano_ind; intros a m.
  - cbv [N.iter]. cbn [fst snd]. split; [lia|]. intros k.
    destruct (N.leb_spec a k), (N.ltb_spec k (a + 0)); cbn [andb]; try reflexivity; lia.
  - cbv zeta. rewrite N.iter_succ. destruct (IH a m) as [F G]. cbv zeta in F, G.
    cbn [fst snd]. split; [lia|]. intros k. rewrite nm_get_del, G, F.
    destruct (N.eqb_spec k (a + n)), (N.leb_spec a k), (N.ltb_spec k (a + n)),
             (N.ltb_spec k (a + N.succ n)); cbn [andb]; try reflexivity; lia.
Qed.

Lemma nm_get_del_range {A} a b (m : nmap A) k :
  nm_get k (nm_del_range a b m) = if (a <=? k) && (k <? b) then None else nm_get k m.
Proof.
  unfold nm_del_range. destruct (nm_del_range_iter (b - a) a m) as [_ G]. cbv zeta in G. rewrite G.
  destruct (N.leb_spec a k), (N.ltb_spec k (a + (b - a))), (N.ltb_spec k b); cbn [andb]; try reflexivity; lia.
Qed.

(* ---------- page coordinates: position q * ps + t is byte t of page q ---------- *)

Lemma mul_step_le ps q q' : q < q' -> q * ps + ps <= q' * ps.
Proof.
  intros H. assert (L : (q + 1) * ps <= q' * ps) by (apply N.mul_le_mono_r; lia). lia.
Qed.

Lemma lex_lt ps q t q' t' :
  t < ps -> t' <= ps -> (q * ps + t < q' * ps + t' <-> q < q' \/ (q = q' /\ t < t')).
Proof.
  intros Ht Ht'. split.
  - intros L. destruct (N.lt_trichotomy q q') as [C|[C|C]].
    + now left.
    + right. subst q'. lia.
    + exfalso. pose proof (mul_step_le ps q' q C). lia.
  - intros [L|[E L]].
    + pose proof (mul_step_le ps q q' L). lia.
    + subst q'. lia.
Qed.

Lemma coord_div ps q t : t < ps -> (q * ps + t) / ps = q.
Proof. intros H. symmetry. apply (N.div_unique _ ps q t); lia. Qed.

Lemma coord_mod ps q t : t < ps -> (q * ps + t) mod ps = t.
Proof. intros H. symmetry. apply (N.mod_unique _ ps q t); lia. Qed.

Lemma coord_of ps i : 0 < ps -> i = (i / ps) * ps + i mod ps /\ i mod ps < ps.
Proof.
  intros H. split; [rewrite N.mul_comm; apply N.div_mod' | apply N.mod_lt; lia].
Qed.

(* byte t of page q; an absent page reads as zeros *)
Definition pg (pages : nmap (list N)) (q t : N) : N :=
  match nm_get q pages with Some p => l_get p t | None => 0 end.

Definition pages_ok (ps : N) (pages : nmap (list N)) : Prop :=
  forall q p, nm_get q pages = Some p -> len p = ps.

Lemma pg_set pages q p q' t :
  pg (nm_set q p pages) q' t = if q' =? q then l_get p t else pg pages q' t.
Proof. unfold pg. rewrite nm_get_set. now destruct (q' =? q). Qed.

Lemma pages_ok_set ps pages q p : pages_ok ps pages -> len p = ps -> pages_ok ps (nm_set q p pages).
Proof.
  intros Hok Hp q' p'. rewrite nm_get_set. destruct (q' =? q).
  - intros E. injection E as <-. exact Hp.
  - apply Hok.
Qed.

Lemma pg_del_range pages a b q t :
  pg (nm_del_range a b pages) q t = if (a <=? q) && (q <? b) then 0 else pg pages q t.
Proof. unfold pg. rewrite nm_get_del_range. now destruct ((a <=? q) && (q <? b)). Qed.

Lemma pages_ok_del_range ps pages a b : pages_ok ps pages -> pages_ok ps (nm_del_range a b pages).
Proof.
  intros Hok q p. rewrite nm_get_del_range. destruct ((a <=? q) && (q <? b)); [discriminate | apply Hok].
Qed.

Lemma pages_ok_empty ps : pages_ok ps nm_empty.
Proof. intros q p. rewrite nm_get_empty. discriminate. Qed.

(* "Allocate buffer if needed": the page now exists, nothing observable changes *)
Lemma alloc_page ps pages pn :
  pages_ok ps pages ->
  exists buffer,
    nm_get pn (match nm_get pn pages with None => nm_set pn (zeros_n ps) pages | Some _ => pages end)
      = Some buffer /\
    len buffer = ps /\
    pages_ok ps (match nm_get pn pages with None => nm_set pn (zeros_n ps) pages | Some _ => pages end) /\
    forall q t, pg (match nm_get pn pages with None => nm_set pn (zeros_n ps) pages | Some _ => pages end) q t
                = pg pages q t.
Proof.
  intros Hok. destruct (nm_get pn pages) as [p|] eqn:E.
  - exists p. split; [exact E|]. split; [now apply (Hok pn)|]. split; [exact Hok|]. reflexivity.
  - exists (zeros_n ps). split; [apply nm_get_set_same|]. split; [apply len_zeros_n|].
    split; [apply pages_ok_set; [exact Hok | apply len_zeros_n]|].
    intros q t. rewrite pg_set. destruct (N.eqb_spec q pn) as [Q|Q]; [|reflexivity].
    subst q. unfold pg. rewrite E. apply l_get_zeros_n.
Qed.

(* ---------- the write loop ---------- *)

Lemma write_loop_spec fuel : forall ps pages pn pc data,
  0 < ps -> pages_ok ps pages -> pc < ps ->
  (len data = 0 \/ pc + len data <= N.of_nat fuel * ps) ->
  pages_ok ps (write_loop fuel ps pages pn pc data (len data)) /\
  forall q t, t < ps ->
    pg (write_loop fuel ps pages pn pc data (len data)) q t =
    if (pn * ps + pc <=? q * ps + t) && (q * ps + t <? pn * ps + pc + len data)
    then l_get data (q * ps + t - (pn * ps + pc)) else pg pages q t.
Proof.
  induction fuel as [|fuel IH]; intros ps pages pn pc data Hps Hok Hpc Hfuel.
  - assert (Z : len data = 0) by lia. cbn [write_loop]. split; [exact Hok|]. intros q t Ht. rewrite Z.
    destruct (N.leb_spec (pn * ps + pc) (q * ps + t)), (N.ltb_spec (q * ps + t) (pn * ps + pc + 0));
      cbn [andb]; try reflexivity; lia.
  - cbn [write_loop]. destruct (N.eqb_spec (len data) 0) as [Z|Z].
    + split; [exact Hok|]. intros q t Ht. rewrite Z.
      destruct (N.leb_spec (pn * ps + pc) (q * ps + t)), (N.ltb_spec (q * ps + t) (pn * ps + pc + 0));
        cbn [andb]; try reflexivity; lia.
    + destruct (alloc_page ps pages pn Hok) as (buffer & Eb & Lb & Ok1 & Pg1).
      set (pages1 := match nm_get pn pages with None => nm_set pn (zeros_n ps) pages | Some _ => pages end) in *.
      assert (Hbuf : forall t0, pg pages pn t0 = l_get buffer t0)
        by (intros t0; rewrite <- Pg1; unfold pg; now rewrite Eb).
      rewrite Eb.
      set (rl := N.min ps (pc + len data) - pc).
      assert (Hrl : rl = N.min (ps - pc) (len data)) by (unfold rl; lia).
      set (buffer' := l_write buffer pc (l_take rl data)).
      assert (Lt : len (l_take rl data) = rl) by (rewrite len_l_take; lia).
      assert (Lb' : len buffer' = ps) by (unfold buffer'; rewrite len_l_write; exact Lb).
      assert (Ok2 : pages_ok ps (nm_set pn buffer' pages1)) by (apply pages_ok_set; assumption).
      rewrite <- (len_l_drop data rl).
      assert (Ld : len (l_drop rl data) = len data - rl) by apply len_l_drop.
      destruct (IH ps (nm_set pn buffer' pages1) (pn + 1) 0 (l_drop rl data) Hps Ok2 Hps) as [Ok3 Pg3].
      { rewrite Ld. destruct Hfuel as [F|F]; [lia|].
        destruct (N.le_gt_cases (len data) (ps - pc)) as [C|C]; [left; lia | right; lia]. }
      split; [exact Ok3|]. intros q t Ht. rewrite Pg3 by exact Ht. rewrite Ld.
      rewrite pg_set, Pg1.
      destruct (N.lt_trichotomy q pn) as [Q|[Q|Q]].
      * pose proof (mul_step_le ps q pn Q) as M.
        destruct (N.eqb_spec q pn); [lia|].
        destruct (N.leb_spec ((pn + 1) * ps + 0) (q * ps + t)),
                 (N.ltb_spec (q * ps + t) ((pn + 1) * ps + 0 + (len data - rl))),
                 (N.leb_spec (pn * ps + pc) (q * ps + t)),
                 (N.ltb_spec (q * ps + t) (pn * ps + pc + len data)); cbn [andb]; try reflexivity; lia.
      * subst q. rewrite N.eqb_refl.
        destruct (N.leb_spec ((pn + 1) * ps + 0) (pn * ps + t)); [lia|]. cbn [andb].
        unfold buffer'. rewrite l_get_l_write by lia. rewrite Lt, l_get_l_take.
        rewrite Hbuf.
        destruct (N.leb_spec pc t), (N.ltb_spec t (pc + rl)),
                 (N.leb_spec (pn * ps + pc) (pn * ps + t)),
                 (N.ltb_spec (pn * ps + t) (pn * ps + pc + len data)); cbn [andb]; try reflexivity; try lia.
        destruct (N.ltb_spec (t - pc) rl); [|lia]. f_equal. lia.
      * pose proof (mul_step_le ps pn q Q) as M.
        destruct (N.eqb_spec q pn); [lia|].
        rewrite l_get_l_drop.
        destruct (N.leb_spec ((pn + 1) * ps + 0) (q * ps + t)),
                 (N.ltb_spec (q * ps + t) ((pn + 1) * ps + 0 + (len data - rl))),
                 (N.leb_spec (pn * ps + pc) (q * ps + t)),
                 (N.ltb_spec (q * ps + t) (pn * ps + pc + len data)); cbn [andb]; try reflexivity; try lia.
        f_equal. lia.
Qed.

(* ---------- the read loop ---------- *)

(* the byte at absolute position i *)
Definition pgabs (ps : N) (pages : nmap (list N)) (i : N) : N := pg pages (i / ps) (i mod ps).

Lemma pgabs_coord ps pages q t : t < ps -> pgabs ps pages (q * ps + t) = pg pages q t.
Proof. intros H. unfold pgabs. now rewrite coord_div, coord_mod. Qed.

Lemma read_loop_spec fuel : forall ps pages pn pc n,
  0 < ps -> pages_ok ps pages -> pc < ps ->
  (n = 0 \/ pc + n <= N.of_nat fuel * ps) ->
  read_loop fuel ps pages pn pc n = map (pgabs ps pages) (nrange (pn * ps + pc) (N.to_nat n)).
Proof.
  induction fuel as [|fuel IH]; intros ps pages pn pc n Hps Hok Hpc Hfuel.
  - assert (Z : n = 0) by lia. subst n. reflexivity.
  - cbn [read_loop]. destruct (N.eqb_spec n 0) as [Z|Z]; [subst n; reflexivity|].
    set (rb := N.min n (ps - pc)).
    replace (N.to_nat n) with (N.to_nat rb + N.to_nat (n - rb))%nat by lia.
    rewrite nrange_app, map_app. f_equal.
    + destruct (nm_get pn pages) as [buf|] eqn:E.
      * rewrite l_slice_spec by (rewrite (Hok pn buf E); lia).
        apply map_nrange_reindex. intros k Hk.
        replace (pn * ps + pc + k) with (pn * ps + (pc + k)) by lia.
        rewrite pgabs_coord by lia. unfold pg. now rewrite E.
      * apply zeros_n_map. intros k Hk.
        replace (pn * ps + pc + k) with (pn * ps + (pc + k)) by lia.
        rewrite pgabs_coord by lia. unfold pg. now rewrite E.
    + rewrite IH; [|exact Hps|exact Hok|exact Hps|].
      * destruct (N.le_gt_cases n (ps - pc)) as [C|C].
        -- replace (N.to_nat (n - rb)) with 0%nat by lia. reflexivity.
        -- f_equal. f_equal. lia.
      * destruct Hfuel as [F|F]; [lia|].
        destruct (N.le_gt_cases n (ps - pc)) as [C|C]; [left; lia | right; lia].
Qed.

Lemma loop_fuel_ok ps pc n : 0 < ps -> pc < ps -> pc + n <= N.of_nat (loop_fuel ps n) * ps.
Proof.
  intros Hps Hpc. unfold loop_fuel.
  replace (N.of_nat (S (S (N.to_nat (n / ps))))) with (n / ps + 2) by lia.
  destruct (coord_of ps n Hps) as [E L]. lia.
Qed.

Lemma page_cursor_mod ps off : 0 < ps -> off - off / ps * ps = off mod ps.
Proof. intros Hps. destruct (coord_of ps off Hps) as [E L]. lia. Qed.

(* ---------- representation invariant and refinement relation ---------- *)

Definition ram_byte (r : ram) (i : N) : N := pgabs (r_page_size r) (r_pages r) i.

(* page size positive; every allocated page has exactly page_size bytes; every byte of an allocated
   page at a position >= length is zero (write and truncate rely on it: they expose such bytes
   without clearing them) *)
Record ram_ok (r : ram) : Prop := mk_ram_ok {
  ok_ps : 0 < r_page_size r;
  ok_pages : pages_ok (r_page_size r) (r_pages r);
  ok_tail : forall i, r_length r <= i -> ram_byte r i = 0
}.

Definition refines (r : ram) (f : file) : Prop :=
  f_len f = r_length r /\ forall i, i < r_length r -> f_byte f i = ram_byte r i.

Lemma ram_new_ok ps : 0 < ps -> ram_ok (ram_new ps).
Proof.
  intros H. split; cbn [ram_new r_page_size r_pages r_length]; [exact H | apply pages_ok_empty|].
  intros i _. unfold ram_byte, pgabs, pg. cbn [ram_new r_pages]. now rewrite nm_get_empty.
Qed.

Lemma ram_new_refines ps : refines (ram_new ps) file_empty.
Proof. split; [reflexivity|]. cbn [ram_new r_length]. intros i Hi. lia. Qed.

(* ---------- read ---------- *)

Lemma ram_read_spec r off n :
  ram_ok r ->
  ram_read r off n =
  if off + n <=? r_length r then Some (map (ram_byte r) (nrange off (N.to_nat n))) else None.
Proof.
  intros [Hps Hok _]. unfold ram_read.
  destruct (N.ltb_spec (r_length r) (off + n)), (N.leb_spec (off + n) (r_length r)); try lia; [reflexivity|].
  f_equal. rewrite page_cursor_mod by exact Hps.
  destruct (coord_of (r_page_size r) off Hps) as [E L].
  rewrite read_loop_spec; [|exact Hps|exact Hok|exact L|right; apply loop_fuel_ok; assumption].
  rewrite <- E. reflexivity.
Qed.

Lemma ram_read_refines r f off n :
  ram_ok r -> refines r f -> ram_read r off n = f_read f off n.
Proof.
  intros Hok [Hl Hb]. rewrite ram_read_spec by exact Hok. unfold f_read. rewrite Hl.
  destruct (N.leb_spec (off + n) (r_length r)) as [C|C]; [|reflexivity].
  f_equal. apply map_nrange_ext. intros k Hk. symmetry. apply Hb. lia.
Qed.

(* ---------- write ---------- *)

Lemma ram_write_spec r off data :
  ram_ok r ->
  r_page_size (ram_write r off data) = r_page_size r /\
  r_length (ram_write r off data) = N.max (r_length r) (off + len data) /\
  pages_ok (r_page_size r) (r_pages (ram_write r off data)) /\
  forall i, ram_byte (ram_write r off data) i =
            if (off <=? i) && (i <? off + len data) then l_get data (i - off) else ram_byte r i.
Proof.
  intros [Hps Hok _]. unfold ram_write. cbn [r_page_size r_length r_pages].
  split; [reflexivity|]. split; [destruct (N.ltb_spec (r_length r) (off + len data)); lia|].
  rewrite page_cursor_mod by exact Hps.
  destruct (coord_of (r_page_size r) off Hps) as [E L].
  destruct (write_loop_spec (loop_fuel (r_page_size r) (len data)) (r_page_size r) (r_pages r)
              (off / r_page_size r) (off mod r_page_size r) data Hps Hok L) as [Ok' Pg'].
  { right. apply loop_fuel_ok; assumption. }
  split; [exact Ok'|]. intros i. unfold ram_byte, pgabs. cbn [r_page_size r_pages].
  destruct (coord_of (r_page_size r) i Hps) as [Ei Li].
  rewrite Pg' by exact Li. rewrite <- E, <- Ei. reflexivity.
Qed.

Lemma ram_write_ok r off data : ram_ok r -> ram_ok (ram_write r off data).
Proof.
  intros Hr. destruct (ram_write_spec r off data Hr) as (Eps & El & Ok' & Hb).
  destruct Hr as [Hps Hok Ht]. split.
  - rewrite Eps. exact Hps.
  - rewrite Eps. exact Ok'.
  - intros i Hi. rewrite El in Hi. rewrite Hb.
    destruct (N.leb_spec off i), (N.ltb_spec i (off + len data)); cbn [andb]; try lia; apply Ht; lia.
Qed.

Lemma ram_write_refines r f off data :
  ram_ok r -> refines r f -> refines (ram_write r off data) (f_write f off data).
Proof.
  intros Hr [Hl Hb]. destruct (ram_write_spec r off data Hr) as (Eps & El & Ok' & Hb').
  destruct Hr as [Hps Hok Ht]. split.
  - rewrite f_write_len, El, Hl. reflexivity.
  - intros i Hi. rewrite El in Hi. rewrite Hb', f_write_byte, Hl. unfold l_get.
    destruct (N.leb_spec off i), (N.ltb_spec i (off + len data)), (N.leb_spec (r_length r) i);
      cbn [andb]; try reflexivity; try lia; first [apply Hb; lia | symmetry; apply Ht; lia].
Qed.

(* ---------- zero ---------- *)

(* the three phases of `zero` *)
Definition zp1 (ps : N) (pages : nmap (list N)) (fpn fps lpn lpe n : N) : nmap (list N) :=
  if (0 <? fps) || ((fpn =? lpn) && (0 <? lpe)) then
    match nm_get fpn pages with
    | Some page => nm_set fpn (l_zero page fps (fps + N.min n (ps - fps))) pages
    | None => pages
    end
  else pages.

Definition zp2 (pages : nmap (list N)) (fpn fps lpn : N) : nmap (list N) :=
  if (fpn + 1 <? lpn) || ((fps =? 0) && (lpn =? fpn + 1)) then
    nm_del_range (if fps =? 0 then fpn else fpn + 1) lpn pages
  else pages.

Definition zp3 (pages : nmap (list N)) (fpn lpn lpe : N) : nmap (list N) :=
  if (fpn <? lpn) && (0 <? lpe) then
    match nm_get lpn pages with
    | Some page => nm_set lpn (l_zero page 0 lpe) pages
    | None => pages
    end
  else pages.

Lemma ram_zero_unfold r o n :
  ram_zero r o n =
  let ps := r_page_size r in
  let fp := page_num_and_index ps o false in
  let lp := page_num_and_index ps (o + n) true in
  mkRam ps (zp3 (zp2 (zp1 ps (r_pages r) (fst fp) (snd fp) (fst lp) (snd lp) n) (fst fp) (snd fp) (fst lp))
                (fst fp) (fst lp) (snd lp)) (r_length r).
Proof. reflexivity. Qed.

Lemma zero_page_at ps pages a x y :
  pages_ok ps pages ->
  pages_ok ps (match nm_get a pages with Some page => nm_set a (l_zero page x y) pages | None => pages end) /\
  forall q t,
    pg (match nm_get a pages with Some page => nm_set a (l_zero page x y) pages | None => pages end) q t =
    if (q =? a) && ((x <=? t) && (t <? y)) then 0 else pg pages q t.
Proof.
  intros Hok. destruct (nm_get a pages) as [page|] eqn:E.
  - split.
    + apply pages_ok_set; [exact Hok|]. rewrite len_l_zero. now apply (Hok a).
    + intros q t. rewrite pg_set. destruct (N.eqb_spec q a) as [Q|Q]; cbn [andb]; [|reflexivity].
      subst q. rewrite l_get_l_zero. unfold pg. rewrite E. reflexivity.
  - split; [exact Hok|]. intros q t.
    destruct (N.eqb_spec q a) as [Q|Q]; cbn [andb]; [|reflexivity].
    subst q. unfold pg. rewrite E. now destruct ((x <=? t) && (t <? y)).
Qed.

Lemma if3_zero (b1 b2 b3 c : bool) (x : N) :
  c = b3 || b2 || b1 ->
  (if b3 then 0 else if b2 then 0 else if b1 then 0 else x) = if c then 0 else x.
Proof. intros ->. destruct b3, b2, b1; reflexivity. Qed.

(* in page coordinates: first byte (fpn, fps), exclusive end (lpn, lpe) *)
Lemma zero_pages_spec ps pages fpn fps lpn lpe n :
  0 < ps -> pages_ok ps pages -> fps < ps -> 0 < lpe -> lpe <= ps -> fpn <= lpn ->
  (lpn = fpn -> fps < lpe /\ n = lpe - fps) -> (fpn < lpn -> ps - fps <= n) ->
  pages_ok ps (zp3 (zp2 (zp1 ps pages fpn fps lpn lpe n) fpn fps lpn) fpn lpn lpe) /\
  forall q t, t < ps ->
    pg (zp3 (zp2 (zp1 ps pages fpn fps lpn lpe n) fpn fps lpn) fpn lpn lpe) q t =
    if ((fpn <? q) || ((q =? fpn) && (fps <=? t))) && ((q <? lpn) || ((q =? lpn) && (t <? lpe)))
    then 0 else pg pages q t.
Proof.
  intros Hps Hok Hfps Hlpe0 Hlpe Hle Hsame Hdiff.
  assert (H1 : pages_ok ps (zp1 ps pages fpn fps lpn lpe n) /\
               forall q t, pg (zp1 ps pages fpn fps lpn lpe n) q t =
                 if ((0 <? fps) || ((fpn =? lpn) && (0 <? lpe))) &&
                    ((q =? fpn) && ((fps <=? t) && (t <? fps + N.min n (ps - fps))))
                 then 0 else pg pages q t).
  { unfold zp1. destruct ((0 <? fps) || ((fpn =? lpn) && (0 <? lpe))); cbn [andb].
    - now apply zero_page_at.
    - split; [exact Hok | reflexivity]. }
  destruct H1 as [Ok1 Pg1]. set (pages1 := zp1 ps pages fpn fps lpn lpe n) in *.
  assert (H2 : pages_ok ps (zp2 pages1 fpn fps lpn) /\
               forall q t, pg (zp2 pages1 fpn fps lpn) q t =
                 if ((fpn + 1 <? lpn) || ((fps =? 0) && (lpn =? fpn + 1))) &&
                    (((if fps =? 0 then fpn else fpn + 1) <=? q) && (q <? lpn))
                 then 0 else pg pages1 q t).
  { unfold zp2. destruct ((fpn + 1 <? lpn) || ((fps =? 0) && (lpn =? fpn + 1))); cbn [andb].
    - split; [now apply pages_ok_del_range | intros q t; apply pg_del_range].
    - split; [exact Ok1 | reflexivity]. }
  destruct H2 as [Ok2 Pg2]. set (pages2 := zp2 pages1 fpn fps lpn) in *.
  assert (H3 : pages_ok ps (zp3 pages2 fpn lpn lpe) /\
               forall q t, pg (zp3 pages2 fpn lpn lpe) q t =
                 if ((fpn <? lpn) && (0 <? lpe)) && ((q =? lpn) && ((0 <=? t) && (t <? lpe)))
                 then 0 else pg pages2 q t).
  { unfold zp3. destruct ((fpn <? lpn) && (0 <? lpe)); cbn [andb].
    - now apply zero_page_at.
    - split; [exact Ok2 | reflexivity]. }
  destruct H3 as [Ok3 Pg3]. split; [exact Ok3|].
  intros q t Ht. rewrite Pg3, Pg2, Pg1. apply if3_zero.
  destruct (N.eqb_spec fps 0) as [F|F]; lia.
Qed.

Lemma pnai_false ps o : page_num_and_index ps o false = (o / ps, o mod ps).
Proof. unfold page_num_and_index. now rewrite andb_false_r. Qed.

(* exclusive end of a non-empty range: the last touched page and the end index inside it *)
Lemma pnai_true ps e :
  0 < ps -> 0 < e ->
  fst (page_num_and_index ps e true) * ps + snd (page_num_and_index ps e true) = e /\
  0 < snd (page_num_and_index ps e true) /\ snd (page_num_and_index ps e true) <= ps.
Proof.
  intros Hps He. unfold page_num_and_index. rewrite andb_true_r.
  destruct (coord_of ps e Hps) as [E L].
  destruct (N.eqb_spec (e mod ps) 0) as [Z|Z]; cbn [fst snd].
  - rewrite Z in E.
    assert (Q : e / ps <> 0) by (intros Q; rewrite Q in E; lia).
    destruct (N.ltb_spec 0 (e / ps)) as [P|P]; [|lia].
    assert (M : (e / ps - 1 + 1) * ps = e / ps * ps) by (f_equal; lia).
    rewrite N.mul_add_distr_r in M. lia.
  - lia.
Qed.

Lemma pnai_true_0 ps : page_num_and_index ps 0 true = (0, ps).
Proof.
  unfold page_num_and_index. rewrite andb_true_r.
  destruct ps as [|p]; reflexivity.
Qed.

Lemma ram_zero_spec r o n :
  0 < r_page_size r -> pages_ok (r_page_size r) (r_pages r) -> 0 < n ->
  r_page_size (ram_zero r o n) = r_page_size r /\
  r_length (ram_zero r o n) = r_length r /\
  pages_ok (r_page_size r) (r_pages (ram_zero r o n)) /\
  forall i, ram_byte (ram_zero r o n) i = if (o <=? i) && (i <? o + n) then 0 else ram_byte r i.
Proof.
  intros Hps Hok Hn. rewrite ram_zero_unfold. cbv zeta. cbn [r_page_size r_length r_pages].
  split; [reflexivity|]. split; [reflexivity|].
  rewrite pnai_false. cbn [fst snd].
  set (ps := r_page_size r) in *.
  destruct (pnai_true ps (o + n) Hps) as (El & Hl0 & Hl); [lia|].
  set (lpn := fst (page_num_and_index ps (o + n) true)) in *.
  set (lpe := snd (page_num_and_index ps (o + n) true)) in *.
  destruct (coord_of ps o Hps) as [Eo Lo].
  set (fpn := o / ps) in *. set (fps := o mod ps) in *.
  assert (X : fpn < lpn \/ (fpn = lpn /\ fps < lpe)) by (apply (lex_lt ps); lia).
  assert (Hdiff : fpn < lpn -> ps - fps <= n).
  { intros Q. pose proof (mul_step_le ps fpn lpn Q). lia. }
  assert (Hsame : lpn = fpn -> fps < lpe /\ n = lpe - fps).
  { intros Q. rewrite Q in El. lia. }
  destruct (zero_pages_spec ps (r_pages r) fpn fps lpn lpe n Hps Hok Lo Hl0 Hl) as [Ok' Pg']; try assumption; [lia|].
  split; [exact Ok'|]. intros i. unfold ram_byte, pgabs. cbn [r_page_size r_pages]. fold ps.
  destruct (coord_of ps i Hps) as [Ei Li].
  set (q := i / ps) in *. set (t := i mod ps) in *.
  rewrite Pg' by exact Li.
  assert (L1 : i < o + n <-> q < lpn \/ (q = lpn /\ t < lpe)).
  { rewrite <- El, Ei. apply lex_lt; assumption. }
  assert (L2 : i < o <-> q < fpn \/ (q = fpn /\ t < fps)).
  { rewrite Eo, Ei. apply lex_lt; [assumption | lia]. }
  assert (C : ((fpn <? q) || ((q =? fpn) && (fps <=? t))) && ((q <? lpn) || ((q =? lpn) && (t <? lpe)))
              = (o <=? i) && (i <? o + n)) by lia.
  rewrite C. reflexivity.
Qed.

(* ---------- truncate ---------- *)

(* the page removal of the growing branch is invisible: under the invariant those pages hold zeros *)
Lemma truncate_grow_byte r n i :
  ram_ok r ->
  pgabs (r_page_size r)
        (nm_del_range (fst (page_num_and_index (r_page_size r) (r_length r) true) + 1)
                      (n / r_page_size r + 1) (r_pages r)) i
  = ram_byte r i.
Proof.
  intros [Hps Hok Ht]. unfold pgabs at 1. rewrite pg_del_range. fold (pgabs (r_page_size r) (r_pages r) i).
  fold (ram_byte r i).
  destruct (N.lt_ge_cases i (r_length r)) as [C|C].
  - destruct (pnai_true (r_page_size r) (r_length r) Hps) as (El & Hl0 & Hl); [lia|].
    set (clp := fst (page_num_and_index (r_page_size r) (r_length r) true)) in *.
    set (cle := snd (page_num_and_index (r_page_size r) (r_length r) true)) in *.
    destruct (coord_of (r_page_size r) i Hps) as [Ei Li].
    assert (X : i / r_page_size r < clp \/ (i / r_page_size r = clp /\ i mod r_page_size r < cle)).
    { apply (lex_lt (r_page_size r)); [exact Li | exact Hl | lia]. }
    destruct (N.leb_spec (clp + 1) (i / r_page_size r)); cbn [andb]; [lia | reflexivity].
  - rewrite (Ht i C). now destruct (_ && _).
Qed.

Lemma ram_truncate_spec r n :
  ram_ok r ->
  ram_ok (ram_truncate r n) /\
  r_page_size (ram_truncate r n) = r_page_size r /\
  r_length (ram_truncate r n) = n /\
  forall i, i < n -> ram_byte (ram_truncate r n) i = if i <? r_length r then ram_byte r i else 0.
Proof.
  intros Hr. assert (Hr' := Hr). destruct Hr' as [Hps Hok Ht]. unfold ram_truncate.
  destruct (N.ltb_spec (r_length r) n) as [G|G].
  - (* grow *)
    cbn [r_pages]. split; [split|]; cbn [r_page_size r_pages r_length].
    + exact Hps.
    + now apply pages_ok_del_range.
    + intros i Hi. unfold ram_byte. cbn [r_page_size r_pages]. rewrite truncate_grow_byte by exact Hr.
      apply Ht. lia.
    + split; [reflexivity|]. split; [reflexivity|]. intros i Hi.
      unfold ram_byte at 1. cbn [r_page_size r_pages]. rewrite truncate_grow_byte by exact Hr.
      destruct (N.ltb_spec i (r_length r)); [reflexivity | now apply Ht].
  - destruct (N.ltb_spec n (r_length r)) as [S|S].
    + (* shrink *)
      destruct (pnai_true (r_page_size r) (r_length r) Hps) as (El & Hl0 & Hl); [lia|].
      set (clp := fst (page_num_and_index (r_page_size r) (r_length r) true)) in *.
      set (cle := snd (page_num_and_index (r_page_size r) (r_length r) true)) in *.
      set (dl := (clp + 1) * r_page_size r - n).
      assert (Hdl : 0 < dl /\ n + dl = clp * r_page_size r + r_page_size r) by (unfold dl; lia).
      destruct (ram_zero_spec r n dl Hps Hok) as (Eps & Elen & Ok' & Hb); [lia|].
      assert (B : forall i, ram_byte (mkRam (r_page_size r) (r_pages (ram_zero r n dl)) n) i =
                            ram_byte (ram_zero r n dl) i).
      { intros i. unfold ram_byte. cbn [r_page_size r_pages]. now rewrite Eps. }
      split; [split|]; cbn [r_page_size r_pages r_length].
      * exact Hps.
      * exact Ok'.
      * intros i Hi. rewrite B, Hb.
        destruct (N.leb_spec n i), (N.ltb_spec i (n + dl)); cbn [andb]; try reflexivity; try lia.
        apply Ht. lia.
      * split; [reflexivity|]. split; [reflexivity|]. intros i Hi. rewrite B, Hb.
        destruct (N.leb_spec n i), (N.ltb_spec i (r_length r)); cbn [andb]; try reflexivity; lia.
    + (* same length *)
      assert (E : n = r_length r) by lia. subst n.
      assert (B : forall i, ram_byte (mkRam (r_page_size r) (r_pages r) (r_length r)) i = ram_byte r i)
        by reflexivity.
      split; [split|]; cbn [r_page_size r_pages r_length]; try assumption.
      split; [reflexivity|]. split; [reflexivity|]. intros i Hi. rewrite B.
      destruct (N.ltb_spec i (r_length r)); [reflexivity | lia].
Qed.

Lemma ram_truncate_ok r n : ram_ok r -> ram_ok (ram_truncate r n).
Proof. intros Hr. now destruct (ram_truncate_spec r n Hr). Qed.

Lemma ram_truncate_refines r f n :
  ram_ok r -> refines r f -> refines (ram_truncate r n) (f_truncate f n).
Proof.
  intros Hr [Hl Hb]. destruct (ram_truncate_spec r n Hr) as (_ & _ & El & Hb'). split.
  - rewrite f_truncate_len, El. reflexivity.
  - rewrite El. intros i Hi. rewrite Hb' by exact Hi. rewrite f_truncate_at by exact Hi. rewrite Hl.
    destruct (N.ltb_spec i (r_length r)); [now apply Hb | reflexivity].
Qed.

(* ---------- del ---------- *)

Lemma ram_del_ok r off n r' : ram_ok r -> ram_del r off n = Some r' -> ram_ok r'.
Proof.
  intros Hr. unfold ram_del.
  destruct (r_length r <? off); [discriminate|].
  destruct (N.eqb_spec n 0) as [Z|Z]; [intros E; injection E as <-; exact Hr|].
  destruct (N.leb_spec (r_length r) (off + n)) as [C|C]; intros E; injection E as <-.
  - now apply ram_truncate_ok.
  - destruct Hr as [Hps Hok Ht].
    destruct (ram_zero_spec r off n Hps Hok) as (Eps & Elen & Ok' & Hb); [lia|]. split.
    + rewrite Eps. exact Hps.
    + rewrite Eps. exact Ok'.
    + intros i Hi. rewrite Elen in Hi. rewrite Hb.
      destruct (N.leb_spec off i), (N.ltb_spec i (off + n)); cbn [andb]; try lia; now apply Ht.
Qed.

Lemma ram_del_refines r f off n :
  ram_ok r -> refines r f ->
  match ram_del r off n, f_del f off n with
  | Some r', Some f' => refines r' f'
  | None, None => True
  | _, _ => False
  end.
Proof.
  intros Hr Hrf. assert (Hrf' := Hrf). destruct Hrf' as [Hl Hb]. unfold ram_del, f_del. rewrite Hl.
  destruct (r_length r <? off); [exact I|].
  destruct (N.eqb_spec n 0) as [Z|Z]; [exact Hrf|].
  destruct (N.leb_spec (r_length r) (off + n)) as [C|C].
  - now apply ram_truncate_refines.
  - destruct Hr as [Hps Hok Ht].
    destruct (ram_zero_spec r off n Hps Hok) as (Eps & Elen & Ok' & Hb'); [lia|]. split.
    + cbn [f_len]. rewrite Elen. reflexivity.
    + rewrite Elen. intros i Hi. rewrite Hb'. unfold f_byte. cbn [f_map]. rewrite m_clear_get.
      replace (N.of_nat (N.to_nat n)) with n by lia.
      destruct ((off <=? i) && (i <? off + n)); [reflexivity|]. now apply Hb.
Qed.

(* ---------- one operation, then histories ---------- *)

Lemma step_refines r f o :
  ram_ok r -> refines r f ->
  snd (ram_step r o) = snd (file_step f o) /\
  ram_ok (fst (ram_step r o)) /\
  refines (fst (ram_step r o)) (fst (file_step f o)).
Proof.
  intros Hr Hrf. destruct o as [off data | off n | off n | n | ]; cbn [ram_step file_step].
  - cbn [fst snd]. split; [reflexivity|]. split; [now apply ram_write_ok | now apply ram_write_refines].
  - cbn [fst snd]. rewrite (ram_read_refines r f off n Hr Hrf). split; [reflexivity|]. now split.
  - pose proof (ram_del_refines r f off n Hr Hrf) as D.
    pose proof (ram_del_ok r off n) as K.
    destruct (ram_del r off n) as [r'|], (f_del f off n) as [f'|]; try contradiction; cbn [fst snd].
    + split; [reflexivity|]. split; [now apply K | exact D].
    + split; [reflexivity|]. now split.
  - cbn [fst snd]. split; [reflexivity|]. split; [now apply ram_truncate_ok | now apply ram_truncate_refines].
  - cbn [fst snd]. unfold ram_len. pose proof Hrf as [Hl _]. rewrite Hl. split; [reflexivity|]. split; [exact Hr|].
    exact Hrf.
Qed.

Theorem ram_steps_refine ops : forall r f,
  ram_ok r -> refines r f ->
  fst (ram_steps r ops) = fst (file_steps f ops) /\
  ram_ok (snd (ram_steps r ops)) /\
  refines (snd (ram_steps r ops)) (snd (file_steps f ops)).
Proof.
  induction ops as [|o ops IH]; intros r f Hr Hrf; cbn [ram_steps file_steps fst snd].
  - split; [reflexivity|]. now split.
  - destruct (step_refines r f o Hr Hrf) as (E & Hr' & Hrf').
    destruct (IH _ _ Hr' Hrf') as (E2 & Hr2 & Hrf2).
    split; [now rewrite E, E2|]. now split.
Qed.

Lemma ram_content_spec r :
  ram_ok r -> ram_content r = map (ram_byte r) (nrange 0 (N.to_nat (r_length r))).
Proof.
  intros Hr. unfold ram_content. rewrite ram_read_spec by exact Hr.
  destruct (N.leb_spec (0 + r_length r) (r_length r)); [reflexivity | lia].
Qed.

Lemma content_refines r f : ram_ok r -> refines r f -> ram_content r = f_content f.
Proof.
  intros Hr [Hl Hb]. rewrite ram_content_spec by exact Hr. unfold f_content. rewrite Hl.
  apply map_nrange_ext. intros k Hk. symmetry. apply Hb. lia.
Qed.

(* C14 for the in-memory backend: for every page size > 0 and every history (no bound on the offsets is
   needed at the level of the model; see PagedMem.v for where the Rust code needs offsets < 2^62), the
   page-map algorithm and the flat byte file give the same observations — read results, OutOfBounds
   errors, lengths — and byte-identical final contents. *)
Theorem ram_refines_file ps ops : 0 < ps -> run_ram ps ops = run_file ops.
Proof.
  intros Hps. unfold run_ram, run_file.
  destruct (ram_steps_refine ops (ram_new ps) file_empty (ram_new_ok ps Hps) (ram_new_refines ps))
    as (E & Hr & Hrf).
  rewrite E, (content_refines _ _ Hr Hrf). reflexivity.
Qed.

(* ---------- the abstraction function ---------- *)

Definition abs (r : ram) : file := mkFile (r_length r) (m_write nm_empty 0 (ram_content r)).

Lemma abs_refines r : ram_ok r -> refines r (abs r).
Proof.
  intros Hr. split; [reflexivity|]. intros i Hi. unfold abs, f_byte. cbn [f_map].
  rewrite m_write_get, ram_content_spec by exact Hr.
  unfold len. rewrite map_length, nrange_length.
  destruct (N.leb_spec 0 i), (N.ltb_spec i (0 + N.of_nat (N.to_nat (r_length r)))); cbn [andb]; try lia.
  rewrite map_nrange_nth by lia. f_equal. lia.
Qed.

Lemma refines_feq r f g : refines r f -> refines r g -> feq f g.
Proof.
  intros [Hl Hb] [Hl' Hb']. split; [congruence|]. intros i Hi. rewrite Hl in Hi.
  rewrite Hb, Hb' by exact Hi. reflexivity.
Qed.

Lemma abs_content r : ram_ok r -> f_content (abs r) = ram_content r.
Proof. intros Hr. symmetry. apply content_refines; [exact Hr | now apply abs_refines]. Qed.

(* commuting squares, up to the observational equality of files *)
Theorem abs_write r off data : ram_ok r -> feq (abs (ram_write r off data)) (f_write (abs r) off data).
Proof.
  intros Hr. apply (refines_feq (ram_write r off data)).
  - apply abs_refines. now apply ram_write_ok.
  - apply ram_write_refines; [exact Hr | now apply abs_refines].
Qed.

Theorem abs_truncate r n : ram_ok r -> feq (abs (ram_truncate r n)) (f_truncate (abs r) n).
Proof.
  intros Hr. apply (refines_feq (ram_truncate r n)).
  - apply abs_refines. now apply ram_truncate_ok.
  - apply ram_truncate_refines; [exact Hr | now apply abs_refines].
Qed.

Theorem abs_read r off n : ram_ok r -> ram_read r off n = f_read (abs r) off n.
Proof. intros Hr. apply ram_read_refines; [exact Hr | now apply abs_refines]. Qed.

Theorem abs_del r off n :
  ram_ok r ->
  match ram_del r off n, f_del (abs r) off n with
  | Some r', Some f' => feq (abs r') f'
  | None, None => True
  | _, _ => False
  end.
Proof.
  intros Hr. pose proof (ram_del_refines r (abs r) off n Hr (abs_refines r Hr)) as D.
  pose proof (ram_del_ok r off n) as K.
  destruct (ram_del r off n) as [r'|], (f_del (abs r) off n) as [f'|]; try exact D.
  apply (refines_feq r'); [apply abs_refines; now apply K | exact D].
Qed.

(* ---------- where the model is faithful to the u64/usize arithmetic ---------- *)

(* all arguments of a call below the bound *)
Definition op_bounded (B : N) (o : op) : Prop :=
  match o with
  | W off data => off + len data < B
  | R off n => off + n < B
  | D off n => off + n < B
  | T n => n < B
  | L => True
  end.

Lemma step_length_bounded B r o :
  r_length r < B -> op_bounded B o -> r_length (fst (ram_step r o)) < B.
Proof.
  intros Hr Ho. destruct o as [off data | off n | off n | n | ]; cbn [ram_step op_bounded fst] in *; try assumption.
  - unfold ram_write. cbn [r_length]. destruct (r_length r <? off + len data); assumption.
  - unfold ram_del. destruct (r_length r <? off); [exact Hr|].
    destruct (n =? 0); [exact Hr|].
    destruct (r_length r <=? off + n); cbn [fst]; [cbn [ram_truncate r_length]; lia|].
    rewrite ram_zero_unfold. cbn [r_length]. exact Hr.
Qed.

Lemma steps_length_bounded B ops : forall r,
  r_length r < B -> Forall (op_bounded B) ops -> r_length (snd (ram_steps r ops)) < B.
Proof.
  induction ops as [|o ops IH]; intros r Hr Hops; cbn [ram_steps snd]; [exact Hr|].
  inversion Hops as [|o' ops' Ho Hops' E]; subst. apply IH; [|exact Hops'].
  now apply step_length_bounded.
Qed.

(* the largest intermediate value of truncate: (current_last_page_num + 1) * page_size *)
Lemma truncate_intermediate_bound ps length :
  0 < ps -> (fst (page_num_and_index ps length true) + 1) * ps <= length + ps.
Proof.
  intros Hps. destruct (N.eq_dec length 0) as [Z|Z].
  - subst length. rewrite pnai_true_0. cbn [fst]. lia.
  - destruct (pnai_true ps length Hps) as (E & L0 & L1); lia.
Qed.

(* ---------- examples (page size 4: the sequences cross page borders) ---------- *)

(* the doc example of lib.rs: "hello" = 104 101 108 108 111, " world" = 32 119 111 114 108 100 *)
Definition ex_hello : list op :=
  [W 0 [104;101;108;108;111]; W 5 [32;119;111;114;108;100]; R 0 11; L; D 5 2; R 5 2; L;
   T 2; L; T 5; L; R 0 5].

Example ex_hello_ram :
  run_ram 4 ex_hello =
  ([ODone; ODone; OBytes [104;101;108;108;111;32;119;111;114;108;100]; OLen 11; ODone; OBytes [0;0];
    OLen 11; ODone; OLen 2; ODone; OLen 5; OBytes [104;101;0;0;0]],
   [104;101;0;0;0]).
Proof. vm_compute. reflexivity. Qed.

Example ex_hello_file : run_file ex_hello = run_ram 4 ex_hello.
Proof. vm_compute. reflexivity. Qed.

(* the default page size of RandomAccessMemory::default(), the one the crate uses *)
Example ex_hello_default_page : run_ram 1048576 ex_hello = run_file ex_hello.
Proof. vm_compute. reflexivity. Qed.

(* writes over three pages, del inside one page / over a page border / over whole pages, del reaching
   the end, del beyond the end (OutOfBounds), read beyond the end (OutOfBounds) *)
Definition ex_cross : list op :=
  [W 2 [1;2;3;4;5;6;7;8;9;10]; R 0 12; D 5 1; R 0 12; D 3 6; R 0 12; W 3 [21;22;23;24;25;26]; D 4 7;
   R 0 12; D 13 1; R 6 7; D 10 5; L; R 0 10; D 10 0; D 10 3; L].

Example ex_cross_ram :
  run_ram 4 ex_cross =
  ([ODone; OBytes [0;0;1;2;3;4;5;6;7;8;9;10]; ODone; OBytes [0;0;1;2;3;0;5;6;7;8;9;10]; ODone;
    OBytes [0;0;1;0;0;0;0;0;0;8;9;10]; ODone; ODone; OBytes [0;0;1;21;0;0;0;0;0;0;0;10];
    OOutOfBounds; OOutOfBounds; ODone; OLen 10; OBytes [0;0;1;21;0;0;0;0;0;0]; ODone; ODone; OLen 10],
   [0;0;1;21;0;0;0;0;0;0]).
Proof. vm_compute. reflexivity. Qed.

Example ex_cross_file : run_file ex_cross = run_ram 4 ex_cross.
Proof. vm_compute. reflexivity. Qed.

(* the suspicious corner: shrink, then grow again by a write far beyond / by truncate / by an empty
   write: the bytes that were cut off never reappear *)
Definition ex_stale : list op :=
  [W 0 [1;2;3;4;5;6;7;8;9;10]; T 3; W 9 [7]; R 0 10; T 1; T 12; R 0 12; W 0 [1;2;3;4;5;6;7;8;9;10];
   D 2 100; W 11 []; R 0 11].

Example ex_stale_ram :
  run_ram 4 ex_stale =
  ([ODone; ODone; ODone; OBytes [1;2;3;0;0;0;0;0;0;7]; ODone; ODone; OBytes [1;0;0;0;0;0;0;0;0;0;0;0];
    ODone; ODone; ODone; OBytes [1;2;0;0;0;0;0;0;0;0;0]],
   [1;2;0;0;0;0;0;0;0;0;0]).
Proof. vm_compute. reflexivity. Qed.

Example ex_stale_file : run_file ex_stale = run_ram 4 ex_stale.
Proof. vm_compute. reflexivity. Qed.

(* the hypotheses of the per-operation lemmas are met by a non-trivial reachable state: three allocated
   pages, a length in the middle of a page *)
Definition ex_state : ram := snd (ram_steps (ram_new 4) [W 2 [1;2;3;4;5;6;7;8;9;10]; D 5 1; T 10]).

Example ex_state_shape :
  r_length ex_state = 10 /\
  map (fun q => nm_get q (r_pages ex_state)) [0;1;2;3] =
  [Some [0;0;1;2]; Some [3;0;5;6]; Some [7;8;0;0]; None].
Proof. vm_compute. split; reflexivity. Qed.

Example ex_state_ok : ram_ok ex_state /\ refines ex_state (abs ex_state).
Proof.
  assert (K : ram_ok ex_state).
  { unfold ex_state.
    apply (ram_steps_refine _ (ram_new 4) file_empty (ram_new_ok 4 eq_refl) (ram_new_refines 4)). }
  split; [exact K | now apply abs_refines].
Qed.

Example ex_bounded : Forall (op_bounded (2 ^ 62)) ex_cross.
Proof. unfold ex_cross. repeat constructor; vm_compute; reflexivity. Qed.

(* The invariant is needed.  The public constructor `RandomAccessMemory::with_buffers(page_size, buffers)`
   starts with length 0 and whatever buffers the caller passes; growing the file then exposes their
   content, where a flat file shows zeros.  (Hypercore only uses `RandomAccessMemory::default()`, i.e.
   `ram_new 1048576`, which satisfies the invariant.) *)
Definition ex_with_buffers : ram := mkRam 4 (nm_set 0 [9;9;9;9] nm_empty) 0.

Example with_buffers_exposes_content :
  fst (ram_steps ex_with_buffers [T 4; R 0 4]) = [ODone; OBytes [9;9;9;9]] /\
  fst (file_steps file_empty [T 4; R 0 4]) = [ODone; OBytes [0;0;0;0]] /\
  refines ex_with_buffers file_empty.
Proof.
  split; [vm_compute; reflexivity|]. split; [vm_compute; reflexivity|].
  split; [reflexivity|]. intros i Hi. cbn [ex_with_buffers r_length] in Hi. lia.
Qed.

Print Assumptions ram_refines_file.
Print Assumptions ram_steps_refine.
Print Assumptions step_refines.
Print Assumptions ram_read_refines.
Print Assumptions ram_read_spec.
Print Assumptions ram_write_refines.
Print Assumptions ram_write_ok.
Print Assumptions ram_write_spec.
Print Assumptions ram_zero_spec.
Print Assumptions ram_truncate_refines.
Print Assumptions ram_truncate_ok.
Print Assumptions ram_truncate_spec.
Print Assumptions ram_del_refines.
Print Assumptions ram_del_ok.
Print Assumptions content_refines.
Print Assumptions abs_refines.
Print Assumptions abs_write.
Print Assumptions abs_truncate.
Print Assumptions abs_read.
Print Assumptions abs_del.
Print Assumptions steps_length_bounded.
Print Assumptions truncate_intermediate_bound.
Print Assumptions ex_state_ok.
Print Assumptions with_buffers_exposes_content.

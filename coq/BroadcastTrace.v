(* BroadcastTrace.v — fact (a)/(b) of BroadcastFacts.v restated on OBSERVABLE TRACES of the model of the crate
   (Broadcast.v), with no reference to the abstract reading or its ghost fields:

   `fanout_trace`: run any operation list ops1 on a fresh channel, subscribe (BNew answers the identifier k), run
   any operation list ops2 (any sends, other subscribers coming and going, try_recv calls of anybody in any order).
   Read off the trace of ops2 (operations paired with their answers):
     * tr_sent: the messages of the sends that were answered Ok (in order),
     * tr_log k: the answers Msg / Overflowed that subscriber k's try_recv calls got (in order).
   Then tr_log k, with each Overflowed n standing for n positions, lines up position by position with a prefix of
   tr_sent: every delivered message is the message sent at that position (order kept, nothing duplicated, nothing
   invented), exactly n consecutive messages are missing where Overflowed n was answered, and if Overflowed was never
   answered the delivered messages ARE that prefix (the rest is still pending). *)
From HC Require Import Base Broadcast BroadcastLib BroadcastRefine BroadcastFacts.
From Coq Require Import ZifyN ZifyNat ZifyBool.
Ltac Zify.zify_post_hook ::= Z.div_mod_to_equations.
Arguments N.add : simpl never.
Arguments N.sub : simpl never.
Arguments N.mul : simpl never.
Arguments N.div : simpl never.
Arguments N.modulo : simpl never.
Arguments N.pow : simpl never.
Arguments N.eqb : simpl never.
Arguments N.ltb : simpl never.
Arguments N.leb : simpl never.
Arguments N.max : simpl never.
Arguments N.min : simpl never.
Arguments N.of_nat : simpl never.
Arguments N.to_nat : simpl never.
Arguments N.iter : simpl never.

Section Trace.
  Variable A : Type.

  (* the message of a send that was accepted *)
  Definition ev_sent (e : bop A * bobs A) : list A :=
    match e with (BSend m, BoSent _) => [m] | _ => [] end.
  Definition tr_sent (tr : list (bop A * bobs A)) : list A := flat_map ev_sent tr.

  (* an answer Msg / Overflowed to a try_recv of subscriber k *)
  Definition ev_log (k : N) (e : bop A * bobs A) : list (bobs A) :=
    match e with
    | (BRecv k', BoMsg a) => if k' =? k then [BoMsg a] else []
    | (BRecv k', BoOverflowed n) => if k' =? k then [BoOverflowed n] else []
    | _ => []
    end.
  Definition tr_log (k : N) (tr : list (bop A * bobs A)) : list (bobs A) := flat_map (ev_log k) tr.

  (* one step of the abstract reading: what it appends to the sent list and to the log of an existing subscriber *)
  Lemma step_trace (s : spec A) o :
    sp_sent (fst (spec_step s o)) = sp_sent s ++ ev_sent (o, snd (spec_step s o)) /\
    forall k r, nth_error (sp_rcv s) (N.to_nat k) = Some r ->
      exists r', nth_error (sp_rcv (fst (spec_step s o))) (N.to_nat k) = Some r' /\ sr_sub r' = sr_sub r /\
                 rev (sr_log r') = rev (sr_log r) ++ ev_log k (o, snd (spec_step s o)).
  Proof.
    assert (SAME : forall k r, nth_error (sp_rcv s) (N.to_nat k) = Some r ->
              exists r', nth_error (sp_rcv s) (N.to_nat k) = Some r' /\ sr_sub r' = sr_sub r /\
                         rev (sr_log r') = rev (sr_log r) ++ []).
    { intros k r H. exists r. rewrite app_nil_r. repeat split. exact H. }
    destruct o as [m| |k0|k0|]; cbn [spec_step].
    - destruct (nlive (sp_cur s) =? 0); cbn [fst snd ev_sent ev_log sp_sent sp_rcv].
      + split; [now rewrite app_nil_r|exact SAME].
      + split; [reflexivity|exact SAME].
    - cbn [fst snd ev_sent ev_log sp_sent sp_rcv]. split; [now rewrite app_nil_r|].
      intros k r H. exists r. rewrite app_nil_r. repeat split.
      rewrite nth_error_app1 by (eapply nth_error_lt; exact H). exact H.
    - destruct (nth_error (sp_rcv s) (N.to_nat k0)) as [r0|] eqn:EK;
        [|cbn [fst snd ev_sent ev_log]; split; [now rewrite app_nil_r|exact SAME]].
      destruct (sr_live r0); [|cbn [fst snd ev_sent ev_log]; split; [now rewrite app_nil_r|exact SAME]].
      destruct (sr_pos r0 + sp_cap s <? sp_tail s).
      + cbn [fst snd ev_sent ev_log sp_sent sp_rcv]. split; [now rewrite app_nil_r|].
        intros k r H. destruct (N.eq_dec k0 k) as [->|NE].
        * rewrite N.eqb_refl. rewrite l_set_nth_eq by (eapply nth_error_lt; exact H).
          eexists. split; [reflexivity|]. cbn [sr_sub sr_log rev]. rewrite H in EK. injection EK as ->. split; reflexivity.
        * destruct (k0 =? k) eqn:E; [lia|]. rewrite l_set_nth_ne by lia. exists r. rewrite app_nil_r. repeat split. exact H.
      + destruct (nth_error (sp_sent s) (N.to_nat (sr_pos r0))) as [a|];
          [|cbn [fst snd ev_sent ev_log]; split; [now rewrite app_nil_r|exact SAME]].
        cbn [fst snd ev_sent ev_log sp_sent sp_rcv]. split; [now rewrite app_nil_r|].
        intros k r H. destruct (N.eq_dec k0 k) as [->|NE].
        * rewrite N.eqb_refl. rewrite l_set_nth_eq by (eapply nth_error_lt; exact H).
          eexists. split; [reflexivity|]. cbn [sr_sub sr_log rev]. rewrite H in EK. injection EK as ->. split; reflexivity.
        * destruct (k0 =? k) eqn:E; [lia|]. rewrite l_set_nth_ne by lia. exists r. rewrite app_nil_r. repeat split. exact H.
    - destruct (nth_error (sp_rcv s) (N.to_nat k0)) as [r0|] eqn:EK;
        [|cbn [fst snd ev_sent ev_log]; split; [now rewrite app_nil_r|exact SAME]].
      destruct (sr_live r0); [|cbn [fst snd ev_sent ev_log]; split; [now rewrite app_nil_r|exact SAME]].
      cbn [fst snd ev_sent ev_log sp_sent sp_rcv]. split; [now rewrite app_nil_r|].
      intros k r H. destruct (N.eq_dec k0 k) as [->|NE].
      * rewrite l_set_nth_eq by (eapply nth_error_lt; exact H).
        eexists. split; [reflexivity|]. cbn [sr_sub sr_log]. rewrite H in EK. injection EK as ->.
        rewrite app_nil_r. split; reflexivity.
      * rewrite l_set_nth_ne by lia. exists r. rewrite app_nil_r. repeat split. exact H.
    - cbn [fst snd ev_sent ev_log]. split; [now rewrite app_nil_r|exact SAME].
  Qed.

  Lemma steps_trace ops : forall (s : spec A),
    sp_sent (snd (spec_steps s ops)) = sp_sent s ++ tr_sent (combine ops (fst (spec_steps s ops))) /\
    forall k r, nth_error (sp_rcv s) (N.to_nat k) = Some r ->
      exists r', nth_error (sp_rcv (snd (spec_steps s ops))) (N.to_nat k) = Some r' /\ sr_sub r' = sr_sub r /\
                 rev (sr_log r') = rev (sr_log r) ++ tr_log k (combine ops (fst (spec_steps s ops))).
  Proof.
    induction ops as [|o rest IH]; intros s; cbn [spec_steps fst snd combine tr_sent tr_log flat_map].
    - split; [now rewrite app_nil_r|]. intros k r H. exists r. rewrite app_nil_r. repeat split. exact H.
    - destruct (step_trace s o) as (S1 & S2). destruct (IH (fst (spec_step s o))) as (I1 & I2).
      fold (tr_sent (combine rest (fst (spec_steps (fst (spec_step s o)) rest)))).
      split; [rewrite I1, S1, app_assoc; reflexivity|].
      intros k r H. destruct (S2 k r H) as (r1 & H1 & SB1 & L1). destruct (I2 k r1 H1) as (r2 & H2 & SB2 & L2).
      exists r2. split; [exact H2|]. split; [congruence|].
      fold (tr_log k (combine rest (fst (spec_steps (fst (spec_step s o)) rest)))).
      rewrite L2, L1, app_assoc. reflexivity.
  Qed.

  (* the history "ops1, subscribe, ops2" and its answers, cut at the subscription *)
  Lemma run_bc_split cap (ops1 ops2 : list (bop A)) :
    let c1 := snd (bsys_steps (bsys_new cap) ops1) in
    run_bc cap (ops1 ++ BNew :: ops2) =
      fst (bsys_steps (bsys_new cap) ops1) ++
      snd (bsys_step c1 BNew) :: fst (bsys_steps (fst (bsys_step c1 BNew)) ops2).
  Proof. intros c1. unfold run_bc. rewrite bsys_steps_app. reflexivity. Qed.

  Theorem fanout_trace cap (ops1 ops2 : list (bop A)) :
    0 < cap ->
    let c1 := snd (bsys_steps (bsys_new cap) ops1) in
    let k := N.of_nat (length (bs_rcv c1)) in
    let tr2 := combine ops2 (fst (bsys_steps (fst (bsys_step c1 BNew)) ops2)) in
    snd (bsys_step c1 BNew) = BoNew k /\
    exists got rest,
      tr_sent tr2 = got ++ rest /\
      Forall2 fits (shape (tr_log k tr2)) got /\
      (no_overflow (tr_log k tr2) -> msgs_of (tr_log k tr2) = got).
  Proof.
    intros Hc c1 k tr2. split; [reflexivity|].
    destruct (steps_refine A ops1 _ _ (sim_new A cap Hc)) as (_ & S1). fold c1 in S1.
    set (s1 := snd (spec_steps (spec_new cap) ops1)) in *.
    destruct (step_refines A c1 s1 BNew S1) as (_ & S1').
    destruct (steps_refine A ops2 _ _ S1') as (E2 & _).
    unfold tr2. rewrite E2. clear E2 tr2.
    assert (G1 : ginv (fst (spec_step s1 BNew))) by (apply ginv_step; apply reach_ginv).
    set (s1' := fst (spec_step s1 BNew)) in *.
    assert (KL : N.to_nat k = length (sp_rcv s1)).
    { unfold k. destruct S1 as (R & _). rewrite R. unfold sp_cur. rewrite map_length. lia. }
    assert (EK : nth_error (sp_rcv s1') (N.to_nat k) = Some (mkSrcv true (sp_tail s1) (sp_tail s1) [])).
    { unfold s1'. cbn [spec_step fst sp_rcv]. rewrite KL. rewrite nth_error_app2 by lia.
      replace (length (sp_rcv s1) - length (sp_rcv s1))%nat with O by lia. reflexivity. }
    destruct (steps_trace ops2 s1') as (T1 & T2).
    destruct (T2 k _ EK) as (r' & EK' & SB & LG). cbn [sr_sub sr_log rev app] in SB, LG.
    set (s2 := snd (spec_steps s1' ops2)) in *.
    assert (G2 : ginv s2) by (apply ginv_steps; exact G1).
    destruct (fanout_positions A s2 (N.to_nat k) r' G2 EK') as (got & F & E).
    exists got, (pending s2 r'). rewrite LG in F.
    assert (SS : sent_since s2 r' = tr_sent (combine ops2 (fst (spec_steps s1' ops2)))).
    { unfold sent_since. rewrite SB, T1. unfold s1'. cbn [spec_step fst sp_sent]. unfold sp_tail.
      rewrite skipn_app. replace (N.to_nat (N.of_nat (length (sp_sent s1)))) with (length (sp_sent s1)) by lia.
      rewrite skipn_all. replace (length (sp_sent s1) - length (sp_sent s1))%nat with O by lia. reflexivity. }
    split; [rewrite <- SS; symmetry; exact E|]. split; [exact F|].
    intros NO. rewrite (shape_no_overflow A _ NO) in F. apply fits_exact in F. exact F.
  Qed.
End Trace.

Arguments tr_sent {A}.
Arguments tr_log {A}.

Print Assumptions run_bc_split.
Print Assumptions fanout_trace.

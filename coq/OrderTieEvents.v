(* OrderTieEvents.v — in append_batch and verify_and_apply_proof the events are sent AFTER the checkpoint, as the last step of the
   call, so a call that fails at a storage operation has sent nothing (pinned in props/C13.v). The order of the storage steps among
   themselves is not part of this obligation (OrderTieStorage.v). *)
From Coq Require Import List String NArith.
From HC Require Import SrcOrder OrderTie.
Import ListNotations.
Local Open Scope string_scope.

Definition tied_events (src : option (list string)) : Prop :=
  match src with Some l => events_last_after_checkpoint l = true | None => True end.

Theorem source_sends_events_last :
  tied_events src_order_append_batch /\ tied_events src_order_verify_and_apply_proof.
Proof. split; tie. Qed.

(* the model's own orders meet it; an order with the events before the checkpoint, or with a step after them, does not *)
Example model_sends_events_last :
  events_last_after_checkpoint model_order_append = true /\ events_last_after_checkpoint model_order_apply = true /\
  events_last_after_checkpoint ["data"; "entry"; "bitfield"; "commit"; "events"; "checkpoint"] = false /\
  events_last_after_checkpoint ["data"; "entry"; "events"; "bitfield"; "commit"; "checkpoint"; "events"] = false /\
  events_last_after_checkpoint ["data"; "entry"; "bitfield"; "commit"; "checkpoint"] = false.
Proof. repeat split. Qed.

Print Assumptions source_sends_events_last.

(* ClearBeyond.v — C01: clear(start, end_) with start >= length, and with end_ <= start, inside the unified
   invariant FInv of Unified1-3.v and inside the histories.

   What core_clear does on an FInv state when length <= start < end_ <= u64_max (src/core.rs `clear`):
   the drop entry is logged (one oplog write), the bitfield range [start, end_) is set to false in memory (no bit
   changes: nothing is held at or beyond the length), the contiguous-length hint is untouched, and then the hole
   [s', length) is computed, s' = 1 + the last held index (0 when nothing is held):
   - when the LAST block is held, or the core is empty (s' = length): `byte_offset(length)` refuses the index and
     the call returns Err BadArgument AFTER the entry write; no flush decision is taken, no data operation;
   - when the last block is NOT held (s' < length): the call returns Ok tt; the hole [s', length) holds only
     cleared blocks; its bytes are deleted again when the data store still reaches beyond its start (an FInv state
     does not exclude that), then the usual flush decision is taken.
   In BOTH cases the state reached satisfies FInv LITERALLY for the same blocks and the same cleared set (the
   pending entry is a Unified1.cdesc entry: a drop; its replay sets no bit and leaves the hint alone), every
   observation is unchanged, and a reopen replays the entry and re-establishes FInv again.

   Histories: Unified3.uop with UClear unrestricted (any start; end_ a u64 when the range is non-empty) observe
   exactly the list model [aspec], which answers an out-of-range clear with [beyond_result] and changes nothing. *)
From HC Require Import Base NMap Codec CodecFacts Crypto FlatTree Storage Bitfield Oplog Merkle Core.
From HC Require Import FlatTreeFacts StorageFacts BitfieldFacts OplogFacts TreeRef OffsetFacts CoreFacts Crash Refine.
From HC Require Import ClearRefine Reopen ContigBridge Unified1 Unified2 Unified3.
From Coq Require Import FMapPositive ZifyN ZifyNat ZifyBool.
Ltac Zify.zify_post_hook ::= Z.div_mod_to_equations.
Arguments N.add : simpl never.
Arguments N.sub : simpl never.
Arguments N.mul : simpl never.
Arguments N.div : simpl never.
Arguments N.modulo : simpl never.
Arguments N.pow : simpl never.
Arguments N.eqb : simpl never.
Arguments N.ltb : simpl never.
Arguments N.leb : simpl never.
Arguments N.max : simpl never.
Arguments N.min : simpl never.
Arguments N.of_nat : simpl never.
Arguments N.to_nat : simpl never.

(* ====================================================================================== *)
(* A. The hole of a clear that starts at or beyond the length                              *)
(* ====================================================================================== *)

(* what the crate answers to clear(start, end_) with length <= start < end_: BadArgument exactly when the core
   is empty or its last block is held *)
Definition beyond_result (bs : list bytes) (cl : N -> bool) : res unit :=
  let n := N.of_nat (length bs) in
  if (n =? 0) || held n cl (n - 1) then Err BadArgument else Ok tt.

Lemma beyond_result_err bs cl :
  let n := N.of_nat (length bs) in
  n = 0 \/ held n cl (n - 1) = true -> beyond_result bs cl = Err BadArgument.
Proof.
  cbv zeta. unfold beyond_result. intros [E|E].
  - rewrite E. reflexivity.
  - rewrite E, orb_true_r. reflexivity.
Qed.

Lemma beyond_result_ok bs cl :
  let n := N.of_nat (length bs) in
  0 < n -> held n cl (n - 1) = false -> beyond_result bs cl = Ok tt.
Proof.
  cbv zeta. unfold beyond_result. intros P E. rewrite E.
  destruct (N.eqb_spec (N.of_nat (length bs)) 0) as [Z|_]; [lia|reflexivity].
Qed.

(* the bounds of the hole: its end is the length, its start is just behind the last held block *)
Lemma beyond_bounds (b' : bitfield) (n start end_ : N) (cl : N -> bool) :
  (forall i, bf_get b' i = held n cl i) -> n <= start -> start < end_ ->
  let s' := match bf_last_index_of_true b' start with Some i => i + 1 | None => 0 end in
  let e' := match bf_index_of_true b' end_ with Some i => i | None => n end in
  e' = n /\ s' <= n /\
  (forall i, s' <= i -> i < n -> held n cl i = false) /\
  (s' = 0 \/ (0 < s' /\ held n cl (s' - 1) = true)).
Proof.
  intros Hb Hns Hse. cbv zeta.
  assert (Hn : forall i, held n cl i = true -> i < n).
  { intros i Hi. unfold held in Hi. apply andb_true_iff in Hi as [Hi _]. apply N.ltb_lt, Hi. }
  pose proof (bf_last_index_of_true_sound b' start) as HS.
  pose proof (bf_index_of_true_sound b' end_) as HE.
  split.
  { destruct (bf_index_of_true b' end_) as [m|]; [|reflexivity].
    destruct HE as (E1 & E2 & _). rewrite Hb in E1. pose proof (Hn m E1). lia. }
  destruct (bf_last_index_of_true b' start) as [k|].
  - destruct HS as (S1 & S2 & S3). rewrite Hb in S1. pose proof (Hn k S1) as Hk.
    split; [lia|]. split.
    + intros i A B. destruct (held n cl i) eqn:Hi; [exfalso|reflexivity].
      assert (C : i <= start) by lia. specialize (S3 i C). rewrite Hb in S3. specialize (S3 Hi). lia.
    + right. split; [lia|]. replace (k + 1 - 1) with k by lia. exact S1.
  - split; [lia|]. split.
    + intros i A B. rewrite <- Hb. apply HS. lia.
    + left. reflexivity.
Qed.

(* the hole is empty (it starts at the length) exactly when the core is empty or its last block is held *)
Lemma beyond_hole_empty (n s' : N) (cl : N -> bool) :
  s' <= n ->
  (forall i, s' <= i -> i < n -> held n cl i = false) ->
  (s' = 0 \/ (0 < s' /\ held n cl (s' - 1) = true)) ->
  (s' = n -> n = 0 \/ held n cl (n - 1) = true) /\
  (s' < n -> 0 < n /\ held n cl (n - 1) = false).
Proof.
  intros Hle Hhole Hlast. split.
  - intros ->. destruct Hlast as [Z|[_ H]]; [left; exact Z|right; exact H].
  - intros Hlt. split; [lia|]. apply Hhole; lia.
Qed.

(* byte_offset refuses the length itself (validate_hypercore_index: 2 * length <= 2 * index) *)
Lemma byte_offset_at_length (cr : crypto) t tf bs :
  TInv cr t tf bs -> byte_offset t tf (N.of_nat (length bs)) = Err BadArgument.
Proof.
  intros (HL & _ & _ & _ & _ & _ & _ & Hn).
  unfold byte_offset, validate_hypercore_index, mul64. unfold NODE_SIZE, u64_max in Hn.
  assert (fits_u64 (2 * N.of_nat (length bs)) = true) as -> by (unfold fits_u64, u64_max; lia).
  cbn [bind]. rewrite HL.
  destruct (N.leb_spec (2 * N.of_nat (length bs)) (2 * N.of_nat (length bs))) as [_|L]; [reflexivity|lia].
Qed.

(* ====================================================================================== *)
(* B. core_clear with length <= start < end_                                               *)
(* ====================================================================================== *)

Section ClearBeyond.
  Variable cr : crypto.
  Hypothesis Hcrc : crc_ok cr.
  Hypothesis Hhash32 : forall x, length (cr_hash cr x) = 32%nat.
  Hypothesis Hnonblank : forall x, all_zero (cr_hash cr x) = false.
  Hypothesis Hhashbytes : forall x, bytes_ok (cr_hash cr x) = true.

  (* The run, step by step.  c2 / d1 / jw: memory, disk and journal after the entry write and the in-memory
     bitfield update.  That state satisfies FInv for the same blocks and cleared set.  Then either the call stops
     there with BadArgument, or (last block not held) it deletes the hole [s', length) when the data store reaches
     beyond its start, and takes the flush decision. *)
  Lemma clear_beyond_run f c d j ev bs cl start end_ c' w' r :
    let n := N.of_nat (length bs) in
    FInv cr c d bs cl -> n <= start -> start < end_ -> end_ <= u64_max ->
    core_clear cr f start end_ c (mkWorld d j ev) = (c', w', r) ->
    exists o' fr,
      let off := ENTRIES_OFFSET + ol_entries_bytes (c_oplog c) in
      oplog_append cr (c_oplog c) (mkEntry [] None (Some (mkBfUpdate true start (end_ - start))))
        = Ok (o', [SW Oplog off fr]) /\
      let c2 := mkCore (c_keypair c) o' (c_tree c) (bf_set_range (c_bitfield c) start (end_ - start) false)
                       (c_header c) (c_skip c) in
      let d1 := d_set d Oplog (f_write (d_oplog d) off fr) in
      let jw := SW Oplog off fr :: j in
      FInv cr c2 d1 bs cl /\
      (((n = 0 \/ held n cl (n - 1) = true) /\ c' = c2 /\ w' = mkWorld d1 jw ev /\ r = Err BadArgument)
       \/
       (0 < n /\ held n cl (n - 1) = false /\
        exists s', s' < n /\ (forall i, s' <= i -> i < n -> held n cl i = false) /\
                   (s' = 0 \/ (0 < s' /\ held n cl (s' - 1) = true)) /\
          let doff := prefix_size bs s' in
          let dlen := sumN (map len bs) - doff in
          (((0 <? dlen) && (doff <? f_len (d_data d)) = true /\
            exists fd, f_del (d_data d) doff dlen = Some fd /\
                       FInv cr c2 (d_set d1 Data fd) bs cl /\
                       maybe_flush cr f c2 (mkWorld (d_set d1 Data fd) (SD Data doff dlen :: jw) ev) = (c', w', r))
           \/
           ((0 <? dlen) && (doff <? f_len (d_data d)) = false /\
            maybe_flush cr f c2 (mkWorld d1 jw ev) = (c', w', r))))).
  Proof.
    intros n D Hns Hse Hend H.
    pose proof (FInv_CInv cr c d bs cl D) as W.
    assert (Hhc : hdr_desc' (c_keypair c) (c_header c) n).
    { destruct D as (_ & s0 & s1 & body & st0 & st1 & hf & l & kf & _ & _ & _ & _ & _ & Hhc & _). exact Hhc. }
    pose proof W as (T & Hbf & Hcg & Hd & Hl).
    pose proof T as (HL & HB & HF & HR & Hlook & Hun & Hs & Hn).
    fold n in HL.
    destruct (clear_entry_logged cr (c_oplog c) start (end_ - start)) as (o' & fr & OA).
    exists o', fr. cbv zeta. split; [exact OA|].
    unfold core_clear in H.
    destruct (N.leb_spec end_ start) as [L|_]; [lia|].
    rewrite mbind_get_core in H. cbv zeta in H. rewrite mbind_lift in H. rewrite OA in H.
    cbv iota in H.
    rewrite mbind_put_oplog, mbind_emit_SW, mbind_put_bitfield, mbind_cond_header in H.
    cbn [c_keypair c_oplog c_tree c_bitfield c_header c_skip w_disk w_journal w_events d_get] in H.
    rewrite mbind_get_disk in H. cbn [w_disk] in H.
    set (u := mkBfUpdate true start (end_ - start)) in *.
    set (e := mkEntry [] None (Some u)) in *.
    set (b' := bf_set_range (c_bitfield c) start (end_ - start) false) in *.
    set (off := ENTRIES_OFFSET + ol_entries_bytes (c_oplog c)) in *.
    set (d1 := d_set d Oplog (f_write (d_oplog d) off fr)) in *.
    assert (Dt : d_tree d1 = d_tree d) by (destruct d; reflexivity).
    assert (Dd : d_data d1 = d_data d) by (destruct d; reflexivity).
    assert (Db : d_bitfield d1 = d_bitfield d) by (destruct d; reflexivity).
    assert (Do : d_oplog d1 = f_write (d_oplog d) off fr) by (destruct d; reflexivity).
    (* no bit changes *)
    assert (Hb' : forall i, bf_get b' i = held n cl i).
    { intros i. unfold b'. rewrite bf_get_set_range, Hbf.
      destruct ((start <=? i) && (i <? start + (end_ - start))) eqn:E; [|reflexivity].
      unfold held. fold n. assert (i <? n = false) as -> by lia. reflexivity. }
    (* the hint is at most the length, hence not beyond start *)
    assert (Hcn : hd_contig (c_header c) <= n).
    { apply (fexact_le (bf_get (c_bitfield c))); [|apply exact_contig_fexact, Hcg].
      intros i Hi. rewrite Hbf in Hi. apply (held_lt _ _ _ Hi). }
    assert ((start <? hd_contig (c_header c)) = false) as Hnc by lia.
    rewrite Hnc in H.
    set (c2 := mkCore (c_keypair c) o' (c_tree c) b' (c_header c) (c_skip c)) in *.
    (* the state after the entry write satisfies the invariant for the same cleared set *)
    assert (W2 : CInv cr c2 d1 bs cl).
    { unfold CInv. cbv zeta. cbn [c2 c_tree c_bitfield c_header]. rewrite Dt, Dd. fold n.
      split; [exact T|]. split; [exact Hb'|]. split.
      - apply (exact_contig_ext (c_bitfield c)); [intros i; rewrite Hb', Hbf; reflexivity|exact Hcg].
      - split; [exact Hd|exact Hl]. }
    assert (Hcd : cdesc e).
    { exists start, (end_ - start). split; [reflexivity|]. split; [lia|]. split; lia. }
    assert (F2 : FInv cr c2 d1 (bs ++ []) cl).
    { apply (log_entry_FInv cr Hcrc Hhash32 Hnonblank Hhashbytes c d bs cl [] e u o' fr c2 d1 cl D);
        try reflexivity; try assumption.
      - apply cdesc_entry_ok, Hcd.
      - rewrite app_nil_r. exact W2.
      - intros kf0 l0 Hch0. rewrite app_nil_r. apply gchain_snoc_clear; assumption.
      - rewrite app_nil_r. exact Hhc. }
    rewrite app_nil_r in F2.
    split; [exact F2|].
    (* the hole *)
    rewrite HL in H.
    pose proof (beyond_bounds b' n start end_ cl Hb' Hns Hse) as HB'. cbv zeta in HB'.
    set (s' := match bf_last_index_of_true b' start with Some i => i + 1 | None => 0 end) in *.
    set (e' := match bf_index_of_true b' end_ with Some i => i | None => n end) in *.
    destruct HB' as (B1 & B2 & B3 & B4).
    destruct (beyond_hole_empty n s' cl B2 B3 B4) as [Q1 Q2].
    rewrite Dt in H. rewrite mbind_lift in H.
    destruct (N.eq_dec s' n) as [Es|Ns].
    - (* the last block is held (or there is none): byte_offset(length) is refused *)
      left. split; [apply Q1, Es|].
      rewrite Es in H. unfold n in H. rewrite (byte_offset_at_length cr (c_tree c) (d_tree d) bs T) in H.
      injection H as <- <- <-. repeat split; reflexivity.
    - right. assert (Hlt : s' < n) by lia. destruct (Q2 Hlt) as [Pn Hlast].
      split; [exact Pn|]. split; [exact Hlast|].
      exists s'. split; [exact Hlt|]. split; [exact B3|]. split; [exact B4|]. cbv zeta.
      rewrite (byte_offset_tinv cr (c_tree c) (d_tree d) bs s' T) in H by (fold n; lia).
      rewrite mbind_lift in H. unfold sub64 at 1 in H. rewrite B1 in H.
      destruct (N.leb_spec 1 n) as [_|L]; [|lia].
      rewrite mbind_lift, (byte_range_tinv cr (c_tree c) (d_tree d) bs (n - 1) T) in H by (fold n; lia).
      cbv iota in H.
      assert (Pe : prefix_size bs (n - 1) + len (nth (N.to_nat (n - 1)) bs []) = sumN (map len bs)).
      { change (nth (N.to_nat (n - 1)) bs []) with (blk bs (n - 1)). rewrite <- prefix_size_succ.
        replace (n - 1 + 1) with n by lia. apply prefix_size_all. }
      rewrite Pe in H. rewrite mbind_lift in H. unfold sub64 in H.
      pose proof (prefix_size_le bs s') as Pm.
      destruct (N.leb_spec (prefix_size bs s') (sumN (map len bs))) as [_|L]; [|lia].
      rewrite Dd in H.
      destruct ((0 <? sumN (map len bs) - prefix_size bs s') && (prefix_size bs s' <? f_len (d_data d))) eqn:G.
      + left. split; [reflexivity|].
        destruct (f_del_some (d_data d) (prefix_size bs s') (sumN (map len bs) - prefix_size bs s') ltac:(lia))
          as [fd Edel].
        exists fd. split; [exact Edel|].
        rewrite (mbind_emit_SD_some Data _ _ fd) in H by (cbn [w_disk d_get]; rewrite Dd; exact Edel).
        cbn [w_disk w_journal w_events] in H.
        split; [|exact H].
        destruct W2 as (T2 & Hbf2 & Hcg2 & Hd2 & Hl2). rewrite Dd in Hd2.
        assert (Edel' : f_del (d_data d) (prefix_size bs s') (prefix_size bs n - prefix_size bs s') = Some fd).
        { unfold n. rewrite prefix_size_all. exact Edel. }
        destruct (del_hole_preserves bs cl s' n (d_data d) fd ltac:(lia) B3 Hd2 Hl Edel') as [Hd3 Hl3].
        assert (W3 : CInv cr c2 (d_set d1 Data fd) bs cl).
        { unfold CInv. cbv zeta.
          assert (d_tree (d_set d1 Data fd) = d_tree d1) as -> by (destruct d1; reflexivity).
          assert (d_data (d_set d1 Data fd) = fd) as -> by (destruct d1; reflexivity).
          split; [exact T2|]. split; [exact Hbf2|]. split; [exact Hcg2|]. split; [exact Hd3|exact Hl3]. }
        apply (FInv_data cr c2 d1 _ bs cl F2 W3); destruct d1; reflexivity.
      + right. split; [reflexivity|]. rewrite mbind_ret in H. exact H.
  Qed.

  (* ---------- 1. the result and the invariant ---------- *)

  (* clear(start, end_) with length <= start < end_ (end_ a u64), for every flush decision: the result is
     Err BadArgument when the core is empty or its last block is held, Ok tt otherwise; in both cases the state
     reached (memory and the four files) satisfies FInv for the SAME blocks and the SAME cleared set *)
  Theorem clear_beyond_FInv f c d j ev bs cl start end_ c' w' r :
    let n := N.of_nat (length bs) in
    FInv cr c d bs cl -> n <= start -> start < end_ -> end_ <= u64_max ->
    core_clear cr f start end_ c (mkWorld d j ev) = (c', w', r) ->
    r = beyond_result bs cl /\ FInv cr c' (w_disk w') bs cl /\ c_keypair c' = c_keypair c.
  Proof.
    intros n D Hns Hse Hend H.
    destruct (clear_beyond_run f c d j ev bs cl start end_ c' w' r D Hns Hse Hend H)
      as (o' & fr & _ & F2 & [(Hc & -> & -> & ->)|(Pn & Hlast & s' & _ & _ & _ & [(_ & fd & _ & F3 & Hm)|(_ & Hm)])]).
    - split; [symmetry; apply beyond_result_err, Hc|]. split; [exact F2|reflexivity].
    - apply (maybe_flush_FInv cr Hcrc Hhash32 Hnonblank Hhashbytes f _ _ _ _ bs cl) in Hm; [|exact F3].
      destruct Hm as (-> & F4 & K4).
      split; [symmetry; apply beyond_result_ok; assumption|]. split; [exact F4|]. rewrite K4. reflexivity.
    - apply (maybe_flush_FInv cr Hcrc Hhash32 Hnonblank Hhashbytes f _ _ _ _ bs cl) in Hm; [|exact F2].
      destruct Hm as (-> & F4 & K4).
      split; [symmetry; apply beyond_result_ok; assumption|]. split; [exact F4|]. rewrite K4. reflexivity.
  Qed.

  (* the same with the cleared set the in-range theorem (Unified2.clear_FInv) speaks about: cl_clear cl start end_
     agrees with cl below the length *)
  Lemma cl_clear_beyond_agrees cl n start end_ i : n <= start -> i < n -> cl_clear cl start end_ i = cl i.
  Proof.
    intros Hns Hi. unfold cl_clear. assert ((start <=? i) && (i <? end_) = false) as -> by lia. apply orb_false_r.
  Qed.

  Corollary clear_beyond_FInv_cl_clear f c d j ev bs cl start end_ c' w' r :
    let n := N.of_nat (length bs) in
    FInv cr c d bs cl -> n <= start -> start < end_ -> end_ <= u64_max ->
    core_clear cr f start end_ c (mkWorld d j ev) = (c', w', r) ->
    r = beyond_result bs cl /\ FInv cr c' (w_disk w') bs (cl_clear cl start end_) /\
    (forall i, held n (cl_clear cl start end_) i = held n cl i).
  Proof.
    intros n D Hns Hse Hend H.
    destruct (clear_beyond_FInv f c d j ev bs cl start end_ c' w' r D Hns Hse Hend H) as (R & F & _).
    split; [exact R|]. split.
    - apply (FInv_cl_ext cr c' (w_disk w') bs cl); [|exact F].
      intros i Hi. apply (cl_clear_beyond_agrees cl n); assumption.
    - apply held_ext. intros i Hi. apply (cl_clear_beyond_agrees cl n); assumption.
  Qed.

  (* ---------- 2. the failing call, exactly ---------- *)

  (* The core is empty or its last block is held: the call writes the entry, updates the oplog counters and the
     bitfield in memory and returns BadArgument: the core, the disk, the journal (ONE oplog write, no data
     operation, no flush) and the events (none) are these *)
  Theorem clear_beyond_fails f c d j ev bs cl start end_ :
    let n := N.of_nat (length bs) in
    FInv cr c d bs cl -> n <= start -> start < end_ -> end_ <= u64_max ->
    n = 0 \/ held n cl (n - 1) = true ->
    exists o' fr,
      let off := ENTRIES_OFFSET + ol_entries_bytes (c_oplog c) in
      oplog_append cr (c_oplog c) (mkEntry [] None (Some (mkBfUpdate true start (end_ - start))))
        = Ok (o', [SW Oplog off fr]) /\
      let c2 := mkCore (c_keypair c) o' (c_tree c) (bf_set_range (c_bitfield c) start (end_ - start) false)
                       (c_header c) (c_skip c) in
      let d1 := d_set d Oplog (f_write (d_oplog d) off fr) in
      core_clear cr f start end_ c (mkWorld d j ev) = (c2, mkWorld d1 (SW Oplog off fr :: j) ev, Err BadArgument) /\
      FInv cr c2 d1 bs cl /\
      (forall i, bf_get (c_bitfield c2) i = bf_get (c_bitfield c) i) /\
      hd_contig (c_header c2) = hd_contig (c_header c).
  Proof.
    intros n D Hns Hse Hend Hc.
    destruct (core_clear cr f start end_ c (mkWorld d j ev)) as [[c' w'] r] eqn:H.
    destruct (clear_beyond_run f c d j ev bs cl start end_ c' w' r D Hns Hse Hend H)
      as (o' & fr & OA & F2 & [(_ & -> & -> & ->)|(Pn & Hlast & _)]).
    - exists o', fr. cbv zeta. split; [exact OA|]. split; [reflexivity|]. split; [exact F2|].
      split; [|reflexivity]. intros i. cbn [c_bitfield].
      rewrite (proj1 (proj2 (FInv_CInv cr _ _ _ _ F2))). cbn [c_bitfield].
      symmetry. apply (proj1 (proj2 (FInv_CInv cr _ _ _ _ D))).
    - exfalso. destruct Hc as [Z|Hc]; [lia|]. pose proof (eq_trans (eq_sym Hc) Hlast) as X. discriminate X.
  Qed.

  (* ---------- 3. the call that returns Ok: what it issues ---------- *)

  (* The last block is not held: the call returns Ok tt.  Its journal is: the entry write; then at most one delete
     in the data store, of the byte range of the cleared blocks [s', length) behind the last held block; then the
     operations of the flush decision.  No event is sent by a clear (CoreFacts: events are appended only by send). *)
  Theorem clear_beyond_succeeds f c d j ev bs cl start end_ c' w' r :
    let n := N.of_nat (length bs) in
    FInv cr c d bs cl -> n <= start -> start < end_ -> end_ <= u64_max ->
    0 < n -> held n cl (n - 1) = false ->
    core_clear cr f start end_ c (mkWorld d j ev) = (c', w', r) ->
    r = Ok tt /\
    exists o' fr s',
      let off := ENTRIES_OFFSET + ol_entries_bytes (c_oplog c) in
      oplog_append cr (c_oplog c) (mkEntry [] None (Some (mkBfUpdate true start (end_ - start))))
        = Ok (o', [SW Oplog off fr]) /\
      s' < n /\ (forall i, s' <= i -> i < n -> held n cl i = false) /\
      (s' = 0 \/ (0 < s' /\ held n cl (s' - 1) = true)) /\
      let c2 := mkCore (c_keypair c) o' (c_tree c) (bf_set_range (c_bitfield c) start (end_ - start) false)
                       (c_header c) (c_skip c) in
      let d1 := d_set d Oplog (f_write (d_oplog d) off fr) in
      let doff := prefix_size bs s' in
      let dlen := sumN (map len bs) - doff in
      exists d2 jd,
        ((jd = [SD Data doff dlen] /\ 0 < dlen /\ doff < f_len (d_data d) /\
          exists fd, f_del (d_data d) doff dlen = Some fd /\ d2 = d_set d1 Data fd)
         \/ (jd = [] /\ d2 = d1)) /\
        FInv cr c2 d2 bs cl /\
        maybe_flush cr f c2 (mkWorld d2 (jd ++ SW Oplog off fr :: j) ev) = (c', w', Ok tt).
  Proof.
    intros n D Hns Hse Hend Pn Hlast H.
    destruct (clear_beyond_run f c d j ev bs cl start end_ c' w' r D Hns Hse Hend H)
      as (o' & fr & OA & F2 & [([Z|Hc] & _)|(_ & _ & s' & Hlt & B3 & B4 & Hcase)]).
    - lia.
    - pose proof (eq_trans (eq_sym Hc) Hlast) as X. discriminate X.
    - cbv zeta in Hcase.
      destruct Hcase as [(G & fd & Edel & F3 & Hm)|(G & Hm)].
      + pose proof Hm as Hm'.
        apply (maybe_flush_FInv cr Hcrc Hhash32 Hnonblank Hhashbytes f _ _ _ _ bs cl) in Hm'; [|exact F3].
        destruct Hm' as (-> & _). split; [reflexivity|].
        exists o', fr, s'. cbv zeta. split; [exact OA|]. split; [exact Hlt|]. split; [exact B3|]. split; [exact B4|].
        eexists. exists [SD Data (prefix_size bs s') (sumN (map len bs) - prefix_size bs s')].
        split.
        { left. split; [reflexivity|]. apply andb_prop in G as [G1 G2].
          split; [lia|]. split; [lia|]. exists fd. split; [exact Edel|reflexivity]. }
        split; [exact F3|exact Hm].
      + pose proof Hm as Hm'.
        apply (maybe_flush_FInv cr Hcrc Hhash32 Hnonblank Hhashbytes f _ _ _ _ bs cl) in Hm'; [|exact F2].
        destruct Hm' as (-> & _). split; [reflexivity|].
        exists o', fr, s'. cbv zeta. split; [exact OA|]. split; [exact Hlt|]. split; [exact B3|]. split; [exact B4|].
        eexists. exists []. split; [right; split; reflexivity|]. split; [exact F2|exact Hm].
  Qed.

  (* ---------- 4. observations, and the reopen that replays the pending entry ---------- *)

  (* Whatever the call answers, no observation changes: info (length, byte length, contiguous length), has, get
     (result, journal, events); and dropping the instance right after the call (also after the FAILED call) and
     opening the storage again succeeds, issues no storage operation, replays the pending drop entry and gives a
     core satisfying FInv for the same blocks and cleared set, with the same observations. *)
  Theorem clear_beyond_observations_and_reopen f c d j ev bs cl start end_ c' w' r :
    let n := N.of_nat (length bs) in
    FInv cr c d bs cl -> n <= start -> start < end_ -> end_ <= u64_max ->
    core_clear cr f start end_ c (mkWorld d j ev) = (c', w', r) ->
    core_info c' = core_info c /\
    (forall i, core_has c' i = core_has c i) /\
    (forall i j1 ev1 j2 ev2,
       snd (core_get i c' (mkWorld (w_disk w') j1 ev1)) = snd (core_get i c (mkWorld d j2 ev2))) /\
    exists c'', core_open cr None true (w_disk w') = (w_disk w', [], Ok c'') /\
      FInv cr c'' (w_disk w') bs cl /\ c_keypair c'' = c_keypair c /\
      core_info c'' = core_info c /\
      (forall i, core_has c'' i = core_has c i) /\
      (forall i j1 ev1 j2 ev2,
         snd (core_get i c'' (mkWorld (w_disk w') j1 ev1)) = snd (core_get i c (mkWorld d j2 ev2))).
  Proof.
    intros n D Hns Hse Hend H.
    destruct (clear_beyond_FInv f c d j ev bs cl start end_ c' w' r D Hns Hse Hend H) as (_ & D' & K').
    destruct (reopen_FInv cr Hcrc Hhash32 Hnonblank Hhashbytes c' (w_disk w') bs cl D') as (c'' & Eo & D'' & K'').
    assert (Obs : forall x dx, FInv cr x dx bs cl -> c_keypair x = c_keypair c ->
              core_info x = core_info c /\ (forall i, core_has x i = core_has c i) /\
              (forall i j1 ev1 j2 ev2,
                 snd (core_get i x (mkWorld dx j1 ev1)) = snd (core_get i c (mkWorld d j2 ev2)))).
    { intros x dx Dx Kx. split.
      - rewrite (info_correct_U cr x dx bs cl Dx), (info_correct_U cr c d bs cl D), Kx. reflexivity.
      - split.
        + intros i. rewrite (has_correct_U cr x dx bs cl i Dx), (has_correct_U cr c d bs cl i D). reflexivity.
        + intros i j1 ev1 j2 ev2.
          rewrite (get_correct_U cr x dx bs cl j1 ev1 i Dx), (get_correct_U cr c d bs cl j2 ev2 i D).
          destruct (held (N.of_nat (length bs)) cl i); reflexivity. }
    destruct (Obs c' (w_disk w') D' K') as (O1 & O2 & O3).
    split; [exact O1|]. split; [exact O2|]. split; [exact O3|].
    exists c''. split; [exact Eo|]. split; [exact D''|].
    assert (K3 : c_keypair c'' = c_keypair c) by (rewrite K''; exact K').
    split; [exact K3|]. exact (Obs c'' (w_disk w') D'' K3).
  Qed.

  (* ---------- 5. end_ <= start ---------- *)

  (* the empty range (also a reversed one): nothing happens at all, for any start, any end_ (no u64 bound needed) *)
  Theorem clear_empty_range_FInv f c d j ev bs cl start end_ :
    FInv cr c d bs cl -> end_ <= start ->
    core_clear cr f start end_ c (mkWorld d j ev) = (c, mkWorld d j ev, Ok tt) /\ FInv cr c d bs cl.
  Proof. intros D L. split; [apply clear_noop, L|exact D]. Qed.

  (* ---------- 6. every clear ---------- *)

  (* the cleared set of the model after clear(start, end_) on a core of length n *)
  Definition cl_after (cl : N -> bool) (n start end_ : N) : N -> bool :=
    if end_ <=? start then cl else if start <? n then cl_clear cl start end_ else cl.

  (* the answer of the model *)
  Definition clear_result (bs : list bytes) (cl : N -> bool) (start end_ : N) : res unit :=
    if end_ <=? start then Ok tt
    else if start <? N.of_nat (length bs) then Ok tt else beyond_result bs cl.

  (* core_clear with ANY start and end_ (end_ a u64 when start < end_), every flush decision *)
  Theorem clear_any_FInv f c d j ev bs cl start end_ c' w' r :
    let n := N.of_nat (length bs) in
    FInv cr c d bs cl -> (end_ <= start \/ end_ <= u64_max) ->
    core_clear cr f start end_ c (mkWorld d j ev) = (c', w', r) ->
    r = clear_result bs cl start end_ /\
    FInv cr c' (w_disk w') bs (cl_after cl n start end_) /\ c_keypair c' = c_keypair c.
  Proof.
    intros n D Hend H. unfold clear_result, cl_after. fold n.
    destruct (N.leb_spec end_ start) as [L|L].
    - rewrite (clear_noop cr f start end_ c _ L) in H. injection H as <- <- <-.
      split; [reflexivity|]. split; [exact D|reflexivity].
    - assert (He : end_ <= u64_max) by (destruct Hend as [A|A]; [lia|exact A]).
      destruct (N.ltb_spec start n) as [A|A].
      + apply (clear_FInv cr Hcrc Hhash32 Hnonblank Hhashbytes f c d j ev bs cl start end_ c' w' r D A L He H).
      + apply (clear_beyond_FInv f c d j ev bs cl start end_ c' w' r D A L He H).
  Qed.
End ClearBeyond.

(* ====================================================================================== *)
(* C. Histories with unrestricted clears                                                   *)
(* ====================================================================================== *)

(* the model: list of blocks + characteristic function of the cleared indices.  A clear of an empty range answers
   Ok; a clear that starts below the length answers Ok and clears; a clear that starts at or beyond the length
   answers what the crate answers (beyond_result) and changes nothing. *)
Fixpoint aspec (ops : list uop) (bs : list bytes) (cl : N -> bool) : list uobs :=
  let n := N.of_nat (length bs) in
  match ops with
  | [] => []
  | UAppend _ batch :: rest =>
      UOAppend (Ok (N.of_nat (length (bs ++ batch)), sumN (map len (bs ++ batch))))
        :: aspec rest (bs ++ batch) (cl_mask cl n)
  | UClear _ s e :: rest =>
      UOClear (clear_result bs cl s e) :: aspec rest bs (cl_after cl n s e)
  | UGet i :: rest =>
      UOGet (Ok (if held n cl i then Some (nth (N.to_nat i) bs []) else None)) :: aspec rest bs cl
  | UHas i :: rest => UOHas (held n cl i) :: aspec rest bs cl
  | UInfo :: rest =>
      UOInfo (mkInfo n (sumN (map len bs)) (spec_contig bs cl) 0 true) :: aspec rest bs cl
  | UReopen :: rest => UOReopen (Ok tt) :: aspec rest bs cl
  end.

(* the only constraint left on a clear: a non-empty range ends at a u64 (the argument type of the crate) *)
Fixpoint wf_a (ops : list uop) : Prop :=
  match ops with
  | [] => True
  | UClear _ s e :: rest => (e <= s \/ e <= u64_max) /\ wf_a rest
  | _ :: rest => wf_a rest
  end.

(* on the histories of Unified3 (every non-empty clear starts below the length) the model is Unified3.uspec *)
Lemma aspec_uspec (ops : list uop) : forall bs cl,
  wf_u ops (N.of_nat (length bs)) -> aspec ops bs cl = uspec ops bs cl.
Proof.
  induction ops as [|op ops IH]; intros bs cl Hwf; [reflexivity|].
  destruct op as [f batch|f s e|i|i| |]; cbn [aspec uspec wf_u] in *.
  - f_equal. apply IH. rewrite app_length, Nat2N.inj_add. exact Hwf.
  - destruct Hwf as [Hse Hwf]. unfold clear_result, cl_after.
    destruct (N.leb_spec e s) as [L|L].
    + f_equal. apply IH, Hwf.
    + destruct Hse as [Hse|[Hse _]]; [lia|].
      destruct (N.ltb_spec s (N.of_nat (length bs))) as [A|A]; [|lia]. f_equal. apply IH, Hwf.
  - f_equal. apply IH, Hwf.
  - f_equal. apply IH, Hwf.
  - f_equal. apply IH, Hwf.
  - f_equal. apply IH, Hwf.
Qed.

Lemma wf_u_wf_a (ops : list uop) : forall n, wf_u ops n -> wf_a ops.
Proof.
  induction ops as [|op ops IH]; intros n Hwf; [exact I|].
  destruct op as [f batch|f s e|i|i| |]; cbn [wf_u wf_a] in *; try (eapply IH; exact Hwf).
  destruct Hwf as [Hse Hwf]. split; [|eapply IH; exact Hwf]. destruct Hse as [A|[_ A]]; [left|right]; exact A.
Qed.

Section HistoryAny.
  Variable cr : crypto.
  Hypothesis Hcrc : crc_ok cr.
  Hypothesis Hhash32 : forall x, length (cr_hash cr x) = 32%nat.
  Hypothesis Hnonblank : forall x, all_zero (cr_hash cr x) = false.
  Hypothesis Hhashbytes : forall x, bytes_ok (cr_hash cr x) = true.
  Hypothesis Hsig64 : forall sk m, length (cr_sign cr sk m) = 64%nat.
  Hypothesis Hsigbytes : forall sk m, bytes_ok (cr_sign cr sk m) = true.

  (* the implementation: as Unified3.urun, but the history goes on, on the state reached, after a clear that
     returned an error value (the caller still owns the instance); it stops after a panic / fuel exhaustion *)
  Fixpoint arun (ops : list uop) (c : core) (w : world) : list uobs :=
    match ops with
    | [] => []
    | UAppend f batch :: rest =>
        let '(c', w', r) := core_append cr f batch c w in
        UOAppend r :: (match r with Ok _ => arun rest c' w' | _ => [] end)
    | UClear f s e :: rest =>
        let '(c', w', r) := core_clear cr f s e c w in
        UOClear r :: (match r with Ok _ | Err _ => arun rest c' w' | _ => [] end)
    | UGet i :: rest =>
        let '(c', w', r) := core_get i c w in UOGet r :: arun rest c' w'
    | UHas i :: rest => UOHas (core_has c i) :: arun rest c w
    | UInfo :: rest => UOInfo (core_info c) :: arun rest c w
    | UReopen :: rest =>
        let '(d', sops, r) := core_open cr None true (w_disk w) in
        UOReopen (res_unit r) ::
        (match r with
         | Ok c' => arun rest c' (mkWorld d' (rev sops ++ w_journal w) (w_events w))
         | _ => []
         end)
    end.

  Lemma clear_result_cases bs cl s e :
    clear_result bs cl s e = Ok tt \/ clear_result bs cl s e = Err BadArgument.
  Proof.
    unfold clear_result, beyond_result.
    destruct (e <=? s); [left; reflexivity|]. destruct (s <? N.of_nat (length bs)); [left; reflexivity|].
    match goal with |- context [if ?b then _ else _] => destruct b end; [right|left]; reflexivity.
  Qed.

  Theorem history_with_any_clear_refines_list_model (ops : list uop) : forall c d j ev bs cl sk,
    FInv cr c d bs cl -> kp_secret (c_keypair c) = Some sk ->
    wf_a ops ->
    sumN (map len (bs ++ uappended ops)) <= u64_max ->
    NODE_SIZE * (2 * N.of_nat (length (bs ++ uappended ops))) <= u64_max ->
    arun ops c (mkWorld d j ev) = aspec ops bs cl \/
    exists k, arun ops c (mkWorld d j ev) = firstn k (aspec ops bs cl) ++ [UOAppend (Panic frame_msg)].
  Proof.
    induction ops as [|op ops IH]; intros c d j ev bs cl sk D Hsk Hwf Hfit Hidx.
    - left. reflexivity.
    - pose proof (FInv_CInv cr c d bs cl D) as W.
      destruct op as [f batch|f s e|i|i| |]; cbn [arun aspec uappended wf_a] in *.
      + destruct (core_append cr f batch c (mkWorld d j ev)) as [[c' w'] r] eqn:E.
        rewrite app_assoc in Hfit, Hidx.
        assert (Hfit1 : sumN (map len (bs ++ batch)) <= u64_max).
        { rewrite map_app, TreeRef.sumN_app in Hfit. lia. }
        assert (Hidx1 : NODE_SIZE * (2 * N.of_nat (length (bs ++ batch))) <= u64_max).
        { rewrite (app_length (bs ++ batch)) in Hidx. unfold NODE_SIZE in *. lia. }
        destruct (append_FInv cr Hcrc Hhash32 Hnonblank Hhashbytes Hsig64 Hsigbytes
                              f batch c d j ev bs cl sk c' w' r D Hsk Hfit1 Hidx1 E)
          as [->|(-> & D' & K')].
        * right. exists 0%nat. reflexivity.
        * destruct w' as [d' j' ev']. cbn [w_disk] in D'. rewrite <- K' in Hsk.
          destruct (IH c' d' j' ev' (bs ++ batch) _ sk D' Hsk Hwf Hfit Hidx) as [->|(k & ->)].
          -- left. reflexivity.
          -- right. exists (S k). reflexivity.
      + destruct Hwf as [Hse Hwf].
        destruct (core_clear cr f s e c (mkWorld d j ev)) as [[c' w'] r] eqn:E.
        destruct (clear_any_FInv cr Hcrc Hhash32 Hnonblank Hhashbytes f c d j ev bs cl s e c' w' r D Hse E)
          as (-> & D' & K').
        destruct w' as [d' j' ev']. cbn [w_disk] in D'. rewrite <- K' in Hsk.
        destruct (IH c' d' j' ev' bs _ sk D' Hsk Hwf Hfit Hidx) as [IHe|(k & IHe)].
        * left. destruct (clear_result_cases bs cl s e) as [R|R]; rewrite R; rewrite IHe; reflexivity.
        * right. exists (S k).
          destruct (clear_result_cases bs cl s e) as [R|R]; rewrite R; rewrite IHe; reflexivity.
      + rewrite (get_correct_c cr c d bs cl j ev i W).
        destruct (held (N.of_nat (length bs)) cl i).
        * destruct (IH c d j ev bs cl sk D Hsk Hwf Hfit Hidx) as [->|(k & ->)];
            [left; reflexivity|right; exists (S k); reflexivity].
        * destruct (IH c d j (EvGet i :: ev) bs cl sk D Hsk Hwf Hfit Hidx) as [->|(k & ->)];
            [left; reflexivity|right; exists (S k); reflexivity].
      + rewrite (has_correct_c cr c d bs cl i W).
        destruct (IH c d j ev bs cl sk D Hsk Hwf Hfit Hidx) as [->|(k & ->)];
          [left; reflexivity|right; exists (S k); reflexivity].
      + rewrite (proj1 (info_correct_c cr c d bs cl W)), Hsk.
        destruct (IH c d j ev bs cl sk D Hsk Hwf Hfit Hidx) as [->|(k & ->)];
          [left; reflexivity|right; exists (S k); reflexivity].
      + destruct (reopen_FInv cr Hcrc Hhash32 Hnonblank Hhashbytes c d bs cl D) as (c' & E & D' & K').
        cbn [w_disk w_journal w_events]. rewrite E. cbn [res_unit rev app]. rewrite <- K' in Hsk.
        destruct (IH c' d j ev bs cl sk D' Hsk Hwf Hfit Hidx) as [->|(k & ->)];
          [left; reflexivity|right; exists (S k); reflexivity].
  Qed.

  (* from creation *)
  Theorem fresh_history_with_any_clear kp sk ops :
    keypair_ok kp = true -> kp_secret kp = Some sk ->
    wf_a ops ->
    sumN (map len (uappended ops)) <= u64_max ->
    NODE_SIZE * (2 * N.of_nat (length (uappended ops))) <= u64_max ->
    exists d0 ops0 c0,
      core_open cr (Some kp) false disk_empty = (d0, ops0, Ok c0) /\
      (arun ops c0 (mkWorld d0 [] []) = aspec ops [] (fun _ => false) \/
       exists k, arun ops c0 (mkWorld d0 [] []) =
                 firstn k (aspec ops [] (fun _ => false)) ++ [UOAppend (Panic frame_msg)]).
  Proof.
    intros Hkp Hsk Hwf Hfit Hidx.
    destruct (FInv_init cr Hcrc Hhash32 Hnonblank Hhashbytes kp Hkp) as (d0 & ops0 & c0 & Ho & D & K).
    exists d0, ops0, c0. split; [exact Ho|].
    apply (history_with_any_clear_refines_list_model ops c0 d0 [] [] [] (fun _ => false) sk D);
      [rewrite K; exact Hsk|exact Hwf|exact Hfit|exact Hidx].
  Qed.

  (* when no append hits the 30-bit frame guard, every observation is the model's *)
  Corollary fresh_history_with_any_clear_no_frame_panic kp sk ops :
    keypair_ok kp = true -> kp_secret kp = Some sk ->
    wf_a ops ->
    sumN (map len (uappended ops)) <= u64_max ->
    NODE_SIZE * (2 * N.of_nat (length (uappended ops))) <= u64_max ->
    exists d0 ops0 c0,
      core_open cr (Some kp) false disk_empty = (d0, ops0, Ok c0) /\
      (~ In (UOAppend (Panic frame_msg)) (arun ops c0 (mkWorld d0 [] [])) ->
       arun ops c0 (mkWorld d0 [] []) = aspec ops [] (fun _ => false)).
  Proof.
    intros Hkp Hsk Hwf Hfit Hidx.
    destruct (fresh_history_with_any_clear kp sk ops Hkp Hsk Hwf Hfit Hidx) as (d0 & ops0 & c0 & Ho & [E|(k & E)]);
      exists d0, ops0, c0; (split; [exact Ho|]); intros Hno; [exact E|].
    exfalso. apply Hno. rewrite E. apply in_or_app. right. left. reflexivity.
  Qed.

  (* ---------- the run function of Unified3 (which stops at the first error value) ---------- *)

  (* cut a list of observations behind the first append / clear / reopen that did not return a value *)
  Fixpoint stop_at_failure (l : list uobs) : list uobs :=
    match l with
    | [] => []
    | UOAppend r :: rest => UOAppend r :: (match r with Ok _ => stop_at_failure rest | _ => [] end)
    | UOClear r :: rest => UOClear r :: (match r with Ok _ => stop_at_failure rest | _ => [] end)
    | UOReopen r :: rest => UOReopen r :: (match r with Ok _ => stop_at_failure rest | _ => [] end)
    | o :: rest => o :: stop_at_failure rest
    end.

  Lemma urun_stops_arun (ops : list uop) : forall c w, urun cr ops c w = stop_at_failure (arun ops c w).
  Proof.
    induction ops as [|op ops IH]; intros c w; [reflexivity|].
    destruct op as [f batch|f s e|i|i| |]; cbn [urun arun].
    - destruct (core_append cr f batch c w) as [[c' w'] r]. cbn [stop_at_failure].
      destruct r; try reflexivity. rewrite IH. reflexivity.
    - destruct (core_clear cr f s e c w) as [[c' w'] r]. cbn [stop_at_failure].
      destruct r; try reflexivity. rewrite IH. reflexivity.
    - destruct (core_get i c w) as [[c' w'] r]. cbn [stop_at_failure]. rewrite IH. reflexivity.
    - cbn [stop_at_failure]. rewrite IH. reflexivity.
    - cbn [stop_at_failure]. rewrite IH. reflexivity.
    - destruct (core_open cr None true (w_disk w)) as [[d' sops] r]. cbn [stop_at_failure].
      destruct r as [c'| | |]; cbn [res_unit]; try reflexivity. rewrite IH. reflexivity.
  Qed.

  Lemma stop_at_failure_panic_tail l : forall k,
    exists k', stop_at_failure (firstn k l ++ [UOAppend (Panic frame_msg)]) =
               firstn k' (stop_at_failure l) ++ [UOAppend (Panic frame_msg)]
               \/ stop_at_failure (firstn k l ++ [UOAppend (Panic frame_msg)]) = firstn k' (stop_at_failure l).
  Proof.
    induction l as [|o l IH]; intros k.
    - exists 0%nat. left. rewrite firstn_nil. reflexivity.
    - destruct k as [|k].
      + exists 0%nat. left. reflexivity.
      + destruct (IH k) as (k' & IHk). cbn [firstn app].
        destruct o as [r|r|r|b|inf|r]; cbn [stop_at_failure];
          try (exists (S k'); cbn [firstn]; destruct IHk as [-> | ->]; [left|right]; reflexivity);
          (destruct r; [exists (S k'); cbn [firstn]; destruct IHk as [-> | ->]; [left|right]; reflexivity
                       |exists 1%nat; right; reflexivity ..]).
  Qed.

  (* Unified3.urun on histories with unrestricted clears: the model's observations up to and including the first
     clear that answers BadArgument (or the frame-guard panic of an append) *)
  Corollary urun_history_with_any_clear ops c d j ev bs cl sk :
    FInv cr c d bs cl -> kp_secret (c_keypair c) = Some sk ->
    wf_a ops ->
    sumN (map len (bs ++ uappended ops)) <= u64_max ->
    NODE_SIZE * (2 * N.of_nat (length (bs ++ uappended ops))) <= u64_max ->
    urun cr ops c (mkWorld d j ev) = stop_at_failure (aspec ops bs cl) \/
    exists k, urun cr ops c (mkWorld d j ev) = firstn k (stop_at_failure (aspec ops bs cl)) ++ [UOAppend (Panic frame_msg)]
              \/ urun cr ops c (mkWorld d j ev) = firstn k (stop_at_failure (aspec ops bs cl)).
  Proof.
    intros D Hsk Hwf Hfit Hidx. rewrite urun_stops_arun.
    destruct (history_with_any_clear_refines_list_model ops c d j ev bs cl sk D Hsk Hwf Hfit Hidx) as [->|(k & ->)].
    - left. reflexivity.
    - right. apply stop_at_failure_panic_tail.
  Qed.
End HistoryAny.

Print Assumptions clear_beyond_run.
Print Assumptions clear_beyond_FInv.
Print Assumptions clear_beyond_FInv_cl_clear.
Print Assumptions clear_beyond_fails.
Print Assumptions clear_beyond_succeeds.
Print Assumptions clear_beyond_observations_and_reopen.
Print Assumptions clear_empty_range_FInv.
Print Assumptions clear_any_FInv.
Print Assumptions aspec_uspec.
Print Assumptions history_with_any_clear_refines_list_model.
Print Assumptions fresh_history_with_any_clear.
Print Assumptions fresh_history_with_any_clear_no_frame_panic.
Print Assumptions urun_stops_arun.
Print Assumptions urun_history_with_any_clear.

"""C09 — no request or proof from a peer can panic the node."""
from repl import *
import c04


def boundary_values(n):
    return sorted(set([0, 1, 2, max(n - 1, 0), n, n + 1, 2 * n, 2 * n + 1, 2 ** 32, 2 ** 40 - 1]))


def hostile_requests(r, n, count):
    vals = boundary_values(n)
    small = [0, 1, 2, 3, 5, 40, 2 ** 40 - 1]
    out = []
    for _ in range(count):
        b = h = s = u = "-"
        mask = r.randrange(1, 16)
        if mask & 1:
            b = "%d,%d" % (r.choice(vals), r.choice(small))
        if mask & 2:
            h = "%d,%d" % (r.choice(vals + [2 * r.choice(vals) + 1, 15, 39, 7, 3]), r.choice(small))
        if mask & 4:
            s = "%d" % r.choice(vals + [r.randrange(0, 2000)])
        if mask & 8:
            u = "%d,%d" % (r.choice(vals), r.choice(vals))
        out.append((b, h, s, u))
    return out


def arbitrary_proof(r, n):
    def nodes():
        return [[r.choice([r.randrange(0, 4 * n + 4), r.randrange(2 ** 40)]), r.choice([0, 1, r.randrange(2 ** 40)]),
                 bytes(r.randrange(256) for _ in range(32)).hex()] for _ in range(r.choice([0, 1, 2, 3, 6]))]
    p = dict(fork=r.choice([0, 0, 0, 1, 2 ** 40 - 1]), block=None, hash=None, seek=None, upgrade=None)
    if r.random() < 0.5:
        p["block"] = dict(index=r.choice([0, 1, n, 2 * n, 2 ** 40 - 1]), value=hexb(bytes(r.randrange(256) for _ in range(r.choice([0, 1, 9])))), nodes=nodes())
    elif r.random() < 0.5:
        p["hash"] = dict(index=r.choice([0, 1, 3, n, 2 * n + 1, 2 ** 40 - 1]), nodes=nodes())
    if r.random() < 0.4:
        p["seek"] = dict(bytes=r.choice([0, 1, 10, 2 ** 40 - 1]), nodes=nodes())
    if r.random() < 0.7:
        p["upgrade"] = dict(start=r.choice([0, 0, 1, n, n + 1, 2 ** 40 - 1]), length=r.choice([0, 0, 1, n, 2 ** 40 - 1]),
                            nodes=nodes(), additional=nodes(), signature=bytes(r.randrange(256) for _ in range(r.choice([64, 64, 0, 63]))).hex() or "_")
    return p


CORPUS_REQ = [
    # (blocks, clears, request) — replays of earlier findings
    (21, [], ("-", "15,0", "5", "10,11")),
    (21, [], ("-", "39,0", "-", "20,1")),
    (21, [], ("-", "15,0", "0", "10,11")),
    (8, [], ("9,0", "-", "-", "0,5")),
    (8, [], ("6,0", "-", "-", "0,5")),
]


def hostile_world(pair, r, res, tier, nblocks, clears):
    found = []
    w = World(pair)
    if nblocks:
        w.w_append([bytes([65 + i % 26]) * r.choice([0, 1, 3, 10]) for i in range(nblocks)])
    for (s, e) in clears:
        w.w_clear(s, e)
    n = w.wspec.length
    reqs = [c[2] for c in CORPUS_REQ if c[0] == nblocks and c[1] == clears]
    reqs += hostile_requests(r, n, 150 if tier == "quick" else 2500)
    # well-formed-looking requests against OLDER lengths of the log (a peer that learnt the length before the last appends):
    # every upgrade range ending at or before the current length, with and without seek / block / hash sections
    if 0 < n <= 24:
        total = w.wspec.byte_length
        older = []
        for end in range(1, n + 1):
            for start in sorted(set([0, 1, end // 2, max(end - 1, 0)])):
                if start < end:
                    for sk in ("-", "0", str(max(total // 2, 0)), str(max(total - 1, 0))):
                        older.append(("-", "-", sk, "%d,%d" % (start, end - start)))
                        older.append(("%d,0" % r.randrange(end), "-", sk, "%d,%d" % (start, end - start)))
                        older.append(("-", "%d,0" % (2 * r.randrange(end)), sk, "%d,%d" % (start, end - start)))
        r.shuffle(older)
        reqs += older[:(250 if tier == "quick" else len(older))]
    for (b, h, s, u) in reqs:
        res.count("hostile-request")
        ia, ma = w.prove(b, h, s, u)
        res.count("prove-result:" + ("crash" if klass(ia) == "crash" else ia.split(" ")[0] + ("" if ia.startswith("ok") else " " + ia.split(" ")[1])))
        if klass(ia) == "crash":
            found.append(dict(key="prove:crash", what="create_proof(block=%s hash=%s seek=%s upgrade=%s) on a %d-block core -> %s" % (b, h, s, u, n, ia[:140]),
                              replay=dict(blocks=nblocks, clears=clears, request=[b, h, s, u])))
            # the harness dropped the core: reopen it
            pair.raw("drop W")
            pair.do("open W D")
            if len(found) >= 3:
                return found
            continue
        ib, _ = pair.do("info W")
        if not ib.startswith("ok %d " % n):
            found.append(dict(key="prove:unusable", what="core unusable after request: " + ib, replay=dict(request=[b, h, s, u])))
            return found
    # arbitrary proofs against the (empty or partially synced) replica
    for _ in range(60 if tier == "quick" else 1500):
        q = arbitrary_proof(r, n)
        res.count("arbitrary-proof")
        aa, _ = pair.do("apply R " + proof_text(q))
        if klass(aa) == "crash":
            found.append(dict(key="apply:crash", what="verify_and_apply_proof(arbitrary proof) -> %s" % aa[:140],
                              replay=dict(blocks=nblocks, proof=proof_text(q)[:1500])))
            pair.raw("drop R")
            pair.do("open R RD")
            if len(found) >= 3:
                return found
        elif aa == "ok 1":
            res.count("arbitrary-accepted")
    # "after such a call the core is still usable": whatever the proofs above left in memory is written out by the next checkpoint
    ic, _ = pair.do("readonly R")
    if klass(ic) == "crash":
        found.append(dict(key="apply:unusable-checkpoint", what="after the arbitrary proofs the next checkpoint of the replica (make_read_only) -> %s" % ic[:160],
                          replay=dict(blocks=nblocks, world=w.log[-40:])))
    return found


def main(tier, seed):
    res = Result("C09", tier, seed)
    res.gate = coq_gate("C09.v", clean=(tier == "thorough"))
    build_harness(); build_model()
    r = random.Random(seed)
    pair = Pair()
    try:
        shapes = [(0, []), (1, []), (8, []), (21, []), (5, [(1, 3)]), (13, [(0, 1), (12, 13)])]
        if tier == "thorough":
            shapes += [(2, []), (3, []), (16, []), (17, [(4, 9)]), (64, []), (100, [(10, 20)])]
        for nb, cl in shapes:
            vs = hostile_world(pair, r, res, tier, nb, cl)
            res.add_case(("hostile", nb, tuple(cl)), True, sample=dict(blocks=nb, clears=cl))
            res.violations.extend(vs)
            res.disagreements.extend(pair.disagreements[:2]); pair.disagreements = []
        # altered honest proofs on partially synced replicas (shared with C04), crash oracle only
        for k in range(8 if tier == "quick" else 160):
            # (biased towards hash and seek sections: there BOTH nodes of a sibling pair come from the peer)
            vs = c04.run_world(pair, r, res, tier, crash_only=True,
                               kinds=["hash", "seek", "hash", "seek", "block", "block+seek", "upgrade"] if k % 2 == 0 else None)
            res.add_case(("altered", k), True)
            res.violations.extend(vs)
            res.disagreements.extend(pair.disagreements[:2]); pair.disagreements = []
        res.extra["commands_compared"] = pair.ncmp
    finally:
        pair.close()
    return res.finish(
        "theorems of coq/props/C09.v (the model's proof creation / verification return a value or an error, with explicit "
        "Panic/OutOfFuel outcomes at every overflow, index and loop site); hostile request tuples, arbitrary and altered "
        "proofs run under catch_unwind + watchdog in a build with overflow checks",
        "boundary request tuples x core shapes, arbitrary proofs, C04 alteration set; every request/proof is a case")


if __name__ == "__main__":
    sys.exit(main(sys.argv[1], seed_from_env()))

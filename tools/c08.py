"""C08 — has() and contiguous_length are exact for large, sparse and reopened cores."""
from repl import *
from crash import check_recovery


def has_sweep(pair, core, spec_held, length, res, label, extra=()):
    """has(i) on every index below length plus boundary indices of each following page"""
    p = pair
    idx = list(range(length))
    for pg in range(length // 32768, length // 32768 + 3):
        for d in (-1, 0, 1, 8191, 8192, 32767):
            j = pg * 32768 + d
            if j >= length:
                idx.append(j)
    idx += [length, length + 1, 40960, 65536, 2 ** 32, 2 ** 40] + list(extra)
    for i in idx:
        ia, ma = p.impl.cmd("has %s %d" % (core, i)), p.model.cmd("has %s %d" % (core, i))
        p.ncmp += 1
        exp = "ok 1" if spec_held(i) else "ok 0"
        if ia != exp:
            raise Violation("has:exact", "%s: has(%d) = %s, but the block is %sheld (length %d)" %
                            (label, i, ia, "" if spec_held(i) else "not ", length), label)
        if ma != ia:
            p.disagreements.append(dict(cmd="has %s %d" % (core, i), impl=ia, model=ma))
    res.count("has-probes", len(idx))


def contig_check(pair, core, spec_held, length, label):
    ia, _ = pair.do("info " + core)
    c = 0
    while c < length and spec_held(c):
        c += 1
    got = int(ia.split(" ")[3])
    if got != c:
        raise Violation("contiguous:exact", "%s: contiguous_length = %d, the smallest missing index is %d" % (label, got, c), label)


def big_writer(pair, res, sizes, r):
    p = pair
    p.reset(); p.raw("disk D"); p.do("new W D writer")
    spec = ListSpec()
    steps = []
    n1, n2 = sizes[0], sizes[1]
    steps.append(("append", n1)); steps.append(("reopen",)); steps.append(("clear", 8190, 8195)); steps.append(("reopen",))
    steps.append(("append", n2)); steps.append(("clear", 32760, 32780)); steps.append(("clear", 100, 101)); steps.append(("reopen",))
    for n3 in sizes[2:]:
        steps.append(("append", n3)); steps.append(("clear", 65530, 65540)); steps.append(("reopen",))
    for k, st in enumerate(steps):
        label = "big writer step %d %s" % (k, st)
        if st[0] == "append":
            blocks = [bytes([r.randrange(256)])] * st[1]
            spec.blocks.extend(blocks)
            ia, _ = p.do("append W " + " ".join(hexb(b) for b in blocks))
            if ia != "ok %d %d" % (spec.length, spec.byte_length):
                raise Violation("append:result", label + " answered " + ia[:80], label)
        elif st[0] == "clear":
            if st[1] >= spec.length:
                continue
            for i in range(st[1], min(st[2], spec.length)):
                spec.cleared.add(i)
            ia, _ = p.do("clear W %d %d" % (st[1], st[2]))
            if ia != "ok":
                raise Violation("clear:result", label + " answered " + ia[:80], label)
        else:
            p.raw("drop W")
            ia, _ = p.do("open W D")
            if ia != "ok":
                raise Violation("reopen:result", label + " answered " + ia[:80], label)
        has_sweep(p, "W", spec.held, spec.length, res, label)
        contig_check(p, "W", spec.held, spec.length, label)
        res.count("big-writer-steps")
    # a crash in the middle of the flush of one more large append (half of the page/node writes missing):
    # the oplog entry is durable, so the recovered core must show the appended state exactly
    n0, _ = parse_journal(p.impl.cmd("journal D 0"))
    blocks = [b"\x07"] * 3000
    spec.blocks.extend(blocks)
    p.do("append W " + " ".join(hexb(b) for b in blocks))
    n1, ops = parse_journal(p.impl.cmd("journal D %d" % n0))
    grp = [i for i, o in enumerate(ops) if o.startswith("w:t:") or o.startswith("w:b:")]
    if grp:
        cut = n0 + grp[len(grp) // 2]
        lab = "crash at journal cut %d (inside the flush group %d..%d) on the big core" % (cut, n0 + grp[0], n0 + grp[-1])
        p.raw("fork X D %d" % cut)
        p.core_disk["X"] = "X"; p.jpos["X"] = cut
        ia, _ = p.do("open X X")
        if ia != "ok":
            raise Violation("recover:open-failed", lab + ": " + ia[:100], lab)
        has_sweep(p, "X", spec.held, spec.length, res, lab)
        contig_check(p, "X", spec.held, spec.length, lab)
        res.count("big-core-crash-recoveries")
    return spec


def word_clears(pair, res, r, rounds):
    """clears whose range spans several 32-block words of one page, over words that are partly or wholly cleared
    already (so that only the MIDDLE of the range changes anything), with the flush cadence and reopens in between:
    has() on every index and the contiguous length after every step"""
    p = pair
    for rd in range(rounds):
        p.reset(); p.raw("disk D"); p.do("new W D writer")
        spec = ListSpec()
        n = r.choice([130, 200, 333, 520])
        steps = [("append", n)]
        for _ in range(r.choice([2, 3, 4])):
            w0 = r.randrange(0, n // 32 - 2)
            w1 = r.randrange(w0 + 2, n // 32 + 1)
            # empty the edge words first (whole words, or the part inside the later range), then the wide range
            lo = w0 * 32 + r.choice([0, 0, 5]); hi = min(n, w1 * 32 + r.choice([32, 32, 20]))
            pre = [("clear", lo, (w0 + 1) * 32), ("clear", w1 * 32, hi)]
            r.shuffle(pre)
            steps += pre
            if r.random() < 0.5:
                steps.append(("reopen",))
            steps.append(("clear", lo, hi))
            for _ in range(r.choice([0, 1, 3, 4])):
                steps.append(("clear", n - 1, n))     # further mutating calls: the flush cadence moves on
            steps.append(("reopen",))
        for k, st in enumerate(steps):
            label = "word clears round %d step %d %s of %s" % (rd, k, st, steps)
            if st[0] == "append":
                blocks = [bytes([r.randrange(256)])] * st[1]
                spec.blocks.extend(blocks)
                ia, _ = p.do("append W " + " ".join(hexb(b) for b in blocks))
            elif st[0] == "clear":
                if st[1] >= spec.length or st[1] >= st[2]:
                    continue
                for i in range(st[1], min(st[2], spec.length)):
                    spec.cleared.add(i)
                ia, _ = p.do("clear W %d %d" % (st[1], st[2]))
                if ia != "ok":
                    raise Violation("clear:result", label + " answered " + ia[:80], label)
            else:
                p.raw("drop W")
                ia, _ = p.do("open W D")
                if ia != "ok":
                    raise Violation("reopen:result", label + " answered " + ia[:80], label)
            has_sweep(p, "W", spec.held, spec.length, res, label)
            contig_check(p, "W", spec.held, spec.length, label)
            res.count("word-clear-steps")


def sparse_replica(pair, res, n, r):
    w = World(pair)
    w.w_append([bytes([i % 251]) for i in range(n)])
    wanted = [0, 1, 8191, 8192, 32767, 32768, n - 1, n // 2]
    first = True
    for i in wanted:
        up = "-"
        if first:
            up = "0,%d" % n
        nodes = w.missing(i)
        ia, _ = w.prove("%d,%d" % (i, nodes), "-", "-", up)
        if not ia.startswith("ok ") or ia == "ok none":
            raise Violation("prove", "honest request for block %d answered %s" % (i, ia[:80]), i)
        aa, _ = w.apply(ia[3:])
        if aa != "ok 1":
            raise Violation("accept", "honest proof for block %d answered %s" % (i, aa[:80]), i)
        w.note_applied(parse_proof(ia[3:]))
        first = False
        res.count("sparse-replica-blocks")
    for rnd in range(2):
        held = lambda i: i in w.rheld
        idx = []
        for i in wanted:
            idx += [i - 1, i, i + 1]
        idx += [32768 * k + d for k in range(0, n // 32768 + 3) for d in (-1, 0, 1)]
        for i in sorted(set(x for x in idx if x >= 0)):
            ia, ma = pair.do("has R %d" % i)
            exp = "ok 1" if held(i) else "ok 0"
            if ia != exp:
                raise Violation("has:exact", "sparse replica%s: has(%d) = %s, expected %s" % (" after reopen" if rnd else "", i, ia, exp), i)
        contig_check(pair, "R", held, n, "sparse replica%s" % (" after reopen" if rnd else ""))
        ia = w.r_reopen()
        if ia != "ok":
            raise Violation("replica:reopen", "reopen answered " + ia[:80], "reopen")


def full_page_writer(pair, res, r):
    """a writer whose last allocated bitfield page is completely full (length = 32768): clear one block and
    fetch it back by a proof; the contiguous length must return to the length (the skip over set bits has to
    cross the end of a full page)"""
    p = pair
    p.reset(); p.raw("disk D"); p.do("new W D writer")
    n = 32768
    blocks = [bytes([i % 250 + 1]) for i in range(n)]
    ia, _ = p.do("append W " + " ".join(hexb(b) for b in blocks))
    if ia != "ok %d %d" % (n, n):
        raise Violation("append:result", "append of %d blocks answered %s" % (n, ia[:60]), "full-page")
    held = lambda i: i < n
    contig_check(p, "W", held, n, "full page writer")
    pa, _ = p.do("prove W 5,0 - - -")
    p.do("clear W 5 6")
    contig_check(p, "W", lambda i: i < n and i != 5, n, "full page writer after clear(5,6)")
    if pa.startswith("ok ") and pa != "ok none":
        aa, _ = p.do("apply W " + pa[3:])
        if aa != "ok 1":
            raise Violation("accept", "re-fetching the cleared block answered " + aa[:80], "full-page")
        contig_check(p, "W", held, n, "full page writer after re-fetching block 5")
        for i in (4, 5, 6, n - 1, n, n + 1, 2 * n):
            a, _ = p.do("has W %d" % i)
            if a != ("ok 1" if held(i) else "ok 0"):
                raise Violation("has:exact", "full page writer: has(%d) = %s" % (i, a), i)
        p.raw("drop W"); p.do("open W D")
        contig_check(p, "W", held, n, "full page writer after re-fetch and reopen")
    res.count("full-page-writer")


def high_only_replica(pair, res, n, r):
    """a replica that holds blocks only beyond the first bitfield page, then clears a range that starts on the
    (never allocated) first page and ends on the second"""
    w = World(pair)
    w.w_append([bytes([i % 251]) for i in range(n)])
    first = True
    for i in (33000, n - 1):
        nodes = w.missing(i)
        ia, _ = w.prove("%d,%d" % (i, nodes), "-", "-", "0,%d" % n if first else "-")
        aa, _ = w.apply(ia[3:])
        if aa != "ok 1":
            raise Violation("accept", "honest proof for block %d answered %s" % (i, aa[:80]), i)
        w.note_applied(parse_proof(ia[3:]))
        first = False
    ia, _ = pair.do("clear R 32000 33500")
    if ia != "ok":
        raise Violation("clear:result", "clear(32000,33500) on the replica answered " + ia[:80], "clear")
    w.rheld.pop(33000, None)
    for rnd in range(2):
        held = lambda i: i in w.rheld
        for i in (0, 31999, 32000, 32767, 32768, 32999, 33000, 33001, 33499, 33500, n - 1, n):
            a, _ = pair.do("has R %d" % i)
            if a != ("ok 1" if held(i) else "ok 0"):
                raise Violation("has:exact", "high-only replica%s: has(%d) = %s after clear(32000,33500)" % (" after reopen" if rnd else "", i, a), i)
        contig_check(pair, "R", held, n, "high-only replica")
        w.r_reopen()
    res.count("high-only-replica")


def main(tier, seed):
    res = Result("C08", tier, seed)
    res.gate = coq_gate("C08.v", clean=(tier == "thorough"))
    build_harness(); build_model()
    r = random.Random(seed)
    pair = Pair()
    try:
        # the crate's FixedBitfield / DynamicBitfield themselves (crate-private, reached through the verif-hooks feature) against the
        # word-level model FixedWords.v and against the set-of-indices specification, on random operation scripts
        import bwx
        for v in bwx.crosscheck(pair.impl, pair.model, res, r, tier, klass):
            res.violations.append(v)
        res.add_case(("bitfield-word-scripts",), True, sample="bwx <random get/set/set_range/index_of/last_index_of/to_bytes/from_data/open/flush script>: "
                     "FixedBitfield and DynamicBitfield of the crate vs FixedWords.v vs the set-of-indices specification")
        cases = [("big-writer", lambda: big_writer(pair, res, [9000, 25000] if tier == "quick" else [9000, 25000, 33000], r)),
                 ("sparse-replica", lambda: sparse_replica(pair, res, 34000 if tier == "quick" else 70000, r)),
                 ("full-page-writer", lambda: full_page_writer(pair, res, r)),
                 ("word-clears", lambda: word_clears(pair, res, r, 4 if tier == "quick" else 60)),
                 ("high-only-replica", lambda: high_only_replica(pair, res, 34000, r))]
        for name, f in cases:
            try:
                f()
            except Violation as v:
                res.violations.append(dict(key=v.key, what=v.what, replay=dict(case=name, at=str(v.at))))
            res.add_case((name,), True, sample=name)
            res.disagreements.extend(pair.disagreements[:3]); pair.disagreements = []
        # small histories with clears/reopens: contiguous length against the definition after every step
        for k in range(40 if tier == "quick" else 1500):
            h = random_history(r, r.choice([5, 9, 14]), reopen_p=0.2, clear_p=0.3)
            v, _ = find_violation(pair, h, probe="light")
            res.add_case(tuple(op_text(o) for o in h), True, sample=[op_text(o) for o in h][:8] if k % 13 == 0 else None)
            if v:
                res.violations.append(dict(key=v.key, what=v.what, replay=dict(history=[op_json(o) for o in h])))
            res.disagreements.extend(pair.disagreements[:2]); pair.disagreements = []
            if len(res.violations) >= 4:
                break
        res.extra["commands_compared"] = pair.ncmp
    finally:
        pair.close()
    return res.finish(
        "theorems of coq/props/C08.v (bitfield get/set_range specification for unbounded indices, contiguous length invariant under "
        "set/drop and replay); large cores crossing 8192/32768(/65536 in the thorough tier) blocks, page-straddling clears, a replica "
        "holding blocks pages apart, reopen and crash recovery; has() probed on every index below the length and on page boundaries",
        "one large writer history, one sparse replica, random small histories with clears and reopens")


if __name__ == "__main__":
    sys.exit(main(sys.argv[1], seed_from_env()))

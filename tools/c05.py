"""C05 — Merkle tree, root hash and signature match an independent reference."""
from hist import *
import jsfmt
from repl import parse_proof


def check_core(pair, blocks, res, label):
    """compares everything persisted (tree store + unflushed entries + header) and everything served in proofs
    with the reference tree computed from the blocks"""
    p = pair
    ref = jsfmt.RefTree(blocks)
    L = len(blocks)
    want = ref.all_nodes(L)
    fi = p.impl.cmd("files D")
    tree, data, bitf, oplog = jsfmt.parse_files(fi)
    st = jsfmt.read_storage(tree, data, bitf, oplog)
    if st is None:
        raise Violation("ref:storage", "%s: storage unreadable by the reference reader" % label, label)
    for idx, (size, h) in st["nodes"].items():
        res.count("nodes-compared")
        w = want.get(idx)
        if w is None:
            raise Violation("ref:extra-node", "%s: persisted node %d is not a node of a %d-block tree" % (label, idx, L), label)
        if (size, h) != (w[1], w[2]):
            raise Violation("ref:node", "%s: node %d persisted as (size %d, hash %s..) but the v10 scheme prescribes (size %d, hash %s..)" %
                            (label, idx, size, h.hex()[:16], w[1], w[2].hex()[:16]), label)
    missing = [i for i in want if i not in st["nodes"]]
    if missing:
        raise Violation("ref:missing-node", "%s: nodes %s of the tree are neither in the tree store nor in the oplog" % (label, missing[:6]), label)
    if st["length"] != L:
        raise Violation("ref:length", "%s: stored length %d != %d" % (label, st["length"], L), label)
    if L > 0:
        roots = ref.roots(L)
        rh = jsfmt.tree_hash(roots)
        # header (after replaying entries the last upgrade entry carries the signature)
        sig = st["header"]["signature"]; hlen = st["header"]["length"]; hroot = st["header"]["root_hash"]
        ups = [e["upgrade"] for e in st["entries"] if e["upgrade"]]
        if hlen > 0:
            hr = jsfmt.tree_hash(ref.roots(hlen))
            if hroot != hr:
                raise Violation("ref:root-hash", "%s: header root hash for length %d is %s.., reference %s.." % (label, hlen, hroot.hex()[:16], hr.hex()[:16]), label)
            a = p.impl.cmd("prim verify main %s %s" % (jsfmt.signable(hr, hlen).hex(), sig.hex() or "_"))
            if a != "ok 1":
                raise Violation("ref:signature", "%s: stored signature does not verify over (tree namespace, root hash, length %d, fork 0)" % (label, hlen), label)
        for (fork, anc, ln, sg) in ups:
            a = p.impl.cmd("prim verify main %s %s" % (jsfmt.signable(jsfmt.tree_hash(ref.roots(ln)), ln, fork).hex(), sg.hex() or "_"))
            res.count("signatures-verified")
            if a != "ok 1":
                raise Violation("ref:signature", "%s: entry signature for length %d does not verify" % (label, ln), label)
        # proofs: every node served must be the reference node; signature valid for the head
        reqs = ["%d,0 - - 0,%d" % (L - 1, L), "- - - 0,%d" % L, "0,0 - - -" if L >= 1 else None,
                "%d,0 - - %d,%d" % (L // 2, L // 2, L - L // 2) if L >= 2 else None,
                "- %d,0 - -" % (roots[0][0])]
        for rq in reqs:
            if rq is None:
                continue
            ia, _ = p.do("prove W " + rq)
            if not ia.startswith("ok ") or ia == "ok none":
                continue
            pr = parse_proof(ia[3:])
            for sec in ("block", "hash", "seek", "upgrade"):
                if pr[sec] is None:
                    continue
                for ln_ in ("nodes", "additional"):
                    for (i, s, h) in pr[sec].get(ln_, []):
                        res.count("proof-nodes-compared")
                        w = want.get(i)
                        if w is None or (s, bytes.fromhex(h)) != (w[1], w[2]):
                            raise Violation("ref:proof-node", "%s: proof for %s serves node %d = (size %d, %s..), reference %s" %
                                            (label, rq, i, s, h[:16], w and (w[1], w[2].hex()[:16])), label)
            if pr["upgrade"] is not None:
                a = p.impl.cmd("prim verify main %s %s" % (jsfmt.signable(rh, L).hex(), pr["upgrade"]["signature"]))
                if a != "ok 1":
                    raise Violation("ref:proof-signature", "%s: signature served in proof %s does not verify for the head" % (label, rq), label)


def run_case(pair, ops, res):
    p = pair
    p.reset(); p.raw("disk D")
    ia, _ = p.do("new W D writer")
    blocks = []
    try:
        for k, op in enumerate(ops):
            if op[0] == "append":
                blocks.extend(op[1])
                ia, _ = p.do("append W " + " ".join(hexb(b) for b in op[1]))
                if not ia.startswith("ok "):
                    raise Violation("append:result", "append answered " + ia[:100], k)
            elif op[0] == "reopen":
                p.raw("drop W")
                ia, _ = p.do("open W D")
                if ia != "ok":
                    raise Violation("reopen:result", "reopen answered " + ia[:100], k)
            elif op[0] == "rebuild":
                # "create or open": the plain builder (open = false) WITH some key pair over storage that already holds
                # the core: the stored key pair wins, and everything signed afterwards is signed by the core's key
                p.raw("drop W")
                ia, _ = p.do("new W D " + op[1])
                if ia != "ok":
                    raise Violation("rebuild:result", "builder over existing storage (key pair role %s) answered %s" % (op[1], ia[:100]), k)
                ib, _ = p.do("keypair W")
                pk = p.impl.cmd("prim pub main").split(" ")[1]
                if ib != "ok %s 1" % pk:
                    raise Violation("rebuild:keypair", "builder over existing storage (key pair role %s): the core's key pair is %s, "
                                    "the stored one is %s with its secret key" % (op[1], ib, pk[:16]), k)
            elif op[0] == "clear":
                # a call that rewrites the header WITHOUT signing anything: the stored signature must still be the head's
                if op[1] < len(blocks):
                    ia, _ = p.do("clear W %d %d" % (op[1], op[2]))
                    if ia != "ok":
                        raise Violation("clear:result", "clear answered " + ia[:100], k)
            elif op[0] == "readonly":
                ia, _ = p.do("readonly W")
                if not ia.startswith("ok"):
                    raise Violation("readonly:result", "make_read_only answered " + ia[:100], k)
            check_core(p, blocks, res, "after step %d %s (%d blocks)" % (k, op_text(op), len(blocks)))
    except Violation as v:
        return dict(key=v.key, what=v.what, replay=dict(history=[op_json(o) for o in ops], failing_step=v.at))
    return None


def gen(r, tier):
    cases = []
    # lengths crossing powers of two with every batching
    for L in ([1, 2, 3, 4, 5, 7, 8, 9, 15, 16, 17, 31, 33] if tier == "quick" else list(range(1, 131))):
        ops, left = [], L
        while left > 0:
            k = min(left, r.choice([1, 1, 2, 3, 4, 8]))
            ops.append(("append", [rnd_block(r) for _ in range(k)]))
            left -= k
            if r.random() < 0.25:
                ops.append(("reopen",))
        cases.append(ops)
    # pending upgrade entries replayed by a reopen, then calls that rewrite the header without signing (clear,
    # make_read_only), then reopen: signature and root hash in the header must still be the head's
    for _ in range(12 if tier == "quick" else 300):
        ops = []
        for _ in range(r.choice([1, 2, 3])):
            ops.append(("append", [rnd_block(r) for _ in range(r.choice([1, 1, 2, 3]))]))
        ops.append(("reopen",))
        tail = r.choice([[("clear", 0, 1)], [("readonly",)], [("clear", 0, 1), ("clear", 1, 2)], [("clear", 0, 1), ("readonly",)]])
        ops += tail + [("reopen",)]
        if tail[-1][0] != "readonly" and r.random() < 0.5:
            ops += [("append", [rnd_block(r)]), ("reopen",)]
        cases.append(ops)
    # the builder without open mode over existing storage, with the same, another or a public-only key pair
    for k in range(6 if tier == "quick" else 90):
        ops = [("append", [rnd_block(r) for _ in range(r.choice([1, 2, 3]))]) for _ in range(r.choice([1, 2, 5]))]
        ops.append(("rebuild", ["altwriter", "writer", "replica", "altreplica"][k % 4]))
        ops += [("append", [rnd_block(r) for _ in range(r.choice([1, 2]))]) for _ in range(r.choice([1, 2, 4]))]
        ops += [("reopen",), ("append", [rnd_block(r)])]
        cases.append(ops)
    for _ in range(3 if tier == "quick" else 40):
        n = r.choice([40, 64, 65, 100, 129]) if tier == "quick" else r.choice([257, 300, 512, 1025, 2000])
        cases.append([("append", [rnd_block(r) for _ in range(n // 2)]), ("reopen",),
                      ("append", [rnd_block(r) for _ in range(n - n // 2)])])
    # one batch so long that more than 1638 consecutive tree nodes (65536 bytes of the tree store) are flushed at once
    cases.append([("append", [rnd_block(r) for _ in range(3)]), ("append", [bytes([66 + i % 7]) * (i % 3) for i in range(900 if tier == "quick" else 2600)]),
                  ("reopen",), ("append", [rnd_block(r)])])
    return cases


def ft_crosscheck(pair, res, r, tier):
    """FlatTree.v (model of the dependency crate flat-tree 6.0.0) against the crate itself: the numbering the
    theorems of C05 are stated in. Boundary and random arguments; iterator walks of random commands."""
    vals = [0, 1, 2, 3, 4, 5, 6, 7, 8, 14, 15, 16, 30, 31, 32, 62, 63, 64, 126, 127, 2 ** 20 - 2, 2 ** 20 - 1, 2 ** 20,
            2 ** 32 - 1, 2 ** 32, 2 ** 40 - 1, 2 ** 40, 2 ** 41 - 2, 2 ** 50 - 1, 2 ** 50 + 2]
    vals += [r.randrange(2 ** r.choice([6, 12, 24, 41, 50])) for _ in range(60 if tier == "quick" else 3000)]
    n = 0
    for v in vals:
        for fn in ("depth", "offset", "parent", "sibling", "left_span", "right_span"):
            pair.raw("ft %s %d" % (fn, v)); n += 1
        pair.raw("ft full_roots %d" % (2 * (v % 2 ** 45))); n += 1
    for d in list(range(0, 12)) + [20, 31, 40]:
        for o in [0, 1, 2, 3, 7, 8, 1000, 2 ** 15 - 1] + [r.randrange(2 ** 15) for _ in range(3)]:
            pair.raw("ft index %d %d" % (d, o)); n += 1
    walks = 150 if tier == "quick" else 6000
    for _ in range(walks):
        start = r.randrange(2 ** r.choice([4, 8, 16, 40]))
        cmds, depth_budget = [], 14
        for _ in range(r.randrange(1, 14)):
            c = r.choice(["parent", "parent", "sibling", "left_child", "right_child", "next_tree", "is_right",
                          "full_root", "seek", "contains"])
            if c == "parent":
                depth_budget -= 1
                if depth_budget <= 0:
                    continue
            if c == "full_root":
                # the crate's full_root is meant for an iterator at an even index (the crate returns false otherwise)
                c = "full_root=%d" % (2 * r.randrange(2 ** r.choice([3, 6, 12, 30])))
            elif c == "seek":
                c = "seek=%d" % r.randrange(2 ** r.choice([4, 8, 16, 40]))
            elif c == "contains":
                c = "contains=%d" % r.randrange(2 ** r.choice([4, 8, 16, 41]))
            cmds.append(c)
        if cmds:
            pair.raw("ft iter %d %s" % (start, " ".join(cmds))); n += 1
    res.count("flat-tree-commands-compared", n)
    res.disagreements.extend(pair.disagreements[:3]); pair.disagreements = []


def main(tier, seed):
    res = Result("C05", tier, seed)
    res.gate = coq_gate("C05.v", clean=(tier == "thorough"))
    build_harness(); build_model()
    r = random.Random(seed)
    pair = Pair()
    try:
        ft_crosscheck(pair, res, r, tier)
        for k, ops in enumerate(gen(r, tier)):
            v = run_case(pair, ops, res)
            res.add_case(tuple(op_text(o) for o in ops), True, sample=[op_text(o) for o in ops][:8] if k % 9 == 0 else None)
            if v:
                res.violations.append(v)
                if len(res.violations) >= 4:
                    break
            res.disagreements.extend(pair.disagreements[:2]); pair.disagreements = []
        res.extra["commands_compared"] = pair.ncmp
    finally:
        pair.close()
    return res.finish(
        "theorems of coq/props/C05.v; every node in the tree store, in oplog entries and in served proofs, the header "
        "root hash and every stored/served signature are compared with a reference computed by structural recursion "
        "from the blocks (python hashlib BLAKE2b, signature check by ed25519-dalek called directly)",
        "block sequences with lengths crossing powers of two, random batching and reopen steps")


if __name__ == "__main__":
    sys.exit(main(sys.argv[1], seed_from_env()))

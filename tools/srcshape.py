"""srcshape — source-derived input of the C15 theorems: for every trait method of SharedCore, is its body a single
critical section of the mutex? Regenerated into coq/SharedShape.v by every check run (hclib.coq_gate)."""
import os, re
REPO = "/repo"
COQ = os.path.join(os.path.dirname(os.path.dirname(os.path.abspath(__file__))), "coq")


def _match_brace(src, i):
    """src[i] == '{' -> index of the matching '}'"""
    depth = 0
    for j in range(i, len(src)):
        if src[j] == "{":
            depth += 1
        elif src[j] == "}":
            depth -= 1
            if depth == 0:
                return j
    raise ValueError("unbalanced")


def shared_shape():
    """source-derived: for every trait method of SharedCore, is its body a single critical section
    `async move { let [mut] core = [&]self.0.lock().await; <one expression using core> }` (or the
    one-expression form `self.0.lock().await.method()`) ?"""
    src = open(os.path.join(REPO, "src", "replication", "shared_core.rs")).read()
    src = src.split("#[cfg(test)]")[0]
    out = []
    for im in re.finditer(r"impl\s+(\w+)\s+for\s+SharedCore\s*\{", src):
        end = _match_brace(src, im.end() - 1)
        block = src[im.end():end]
        pos = 0
        while True:
            fm = re.search(r"\bfn\s+(\w+)", block[pos:])
            if not fm:
                break
            name = fm.group(1)
            # the signature ends at the first '{' that is not inside <...> or (...): find "async move" after it
            sig_start = pos + fm.end()
            am = re.search(r"\{\s*async move\s*\{", block[sig_start:])
            if not am:
                pos = sig_start
                continue
            body_open = sig_start + am.end() - 1
            body_close = _match_brace(block, body_open)
            body = block[body_open + 1:body_close]
            fn_close = _match_brace(block, sig_start + am.start())
            stmts = [x.strip() for x in body.strip().split(";") if x.strip()]
            locks = len(re.findall(r"\.lock\(\)", body))
            atomic = False
            if locks == 1:
                if len(stmts) == 2 and re.match(r"let\s+(mut\s+)?core\s*=\s*&?\s*(mut\s+)?self\.0\.lock\(\)\.await$", stmts[0]) \
                        and ".await" not in stmts[1].replace("core.", "", 1).split(".await")[0] \
                        and stmts[1].count(".await") <= 1 and "self.0" not in stmts[1]:
                    atomic = True
                elif len(stmts) == 1 and re.match(r"self\.0\.lock\(\)\.await\.\w+\(\)$", stmts[0]):
                    atomic = True
            out.append((name, atomic, locks))
            pos = fn_close + 1
    return out


def write_shape_v(shape):
    path = os.path.join(COQ, "SharedShape.v")
    body = "(* generated on every run by tools/c15.py from /repo/src/replication/shared_core.rs *)\n" \
           "From Coq Require Import List String Bool.\nImport ListNotations.\nLocal Open Scope string_scope.\n" \
           "Definition shared_shape : list (string * bool) :=\n  [" + \
           ";\n   ".join('("%s", %s)' % (n, "true" if a else "false") for (n, a, _) in shape) + "].\n"
    old = open(path).read() if os.path.exists(path) else None
    if old != body:
        open(path, "w").write(body)



"""repl — replication worlds: a writer, a replica, honest requests, altered proofs, hostile requests."""
from hist import *


# ---------- proof text <-> structure ----------

def parse_nodes(s):
    if s == "_":
        return []
    out = []
    for n in s.split("+"):
        i, l, h = n.split(".")
        out.append([int(i), int(l), h])
    return out


def nodes_text(ns):
    return "_" if not ns else "+".join("%d.%d.%s" % (n[0], n[1], n[2]) for n in ns)


def parse_proof(text):
    f, b, h, s, u = text.split(" ")
    p = dict(fork=int(f), block=None, hash=None, seek=None, upgrade=None)
    if b != "-":
        i, v, ns = b.split("/")
        p["block"] = dict(index=int(i), value=v, nodes=parse_nodes(ns))
    if h != "-":
        i, ns = h.split("/")
        p["hash"] = dict(index=int(i), nodes=parse_nodes(ns))
    if s != "-":
        i, ns = s.split("/")
        p["seek"] = dict(bytes=int(i), nodes=parse_nodes(ns))
    if u != "-":
        st, l, ns, an, sg = u.split("/")
        p["upgrade"] = dict(start=int(st), length=int(l), nodes=parse_nodes(ns), additional=parse_nodes(an), signature=sg)
    return p


def proof_text(p):
    b = "-" if p["block"] is None else "%d/%s/%s" % (p["block"]["index"], p["block"]["value"], nodes_text(p["block"]["nodes"]))
    h = "-" if p["hash"] is None else "%d/%s" % (p["hash"]["index"], nodes_text(p["hash"]["nodes"]))
    s = "-" if p["seek"] is None else "%d/%s" % (p["seek"]["bytes"], nodes_text(p["seek"]["nodes"]))
    u = "-" if p["upgrade"] is None else "%d/%d/%s/%s/%s" % (
        p["upgrade"]["start"], p["upgrade"]["length"], nodes_text(p["upgrade"]["nodes"]),
        nodes_text(p["upgrade"]["additional"]), p["upgrade"]["signature"])
    return "%d %s %s %s %s" % (p["fork"], b, h, s, u)


import copy


def flip_hex(h, r):
    if h == "_":
        return "00"
    b = bytearray(bytes.fromhex(h))
    k = r.randrange(len(b))
    b[k] ^= 1 << r.randrange(8)
    return bytes(b).hex()


def alterations(p, r, limit=None):
    """single-field alterations of an honest proof: list of (label, altered proof, size_only) where
    size_only marks alterations of a node-size field that the scheme authenticates only in sum"""
    out = []

    def add(label, q, size_only=False):
        out.append((label, q, size_only))
    q = copy.deepcopy(p); q["fork"] += 1; add("fork+1", q)
    secs = [k for k in ("block", "hash", "seek", "upgrade") if p[k] is not None]
    for sec in secs:
        if len(secs) > 1 or True:
            q = copy.deepcopy(p); q[sec] = None; add("drop-section:" + sec, q)
        lists = ["nodes"] + (["additional"] if sec == "upgrade" else [])
        for ln in lists:
            ns = p[sec][ln]
            for k in range(len(ns)):
                q = copy.deepcopy(p); q[sec][ln][k][2] = flip_hex(ns[k][2], r); add("%s.%s[%d].hash-flip" % (sec, ln, k), q)
                for d in (1, -1):
                    if ns[k][0] + d >= 0:
                        q = copy.deepcopy(p); q[sec][ln][k][0] += d; add("%s.%s[%d].index%+d" % (sec, ln, k, d), q)
                    if ns[k][1] + d >= 0:
                        # bottom node (k == 0) of a hash-only or seek section, and its sibling (k == 1):
                        # the scheme authenticates only the sum of their sizes
                        so = (sec in ("hash", "seek")) and k <= 1
                        q = copy.deepcopy(p); q[sec][ln][k][1] += d; add("%s.%s[%d].size%+d" % (sec, ln, k, d), q, so)
                # node hashes of another LENGTH: one byte dropped / appended, and a byte moved between the hashes of two
                # neighbouring nodes (the parent preimage concatenates the two child hashes without a separator, so a 31 + 33 byte
                # pair hashes like the honest 32 + 32 byte pair)
                q = copy.deepcopy(p); q[sec][ln][k][2] = ns[k][2][:-2]; add("%s.%s[%d].hash-len-31" % (sec, ln, k), q)
                q = copy.deepcopy(p); q[sec][ln][k][2] = ns[k][2] + "00"; add("%s.%s[%d].hash-len-33" % (sec, ln, k), q)
                if k + 1 < len(ns):
                    q = copy.deepcopy(p); q[sec][ln][k][2] = ns[k][2][:-2]; q[sec][ln][k + 1][2] = ns[k][2][-2:] + ns[k + 1][2]
                    add("%s.%s[%d].hash-shift-31-33" % (sec, ln, k), q)
                    q = copy.deepcopy(p); q[sec][ln][k][2] = ns[k][2] + ns[k + 1][2][:2]; q[sec][ln][k + 1][2] = ns[k + 1][2][2:]
                    add("%s.%s[%d].hash-shift-33-31" % (sec, ln, k), q)
                    # ... and for the other order of the two children in the parent preimage (node k + 1 on the left)
                    q = copy.deepcopy(p); q[sec][ln][k + 1][2] = ns[k + 1][2][:-2]; q[sec][ln][k][2] = ns[k + 1][2][-2:] + ns[k][2]
                    add("%s.%s[%d].hash-shift-rev-33-31" % (sec, ln, k), q)
                    q = copy.deepcopy(p); q[sec][ln][k + 1][2] = ns[k + 1][2] + ns[k][2][:2]; q[sec][ln][k][2] = ns[k][2][2:]
                    add("%s.%s[%d].hash-shift-rev-31-33" % (sec, ln, k), q)
                q = copy.deepcopy(p); del q[sec][ln][k]; add("%s.%s[%d].drop" % (sec, ln, k), q)
                q = copy.deepcopy(p); q[sec][ln].insert(k, copy.deepcopy(ns[k])); add("%s.%s[%d].dup" % (sec, ln, k), q)
                if k + 1 < len(ns):
                    q = copy.deepcopy(p); q[sec][ln][k], q[sec][ln][k + 1] = q[sec][ln][k + 1], q[sec][ln][k]
                    add("%s.%s[%d].swap" % (sec, ln, k), q)
            q = copy.deepcopy(p); q[sec][ln].append([r.randrange(64), r.randrange(100), bytes(r.randrange(256) for _ in range(32)).hex()])
            add("%s.%s.insert" % (sec, ln), q)
        if sec == "block":
            q = copy.deepcopy(p); q[sec]["value"] = flip_hex(p[sec]["value"], r); add("block.value-flip", q)
            q = copy.deepcopy(p); q[sec]["value"] = (p[sec]["value"] if p[sec]["value"] != "_" else "") + "00"; add("block.value-extend", q)
            for d in (1, -1):
                if p[sec]["index"] + d >= 0:
                    q = copy.deepcopy(p); q[sec]["index"] += d; add("block.index%+d" % d, q)
        if sec == "hash":
            for d in (2, -2, 1):
                if p[sec]["index"] + d >= 0:
                    q = copy.deepcopy(p); q[sec]["index"] += d; add("hash.index%+d" % d, q)
        if sec == "seek":
            for d in (1, -1):
                if p[sec]["bytes"] + d >= 0:
                    q = copy.deepcopy(p); q[sec]["bytes"] += d; add("seek.bytes%+d" % d, q, True)  # informational field
        if sec == "upgrade":
            q = copy.deepcopy(p); q[sec]["signature"] = flip_hex(p[sec]["signature"], r); add("upgrade.signature-flip", q)
            q = copy.deepcopy(p); q[sec]["signature"] = p[sec]["signature"][:-2]; add("upgrade.signature-short", q)
            for f in ("start", "length"):
                for d in (1, -1):
                    if p[sec][f] + d >= 0:
                        q = copy.deepcopy(p); q[sec][f] += d; add("upgrade.%s%+d" % (f, d), q)
    if limit and len(out) > limit:
        keep = [x for x in out if "value" in x[0] or "signature" in x[0] or "fork" in x[0] or "hash-shift" in x[0]]
        rest = [x for x in out if x not in keep]
        r.shuffle(rest)
        out = keep + rest[:max(0, limit - len(keep))]
    return out


# ---------- worlds ----------

class World:
    """writer W on disk D, replica R on disk RD, driven on both sides through a Pair"""

    def __init__(self, pair, alt=False):
        self.p = pair
        self.wspec = ListSpec()
        self.rlen = 0
        self.rbytes = 0
        self.rheld = {}      # index -> bytes
        p = pair
        p.reset()
        p.raw("disk D"); p.raw("disk RD")
        ia, _ = p.do("new W D writer"); assert ia == "ok", ia
        ia, _ = p.do("new R RD replica"); assert ia == "ok", ia
        self.log = []

    def w_append(self, blocks):
        self.wspec.blocks.extend(blocks)
        ia, _ = self.p.do("append W " + " ".join(hexb(b) for b in blocks))
        self.log.append("append W %d blocks" % len(blocks))
        return ia

    def w_clear(self, s, e):
        for i in range(s, min(e, self.wspec.length)):
            self.wspec.cleared.add(i)
        ia, _ = self.p.do("clear W %d %d" % (s, e))
        self.log.append("clear W %d %d" % (s, e))
        return ia

    def r_reopen(self):
        self.p.raw("drop R")
        ia, _ = self.p.do("open R RD")
        self.log.append("reopen R")
        return ia

    def missing(self, i):
        ia, _ = self.p.do("missing R %d" % i)
        return int(ia.split(" ")[1]) if ia.startswith("ok ") else 0

    def missingt(self, j):
        ia, _ = self.p.do("missingt R %d" % j)
        return int(ia.split(" ")[1]) if ia.startswith("ok ") else 0

    def prove(self, block="-", hash_="-", seek="-", upgrade="-"):
        cmd = "prove W %s %s %s %s" % (block, hash_, seek, upgrade)
        self.log.append(cmd)
        ia, ma = self.p.do(cmd)
        return ia, ma

    def apply(self, proof_text_, compare=True):
        cmd = "apply R " + proof_text_
        self.log.append(cmd if len(cmd) < 400 else cmd[:400] + "...")
        ia, ma = self.p.do(cmd)
        return ia, ma

    def r_observe(self):
        p = self.p
        ia, _ = p.do("info R")
        obs = [ia]
        n = max(self.wspec.length, self.rlen) + 1
        for i in range(min(n, 70)):
            a, _ = p.do("has R %d" % i); b, _ = p.do("get R %d" % i)
            obs.append(a); obs.append(b)
        fi = p.impl.cmd("files RD")
        return obs, fi

    def check_replica(self, label):
        """replica invariant of C03/C04: every held block is the writer's; lengths are the ones recorded"""
        p = self.p
        ia, _ = p.do("info R")
        exp_contig = 0
        while exp_contig in self.rheld:
            exp_contig += 1
        exp = "ok %d %d %d 0 0" % (self.rlen, self.rbytes, exp_contig)
        if ia != exp:
            raise Violation("replica:info", "%s: replica info %s, expected %s" % (label, ia, exp), label)
        n = max(self.wspec.length, self.rlen) + 1
        idx = list(range(min(n, 48)))
        if n > 48:
            idx += sorted(self.rheld.keys())[-5:]
        for i in idx:
            a, _ = p.do("has R %d" % i)
            b, _ = p.do("get R %d" % i)
            if i in self.rheld:
                if a != "ok 1" or b != "ok some " + hexb(self.rheld[i]):
                    raise Violation("replica:block", "%s: replica block %d: has=%s get=%s, writer block is %s" %
                                    (label, i, a, b[:60], hexb(self.wspec.blocks[i])[:40]), label)
            else:
                if a != "ok 0" or b != "ok none":
                    raise Violation("replica:phantom", "%s: replica claims block %d it never received: has=%s get=%s" %
                                    (label, i, a, b[:60]), label)

    def note_applied(self, pr):
        """update the replica specification after an accepted honest proof"""
        if pr["upgrade"] is not None:
            self.rlen = self.wspec.length
            self.rbytes = self.wspec.byte_length
        if pr["block"] is not None:
            i = pr["block"]["index"]
            self.rheld[i] = self.wspec.blocks[i]

    def tree_nodes_below(self, length):
        """flat-tree indices of all full nodes of a tree with [length] leaves"""
        out = []
        # roots decomposition
        off = 0
        rem = length
        while rem > 0:
            f = 1
            while f * 2 <= rem:
                f *= 2
            # full subtree of f leaves starting at leaf off
            w = 1
            while w <= f:
                for s in range(off, off + f, w):
                    out.append(2 * s + w - 1)
                w *= 2
            off += f; rem -= f
        return out

    def honest_request(self, r, kinds=None):
        """choose a well-formed request; returns (kind, prove-args) or None"""
        wl = self.wspec.length
        if wl == 0:
            return None
        behind = self.rlen < wl
        kinds = kinds or ["block", "block", "block", "upgrade", "hash", "seek", "block+seek"]
        kind = r.choice(kinds)
        up = "-"
        target = wl
        if behind:
            target = r.randrange(self.rlen + 1, wl + 1)
            up = "%d,%d" % (self.rlen, target - self.rlen)
        if kind == "upgrade":
            if not behind:
                return None
            return ("upgrade", dict(upgrade=up))
        if kind in ("block", "block+seek"):
            limit = target if behind else self.rlen
            if limit == 0:
                return None
            i = r.randrange(limit)
            if r.random() < 0.7:
                cand = [x for x in range(limit) if x not in self.rheld]
                if cand:
                    i = r.choice(cand)
            nodes = self.missing(i)
            args = dict(block="%d,%d" % (i, nodes), upgrade=up if (behind) else "-")
            if kind == "block+seek" and not behind:
                # seek inside the requested block's sub-tree: the block's own byte range
                off = sum(len(b) for b in self.wspec.blocks[:i])
                ln = len(self.wspec.blocks[i])
                if ln == 0:
                    return None
                args["seek"] = str(off + r.randrange(ln))
                return ("block+seek", args)
            return ("block" + ("+upgrade" if behind else ""), args)
        if kind == "hash":
            limit = target if behind else self.rlen
            nodes_all = self.tree_nodes_below(limit)
            if behind:
                # a node whose span straddles the replica's length lies on the path the upgrade itself
                # recomputes; the protocol cannot serve it as a separate hash section (not a well-formed
                # request, see DESIGN.md section 11)
                def span(j):
                    d = 0
                    while (j >> d) & 1:
                        d += 1
                    return ((j - (1 << d) + 1) // 2, (j + (1 << d) - 1) // 2)
                nodes_all = [j for j in nodes_all if span(j)[1] < self.rlen or span(j)[0] >= self.rlen]
            if not nodes_all:
                return None
            j = r.choice(nodes_all)
            nodes = self.missingt(j)
            return ("hash" + ("+upgrade" if behind else ""), dict(hash_="%d,%d" % (j, nodes), upgrade=up if behind else "-"))
        if kind == "seek":
            limit_len = target if behind else self.rlen
            total = sum(len(b) for b in self.wspec.blocks[:limit_len])
            if total == 0:
                return None
            return ("seek" + ("+upgrade" if behind else ""), dict(seek=str(r.randrange(total)), upgrade=up if behind else "-"))
        return None


def build_world(pair, r, nblocks=None, clears=True):
    w = World(pair)
    n = nblocks if nblocks is not None else r.choice([1, 2, 3, 4, 5, 7, 8, 9, 12, 16, 17, 21])
    left = n
    while left > 0:
        k = min(left, r.choice([1, 1, 2, 3, 5]))
        w.w_append([rnd_block(r) if r.random() < 0.8 else b"" for _ in range(k)])
        left -= k
    return w

"""hist — writer/replica histories: generators, the Python specification oracle (append-only list
model), execution on implementation + model, shrinking."""
import hashlib, random, zlib
from hclib import *


# ----------------------------------------------------------------------------------------------
# specification oracle: the log as an append-only list plus a cleared set
# ----------------------------------------------------------------------------------------------

class ListSpec:
    def __init__(self):
        self.blocks = []
        self.cleared = set()
        self.writeable = True

    def copy(self):
        s = ListSpec()
        s.blocks = list(self.blocks); s.cleared = set(self.cleared); s.writeable = self.writeable
        return s

    @property
    def length(self):
        return len(self.blocks)

    @property
    def byte_length(self):
        return sum(len(b) for b in self.blocks)

    def held(self, i):
        return i < len(self.blocks) and i not in self.cleared

    def contiguous(self):
        i = 0
        while self.held(i):
            i += 1
        return i

    def exp_info(self):
        return "ok %d %d %d 0 %d" % (self.length, self.byte_length, self.contiguous(), 1 if self.writeable else 0)

    def exp_get(self, i):
        return "ok some %s" % hexb(self.blocks[i]) if self.held(i) else "ok none"

    def exp_has(self, i):
        return "ok %d" % (1 if self.held(i) else 0)

    def state(self):
        return (tuple(self.blocks), frozenset(self.cleared), self.writeable)


# ----------------------------------------------------------------------------------------------
# operations on a single persistent writer. op = tuple
#   ("append", [bytes...]) ("clear", s, e) ("get", i) ("has", i) ("info",) ("reopen",) ("readonly",)
# ----------------------------------------------------------------------------------------------

def op_text(op):
    k = op[0]
    if k == "append":
        return "append(%s)" % ",".join("%d" % len(b) if len(b) > 8 else (b.hex() or "''") for b in op[1])
    return "%s(%s)" % (k, ",".join(str(x) for x in op[1:]))


def op_json(op):
    if op[0] == "append":
        return ["append"] + [hexb(b) for b in op[1]]
    return list(op)


def op_from_json(j):
    if j[0] == "append":
        return ("append", [unhex(x) for x in j[1:]])
    return tuple(j)


class Violation(Exception):
    def __init__(self, key, what, at):
        self.key, self.what, self.at = key, what, at


class HistoryRunner:
    """Runs one history on a fresh disk on both sides; checks the implementation against the list
    specification (raising Violation) and records model/implementation disagreements."""

    def __init__(self, pair, probe="full", events=False, on_step=None, disk_kind=None, cache=None):
        self.pair, self.probe, self.events, self.on_step = pair, probe, events, on_step
        self.disk_kind, self.cache = disk_kind, cache
        self.steps = 0

    def expect(self, k, op, impl_ans, expected, clause):
        if klass(impl_ans) == "crash":
            raise Violation("%s:crash" % op[0], "%s -> %s" % (op_text(op), impl_ans[:160]), k)
        if impl_ans != expected:
            raise Violation("%s:%s" % (op[0], clause),
                            "%s answered %s, specification says %s" % (op_text(op), impl_ans[:100], expected[:100]), k)

    def probes(self, k, op, spec):
        p = self.pair
        ia, _ = p.do("info W")
        self.expect(k, ("info",), ia, spec.exp_info(), "after-%s" % op[0])
        if self.probe == "none":
            return
        n = spec.length
        idx = list(range(min(n, 40))) + [n, n + 1]
        if n > 40:
            idx += [n - 1, n - 2, n // 2]
            # windows around every bitfield page edge (32768 bits) and every 8192-block edge below the length
            for edge in range(8192, n + 8192, 8192):
                idx += [i for i in range(edge - 34, edge + 3) if 0 <= i]
        for i in idx:
            ia, _ = p.do("has W %d" % i)
            self.expect(k, ("has", i), ia, spec.exp_has(i), "after-%s" % op[0])
            if self.probe == "full":
                ia, _ = p.do("get W %d" % i)
                self.expect(k, ("get", i), ia, spec.exp_get(i), "after-%s" % op[0])

    def run(self, ops, spec=None):
        p = self.pair
        p.reset()
        spec = spec or ListSpec()
        dk = "disk D" + (" " + self.disk_kind if self.disk_kind else "")
        p.raw(dk, model_line="disk D")
        newc = "new W D writer" + (" cache=" + self.cache if self.cache else "")
        ia, _ = p.do(newc)
        self.expect(-1, ("new",), ia, "ok", "create")
        if self.events:
            p.raw("sub W s")
        for k, op in enumerate(ops):
            self.steps += 1
            kind = op[0]
            exp_events = []
            if kind == "append":
                if spec.writeable:
                    old = spec.length
                    spec.blocks.extend(op[1])
                    exp = "ok %d %d" % (spec.length, spec.byte_length)
                    if op[1]:
                        exp_events = ["U", "H:%d:%d:0" % (old, len(op[1]))]
                else:
                    exp = "err NotWritable"
                ia, _ = p.do("append W " + " ".join(hexb(b) for b in op[1]))
                self.expect(k, op, ia, exp, "result")
            elif kind == "clear":
                s, e = op[1], op[2]
                if s >= spec.length:
                    continue        # outside the property's quantifier (start < length)
                for i in range(s, min(e, spec.length)):
                    spec.cleared.add(i)
                ia, _ = p.do("clear W %d %d" % (s, e))
                self.expect(k, op, ia, "ok", "result")
            elif kind == "get":
                ia, _ = p.do("get W %d" % op[1])
                self.expect(k, op, ia, spec.exp_get(op[1]), "result")
                if not spec.held(op[1]):
                    exp_events = ["G:%d" % op[1]]
            elif kind == "has":
                ia, _ = p.do("has W %d" % op[1])
                self.expect(k, op, ia, spec.exp_has(op[1]), "result")
            elif kind == "info":
                ia, _ = p.do("info W")
                self.expect(k, op, ia, spec.exp_info(), "result")
            elif kind == "reopen":
                p.raw("drop W")
                ia, _ = p.do("open W D" + (" cache=" + self.cache if self.cache else ""))
                self.expect(k, op, ia, "ok", "result")
                if self.events:
                    p.raw("sub W s")
            elif kind == "readonly":
                exp = "ok 1" if spec.writeable else "ok 0"
                spec.writeable = False
                ia, _ = p.do("readonly W")
                self.expect(k, op, ia, exp, "result")
            else:
                raise ValueError(op)
            if self.events and kind != "reopen":
                ie, _ = p.raw("events W s")
                exp_e = "ok" + "".join(" " + e for e in exp_events)
                if ie != exp_e:
                    raise Violation("%s:events" % kind, "%s emitted [%s], specification says [%s]" %
                                    (op_text(op), ie[3:], exp_e[3:]), k)
            if kind in ("append", "clear", "reopen", "readonly"):
                self.probes(k, op, spec)
            if self.on_step:
                self.on_step(k, op, spec)
        return spec


def find_violation(pair, ops, **kw):
    """returns (Violation or None, runner)"""
    r = HistoryRunner(pair, **kw)
    try:
        r.run(ops)
        return None, r
    except Violation as v:
        return v, r


def shrink(pair, ops, key, budget=120, **kw):
    """greedy delta debugging on the operation list, then on block sizes, keeping the violation key"""
    ops = list(ops)

    def bad(cand):
        v, _ = find_violation(pair, cand, **kw)
        return v is not None and v.key == key
    n = 0
    changed = True
    while changed and n < budget:
        changed = False
        for i in range(len(ops) - 1, -1, -1):
            cand = ops[:i] + ops[i + 1:]
            n += 1
            if n >= budget:
                break
            if bad(cand):
                ops = cand; changed = True
    # shrink block payloads
    for i, op in enumerate(ops):
        if op[0] == "append" and n < budget:
            for cand_blocks in ([b[:1] for b in op[1]], [b"" for b in op[1]], op[1][:1]):
                cand = ops[:i] + [("append", cand_blocks)] + ops[i + 1:]
                n += 1
                if cand_blocks != op[1] and bad(cand):
                    ops = cand
                    break
    return ops


# ----------------------------------------------------------------------------------------------
# generators
# ----------------------------------------------------------------------------------------------

def small_alphabet():
    return [("append", [b""]), ("append", [b"a"]), ("append", [b"bc", b"d"]), ("append", []),
            ("clear", 0, 1), ("clear", 1, 2), ("clear", 0, 5), ("clear", 1, 3),
            ("reopen",)]


def exhaustive_histories(maxlen):
    alpha = small_alphabet()
    out = []

    def rec(prefix, length, maxi):
        if prefix:
            out.append(list(prefix))
        if len(prefix) == maxi:
            return
        for a in alpha:
            if a[0] == "clear":
                if a[1] >= length:      # property: start < length
                    continue
            nl = length + (len(a[1]) if a[0] == "append" else 0)
            if a[0] == "reopen" and prefix and prefix[-1][0] == "reopen":
                continue
            prefix.append(a)
            rec(prefix, nl, maxi)
            prefix.pop()
    rec([], 0, maxlen)
    # only maximal-length ones and those ending in reopen add information; keep all with len==maxlen
    return [h for h in out if len(h) == maxlen or h[-1][0] == "reopen"]


def rnd_block(r):
    c = r.random()
    if c < 0.2:
        n = 0
    elif c < 0.5:
        n = 1
    elif c < 0.8:
        n = r.choice([2, 3, 7, 40, 252, 253, 254])
    elif c < 0.97:
        n = r.randrange(1, 600)
    else:
        n = r.choice([4095, 4096, 4097, 5000])
    return bytes(r.randrange(256) for _ in range(n))


def epoch_history(r):
    """runs of same-sized single-block appends and single-block clears: oplog entries of equal sizes in
    consecutive flush epochs (stale bytes behind the live entries line up with entry boundaries), with a
    reopen at a random point and at the end"""
    ops, length = [], 0
    for e in range(r.choice([3, 4, 5])):
        k = r.choice([1, 2, 3, 4, 5])
        if e % 2 == 0 or length == 0:
            for _ in range(k):
                ops.append(("append", [b"x"])); length += 1
        else:
            for _ in range(k):
                i = r.randrange(length)
                ops.append(("clear", i, i + 1))
    if r.random() < 0.5:
        ops.insert(r.randrange(1, len(ops)), ("reopen",))
    ops.append(("reopen",))
    ops.append(("append", [b"y"]))
    ops.append(("reopen",))
    return ops


def wide_clear_history(r):
    """one batch of 130..333 one-byte blocks, then clears that span several 32-block words of the bitfield page over words that were
    emptied before (only the MIDDLE of the range changes anything), placed in every phase of the flush cadence and around reopens"""
    n = r.choice([130, 200, 333])
    h = [("append", [bytes([r.randrange(256)]) for _ in range(n)])]
    for _ in range(r.choice([1, 2, 3])):
        w0 = r.randrange(0, n // 32 - 2)
        w1 = r.randrange(w0 + 2, n // 32 + 1)
        lo = w0 * 32 + r.choice([0, 0, 5]); hi = min(n, w1 * 32 + r.choice([32, 32, 20]))
        pre = [("clear", lo, (w0 + 1) * 32), ("clear", w1 * 32, hi)]
        r.shuffle(pre)
        h += [c for c in pre if c[1] < c[2]]
        if r.random() < 0.5:
            h.append(("reopen",))
        h.append(("clear", lo, r.choice([hi, hi, n + 40, 1000])))
        h += [("clear", n - 1, n)] * r.choice([0, 1, 3, 4])
        h.append(("reopen",))
    return h


def random_history(r, nops, reopen_p=0.12, clear_p=0.15, big_batch_p=0.0):
    ops, length = [], 0
    for _ in range(nops):
        c = r.random()
        if c < reopen_p:
            ops.append(("reopen",))
        elif c < reopen_p + clear_p and length > 0:
            s = r.randrange(length)
            e = s + 1 + (r.randrange(4) if r.random() < 0.8 else r.randrange(length + 3))
            ops.append(("clear", s, e))
        elif c < reopen_p + clear_p + 0.08:
            ops.append(("get", r.randrange(length + 2)))
        elif c < reopen_p + clear_p + 0.1:
            ops.append(("append", []))
        else:
            if r.random() < big_batch_p:
                k = r.choice([200, 700, 2000])
                ops.append(("append", [bytes([r.randrange(256)]) * r.choice([1, 40]) for _ in range(k)]))
                length += k
            else:
                k = r.choice([1, 1, 1, 2, 3, 5])
                ops.append(("append", [rnd_block(r) for _ in range(k)]))
                length += k
    return ops

"""jsfmt — an independent reader/writer of the JavaScript Hypercore 10 on-disk layout and of the
v10 Merkle scheme, written from the layout rules only (python3 stdlib: hashlib.blake2b, zlib.crc32)."""
import hashlib, zlib

TREE_NS = bytes.fromhex("9fac70b50ca14efc4e91c833b204e75b8b5aad8b5881bfc0adb5ef38a3275b9c")
DEFAULT_NS = bytes.fromhex("4144eea531e483d54e0c14f4ca68e0644f355343ff6fcb0f005200e12cd747cb")


def le64(n):
    return n.to_bytes(8, "little")


def b2(data):
    return hashlib.blake2b(data, digest_size=32).digest()


def leaf_hash(data):
    return b2(b"\x00" + le64(len(data)) + data)


def parent_hash(lsize, lhash, rsize, rhash):
    return b2(b"\x01" + le64(lsize + rsize) + lhash + rhash)


def tree_hash(roots):
    """roots: list of (index, size, hash)"""
    return b2(b"\x02" + b"".join(h + le64(i) + le64(s) for (i, s, h) in roots))


def signable(root_hash, length, fork=0):
    return TREE_NS + root_hash + le64(length) + le64(fork)


def full_roots(length):
    out, off, rem = [], 0, length
    while rem > 0:
        f = 1
        while f * 2 <= rem:
            f *= 2
        out.append((off, f))          # (first leaf, number of leaves)
        off += f; rem -= f
    return out


class RefTree:
    """reference Merkle tree by structural recursion over the block list"""

    def __init__(self, blocks):
        self.blocks = blocks
        self.memo = {}

    def node(self, first, count):
        """(flat index, size, hash) of the full subtree over leaves [first, first+count)"""
        k = (first, count)
        if k in self.memo:
            return self.memo[k]
        if count == 1:
            r = (2 * first, len(self.blocks[first]), leaf_hash(self.blocks[first]))
        else:
            h = count // 2
            l = self.node(first, h); rr = self.node(first + h, h)
            r = (2 * first + count - 1, l[1] + rr[1], parent_hash(l[1], l[2], rr[1], rr[2]))
        self.memo[k] = r
        return r

    def roots(self, length):
        return [self.node(f, c) for (f, c) in full_roots(length)]

    def all_nodes(self, length):
        out = {}
        for (f, c) in full_roots(length):
            w = 1
            while w <= c:
                for s in range(f, f + c, w):
                    n = self.node(s, w)
                    out[n[0]] = n
                w *= 2
        return out

    def by_index(self, index, length):
        return self.all_nodes(length).get(index)


# ---------- compact encoding ----------

def enc_uint(v):
    if v < 253:
        return bytes([v])
    if v <= 0xffff:
        return b"\xfd" + v.to_bytes(2, "little")
    if v <= 0xffffffff:
        return b"\xfe" + v.to_bytes(4, "little")
    return b"\xff" + v.to_bytes(8, "little")


class Reader:
    def __init__(self, b, pos=0):
        self.b, self.pos = b, pos

    def take(self, n):
        if self.pos + n > len(self.b):
            raise ValueError("short")
        r = self.b[self.pos:self.pos + n]
        self.pos += n
        return r

    def uint(self):
        x = self.take(1)[0]
        if x < 253:
            return x
        n = {253: 2, 254: 4, 255: 8}[x]
        return int.from_bytes(self.take(n), "little")

    def buffer(self):
        return self.take(self.uint())


def enc_buffer(b):
    return enc_uint(len(b)) + b


def frame(bit, partial, payload):
    lf = ((len(payload) << 2) | (2 if partial else 0) | (1 if bit else 0)).to_bytes(4, "little")
    return zlib.crc32(lf + payload).to_bytes(4, "little") + lf + payload


def read_frame(buf, pos):
    """returns (bit, partial, payload, next_pos) or None"""
    if pos + 8 > len(buf):
        return None
    crc = int.from_bytes(buf[pos:pos + 4], "little")
    comb = int.from_bytes(buf[pos + 4:pos + 8], "little")
    l = comb >> 2
    if l == 0 or pos + 8 + l > len(buf):
        return None
    if zlib.crc32(buf[pos + 4:pos + 8 + l]) != crc:
        return None
    return (comb & 1, (comb >> 1) & 1, buf[pos + 8:pos + 8 + l], pos + 8 + l)


def enc_header(public, secret, length, root_hash, signature, contiguous, fork=0):
    out = bytes([1, 6]) + public
    out += bytes([0, 0, 1, 0]) + DEFAULT_NS + public
    out += enc_buffer(public) + (enc_buffer(secret + public) if secret else b"\x00")
    out += b"\x00"
    out += enc_uint(fork) + enc_uint(length) + enc_buffer(root_hash) + enc_buffer(signature)
    out += b"\x00" + enc_uint(contiguous)
    return out


def dec_header(payload):
    r = Reader(payload)
    r.take(2)
    key = r.take(32)
    r.take(4); r.take(32); mpk = r.take(32)
    pk = r.buffer()
    sk = r.buffer()
    nud = r.uint()
    assert nud == 0
    fork = r.uint(); length = r.uint(); root_hash = r.buffer(); sig = r.buffer()
    nre = r.uint(); assert nre == 0
    contig = r.uint()
    return dict(key=key, public=pk, secret=sk[:32] if sk else None, fork=fork, length=length,
                root_hash=root_hash, signature=sig, contiguous=contig)


def enc_entry(nodes=None, upgrade=None, bitfield=None):
    """nodes: list of (index,size,hash); upgrade: (fork, ancestors, length, sig); bitfield: (drop,start,length)"""
    flags = (2 if nodes else 0) | (4 if upgrade else 0) | (8 if bitfield else 0)
    out = bytes([flags])
    if nodes:
        out += enc_uint(len(nodes)) + b"".join(enc_uint(i) + enc_uint(s) + h for (i, s, h) in nodes)
    if upgrade:
        out += enc_uint(upgrade[0]) + enc_uint(upgrade[1]) + enc_uint(upgrade[2]) + enc_buffer(upgrade[3])
    if bitfield:
        out += bytes([1 if bitfield[0] else 0]) + enc_uint(bitfield[1]) + enc_uint(bitfield[2])
    return out


def dec_entry(payload):
    r = Reader(payload)
    flags = r.take(1)[0]
    e = dict(nodes=[], upgrade=None, bitfield=None)
    if flags & 1:
        n = r.uint(); assert n == 0
    if flags & 2:
        for _ in range(r.uint()):
            i = r.uint(); s = r.uint(); h = r.take(32)
            e["nodes"].append((i, s, h))
    if flags & 4:
        e["upgrade"] = (r.uint(), r.uint(), r.uint(), r.buffer())
    if flags & 8:
        d = r.take(1)[0]
        e["bitfield"] = (d & 1, r.uint(), r.uint())
    return e


def read_oplog(oplog):
    """JS rules: two checksummed header slots chosen by their header bits; entries from 8192 carrying the
    current bit; trailing partial entries dropped. Returns (header dict, entries, meta) or None"""
    h1 = read_frame(oplog[:4096], 0) if len(oplog) >= 4096 else None
    h2 = read_frame(oplog[4096:8192], 0) if len(oplog) >= 8192 else None
    if h1 and h2:
        bits = (h1[0], h2[0])
        hdr = h1 if h1[0] == h2[0] else h2
    elif h1:
        bits = (h1[0], h1[0]); hdr = h1
    elif h2:
        bits = (1 - h2[0], h2[0]); hdr = h2
    else:
        return None
    cur = bits[0] ^ bits[1]
    entries, partials = [], []
    pos = 8192
    while True:
        f = read_frame(oplog, pos)
        if f is None or f[0] != cur:
            break
        entries.append(dec_entry(f[2])); partials.append(f[1])
        pos = f[3]
    while partials and partials[-1]:
        entries.pop(); partials.pop()
    return dec_header(hdr[2]), entries, dict(bits=bits, slot=0 if hdr is h1 else 1)


def read_storage(tree, data, bitfield, oplog):
    """reconstructs the log state from the four files. Returns dict(length, byte_length, held(set),
    blocks{index: bytes}, contiguous, writeable, nodes{index:(size,hash)}, header, entries)"""
    ro = read_oplog(oplog)
    if ro is None:
        return None
    hdr, entries, meta = ro
    # tree nodes: store, then entry nodes shadow
    nodes = {}
    for i in range(len(tree) // 40):
        rec = tree[40 * i:40 * i + 40]
        if rec[8:] != b"\x00" * 32:
            nodes[i] = (int.from_bytes(rec[:8], "little"), rec[8:])
    held = set()
    for k, byte in enumerate(bitfield[:len(bitfield) - len(bitfield) % 4]):
        for t in range(8):
            if byte >> t & 1:
                held.add(8 * k + t)
    length = hdr["length"]
    contig = hdr["contiguous"]
    for e in entries:
        for (i, s, h) in e["nodes"]:
            nodes[i] = (s, h)
        if e["bitfield"]:
            d, st, ln = e["bitfield"]
            for i in range(st, st + ln):
                (held.discard if d else held.add)(i)
        if e["upgrade"]:
            length = e["upgrade"][2]
    # sizes of blocks from leaf nodes; offsets by summing (needs every leaf size: derive from roots
    # and children: use nodes dict, leaf 2i)
    def size_of(first, count):
        idx = 2 * first + count - 1
        if idx in nodes:
            return nodes[idx][0]
        if count == 1:
            return None
        a = size_of(first, count // 2); b = size_of(first + count // 2, count // 2)
        return None if a is None or b is None else a + b
    byte_length = 0
    for (f, c) in full_roots(length):
        s = size_of(f, c)
        byte_length = None if (byte_length is None or s is None) else byte_length + s

    def offset_of(i):
        off = 0
        for (f, c) in full_roots(length):
            if i >= f + c:
                s = size_of(f, c)
                if s is None:
                    return None
                off += s
                continue
            # descend
            while c > 1:
                h = c // 2
                if i < f + h:
                    c = h
                else:
                    s = size_of(f, h)
                    if s is None:
                        return None
                    off += s; f += h; c = h
            return off
        return None
    blocks = {}
    for i in sorted(held):
        if i < length and 2 * i in nodes:
            off = offset_of(i)
            sz = nodes[2 * i][0]
            if off is not None:
                blocks[i] = data[off:off + sz] if sz else b""
    c = 0
    while c in held:
        c += 1
    return dict(length=length, byte_length=byte_length, held=held, blocks=blocks, contiguous_actual=c,
                contiguous_hint=contig, writeable=hdr["secret"] is not None, nodes=nodes, header=hdr,
                entries=entries, meta=meta)


def parse_files(ans):
    """'ok T D B O' with LEN:HEX fields -> four bytes objects"""
    t = ans.split(" ")[1:]
    out = []
    for f in t:
        l, h = f.split(":")
        out.append(b"" if h == "_" else bytes.fromhex(h))
    return out

"""C15 — a shared core is linearizable under concurrent tasks."""
from hist import *
import re


from srcshape import shared_shape, write_shape_v


def writer_spec():
    """fresh writer core: the state is (tuple of blocks, frozenset of cleared indices)"""
    def step(st, callstr):
        blocks, cleared = st
        call = callstr.split(" ")
        if call[0] == "append":
            nb = blocks + (unhex(call[1]),)
            return (nb, cleared), "ok %d %d" % (len(nb), sum(len(b) for b in nb))
        if call[0] == "appendb":
            add = tuple(unhex(x) for x in call[1].split(",")) if len(call) > 1 and call[1] else ()
            nb = blocks + add
            return (nb, cleared), "ok %d %d" % (len(nb), sum(len(b) for b in nb))
        if call[0] == "get":
            i = int(call[1])
            return st, ("ok some " + hexb(blocks[i])) if (i < len(blocks) and i not in cleared) else "ok none"
        if call[0] == "has":
            i = int(call[1])
            return st, "ok %d" % (1 if (i < len(blocks) and i not in cleared) else 0)
        if call[0] == "info":
            c = 0
            while c < len(blocks) and c not in cleared:
                c += 1
            return st, "ok %d %d %d 0 1" % (len(blocks), sum(len(b) for b in blocks), c)
        if call[0] == "clear":
            s_, e_ = int(call[1]), int(call[2])
            if s_ >= e_:
                return st, "ok"
            if s_ >= len(blocks):
                # the crate logs a harmless entry and answers BadArgument when the core is empty or its last block is held (C01,
                # ClearBeyond.v); nothing changes either way
                return st, ("err BadArgument" if (not blocks or (len(blocks) - 1) not in cleared) else "ok")
            return (blocks, cleared | frozenset(range(s_, min(e_, len(blocks))))), "ok"
        if call[0] in ("missing", "prove"):
            return st, None
        raise ValueError(call)
    return ((), frozenset()), step


def replica_spec(blocks, have):
    """replica that knows the whole tree of the writer's `blocks` (length and byte length are fixed); the state is
    the set of held indices"""
    n, nbytes = len(blocks), sum(len(b) for b in blocks)

    def step(held, callstr):
        call = callstr.split(" ")
        if call[0] == "apply":
            i = int(call[1])
            return (held if i in held else held | frozenset([i])), "ok 1"
        if call[0] == "get":
            i = int(call[1])
            return held, ("ok some " + hexb(blocks[i])) if i in held else "ok none"
        if call[0] == "has":
            return held, "ok %d" % (1 if int(call[1]) in held else 0)
        if call[0] == "info":
            c = 0
            while c in held:
                c += 1
            return held, "ok %d %d %d 0 0" % (n, nbytes, c)
        if call[0] in ("missing", "prove"):
            return held, None
        raise ValueError(call)
    return frozenset(have), step


def linearizable(records, spec=None):
    """records: list of dict(task, idx, start, end, call, result); spec = (initial state, step). Is there a total
    order of the calls that respects program order and real-time order (a call that ended before another one started
    comes first) and in which every call gets the answer the sequential specification gives?"""
    init, step = spec or writer_spec()
    n = len(records)
    recs = sorted(records, key=lambda x: x["start"])
    seen = set()

    def dfs(done, state):
        if len(done) == n:
            return True
        key = (done, state)
        if key in seen:
            return False
        seen.add(key)
        pending = [i for i in range(n) if i not in done]
        # a call may go next if no other pending call ended before it started, and program order holds
        min_end = min(recs[i]["end"] for i in pending)
        for i in pending:
            if recs[i]["start"] > min_end:
                continue
            if any(recs[j]["task"] == recs[i]["task"] and recs[j]["idx"] < recs[i]["idx"] for j in pending):
                continue
            st2, expect = step(state, recs[i]["call"])
            if expect is None or expect == recs[i]["result"]:
                if dfs(done | frozenset([i]), st2):
                    return True
        return False
    return dfs(frozenset(), init)


def append_chain_problem(records):
    """direct form of 'append outcomes form a gap-free increasing sequence of lengths' (writer mode): the outcomes,
    sorted, chain up: each length = previous length + the call's number of blocks (same for the byte lengths).
    Returns a message or None."""
    outs = []
    for x in records:
        call = x["call"].split(" ")
        if call[0] not in ("append", "appendb"):
            continue
        if not x["result"].startswith("ok "):
            return None          # an append failed: judged by the linearizability check only
        data = [unhex(h) for h in call[1].split(",")] if len(call) > 1 and call[1] else []
        _, ln, bl = x["result"].split(" ")
        outs.append((int(ln), -len(data), int(bl), sum(len(b) for b in data), x))
    outs.sort(key=lambda o: o[:2])
    prev_len = prev_bytes = 0
    for (ln, negk, bl, nbytes, x) in outs:
        if ln != prev_len - negk or bl != prev_bytes + nbytes:
            return ("append outcomes do not chain up gap-free: task %d call %d (`%s`, %d block(s), %d byte(s)) answered "
                    "length %d byte_length %d, but the next smaller outcome is length %d byte_length %d; all outcomes "
                    "(length, blocks): %s" % (x["task"], x["idx"], x["call"][:40], -negk, nbytes, ln, bl, prev_len,
                                              prev_bytes, [(o[0], -o[1]) for o in outs]))
        prev_len, prev_bytes = ln, bl
    return None


# ----------------------------------------------------------------------------------------------
# commands and verdicts
# ----------------------------------------------------------------------------------------------

def tasks_text(tasks):
    return " | ".join(" ; ".join(c) for c in tasks)


def sched_cmd(seed, tasks, slow=0):
    return "sched S %d %d %s%s" % (seed, len(tasks), "slow=%d " % slow if slow else "", tasks_text(tasks))


def schedr_cmd(seed, tasks, blocks, have=(), slow=0):
    return "schedr S %d %d blocks=%s %s%s%s" % (
        seed, len(tasks), ",".join(hexb(b) for b in blocks),
        "have=%s " % ",".join(str(i) for i in sorted(have)) if have else "",
        "slow=%d " % slow if slow else "", tasks_text(tasks))


def parse_cmd(cmd):
    """-> (mode, options, tasks); the inverse of sched_cmd / schedr_cmd"""
    w = cmd.split(" ")
    mode, nt = w[0], int(w[3])
    k, opts = 4, {}
    while k < len(w) and re.match(r"(slow|blocks|have)=", w[k]):
        key, val = w[k].split("=", 1)
        opts[key] = val
        k += 1
    rest = " ".join(w[k:])
    tasks = [[c.strip() for c in t.split(";") if c.strip()] for t in rest.split("|")] if nt else []
    return mode, opts, tasks


def judge(cmd, a):
    """verdict on the answer `a` of a scheduler command: None or dict(key, what)"""
    mode, opts, tasks = parse_cmd(cmd)
    if not a.startswith("ok"):
        return dict(key="sched:crash", what="concurrent run answered " + a[:200])
    recs = []
    for tok in a.split(" ")[1:]:
        t, i, s, e, rest = tok.split(".", 4)
        recs.append(dict(task=int(t), idx=int(i), start=int(s), end=int(e), result=rest.replace(",", " "),
                         call=tasks[int(t)][int(i)]))
    total = sum(len(t) for t in tasks)
    if len(recs) != total:
        return dict(key="sched:lost-call", what="%d of %d calls completed" % (len(recs), total))
    if mode == "schedr":
        blocks = [unhex(h) for h in opts["blocks"].split(",")]
        have = [int(i) for i in opts["have"].split(",")] if opts.get("have") else []
        spec = replica_spec(blocks, have)
        for x in recs:
            if x["call"].startswith("apply ") and x["result"] != "ok 1":
                return dict(key="sched:apply-refused", ncalls=total,
                            what="task %d call %d: verify_and_apply_proof of the valid, self-contained proof of block %s "
                                 "answered `%s` in a concurrent run (every sequential order answers `ok 1` and makes the "
                                 "block readable): %s" % (x["task"], x["idx"], x["call"].split(" ")[1], x["result"], a[:300]))
    else:
        spec = writer_spec()
        msg = append_chain_problem(recs)
        if msg:
            return dict(key="sched:append-gap", what=msg, ncalls=total)
    if not linearizable(recs, spec):
        return dict(key="sched:not-linearizable", ncalls=total,
                    what="no sequential order of the calls explains the results (%s): %s"
                         % ("replica of %d blocks" % len(blocks) if mode == "schedr" else "writer", a[:300]))
    return None


# ----------------------------------------------------------------------------------------------
# generators
# ----------------------------------------------------------------------------------------------

BIG = [8, 9, 12, 16, 17, 20, 24]


def batch_call(t, k):
    return "appendb " + ",".join(hexb(bytes([97 + t, j])) for j in range(k)) if k else "appendb"


def gen_tasks(r, nt, nc, big=0.2):
    """writer mode; `big`: share of the batches that have 8..24 blocks (SharedCore must write a batch of any size in
    one critical section)"""
    tasks = []
    hi = 6
    for t in range(nt):
        calls = []
        for _ in range(r.randrange(1, nc + 1)):
            c = r.random()
            if c < 0.42:
                calls.append("append %s" % hexb(bytes([65 + t]) * r.choice([1, 2, 3])))
            elif c < 0.6:
                k = r.choice(BIG) if r.random() < big else r.choice([0, 2, 3])
                hi = max(hi, k + 4)
                calls.append(batch_call(t, k))
            elif c < 0.66:
                a = r.randrange(0, hi)
                calls.append("clear %d %d" % (a, a + r.choice([1, 1, 2, 3])))
            elif c < 0.78:
                calls.append("get %d" % r.randrange(0, hi))
            elif c < 0.86:
                calls.append("has %d" % r.randrange(0, hi))
            elif c < 0.94:
                calls.append("info")
            elif c < 0.97:
                calls.append("missing %d" % r.randrange(0, hi))
            else:
                calls.append("prove %d" % r.randrange(0, hi))
        tasks.append(calls)
    return tasks


def gen_big_batch_tasks(r):
    """writer mode, aimed at long critical sections: one task writes a batch of 17..33 blocks, 1-2 other tasks issue
    short calls meanwhile"""
    nt = r.choice([2, 2, 3])
    k = r.choice([17, 18, 20, 24, 24, 25, 33])
    first = [batch_call(0, k)]
    if r.random() < 0.3:
        first.insert(0, "append %s" % hexb(b"A"))
    tasks = [first]
    for t in range(1, nt):
        calls = []
        for _ in range(r.randrange(1, 4)):
            c = r.random()
            if c < 0.45:
                calls.append("append %s" % hexb(bytes([65 + t]) * r.choice([1, 2])))
            elif c < 0.55:
                calls.append(batch_call(t, r.choice([2, 3, 9])))
            elif c < 0.75:
                calls.append("info")
            elif c < 0.9:
                calls.append("get %d" % r.randrange(0, k + 2))
            else:
                calls.append("has %d" % r.randrange(0, k + 2))
        tasks.append(calls)
    return tasks


def gen_replica_world(r, nt, nc):
    """replica mode: -> (blocks, have, tasks)"""
    n = r.choice([2, 3, 4, 5, 5, 6, 7, 8, 8, 11, 16, 17])
    blocks = [bytes([97 + i % 26]) * r.choice([1, 2, 3]) for i in range(n)]
    have = sorted(i for i in range(n) if r.random() < 0.2)
    tasks = []
    for t in range(nt):
        calls = []
        for _ in range(r.randrange(1, nc + 1)):
            c = r.random()
            i = r.randrange(0, n)
            j = i if r.random() < 0.85 else r.randrange(n, n + 3)
            if c < 0.45:
                calls.append("apply %d" % i)
            elif c < 0.65:
                calls.append("get %d" % j)
            elif c < 0.73:
                calls.append("has %d" % j)
            elif c < 0.86:
                calls.append("info")
            elif c < 0.93:
                calls.append("missing %d" % j)
            else:
                calls.append("prove %d" % j)
        tasks.append(calls)
    return blocks, have, tasks


SLOW_US = 600     # > the 500 us after which async_lock::Mutex hands the lock over to a starved waiter


def run_world(impl, res, cmds):
    """runs the schedules of one world; returns True when a violation was recorded"""
    for cmd in cmds:
        a = impl.cmd(cmd)
        res.count("schedules")
        if " slow=" in cmd:
            res.count("schedules_slow")
        if cmd.startswith("schedr"):
            res.count("schedules_replica")
        v = judge(cmd, a)
        if v is None:
            res.count("calls", a.count(" "))
            continue
        res.violations.append(dict(key=v["key"], what=v["what"], replay=dict(cmd=cmd, answer=a[:3000])))
        return True
    return False


def main(tier, seed):
    res = Result("C15", tier, seed)
    shape = shared_shape()
    write_shape_v(shape)
    res.gate = coq_gate("C15.v", clean=(tier == "thorough"))
    res.extra["shared_core_methods"] = [dict(method=n, single_critical_section=a, lock_calls=l) for (n, a, l) in shape]
    if len(shape) < 9:
        res.gate["ok"] = False
        res.gate["problems"].append("shape extractor found only %d methods in shared_core.rs" % len(shape))
    build_harness()
    r = random.Random(seed)
    impl = impl_server(watchdog_ms=60000)
    quick = tier == "quick"
    try:
        # (1) writer worlds
        for k in range(80 if quick else 4000):
            nt = r.choice([2, 2, 3, 4]); nc = r.choice([1, 2, 3, 4])
            tasks = gen_tasks(r, nt, nc)
            seeds = list(range(12)) if (nt == 2 and nc <= 2) else [r.randrange(10 ** 6) for _ in range(3)]
            cmds = [sched_cmd(sd, tasks) for sd in seeds]
            bigb = any(c.startswith("appendb") and c.count(",") >= 8 for t in tasks for c in t)
            nslow = 3 if bigb else (1 if r.random() < 0.3 else 0)
            cmds += [sched_cmd(r.randrange(10 ** 6), tasks, SLOW_US) for _ in range(nslow)]
            run_world(impl, res, cmds)
            res.add_case(("w", nt, nc, tuple(tuple(t) for t in tasks)), True, sample=dict(tasks=tasks) if k % 12 == 0 else None)
            if len(res.violations) >= 3:
                break
        # (2) writer worlds with one long batch, mostly with waiters beyond the mutex's anti-starvation threshold
        for k in range(16 if quick else 800):
            if len(res.violations) >= 3:
                break
            tasks = gen_big_batch_tasks(r)
            cmds = [sched_cmd(r.randrange(10 ** 6), tasks, SLOW_US) for _ in range(5)]
            cmds += [sched_cmd(r.randrange(10 ** 6), tasks) for _ in range(2)]
            run_world(impl, res, cmds)
            res.add_case(("b", tuple(tuple(t) for t in tasks)), True, sample=dict(tasks=tasks) if k % 6 == 0 else None)
        # (3) replica worlds
        for k in range(70 if quick else 4000):
            if len(res.violations) >= 3:
                break
            nt = r.choice([2, 2, 3, 4]); nc = r.choice([1, 2, 3, 4])
            blocks, have, tasks = gen_replica_world(r, nt, nc)
            seeds = list(range(12)) if (nt == 2 and nc <= 2) else [r.randrange(10 ** 6) for _ in range(4)]
            cmds = [schedr_cmd(sd, tasks, blocks, have) for sd in seeds]
            cmds += [schedr_cmd(r.randrange(10 ** 6), tasks, blocks, have, SLOW_US) for _ in range(1 if k % 2 == 0 else 0)]
            run_world(impl, res, cmds)
            res.add_case(("r", nt, nc, len(blocks), tuple(have), tuple(tuple(t) for t in tasks)), True,
                         sample=dict(blocks=len(blocks), have=have, tasks=tasks) if k % 12 == 0 else None)
    finally:
        impl.close()
    return res.finish(
        "theorem C15_mutex_serializable (coq/props/C15.v): every interleaving of tasks whose methods are single critical sections of a "
        "mutex equals an atomic execution in lock-acquisition order; the premise is re-derived from src/replication/shared_core.rs on "
        "every run (SharedShape.v, closed by vm_compute); the real SharedCore (a fresh writer core, and a replica core that receives "
        "block proofs) is run under a deterministic scheduler with a preemption point at every storage operation and lock "
        "acquisition, with and without waiters older than the mutex's 500 us anti-starvation threshold, and judged by a "
        "linearizability checker against the sequential list / held-set specification",
        "writer: 2-4 tasks x 1-4 calls (batches of 0-24 blocks), 12 schedules for the smallest configurations, 3 seeded schedules "
        "otherwise, +1-3 slow schedules; long-batch worlds (17-33 blocks): 5 slow + 2 plain schedules; replica: 2-17 blocks, "
        "2-4 tasks x 1-4 calls from apply/get/has/info/missing/prove, 12 or 4 schedules (+1 slow for every other world)")


def replay(path):
    j = json.load(open(path))
    rp = j.get("replay") or {}
    cmd = rp.get("cmd")
    if not cmd:
        print("nothing to replay in %s (%s)" % (path, j.get("kind")))
        return 1
    build_harness()
    impl = impl_server(watchdog_ms=60000)
    v = None
    try:
        # a schedule without `slow=` may depend on wall time (the mutex measures how long a waiter waited): a few tries
        for _ in range(1 if " slow=" in cmd else 5):
            a = impl.cmd(cmd)
            v = judge(cmd, a)
            if v:
                break
    finally:
        impl.close()
    print("command: %s" % cmd)
    print("answer : %s" % a)
    print("violation: %s" % (v["what"] if v else None))
    if not v and rp.get("answer"):
        w = judge(cmd, rp["answer"])
        print("recorded answer: %s\nrecorded answer violates: %s" % (rp["answer"], w["what"] if w else None))
    return 1 if v else 0


if __name__ == "__main__":
    sys.exit(main(sys.argv[1], seed_from_env()))

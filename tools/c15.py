"""C15 — a shared core is linearizable under concurrent tasks."""
from hist import *
import re


def _match_brace(src, i):
    """src[i] == '{' -> index of the matching '}'"""
    depth = 0
    for j in range(i, len(src)):
        if src[j] == "{":
            depth += 1
        elif src[j] == "}":
            depth -= 1
            if depth == 0:
                return j
    raise ValueError("unbalanced")


def shared_shape():
    """source-derived: for every trait method of SharedCore, is its body a single critical section
    `async move { let [mut] core = [&]self.0.lock().await; <one expression using core> }` (or the
    one-expression form `self.0.lock().await.method()`) ?"""
    src = open(os.path.join(REPO, "src", "replication", "shared_core.rs")).read()
    src = src.split("#[cfg(test)]")[0]
    out = []
    for im in re.finditer(r"impl\s+(\w+)\s+for\s+SharedCore\s*\{", src):
        end = _match_brace(src, im.end() - 1)
        block = src[im.end():end]
        pos = 0
        while True:
            fm = re.search(r"\bfn\s+(\w+)", block[pos:])
            if not fm:
                break
            name = fm.group(1)
            # the signature ends at the first '{' that is not inside <...> or (...): find "async move" after it
            sig_start = pos + fm.end()
            am = re.search(r"\{\s*async move\s*\{", block[sig_start:])
            if not am:
                pos = sig_start
                continue
            body_open = sig_start + am.end() - 1
            body_close = _match_brace(block, body_open)
            body = block[body_open + 1:body_close]
            fn_close = _match_brace(block, sig_start + am.start())
            stmts = [x.strip() for x in body.strip().split(";") if x.strip()]
            locks = len(re.findall(r"\.lock\(\)", body))
            atomic = False
            if locks == 1:
                if len(stmts) == 2 and re.match(r"let\s+(mut\s+)?core\s*=\s*&?\s*(mut\s+)?self\.0\.lock\(\)\.await$", stmts[0]) \
                        and ".await" not in stmts[1].replace("core.", "", 1).split(".await")[0] \
                        and stmts[1].count(".await") <= 1 and "self.0" not in stmts[1]:
                    atomic = True
                elif len(stmts) == 1 and re.match(r"self\.0\.lock\(\)\.await\.\w+\(\)$", stmts[0]):
                    atomic = True
            out.append((name, atomic, locks))
            pos = fn_close + 1
    return out


def write_shape_v(shape):
    path = os.path.join(COQ, "SharedShape.v")
    body = "(* generated on every run by tools/c15.py from /repo/src/replication/shared_core.rs *)\n" \
           "From Coq Require Import List String Bool.\nImport ListNotations.\nLocal Open Scope string_scope.\n" \
           "Definition shared_shape : list (string * bool) :=\n  [" + \
           ";\n   ".join('("%s", %s)' % (n, "true" if a else "false") for (n, a, _) in shape) + "].\n"
    old = open(path).read() if os.path.exists(path) else None
    if old != body:
        open(path, "w").write(body)


def linearizable(records):
    """records: list of dict(task, idx, start, end, call, result). Sequential spec: list of blocks."""
    n = len(records)
    recs = sorted(records, key=lambda x: x["start"])

    def apply(state, rec):
        call = rec["call"].split(" ")
        blocks = state
        if call[0] == "append":
            nb = blocks + (unhex(call[1]),)
            return nb, "ok %d %d" % (len(nb), sum(len(b) for b in nb))
        if call[0] == "appendb":
            add = tuple(unhex(x) for x in call[1].split(",")) if len(call) > 1 and call[1] else ()
            nb = blocks + add
            return nb, "ok %d %d" % (len(nb), sum(len(b) for b in nb))
        if call[0] == "get":
            i = int(call[1])
            return blocks, ("ok some " + hexb(blocks[i])) if i < len(blocks) else "ok none"
        if call[0] == "has":
            return blocks, "ok %d" % (1 if int(call[1]) < len(blocks) else 0)
        if call[0] == "info":
            return blocks, "ok %d %d %d 0 1" % (len(blocks), sum(len(b) for b in blocks), len(blocks))
        raise ValueError(call)
    seen = set()

    def dfs(done, state):
        if len(done) == n:
            return True
        key = (done, state)
        if key in seen:
            return False
        seen.add(key)
        pending = [i for i in range(n) if i not in done]
        # a call may go next if no other pending call ended before it started, and program order holds
        min_end = min(recs[i]["end"] for i in pending)
        for i in pending:
            if recs[i]["start"] > min_end:
                continue
            if any(recs[j]["task"] == recs[i]["task"] and recs[j]["idx"] < recs[i]["idx"] for j in pending):
                continue
            st2, expect = apply(state, recs[i])
            if expect == recs[i]["result"]:
                if dfs(done | frozenset([i]), st2):
                    return True
        return False
    return dfs(frozenset(), ())


def gen_tasks(r, nt, nc):
    tasks = []
    for t in range(nt):
        calls = []
        for _ in range(r.randrange(1, nc + 1)):
            c = r.random()
            if c < 0.45:
                calls.append("append %s" % hexb(bytes([65 + t]) * r.choice([1, 2, 3])))
            elif c < 0.6:
                k = r.choice([0, 2, 3])
                calls.append("appendb " + ",".join(hexb(bytes([97 + t, j])) for j in range(k)) if k else "appendb")
            elif c < 0.8:
                calls.append("get %d" % r.randrange(0, 6))
            elif c < 0.9:
                calls.append("has %d" % r.randrange(0, 6))
            else:
                calls.append("info")
        tasks.append(calls)
    return tasks


def main(tier, seed):
    res = Result("C15", tier, seed)
    shape = shared_shape()
    write_shape_v(shape)
    res.gate = coq_gate("C15.v", clean=(tier == "thorough"))
    res.extra["shared_core_methods"] = [dict(method=n, single_critical_section=a, lock_calls=l) for (n, a, l) in shape]
    if len(shape) < 9:
        res.gate["ok"] = False
        res.gate["problems"].append("shape extractor found only %d methods in shared_core.rs" % len(shape))
    build_harness()
    r = random.Random(seed)
    impl = impl_server(watchdog_ms=60000)
    try:
        nworld = 60 if tier == "quick" else 1500
        for k in range(nworld):
            nt = r.choice([2, 2, 3, 4]); nc = r.choice([1, 2, 3, 4])
            tasks = gen_tasks(r, nt, nc)
            seeds = range(12) if (nt == 2 and nc <= 2) else [r.randrange(10 ** 6) for _ in range(3)]
            for sd in seeds:
                cmd = "sched S %d %d %s" % (sd, nt, " | ".join(" ; ".join(c) for c in tasks))
                a = impl.cmd(cmd)
                res.count("schedules")
                if not a.startswith("ok"):
                    res.violations.append(dict(key="sched:crash", what="concurrent run answered " + a[:160], replay=dict(cmd=cmd)))
                    break
                recs = []
                for tok in a.split(" ")[1:]:
                    t, i, s, e, rest = tok.split(".", 4)
                    recs.append(dict(task=int(t), idx=int(i), start=int(s), end=int(e), result=rest.replace(",", " "),
                                     call=tasks[int(t)][int(i)]))
                res.count("calls", len(recs))
                if len(recs) != sum(len(t) for t in tasks):
                    res.violations.append(dict(key="sched:lost-call", what="%d of %d calls completed" % (len(recs), sum(len(t) for t in tasks)), replay=dict(cmd=cmd, answer=a[:500])))
                    break
                if not linearizable(recs):
                    res.violations.append(dict(key="sched:not-linearizable", what="no sequential order of the calls explains the results: " + a[:300],
                                               replay=dict(cmd=cmd, answer=a[:1500])))
                    break
                # append outcomes: gap-free increasing lengths
                lens = sorted(int(x["result"].split(" ")[1]) for x in recs if x["call"].startswith("append") and x["result"].startswith("ok"))
            res.add_case((nt, nc, tuple(tuple(t) for t in tasks)), True, sample=dict(tasks=tasks) if k % 12 == 0 else None)
            if len(res.violations) >= 3:
                break
    finally:
        impl.close()
    return res.finish(
        "theorem C15_mutex_serializable (coq/props/C15.v): every interleaving of tasks whose methods are single critical sections of a "
        "mutex equals an atomic execution in lock-acquisition order; the premise is re-derived from src/replication/shared_core.rs on "
        "every run (SharedShape.v, closed by vm_compute); the real SharedCore is run under a deterministic scheduler with a "
        "preemption point at every storage operation and lock acquisition and judged by a linearizability checker",
        "2-4 tasks x 1-4 calls; 12 schedules for the smallest configurations, 3 seeded schedules otherwise")


if __name__ == "__main__":
    sys.exit(main(sys.argv[1], seed_from_env()))

#!/usr/bin/env python3
"""re-runs the existing test suite with each recorded seeded patch applied in its scratch worktree and records the result"""
import json, os, subprocess, sys
for d in sorted(os.listdir("/verif/seeded")):
    mp = "/verif/seeded/%s/meta.json" % d
    if not os.path.exists(mp):
        continue
    m = json.load(open(mp))
    if m["confirmed"].get("existing_suite_passes_with") is True:
        continue
    prop = m["property"]; wt = "/tmp/mut/%s" % prop
    if not os.path.isdir(wt):
        continue
    env = dict(os.environ, CARGO_NET_OFFLINE="true")
    subprocess.run("git checkout -- . && git clean -fdq tests", shell=True, cwd=wt)
    subprocess.run("git apply /verif/seeded/%s/patch.diff" % d, shell=True, cwd=wt)
    r = subprocess.run("cargo test --workspace --no-fail-fast --offline 2>&1 | grep -E '^test result'; echo EXIT=${PIPESTATUS[0]}", shell=True,
                       cwd=wt, capture_output=True, text=True, env=env, executable="/bin/bash")
    subprocess.run("git checkout -- . && git clean -fdq tests", shell=True, cwd=wt)
    ok = "EXIT=0" in r.stdout and "FAILED" not in r.stdout
    m["confirmed"]["existing_suite_passes_with"] = ok
    m["confirmed"]["suite_output"] = r.stdout[-900:]
    json.dump(m, open(mp, "w"), indent=1)
    print(d, "suite passes with patch:", ok, flush=True)

"""C03 — any honest proof is accepted and replicas converge to the writer's data."""
from repl import *


def run_world(pair, r, res, steps=14, nblocks=None, kinds=None, script=None):
    """returns violation dict or None"""
    w = build_world(pair, r, nblocks=nblocks)
    try:
        for step in range(steps):
            c = r.random()
            if c < 0.08:
                w.w_append([rnd_block(r) for _ in range(r.choice([1, 2, 4]))])
                continue
            if c < 0.13 and w.wspec.length > 0:
                s = r.randrange(w.wspec.length)
                w.w_clear(s, s + 1)
                continue
            if c < 0.2:
                ia = w.r_reopen()
                if ia != "ok":
                    raise Violation("replica:reopen", "replica reopen answered " + ia[:120], step)
                w.check_replica("after reopen")
                continue
            req = w.honest_request(r, kinds)
            if req is None:
                continue
            kind, args = req
            res.count("req:" + kind)
            ia, ma = w.prove(**args)
            if klass(ia) == "crash":
                raise Violation("prove:crash", "prove %s -> %s" % (args, ia[:160]), step)
            if ia == "ok none":
                b = args.get("block")
                i = int(b.split(",")[0]) if b and b != "-" else None
                if i is not None and not w.wspec.held(i):
                    res.count("cleared-block-no-proof")
                    continue
                raise Violation("prove:none", "writer returned no proof for %s" % args, step)
            if not ia.startswith("ok "):
                raise Violation("prove:err:" + kind, "writer answered %s for honest request %s (writer len %d, replica len %d)" %
                                (ia, args, w.wspec.length, w.rlen), step)
            pt = ia[3:]
            pr = parse_proof(pt)
            if pr["block"] is not None and not w.wspec.held(pr["block"]["index"]):
                raise Violation("prove:cleared", "writer served a proof for cleared block %d" % pr["block"]["index"], step)
            aa, _ = w.apply(pt)
            if aa != "ok 1":
                raise Violation("accept:" + kind, "honest proof (%s, %s) answered %s (writer len %d, replica len %d)" %
                                (kind, args, aa[:100], w.wspec.length, w.rlen), step)
            res.count("accepted")
            w.note_applied(pr)
            w.check_replica("after %s %s" % (kind, args))
        ia = w.r_reopen()
        if ia != "ok":
            raise Violation("replica:reopen", "replica reopen answered " + ia[:120], "end")
        w.check_replica("after final reopen")
    except Violation as v:
        return dict(key=v.key, what=v.what, replay=dict(world=w.log, at=v.at))
    return None


def main(tier, seed):
    res = Result("C03", tier, seed)
    res.gate = coq_gate("C03.v", clean=(tier == "thorough"))
    build_harness(); build_model()
    r = random.Random(seed)
    pair = Pair()
    try:
        n = 60 if tier == "quick" else 1500
        for k in range(n):
            v = run_world(pair, r, res)
            res.add_case(("world", k), True, sample=None)
            if v:
                res.violations.append(v)
                if len(res.violations) >= 5:
                    break
            res.disagreements.extend(pair.disagreements[:2]); pair.disagreements = []
        res.extra["commands_compared"] = pair.ncmp
    finally:
        pair.close()
    return res.finish(
        "theorems of coq/props/C03.v over the model; replication worlds (writer growth, clears, replica reopen, requests "
        "built from the replica's own missing-node query) run on implementation and model; oracle: acceptance and "
        "byte-identical replica contents", "seeded random replication worlds; each world is non-trivial")


if __name__ == "__main__":
    sys.exit(main(sys.argv[1], seed_from_env()))

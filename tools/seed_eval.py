#!/usr/bin/env python3
"""seed_eval.py PROP VARIANT [--checks C01,C02,...] — confirm a seeded change in its scratch worktree,
then run /verif checks against /repo with the change applied (and undo it), and record everything under
/verif/seeded/<PROP><variant>/."""
import json, os, shutil, subprocess, sys, time

def sh(cmd, cwd=None, timeout=3000):
    p = subprocess.run(cmd, shell=True, cwd=cwd, stdout=subprocess.PIPE, stderr=subprocess.STDOUT, text=True, timeout=timeout,
                       env=dict(os.environ, CARGO_NET_OFFLINE="true"))
    return p.returncode, p.stdout

def main():
    prop, var = sys.argv[1], sys.argv[2]
    checks = [prop]
    full_suite = "--no-suite" not in sys.argv
    feat = ""
    for a in sys.argv[3:]:
        if a.startswith("--checks="):
            checks = a.split("=")[1].split(",")
        if a.startswith("--features="):
            feat = " --features " + a.split("=")[1]
    root = "/tmp/mut"
    for a in sys.argv[3:]:
        if a.startswith("--root="):
            root = a.split("=")[1]
    wt = "%s/%s" % (root, prop)
    out = "%s/out_%s/%s" % (root, prop, var)
    dest = "/verif/seeded/%s%s" % (prop, var)
    os.makedirs(dest, exist_ok=True)
    patch = os.path.join(out, "patch.diff")
    demo = os.path.join(out, "demo.rs")
    meta = dict(property=prop, variant=var, confirmed={}, detection={})
    notes = open(os.path.join(out, "notes.md")).read() if os.path.exists(os.path.join(out, "notes.md")) else ""
    # ---- confirmation in the scratch worktree
    sh("git checkout -- . && git clean -fdq tests", cwd=wt)
    tname = "demo_%s_%s" % (prop.lower(), var)
    shutil.copy(demo, os.path.join(wt, "tests", tname + ".rs"))
    rc0, o0 = sh("cargo test --offline%s --test %s 2>&1 | tail -15" % (feat, tname), cwd=wt)
    ok_without = "test result: ok" in o0 and "FAILED" not in o0
    rca, oa = sh("git apply %s" % patch, cwd=wt)
    rc1, o1 = sh("cargo test --offline%s --test %s 2>&1 | tail -25" % (feat, tname), cwd=wt)
    fails_with = ("FAILED" in o1 or "panicked" in o1 or "error: test failed" in o1) and rca == 0
    suite_ok = None
    if full_suite:
        os.remove(os.path.join(wt, "tests", tname + ".rs"))
        rc2, o2 = sh("cargo test --workspace --no-fail-fast --offline > /tmp/suite_%s.log 2>&1; echo EXIT=$?; grep -E '^test result' /tmp/suite_%s.log" % (tname, tname), cwd=wt)
        suite_ok = "EXIT=0" in o2 and "FAILED" not in o2
        meta["confirmed"]["suite_output"] = o2[-800:]
    sh("git checkout -- . && git clean -fdq tests", cwd=wt)
    meta["confirmed"].update(patch_applies=(rca == 0), demo_passes_without=ok_without, demo_fails_with=fails_with,
                             existing_suite_passes_with=suite_ok, demo_with_tail=o1[-600:], demo_without_tail=o0[-300:])
    # ---- detection: apply to /repo, run checks, undo
    st = subprocess.run("git -C /repo status --porcelain", shell=True, capture_output=True, text=True).stdout.strip()
    assert st == "", "/repo is dirty: " + st
    # evidence files are written by the checks: keep the ones of the unchanged tree
    EV_BACKUP = "/tmp/evidence_backup_%d" % os.getpid()
    sh("rm -rf %s && cp -r /verif/evidence %s" % (EV_BACKUP, EV_BACKUP))
    rc, o = sh("git -C /repo apply %s" % patch)
    try:
        for c in checks:
            t0 = time.time()
            rcc, oc = sh("cd /verif && ./check %s quick" % c, timeout=2400)
            lines = [l for l in oc.split("\n") if l.startswith("VIOLATION") or l.startswith("KNOWN-FINDING")]
            det = dict(exit=rcc, lines=lines, wall_s=round(time.time() - t0, 1))
            for l in lines:
                if "replay=" in l:
                    path = l.split("replay=")[1].split(" ")[0]
                    try:
                        j = json.load(open(path))
                        det["what"] = str(j.get("what") or j.get("details"))[:600]
                    except Exception:
                        pass
            meta["detection"][c] = det
    finally:
        sh("git -C /repo checkout -- .")
        sh("cp %s/*.json /verif/evidence/ && rm -rf %s" % (EV_BACKUP, EV_BACKUP))
    shutil.copy(patch, os.path.join(dest, "patch.diff"))
    shutil.copy(demo, os.path.join(dest, "demo.rs"))
    meta["needs_to_manifest"] = notes[:3000]
    meta["ran"] = ["cargo test --offline --test %s (with and without the patch, in a scratch worktree)" % tname,
                   "cargo test --workspace --no-fail-fast --offline (with the patch)" if full_suite else "suite not re-run",
                   "git -C /repo apply patch.diff; ./check <id> quick; git -C /repo checkout -- ."]
    json.dump(meta, open(os.path.join(dest, "meta.json"), "w"), indent=1)
    print(prop, var, "confirmed:", {k: v for k, v in meta["confirmed"].items() if isinstance(v, (bool, type(None)))},
          "detected:", {c: (d["exit"], d["lines"][:1]) for c, d in meta["detection"].items()})

if __name__ == "__main__":
    main()

"""C02 — crash between any two storage operations recovers before-or-after."""
from crash import *

CORPUS = [
    [("append", [b"a"]), ("append", [b"b"]), ("append", [b"c"]), ("append", [b"d"]), ("append", [b"e"])],
    [("append", [b"x"]), ("append", [b"y"]), ("reopen",), ("append", [b"z"]), ("append", [b"w"])],
    [("append", [b"a", b"b"]), ("clear", 0, 1), ("append", [b"c"]), ("append", [b"d"]), ("append", [b"e"])],
    [("append", [b"a"]), ("append", [b"b"]), ("readonly",)],
    [("append", [b"a"]), ("clear", 0, 1), ("reopen",), ("append", [b"q"])],
]


def main(tier, seed, prop="C02", torn=False, only_kinds=None, corpus=None, nrand=None):
    res = Result(prop, tier, seed)
    res.gate = coq_gate(prop + ".v", clean=(tier == "thorough"))
    build_harness(); build_model()
    r = random.Random(seed)
    pair = Pair()
    try:
        hs = [("corpus", h) for h in (corpus or CORPUS)]
        if nrand is None:
            nrand = 16 if tier == "quick" else 400
        ex = exhaustive_histories(3)
        hs += [("exhaustive", h) for h in (r.sample(ex, 10 if torn else 30) if tier == "quick" else ex)]
        # a batch whose single oplog entry exceeds the 65536-byte flush threshold (the call flushes whatever the cadence says), as
        # first, as non-first call of the session, and on top of pending entries; cuts of its long journal are sampled
        big = lambda n: ("append", [bytes([65 + i % 26]) for i in range(n)])
        hs += [("big-batch", h) for h in ([] if (torn and tier == "quick") else [[("append", [b"a", b"bc"]), ("append", [b"d"]), big(1000), ("append", [b"e"])]] if tier == "quick" else
                                         [[("append", [b"a", b"bc"]), ("append", [b"d"]), big(1000), ("append", [b"e"])],
                                          [big(950)], [("append", [b"x"]), ("reopen",), ("append", [b"y"]), big(1200), ("clear", 5, 900)]])]
        for _ in range(nrand):
            h = random_history(r, r.choice([4, 6, 9, 14]), reopen_p=0.15, clear_p=0.2)
            if prop == "C12" or r.random() < 0.2:
                h.insert(r.randrange(1, len(h) + 1), ("readonly",))
            hs.append(("random", h))
        for kind, h in hs:
            res.count("hist:" + kind)
            vs = enumerate_crashes(pair, h, res, torn=torn, rnd=r, only_kinds=only_kinds)
            res.add_case((kind, tuple(op_text(o) for o in h)), nontrivial=True,
                         sample=[op_text(o) for o in h] if res.evaluations % 37 == 0 else None)
            for v in vs:
                res.violations.append(v)
            res.disagreements.extend(pair.disagreements[:3])
            pair.disagreements = []
            if len(res.violations) >= 6:
                break
        res.extra["commands_compared"] = pair.ncmp
    finally:
        pair.close()
    return res.finish(
        "theorems of coq/props/%s.v over the model; every crash point (all journal prefixes, singleton and co-singleton "
        "subsets of unordered flush groups%s) of every generated history is recovered on the implementation and on the "
        "model and judged by the before-or-after oracle, followed by append+reopen" % (prop, ", torn prefixes of writes" if torn else ""),
        "corpus + sampled exhaustive + seeded random histories; every case is a history whose crash points are all "
        "enumerated (coverage.distribution.recoveries)")


def replay(path):
    j = json.load(open(path))["replay"]
    ops = [op_from_json(o) for o in j["history"]]
    build_harness(); build_model()
    pair = Pair()
    res = Result("C02", "quick", 0)
    vs = enumerate_crashes(pair, ops, res, torn=True, rnd=random.Random(0))
    pair.close()
    for v in vs:
        print("violation:", v["what"])
    return 1 if vs else 0


if __name__ == "__main__":
    sys.exit(main(sys.argv[1], seed_from_env()))

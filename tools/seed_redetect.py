#!/usr/bin/env python3
"""seed_redetect.py ID [--checks=C01,C02] — re-run the checks against an already recorded seeded change
(/verif/seeded/<ID>/patch.diff applied to /repo, undone afterwards) and update meta.json's detection record."""
import json, os, subprocess, sys, time

def sh(cmd, timeout=3000):
    p = subprocess.run(cmd, shell=True, stdout=subprocess.PIPE, stderr=subprocess.STDOUT, text=True, timeout=timeout,
                       env=dict(os.environ, CARGO_NET_OFFLINE="true"))
    return p.returncode, p.stdout

def main():
    sid = sys.argv[1]
    d = "/verif/seeded/" + sid
    meta = json.load(open(d + "/meta.json"))
    checks = [meta["property"]]
    tier = "quick"
    patch = "patch.diff"
    for a in sys.argv[2:]:
        if a.startswith("--patch="):
            patch = a.split("=")[1]
        if a.startswith("--checks="):
            checks = a.split("=")[1].split(",")
        if a.startswith("--tier="):
            tier = a.split("=")[1]
    st = subprocess.run("git -C /repo status --porcelain", shell=True, capture_output=True, text=True).stdout.strip()
    assert st == "", "/repo is dirty: " + st
    # evidence files are written by the checks: keep the ones of the unchanged tree
    EV_BACKUP = "/tmp/evidence_backup_%d" % os.getpid()
    sh("rm -rf %s && cp -r /verif/evidence %s" % (EV_BACKUP, EV_BACKUP))
    rc, o = sh("git -C /repo apply %s/%s" % (d, patch))
    assert rc == 0, o
    det = meta.get("detection")
    if not isinstance(det, dict):
        det = {}
    try:
        for c in checks:
            t0 = time.time()
            rcc, oc = sh("cd /verif && ./check %s %s" % (c, tier))
            lines = [l for l in oc.split("\n") if l.startswith("VIOLATION") or l.startswith("KNOWN-FINDING")]
            r = dict(exit=rcc, lines=lines, wall_s=round(time.time() - t0, 1), tier=tier)
            for l in lines:
                if "replay=" in l:
                    try:
                        j = json.load(open(l.split("replay=")[1].split(" ")[0]))
                        r["what"] = str(j.get("what") or j.get("details"))[:600]
                    except Exception:
                        pass
            det[c] = r
            print(sid, c, rcc, lines[:1], r.get("what", "")[:200], flush=True)
    finally:
        sh("git -C /repo checkout -- .")
        sh("cp %s/*.json /verif/evidence/ && rm -rf %s" % (EV_BACKUP, EV_BACKUP))
    meta["detection"] = det
    json.dump(meta, open(d + "/meta.json", "w"), indent=1)

if __name__ == "__main__":
    main()

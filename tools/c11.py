"""C11 — wire codecs: theorems in coq/props/C11.v + differential run of the crate's encoders."""
import random
from hclib import *

B = [0, 1, 252, 253, 254, 65535, 65536, 2**32 - 1, 2**32, 2**40, 2**64 - 1]


def rnd_hash(r):
    return bytes(r.randrange(256) for _ in range(32)).hex()


def node_text(r, big=True):
    return "%d.%d.%s" % (r.choice(B), r.choice(B), rnd_hash(r))


def nodes_text(r, n):
    return "_" if n == 0 else "+".join(node_text(r) for _ in range(n))


def rnd_bytes(r, n):
    return "_" if n == 0 else bytes(r.randrange(256) for _ in range(n)).hex()


def gen_cases(r, tier):
    cases = []
    for a in B:
        cases.append(("reqseek", str(a)))
        for b in B:
            cases.append(("reqblock", "%d,%d" % (a, b)))
            cases.append(("requpgrade", "%d,%d" % (a, b)))
            cases.append(("node", "%d.%d.%s" % (a, b, rnd_hash(r))))
    lens = [0, 1, 2, 31, 32, 64, 252, 253, 254, 300]
    nl = list(range(0, 9))
    reps = 2 if tier == "quick" else 12
    for _ in range(reps):
        for L in lens:
            for n in (r.sample(nl, 3) if tier == "quick" else nl):
                cases.append(("datablock", "%d/%s/%s" % (r.choice(B), rnd_bytes(r, L), nodes_text(r, n))))
        for n in nl:
            cases.append(("datahash", "%d/%s" % (r.choice(B), nodes_text(r, n))))
            cases.append(("dataseek", "%d/%s" % (r.choice(B), nodes_text(r, n))))
            for m in (r.sample(nl, 2) if tier == "quick" else nl):
                cases.append(("dataupgrade", "%d/%d/%s/%s/%s" % (
                    r.choice(B), r.choice(B), nodes_text(r, n), nodes_text(r, m),
                    rnd_bytes(r, r.choice([0, 1, 63, 64, 65, 252, 253, 300])))))
    return cases


def main(tier, seed):
    res = Result("C11", tier, seed)
    res.gate = coq_gate("C11.v", clean=(tier == "thorough"))
    build_harness(); build_model()
    r = random.Random(seed)
    pair = Pair(compare_journal=False)
    try:
        cases = gen_cases(r, tier)
        # malformed stream: node with a hash that is not 32 bytes must be refused by both encoders
        malformed = set()
        for L in (0, 31, 33):
            cases.append(("node", "5.6.%s" % rnd_bytes(r, L)))
            malformed.add(cases[-1])
        max_prefix_cases = 400 if tier == "quick" else 4000
        nprefix = 0
        for k, (ty, fields) in enumerate(cases):
            res.count("type:" + ty)
            ia, ma = pair.raw("enc %s %s" % (ty, fields))
            sig = (ty, len(fields))
            res.add_case(sig, True, sample=dict(cmd="enc %s %s" % (ty, fields[:80]), impl=ia[:80]) if k % 97 == 0 else None)
            if ia.startswith("err"):
                res.count("enc_err")
                if (ty, fields) not in malformed:
                    # every value of a message type (32-byte hashes) has an encoding of exactly the announced size
                    res.violations.append(dict(
                        key="enc-refused", what="encoding a valid %s value failed (%s): the announced size does not fit "
                        "what encode writes, or the encoder refuses a valid value" % (ty, ia[:60]),
                        replay=dict(cmd="enc %s %s" % (ty, fields), impl=ia, reference=ma[:200])))
                continue
            if klass(ia) == "crash":
                res.violations.append(dict(key="enc-crash", what="encode crashed: " + ia[:120],
                                           replay=dict(cmd="enc %s %s" % (ty, fields), impl=ia)))
                continue
            _, size, hx = ia.split(" ")
            data = unhex(hx)
            if int(size) != len(data):
                res.violations.append(dict(key="size", what="encoded_size %s != %d bytes written" % (size, len(data)),
                                           replay=dict(cmd="enc %s %s" % (ty, fields), impl=ia)))
            if ma.startswith("ok") and ma != ia:
                res.violations.append(dict(key="bytes", what="bytes differ from the compact-encoding reference encoder",
                                           replay=dict(cmd="enc %s %s" % (ty, fields), impl=ia, reference=ma)))
            ida, mda = pair.raw("dec %s %s" % (ty, hx))
            if ida != "ok %s _" % fields:
                res.violations.append(dict(key="roundtrip", what="decode(encode(x)) != x",
                                           replay=dict(cmd="dec %s %s" % (ty, hx), impl=ida, expected="ok %s _" % fields)))
            # trailing bytes are left over, untouched
            ida2, _ = pair.raw("dec %s %sabcd" % (ty, hx))
            if ida2 != "ok %s abcd" % fields:
                res.violations.append(dict(key="rest", what="decode with trailing bytes",
                                           replay=dict(cmd="dec %s %sabcd" % (ty, hx), impl=ida2)))
            # strict prefixes
            if nprefix < max_prefix_cases:
                nprefix += 1
                cuts = range(len(data)) if len(data) <= 200 else sorted(set(
                    list(range(0, 12)) + [len(data) - j for j in range(1, 12)] + [r.randrange(len(data)) for _ in range(40)]))
                for c in cuts:
                    p = hexb(data[:c])
                    ipa, mpa = pair.raw("dec %s %s" % (ty, p))
                    res.count("prefix")
                    if not ipa.startswith("err"):
                        res.violations.append(dict(key="prefix", what="strict prefix decoded to " + ipa[:80],
                                                   replay=dict(cmd="dec %s %s" % (ty, p), impl=ipa)))
        res.disagreements = pair.disagreements
        res.extra["commands_compared"] = pair.ncmp
    finally:
        pair.close()
    return res.finish(
        "theorems C11_* (codec_law for the eight wire types) over the model encoders/decoders; the crate's "
        "encoders are tied to the model by differential execution on varint boundaries, byte strings 0..300, "
        "node lists 0..8 and strict prefixes",
        "values from varint boundary set x byte-string lengths x node-list lengths; a case is non-trivial "
        "always; distinct by (type, field text length)")


if __name__ == "__main__":
    sys.exit(main(sys.argv[1], seed_from_env()))

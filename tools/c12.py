"""C12 — secret key hygiene: read-only cores cannot write and leave no key on disk."""
from crash import *
import jsfmt


def key_windows(secret):
    return [secret[i:i + 16] for i in range(0, 17)]


def hygiene_case(pair, ops, res, secret):
    """ops end (or are interleaved) with readonly; returns violation dict or None"""
    p = pair
    try:
        def on_step(k, op, spec):
            if not spec.writeable:
                files = jsfmt.parse_files(p.impl.cmd("files D"))
                for name, content in zip(("tree", "data", "bitfield", "oplog"), files):
                    res.count("files-searched")
                    for w in key_windows(secret):
                        if w in content:
                            raise Violation("secret:on-disk", "after %s the %s file still contains (part of) the secret key at offset %d" %
                                            (op_text(op), name, content.find(w)), k)
                if op[0] == "readonly":
                    # second call: reports that nothing changed (since the repair of finding D25 it rewrites the two header
                    # slots again, which must change no observation: the probes of the history runner follow)
                    i0 = p.impl.cmd("info W")
                    ia, _ = p.do("readonly W")
                    n1, _ = parse_journal(p.impl.cmd("journal D 0"))
                    if ia != "ok 0" or p.impl.cmd("info W") != i0:
                        raise Violation("readonly:second", "second make_read_only answered %s; info before %s, after %s" % (ia, i0, p.impl.cmd("info W")), k)
                    ia, _ = p.do("append W 6161")
                    n2, _ = parse_journal(p.impl.cmd("journal D 0"))
                    if ia != "err NotWritable" or n2 != n1:
                        raise Violation("readonly:append", "append on a read-only core answered %s and issued %d storage operations" % (ia, n2 - n1), k)
                    ia, _ = p.do("keypair W")
                    if not ia.endswith(" 0"):
                        raise Violation("readonly:keypair", "key pair after make_read_only: " + ia, k)
        v, _ = find_violation(p, ops, probe="full", on_step=on_step)
        if v:
            return dict(key=v.key, what=v.what, replay=dict(history=[op_json(o) for o in ops], failing_step=v.at))
        # reopen: read-only, same data, stored public key
        p.raw("drop W")
        ia, _ = p.do("open W D")
        ib, _ = p.do("keypair W")
        pk = p.impl.cmd("prim pub main").split(" ")[1]
        if ia != "ok" or ib != "ok %s 0" % pk:
            return dict(key="reopen:keypair", what="reopened read-only core: open=%s keypair=%s" % (ia, ib), replay=dict(history=[op_json(o) for o in ops]))
        ia, _ = p.do("openkp W2 D")
        if ia != "err BadArgument":
            return dict(key="open:with-key", what="open mode with a key pair answered " + ia, replay=dict(history=[op_json(o) for o in ops]))
    except Violation as v:
        return dict(key=v.key, what=v.what, replay=dict(history=[op_json(o) for o in ops]))
    return None


def replica_readonly(pair, r, res):
    """make_read_only on a replica (already read-only) holding blocks whose oplog entries are not flushed yet: it
    reports false, and the replica reopens with every block it had accepted ('with all data intact')."""
    import repl
    w = repl.build_world(pair, r, nblocks=r.choice([4, 8, 12]))
    try:
        for _ in range(r.choice([1, 2, 3, 4, 5])):
            req = w.honest_request(r, kinds=["block"])
            if req is None:
                continue
            ia, _ = w.prove(**req[1])
            if not ia.startswith("ok ") or ia == "ok none":
                continue
            aa, _ = w.apply(ia[3:])
            if aa != "ok 1":
                raise Violation("replica:accept", "honest proof refused: " + aa, "apply")
            w.note_applied(repl.parse_proof(ia[3:]))
        ia, _ = pair.do("readonly R")
        w.log.append("readonly R")
        if ia != "ok 0":
            raise Violation("replica:readonly", "make_read_only on a replica answered " + ia, "readonly")
        w.check_replica("after make_read_only on a replica")
        if w.r_reopen() != "ok":
            raise Violation("replica:reopen", "replica does not reopen after make_read_only", "reopen")
        w.check_replica("after make_read_only on a replica and a reopen")
        res.count("replica-readonly-reopen")
    except Violation as v:
        return dict(key=v.key, what=v.what, replay=dict(world=w.log))
    return None


def crashed_call_then_again(pair, res, secret, tier):
    """a crash at every point inside make_read_only, reopen, and make_read_only AGAIN on the recovered core: once that
    call has returned (true or false) no storage file may contain the secret key, the core is read-only and all data
    is intact. (Found by the proof of ReadOnly.v: example toy_secret_survives_crash_then_noop_refuted.)"""
    im = pair.impl
    found = []
    for nap in range(0, 4 if tier == "quick" else 9):
        setup = ["disk D", "new W D writer"] + ["append W %s" % hexb(bytes([97 + j]) * (j + 1)) for j in range(nap)]
        im.cmd("reset")
        for c in setup:
            im.cmd(c)
        n0, _ = parse_journal(im.cmd("journal D 0"))
        if im.cmd("readonly W") != "ok 1":
            continue
        n1, ops = parse_journal(im.cmd("journal D %d" % n0))
        for cut in range(n0, n1 + 1):
            res.count("crashed-readonly-then-again")
            im.cmd("drop X")
            im.cmd("fork X D %d" % cut)
            lab = "%d appends; make_read_only crashed after %d of its %d storage operations; reopen; make_read_only again" % (nap, cut - n0, n1 - n0)
            if im.cmd("open X X") != "ok":
                found.append(dict(key="crash:reopen", what=lab + ": reopen failed", replay=dict(setup=setup, cut=cut - n0)))
                break
            a = im.cmd("readonly X")
            if a not in ("ok 0", "ok 1"):
                found.append(dict(key="readonly:again", what=lab + " answered " + a[:60], replay=dict(setup=setup, cut=cut - n0)))
                break
            info = im.cmd("info X")
            if info != "ok %d %d %d 0 0" % (nap, sum(j + 1 for j in range(nap)), nap):
                found.append(dict(key="readonly:again-state", what=lab + ": info = " + info, replay=dict(setup=setup, cut=cut - n0)))
                break
            files = jsfmt.parse_files(im.cmd("files X"))
            hit = [name for name, content in zip(("tree", "data", "bitfield", "oplog"), files) if any(w in content for w in key_windows(secret))]
            if hit:
                found.append(dict(key="secret:after-crashed-call", what="%s answered %s, but the %s file still contains the secret key" % (lab, a, hit[0]),
                                  replay=dict(setup=setup, cut=cut - n0, second_call=a)))
                break
        im.cmd("drop X")
        if found:
            break
    return found


def builder_over_existing(pair, r, res):
    """'Opening existing storage recovers the stored public key and writability': the plain builder (no open mode, with the same,
    another, a public-only or a foreign public-only key pair) over storage that already holds a core — a writer, a writer after
    make_read_only, a replica. The stored key pair wins: public key, writability, NotWritable refusals with no storage operation."""
    p = pair
    found = []
    pk_main = p.impl.cmd("prim pub main").split(" ")[1]
    for kind in ("writer", "writer-readonly", "replica"):
        for role in ("writer", "altwriter", "replica", "altreplica"):
            p.reset(); p.raw("disk D")
            p.do("new W D " + ("replica" if kind == "replica" else "writer"))
            nb = 0
            if kind != "replica":
                nb = r.choice([1, 2, 5])
                for j in range(nb):
                    p.do("append W " + hexb(bytes([65 + j]) * (j + 1)))
            if kind == "writer-readonly":
                p.do("readonly W")
            p.raw("drop W")
            ia, _ = p.do("new W D " + role)
            lab = "builder without open mode, key pair role %s, over storage holding a %s" % (role, kind)
            res.count("builder-over-existing")
            if ia != "ok":
                found.append(dict(key="rebuild:result", what="%s answered %s" % (lab, ia[:100]), replay=dict(kind=kind, role=role))); continue
            ib, _ = p.do("keypair W")
            ic, _ = p.do("info W")
            want_secret = "1" if kind == "writer" else "0"
            if ib != "ok %s %s" % (pk_main, want_secret) or not ic.startswith("ok %d " % nb) or ic.split(" ")[5] != want_secret:
                found.append(dict(key="rebuild:keypair", what="%s: key pair = %s, info = %s; the storage holds public key %s..., secret key %s, %d blocks" %
                                  (lab, ib[:90], ic, pk_main[:16], "present" if want_secret == "1" else "absent", nb), replay=dict(kind=kind, role=role)))
                continue
            n0, _ = parse_journal(p.impl.cmd("journal D 0"))
            id_, _ = p.do("append W 7a")
            n1, _ = parse_journal(p.impl.cmd("journal D 0"))
            if want_secret == "0" and (id_ != "err NotWritable" or n1 != n0):
                found.append(dict(key="rebuild:writes", what="%s: append answered %s and issued %d storage operations; the stored core has no secret key" %
                                  (lab, id_, n1 - n0), replay=dict(kind=kind, role=role)))
                continue
            if want_secret == "1" and not id_.startswith("ok %d " % (nb + 1)):
                found.append(dict(key="rebuild:append", what="%s: append answered %s" % (lab, id_), replay=dict(kind=kind, role=role)))
                continue
            ie, _ = p.do("readonly W")
            if ie != "ok " + want_secret:
                found.append(dict(key="rebuild:readonly", what="%s: make_read_only answered %s (expected %s)" % (lab, ie, "ok " + want_secret), replay=dict(kind=kind, role=role)))
    return found


def main(tier, seed):
    res = Result("C12", tier, seed)
    res.gate = coq_gate("C12.v", clean=(tier == "thorough"))
    build_harness(); build_model()
    r = random.Random(seed)
    pair = Pair()
    try:
        secret = bytes.fromhex(pair.impl.cmd("prim secret main").split(" ")[1])
        # writability recovered from storage; a writer reopened keeps its key
        pair.reset(); pair.raw("disk D"); pair.do("new W D writer"); pair.do("append W 61"); pair.raw("drop W")
        ia, _ = pair.do("open W D"); ib, _ = pair.do("keypair W")
        res.add_case(("reopen-writer",), True)
        if not ib.endswith(" 1"):
            res.violations.append(dict(key="open:writability", what="reopened writer reports " + ib, replay=dict()))
        # replica: not writable, make_read_only is a no-op
        pair.reset(); pair.raw("disk D"); pair.do("new W D replica")
        n0, _ = parse_journal(pair.impl.cmd("journal D 0"))
        ia, _ = pair.do("append W 61")
        n1, _ = parse_journal(pair.impl.cmd("journal D 0"))
        ib, _ = pair.do("readonly W")
        res.add_case(("replica",), True)
        if ia != "err NotWritable" or ib != "ok 0" or n1 != n0:
            res.violations.append(dict(key="replica:writes", what="replica: append=%s (storage operations=%d) readonly=%s" % (ia, n1 - n0, ib), replay=dict()))
        n = 25 if tier == "quick" else 400
        for k in range(n):
            h = random_history(r, r.choice([2, 4, 7, 11]), reopen_p=0.15, clear_p=0.15)
            pos = r.randrange(1, len(h) + 1) if r.random() < 0.5 else len(h)
            h.insert(pos, ("readonly",))
            if k % 3 == 2:
                # ... and the core goes on being used read-only: clears, then make_read_only AGAIN (the documented use
                # after a crash), then a reopen: "with all data intact" also for the call that changes nothing
                nblocks = sum(len(o[1]) for o in h[:pos] if o[0] == "append")
                if nblocks:
                    tail = []
                    for _ in range(r.choice([1, 2, 3])):
                        s0 = r.randrange(nblocks)
                        tail.append(("clear", s0, s0 + 1))
                    h = h[:pos + 1] + tail + [("readonly",), ("reopen",)] + h[pos + 1:]
                    res.count("readonly-clear-readonly-reopen")
            v = hygiene_case(pair, h, res, secret)
            res.add_case(tuple(op_text(o) for o in h), True, sample=[op_text(o) for o in h] if k % 8 == 0 else None)
            if v:
                res.violations.append(v)
            res.disagreements.extend(pair.disagreements[:2]); pair.disagreements = []
            # all crash points inside make_read_only (and the rest of the history)
            if k < (8 if tier == "quick" else 150):
                vs = enumerate_crashes(pair, h, res, torn=False, rnd=r, only_kinds=["readonly"])
                res.violations.extend(vs)
                res.disagreements.extend(pair.disagreements[:2]); pair.disagreements = []
            if len(res.violations) >= 4:
                break
        for k in range(8 if tier == "quick" else 120):
            v = replica_readonly(pair, r, res)
            res.add_case(("replica-readonly", k), True)
            if v:
                res.violations.append(v)
                break
            res.disagreements.extend(pair.disagreements[:2]); pair.disagreements = []
        res.violations.extend(builder_over_existing(pair, r, res))
        res.add_case(("builder-over-existing",), True, sample="plain builder with 4 key pair roles over storage holding a writer / a read-only writer / a replica")
        res.disagreements.extend(pair.disagreements[:2]); pair.disagreements = []
        res.violations.extend(crashed_call_then_again(pair, res, secret, tier))
        res.add_case(("crashed-call-then-again",), True)
        res.extra["commands_compared"] = pair.ncmp
    finally:
        pair.close()
    return res.finish(
        "theorems of coq/props/C12.v; histories ending or interleaved with make_read_only run on implementation and model; the raw "
        "bytes of all four files are searched for every 16-byte window of the secret key; all crash points inside "
        "make_read_only are recovered",
        "seeded random histories with make_read_only inserted at a random position; replica and reopen cases")


if __name__ == "__main__":
    sys.exit(main(sys.argv[1], seed_from_env()))

"""C10 — a storage error surfaces as an error and is recoverable by reopening."""
from crash import *
from crash import _run_one


def run_prefix(pair, ops, upto):
    """fresh disk, run ops[0:upto] on both sides; returns spec"""
    p = pair
    p.reset(); p.raw("disk D")
    p.do("new W D writer")
    spec = ListSpec()
    runner = HistoryRunner(p, probe="none")
    for k, op in enumerate(ops[:upto]):
        _run_one(runner, p, k, op, spec)
    return spec


def fault_history(pair, ops, res):
    found = []
    p = pair
    # dry run to learn the number of storage operations of every step (and of creation)
    p.reset(); p.raw("disk D")
    c0 = int(p.impl.cmd("opcount D").split(" ")[1])
    p.do("new W D writer")
    counts = [(c0, int(p.impl.cmd("opcount D").split(" ")[1]))]
    spec = ListSpec()
    runner = HistoryRunner(p, probe="none")
    try:
        for k, op in enumerate(ops):
            a = int(p.impl.cmd("opcount D").split(" ")[1])
            _run_one(runner, p, k, op, spec)
            counts.append((a, int(p.impl.cmd("opcount D").split(" ")[1])))
    except Violation as v:
        return [dict(key=v.key, what=v.what, replay=dict(history=[op_json(o) for o in ops]))]
    for step in range(-1, len(ops)):
        lo, hi = counts[step + 1]
        for kf in range(lo, hi):
            res.count("faults-injected")
            try:
                spec_before = run_prefix(pair, ops, max(step, 0)) if step >= 0 else None
                if step == -1:
                    p.reset(); p.raw("disk D")
                base = int(p.impl.cmd("opcount D").split(" ")[1]) if step >= 0 else 0
                # the ordinal is absolute; the prefix issues the same number of operations as the dry run
                p.impl.cmd("fail D %d" % kf)
                op = ops[step] if step >= 0 else ("new",)
                kind = op[0]
                if kind == "new":
                    ia = p.impl.cmd("new W D writer")
                elif kind == "append":
                    ia = p.impl.cmd("append W " + " ".join(hexb(b) for b in op[1]))
                elif kind == "clear":
                    if op[1] >= spec_before.length:
                        p.impl.cmd("fail D off"); continue
                    ia = p.impl.cmd("clear W %d %d" % (op[1], op[2]))
                elif kind == "reopen":
                    p.impl.cmd("drop W")
                    ia = p.impl.cmd("open W D")
                elif kind == "readonly":
                    ia = p.impl.cmd("readonly W")
                elif kind == "get":
                    ia = p.impl.cmd("get W %d" % op[1])
                else:
                    p.impl.cmd("fail D off"); continue
                p.impl.cmd("fail D off")
                lab = "history %s, I/O error at storage operation %d (step %d %s)" % ([op_text(o) for o in ops], kf, step, op_text(op))
                if klass(ia) == "crash":
                    found.append(dict(key="fault:crash", what="%s -> %s" % (lab, ia[:120]), replay=dict(history=[op_json(o) for o in ops], fail_at=kf, step=step)))
                    continue
                if not ia.startswith("err"):
                    found.append(dict(key="fault:success", what="%s: the call answered %s although a storage operation failed" % (lab, ia[:80]),
                                      replay=dict(history=[op_json(o) for o in ops], fail_at=kf, step=step)))
                    continue
                res.count("fault-answer:" + ia)
                # drop the instance and reopen the same storage: before-or-after, everything earlier intact
                p.impl.cmd("drop W")
                n, _ = parse_journal(p.impl.cmd("journal D 0"))
                # the model ran no faulted call: give it the same disk by replaying the implementation's journal prefix
                after = None
                if step >= 0:
                    after = spec_before.copy()
                    r2 = HistoryRunner(p, probe="none")
                    if kind == "append" and after.writeable:
                        after.blocks.extend(op[1])
                    elif kind == "clear":
                        for i in range(op[1], min(op[2], after.length)):
                            after.cleared.add(i)
                    elif kind == "readonly":
                        after.writeable = False
                else:
                    after = ListSpec()
                # model side: run the un-faulted call so that its journal contains the operations, then both fork at n
                if kind == "new":
                    p.model.cmd("new W D writer")
                elif kind == "append":
                    p.model.cmd("append W F=1 " + " ".join(hexb(b) for b in op[1]))
                elif kind == "clear":
                    p.model.cmd("clear W F=1 %d %d" % (op[1], op[2]))
                elif kind == "reopen":
                    p.model.cmd("drop W"); p.model.cmd("open W D")
                elif kind == "readonly":
                    p.model.cmd("readonly W")
                w = check_recovery(p, "fork X D %d" % n, spec_before, after, lab)
                res.count("fault-recovered:" + str(w))
            except Violation as v:
                found.append(dict(key=v.key, what=v.what, replay=dict(history=[op_json(o) for o in ops], fail_at=kf, step=step)))
            if len(found) >= 3:
                return found
    return found


def replica_fault_world(pair, r, res, tier):
    """proof applications on a REPLICA (implementation only; the model side is FaultReplica.v): a writer with n blocks, a
    sequence of honest proofs — block + upgrade, blocks in any order, a RE-DELIVERED block the replica already holds, an
    upgrade-only proof after growth, a hash proof — and one I/O error at EVERY storage operation (reads included) of every
    application. The call must answer an error; after dropping the instance and reopening the same storage the replica is in
    the before-or-after state: its length is the one before or after the call, every block held before the call is still held and
    reads back as the writer's block, nothing else is held except (possibly) the block of the failed call."""
    import repl
    im = pair.impl
    found = []
    n = r.choice([5, 8, 11])
    blocks = [bytes([65 + i]) * r.choice([0, 1, 3, 24, 40]) for i in range(n)]
    grow = [bytes([97 + i]) * r.choice([1, 5]) for i in range(r.choice([1, 2, 4]))]
    im.cmd("reset")
    for c in ["disk D", "new W D writer", "append W " + " ".join(hexb(b) for b in blocks), "disk E", "new R E replica"]:
        im.cmd(c)
    proofs = []
    lens = []

    def fetch(req):
        pa = im.cmd("prove W " + req)
        if pa.startswith("ok ") and pa != "ok none":
            if im.cmd("apply R " + pa[3:]) == "ok 1":
                proofs.append(pa[3:])
                # (a partial upgrade carries additional nodes and brings the replica to the writer's full length)
                lens.append(int(im.cmd("info R").split(" ")[1]))
    first = r.randrange(n)
    fetch("%d,0 - - 0,%d" % (first, n))
    order = [i for i in range(n) if i != first]
    r.shuffle(order)
    for i in order[:3]:
        fetch("%d,%s - - -" % (i, im.cmd("missing R %d" % i).split(" ")[1]))
    # re-delivery of blocks the replica already holds (the same block from two peers)
    fetch("%d,0 - - -" % first)
    if len(order) > 0:
        fetch("%d,0 - - -" % order[0])
    # the writer grows: upgrade-only, then a block of the new part with the rest of the upgrade
    im.cmd("append W " + " ".join(hexb(b) for b in grow))
    blocks = blocks + grow
    if len(grow) > 1:
        fetch("- - - %d,%d" % (n, 1))
    j = n + len(grow) - 1
    fetch("%d,%s - - %d,%d" % (j, im.cmd("missing R %d" % j).split(" ")[1], int(im.cmd("info R").split(" ")[1]), n + len(grow) - int(im.cmd("info R").split(" ")[1])))
    for i in order[3:5]:
        fetch("%d,%s - - -" % (i, im.cmd("missing R %d" % i).split(" ")[1]))
    total = len(blocks)

    def state_after(k):
        held = set()
        for q in proofs[:k]:
            pr = repl.parse_proof(q)
            if pr["block"] is not None:
                held.add(pr["block"]["index"])
        return held, (lens[k - 1] if k else 0)
    for k in range(len(proofs)):
        setup = ["disk E", "new R E replica"] + ["apply R " + q for q in proofs[:k]]
        # some of the applications run on a reopened (cold) instance
        if k and r.random() < 0.4:
            setup += ["drop R", "open R E"]
        im.cmd("reset")
        for c in setup:
            im.cmd(c)
        a = int(im.cmd("opcount E").split(" ")[1])
        if im.cmd("apply R " + proofs[k]) != "ok 1":
            continue
        b = int(im.cmd("opcount E").split(" ")[1])
        held0, len0 = state_after(k)
        held1, len1 = state_after(k + 1)
        for kf in range(a, b):
            res.count("replica-faults-injected")
            im.cmd("reset")
            for c in setup:
                im.cmd(c)
            im.cmd("fail E %d" % kf)
            ans = im.cmd("apply R " + proofs[k])
            im.cmd("fail E off")
            lab = "replica, application number %d (%s) of %d honest proofs, I/O error at its storage operation %d" % (
                k, " ".join(x for x in ("block" if repl.parse_proof(proofs[k])["block"] else "", "upgrade" if repl.parse_proof(proofs[k])["upgrade"] else "",
                                        "re-delivery" if held1 == held0 and repl.parse_proof(proofs[k])["block"] else "") if x), len(proofs), kf - a)
            rep = dict(blocks=[hexb(x) for x in blocks], proofs=[q[:300] for q in proofs[:k + 1]], setup_tail=setup[-2:], fail_at=kf - a)
            if klass(ans) == "crash":
                found.append(dict(key="fault:crash", what="%s -> %s" % (lab, ans[:120]), replay=rep)); break
            if not ans.startswith("err"):
                found.append(dict(key="fault:success", what="%s: the call answered %s although a storage operation failed" % (lab, ans[:60]), replay=rep)); break
            res.count("replica-fault-answer:" + ans)
            im.cmd("drop R")
            oa = im.cmd("open R E")
            if oa != "ok":
                found.append(dict(key="fault:reopen", what="%s: reopening the replica -> %s" % (lab, oa[:120]), replay=rep)); break
            info = im.cmd("info R").split(" ")
            if int(info[1]) not in (len0, len1):
                found.append(dict(key="fault:length", what="%s: after reopening the length is %s (before the call %d, after it %d)" % (lab, info[1], len0, len1), replay=rep)); break
            bad = None
            for i in range(total + 1):
                h = im.cmd("has R %d" % i)
                g = im.cmd("get R %d" % i)
                if i in held0:
                    if h != "ok 1" or g != "ok some " + (hexb(blocks[i]) if blocks[i] else "_"):
                        bad = "block %d was held before the failed call; after reopening has = %s, get = %s (the writer's block is %s)" % (i, h, g[:70], hexb(blocks[i])[:50])
                elif i in held1:
                    if h == "ok 1" and g != "ok some " + (hexb(blocks[i]) if blocks[i] else "_"):
                        bad = "block %d (the block of the failed call) is held after reopening but get = %s" % (i, g[:70])
                elif h != "ok 0":
                    bad = "block %d was never delivered; after reopening has = %s" % (i, h)
                if bad:
                    break
            if bad:
                found.append(dict(key="fault:state", what="%s: %s" % (lab, bad), replay=rep)); break
            res.count("replica-fault-recovered")
        if found:
            return found
    return found


def read_only_calls_fault(pair, r, res, tier):
    """the calls that only READ storage — get of a held block, missing_nodes (by block and by tree index), create_proof for block /
    hash / seek / upgrade requests — on a writer whose tree lives in the store only (flushed, reopened: nothing in memory) and on a
    replica holding part of the log: one I/O error at EVERY storage operation of the call; the call must answer an error (an I/O
    error read as 'node absent' would make missing_nodes / a seek proof answer a wrong value), and the same call afterwards, without
    a fault, answers what it answered in the fault-free run (nothing was disturbed). Implementation only."""
    im = pair.impl
    found = []
    n = r.choice([6, 9, 13])
    wsetup = ["disk D", "new W D writer"] + ["append W %s" % hexb(bytes([65 + j]) * (j % 4 + 1)) for j in range(n)] + ["drop W", "open W D"]
    total = sum(j % 4 + 1 for j in range(n))
    targets = [("get W %d" % r.randrange(n), "get of a held block")]
    targets += [("missing W %d" % i, "missing_nodes") for i in sorted(set([0, n // 2, n - 1]))]
    targets += [("missingt W %d" % j, "missing_nodes_from_merkle_tree_index") for j in sorted(set([1, 3, 2 * (n // 2) + 1 if n > 2 else 1]))]
    targets += [("prove W %d,0 - - -" % r.randrange(n), "create_proof block"),
                ("prove W - - %d -" % r.randrange(total), "create_proof seek"),
                ("prove W %d,1 - %d -" % (n // 2, r.randrange(total)), "create_proof block + seek"),
                ("prove W - %d,0 %d -" % (2 * r.randrange(n), r.randrange(total)), "create_proof hash + seek"),
                ("prove W %d,0 - - 0,%d" % (r.randrange(n), n), "create_proof block + upgrade"),
                ("prove W - - %d 0,%d" % (r.randrange(total), n), "create_proof seek + upgrade")]

    def opcount(d):
        return int(im.cmd("opcount " + d).split(" ")[1])

    def scenario(setup, target, disk, label):
        im.cmd("reset")
        for c in setup:
            im.cmd(c)
        a = opcount(disk)
        ans0 = im.cmd(target)
        b = opcount(disk)
        if not ans0.startswith("ok"):
            return
        for kf in range(a, b):
            res.count("read-only-call-faults")
            im.cmd("reset")
            for c in setup:
                im.cmd(c)
            im.cmd("fail %s %d" % (disk, kf))
            ans = im.cmd(target)
            im.cmd("fail %s off" % disk)
            rep = dict(setup=[c[:120] for c in setup], target=target, fail_at=kf - a, fault_free_answer=ans0[:200])
            if klass(ans) == "crash":
                found.append(dict(key="fault:crash", what="%s (`%s`): I/O error at its storage operation %d of %d -> %s" % (label, target, kf - a, b - a, ans[:120]), replay=rep))
                return
            if not ans.startswith("err"):
                found.append(dict(key="fault:success", what="%s (`%s`): I/O error at its storage operation %d of %d, the call answered %s "
                                  "(without the fault: %s) although a storage operation failed" % (label, target, kf - a, b - a, ans[:80], ans0[:80]), replay=rep))
                return
            again = im.cmd(target)
            if again != ans0:
                found.append(dict(key="fault:disturbed", what="%s (`%s`): after an I/O error at its storage operation %d the same call answers %s, "
                                  "fault-free it answers %s" % (label, target, kf - a, again[:80], ans0[:80]), replay=rep))
                return
    for target, label in targets:
        scenario(wsetup, target, "D", label + " on a reopened writer")
        if found:
            return found
    # a replica holding part of the log (blocks fetched out of order), reopened
    im.cmd("reset")
    for c in wsetup + ["disk E", "new R E replica"]:
        im.cmd(c)
    applied = []
    pa = im.cmd("prove W %d,0 - - 0,%d" % (n // 2, n))
    if pa.startswith("ok ") and pa != "ok none" and im.cmd("apply R " + pa[3:]) == "ok 1":
        applied.append(pa[3:])
    for i in r.sample(range(n), min(3, n)):
        pa = im.cmd("prove W %d,%s - - -" % (i, im.cmd("missing R %d" % i).split(" ")[1]))
        if pa.startswith("ok ") and pa != "ok none" and im.cmd("apply R " + pa[3:]) == "ok 1":
            applied.append(pa[3:])
    rsetup = ["disk E", "new R E replica"] + ["apply R " + q for q in applied] + ["drop R", "open R E"]
    rt = [("missing R %d" % i, "missing_nodes") for i in range(0, n, max(1, n // 4))]
    rt += [("missingt R %d" % j, "missing_nodes_from_merkle_tree_index") for j in (1, 3, 5)]
    rt += [("get R %d" % (n // 2), "get of a held block"), ("prove R %d,0 - - -" % (n // 2), "create_proof block")]
    for target, label in rt:
        scenario(rsetup, target, "E", label + " on a reopened replica")
        if found:
            return found
    return found


def main(tier, seed):
    res = Result("C10", tier, seed)
    res.gate = coq_gate("C10.v", clean=(tier == "thorough"))
    build_harness(); build_model()
    r = random.Random(seed)
    pair = Pair(compare_journal=False)
    try:
        hs = [[("append", [b"a"]), ("append", [b"b", b"c"]), ("clear", 0, 1), ("reopen",), ("append", [b"d"]), ("get", 1)],
              [("append", [b"a"]), ("append", [b"b"]), ("readonly",), ("reopen",)]]
        for _ in range(6 if tier == "quick" else 150):
            hs.append(random_history(r, r.choice([3, 5, 7]), reopen_p=0.2, clear_p=0.2))
        for h in hs:
            vs = fault_history(pair, h, res)
            res.add_case(tuple(op_text(o) for o in h), True, sample=[op_text(o) for o in h][:8] if res.evaluations % 3 == 0 else None)
            res.violations.extend(vs)
            pair.disagreements = [d for d in pair.disagreements if d.get("level") != "journal"]
            res.disagreements.extend(pair.disagreements[:2]); pair.disagreements = []
            if len(res.violations) >= 4:
                break
        for k in range(2 if tier == "quick" else 40):
            vs = replica_fault_world(pair, r, res, tier)
            res.add_case(("replica-fault-world", k), True, sample="writer + replica, honest proofs incl. re-delivered blocks and upgrade-only; fault at every storage operation of every application" if k == 0 else None)
            res.violations.extend(vs)
            if len(res.violations) >= 4:
                break
        for k in range(2 if tier == "quick" else 30):
            vs = read_only_calls_fault(pair, r, res, tier)
            res.add_case(("read-only-calls-fault", k), True, sample="get / missing_nodes / create_proof (block, hash, seek, upgrade) on a reopened writer and a reopened replica; fault at every storage operation of the call" if k == 0 else None)
            res.violations.extend(vs)
            if len(res.violations) >= 4:
                break
        res.extra["commands_compared"] = pair.ncmp
    finally:
        pair.close()
    return res.finish(
        "theorems of coq/props/C10.v (a failed storage operation leaves the disk at a journal prefix, hence C02 applies); on the "
        "implementation one I/O error is injected at every storage operation (reads, length queries, writes, deletes, truncates, "
        "during open too) of every history: the call must answer an error, and reopening must show the before-or-after state",
        "corpus + seeded random histories; every storage-operation index of every step is a fault point")


if __name__ == "__main__":
    sys.exit(main(sys.argv[1], seed_from_env()))
